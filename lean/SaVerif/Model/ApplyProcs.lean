/-
M-APPLYPROCS: the two branches of `_apply_processors` (lib/sqlalchemy/engine/_result_cy.py) and
the `proc_valid` index list computed for the pure-Python one in `_row_getters`.
Import-free, total, executable; generic in the value type (values may be NULL) and in the
processor functions (a processor need not map NULL to NULL).

Python                                                         model
-------------------------------------------------------------  ---------------------------
proc_valid = tuple([i for i, p in enumerate(processors)
                    if p is not None])                          procValid
if cython.compiled:                                             applyCompiled
    for i in range(proc_size):
        p = proc[i]
        value = p(data[i]) if p is not None else data[i]
        PyTuple_SET_ITEM(res, i, value)
else:                                                           applyPure
    res = list(data)
    for i in proc_valid: res[i] = proc[i](res[i])
    return tuple(res)
`assert len(input_row) == proc_size` (first row)                applyProcsBoth = none

`applyPureSkipNull` is NOT the code: it is the pure branch with `if value is not None` inserted
(a plausible "NULLs pass through" optimisation), kept to show that the agreement theorem is
sensitive to it.
-/
namespace SaVerif.ApplyProcs

/-- one slot of the processors tuple: `none` = no processor for that column -/
abbrev Slot (α : Type) := Option (α → α)

def procValidFrom {α : Type} : Nat → List (Slot α) → List Nat
  | _, [] => []
  | i, none :: ps => procValidFrom (i + 1) ps
  | i, some _ :: ps => i :: procValidFrom (i + 1) ps

/-- `[i for i, p in enumerate(processors) if p is not None]` -/
def procValid {α : Type} (procs : List (Slot α)) : List Nat := procValidFrom 0 procs

/-- the compiled branch: position by position over `range(proc_size)` -/
def applyCompiled {α : Type} : List (Slot α) → List α → List α
  | [], _ => []
  | _ :: _, [] => []
  | none :: ps, v :: vs => v :: applyCompiled ps vs
  | some f :: ps, v :: vs => f v :: applyCompiled ps vs

/-- `res[i] = proc[i](res[i])` -/
def applyAt {α : Type} (procs : List (Slot α)) (res : List α) (i : Nat) : List α :=
  match procs[i]?, res[i]? with
  | some (some f), some v => res.set i (f v)
  | _, _ => res

/-- the pure-Python branch: copy, then overwrite the positions listed in `proc_valid` -/
def applyPure {α : Type} (procs : List (Slot α)) (valid : List Nat) (data : List α) : List α :=
  valid.foldl (applyAt procs) data

/-- `_row_cy._apply_processors` (pure branch): `for i in range(proc_size): p = proc[i];
    if p is not None: res[i] = p(res[i])` -/
def applyRowPure {α : Type} (procs : List (Slot α)) (data : List α) : List α :=
  (List.range procs.length).foldl (applyAt procs) data

/-- what a row getter does with one raw row: both branches, `none` when the width assertion fails -/
def applyProcsBoth {α : Type} (procs : List (Slot α)) (data : List α) : Option (List α × List α) :=
  if procs.length != data.length then none
  else some (applyCompiled procs data, applyPure procs (procValid procs) data)

/-- NOT the code: the pure branch skipping NULL values -/
def applyAtSkipNull {β : Type} (procs : List (Slot (Option β))) (res : List (Option β)) (i : Nat) :
    List (Option β) :=
  match procs[i]?, res[i]? with
  | some (some f), some (some v) => res.set i (f (some v))
  | _, _ => res

def applyPureSkipNull {β : Type} (procs : List (Slot (Option β))) (valid : List Nat)
    (data : List (Option β)) : List (Option β) :=
  valid.foldl (applyAtSkipNull procs) data

/-! the processor family of the harness over nullable integers -/
inductive NProc where
  | none | neg | dbl | nz
deriving Repr, DecidableEq

/-- `nz` = `lambda v: 77 if v is None else v`; `neg`/`dbl` are only ever given non-NULL values
    (in Python they raise on None; the driver refuses such requests) -/
def NProc.slot : NProc → Slot (Option Int)
  | .none => Option.none
  | .neg => some (fun v => v.map (fun x => -x))
  | .dbl => some (fun v => v.map (fun x => x * 2))
  | .nz => some (fun v => match v with | Option.none => some 77 | some x => some x)

def NProc.acceptsNull : NProc → Bool
  | .none => true
  | .nz => true
  | _ => false

end SaVerif.ApplyProcs
