/-
M-BIND (part 4, C03): the @_generative discipline.  Transcription of

  lib/sqlalchemy/sql/base.py   Generative._generate   s.__dict__ = self.__dict__.copy()
                               _generative decorator  self = self._generate(); fn(self, …)

`_generate` is a SHALLOW copy: parent and child share every attribute value.  A
generative method is safe iff it rebinds the attribute to a new object
(`self._where_criteria += (c,)` on a tuple) instead of mutating the shared one
(`self._x.append(c)` on a list).

Python                              model
----------------------------------  -----------------------------------------
object identity of attribute value  address into `Heap` (index)
self.__dict__.copy()                the child starts with the parent's `attrs`
self.a = self.a + (c,)              `Op.rebuild a c` : allocate a new cell
self.a.append(c)                    `Op.mutate a c`  : update the shared cell
str(stmt.compile())                 `observe` : the dereferenced attributes

Import-free, total, executable.
-/
namespace SaVerif.Generative

abbrev Heap := List (List Nat)

structure Obj where
  attrs : List (Nat × Nat)     -- attribute name ↦ address
  deriving DecidableEq, Repr

inductive Op
  | rebuild (attr : Nat) (c : Nat)
  | mutate (attr : Nat) (c : Nat)
  deriving DecidableEq, Repr

def alookup (a : Nat) : List (Nat × Nat) → Option Nat
  | [] => none
  | (k, v) :: r => if k = a then some v else alookup a r

def aset (a v : Nat) : List (Nat × Nat) → List (Nat × Nat)
  | [] => [(a, v)]
  | (k, w) :: r => if k = a then (k, v) :: r else (k, w) :: aset a v r

def deref (h : Heap) (addr : Nat) : List Nat := h.getD addr []

/-- what compiling the object shows -/
def observe (h : Heap) (o : Obj) : List (Nat × List Nat) :=
  o.attrs.map (fun kv => (kv.1, deref h kv.2))

/-- one generative call on `o`: the child is a shallow copy, then the method body -/
def step (h : Heap) (o : Obj) : Op → Heap × Obj
  | .rebuild a c =>
    let old := match alookup a o.attrs with | some ad => deref h ad | none => []
    (h ++ [old ++ [c]], { attrs := aset a h.length o.attrs })
  | .mutate a c =>
    match alookup a o.attrs with
    | some ad => (h.set ad (deref h ad ++ [c]), o)
    | none => (h ++ [[c]], { attrs := aset a h.length o.attrs })

/-- a chain of generative calls; returns the final heap and every statement of the
    chain (the ancestors first) -/
def chain (h : Heap) (o : Obj) : List Op → Heap × List Obj
  | [] => (h, [o])
  | op :: r =>
    let s := step h o op
    let rest := chain s.1 s.2 r
    (rest.1, o :: rest.2)

end SaVerif.Generative
