import SaVerif.Gen.SqliteTypes
import SaVerif.Gen.SqlitePk
/-
M-TYPES (SQLite part): transcription of lib/sqlalchemy/dialects/sqlite/base.py
  SQLiteDialect._resolve_type_affinity, SQLiteDialect._find_cols_in_sig
and, independently, of SQLite's own column-affinity rule (sqlite.org/datatype3.html §3.1).
Core Lean only, total, executable.

Python                                             model
-------------------------------------------------  ------------------------------------------
re.match(r"([\w ]+)(\(.*?\))?", type_)             splitType   (`\w` for ASCII)
coltype in self.ischema_names                      lookup in Gen.SqliteTypes.ischema (regenerated)
"INT" in coltype ... else NUMERIC                  affinityClass
re.findall(r"(\d+)", args)                         digitRuns
coltype(*ints) / TypeError -> coltype()            Gen.SqliteTypes.classDdl (class, n) -> (DDL text, args used)
re.finditer(r'(?:"(.+?)")|([a-z0-9_]+)', sig, re.I)   findCols
-/
namespace SaVerif.SqliteReflect
open SaVerif.Gen.SqliteTypes

abbrev Str := List Char

def isWord (c : Char) : Bool := c.isAlphanum || c == '_'

/-- substring test `needle in hay` -/
def isInfix (needle : Str) : Str → Bool
  | [] => needle.isEmpty
  | hay@(_ :: t) => needle.isPrefixOf hay || isInfix needle t

/-- SQLite's rule for the affinity of a declared type -/
def sqliteAffinity (name : Str) : String :=
  let n := name.map Char.toUpper
  if isInfix "INT".toList n then "INTEGER"
  else if isInfix "CHAR".toList n || isInfix "CLOB".toList n || isInfix "TEXT".toList n then "TEXT"
  else if isInfix "BLOB".toList n || n.isEmpty then "BLOB"
  else if isInfix "REAL".toList n || isInfix "FLOA".toList n || isInfix "DOUB".toList n then "REAL"
  else "NUMERIC"

/-- `re.match(r"([\w ]+)(\(.*?\))?", type_)`: (group 1, group 2); no match → ("", some "") -/
def splitType (s : Str) : Str × Option Str :=
  let name := s.takeWhile (fun c => isWord c || c == ' ')
  if name.isEmpty then ([], some [])
  else
    match s.dropWhile (fun c => isWord c || c == ' ') with
    | '(' :: rest =>
      -- `.*?` does not cross a newline
      let inner := rest.takeWhile (fun c => c != ')' && c != '\n')
      match rest.dropWhile (fun c => c != ')' && c != '\n') with
      | ')' :: _ => (name, some ('(' :: inner ++ [')']))
      | _ => (name, none)
    | _ => (name, none)

/-- `re.findall(r"(\d+)", args)`: the maximal digit runs -/
def digitRuns : Nat → Str → List Str
  | 0, _ => []
  | _, [] => []
  | fuel + 1, s@(c :: t) =>
    if c.isDigit then s.takeWhile Char.isDigit :: digitRuns fuel (s.dropWhile Char.isDigit)
    else digitRuns fuel t

/-- the class `_resolve_type_affinity` picks for the type name -/
def affinityClass (coltype : Str) : String :=
  match ischema.find? (fun kv => kv.1.toList == coltype) with
  | some kv => kv.2
  | none =>
    if isInfix "INT".toList coltype then "INTEGER"
    else if isInfix "CHAR".toList coltype || isInfix "CLOB".toList coltype || isInfix "TEXT".toList coltype then "TEXT"
    else if isInfix "BLOB".toList coltype || coltype.isEmpty then "NullType"
    else if isInfix "REAL".toList coltype || isInfix "FLOA".toList coltype || isInfix "DOUB".toList coltype then "REAL"
    else "NUMERIC"

/-- (class name, number of integer arguments found) -/
def resolve (s : Str) : String × Nat :=
  let (coltype, args) := splitType s
  let n := match args with
    | none => 0
    | some a => (digitRuns a.length a).length
  (affinityClass coltype, n)

/-- DDL text of the reflected type (`""` for NullType, which cannot be rendered) with the
    argument values abstracted: the regenerated table was built with the arguments 7, 3 -/
def ddlOf (r : String × Nat) : Option String :=
  if r.1 == "NullType" then some ""
  else (classDdl.find? (fun row => row.1 == r.1 && row.2.1 == r.2)).map (·.2.2.1)

/-! ### _find_cols_in_sig -/

def isIdentChar (c : Char) : Bool := c.isAlphanum || c == '_'

/-- `re.finditer(r'(?:"(.+?)")|([a-z0-9_]+)', sig, re.I)`, yielding group 1 or group 2 -/
def findCols : Nat → Str → List Str
  | 0, _ => []
  | _, [] => []
  | fuel + 1, s@(c :: t) =>
    if c == '"' then
      -- `"(.+?)"`: at least one character that is not a newline, up to the next `"`
      match t with
      | [] => []
      | x :: t' =>
        if x == '\n' then findCols fuel t
        else
          let body := t'.takeWhile (fun y => y != '"' && y != '\n')
          match t'.dropWhile (fun y => y != '"' && y != '\n') with
          | '"' :: rest => (x :: body) :: findCols fuel rest
          | _ => findCols fuel t
    else if isIdentChar c then
      s.takeWhile isIdentChar :: findCols fuel (s.dropWhile isIdentChar)
    else findCols fuel t

def findColsInSig (s : Str) : List Str := findCols (s.length + 1) s

/-! ### where SQLiteDDLCompiler renders the primary key

Two sites decide it independently: `get_column_specification` adds an inline
`PRIMARY KEY AUTOINCREMENT` to the column, `visit_primary_key_constraint` returns None
(no table-level `PRIMARY KEY (...)`).  Both conditions are conjunctions of the same five
facts about the column; the conjunct lists are regenerated from the source. -/

/-- facts about a primary-key column: bit i of `a` = atom i
    (0 primary_key, 1 table has sqlite_autoincrement, 2 single-column key, 3 Integer affinity, 4 no foreign key) -/
def atomHolds (a : Nat) (i : Nat) : Bool := a.testBit i

def conj (atoms : List Nat) (a : Nat) : Bool := atoms.all (atomHolds a)

/-- the column gets the inline PRIMARY KEY -/
def pkInline (a : Nat) : Bool := conj SaVerif.Gen.SqlitePk.inlineAtoms a

/-- the table-level PRIMARY KEY constraint is rendered -/
def pkTableLevel (a : Nat) : Bool := !conj SaVerif.Gen.SqlitePk.suppressAtoms a

end SaVerif.SqliteReflect
