import SaVerif.Model.Imv
/-
M-ORM (loader strategies): relational meaning of the query plans of
  lib/sqlalchemy/orm/strategies.py  _LazyLoader / _ImmediateLoader (per-parent SELECT),
                                    _JoinedLoader (LEFT OUTER JOIN + row de-duplication),
                                    _SubqueryLoader (JOIN against the primary query as a
                                    subquery), _SelectInLoader (IN, chunks of 500)
  lib/sqlalchemy/orm/context.py     _ORMSelectCompileState: the primary query is wrapped in a
                                    subquery when LIMIT/OFFSET/DISTINCT meets a joined
                                    eager collection
  lib/sqlalchemy/orm/loading.py     instances(): rows -> identity-keyed objects, collections
                                    appended in row order
Core Lean only (imports the chunking of M-IMV), total, executable.

plan                                                     model
-------------------------------------------------------  -----------------------------
primary query (filter / ORDER BY / OFFSET / LIMIT)        a list `ps` of parents (its result)
relationship ORDER BY                                     `srt`, any function commuting
                                                          with filtering (= stable sort)
SELECT child WHERE child.fk = :pk ORDER BY ..             childrenOf            (lazy, immediate)
SELECT child WHERE child.fk IN (<=500 pks) ORDER BY ..    selectinChunk / selectinGraph
SELECT child, anon.pk FROM (primary) anon JOIN child ..   subqueryGraph
SELECT .. FROM (primary) anon LEFT OUTER JOIN child ..    lojRows + assemble    (joined)
the same without the subquery wrap                        joinedUnwrapped
-/
namespace SaVerif.Loader

structure Parent where
  id : Nat
  x : Int
deriving Repr, DecidableEq

structure Child where
  id : Nat
  fk : Option Nat
  k : Int
deriving Repr, DecidableEq

/-- loaded object graph: the parents in result order, each with its collection in order -/
abbrev Graph := List (Parent × List Child)

def belongs (p : Parent) (c : Child) : Bool := c.fk == some p.id

/-- `SELECT child WHERE child.fk = :pk ORDER BY <relationship order_by>` -/
def childrenOf (srt : List Child → List Child) (cs : List Child) (p : Parent) : List Child :=
  srt (cs.filter (belongs p))

/-- lazy / immediate loading: one SELECT per parent -/
def lazyGraph (srt : List Child → List Child) (cs : List Child) (ps : List Parent) : Graph :=
  ps.map (fun p => (p, childrenOf srt cs p))

/-- one selectin statement: `WHERE child.fk IN (chunk) ORDER BY ..`, rows then grouped by
    foreign key in row order -/
def selectinChunk (srt : List Child → List Child) (cs : List Child) (chunk : List Parent) : Graph :=
  let rows := srt (cs.filter (fun c => chunk.any (fun p => belongs p c)))
  chunk.map (fun p => (p, rows.filter (belongs p)))

/-- selectin loading in chunks of `n` primary keys (500 in the code) -/
def selectinGraph (n : Nat) (srt : List Child → List Child) (cs : List Child) (ps : List Parent) : Graph :=
  ((SaVerif.Imv.chunk n ps).map (selectinChunk srt cs)).flatten

/-- subquery loading: the primary query's keys joined to the child table, ordered by the
    relationship's ORDER BY, grouped by parent key in row order -/
def subqueryGraph (srt : List Child → List Child) (cs : List Child) (ps : List Parent) : Graph :=
  let rows := srt (ps.flatMap (fun q => cs.filter (belongs q)))
  ps.map (fun p => (p, rows.filter (belongs p)))

/-- rows of `primary LEFT OUTER JOIN child ORDER BY <primary order>, <relationship order>` -/
def lojBlock (srt : List Child → List Child) (cs : List Child) (p : Parent) :
    List (Parent × Option Child) :=
  match childrenOf srt cs p with
  | [] => [(p, none)]
  | l => l.map (fun c => (p, some c))

def lojRows (srt : List Child → List Child) (cs : List Child) (ps : List Parent) :
    List (Parent × Option Child) :=
  ps.flatMap (lojBlock srt cs)

/-- `loading.instances` for one row: the parent is looked up by identity; a new parent is
    appended, a known one gets the row's child appended to its collection -/
def addRow (g : Graph) (p : Parent) (oc : Option Child) : Graph :=
  if g.any (fun e => e.1.id == p.id) then
    g.map (fun e => if e.1.id == p.id then (e.1, e.2 ++ oc.toList) else e)
  else g ++ [(p, oc.toList)]

def assemble : List (Parent × Option Child) → Graph → Graph
  | [], g => g
  | (p, oc) :: rest, g => assemble rest (addRow g p oc)

/-- joined eager loading of the (wrapped) primary result `ps` -/
def joinedGraph (srt : List Child → List Child) (cs : List Child) (ps : List Parent) : Graph :=
  assemble (lojRows srt cs ps) []

/-- OFFSET/LIMIT as a list operation -/
def window (off : Nat) (lim : Option Nat) (l : List α) : List α :=
  match lim with
  | none => l.drop off
  | some n => (l.drop off).take n

/-- the plan SQLAlchemy must NOT emit: LIMIT/OFFSET applied to the joined rows -/
def joinedUnwrapped (srt : List Child → List Child) (cs : List Child) (all : List Parent)
    (off : Nat) (lim : Option Nat) : Graph :=
  assemble (window off lim (lojRows srt cs all)) []

/-! composite primary keys: `_SelectInLoader._init_for_omit_join` -/

/-- the child's foreign-key columns listed in the order of the PARENT's primary key:
    `[pk_to_fk[col] for col in self.parent.primary_key if col in pk_to_fk]`.  `pkToFk` is
    `local_remote_pairs`, in the order the join condition / ForeignKeyConstraint declares them. -/
def fkColsPkOrder (pk : List Nat) (pkToFk : List (Nat × Nat)) : List Nat :=
  pk.filterMap (fun c => pkToFk.lookup c)

/-- what must NOT be used: the same columns in join-condition (declaration) order -/
def fkColsJoinOrder (pk : List Nat) (pkToFk : List (Nat × Nat)) : List Nat :=
  (pkToFk.filter (fun p => pk.contains p.1)).map (·.2)

/-- key tuple of a row over the given columns -/
def keyOf (cols : List Nat) (row : List Int) : List Int := cols.map (fun c => row.getD c 0)

/-- selectin with tuple keys: `WHERE (fk cols) IN (parent key tuples)`, rows looked up by the
    parent's key tuple (primary-key order) -/
def selectinComposite (pkCols fkCols : List Nat) (parents children : List (List Int)) :
    List (List Int × List (List Int)) :=
  parents.map (fun p => (p, children.filter (fun c => keyOf fkCols c == keyOf pkCols p)))

/-! many-to-one -/

/-- scalar reference of a child: the parent whose key is the foreign key -/
def parentOf (ps : List Parent) (c : Child) : Option Parent :=
  match c.fk with
  | none => none
  | some k => ps.find? (fun p => p.id == k)

def lazyRefs (ps : List Parent) (cs : List Child) : List (Child × Option Parent) :=
  cs.map (fun c => (c, parentOf ps c))

/-- selectin for many-to-one: `SELECT parent WHERE parent.id IN (<fks>)`, then dictionary -/
def selectinRefs (ps : List Parent) (cs : List Child) : List (Child × Option Parent) :=
  let wanted := cs.filterMap (·.fk)
  let loaded := ps.filter (fun p => wanted.contains p.id)
  cs.map (fun c => (c, parentOf loaded c))

/-! a concrete ORDER BY: stable insertion sort on the key `k` -/

def insertByK (c : Child) : List Child → List Child
  | [] => [c]
  | a :: l => if c.k ≤ a.k then c :: a :: l else a :: insertByK c l

def sortByK : List Child → List Child
  | [] => []
  | c :: l => insertByK c (sortByK l)

/-- `_ORMSelectCompileState._should_nest_selectable`: must the primary query become a
    subquery before the eager LEFT OUTER JOINs are attached? -/
def shouldNest (eagerJoins multiRow hasLimit hasOffset hasFetch distinct groupBy : Bool) : Bool :=
  if !eagerJoins then false
  else (hasLimit && multiRow) || (hasOffset && multiRow) || (hasFetch && multiRow)
    || distinct || groupBy

/-- the rule before fix 63056e6: `fetch_clause` was in `_select_args` but not consulted
    (finding F23); kept to state what the fix changed -/
def shouldNestOld (eagerJoins multiRow hasLimit hasOffset hasFetch distinct groupBy : Bool) : Bool :=
  let _ := hasFetch
  if !eagerJoins then false
  else (hasLimit && multiRow) || (hasOffset && multiRow) || distinct || groupBy

/-- what the property needs: any row-limiting clause on the primary query has to be
    applied before a row-multiplying eager join -/
def nestNeeded (eagerJoins multiRow hasLimit hasOffset hasFetch distinct groupBy : Bool) : Bool :=
  eagerJoins && (((hasLimit || hasOffset || hasFetch) && multiRow) || distinct || groupBy)

/-- statements emitted for a one-level collection load of `n` parents -/
def statementCount (strategy : String) (nparents : Nat) : Nat :=
  match strategy with
  | "lazy" | "immediate" => 1 + nparents
  | "joined" => 1
  | "subquery" => if nparents == 0 then 1 else 2
  | "selectin" => 1 + SaVerif.Imv.totalBatches nparents 500
  | _ => 0

end SaVerif.Loader
