/-
M-EVENT (part 2): `_CompoundListener.exec_once` / `_exec_once_impl` /
`_get_exec_once_mutex` (lib/sqlalchemy/event/attr.py) as a labelled transition system
with per-thread program counters.  Import-free, total, executable.

Python                                              model
--------------------------------------------------  ----------------------------------------
def exec_once(self, *args):                          start --rdFlag b--> (b: done | ¬b: chk)
    if not self._exec_once:
        self._exec_once_impl(False, *args)
def _get_exec_once_mutex(self):
    with util.mini_gil:          # nullcontext on GIL builds, RLock on free-threaded builds
        if self._exec_once_mutex is not None:        chk --rdMutex (some _)--> sawSome ; chk --rdMutex none--> sawNone
            return self._exec_once_mutex             sawSome --rdMutexRet m--> have m   (second read)
        mutex = threading.Lock()                     sawNone --mk m--> made m      (m fresh)
        self._exec_once_mutex = mutex                made m --asg--> have m
        return mutex
    (`atomicInit = true`: the three steps above are one step `chk --init m--> have m`,
     what a real lock around the lazy creation provides)
def _exec_once_impl(self, retry, *args):
    with self._get_exec_once_mutex():                have m --acq--> locked m   (m not held)
        if not self._exec_once:                      locked m --rdFlag2 b--> (¬b: running m, runs+1
            try: self(*args)                                                | b: unlock m)
            ...                                      running m --ret--> ran m
            finally: self._exec_once = True          ran m --setFlag--> unlock m
                                                     unlock m --rel--> done
-/
namespace SaVerif.ExecOnce

inductive Pc
  | start | chk | sawSome | sawNone | made (m : Nat) | have (m : Nat) | locked (m : Nat)
  | running (m : Nat) | ran (m : Nat) | unlock (m : Nat) | done
deriving Repr, DecidableEq

inductive Label
  | rdFlag (b : Bool) | rdMutex (m : Option Nat) | rdMutexRet (m : Nat) | mk (m : Nat) | asg | init (m : Nat)
  | acq | rdFlag2 (b : Bool) | ret | setFlag | rel
deriving Repr, DecidableEq

structure Shared where
  flag  : Bool
  mutex : Option Nat
  held  : List Nat
  next  : Nat
  runs  : Nat
deriving Repr, DecidableEq

structure State extends Shared where
  pcs : List Pc
deriving Repr, DecidableEq

def init (n : Nat) : State :=
  { flag := false, mutex := none, held := [], next := 0, runs := 0, pcs := List.replicate n Pc.start }

def trans (atomicInit : Bool) (s : Shared) : Pc → Label → Option (Pc × Shared)
  | .start, .rdFlag b => if b = s.flag then some (if b then .done else .chk, s) else none
  | .chk, .rdMutex m =>
    if m = s.mutex then
      match m with
      | some _ => some (.sawSome, s)
      | none => if atomicInit then none else some (.sawNone, s)
    else none
  -- `return self._exec_once_mutex`: a second read (it may see a newer mutex when the
  -- creation is not atomic)
  | .sawSome, .rdMutexRet m => if s.mutex = some m then some (.have m, s) else none
  | .chk, .init m =>
    if atomicInit ∧ s.mutex = none ∧ m = s.next then
      some (.have m, { s with mutex := some m, next := s.next + 1 })
    else none
  | .sawNone, .mk m =>
    if atomicInit = false ∧ m = s.next then some (.made m, { s with next := s.next + 1 }) else none
  | .made m, .asg => if atomicInit = false then some (.have m, { s with mutex := some m }) else none
  | .have m, .acq => if m ∈ s.held then none else some (.locked m, { s with held := m :: s.held })
  | .locked m, .rdFlag2 b =>
    if b = s.flag then
      some (if b then (.unlock m, s) else (.running m, { s with runs := s.runs + 1 }))
    else none
  | .running m, .ret => some (.ran m, s)
  | .ran m, .setFlag => some (.unlock m, { s with flag := true })
  | .unlock m, .rel => some (.done, { s with held := s.held.erase m })
  | _, _ => none

def step (atomicInit : Bool) (s : State) (t : Nat) (l : Label) : Option State :=
  match s.pcs[t]? with
  | some pc =>
    match trans atomicInit s.toShared pc l with
    | some (pc', sh) => some { toShared := sh, pcs := s.pcs.set t pc' }
    | none => none
  | none => none

def run (atomicInit : Bool) : State → List (Nat × Label) → Option State
  | s, [] => some s
  | s, (t, l) :: rest =>
    match step atomicInit s t l with
    | some s' => run atomicInit s' rest
    | none => none

inductive Reach (atomicInit : Bool) (n : Nat) : State → Prop
  | init : Reach atomicInit n (init n)
  | step {s s' : State} {t : Nat} {l : Label} :
      Reach atomicInit n s → step atomicInit s t l = some s' → Reach atomicInit n s'

/-- thread is between `acquire` and `release` -/
def crit : Pc → Nat
  | .locked _ | .running _ | .ran _ | .unlock _ => 1
  | _ => 0

/-- thread is executing the listeners (or about to set the flag) -/
def inRun : Pc → Nat
  | .running _ | .ran _ => 1
  | _ => 0

/-- the mutex object a thread has in hand -/
def mutexOf : Pc → Option Nat
  | .have m | .locked m | .running m | .ran m | .unlock m => some m
  | _ => none

def sumMap (f : Pc → Nat) (pcs : List Pc) : Nat := (pcs.map f).sum

end SaVerif.ExecOnce
