/-
M-IMV (upsert): semantic model of INSERT .. ON CONFLICT (SQLite / PostgreSQL form, several
clauses allowed as in SQLite >= 3.35 and lib/sqlalchemy/dialects/sqlite/dml.py) and of its
execution through SQLAlchemy's executemany paths.
Import-free, total, executable.

what                                                   model
-----------------------------------------------------  ---------------------------------
table with UNIQUE / PRIMARY KEY constraints             `List Row`, `uniques : List (List Nat)`
NULLs never collide in a unique index                   conflictsOn
ON CONFLICT (cols) [DO NOTHING | DO UPDATE SET .. WHERE] Clause (target, action)
clauses are tried in the order written; a clause        pickClause
  without target (last) catches every other violation
excluded.c / table column / literal / bindparam()       Expr.excluded / existing / const / bound
SET evaluated against the OLD row (SQL semantics)       applySet
one statement per parameter set (row-at-a-time)         runRows   (each set uses its own binds)
one multi-VALUES statement per batch, whose single      runBatched (every row of a batch sees
  SET clause can only carry one value per bindparam       the FIRST set's binds: issue 13130;
                                                          positional: first of the batch, named:
                                                          first of the whole list = runBatchedFixed)
RETURNING: inserted rows and rows updated by DO UPDATE  the `Option Row` per parameter set
-/
namespace SaVerif.Upsert

abbrev Val := Option Int
abbrev Row := List Val

inductive Expr where
  | const (v : Val)
  | excluded (c : Nat)     -- the row proposed for insertion
  | existing (c : Nat)     -- the row already in the table
  | bound (k : Nat)        -- bindparam() in the SET / WHERE, value taken from the parameter set
  | add (a b : Expr)
deriving Repr, DecidableEq

inductive Cond where
  | always
  | lt (a b : Expr)
  | ne (a b : Expr)
  | isNull (a : Expr)
deriving Repr, DecidableEq

inductive Action where
  | nothing
  | update (set : List (Nat × Expr)) (cond : Cond)
deriving Repr, DecidableEq

structure Clause where
  target : Option (List Nat)   -- index_elements; none = no conflict target
  action : Action
deriving Repr, DecidableEq

structure Stmt where
  uniques : List (List Nat)    -- column lists of the PRIMARY KEY / UNIQUE constraints
  clauses : List Clause
  notNull : List Nat := []     -- NOT NULL columns (the primary key)
deriving Repr

/-- one parameter set: the row to insert and the values of the extra bindparam()s -/
structure Param where
  row : Row
  binds : List Val
deriving Repr, DecidableEq

inductive Err where
  | constraint   -- IntegrityError: a violated constraint no ON CONFLICT clause captures
deriving Repr, DecidableEq

def cell (r : Row) (c : Nat) : Val := r.getD c none

/-- two rows collide in the unique index over columns `u` (NULLs never collide) -/
def conflictsOn (u : List Nat) (a b : Row) : Bool :=
  u.all (fun c => match cell a c, cell b c with
                  | some x, some y => x == y
                  | _, _ => false)

def eval (e : Expr) (old new : Row) (binds : List Val) : Val :=
  match e with
  | .const v => v
  | .excluded c => cell new c
  | .existing c => cell old c
  | .bound k => binds.getD k none
  | .add a b =>
    match eval a old new binds, eval b old new binds with
    | some x, some y => some (x + y)
    | _, _ => none

/-- SQL three-valued logic collapsed to "is true" -/
def holds (w : Cond) (old new : Row) (binds : List Val) : Bool :=
  match w with
  | .always => true
  | .lt a b => match eval a old new binds, eval b old new binds with
    | some x, some y => decide (x < y)
    | _, _ => false
  | .ne a b => match eval a old new binds, eval b old new binds with
    | some x, some y => x != y
    | _, _ => false
  | .isNull a => (eval a old new binds).isNone

/-- `SET c = e, ...`: every right-hand side sees the old row -/
def applySet (set : List (Nat × Expr)) (old new : Row) (binds : List Val) : Row :=
  set.foldl (fun acc ce => acc.set ce.1 (eval ce.2 old new binds)) old

def violated (s : Stmt) (tbl : List Row) (r : Row) : List (List Nat) :=
  s.uniques.filter (fun u => tbl.any (conflictsOn u r))

/-- the first clause, in the order written, that captures one of the violated constraints -/
def pickClause (cls : List Clause) (viol : List (List Nat)) : Option Clause :=
  cls.find? (fun cl => match cl.target with
                       | none => true
                       | some t => viol.contains t)

/-- index of the existing row colliding with `r` on `u` -/
def findConflict (u : List Nat) (tbl : List Row) (r : Row) : Option Nat :=
  let i := tbl.findIdx (conflictsOn u r)
  if i < tbl.length then some i else none

/-- does `e` collide with a row of `tbl` other than the one at position `i`? -/
def collidesElsewhere (s : Stmt) (tbl : List Row) (i : Nat) (e : Row) : Bool :=
  s.uniques.any (fun u => (tbl.zipIdx.any (fun (x, j) => j != i && conflictsOn u e x)))

/-- one proposed row against the table: new table and the RETURNING row (if any) -/
def step (s : Stmt) (tbl : List Row) (r : Row) (binds : List Val) :
    Except Err (List Row × Option Row) :=
  let viol := violated s tbl r
  if s.notNull.any (fun c => (cell r c).isNone) then .error .constraint
  else if viol.isEmpty then .ok (tbl ++ [r], some r)
  else match pickClause s.clauses viol with
    | none => .error .constraint
    | some cl =>
      match cl.action with
      | .nothing => .ok (tbl, none)
      | .update set w =>
        let u := match cl.target with | some t => t | none => viol.headD []
        match findConflict u tbl r with
        | none => .error .constraint
        | some i =>
          let old := tbl.getD i []
          if holds w old r binds then
            let e := applySet set old r binds
            if collidesElsewhere s tbl i e || s.notNull.any (fun c => (cell e c).isNone) then
              .error .constraint
            else .ok (tbl.set i e, some e)
          else .ok (tbl, none)

/-- row-at-a-time: every parameter set is its own statement with its own binds -/
def runRows (s : Stmt) : List Row → List Param → Except Err (List Row × List (Option Row))
  | tbl, [] => .ok (tbl, [])
  | tbl, p :: ps =>
    match step s tbl p.row p.binds with
    | .error e => .error e
    | .ok (tbl', out) =>
      match runRows s tbl' ps with
      | .error e => .error e
      | .ok (tbl'', outs) => .ok (tbl'', out :: outs)

/-- one multi-VALUES statement: all rows of the batch, in VALUES order, with the binds
    of the statement (there is one SET clause per statement) -/
def runBatch (s : Stmt) (binds : List Val) : List Row → List Param →
    Except Err (List Row × List (Option Row))
  | tbl, [] => .ok (tbl, [])
  | tbl, p :: ps =>
    match step s tbl p.row binds with
    | .error e => .error e
    | .ok (tbl', out) =>
      match runBatch s binds tbl' ps with
      | .error e => .error e
      | .ok (tbl'', outs) => .ok (tbl'', out :: outs)

/-- batched execution: the non-VALUES parameters of a batch come from its first set
    (`base_parameters` / `extra_params_left/right` of `batch[0]`) -/
def runBatched (s : Stmt) : List Row → List (List Param) →
    Except Err (List Row × List (Option Row))
  | tbl, [] => .ok (tbl, [])
  | tbl, b :: bs =>
    match runBatch s ((b.head?.map (·.binds)).getD []) tbl b with
    | .error e => .error e
    | .ok (tbl', outs) =>
      match runBatched s tbl' bs with
      | .error e => .error e
      | .ok (tbl'', outs') => .ok (tbl'', outs ++ outs')

/-- named paramstyles: `base_parameters` is computed once, from `parameters[0]` of the whole
    executemany, so every batch sees the binds of the very first parameter set -/
def runBatchedFixed (s : Stmt) (binds : List Val) : List Row → List (List Param) →
    Except Err (List Row × List (Option Row))
  | tbl, [] => .ok (tbl, [])
  | tbl, b :: bs =>
    match runBatch s binds tbl b with
    | .error e => .error e
    | .ok (tbl', outs) =>
      match runBatchedFixed s binds tbl' bs with
      | .error e => .error e
      | .ok (tbl'', outs') => .ok (tbl'', outs ++ outs')

/-! ### "no bindparam() in the ON CONFLICT clause" -/

def exprUsesBound : Expr → Bool
  | .bound _ => true
  | .add a b => exprUsesBound a || exprUsesBound b
  | _ => false

def condUsesBound : Cond → Bool
  | .always => false
  | .lt a b | .ne a b => exprUsesBound a || exprUsesBound b
  | .isNull a => exprUsesBound a

def actionUsesBound : Action → Bool
  | .nothing => false
  | .update set w => set.any (fun ce => exprUsesBound ce.2) || condUsesBound w

/-- `imv.has_upsert_bound_parameters` -/
def stmtUsesBound (s : Stmt) : Bool := s.clauses.any (fun cl => actionUsesBound cl.action)

/-! ### MySQL ON DUPLICATE KEY UPDATE: assignments are applied left to right and later
    ones see the columns already assigned (single-table UPDATE semantics of MySQL) -/

def applySetSequential (set : List (Nat × Expr)) (old new : Row) (binds : List Val) : Row :=
  set.foldl (fun acc ce => acc.set ce.1 (eval ce.2 acc new binds)) old

def exprReads : Expr → List Nat
  | .existing c => [c]
  | .add a b => exprReads a ++ exprReads b
  | _ => []

end SaVerif.Upsert
