/-
M-IMV (default firing): transcription of
  lib/sqlalchemy/sql/crud.py      _scan_cols / _append_param_insert_hasdefault /
                                  _append_param_update (which columns become what)
  lib/sqlalchemy/engine/default.py DefaultExecutionContext._process_execute_defaults
Import-free, total, executable.

Python                                               model
---------------------------------------------------  ------------------------------------
compiler.column_keys (keys of the FIRST param set)    `keys : List Bool` (mask per column)
`col_key in parameters` -> _append_param_parameter    Disp.bound
c.default scalar / callable / context callable        Disp.prefetch  (compiler.insert_prefetch)
c.default.is_clause_element -> inline in VALUES/SET   Disp.inline
c.server_default / nothing                            Disp.omitted
construct_params(): bound -> value, prefetch -> None  construct (error = "A value is required
                                                      for bind parameter")
for param in compiled_parameters: for c in prefetch:  fireFrom (column order), unconditional
  is_scalar: param[k] = arg                           assignment exactly as the code does
  is_callable: param[k] = arg(self)                   callable b: value b + #earlier calls
  (context default reads current_parameters)          context src add: reads the live dict
the database storing the row                          storeInsert / storeUpdate
-/
namespace SaVerif.Defaults

/-- SQL value: `none` = NULL -/
abbrev Val := Option Int

/-- kind of `Column.default` / `Column.onupdate` (+ server side default) -/
inductive Kind where
  | none
  | scalar (v : Int)                  -- ScalarElementColumnDefault
  | callable (base : Int)             -- CallableColumnDefault, no-arg: n-th call returns base + n
  | context (src : Nat) (add : Int)   -- callable taking the context: (current_parameters[src] or 0) + add
  | sqlexpr (v : Int)                 -- ColumnElementColumnDefault: SQL expression evaluating to v
  | server (v : Int)                  -- server_default (DDL) / for onupdate: server_onupdate marker
deriving Repr, DecidableEq

inductive Disp where
  | bound | prefetch | inline | omitted
deriving Repr, DecidableEq

/-- `_scan_cols` for a non-primary-key column of an INSERT (`k` = the column's default) or
    an UPDATE (`k` = its onupdate): what the statement does with the column -/
def dispOf (k : Kind) (inKeys : Bool) : Disp :=
  if inKeys then .bound
  else match k with
    | .scalar _ | .callable _ | .context _ _ => .prefetch
    | .sqlexpr _ => .inline
    | .server _ | .none => .omitted

def disps (kinds : List Kind) (keys : List Bool) : List Disp :=
  List.zipWith dispOf kinds keys

inductive Err where
  | valueRequired   -- "A value is required for bind parameter"
deriving Repr, DecidableEq

/-- a parameter set: per column `none` = key absent, `some v` = supplied (v may be NULL) -/
abbrev Params := List (Option Val)

/-- the bind of a prefetch column in `construct_params`: the set's own value if it has
    the key (only possible when the first set lacked it), else the bind's value None -/
def prefetchSlot (p : Option Val) : Option Val :=
  match p with
  | some v => some v
  | none => some none

/-- `construct_params` for one parameter set: the live dict as a list aligned with the
    columns; `none` = no such key in the dict -/
def construct : List Disp → Params → Except Err (List (Option Val))
  | [], _ => .ok []
  | d :: ds, ps =>
    let p := ps.headD none
    match construct ds ps.tail with
    | .error e => .error e
    | .ok rest =>
      match d with
      | .bound => match p with
        | some v => .ok (some v :: rest)
        | none => .error .valueRequired
      | .prefetch => .ok (prefetchSlot p :: rest)
      | _ => .ok (none :: rest)

/-- `current_parameters.get(src) or 0` -/
def readCur (cur : List (Option Val)) (src : Nat) : Int :=
  match cur[src]? with
  | some (some (some n)) => n
  | _ => 0

/-- value and new invocation count produced by one prefetch record
    (`param[param_key] = arg` / `arg(self)`); `live` is the dict the context function sees,
    `n` the number of earlier invocations of this column's callable -/
def fireOne (k : Kind) (live : List (Option Val)) (here : Option Val) (n : Nat) :
    Option Val × Nat :=
  match k with
  | .scalar v => (some (some v), n)
  | .callable b => (some (some (b + (n : Nat))), n + 1)
  | .context src add => (some (some (readCur live src + add)), n + 1)
  | _ => (here, n)

/-- the inner loop of `_process_execute_defaults` over the columns in order.  `done` is
    the part of the live dict already walked over (with its assignments), `cur`/`counts`
    the part still ahead; the live dict at any moment is `done ++ cur`. -/
def fireFrom : List (Kind × Disp) → List (Option Val) → List (Option Val) → List Nat →
    List (Option Val) × List Nat
  | [], _, cur, counts => (cur, counts)
  | (k, d) :: rest, done, cur, counts =>
    let here := cur.headD none
    let n := counts.headD 0
    let st := if d == .prefetch then fireOne k (done ++ cur) here n else (here, n)
    let r := fireFrom rest (done ++ [st.1]) cur.tail counts.tail
    (st.1 :: r.1, st.2 :: r.2)

/-- what the database stores for an INSERT -/
def storeInsert : List (Kind × Disp) → List (Option Val) → List Val
  | [], _ => []
  | (k, d) :: rest, cur =>
    let here : Val := match d with
      | .bound | .prefetch => (cur.headD none).getD none
      | .inline => (match k with | .sqlexpr v => some v | _ => none)
      | .omitted => (match k with | .server v => some v | _ => none)
    here :: storeInsert rest cur.tail

/-- what the database stores for an UPDATE of a row whose old values are `old` -/
def storeUpdate : List (Kind × Disp) → List (Option Val) → List Val → List Val
  | [], _, _ => []
  | (k, d) :: rest, cur, old =>
    let here : Val := match d with
      | .bound | .prefetch => (cur.headD none).getD none
      | .inline => (match k with | .sqlexpr v => some v | _ => old.headD none)
      | .omitted => old.headD none
    here :: storeUpdate rest cur.tail old.tail

/-- one parameter set through construct_params + defaults; returns the final live dict -/
def rowParams (kinds : List Kind) (ds : List Disp) (counts : List Nat) (p : Params) :
    Except Err (List (Option Val) × List Nat) :=
  match construct ds p with
  | .error e => .error e
  | .ok cur => .ok (fireFrom (kinds.zip ds) [] cur counts)

/-- all parameter sets of one execution.  `ds` was fixed at compile time. -/
def runRows (kinds : List Kind) (ds : List Disp) : List Nat → List Params →
    Except Err (List (List (Option Val)) × List Nat)
  | counts, [] => .ok ([], counts)
  | counts, p :: ps =>
    match rowParams kinds ds counts p with
    | .error e => .error e
    | .ok (cur, counts') =>
      match runRows kinds ds counts' ps with
      | .error e => .error e
      | .ok (rest, counts'') => .ok (cur :: rest, counts'')

def keysOf (p : Params) : List Bool := p.map Option.isSome

/-- INSERT (single or executemany): the statement is compiled for the keys of the
    first parameter set; result = stored rows + invocation count per column -/
def execInsert (kinds : List Kind) (ps : List Params) : Except Err (List (List Val) × List Nat) :=
  let ds := disps kinds (keysOf (ps.headD []))
  match runRows kinds ds (kinds.map (fun _ => 0)) ps with
  | .error e => .error e
  | .ok (curs, counts) => .ok (curs.map (storeInsert (kinds.zip ds)), counts)

/-- `insert(t).values([row0, row1, ...])` (crud._extend_values_for_multiparams): every row
    of the multi-row VALUES gets its own binds, so a later row that leaves a column out
    gets that column's default and an explicit None stays NULL; the callables run in row
    order.  (A later row omitting a column that has no Python / SQL default is a
    CompileError in the code: `valueRequired` here.) -/
def runRowsOwn (kinds : List Kind) (first : List Bool) : List Nat → List Params →
    Except Err (List (List Val) × List Nat)
  | counts, [] => .ok ([], counts)
  | counts, p :: ps =>
    -- the statement's columns are those of the first row; within them a row decides itself
    let keys := List.zipWith (fun f own => f && own) first (keysOf p)
    let bad := (List.zipWith (fun (fk : Bool × Kind) own =>
        fk.1 && !own && (match fk.2 with | .none | .server _ => true | _ => false))
        (first.zip kinds) (keysOf p)).any id
    if bad then .error .valueRequired else
    let ds := disps kinds keys
    match rowParams kinds ds counts (List.zipWith (fun k v => if k then v else none) keys p) with
    | .error e => .error e
    | .ok (cur, counts') =>
      match runRowsOwn kinds first counts' ps with
      | .error e => .error e
      | .ok (rest, counts'') => .ok (storeInsert (kinds.zip ds) cur :: rest, counts'')

def execInsertMulti (kinds : List Kind) (ps : List Params) : Except Err (List (List Val) × List Nat) :=
  runRowsOwn kinds (keysOf (ps.headD [])) (kinds.map (fun _ => 0)) ps

/-- UPDATE: parameter set `i` updates the row with old values `olds[i]` -/
def execUpdate (onupd : List Kind) (ps : List Params) (olds : List (List Val)) :
    Except Err (List (List Val) × List Nat) :=
  let ds := disps onupd (keysOf (ps.headD []))
  match runRows onupd ds (onupd.map (fun _ => 0)) ps with
  | .error e => .error e
  | .ok (curs, counts) =>
    .ok (List.zipWith (storeUpdate (onupd.zip ds)) curs olds, counts)

/-! ## the specification: what the property asks for, row by row -/

/-- value the default of kind `k` yields for row number `i` of an execution in which
    every row omits the column; `x` = what the context function reads -/
def defaultValue (k : Kind) (i : Nat) (x : Int) : Val :=
  match k with
  | .none => none
  | .scalar v => some v
  | .callable b => some (b + (i : Nat))
  | .context _ add => some (x + add)
  | .sqlexpr v => some v
  | .server v => some v

end SaVerif.Defaults
