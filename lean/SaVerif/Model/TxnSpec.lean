import SaVerif.Model.Txn
/-
Reference specification for C23: nested-transaction semantics as a STACK OF SCOPES.
This is not a transcription of any code; it is what the property says a Connection
should look like from outside:

  * a root scope (the transaction) and a stack of savepoint scopes, each remembering
    the rows at the moment it was opened;
  * rolling a scope back restores its snapshot and ends it; committing (releasing) it
    just ends it; committing the root publishes the rows, rolling it back / closing
    restores the published rows; ending the root ends every savepoint scope;
  * an operation on an ended transaction handle raises (commit) or does nothing
    (rollback/close) and never changes anything;
  * `none` = the history leaves well-nested use at this op (a savepoint other than the
    innermost one is ended first, or an ended root handle is rolled back while
    savepoints are open); the specification makes no claim from there on.
-/
namespace SaVerif.Txn

structure Scope where
  h : Nat            -- the NestedTransaction handle
  snap : Data        -- rows when the savepoint was taken
deriving DecidableEq, Repr, Inhabited

structure Spec where
  committed : Data          -- rows other connections see
  cur : Data                -- rows this connection sees
  root : Option Nat         -- handle of the transaction in progress
  scopes : List Scope       -- open savepoints, innermost first
  kinds : List Bool         -- for every handle ever created: is it a root transaction?
deriving DecidableEq, Repr, Inhabited

def Spec.init : Spec := { committed := [], cur := [], root := none, scopes := [], kinds := [] }

/-- autobegin -/
def Spec.autobegin (s : Spec) : Spec :=
  if s.root.isNone then { s with root := some s.kinds.length, kinds := s.kinds ++ [true] } else s

def Spec.endRoot (s : Spec) (commit : Bool) : Spec :=
  if commit then { s with committed := s.cur, root := none, scopes := [] }
  else { s with cur := s.committed, root := none, scopes := [] }

def Spec.isEnded (s : Spec) (h : Nat) : Bool :=
  decide (h < s.kinds.length) && s.root != some h && !(s.scopes.any (fun sc => sc.h == h))

/-- commit() on handle h -/
def Spec.handleCommit (s : Spec) (h : Nat) : Option (Spec × Res) :=
  if s.root == some h then some (s.endRoot true, .ok)
  else
    match s.scopes with
    | sc :: rest =>
      if sc.h == h then some ({ s with scopes := rest }, .ok)
      else if rest.any (fun x => x.h == h) then none
      else if s.isEnded h then some (s, .invalidRequest) else none
    | [] => if s.isEnded h then some (s, .invalidRequest) else none

/-- rollback() / close() on handle h -/
def Spec.handleRollback (s : Spec) (h : Nat) : Option (Spec × Res) :=
  if s.root == some h then some (s.endRoot false, .ok)
  else
    match s.scopes with
    | sc :: rest =>
      if sc.h == h then some ({ s with cur := sc.snap, scopes := rest }, .ok)
      else if rest.any (fun x => x.h == h) then none
      else if s.isEnded h && !(s.kinds.getD h false) then some (s, .ok) else none
    | [] => if s.isEnded h then some (s, .ok) else none

def Spec.step (s : Spec) : Op → Option (Spec × Res)
  | .begin => if s.root.isNone then some (s.autobegin, .ok) else some (s, .invalidRequest)
  | .beginNested =>
    let s := s.autobegin
    some ({ s with scopes := ⟨s.kinds.length, s.cur⟩ :: s.scopes, kinds := s.kinds ++ [false] }, .ok)
  | .exec (.ins k) =>
    let s := s.autobegin
    match s.cur.insert k with
    | some d => some ({ s with cur := d }, .ok)
    | none => some (s, .integrity)
  | .exec (.del k) => let s := s.autobegin; some ({ s with cur := s.cur.delete k }, .ok)
  | .exec .sel => some (s.autobegin, .ok)
  | .commit => if s.root.isSome then some (s.endRoot true, .ok) else some (s, .ok)
  | .rollback => if s.root.isSome then some (s.endRoot false, .ok) else some (s, .ok)
  | .tCommit h => s.handleCommit h
  | .tRollback h => s.handleRollback h
  | .tClose h => s.handleRollback h
  | _ => none

/-- (result, state) after each op; `none` as soon as one op is outside the specification -/
def Spec.trace (s : Spec) : List Op → Option (List (Res × Spec))
  | [] => some []
  | op :: ops =>
    match s.step op with
    | none => none
    | some (s', r) =>
      match Spec.trace s' ops with
      | none => none
      | some rest => some ((r, s') :: rest)

/-- final state of an accepted history -/
def Spec.run (s : Spec) : List Op → Option Spec
  | [] => some s
  | op :: ops =>
    match s.step op with
    | none => none
    | some (s', _) => Spec.run s' ops

/-! ### the unrestricted reading of the property (used only to state what FAILS)

Ending a savepoint that is not the innermost one ends every savepoint opened after it
(that is what the database does: ROLLBACK TO / RELEASE destroy the inner savepoints), and
`rollback()` on any ended handle does nothing. -/

def popThrough (h : Nat) : List Scope → Option (Scope × List Scope)
  | [] => none
  | sc :: rest => if sc.h == h then some (sc, rest) else popThrough h rest

def Spec.stepFull (s : Spec) : Op → Spec × Res
  | .tCommit h =>
    if s.root == some h then (s.endRoot true, .ok)
    else match popThrough h s.scopes with
      | some (_, rest) => ({ s with scopes := rest }, .ok)
      | none => (s, .invalidRequest)
  | .tRollback h | .tClose h =>
    if s.root == some h then (s.endRoot false, .ok)
    else match popThrough h s.scopes with
      | some (sc, rest) => ({ s with cur := sc.snap, scopes := rest }, .ok)
      | none => (s, .ok)
  | op => (s.step op).getD (s, .ok)

def Spec.runFull (s : Spec) : List Op → Spec
  | [] => s
  | op :: ops => Spec.runFull (s.stepFull op).1 ops

end SaVerif.Txn
