import SaVerif.Lemmas.Pratt
import SaVerif.Lemmas.ExprCore
import SaVerif.Lemmas.ExprBuild
import SaVerif.Lemmas.ExprSem
import SaVerif.Model.Expr
import SaVerif.Model.ExprGrammar
import SaVerif.Model.ExprEval
/-!
# C01 — Rendered SQL preserves the meaning of the expression tree

Three groups of theorems.

**§1 Backend side (any grammar, any tree).**  A backend groups the token sequence it
receives with an operator-precedence parser over its binding-power table (`Model/Pratt.lean`).
`parse_print_roundtrip`: if a token tree is *well bracketed* for grammar `g` (`wb g t`, a
decidable, purely table-driven predicate), the backend reads the printed text back as exactly
that tree — for every tree, of any depth.  So "the rendered SQL means what the tree means"
reduces to `wb` of what the compiler emits.

**§2 SQLAlchemy side, tables.**  The precedence / associativity / negation tables are
regenerated from the working tree (`Gen/ExprTables.lean`).  For every pair (parent operator,
child operator) and both operand positions, the element SQLAlchemy constructs
(`self_group` against the parent, `is_precedent` on the regenerated numbers) renders to a
well-bracketed tree on PostgreSQL and MySQL, and on SQLite except exactly at finding F1's
pairs (`pairwise_sqlite_partial`, `sqlite_concat_counterexample`).

**§3 Semantic rewrites.**  Over three-valued logic, for all operand values: every pair of the
regenerated negation table is a true negation except `is_`/`is_not` with themselves
(`negate_table_sound_partial`, `negate_is_counterexample`); every operator in the regenerated
`_associative` set is associative (flattening is value preserving); the constant folding of
`and_` / `or_` (`_process_clauses_for_boolean`) preserves the three-valued value.
-/
namespace SaVerif.Props.C01
open SaVerif.Expr SaVerif.Pratt SaVerif.Expr.Gen


/-! ## §1 the backend reads a well-bracketed tree back as itself -/

/-- **parse_print_roundtrip** (full strength: every grammar, every tree of any size). -/
theorem parse_print_roundtrip (g : Grammar) (t : G) (h : wb g t = true) :
    parse g t.print = some t :=
  parse_print g t h

/-- the same, read as: no information is lost in the text (the printed form determines the tree) -/
theorem print_injective_on_wb (g : Grammar) (t₁ t₂ : G) (h₁ : wb g t₁ = true) (h₂ : wb g t₂ = true)
    (h : t₁.print = t₂.print) : t₁ = t₂ := by
  have a := parse_print_roundtrip g t₁ h₁
  have b := parse_print_roundtrip g t₂ h₂
  rw [h] at a
  rw [a] at b
  exact Option.some.inj b

/-- the backend's reading of a text whose associative chains were nested to the right:
    the same tree with those chains rotated to the left (`G.norm`), nothing else changed -/
theorem parse_print_norm (g : Grammar) (t : G) (h : wb g t.norm = true) :
    parse g t.print = some t.norm := by
  rw [← print_norm t]
  exact parse_print_roundtrip g t.norm h

/-- **value of the text = value of the tree**, under every interpretation of the symbols in
    which the associative operators are associative (NULL semantics included: `V` is arbitrary) -/
theorem backend_value_of_text {V : Type} (g : Grammar) (I : Interp V)
    (hassoc : ∀ s, G.assocSym s = true → ∀ a b c, I.inf s (I.inf s a b) c = I.inf s a (I.inf s b c))
    (t : G) (h : wb g t.norm = true) :
    (parse g t.print).map (evalG I) = some (evalG I t) := by
  rw [parse_print_norm g t h]
  simp [evalG_norm I hassoc]

/-- **render_meaning_preserved (backend half).**  If the emitted tree is well bracketed up to
    re-association, the backend computes from the emitted text the same value as from the
    text with every node explicitly parenthesised. -/
theorem text_value_eq_fully_parenthesised_value {V : Type} (g : Grammar) (I : Interp V)
    (hassoc : ∀ s, G.assocSym s = true → ∀ a b c, I.inf s (I.inf s a b) c = I.inf s a (I.inf s b c))
    (hparen : ∀ v, I.br .paren v = v)
    (t : G) (h : wb g t.norm = true) (hf : wb g t.fullParen = true) :
    (parse g t.print).map (evalG I) = (parse g t.fullParen.print).map (evalG I) := by
  rw [backend_value_of_text g I hassoc t h, parse_print_roundtrip g _ hf]
  simp [evalG_fullParen I hparen]

/-- non-vacuity: a three-level tree with a prefix operator, a chain and a parenthesis is
    well bracketed for the SQLite table and is read back -/
example : wb sqlite
    (G.inf .and_ " AND "
      (G.pre .not_ "NOT " (G.inf .eq " = " (G.atom ⟨"a", .col "a"⟩) (G.atom ⟨"1", .int 1⟩)))
      (G.inf .lt " < "
        (G.inf .plus " + " (G.inf .plus " + " (G.atom ⟨"b", .col "b"⟩) (G.atom ⟨"c", .col "c"⟩))
          (G.inf .star " * " (G.atom ⟨"d", .col "d"⟩) (G.atom ⟨"2", .int 2⟩)))
        (G.br .paren (G.inf .minus " - " (G.atom ⟨"e", .col "e"⟩) (G.atom ⟨"f", .col "f"⟩))))) = true := by
  decide

/-! ## §2 SQLAlchemy's grouping decisions against the backend tables -/

def colA : SaExpr := .col "a" .int
def colB : SaExpr := .col "b" .int
def colC : SaExpr := .col "c" .int

/-- binary operators the compiler renders as `left <op> right` -/
def binOps : List Op :=
  [.add, .sub, .mul, .truediv, .floordiv, .mod, .concat_op, .eq, .ne, .lt, .le, .gt, .ge,
   .is_, .is_not, .is_distinct_from, .is_not_distinct_from, .like_op, .not_like_op,
   .ilike_op, .not_ilike_op, .and_, .or_]

/-- the element `BinaryExpression(child-on-the-left, c, parent)` as SQLAlchemy constructs it -/
def leftNest (p c : Op) : SaExpr := mkBinary (mkBinary colA colB c .int none none) colC p .int none none
def rightNest (p c : Op) : SaExpr := mkBinary colA (mkBinary colB colC c .int none none) p .int none none
def negNest (p : Op) (left : Bool) : SaExpr :=
  if left then mkBinary (negImpl colA) colC p .int none none
  else mkBinary colA (negImpl colC) p .int none none
def underNeg (c : Op) : SaExpr := negImpl (mkBinary colA colB c .int none none)
def underNot (c : Op) : SaExpr := negate (mkBinary colA colB c .int none none)

/-- every (parent, child, side) cell is well bracketed for grammar `g` on dialect `d` -/
def pairwiseOK (d : Dialect) (g : Grammar) (skip : Op → Op → Bool) : Bool :=
  binOps.all fun p => binOps.all fun c =>
    skip p c ||
      (wb g (render d true (leftNest p c)).norm && wb g (render d true (rightNest p c)).norm)

def unaryOK (d : Dialect) (g : Grammar) (skip : Op → Bool) : Bool :=
  binOps.all fun p =>
    skip p ||
      (wb g (render d true (negNest p true)).norm && wb g (render d true (negNest p false)).norm &&
       wb g (render d true (underNeg p)).norm && wb g (render d true (underNot p)).norm)

def isArith (c : Op) : Bool :=
  c = .add || c = .sub || c = .mul || c = .truediv || c = .floordiv || c = .mod

/-- F1's cells: an arithmetic child directly under `concat_op` -/
def f1Cell (p c : Op) : Bool := p = .concat_op && isArith c

/-- SQLite has no ILIKE token; the compiler never emits it there (it renders `lower() LIKE`) -/
theorem pairwise_postgresql : pairwiseOK .postgresql postgresql (fun _ _ => false) = true := by
  decide +kernel

theorem pairwise_mysql : pairwiseOK .mysql mysql (fun _ _ => false) = true := by
  decide +kernel

/-
Full-strength statement, FALSE on the current tree (finding F1):

  theorem pairwise_sqlite : pairwiseOK .sqlite sqlite (fun _ _ => false) = true
-/
theorem pairwise_sqlite_partial : pairwiseOK .sqlite sqlite f1Cell = true := by
  decide +kernel

theorem pairwise_sqlite_counterexample : pairwiseOK .sqlite sqlite (fun _ _ => false) = false := by
  decide +kernel

theorem unary_sqlite : unaryOK .sqlite sqlite (fun _ => false) = true := by decide +kernel
theorem unary_postgresql : unaryOK .postgresql postgresql (fun _ => false) = true := by decide +kernel
theorem unary_mysql : unaryOK .mysql mysql (fun _ => false) = true := by decide +kernel

/-! ### the general theorem on the core fragment

`Core e`: `e` is built from columns, literals, NULL/TRUE/FALSE, the binary operators
`+ - * %  = != < <= > >=  IS  IS NOT`, flattened `+ * AND OR` lists, unary minus, NOT and
`Grouping` — of any size and depth.  `WG e`: every operand is already grouped against its
parent, i.e. `operand.self_group(against=parent.operator)` would not wrap it (what
`BinaryExpression.__init__`, `_construct_for_list`, `UnaryExpression.__init__` establish).
`coreCompat g`: the decidable compatibility of the **regenerated** precedence numbers with
grammar `g` (a higher number binds tighter in `g` on both sides; naturally self-precedent
operators are left-associative chains of `g`). -/

theorem coreCompat_sqlite : coreCompat sqlite = true := by decide +kernel
theorem coreCompat_postgresql : coreCompat postgresql = true := by decide +kernel
theorem coreCompat_mysql : coreCompat mysql = true := by decide +kernel

theorem prefixNoTern_sqlite : prefixNoTern sqlite := by
  intro u hu; simp [corePrefix] at hu; rcases hu with h | h <;> subst h <;> rfl
theorem prefixNoTern_postgresql : prefixNoTern postgresql := by
  intro u hu; simp [corePrefix] at hu; rcases hu with h | h <;> subst h <;> rfl
theorem prefixNoTern_mysql : prefixNoTern mysql := by
  intro u hu; simp [corePrefix] at hu; rcases hu with h | h <;> subst h <;> rfl

/-- **core_render_read_back** (every element of the fragment, any depth, any dialect's
    rendering, any compatible grammar): the backend reads the emitted text back as the emitted
    tree, up to re-association of the associative chains. -/
theorem core_render_read_back (d : Dialect) (g : Grammar) (hg : coreCompat g = true)
    (hpt : prefixNoTern g) (e : SaExpr) (hC : Core e = true) (hW : WG e = true) (hS : CSH g d e) :
    parse g (render d true e).print = some (render d true e).norm :=
  parse_print_norm g _ (wb_norm_of_ok g _ (ok_render g (compat_of_bool g hg) hpt d e hC hW hS))

/-- **render_meaning_preserved** on the fragment: the value the backend computes from the
    emitted text equals the value of the emitted tree — and of its fully parenthesised text —
    under every interpretation with transparent parentheses and associative `+ * || AND OR`. -/
theorem core_render_meaning_preserved {V : Type} (d : Dialect) (g : Grammar)
    (hg : coreCompat g = true) (hpt : prefixNoTern g) (I : Interp V)
    (hassoc : ∀ s, G.assocSym s = true → ∀ a b c, I.inf s (I.inf s a b) c = I.inf s a (I.inf s b c))
    (hparen : ∀ v, I.br .paren v = v)
    (e : SaExpr) (hC : Core e = true) (hW : WG e = true) (hS : CSH g d e) :
    (parse g (render d true e).print).map (evalG I) = some (evalG I (render d true e).fullParen) := by
  rw [backend_value_of_text g I hassoc _
    (wb_norm_of_ok g _ (ok_render g (compat_of_bool g hg) hpt d e hC hW hS))]
  simp [evalG_fullParen I hparen]

/-- PostgreSQL reads every bare operand of `||` as SQLAlchemy intends; SQLite does not
    (`||` binds tighter than arithmetic there: finding F1, `sqlite_concat_counterexample`) -/
theorem concatFull_postgresql : concatFull postgresql = true := by decide +kernel
theorem concatFull_sqlite : concatFull sqlite = false := by decide +kernel

mutual
/-- a dialect that spells concatenation as the function `concat(…)` has no F1 cells -/
theorem concatSafe_fn (d : Dialect) (hd : d = .mysql ∨ d = .mariadb) : ∀ e : SaExpr, ConcatSafe d e = true
  | .binary op l r _ _ _ => by
    simp only [ConcatSafe, concatSafe_fn d hd l, concatSafe_fn d hd r, Bool.and_true]
    by_cases h : op = .concat_op
    · subst h
      rcases hd with h | h <;> subst h <;> rfl
    · simp [h]
  | .clist op cs _ _ _ => by
    simp only [ConcatSafe, concatSafeList_fn d hd cs, Bool.and_true]
    by_cases h : op = .concat_op
    · subst h
      rcases hd with h | h <;> subst h <;> rfl
    · simp [h]
  | .unary _ e _ => by simp only [ConcatSafe, concatSafe_fn d hd e]
  | .grouping e => by simp only [ConcatSafe, concatSafe_fn d hd e]
  | .func _ args _ => by simp only [ConcatSafe, concatSafeList_fn d hd args]
  | .cast e _ => by simp only [ConcatSafe, concatSafe_fn d hd e]
  | .case_ v ws e _ => by
    simp only [ConcatSafe, concatSafe_fn d hd v, concatSafeList_fn d hd ws, concatSafe_fn d hd e,
      Bool.and_self]
  | .col _ _ => rfl
  | .bind _ _ => rfl
  | .null => rfl
  | .true_ => rfl
  | .false_ => rfl
  | .asbool _ _ _ => rfl
  | .subq _ _ => rfl
  | .inlist _ _ _ => rfl
  | .inrows _ _ _ => rfl
  | .tuple_ _ => rfl
  | .litcol _ _ => rfl
  | .ilikeOperand _ => rfl
  | .absent => rfl
theorem concatSafeList_fn (d : Dialect) (hd : d = .mysql ∨ d = .mariadb) :
    ∀ es : List SaExpr, ConcatSafeList d es = true
  | [] => rfl
  | e :: es => by simp only [ConcatSafeList, concatSafe_fn d hd e, concatSafeList_fn d hd es, Bool.and_self]
end

/-- SQLite, **partial**: the F1 cells (an arithmetic operator exposed under `||`) are excluded
    by `ConcatSafe` — see `sqlite_concat_counterexample` for what happens there -/
theorem core_sqlite_partial (e : SaExpr) (hC : Core e = true) (hW : WG e = true)
    (hS : ConcatSafe .sqlite e = true) :
    parse sqlite (render .sqlite true e).print = some (render .sqlite true e).norm :=
  core_render_read_back .sqlite sqlite coreCompat_sqlite prefixNoTern_sqlite e hC hW (Or.inr hS)

theorem core_postgresql (e : SaExpr) (hC : Core e = true) (hW : WG e = true) :
    parse postgresql (render .postgresql true e).print = some (render .postgresql true e).norm :=
  core_render_read_back .postgresql postgresql coreCompat_postgresql prefixNoTern_postgresql e hC hW
    (Or.inl concatFull_postgresql)

theorem core_mysql (e : SaExpr) (hC : Core e = true) (hW : WG e = true) :
    parse mysql (render .mysql true e).print = some (render .mysql true e).norm :=
  core_render_read_back .mysql mysql coreCompat_mysql prefixNoTern_mysql e hC hW
    (Or.inr (concatSafe_fn .mysql (Or.inl rfl) e))

/-! ### from the API calls to the backend's reading

`NumU` / `BoolU`: API-call trees over integer / numeric columns and literals with `+ - * %`,
unary minus, the six comparisons, `is_` / `is_not`, comparison with `None`, `and_` / `or_` of any
number of clauses (nested any way) and `~`.  `build` applies the transcribed constructors in
Python's evaluation order. -/

/-- the fragment of the ∀-theorems: numeric, boolean and string-valued API-call trees -/
def FragU (u : U) : Prop := NumU u = true ∨ BoolU u = true ∨ StrU u = true

/-- `build` of a tree of the fragment is in the core fragment and well grouped -/
theorem build_core_WG (u : U) (e : SaExpr) (hu : FragU u)
    (hb : build u = some e) : Core e = true ∧ WG e = true := by
  rcases hu with h | h | h
  · exact ⟨(build_num u e h hb).core, (build_num u e h hb).wg⟩
  · exact ⟨(build_bool u e h hb).core, (build_bool u e h hb).wg⟩
  · exact ⟨(build_str u e h hb).1.core, (build_str u e h hb).1.wg⟩

/-- **api_tree_read_back** — the end-to-end statement for the fragment: for EVERY API-call tree
    `u` (any size, any nesting), every dialect's compiler and every grammar compatible with
    the regenerated precedence table, the backend reads the emitted text back as the emitted
    tree (up to re-association of `+ * AND OR` chains). -/
theorem api_tree_read_back (d : Dialect) (g : Grammar) (hg : coreCompat g = true)
    (hpt : prefixNoTern g) (u : U) (e : SaExpr) (hu : FragU u)
    (hb : build u = some e) (hS : CSH g d e) :
    parse g (render d true e).print = some (render d true e).norm :=
  core_render_read_back d g hg hpt e (build_core_WG u e hu hb).1 (build_core_WG u e hu hb).2 hS

/-- **render_meaning_preserved** (fragment, end to end): the value the backend computes from the
    emitted text is the value of the fully parenthesised rendering, for every row and every
    interpretation of the operators in which parentheses are transparent and `+ * AND OR`
    associative (three-valued logic included). -/
theorem render_meaning_preserved {V : Type} (d : Dialect) (g : Grammar)
    (hg : coreCompat g = true) (hpt : prefixNoTern g) (I : Interp V)
    (hassoc : ∀ s, G.assocSym s = true → ∀ a b c, I.inf s (I.inf s a b) c = I.inf s a (I.inf s b c))
    (hparen : ∀ v, I.br .paren v = v)
    (u : U) (e : SaExpr) (hu : FragU u) (hb : build u = some e) (hS : CSH g d e) :
    (parse g (render d true e).print).map (evalG I) = some (evalG I (render d true e).fullParen) :=
  core_render_meaning_preserved d g hg hpt I hassoc hparen e
    (build_core_WG u e hu hb).1 (build_core_WG u e hu hb).2 hS

/-- SQLite, **partial**: for every tree of the fragment whose constructed element avoids the F1
    cells (`ConcatSafe`: no arithmetic operator exposed under `||`) -/
theorem api_tree_read_back_sqlite_partial (u : U) (e : SaExpr) (hu : FragU u)
    (hb : build u = some e) (hS : ConcatSafe .sqlite e = true) :
    parse sqlite (render .sqlite true e).print = some (render .sqlite true e).norm :=
  api_tree_read_back .sqlite sqlite coreCompat_sqlite prefixNoTern_sqlite u e hu hb (Or.inr hS)

theorem api_tree_read_back_postgresql (u : U) (e : SaExpr) (hu : FragU u)
    (hb : build u = some e) :
    parse postgresql (render .postgresql true e).print = some (render .postgresql true e).norm :=
  api_tree_read_back .postgresql postgresql coreCompat_postgresql prefixNoTern_postgresql u e hu hb
    (Or.inl concatFull_postgresql)

theorem api_tree_read_back_mysql (u : U) (e : SaExpr) (hu : FragU u)
    (hb : build u = some e) :
    parse mysql (render .mysql true e).print = some (render .mysql true e).norm :=
  api_tree_read_back .mysql mysql coreCompat_mysql prefixNoTern_mysql u e hu hb
    (Or.inr (concatSafe_fn .mysql (Or.inl rfl) e))

section Sem
variable [Abs]

/-- the standard three-valued interpretation satisfies the hypotheses of the value theorems -/
theorem stdI_assoc (env : String → Val) :
    ∀ s, G.assocSym s = true → ∀ a b c : SV,
      (stdI env).inf s ((stdI env).inf s a b) c = (stdI env).inf s a ((stdI env).inf s b c) := by
  intro s hs a b c
  cases s <;> simp [G.assocSym] at hs
  · show SV.s _ = SV.s _
    congr 1
    exact binVal_assoc .add rfl a.scalar b.scalar c.scalar
  · show SV.s _ = SV.s _
    congr 1
    exact binVal_assoc .mul rfl a.scalar b.scalar c.scalar
  · show SV.s _ = SV.s _
    congr 1
    exact binVal_assoc .concat_op rfl a.scalar b.scalar c.scalar
  · show SV.s _ = SV.s _
    congr 1
    exact binVal_assoc .and_ rfl a.scalar b.scalar c.scalar
  · show SV.s _ = SV.s _
    congr 1
    exact binVal_assoc .or_ rfl a.scalar b.scalar c.scalar

/-- **api_tree_value_bool** — C01 end to end on the fragment, *including the semantic
    rewrites*: for every boolean API-call tree `u` (no `is_`/`is_not` between two general
    operands, see `negate_is_counterexample`), every dialect's compiler, every compatible
    grammar and every row `env`: the three-valued value the backend computes from the emitted
    text is the meaning of `u` — whatever grouping, flattening of `and_`/`or_`/`+`/`*`,
    single-clause collapse and negation rewriting (`~(a < b)` ↦ `a >= b`, …) happened. -/
theorem api_tree_value_bool (d : Dialect) (g : Grammar) (hg : coreCompat g = true)
    (hpt : prefixNoTern g) (env : String → Val) (u : U) (e : SaExpr)
    (hu : BoolU u = true) (hn : noIsGen u = true) (hb : build u = some e) (hS : CSH g d e) :
    (parse g (render d true e).print).map (fun t => truth (evalG (stdI env) t).scalar)
      = some (evalBoolU env d u) := by
  have hcw := build_core_WG u e (Or.inr (Or.inl hu)) hb
  have h1 := backend_value_of_text g (stdI env) (stdI_assoc env) (render d true e)
    (wb_norm_of_ok g _ (ok_render g (compat_of_bool g hg) hpt d e hcw.1 hcw.2 hS))
  cases hp : parse g (render d true e).print with
  | none => rw [hp] at h1; simp at h1
  | some t =>
    rw [hp] at h1
    simp only [Option.map_some, Option.some.injEq] at h1 ⊢
    rw [h1, evalG_render env d e hcw.1]
    exact (build_bool_eval env d u e hu hn hb).1

/-- the same for numeric trees (value, NULL included): arithmetic, scalar subqueries (an
    abstract value per row), `cast` (the value of the dialect's CAST to the rendered type name is
    abstract: `Abs.castF`), `func.coalesce`, searched and simple `case` — whose conditions are
    boolean trees of the fragment -/
theorem api_tree_value_num (d : Dialect) (g : Grammar) (hg : coreCompat g = true)
    (hpt : prefixNoTern g) (env : String → Val) (u : U) (e : SaExpr)
    (hu : NumU u = true) (hn : noIsGen u = true) (hb : build u = some e) (hS : CSH g d e) :
    (parse g (render d true e).print).map (fun t => (evalG (stdI env) t).scalar)
      = some (evalNumU env d u) := by
  have hcw := build_core_WG u e (Or.inl hu) hb
  have h1 := backend_value_of_text g (stdI env) (stdI_assoc env) (render d true e)
    (wb_norm_of_ok g _ (ok_render g (compat_of_bool g hg) hpt d e hcw.1 hcw.2 hS))
  cases hp : parse g (render d true e).print with
  | none => rw [hp] at h1; simp at h1
  | some t =>
    rw [hp] at h1
    simp only [Option.map_some, Option.some.injEq] at h1 ⊢
    rw [h1, evalG_render env d e hcw.1]
    exact build_num_eval env d u e hu hn hb

/-- the same for string-valued trees: string columns / literals and concatenations (`||`, or
    `concat(…)` on MySQL) whose operands are string-valued or numeric trees.  On a grammar where
    `||` binds tighter than arithmetic (SQLite) the hypothesis `CSH` excludes the F1 cells. -/
theorem api_tree_value_str (d : Dialect) (g : Grammar) (hg : coreCompat g = true)
    (hpt : prefixNoTern g) (env : String → Val) (u : U) (e : SaExpr)
    (hu : StrU u = true) (hn : noIsGen u = true) (hb : build u = some e) (hS : CSH g d e) :
    (parse g (render d true e).print).map (fun t => (evalG (stdI env) t).scalar)
      = some (evalNumU env d u) := by
  have hcw := build_core_WG u e (Or.inr (Or.inr hu)) hb
  have h1 := backend_value_of_text g (stdI env) (stdI_assoc env) (render d true e)
    (wb_norm_of_ok g _ (ok_render g (compat_of_bool g hg) hpt d e hcw.1 hcw.2 hS))
  cases hp : parse g (render d true e).print with
  | none => rw [hp] at h1; simp at h1
  | some t =>
    rw [hp] at h1
    simp only [Option.map_some, Option.some.injEq] at h1 ⊢
    rw [h1, evalG_render env d e hcw.1]
    exact build_str_eval env d u e hu hn hb

/-- the same statement about `emit` (= `render ∘ lower`, the compiler's full pipeline including
    the compile-time rewriting of the LIKE-based string operators, which is the identity on
    the fragment) -/
theorem api_tree_value_bool_emit (d : Dialect) (g : Grammar) (hg : coreCompat g = true)
    (hpt : prefixNoTern g) (env : String → Val) (u : U) (e : SaExpr)
    (hu : BoolU u = true) (hn : noIsGen u = true) (hb : build u = some e) (hS : CSH g d e) :
    (parse g (emit d e).print).map (fun t => truth (evalG (stdI env) t).scalar)
      = some (evalBoolU env d u) := by
  rw [emit_core d e (build_core_WG u e (Or.inr (Or.inl hu)) hb).1]
  exact api_tree_value_bool d g hg hpt env u e hu hn hb hS

theorem api_tree_value_bool_sqlite_partial (env : String → Val) (u : U) (e : SaExpr)
    (hu : BoolU u = true) (hn : noIsGen u = true) (hb : build u = some e)
    (hS : ConcatSafe .sqlite e = true) :
    (parse sqlite (render .sqlite true e).print).map (fun t => truth (evalG (stdI env) t).scalar)
      = some (evalBoolU env .sqlite u) :=
  api_tree_value_bool .sqlite sqlite coreCompat_sqlite prefixNoTern_sqlite env u e hu hn hb (Or.inr hS)

theorem api_tree_value_bool_postgresql (env : String → Val) (u : U) (e : SaExpr)
    (hu : BoolU u = true) (hn : noIsGen u = true) (hb : build u = some e) :
    (parse postgresql (render .postgresql true e).print).map
        (fun t => truth (evalG (stdI env) t).scalar)
      = some (evalBoolU env .postgresql u) :=
  api_tree_value_bool .postgresql postgresql coreCompat_postgresql prefixNoTern_postgresql env u e
    hu hn hb (Or.inl concatFull_postgresql)

end Sem

/-- non-vacuity: a tree of the fragment with nesting, flattening, negation and `IS NULL` -/
example : BoolU (.not_ (.and_ [.bin .eq (.col "a" .int) (.li 1),
      .or_ [.bin .lt (.col "b" .int) (.bin .add (.col "c" .int) (.bin .add (.col "d" .num) (.li 2))),
            .not_ (.bin .is_ (.neg (.col "a" .int)) .null)],
      .and_ [.bin .ge (.bin .mod (.col "a" .int) (.li 3)) (.li 0)]])) = true := by
  decide

/-- non-vacuity for the bracket constructs: a searched CASE whose conditions are boolean trees
    and whose results are a COALESCE, a CAST of a scalar subquery, a simple CASE — in the
    fragment, free of `is_` between general operands, and builds -/
def bracketTree : U :=
  .case_ .absent
    [.bin .gt (.col "a" .int) (.li 0), .coalesce [.col "b" .int, .bin .add (.col "a" .int) (.li 7)],
     .not_ (.bin .eq (.col "b" .int) .null), .cast .int (.subq "q" .num),
     .or_ [.bin .lt (.col "a" .int) (.li 5), .bin .is_ (.col "b" .int) .null],
       .case_ (.col "a" .int) [.li 1, .li 10, .bin .add (.li 1) (.li 1), .neg (.col "b" .int)] .absent]
    (.neg (.col "a" .int))

example : NumU bracketTree = true ∧ noIsGen bracketTree = true ∧ (build bracketTree).isSome = true := by
  decide +kernel

/-- … and the meaning is the expected one (every column and the subquery holding the same
    value, CAST interpreted as the identity): 3 gives COALESCE(3, 3 + 7) = 3 by the first
    branch, -4 gives the CAST of the subquery by the second, NULL reaches the third branch
    (`b IS NULL`) whose simple CASE matches nothing and has no ELSE: NULL -/
example : @evalNumU ⟨fun _ _ => .null, fun _ v => v, fun _ _ => .null, fun _ _ _ => none, fun _ _ _ => none⟩ (fun _ => .int 3) .sqlite bracketTree = .int 3 := by
  decide +kernel
example : @evalNumU ⟨fun _ _ => .null, fun _ v => v, fun _ _ => .null, fun _ _ _ => none, fun _ _ _ => none⟩ (fun _ => .int (-4)) .sqlite bracketTree = .int (-4) := by
  decide +kernel
example : @evalNumU ⟨fun _ _ => .null, fun _ v => v, fun _ _ => .null, fun _ _ _ => none, fun _ _ _ => none⟩ (fun _ => .null) .sqlite bracketTree = .null := by
  decide +kernel

/-- the constructors establish the hypothesis `WG` (and stay in the fragment):
    `BinaryExpression.__init__`, `UnaryExpression.__init__`, `_construct_for_list` -/
theorem constructors_establish_WG :
    (∀ (l r : SaExpr) (op : Op) (ty : Ty) (n : Option Op), coreBin op = true →
      Core l = true → WG l = true → Core r = true → WG r = true →
      Core (mkBinary l r op ty n none) = true ∧ WG (mkBinary l r op ty n none) = true) ∧
    (∀ (x : SaExpr) (op : Op) (ty : Ty), coreUn op = true → Core x = true → WG x = true →
      Core (.unary op (selfGroup (some op) x) ty) = true ∧
        WG (.unary op (selfGroup (some op) x) ty) = true) ∧
    (∀ (op : Op) (ty : Ty) (cs : List SaExpr), coreList op = true → boolCtx op = false →
      2 ≤ cs.length → CoreList cs = true → (∀ c ∈ cs, WG c = true) →
      Core (constructForList op ty cs) = true ∧ WG (constructForList op ty cs) = true) :=
  ⟨fun l r op ty n h a b c d => mkBinary_WG l r op ty n h a b c d,
   fun x op ty h a b => unary_WG x op ty h a b,
   fun op ty cs h hb hl a b => constructForList_WG op ty cs h hb hl a b⟩

/-- non-vacuity: `NOT (a = 1 AND b < c + d * 2)` built by the model's constructors is in the
    fragment and well grouped -/
example :
    (match build (.not_ (.and_ [.bin .eq (.col "a" .int) (.li 1),
        .bin .lt (.col "b" .int) (.bin .add (.col "c" .int) (.bin .mul (.col "d" .int) (.li 2)))])) with
     | some e => Core e && WG e
     | none => false) = true := by
  decide +kernel

/-! ### the remaining constructs, every child operator in every operand position -/

def childOf (c : Op) : SaExpr := mkBinary colA colB c .int none none

/-- CASE (condition / result / value position), CAST, a function call, BETWEEN (left operand),
    LIKE … ESCAPE (both operands), the compile-time rewritten `contains` / `istartswith`,
    IN / NOT IN (incl. the empty-list form), unary minus and NOT — each around `x` -/
def formsAround (x : SaExpr) : List SaExpr :=
  [mkCase .absent [x, colC] colA, mkCase .absent [colB, x] x, mkCase x [x, colC] .absent,
   .cast x .int, mkFunc "coalesce" [x, colC, x], betweenImpl x colA colC,
   mkBinary x colC .like_op .bool (some .not_like_op) (some "/"),
   mkBinary colC x .like_op .bool (some .not_like_op) (some "/"),
   mkBinary x colC .contains_op .bool (some .not_contains_op) none,
   mkBinary colC x .contains_op .bool (some .not_contains_op) none,
   mkBinary colC x .istartswith_op .bool (some .not_istartswith_op) (some "/"),
   mkBinary x (.inlist [.int 1, .null] .int .in_op) .in_op .bool (some .not_in_op) none,
   mkBinary x (.inlist [] .int .not_in_op) .not_in_op .bool (some .in_op) none,
   negImpl x, negate x]

def formsOK (d : Dialect) (g : Grammar) : Bool :=
  binOps.all fun c => (formsAround (childOf c)).all fun e => wb g (emit d e).norm

theorem forms_sqlite : formsOK .sqlite sqlite = true := by decide +kernel
theorem forms_postgresql : formsOK .postgresql postgresql = true := by decide +kernel
theorem forms_mysql : formsOK .mysql mysql = true := by decide +kernel

/-- the model's rendering of finding F1's tree and its reading by the SQLite table -/
def f1Tree : U := .bin .concat (.bin .add (.li 1) (.li 2)) (.ls "3")

def renderU (d : Dialect) (u : U) : G :=
  match build u with
  | some e => render d true e
  | none => G.atom ⟨"", .other⟩

/-- non-vacuity for the divisions: `(a + b) / (c // (a * 2)) - a / b / 0.5` is in the fragment
    and builds; on SQLite the true divisions are spelled `x / (y + 0.0)`, the integer floor
    division is a plain `/`, and the text is read back as the intended tree -/
def divTree : U :=
  .bin .sub
    (.bin .truediv (.bin .add (.col "a" .int) (.col "b" .int))
      (.bin .floordiv (.col "c" .int) (.bin .mul (.col "a" .int) (.li 2))))
    (.bin .truediv (.bin .truediv (.col "a" .int) (.col "b" .int)) (.ln "0.5"))

example : NumU divTree = true ∧ noIsGen divTree = true ∧ (build divTree).isSome = true := by
  decide +kernel

example :
    (parse sqlite (renderU .sqlite divTree).print).map G.skel = some (renderU .sqlite divTree).norm.skel ∧
    (renderU .sqlite divTree).skel =
      .inf .minus
        (.inf .slash (.inf .plus .leaf .leaf)
          (.inf .plus (.inf .slash .leaf (.inf .star .leaf .leaf)) .leaf))
        (.inf .slash (.inf .slash .leaf (.inf .plus .leaf .leaf)) (.inf .plus .leaf .leaf)) := by
  decide +kernel

/-- non-vacuity for concatenation: `(s || '-' || coalesce(a, 0)) = 'x-1'` is a boolean tree of
    the fragment whose element avoids the F1 cells (so the SQLite theorems apply to it), while
    finding F1's tree `(1 + 2) || '3'` is in the fragment but not `ConcatSafe` on SQLite -/
def catTree : U :=
  .bin .eq (.bin .concat (.bin .concat (.col "s" .str) (.ls "-")) (.coalesce [.col "a" .int, .li 0]))
    (.ls "x-1")

example : BoolU catTree = true ∧ noIsGen catTree = true ∧
    (match build catTree with | some e => ConcatSafe .sqlite e | none => false) = true := by
  decide +kernel

example : StrU f1Tree = true ∧
    (match build f1Tree with | some e => ConcatSafe .sqlite e | none => true) = false ∧
    (match build f1Tree with | some e => ConcatSafe .mysql e | none => false) = true := by
  decide +kernel

/-- non-vacuity for the LIKE family: `NOT ((s || t) ILIKE 'a/%' ESCAPE '/' AND s NOT LIKE t)` is a
    boolean tree of the fragment; it builds, and on SQLite (`lower(…) LIKE lower(…) ESCAPE '/'`) as
    on PostgreSQL (`ILIKE`) the text is read back as the emitted tree -/
def likeTree : U :=
  .not_ (.and_ [.like .ilike (some "/") (.bin .concat (.col "s" .str) (.col "t" .str)) (.ls "a/%"),
                .like .notlike none (.col "s" .str) (.col "t" .str)])

example : BoolU likeTree = true ∧ noIsGen likeTree = true ∧
    (match build likeTree with | some e => ConcatSafe .sqlite e | none => false) = true ∧
    (parse sqlite (renderU .sqlite likeTree).print).map G.skel = some (renderU .sqlite likeTree).norm.skel ∧
    (parse postgresql (renderU .postgresql likeTree).print).map G.skel
      = some (renderU .postgresql likeTree).norm.skel := by
  decide +kernel

/-- non-vacuity for IN / NOT IN: `NOT (a + 1 IN (1, 2, NULL) OR s NOT IN ('x'))` is a boolean tree
    of the fragment; it builds (the negation switches IN and NOT IN) and the text is read back -/
def inTree : U :=
  .not_ (.or_ [.inOp false [.int 1, .int 2, .null] (.bin .add (.col "a" .int) (.li 1)),
               .inOp true [.str "x"] (.col "s" .str)])

example : BoolU inTree = true ∧ noIsGen inTree = true ∧
    (match build inTree with | some e => ConcatSafe .sqlite e | none => false) = true ∧
    (parse sqlite (renderU .sqlite inTree).print).map G.skel = some (renderU .sqlite inTree).norm.skel ∧
    (parse mysql (renderU .mysql inTree).print).map G.skel = some (renderU .mysql inTree).norm.skel := by
  decide +kernel

/-- non-vacuity for BETWEEN: `NOT (a + 1 BETWEEN b * 2 AND coalesce(c, 0) - 1) AND a BETWEEN 1 AND 5`
    is a boolean tree of the fragment (arithmetic bounds are fine: their operators lie above
    BETWEEN; the cells of finding `between-bound-ungrouped` — a comparison or a boolean as bound —
    are outside `NumU`); it builds (the negation becomes NOT BETWEEN) and is read back -/
def btwTree : U :=
  .and_ [.not_ (.between (.bin .add (.col "a" .int) (.li 1)) (.bin .mul (.col "b" .int) (.li 2))
                  (.bin .sub (.coalesce [.col "c" .int, .li 0]) (.li 1))),
         .between (.col "a" .int) (.li 1) (.li 5)]

example : BoolU btwTree = true ∧ noIsGen btwTree = true ∧
    (match build btwTree with | some e => ConcatSafe .sqlite e | none => false) = true ∧
    (parse sqlite (renderU .sqlite btwTree).print).map G.skel = some (renderU .sqlite btwTree).norm.skel ∧
    (parse postgresql (renderU .postgresql btwTree).print).map G.skel
      = some (renderU .postgresql btwTree).norm.skel ∧
    (parse mysql (renderU .mysql btwTree).print).map G.skel = some (renderU .mysql btwTree).norm.skel := by
  decide +kernel

/-- **sqlite_concat_counterexample** (F1): `(1 + 2) || '3'` is emitted without parentheses and
    the SQLite grammar reads the text as `1 + (2 || '3')`.  Replayed on the real code and the
    real SQLite by `known_findings.d/C01.json`. -/
theorem sqlite_concat_counterexample :
    wb sqlite (renderU .sqlite f1Tree).norm = false ∧
    (renderU .sqlite f1Tree).skel = .inf .concat (.inf .plus .leaf .leaf) .leaf ∧
    (parse sqlite (renderU .sqlite f1Tree).print).map G.skel
      = some (.inf .plus .leaf (.inf .concat .leaf .leaf)) := by
  decide +kernel

/-- on PostgreSQL's table the same text is read as intended (`||` binds looser than `+` there):
    no single precedence number for `concat_op` suits both backends -/
theorem postgresql_concat_ok :
    wb postgresql (renderU .postgresql f1Tree).norm = true := by
  decide +kernel

/-- **between_bound_counterexample**: `ia.between(ib, ic == 2)` is emitted as
    `ia BETWEEN ib AND ic = 2`, read by every modelled grammar as `(ia BETWEEN ib AND ic) = 2`. -/
def betweenTree : U :=
  .between (.col "ia" .int) (.col "ib" .int) (.bin .eq (.col "ic" .int) (.li 2))

theorem between_bound_counterexample :
    wb sqlite (renderU .sqlite betweenTree).norm = false ∧
    wb postgresql (renderU .postgresql betweenTree).norm = false ∧
    wb mysql (renderU .mysql betweenTree).norm = false ∧
    (parse sqlite (renderU .sqlite betweenTree).print).map G.skel
      = some (.inf .eq (.tern .between .and_ .leaf .leaf .leaf) .leaf) := by
  decide +kernel

/-- **asbool_operand_counterexample**: `bb.is_(~ba)` on a backend without native booleans is
    emitted as `bb IS ba = 0`, read as `(bb IS ba) = 0`. -/
def asboolTree : U := .bin .is_ (.col "bb" .bool) (.not_ (.col "ba" .bool))

theorem asbool_operand_counterexample :
    wb sqlite (renderU .sqlite asboolTree).norm = false ∧
    wb mysql (renderU .mysql asboolTree).norm = false ∧
    wb postgresql (renderU .postgresql asboolTree).norm = true ∧
    (parse sqlite (renderU .sqlite asboolTree).print).map G.skel
      = some (.inf .eq (.inf .is_ .leaf .leaf) .leaf) := by
  decide +kernel

/-! ## §3 semantic rewrites over three-valued logic -/

theorem not3_not3 (t : TV) : not3 (not3 t) = t := by
  cases t with
  | none => rfl
  | some b => cases b <;> rfl

theorem and3_assoc (a b c : TV) : and3 (and3 a b) c = and3 a (and3 b c) := by
  cases a with
  | none => cases b with
    | none => cases c with
      | none => rfl
      | some z => cases z <;> rfl
    | some y => cases y <;> (cases c with
      | none => rfl
      | some z => cases z <;> rfl)
  | some x => cases x <;> (cases b with
    | none => cases c with
      | none => rfl
      | some z => cases z <;> rfl
    | some y => cases y <;> (cases c with
      | none => rfl
      | some z => cases z <;> rfl))

theorem or3_assoc (a b c : TV) : or3 (or3 a b) c = or3 a (or3 b c) := by
  cases a with
  | none => cases b with
    | none => cases c with
      | none => rfl
      | some z => cases z <;> rfl
    | some y => cases y <;> (cases c with
      | none => rfl
      | some z => cases z <;> rfl)
  | some x => cases x <;> (cases b with
    | none => cases c with
      | none => rfl
      | some z => cases z <;> rfl
    | some y => cases y <;> (cases c with
      | none => rfl
      | some z => cases z <;> rfl))

theorem truth_ofTV (t : TV) : truth (ofTV t) = t := by
  cases t with
  | none => rfl
  | some b => cases b <;> rfl

/-- the pairs of the regenerated negation table that are genuine negations -/
def soundNegation (op nop : Op) : Prop := ∀ a b : Val, evalCmp nop a b = not3 (evalCmp op a b)

theorem tvOf_not (o : Option Ordering) (f g : Ordering → Bool) (h : ∀ x, g x = !f x) :
    tvOf o g = not3 (tvOf o f) := by
  cases o with
  | none => rfl
  | some x => simp [tvOf, not3, h]

/-
Full-strength statement, FALSE on the current tree (finding `negate-is-general-operand`):

  theorem negate_table_sound : ∀ op nop, negateOp op = some nop → comparisonLike op → soundNegation op nop
-/
/-- **negate_table_sound_partial**: every entry `op ↦ negate_op` of the regenerated
    `operator_lookup` table over the comparison operators with an independent semantics is a
    true three-valued negation for all operands (NULL included) — except `is_ ↦ is_` and
    `is_not ↦ is_not`. -/
theorem negate_table_sound_partial :
    ∀ op nop, op ∈ [Op.eq, .ne, .lt, .le, .gt, .ge, .is_distinct_from, .is_not_distinct_from] →
      negateOp op = some nop → soundNegation op nop := by
  intro op nop hmem hneg a b
  simp only [List.mem_cons, List.mem_nil_iff, or_false] at hmem
  rcases hmem with h | h | h | h | h | h | h | h <;> subst h <;>
    (simp only [negateOp, Option.some.injEq] at hneg; subst hneg; simp only [evalCmp])
  · exact tvOf_not _ _ _ (by intro x; cases x <;> rfl)
  · exact tvOf_not _ _ _ (by intro x; cases x <;> rfl)
  · exact tvOf_not _ _ _ (by intro x; cases x <;> rfl)
  · exact tvOf_not _ _ _ (by intro x; cases x <;> rfl)
  · exact tvOf_not _ _ _ (by intro x; cases x <;> rfl)
  · exact tvOf_not _ _ _ (by intro x; cases x <;> rfl)
  · simp [not3]
  · simp [not3]

/-- `x == None` / `x.is_(None)` are built with the hard-wired pair `is_ ↔ is_not`
    (`_boolean_compare`), which is a true negation -/
theorem is_isnot_sound : soundNegation .is_ .is_not ∧ soundNegation .is_not .is_ := by
  constructor <;> intro a b <;> simp [evalCmp, not3]

/-- **negate_is_counterexample**: the table maps `is_` to itself, and `a IS b` is not its own
    negation: `~(a.is_(b))` keeps the value of `a.is_(b)`. -/
theorem negate_is_counterexample :
    negateOp .is_ = some .is_ ∧ negateOp .is_not = some .is_not ∧
    ¬ soundNegation .is_ .is_ ∧ ¬ soundNegation .is_not .is_not := by
  refine ⟨rfl, rfl, ?_, ?_⟩
  · intro h; have := h (.int 1) (.int 1); simp [evalCmp, isSame, cmpVal, not3] at this
  · intro h; have := h (.int 1) (.int 1); simp [evalCmp, isSame, cmpVal, not3] at this

/-- the model really builds `a IS b` for `~(a.is_(b))` (same element, NOT lost) -/
theorem negate_is_model_witness :
    (renderU .sqlite (.not_ (.bin .is_ (.col "ia" .int) (.col "ib" .int)))).skel
      = (renderU .sqlite (.bin .is_ (.col "ia" .int) (.col "ib" .int))).skel := by
  decide +kernel

/-- **flatten_sound**: every operator of the regenerated `_associative` set (the ones
    `_construct_for_op` flattens and `self_group` leaves bare under itself) is associative on
    all values, NULL and wrongly typed operands included. -/
theorem associative_table_sound :
    ∀ op, associative op = true → ∀ a b c : Val,
      evalArith op (evalArith op a b) c = evalArith op a (evalArith op b c) := by
  intro op h a b c
  cases op <;> simp [associative] at h
  · -- add
    cases a <;> cases b <;> cases c <;> simp [evalArith, Int.add_assoc]
  · -- mul
    cases a <;> cases b <;> cases c <;> simp [evalArith, Int.mul_assoc]
  · -- concat_op
    cases a <;> cases b <;> cases c <;> simp [evalArith, String.append_assoc]
  · -- and_
    simp [evalArith, truth_ofTV, and3_assoc]
  · -- or_
    simp [evalArith, truth_ofTV, or3_assoc]

/-- and every such operator is rendered with a backend symbol the re-association lemma
    (`evalG_norm`) treats as associative -/
theorem associative_table_syms :
    ∀ op, associative op = true → G.assocSym (symOf op) = true := by
  intro op h
  cases op <;> simp [associative] at h <;> rfl

/-- `natural_self_precedent` (child left bare under the same operator) is only granted to
    associative operators in scope -/
theorem natural_self_precedent_subset :
    ∀ op, naturalSelfPrecedent op = true → associative op = true := by
  intro op h
  cases op <;> simp [naturalSelfPrecedent] at h <;> rfl

end SaVerif.Props.C01
