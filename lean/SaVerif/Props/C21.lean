import SaVerif.Lemmas.Naming
import SaVerif.Gen.NamingTables
/-!
# C21 — Generated and truncated names are bounded, deterministic and unique

Theorems about M-STR/names (`SaVerif/Model/Naming.lean`).  `util.md5_hex` is an
uninterpreted function `md5` about which only the output length is assumed.
-/
namespace SaVerif.Props.C21
open SaVerif.Ident SaVerif.Naming

/-! ## DDL names: `_truncate_and_render_maxlen_name` -/

/-- **truncated_len_le_max** — a convention-generated (`conv` / `_truncated_label`) name of
    any length is rendered with at most `max` characters, provided `max ≥ 8` -/
theorem truncated_len_le_max (md5 : Str → Str) (hmd5 : ∀ x, (md5 x).length = 32)
    (name : Str) (max mi : Nat) (hmax : 8 ≤ max) (r : Str)
    (h : truncMaxlen md5 true name max mi = some r) : r.length ≤ max := by
  unfold truncMaxlen at h
  simp only [if_true] at h
  split at h
  · rename_i hgt
    cases h
    have h4 := last4_len (md5 name) (by rw [hmd5]; omega)
    have hk : ((max : Int) - 8) ≥ 0 := by omega
    simp only [pySliceTo, hk, if_true, List.length_append, List.length_cons, h4, List.length_take]
    have : ((max : Int) - 8).toNat = max - 8 := by omega
    rw [this]; omega
  · cases h; omega

/-- names that fit are rendered unchanged -/
theorem short_name_unchanged (md5 : Str → Str) (name : Str) (max mi : Nat)
    (h : name.length ≤ max) : truncMaxlen md5 true name max mi = some name := by
  unfold truncMaxlen
  have : ¬ name.length > max := by omega
  simp [this]

/-- the hypothesis `8 ≤ max` is forced: with `max = 5` the slice `name[0:-3]` is taken
    from the end and the result is longer than `max` -/
theorem truncated_small_max_counterexample :
    ((truncMaxlen (fun _ => List.replicate 32 48) true (List.replicate 20 97) 5 5).map List.length)
      = some 22 := by decide +kernel

/-- explicitly given names are only checked against `max_identifier_length`:
    `validate_identifier` either rejects the name or renders it unchanged -/
theorem explicit_name (md5 : Str → Str) (name : Str) (max mi : Nat) (r : Str)
    (h : truncMaxlen md5 false name max mi = some r) : r = name ∧ r.length ≤ mi := by
  unfold truncMaxlen at h
  simp only [Bool.false_eq_true, if_false] at h
  split at h
  · cases h
  · cases h; exact ⟨rfl, by omega⟩

/-- full statement (false when a dialect has a smaller index/constraint limit):
    "an explicitly given index name is rendered with at most `max` characters or rejected".
    MySQL: `max_identifier_length = 255`, `max_index_name_length = 64`. -/
theorem explicit_exceeds_specific_max_counterexample :
    ((truncMaxlen (fun _ => []) false (List.replicate 100 97) 64 255).map List.length) = some 100 := by
  decide +kernel

/-- every shipped dialect has limits ≥ 8, so convention names are bounded there -/
theorem dialect_limits_ok : ∀ d ∈ SaVerif.Gen.NamingTables.all,
    8 ≤ effMax d.2.1 d.1 ∧ 8 ≤ effMax d.2.2 d.1 := by decide +kernel

/-- documented server limits for index / constraint names (trusted), aligned with
    `NamingTables.all` = default, sqlite, postgresql, mysql, mariadb, mssql, oracle;
    `none` = no fixed limit -/
def backendLimits : List (Option Nat) := [none, none, some 63, some 64, some 64, some 128, some 128]

/-- the limits SQLAlchemy truncates to never exceed what the server accepts -/
theorem dialect_limits_within_backend :
    ∀ p ∈ List.zip SaVerif.Gen.NamingTables.all backendLimits, ∀ b, p.2 = some b →
      effMax p.1.2.1 p.1.1 ≤ b ∧ effMax p.1.2.2 p.1.1 ≤ b := by decide +kernel

theorem truncated_len_le_max_dialects (md5 : Str → Str) (hmd5 : ∀ x, (md5 x).length = 32)
    (d : Nat × Option Nat × Option Nat) (hd : d ∈ SaVerif.Gen.NamingTables.all) (name r : Str) :
    (truncMaxlen md5 true name (effMax d.2.1 d.1) d.1 = some r → r.length ≤ effMax d.2.1 d.1) ∧
    (truncMaxlen md5 true name (effMax d.2.2 d.1) d.1 = some r → r.length ≤ effMax d.2.2 d.1) :=
  ⟨truncated_len_le_max md5 hmd5 name _ _ (dialect_limits_ok d hd).1 r,
   truncated_len_le_max md5 hmd5 name _ _ (dialect_limits_ok d hd).2 r⟩

/-! ## labels, aliases and bind names: `_truncated_identifier`, any call sequence -/

theorem mem_getElem? {α : Type} (l : List α) (x : α) (h : x ∈ l) : ∃ i : Nat, l[i]? = some x := by
  obtain ⟨i, hi, e⟩ := List.mem_iff_getElem.1 h
  exact ⟨i, by simp [List.getElem?_eq_getElem hi, e]⟩

/-- **label_len_le** — in a compilation with fewer than 16⁵−1 truncation requests
    (per class the counter is rendered with `hex`), every label / alias / bind name
    produced is at most `label_length` characters long (`label_length ≥ 6`) -/
theorem label_len_le (L : Nat) (hL : 6 ≤ L) (reqs : List (Nat × Str))
    (hn : reqs.length + 1 ≤ 16 ^ 5) : ∀ r ∈ runIdents L TState.empty reqs, r.length ≤ L := by
  intro r hr
  obtain ⟨hlen, st', hS, _, _, _, hcnt, hserved⟩ :=
    run_spec L reqs TState.empty (shape_empty L) inj_empty pos_empty
  obtain ⟨i, hi⟩ := mem_getElem? _ r hr
  have hi' : i < reqs.length := by
    have := (List.getElem?_eq_some_iff.1 hi).1
    omega
  obtain ⟨⟨c, n⟩, hq⟩ : ∃ q, reqs[i]? = some q := ⟨reqs[i], by simp [hi']⟩
  have hlk := hserved i (c, n) r hq hi
  rcases hS c n r hlk with ⟨e, hnl⟩ | ⟨hnl, k, _, hk, e⟩
  · subst e; omega
  · have hc := hcnt c
    have h0 : getCounter TState.empty c = 1 := by simp [getCounter, TState.empty]
    have hk5 : k < 16 ^ 5 := by omega
    have hh := hexStr_len k 5 hk5 (by omega)
    have := (truncForm_len L n k hnl).1
    rw [e, this]; omega

/-- **truncated_distinct** — within one compilation and one identifier class, two
    requests that received the same rendered name were requests for the same name:
    distinct names never share a label, alias or bind name, for every request
    sequence, every `label_length` and any mix of long and short names. -/
theorem truncated_distinct (L : Nat) (reqs : List (Nat × Str)) (i j : Nat) (c : Nat)
    (n1 n2 r : Str) (h1 : reqs[i]? = some (c, n1)) (h2 : reqs[j]? = some (c, n2))
    (r1 : (runIdents L TState.empty reqs)[i]? = some r)
    (r2 : (runIdents L TState.empty reqs)[j]? = some r) : n1 = n2 := by
  obtain ⟨_, st', _, hI, _, _, _, hserved⟩ :=
    run_spec L reqs TState.empty (shape_empty L) inj_empty pos_empty
  exact hI c n1 n2 r (hserved i _ r h1 r1) (hserved j _ r h2 r2)

/-- **memo_stable** — a name requested twice renders identically (no dependence on
    what was requested in between) -/
theorem memo_stable (L : Nat) (reqs : List (Nat × Str)) (i j : Nat) (q : Nat × Str) (a b : Str)
    (h1 : reqs[i]? = some q) (h2 : reqs[j]? = some q)
    (r1 : (runIdents L TState.empty reqs)[i]? = some a)
    (r2 : (runIdents L TState.empty reqs)[j]? = some b) : a = b := by
  obtain ⟨_, st', _, _, _, _, _, hserved⟩ :=
    run_spec L reqs TState.empty (shape_empty L) inj_empty pos_empty
  have ha := hserved i q a h1 r1
  have hb := hserved j q b h2 r2
  rw [ha] at hb; cases hb; rfl

/-! ## the engine's life: limits that shrink at connect -/

/-- what "respects the limits the dialect holds in state `st`" means for one output -/
def Bounded (st : DState) (op : LOp) (out : LOut) : Prop :=
  match op, out with
  | .label _, .name r => 6 ≤ effLabel st → r.length ≤ st.maxIdent
  | .fmtIndex true _, .name r => 8 ≤ effMax st.maxIndex st.maxIdent → r.length ≤ effMax st.maxIndex st.maxIdent
  | .fmtConstraint true _, .name r =>
    8 ≤ effMax st.maxConstraint st.maxIdent → r.length ≤ effMax st.maxConstraint st.maxIdent
  | .fmtIndex false _, .name r => r.length ≤ st.maxIdent
  | .fmtConstraint false _, .name r => r.length ≤ st.maxIdent
  | _, _ => True

/-- one formatting call in a state whose label length fits: the output is bounded by the
    limits of THAT state (the call reads them live) and the state is unchanged -/
theorem step_bounded (md5 : Str → Str) (hmd5 : ∀ x, (md5 x).length = 32) (st : DState)
    (hok : LabelOK st) (op : LOp) (hop : ∀ lim, op ≠ .connect lim) :
    (lifeStep md5 st op).1 = st ∧ Bounded st op (lifeStep md5 st op).2 := by
  refine ⟨lifeStep_fmt_state md5 st op hop, ?_⟩
  cases op with
  | connect lim => exact absurd rfl (hop lim)
  | label n =>
    simp only [lifeStep, Bounded]
    intro h6
    exact Nat.le_trans (single_label_len _ h6 n) hok
  | fmtIndex t n =>
    cases t with
    | true =>
      simp only [lifeStep]
      cases h : truncMaxlen md5 true n (effMax st.maxIndex st.maxIdent) st.maxIdent with
      | none => simp [Bounded]
      | some r =>
        simp only [Bounded]
        intro h8
        exact truncated_len_le_max md5 hmd5 n _ _ h8 r h
    | false =>
      simp only [lifeStep]
      cases h : truncMaxlen md5 false n (effMax st.maxIndex st.maxIdent) st.maxIdent with
      | none => simp [Bounded]
      | some r => simp only [Bounded]; exact (explicit_name md5 n _ _ r h).2
  | fmtConstraint t n =>
    cases t with
    | true =>
      simp only [lifeStep]
      cases h : truncMaxlen md5 true n (effMax st.maxConstraint st.maxIdent) st.maxIdent with
      | none => simp [Bounded]
      | some r =>
        simp only [Bounded]
        intro h8
        exact truncated_len_le_max md5 hmd5 n _ _ h8 r h
    | false =>
      simp only [lifeStep]
      cases h : truncMaxlen md5 false n (effMax st.maxConstraint st.maxIdent) st.maxIdent with
      | none => simp [Bounded]
      | some r => simp only [Bounded]; exact (explicit_name md5 n _ _ r h).2

/-- **names_after_connect_respect_new_limit** — after a successful `initialize()` that set
    the identifier limit to what the server reports (possibly smaller than the class-level
    value, whatever was formatted before), every label, index name and constraint name
    emitted by any sequence of formatting calls up to the next connect is bounded by the
    NEW limits, and `label_length` is known to fit them (else the connect raised
    `ArgumentError`). -/
theorem names_after_connect_respect_new_limit (md5 : Str → Str) (hmd5 : ∀ x, (md5 x).length = 32)
    (st : DState) (lim : Option Nat) (hc : (connectStep st lim).2 = .connected) :
    (connectStep st lim).1.maxIdent = newMaxIdent st lim ∧
    ∀ (ops : List LOp), (∀ op ∈ ops, ∀ l, op ≠ .connect l) →
      ∀ e ∈ lifeRun md5 (connectStep st lim).1 ops,
        e.1 = (connectStep st lim).1 ∧ Bounded (connectStep st lim).1 e.2.1 e.2.2 := by
  have hok := connect_ok_labelOK st lim hc
  refine ⟨?_, ?_⟩
  · unfold connectStep; cases st.labelLength <;> simp <;> split <;> rfl
  · generalize (connectStep st lim).1 = s1 at hok ⊢
    intro ops
    induction ops with
    | nil => intro _ e he; simp [lifeRun] at he
    | cons op rest ih =>
      intro hops e he
      have hop := hops op (by simp)
      obtain ⟨h1, h2⟩ := step_bounded md5 hmd5 s1 hok op hop
      simp only [lifeRun, List.mem_cons] at he
      rcases he with he | he
      · subst he
        exact ⟨h1, h2⟩
      · rw [h1] at he
        exact ih (fun o ho => hops o (by simp [ho])) e he

/-- a shrinking limit with a too-large `label_length` is refused (Oracle < 12.2 style:
    class limit 128, server limit 30, label_length 40) -/
example : (connectStep ⟨128, false, some 40, none, none⟩ (some 30)).2 = .argumentError := by
  decide +kernel
example : (lifeRun (fun _ => List.replicate 32 48) ⟨128, false, some 20, none, none⟩
    [.fmtIndex true (List.replicate 61 97), .connect (some 30), .fmtIndex true (List.replicate 61 97)]).map
      (fun e => match e.2.2 with | .name r => r.length | _ => 0) = [61, 0, 27] := by decide +kernel

/-! ## labels of one columns clause: `_generate_columns_plus_names` -/

/-- **select_labels_distinct** — for EVERY list of named columns (any number of
    repetitions of a column, any name clashes between different columns, any
    interleaving) and both label styles, the labels under which the columns are rendered
    (`anon_for_dupe_key`, as the compiler asks) are pairwise distinct: plain names and
    disambiguating labels are used at most once, and every further occurrence gets a dedupe
    label whose index strictly increases. -/
theorem select_labels_distinct (tq : Bool) (cols : List Col) : (genNames tq true cols).Nodup := by
  have hinv : GInv ⟨[], 1⟩ [] := by
    constructor
    · intro l hl; cases hl
    · intro l c hl; simp at hl
  exact (genRun_nodup tq cols ⟨[], 1⟩ [] hinv).1

/-! ## anonymous names handed out by `prefix_anon_map` -/

/-- **anon_names_distinct** — for every sequence of anonymous keys looked up in one
    compilation (labels, aliases, bind names; any repeats), two lookups that returned the
    same name were lookups of the same key: `derived_<n>` is injective in (derived, n) and
    the per-`derived` counter never repeats. -/
theorem anon_names_distinct (ks : List (Nat × Str)) (i j : Nat) (k1 k2 : Nat × Str) (v : Str)
    (h1 : ks[i]? = some k1) (h2 : ks[j]? = some k2)
    (r1 : (amRun AMap.empty ks)[i]? = some v) (r2 : (amRun AMap.empty ks)[j]? = some v) :
    k1 = k2 := by
  obtain ⟨m', hinv, _, hs⟩ := amRun_spec ks AMap.empty ainv_empty
  exact hinv.inj k1 k2 v (hs i k1 v h1 r1) (hs j k2 v h2 r2)

/-! ## keys of bound parameters derived from one text() template -/

/-- **text_derived_binds_distinct** — `text(...).bindparams(name=value)` copies the
    template's parameter with `maintain_key` as written in the source (regenerated flag);
    for a `unique=True` parameter any number of statements derived from one template carry
    pairwise distinct anonymous keys (one per copy), so by `anon_names_distinct` they get
    pairwise distinct names when embedded in one statement. -/
theorem text_derived_binds_distinct (id0 : Nat) (name : Str) (ids : List Nat) (hn : ids.Nodup) :
    ((deriveText (mkBind id0 name true) SaVerif.Gen.NamingTables.textBindparamsMaintainKey ids).map
      (·.key)).Nodup := by
  have hflag : SaVerif.Gen.NamingTables.textBindparamsMaintainKey = false := by decide
  rw [hflag]
  exact derive_keys_nodup _ (by simp [mkBind]) ids hn

/-- with `maintain_key=True` all copies share the template's key -/
example : ((deriveText (mkBind 1 (ofS "val") true) true [2, 3]).map (·.key))
    = [.anon 1 (ofS "val"), .anon 1 (ofS "val")] := by decide +kernel

example : genNames false true [⟨1, ofS "t1", ofS "a"⟩, ⟨2, ofS "t2", ofS "a"⟩, ⟨2, ofS "t2", ofS "a"⟩,
      ⟨2, ofS "t2", ofS "a"⟩, ⟨1, ofS "t1", ofS "a"⟩]
    = [.plain (ofS "a"), .anon ⟨2, ofS "t2", ofS "a"⟩ false, .dedupe 1 ⟨2, ofS "t2", ofS "a"⟩ false,
       .dedupe 2 ⟨2, ofS "t2", ofS "a"⟩ false, .dedupe 3 ⟨1, ofS "t1", ofS "a"⟩ false] := by decide +kernel
example : renderLabs AMap.empty (genNames false true [⟨1, ofS "t1", ofS "a"⟩, ⟨2, ofS "t2", ofS "a"⟩,
      ⟨2, ofS "t2", ofS "a"⟩, ⟨2, ofS "t2", ofS "a"⟩])
    = [ofS "a", ofS "a_1", ofS "a__1", ofS "a__2"] := by decide +kernel

/-! ## naming conventions feed the truncation -/

/-- whatever a convention expands to, the rendered constraint name is bounded -/
theorem convention_name_bounded (md5 : Str → Str) (hmd5 : ∀ x, (md5 x).length = 32)
    (ci : ConstInfo) (tmpl name r : Str) (fuel max mi : Nat) (hmax : 8 ≤ max)
    (_ : expandConv ci fuel tmpl = .ok name)
    (h : truncMaxlen md5 true name max mi = some r) : r.length ≤ max :=
  truncated_len_le_max md5 hmd5 name max mi hmax r h

/-! ## non-vacuity -/

def ciExample : ConstInfo :=
  { tableName := ofS "user_account", constName := none, isFk := true,
    cols := [(ofS "org_id", ofS "org_id"), (ofS "user_id", ofS "uid")],
    refTable := ofS "organisation", refCols := [ofS "id", ofS "uid"] }

def okOf (e : Except ConvErr Str) : Option Str := match e with | .ok v => some v | .error _ => none
def errOf (e : Except ConvErr Str) : Option ConvErr := match e with | .ok _ => none | .error x => some x

example : okOf (expandConv ciExample 100 (ofS "fk_%(table_name)s_%(column_0_N_name)s_%(referred_table_name)s"))
    = some (ofS "fk_user_account_org_id_user_id_organisation") := by decide +kernel
example : okOf (expandConv ciExample 100 (ofS "uq_%(column_0N_key)s_%(column_1_key)s_%(column_7_name)s"))
    = some (ofS "uq_org_iduid_uid_") := by decide +kernel
example : errOf (expandConv ciExample 100 (ofS "ck_%(constraint_name)s")) = some .needsName := by
  decide +kernel
example : (truncMaxlen (fun _ => ofS "0123456789abcdef0123456789abcdef") true
    (ofS "fk_user_account_org_id_user_id_organisation") 30 30)
    = some (ofS "fk_user_account_org_id_cdef") := by decide +kernel
-- three long labels and one short under label_length 10: prefixes collide, counters separate
example : runIdents 10 TState.empty
    [(0, ofS "abcdefgh"), (0, ofS "abcdxxxx"), (0, ofS "abc"), (0, ofS "abcdefgh"), (1, ofS "abcdefgh")]
    = [ofS "abcd_1", ofS "abcd_2", ofS "abc", ofS "abcd_1", ofS "abcd_1"] := by decide +kernel
example : hexStr 255 = ofS "ff" := by decide +kernel

end SaVerif.Props.C21
