import SaVerif.Lemmas.Poly
set_option linter.unusedSimpArgs false
/-!
# C42 — Polymorphic queries return each row as its most specific class

Property theorems about the polymorphic loading model (`SaVerif/Model/Poly.lean`:
transcription of the row → class decision of `orm/loading.py` and of the single-table,
joined-table and concrete plans).  `storeSingle` / `storeJoined` / `storeConcrete`
(`SaVerif/Lemmas/Poly.lean`) say how a set of objects is laid out in the tables of each
inheritance kind; the theorems quantify over every class tree (given by its ancestor
chains), every set of objects and every queried class.  The result functions do not
take the with_polymorphic setting at all: it only decides which columns arrive with the
first SELECT (`primaryCols`) — `with_polymorphic_all_defers_nothing` — the values are the
stored ones in every case.  Discriminator values are explicit (`Hier.idents`, an injective
assignment, `none` for `polymorphic_abstract` classes; 0 is the falsy value): section 1b is
about the single-table IN list as a function of the mapper tree.  Section 5 is about what
attribute access returns after the row met the object (`populate`): new instance,
`populate_existing` / `always_refresh`, object already in the Session.
-/
namespace SaVerif.Props.C42
open SaVerif.Poly

/-! ## 1. the row → class decision -/

/-- `_decorate_polymorphic_switch`: exactly four outcomes; `v` is the discriminator value of
    the row, `d` the class whose `polymorphic_identity` it is -/
theorem decideClass_spec (h : Hier) (hw : WFH h) (c : Nat) (disc : Option Nat) :
    (disc = none → decideClass h c disc = .error .nullDiscriminator) ∧
    (∀ v, disc = some v → (∀ d, d < h.n → h.ident d ≠ some v) →
      decideClass h c disc = .error .unknownIdentity) ∧
    (∀ v d, disc = some v → d < h.n → h.ident d = some v → h.isa d c = false →
      decideClass h c disc = .error .notSubMapper) ∧
    (∀ v d, disc = some v → d < h.n → h.ident d = some v → h.isa d c = true →
      decideClass h c disc = .ok d) := by
  refine ⟨?_, ?_, ?_, ?_⟩
  · intro h1; subst h1; rfl
  · intro v h1 h2; subst h1
    cases hf : h.classOf v with
    | none => simp [decideClass, hf]
    | some d => exact absurd (classOf_some h v d hf).2 (h2 d (classOf_some h v d hf).1)
  · intro v d h1 h2 h3 h4; subst h1; simp [decideClass, classOf_ident h hw d v h2 h3, h4]
  · intro v d h1 h2 h3 h4; subst h1; simp [decideClass, classOf_ident h hw d v h2 h3, h4]

example : decideClass ⟨[[0], [0, 1], [0, 2]], [], []⟩ 1 (some 2) = .error .notSubMapper := by rfl
example : decideClass ⟨[[0], [0, 1], [0, 2]], [], []⟩ 0 (some 7) = .error .unknownIdentity := by rfl
-- identities 3, 0, 1, 2 (a falsy identity on a non-base class): value 0 names class 1
example : decideClass ⟨[[0], [0, 1], [0, 1, 2], [0, 3]], [], [some 3, some 0, some 1, some 2]⟩ 1 (some 0) = .ok 1 := by rfl
-- an abstract class has no identity
example : decideClass ⟨[[0], [0, 1], [0, 1, 2]], [], [some 0, none, some 2]⟩ 0 (some 1) = .error .unknownIdentity := by rfl

/-! ## 1b. the single-table IN list as a function of the mapper tree -/

/-- **in_list_exact**: the discriminator values `Mapper._single_table_criteria_component`
    collects for class `c` are exactly the identities of the non-abstract classes of `c`'s
    subtree — whatever the values are (0 / False / '' included) -/
theorem in_list_exact (h : Hier) (c v : Nat) :
    v ∈ h.inList c ↔ ∃ d, d < h.n ∧ h.isa d c = true ∧ h.ident d = some v :=
  mem_inList h c v

/-- every non-abstract class of the subtree contributes its identity, the class itself
    included -/
theorem in_list_complete (h : Hier) (c d v : Nat) (hd : d < h.n) (hi : h.isa d c = true)
    (hv : h.ident d = some v) : v ∈ h.inList c :=
  (mem_inList h c v).2 ⟨d, hd, hi, hv⟩

/-- nothing else is in the list: no identity of a class outside the subtree, nothing for an
    abstract class -/
theorem in_list_sound (h : Hier) (hw : WFH h) (c d v : Nat) (hd : d < h.n) (hv : h.ident d = some v)
    (hi : h.isa d c = false) : v ∉ h.inList c := by
  intro hm
  obtain ⟨e, he, hie, hve⟩ := (mem_inList h c v).1 hm
  rw [hw.ident_inj e d v he hd hve hv, hi] at hie
  cases hie

/-- one entry per non-abstract class of the subtree, in class order -/
theorem in_list_length (h : Hier) (c : Nat) :
    (h.inList c).length = ((h.sub c).filter (fun d => (h.ident d).isSome)).length := by
  unfold Hier.inList
  induction h.sub c with
  | nil => rfl
  | cons x xs ih =>
    simp only [List.filterMap_cons, List.filter_cons]
    cases hx : h.ident x <;> simp [ih]

example : (⟨[[0], [0, 1], [0, 1, 2], [0, 3]], [], [some 3, some 0, some 1, some 2]⟩ : Hier).inList 1 = [0, 1] := by rfl
example : (⟨[[0], [0, 1], [0, 1, 2], [0, 1, 3]], [], [some 3, none, some 0, some 2]⟩ : Hier).inList 1 = [0, 2] := by rfl

/-! ## 2. single-table inheritance -/

theorem selSingle_store (h : Hier) (hw : WFH h) (c : Nat) (o : PObj) (ho : o.cls < h.n)
    (v : Nat) (hv : h.ident o.cls = some v)
    (hroot : (h.anc c).length ≤ 1 → h.isa o.cls c = true) (vals : List (Option Int)) :
    selSingle h c ⟨o.id, h.ident o.cls, vals⟩ = h.isa o.cls c := by
  unfold selSingle
  split
  · rename_i hl; rw [hroot hl]
  · simp only [hv]
    cases hi : h.isa o.cls c
    · have : ¬ (v ∈ h.inList c) := in_list_sound h hw c o.cls v ho hv hi
      simpa using this
    · have : v ∈ h.inList c := in_list_complete h c o.cls v ho hi hv
      simpa using this

/-- **polymorphic_most_specific_single**: over a consistently stored single table, a query
    against any class returns exactly the objects whose class descends from it, in table
    order, each as its own class with its own attribute values. -/
theorem polymorphic_most_specific_single (h : Hier) (hw : WFH h) (c : Nat) (objs : List PObj)
    (hcls : ∀ o ∈ objs, o.cls < h.n) (hid : ∀ o ∈ objs, ∃ v, h.ident o.cls = some v)
    (hroot : (h.anc c).length ≤ 1 → ∀ o ∈ objs, h.isa o.cls c = true) :
    querySingle h c (storeSingle h objs) =
      .ok ((objs.filter (fun o => h.isa o.cls c)).map (entOf h)) := by
  unfold querySingle storeSingle
  rw [List.filter_map]
  have hf : (objs.filter ((selSingle h c) ∘ fun o => (⟨o.id, h.ident o.cls,
      (List.range h.n).map (fun a => if (h.anc o.cls).contains a then o.attr a else none)⟩ : SRow)))
        = objs.filter (fun o => h.isa o.cls c) := by
    apply List.filter_congr
    intro o ho
    obtain ⟨v, hv⟩ := hid o ho
    exact selSingle_store h hw c o (hcls o ho) v hv (fun hl => hroot hl o ho) _
  rw [hf]
  rw [mapM_ok (loadSingle h c) (fun r => entOfSRow h ((r.disc.bind h.classOf).getD 0) r)]
  · rw [List.map_map]
    congr 1
    apply List.map_congr_left
    intro o ho
    have ho' := (List.mem_filter.1 ho).1
    obtain ⟨v, hv⟩ := hid o ho'
    simp only [Function.comp, hv, Option.bind_some, classOf_ident h hw o.cls v (hcls o ho') hv,
      Option.getD_some]
    rw [← hv]
    exact entOfSRow_store h hw o (hcls o ho')
  · intro r hr
    obtain ⟨o, ho, rfl⟩ := List.mem_map.1 hr
    obtain ⟨ho1, ho2⟩ := List.mem_filter.1 ho
    have h2 : h.isa o.cls c = true := by simpa using ho2
    obtain ⟨v, hv⟩ := hid o ho1
    simp [loadSingle, decideClass, hv, classOf_ident h hw o.cls v (hcls o ho1) hv, h2]

/-- **subclass_filter_single**: an entity is returned iff it is a stored object of the
    queried subtree -/
theorem subclass_filter_single (h : Hier) (hw : WFH h) (c : Nat) (objs : List PObj)
    (hcls : ∀ o ∈ objs, o.cls < h.n) (hid : ∀ o ∈ objs, ∃ v, h.ident o.cls = some v)
    (hroot : (h.anc c).length ≤ 1 → ∀ o ∈ objs, h.isa o.cls c = true) :
    ∃ ents, querySingle h c (storeSingle h objs) = .ok ents ∧
      ∀ e, e ∈ ents ↔ ∃ o ∈ objs, h.isa o.cls c = true ∧ e = entOf h o := by
  refine ⟨_, polymorphic_most_specific_single h hw c objs hcls hid hroot, ?_⟩
  intro e
  simp only [List.mem_map, List.mem_filter]
  constructor
  · rintro ⟨o, ⟨h1, h2⟩, rfl⟩; exact ⟨o, h1, h2, rfl⟩
  · rintro ⟨o, h1, h2, rfl⟩; exact ⟨o, ⟨h1, h2⟩, rfl⟩

def sampleH : Hier := ⟨[[0], [0, 1], [0, 2], [0, 1, 3]], [], [some 2, some 0, some 1, some 3]⟩
def sampleObjs : List PObj :=
  [⟨1, 0, fun _ => some 10⟩, ⟨2, 1, fun a => some (20 + a)⟩, ⟨3, 3, fun _ => none⟩, ⟨4, 2, fun _ => some 4⟩]

example : querySingle sampleH 1 (storeSingle sampleH sampleObjs) =
    .ok [⟨2, 1, [some 20, some 21]⟩, ⟨3, 3, [none, none, none]⟩] := by rfl

/-- an unknown identity or a NULL discriminator in the table fails a query against the
    base class with the documented error, and is filtered out of subclass queries -/
theorem single_bad_discriminator (h : Hier) (c : Nat) (r : SRow)
    (hbad : r.disc = none ∨ ∃ v, r.disc = some v ∧ h.classOf v = none) :
    ((h.anc c).length ≤ 1 → ∃ e, loadSingle h c r = .error e ∧
        (e = .nullDiscriminator ∨ e = .unknownIdentity)) ∧
    (¬ (h.anc c).length ≤ 1 → selSingle h c r = false) := by
  constructor
  · intro _
    rcases hbad with h1 | ⟨d, h1, h2⟩
    · exact ⟨.nullDiscriminator, by simp [loadSingle, decideClass, h1], Or.inl rfl⟩
    · exact ⟨.unknownIdentity, by simp [loadSingle, decideClass, h1, h2], Or.inr rfl⟩
  · intro hl
    unfold selSingle
    rw [if_neg hl]
    rcases hbad with h1 | ⟨d, h1, h2⟩
    · simp [h1]
    · simp only [h1]
      have : ¬ d ∈ h.inList c := by
        rw [mem_inList]
        rintro ⟨e, he, _, hv⟩
        exact classOf_none h d h2 e he hv
      simpa using this

/-! ## 2b. joined-table inheritance -/

/-- the extra facts about the class tree the joined plan relies on: the chain of a class
    contains the chains of its ancestors (`chain`), and `root` heads every chain -/
structure JoinedWF (h : Hier) (root : Nat) (objs : List PObj) : Prop where
  wf : WFH h
  chain : ∀ d c a, d < h.n → h.isa d c = true → a ∈ h.anc c → h.isa d a = true
  rooted : ∀ o ∈ objs, h.isa o.cls root = true
  cls_lt : ∀ o ∈ objs, o.cls < h.n
  has_ident : ∀ o ∈ objs, ∃ v, h.ident o.cls = some v
  ids : (objs.map (·.id)).Nodup

theorem subs_getD (h : Hier) (root a : Nat) (objs : List PObj) (ha : a < h.n) :
    (storeJoined h root objs).subs.getD a [] =
      (objs.filter (fun o => h.isa o.cls a)).map (fun o => (o.id, o.attr a)) := by
  simp [storeJoined, List.getD_eq_getElem?_getD, List.getElem?_map, List.getElem?_range ha]

theorem hasRow_store (h : Hier) (root a : Nat) (objs : List PObj) (w : JoinedWF h root objs)
    (ha : a < h.n) (o : PObj) (ho : o ∈ objs) :
    (storeJoined h root objs).hasRow root a o.id = h.isa o.cls a := by
  unfold JTables.hasRow
  by_cases hr : a = root
  · subst hr
    simp only [beq_self_eq_true, if_true, w.rooted o ho]
    have := any_unique (fun _ => true) (fun o => (o.id, h.ident o.cls, o.attr a)) (fun r => r.1)
      (fun _ => rfl) objs w.ids o ho
    simpa [storeJoined] using this
  · have : (a == root) = false := by simp [hr]
    simp only [this, Bool.false_eq_true, if_false, subs_getD h root a objs ha]
    exact any_unique (fun o => h.isa o.cls a) (fun o => (o.id, o.attr a)) (fun r => r.1)
      (fun _ => rfl) objs w.ids o ho

theorem attr_store (h : Hier) (root a : Nat) (objs : List PObj) (w : JoinedWF h root objs)
    (ha : a < h.n) (o : PObj) (ho : o ∈ objs) (hi : h.isa o.cls a = true) :
    (storeJoined h root objs).attr root a o.id = some (o.attr a) := by
  unfold JTables.attr
  by_cases hr : a = root
  · subst hr
    simp only [beq_self_eq_true, if_true]
    have := find_unique (fun _ => true) (fun o => (o.id, h.ident o.cls, o.attr a)) (fun r => r.1)
      (fun _ => rfl) objs w.ids o ho rfl
    have hft : objs.filter (fun _ => true) = objs := List.filter_eq_self.2 (fun _ _ => rfl)
    rw [hft] at this
    simp [storeJoined, this]
  · have : (a == root) = false := by simp [hr]
    simp only [this, Bool.false_eq_true, if_false, subs_getD h root a objs ha]
    rw [find_unique (fun o => h.isa o.cls a) (fun o => (o.id, o.attr a)) (fun r => r.1)
      (fun _ => rfl) objs w.ids o ho hi]
    rfl

theorem chain_filter (h : Hier) (root c : Nat) (objs : List PObj) (w : JoinedWF h root objs)
    (hc : c < h.n) (o : PObj) (ho : o ∈ objs) :
    ((h.anc c).all (fun a => (storeJoined h root objs).hasRow root a o.id)) = h.isa o.cls c := by
  cases hi : h.isa o.cls c
  · rw [List.all_eq_false]
    refine ⟨c, ?_, ?_⟩
    · have := w.wf.self c hc
      simpa [Hier.isa] using this
    · rw [hasRow_store h root c objs w hc o ho, hi]; simp
  · rw [List.all_eq_true]
    intro a ha
    rw [hasRow_store h root a objs w (w.wf.anc_lt c a hc ha) o ho]
    exact w.chain o.cls c a (w.cls_lt o ho) hi ha

/-- **polymorphic_most_specific_joined**: over consistently stored joined tables (distinct
    primary keys), a query against any class returns exactly the objects whose class
    descends from it, in base-table order, each as the class the discriminator names with
    the attribute values found in the tables of that class's chain. -/
theorem polymorphic_most_specific_joined (h : Hier) (root c : Nat) (objs : List PObj)
    (w : JoinedWF h root objs) (hc : c < h.n) :
    queryJoined h root c (storeJoined h root objs) =
      .ok ((objs.filter (fun o => h.isa o.cls c)).map (entOf h)) := by
  unfold queryJoined
  have hb : (storeJoined h root objs).base = objs.map (fun o => (o.id, h.ident o.cls, o.attr root)) := rfl
  rw [hb, List.filter_map]
  have hf : objs.filter ((fun r : Nat × Option Nat × Option Int =>
        (h.anc c).all (fun a => (storeJoined h root objs).hasRow root a r.1)) ∘
        fun o => (o.id, h.ident o.cls, o.attr root)) = objs.filter (fun o => h.isa o.cls c) := by
    apply List.filter_congr
    intro o ho
    exact chain_filter h root c objs w hc o ho
  rw [hf]
  rw [mapM_ok (loadJoined h root c (storeJoined h root objs))
    (fun r => ⟨r.1, (r.2.1.bind h.classOf).getD 0, (h.anc ((r.2.1.bind h.classOf).getD 0)).map (fun a =>
      ((storeJoined h root objs).attr root a r.1).getD none)⟩)]
  · rw [List.map_map]
    congr 1
    apply List.map_congr_left
    intro o ho
    have ho' := (List.mem_filter.1 ho).1
    obtain ⟨v, hv⟩ := w.has_ident o ho'
    simp only [Function.comp, hv, Option.bind_some, classOf_ident h w.wf o.cls v (w.cls_lt o ho') hv,
      Option.getD_some, entOf, Ent.mk.injEq, true_and]
    apply List.map_congr_left
    intro a ha
    have hia : h.isa o.cls a = true := by simpa [Hier.isa] using ha
    rw [attr_store h root a objs w (w.wf.anc_lt o.cls a (w.cls_lt o ho') ha) o ho' hia]
    rfl
  · intro r hr
    obtain ⟨o, ho, rfl⟩ := List.mem_map.1 hr
    obtain ⟨ho1, ho2⟩ := List.mem_filter.1 ho
    have h2 : h.isa o.cls c = true := by simpa using ho2
    have hm : (h.anc o.cls).mapM (fun a => (storeJoined h root objs).attr root a o.id) =
        some ((h.anc o.cls).map o.attr) := by
      apply mapM_some
      intro a ha
      have hia : h.isa o.cls a = true := by simpa [Hier.isa] using ha
      exact attr_store h root a objs w (w.wf.anc_lt o.cls a (w.cls_lt o ho1) ha) o ho1 hia
    obtain ⟨v, hv⟩ := w.has_ident o ho1
    simp only [loadJoined, decideClass, hv, Option.bind_some,
      classOf_ident h w.wf o.cls v (w.cls_lt o ho1) hv, if_true, h2, hm, Option.getD_some]
    congr 1
    simp only [Ent.mk.injEq, true_and]
    apply List.map_congr_left
    intro a ha
    have hia : h.isa o.cls a = true := by simpa [Hier.isa] using ha
    rw [attr_store h root a objs w (w.wf.anc_lt o.cls a (w.cls_lt o ho1) ha) o ho1 hia]
    rfl

example : queryJoined sampleH 0 1 (storeJoined sampleH 0 sampleObjs) =
    .ok [⟨2, 1, [some 20, some 21]⟩, ⟨3, 3, [none, none, none]⟩] := by rfl

/-- a row whose discriminator names a class outside the queried subtree (the identity of
    the parent class, say) while the queried class's table holds its key: the documented
    "not a sub-mapper" error -/
theorem joined_wrong_branch (h : Hier) (hw : WFH h) (root c d v : Nat) (t : JTables)
    (r : Nat × Option Nat × Option Int)
    (hd : r.2.1 = some v) (hlt : d < h.n) (hv : h.ident d = some v) (hn : h.isa d c = false) :
    loadJoined h root c t r = .error .notSubMapper := by
  simp [loadJoined, decideClass, hd, classOf_ident h hw d v hlt hv, hn]

/-! ## 3. concrete inheritance -/

theorem getD_map_range {α : Type} (n d : Nat) (f : Nat → List α) (hd : d < n) :
    ((List.range n).map f).getD d [] = f d := by
  simp [List.getD_eq_getElem?_getD, List.getElem?_map, List.getElem?_range hd]

/-- **polymorphic_most_specific_concrete**: the union over the subtree returns, ordered by
    id, exactly the stored objects of the queried subtree, each as the class of the table
    it came from with that table's values. -/
theorem polymorphic_most_specific_concrete (h : Hier) (c : Nat) (objs : List PObj) :
    ∃ ents, queryConcrete h c (storeConcrete h objs) = .ok ents ∧ Sorted ents ∧
      ∀ e, e ∈ ents ↔ ∃ o ∈ objs, o.cls < h.n ∧ h.isa o.cls c = true ∧ e = entOf h o := by
  refine ⟨_, rfl, sorted_sortEnts _, ?_⟩
  intro e
  rw [mem_sortEnts]
  simp only [List.mem_flatMap, List.mem_map, mem_sub]
  constructor
  · rintro ⟨d, ⟨hd, hi⟩, r, hr, rfl⟩
    rw [storeConcrete, getD_map_range _ _ _ hd] at hr
    obtain ⟨o, ho, rfl⟩ := List.mem_map.1 hr
    obtain ⟨ho1, ho2⟩ := List.mem_filter.1 ho
    have : o.cls = d := by simpa using ho2
    subst this
    exact ⟨o, ho1, hd, hi, rfl⟩
  · rintro ⟨o, ho, hd, hi, rfl⟩
    refine ⟨o.cls, ⟨hd, hi⟩, (o.id, (h.anc o.cls).map o.attr), ?_, rfl⟩
    rw [storeConcrete, getD_map_range _ _ _ hd]
    exact List.mem_map.2 ⟨o, List.mem_filter.2 ⟨ho, by simp⟩, rfl⟩

example : queryConcrete sampleH 1 (storeConcrete sampleH sampleObjs) =
    .ok [⟨2, 1, [some 20, some 21]⟩, ⟨3, 3, [none, none, none]⟩] := by rfl

/-! ## 4. with_polymorphic only moves columns between the first SELECT and later ones -/

/-- with `with_polymorphic(C, '*')` no returned object of the subtree has a deferred column -/
theorem with_polymorphic_all_defers_nothing (h : Hier) (k : Kind) (c : Nat) (ents : List Ent)
    (hsub : ∀ e ∈ ents, e.cls < h.n ∧ h.isa e.cls c = true) :
    deferredLoads h k c .all ents = 0 := by
  have key : ∀ e ∈ ents, ((h.anc e.cls).all fun a => (primaryCols h c .all).contains a) = true := by
    intro e he
    obtain ⟨h1, h2⟩ := hsub e he
    rw [List.all_eq_true]
    intro a ha
    have : e.cls ∈ h.sub c := (mem_sub h c e.cls).2 ⟨h1, h2⟩
    simp only [primaryCols, List.contains_iff_mem, List.mem_append, List.mem_flatMap]
    exact Or.inl ⟨e.cls, this, ha⟩
  cases k with
  | concrete => rfl
  | single =>
    simp only [deferredLoads, List.length_eq_zero_iff, List.filter_eq_nil_iff]
    intro e he
    rw [key e he]; simp
  | joined =>
    simp only [deferredLoads, List.length_eq_zero_iff, List.filter_eq_nil_iff]
    intro e he
    rw [key e he]; simp

/-! ## 5. populate_existing, always_refresh, objects already in the Session -/

/-- the states population leaves an attribute in: a dict entry, or the expired flag -/
def Sound (s : ASt) : Prop := s.val ≠ none ∨ s.exp = true

theorem populate_sound (created pe inRow : Bool) (rowv : Option Int) (s : ASt)
    (hs : created = false → Sound s) : Sound (populate created pe inRow rowv s) := by
  unfold populate
  cases created <;> cases pe <;> cases inRow <;> simp [Sound]
  all_goals
    cases hv : s.val with
    | none => simp [Sound, hv]
    | some v =>
      have := hs rfl
      simp [Sound, hv] at this ⊢

/-- **populate_existing_reads_db**: under `populate_existing` (or `always_refresh`) every
    attribute of the row's class reads the database value after the load — whether the
    statement carried its column or not, whatever state the object was in before -/
theorem populate_existing_reads_db (created inRow : Bool) (db : Option Int) (s : ASt) :
    readAttr db (populate created true inRow db s) = db := by
  unfold populate readAttr
  cases created <;> cases inRow <;> simp

/-- an instance created by the row reads the database values, with or without the option -/
theorem new_instance_reads_db (pe inRow : Bool) (db : Option Int) :
    readAttr db (populate true pe inRow db {}) = db := by
  unfold populate readAttr
  cases pe <;> cases inRow <;> simp

/-- **plain_load_keeps_reads**: without `populate_existing` a row meeting an object already
    in the Session changes nothing that attribute access can see -/
theorem plain_load_keeps_reads (inRow : Bool) (db : Option Int) (s : ASt) (hs : Sound s) :
    readAttr db (populate false false inRow db s) = readAttr db s := by
  unfold populate readAttr
  cases hv : s.val with
  | some v => simp [hv]
  | none =>
    have he : s.exp = true := by
      rcases hs with h1 | h1
      · exact absurd hv h1
      · exact h1
    cases inRow <;> simp [he]

/-- further loads of the same object (the `IN` loads of `polymorphic_load="selectin"` /
    `selectin_polymorphic`, which inherit the option) keep an attribute that reads the
    database value reading it -/
theorem later_loads_keep_db (pe inRow : Bool) (db : Option Int) (s : ASt) (hs : Sound s)
    (hr : readAttr db s = db) : readAttr db (populate false pe inRow db s) = db := by
  cases pe
  · rw [plain_load_keeps_reads inRow db s hs, hr]
  · exact populate_existing_reads_db false inRow db s

theorem map_snd_zip_eq {α β : Type} : ∀ (l₁ : List α) (l₂ : List β), l₂.length = l₁.length →
    (l₁.zip l₂).map (fun ab => ab.2) = l₂
  | [], [], _ => rfl
  | [], _ :: _, h => by cases h
  | _ :: _, [], h => by cases h
  | a :: l₁, b :: l₂, h => by
    simp only [List.zip_cons_cons, List.map_cons]
    rw [map_snd_zip_eq l₁ l₂ (by simpa using h)]

/-- **readEnt_populate_existing**: entity level — with `populate_existing` every returned
    object reads exactly the values of its row chain, for every with_polymorphic setting and
    every prior state of the Session -/
theorem readEnt_populate_existing (h : Hier) (c : Nat) (wp : WP) (pre : Nat → Option (Nat → ASt))
    (e : Ent) (hl : e.vals.length = (h.anc e.cls).length) :
    readEnt h c wp true pre e = e := by
  unfold readEnt
  cases hp : pre e.id with
  | none =>
    simp only [populate_existing_reads_db]
    rw [map_snd_zip_eq _ _ hl]
  | some st =>
    simp only [populate_existing_reads_db]
    rw [map_snd_zip_eq _ _ hl]

/-- in a Session that did not hold the object the option makes no difference -/
theorem readEnt_fresh (h : Hier) (c : Nat) (wp : WP) (pe : Bool) (pre : Nat → Option (Nat → ASt))
    (e : Ent) (hl : e.vals.length = (h.anc e.cls).length) (hp : pre e.id = none) :
    readEnt h c wp pe pre e = e := by
  unfold readEnt
  simp only [hp, new_instance_reads_db]
  rw [map_snd_zip_eq _ _ hl]

/-- the stored objects come back with value lists of the right length, so the two theorems
    above apply to every result of `polymorphic_most_specific_*` -/
theorem entOf_vals_length (h : Hier) (o : PObj) : (entOf h o).vals.length = (h.anc (entOf h o).cls).length := by
  simp [entOf]

/-- in a fresh Session the statement count after attribute access is the one of section 4 -/
theorem deferredLoadsSt_fresh (h : Hier) (k : Kind) (c : Nat) (wp : WP) (pe : Bool) (ents : List Ent) :
    deferredLoadsSt h k c wp pe (fun _ => none) ents = deferredLoads h k c wp ents := by
  cases k with
  | concrete => rfl
  | single =>
    simp only [deferredLoadsSt, deferredLoads]
    congr 1
    apply List.filter_congr
    intro e _
    rw [List.not_all_eq_any_not]
    congr 1
    funext a
    unfold populate
    cases pe <;> cases (primaryCols h c wp).contains a <;> simp
  | joined =>
    simp only [deferredLoadsSt, deferredLoads]
    congr 1
    apply List.filter_congr
    intro e _
    rw [List.not_all_eq_any_not]
    congr 1
    funext a
    unfold populate
    cases pe <;> cases (primaryCols h c wp).contains a <;> simp

end SaVerif.Props.C42
