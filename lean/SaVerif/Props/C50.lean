import SaVerif.Lemmas.OrderingList
import SaVerif.Model.AssocProxy
/-!
# C50 — Ordering lists and association proxies behave as their collection types

Part A: M-ORDLIST (`ext/orderinglist.py` inside a mapped relationship).
`Good st` = the list is duplicate-free and every element's position attribute equals
`ordering_func(index)`.  `good_step` / `good_run`: preserved by every guarded operation,
for any operation sequence; the guards are exactly the conditions under which the real
code keeps the property, and each excluded case has a counterexample theorem (replayed on
the real code by the harness).

Part B: M-APROXY (`ext/associationproxy.py` proxied list / set / dict): each proxy
operation refines the corresponding operation of the plain collection of proxied values,
keeps the identity of untouched intermediary objects and creates / removes exactly the
needed ones.
-/
namespace SaVerif.Props.C50

section PartA
open SaVerif.OrderingList

/-! ## Part A — positions equal indices -/

/-- guard of one operation -/
def OpOk (st : St) : Op → Prop
  | .append e => e ∉ st.items ∧ (st.pos e = none ∨ st.roa = true)
  | .insert _ e => e ∉ st.items
  | .setItem i e => 0 ≤ i ∧ e ∉ st.items
  | .extend es => es.Nodup ∧ ∀ e, e ∈ es → e ∉ st.items ∧ (st.pos e = none ∨ st.roa = true)
  | .setSlice start stop _ vals =>
    0 ≤ start ∧ -1 ≤ stop ∧ vals.Nodup ∧ ∀ e, e ∈ vals → e ∉ st.items
  | .reverse => st.items.length ≤ 1
  | .setOrder l => l = st.items
  | _ => True

/-- **positions_eq_indices** (one step): every guarded operation, failing or not, leaves
    the list duplicate-free with `position = ordering_func(index)` for every element. -/
theorem good_step {st : St} (h : Good st) (op : Op) (g : OpOk st op) : Good (stepKeep st op) := by
  unfold stepKeep
  cases op with
  | append e => exact (append_good h e g.1 g.2).1
  | insert i e => exact (insert_good h i e g).1
  | remove e =>
    simp only [step, remove]
    by_cases hc : st.items.contains e = true
    · simp only [hc, if_true]
      exact good_reorder st _ ((List.erase_sublist).nodup h.1)
    · simp only [hc, Bool.false_eq_true, if_false]
      exact h
  | pop i =>
    simp only [step, pop]
    split
    · rename_i st1 hd
      exact (delItem_good h i hd).1
    · exact h
  | setItem i e =>
    simp only [step]
    split
    · rename_i st1 hs
      exact (setItem_good h i e g.1 g.2 hs).1
    · exact h
  | delItem i =>
    simp only [step]
    split
    · rename_i st1 hd
      exact (delItem_good h i hd).1
    · exact h
  | delIdxs idxs =>
    simp only [step, delIdxs]
    exact good_reorder st _ ((kept_sublist st.items idxs).nodup h.1)
  | setSlice start stop stp vals =>
    simp only [step, setSlice]
    by_cases hstp : stp = 1
    · simp only [hstp, if_true]
      have d := delLoop_good (pyRange start stop 1).length st start.toNat h
      exact insLoop_good vals _ _ d.1 g.2.2.1 (fun e he hm => g.2.2.2 e he (d.2 e hm))
    · simp only [hstp, if_false]
      by_cases hlen : vals.length = (pyRange start stop stp).length
      · simp only [hlen, ne_eq, not_true_eq_false, if_false]
        split
        · rename_i st1 heq
          refine setLoop_good _ st st1 h ?_ ?_ ?_ heq
          · intro p hp
            exact pyRange_nonneg start stop stp g.1 g.2.1 p.1 (List.of_mem_zip hp).1
          · rw [List.map_snd_zip (by omega)]
            exact g.2.2.1
          · intro p hp
            exact g.2.2.2 p.2 (List.of_mem_zip hp).2
        · exact h
      · simp only [ne_eq, hlen, not_false_eq_true, if_true]
        exact h
  | extend es => exact extend_good es st h g.1 g.2
  | clear => exact ⟨by simp [step, clear], clear_sync st⟩
  | reverse =>
    simp only [step, reverse]
    have : st.items.reverse = st.items := by
      have hl : st.items.length ≤ 1 := g
      match hi : st.items with
      | [] => rfl
      | [_] => rfl
      | _ :: _ :: _ => rw [hi] at hl; simp at hl
    rw [this]
    exact h
  | setOrder l =>
    simp only [step, setOrder]
    have : l = st.items := g
    subst this
    exact h
  | reorder => exact good_reorder st st.items h.1

/-- every step of the run satisfies its guard in the state in which it executes -/
def GuardedRun : St → List Op → Prop
  | _, [] => True
  | st, op :: ops => OpOk st op ∧ GuardedRun (stepKeep st op) ops

/-- **positions_eq_indices**: after ANY guarded operation sequence starting from an empty
    ordering list (any `count_from`, `reorder_on_append` on or off) every element's
    position attribute equals `ordering_func(index)`. -/
theorem good_run : ∀ (ops : List Op) (st : St), Good st → GuardedRun st ops → Good (run st ops)
  | [], _, h, _ => h
  | op :: ops, _, h, g => good_run ops _ (good_step h op g.1) g.2

theorem good_init (start : Int) (roa : Bool) : Good (init start roa) :=
  ⟨by simp [init], fun i h => by simp [init] at h⟩

theorem positions_eq_indices (start : Int) (roa : Bool) (ops : List Op)
    (g : GuardedRun (init start roa) ops) (i : Nat)
    (h : i < (run (init start roa) ops).items.length) :
    (run (init start roa) ops).pos ((run (init start roa) ops).items[i])
      = some ((i : Int) + (run (init start roa) ops).start) :=
  (good_run ops _ (good_init start roa) g).2 i h

/-- whatever happened before (sort, reverse, negative-index assignment, stale positions):
    `reorder()` restores the property on a duplicate-free list -/
theorem reorder_restores (st : St) (hn : st.items.Nodup) : Sync (reorder st) :=
  reorder_sync st hn

/-- non-vacuity: a guarded run with inserts, a slice assignment and removals -/
example :
    let ops := [Op.extend [0, 1, 2], Op.insert 1 3, Op.setSlice 1 3 1 [4, 5, 6], Op.pop (-1),
                Op.setItem 0 7, Op.remove 4]
    let st := run (init 1 false) ops
    st.items = [7, 5, 6] ∧ st.items.map st.pos = [some 1, some 2, some 3] := by
  decide

/-! ### the excluded cases are real (counterexamples, replayed on the real code) -/

/-- `l[-1] = e` stores `ordering_func(-1)`: the index is used as given -/
theorem setitem_negative_counterexample :
    let st := run (init 0 false) [Op.extend [0, 1, 2], Op.setItem (-1) 3]
    st.items = [0, 1, 3] ∧ st.pos 3 = some (-1) := by
  decide

/-- `sort()` / `reverse()` are inherited from `list`: positions are not updated -/
theorem reverse_counterexample :
    let st := run (init 0 false) [Op.extend [0, 1, 2], Op.reverse]
    st.items = [2, 1, 0] ∧ st.items.map st.pos = [some 2, some 1, some 0] := by
  decide

/-- an element that already carries a position keeps it on `append`
    (`reorder_on_append=False`), e.g. after it was removed from the list -/
theorem append_stale_counterexample :
    let st := run (init 0 false) [Op.extend [0, 1, 2], Op.remove 0, Op.append 0]
    st.items = [1, 2, 0] ∧ st.items.map st.pos = [some 0, some 1, some 0] := by
  decide

/-- with `reorder_on_append=True` the same sequence is in sync -/
example :
    let st := run (init 0 true) [Op.extend [0, 1, 2], Op.remove 0, Op.append 0]
    st.items.map st.pos = [some 0, some 1, some 2] := by
  decide

end PartA

/-! ## Part B — association proxies refine the plain collections -/

open SaVerif.AssocProxy

namespace SetP
open SaVerif.AssocProxy.Set

theorem contains_iff (s : St) (v : Int) : contains s v = true ↔ v ∈ view s := by
  simp only [contains, view, List.any_eq_true, List.mem_map, beq_iff_eq]

/-- `add` is `set.add` on the proxied values -/
theorem add_refines (s : St) (v x : Int) : x ∈ view (add s v) ↔ x = v ∨ x ∈ view s := by
  unfold add
  split
  · rename_i h
    have := (contains_iff s v).1 h
    constructor
    · exact Or.inr
    · rintro (rfl | h') <;> assumption
  · simp only [view, List.map_append, List.map_cons, List.map_nil, List.mem_append,
      List.mem_singleton]
    constructor
    · rintro (h | h); exact Or.inr h; exact Or.inl h
    · rintro (h | h); exact Or.inr h; exact Or.inl h

/-- `add` never creates a second intermediary for a value -/
theorem add_nodup (s : St) (v : Int) (h : (view s).Nodup) : (view (add s v)).Nodup := by
  unfold add
  split
  · exact h
  · rename_i hc
    have hv : v ∉ view s := fun hm => hc ((contains_iff s v).2 hm)
    simp only [view, List.map_append, List.map_cons, List.map_nil]
    rw [List.nodup_append]
    refine ⟨h, by simp, ?_⟩
    intro a ha b hb
    simp only [List.mem_singleton] at hb
    subst hb
    intro hab; subst hab; exact hv ha

/-- existing intermediary objects survive `add` (no churn of association rows) -/
theorem add_keeps (s : St) (v : Int) (m : Mem) (hm : m ∈ s.col) : m ∈ (add s v).col := by
  unfold add
  split
  · exact hm
  · simp [hm]

theorem eraseFirst_sublist : ∀ (l : List Mem) (v : Int), (eraseFirst l v).Sublist l
  | [], _ => List.Sublist.refl _
  | m :: ms, v => by
    unfold eraseFirst
    split
    · exact List.sublist_cons_self m ms
    · exact (eraseFirst_sublist ms v).cons_cons m

theorem mem_eraseFirst : ∀ (l : List Mem) (v : Int), ((l.map (·.val)).Nodup) →
    ∀ m, m ∈ eraseFirst l v ↔ m ∈ l ∧ m.val ≠ v
  | [], _, _, m => by simp [eraseFirst]
  | a :: as, v, hn, m => by
    simp only [List.map_cons, List.nodup_cons] at hn
    unfold eraseFirst
    split
    · rename_i h
      simp only [beq_iff_eq] at h
      constructor
      · intro hm
        refine ⟨List.mem_cons_of_mem _ hm, ?_⟩
        intro hv
        exact hn.1 (by rw [h, ← hv]; exact List.mem_map_of_mem hm)
      · rintro ⟨hm, hv⟩
        rcases List.mem_cons.1 hm with rfl | hm
        · exact absurd h hv
        · exact hm
    · rename_i h
      simp only [beq_iff_eq] at h
      simp only [List.mem_cons]
      rw [mem_eraseFirst as v hn.2 m]
      constructor
      · rintro (rfl | ⟨hm, hv⟩)
        · exact ⟨Or.inl rfl, h⟩
        · exact ⟨Or.inr hm, hv⟩
      · rintro ⟨rfl | hm, hv⟩
        · exact Or.inl rfl
        · exact Or.inr ⟨hm, hv⟩

/-- `discard` is `set.discard` on the proxied values, and removes exactly the
    intermediary object carrying the value -/
theorem discard_refines (s : St) (v : Int) (hn : (view s).Nodup) :
    (∀ m, m ∈ (discard s v).col ↔ m ∈ s.col ∧ m.val ≠ v) ∧
    (∀ x, x ∈ view (discard s v) ↔ x ∈ view s ∧ x ≠ v) ∧ (view (discard s v)).Nodup := by
  have hm := mem_eraseFirst s.col v hn
  refine ⟨hm, ?_, ?_⟩
  · intro x
    simp only [view, SaVerif.AssocProxy.Set.discard, List.mem_map]
    constructor
    · rintro ⟨m, hmm, rfl⟩
      exact ⟨⟨m, ((hm m).1 hmm).1, rfl⟩, ((hm m).1 hmm).2⟩
    · rintro ⟨⟨m, hmm, rfl⟩, hv⟩
      exact ⟨m, (hm m).2 ⟨hmm, hv⟩, rfl⟩
  · have hs : (view (SaVerif.AssocProxy.Set.discard s v)).Sublist (view s) :=
      (eraseFirst_sublist s.col v).map _
    exact hs.nodup hn

/-- `update` / `|=` : union with the given values, still one intermediary per value -/
theorem update_refines : ∀ (vs : List Int) (s : St), (view s).Nodup →
    (∀ x, x ∈ view (update s vs) ↔ x ∈ view s ∨ x ∈ vs) ∧ (view (update s vs)).Nodup
  | [], s, hn => ⟨fun x => by simp [update], hn⟩
  | v :: vs, s, hn => by
    have ih := update_refines vs (add s v) (add_nodup s v hn)
    refine ⟨?_, ih.2⟩
    intro x
    show x ∈ view (update (add s v) vs) ↔ _
    rw [ih.1 x, add_refines]
    simp only [List.mem_cons]
    constructor
    · rintro ((h | h) | h)
      · exact Or.inr (Or.inl h)
      · exact Or.inl h
      · exact Or.inr (Or.inr h)
    · rintro (h | h | h)
      · exact Or.inl (Or.inr h)
      · exact Or.inl (Or.inl h)
      · exact Or.inr h

/-- `difference_update` / `-=` -/
theorem differenceUpdate_refines : ∀ (vs : List Int) (s : St), (view s).Nodup →
    (∀ x, x ∈ view (differenceUpdate s vs) ↔ x ∈ view s ∧ x ∉ vs) ∧
      (view (differenceUpdate s vs)).Nodup
  | [], s, hn => ⟨fun x => by simp [differenceUpdate], hn⟩
  | v :: vs, s, hn => by
    have d := discard_refines s v hn
    have ih := differenceUpdate_refines vs (discard s v) d.2.2
    refine ⟨?_, ih.2⟩
    intro x
    show x ∈ view (differenceUpdate (discard s v) vs) ↔ _
    rw [ih.1 x, d.2.1 x]
    simp only [List.mem_cons, not_or]
    constructor
    · rintro ⟨⟨h1, h2⟩, h3⟩; exact ⟨h1, h2, h3⟩
    · rintro ⟨h1, h2, h3⟩; exact ⟨⟨h1, h2⟩, h3⟩

/-- `remove` raises KeyError exactly when the value is absent -/
theorem remove_error_iff (s : St) (v : Int) : remove s v = .error .keyError ↔ v ∉ view s := by
  unfold remove
  split
  · rename_i h
    simp only [reduceCtorEq, false_iff, Decidable.not_not]
    exact (contains_iff s v).1 h
  · rename_i h
    simp only [true_iff]
    exact fun hm => h ((contains_iff s v).2 hm)

example : (view (update ⟨[], 0⟩ [3, 1, 3])).Nodup ∧ view (update ⟨[], 0⟩ [3, 1, 3]) = [3, 1] := by
  decide

end SetP

namespace DictP
open SaVerif.AssocProxy.Dict

def lookup (s : St) (k : Int) : Option Int := (s.col.find? (fun p => p.1 == k)).map (·.2.val)

def idOf (s : St) (k : Int) : Option Nat := (s.col.find? (fun p => p.1 == k)).map (·.2.id)

theorem hasKey_iff (s : St) (k : Int) : hasKey s k = true ↔ (lookup s k).isSome = true := by
  simp only [hasKey, lookup, Option.isSome_map, List.find?_isSome, List.any_eq_true]

theorem find_setExisting : ∀ (l : List (Int × Mem)) (k v k' : Int),
    ((setExisting l k v).find? (fun p => p.1 == k')) =
      if k' = k then (l.find? (fun p => p.1 == k)).map (fun p => (p.1, { p.2 with val := v }))
      else l.find? (fun p => p.1 == k')
  | [], _, _, _ => by simp [setExisting]
  | p :: ps, k, v, k' => by
    have ih := find_setExisting ps k v k'
    unfold setExisting
    by_cases hk : p.1 = k
    · have hb : (p.1 == k) = true := by simpa using hk
      simp only [hb, if_true, List.find?_cons]
      by_cases hk' : k' = k
      · subst hk'; simp [hb]
      · have h1 : (p.1 == k') = false := by
          simp only [beq_eq_false_iff_ne, ne_eq]; intro h; exact hk' (h.symm.trans hk)
        simp [h1, hk']
    · have hb : (p.1 == k) = false := by simpa using hk
      simp only [hb, Bool.false_eq_true, if_false, List.find?_cons]
      by_cases hk' : k' = k
      · subst hk'
        simp only [hb, if_true] at ih ⊢
        exact ih
      · by_cases hp : p.1 = k'
        · have h1 : (p.1 == k') = true := by simpa using hp
          simp [h1, hk']
        · have h1 : (p.1 == k') = false := by simpa using hp
          simp only [h1, hk', if_false] at ih ⊢
          exact ih

/-- `proxy[k] = v` is `dict.__setitem__` on the proxied values -/
theorem setItem_refines (s : St) (k v k' : Int) :
    lookup (setItem s k v) k' = if k' = k then some v else lookup s k' := by
  unfold setItem
  split
  · rename_i h
    simp only [lookup, find_setExisting]
    by_cases hk' : k' = k
    · subst hk'
      have := (hasKey_iff s k').1 h
      simp only [lookup, Option.isSome_map] at this
      cases hf : s.col.find? (fun p => p.1 == k') with
      | none => rw [hf] at this; cases this
      | some q => simp
    · simp [hk']
  · rename_i h
    have hnone : s.col.find? (fun p => p.1 == k) = none := by
      cases hf : s.col.find? (fun p => p.1 == k) with
      | none => rfl
      | some q =>
        exfalso; apply h
        rw [hasKey_iff]; simp [lookup, hf]
    simp only [lookup, List.find?_append]
    by_cases hk' : k' = k
    · subst hk'; simp [hnone]
    · have h1 : (k == k') = false := by
        simp only [beq_eq_false_iff_ne, ne_eq]; exact fun hh => hk' hh.symm
      simp [h1, hk']

/-- assigning to an existing key updates the existing intermediary object (same identity);
    every other key keeps its object -/
theorem setItem_keeps_identity (s : St) (k v k' : Int) (h : hasKey s k' = true) :
    idOf (setItem s k v) k' = idOf s k' := by
  unfold setItem
  split
  · simp only [idOf, find_setExisting]
    by_cases hk' : k' = k
    · subst hk'
      cases hf : s.col.find? (fun p => p.1 == k') <;> simp
    · simp [hk']
  · have hsome := (hasKey_iff s k').1 h
    simp only [lookup, Option.isSome_map] at hsome
    simp only [idOf, List.find?_append]
    cases hf : s.col.find? (fun p => p.1 == k') with
    | none => rw [hf] at hsome; cases hsome
    | some q => simp

theorem find_eraseKey : ∀ (l : List (Int × Mem)) (k k' : Int), (l.map (·.1)).Nodup →
    ((eraseKey l k).find? (fun p => p.1 == k')) =
      if k' = k then none else l.find? (fun p => p.1 == k')
  | [], _, _, _ => by simp [eraseKey]
  | p :: ps, k, k', hn => by
    simp only [List.map_cons, List.nodup_cons] at hn
    have ih := find_eraseKey ps k k' hn.2
    unfold eraseKey
    by_cases hk : p.1 = k
    · have hb : (p.1 == k) = true := by simpa using hk
      simp only [hb, if_true, List.find?_cons]
      by_cases hk' : k' = k
      · subst hk'
        simp only [if_true]
        cases hf : ps.find? (fun q => q.1 == k') with
        | none => rfl
        | some q =>
          exfalso
          have hq := List.find?_some hf
          have hm := List.mem_of_find?_eq_some hf
          simp only [beq_iff_eq] at hq
          exact hn.1 (by rw [hk, ← hq]; exact List.mem_map_of_mem hm)
      · have h1 : (p.1 == k') = false := by
          simp only [beq_eq_false_iff_ne, ne_eq]; intro h; exact hk' (h.symm.trans hk)
        simp [h1, hk']
    · have hb : (p.1 == k) = false := by simpa using hk
      simp only [hb, Bool.false_eq_true, if_false, List.find?_cons]
      by_cases hk' : k' = k
      · subst hk'
        simp only [hb, if_true] at ih ⊢
        exact ih
      · by_cases hp : p.1 = k'
        · have h1 : (p.1 == k') = true := by simpa using hp
          simp [h1, hk']
        · have h1 : (p.1 == k') = false := by simpa using hp
          simp only [h1, hk', if_false] at ih ⊢
          exact ih

/-- `del proxy[k]` is `dict.__delitem__`: KeyError iff absent, otherwise only `k` goes -/
theorem delItem_refines (s : St) (k : Int) (hn : (s.col.map (·.1)).Nodup) :
    (hasKey s k = false → delItem s k = .error .keyError) ∧
    (hasKey s k = true → ∃ s', delItem s k = .ok s' ∧
      ∀ k', lookup s' k' = if k' = k then none else lookup s k') := by
  constructor
  · intro h; simp [delItem, h]
  · intro h
    refine ⟨{ s with col := eraseKey s.col k }, by simp [delItem, h], ?_⟩
    intro k'
    simp only [lookup, find_eraseKey s.col k k' hn]
    split <;> rfl

example :
    lookup (setItem (setItem (setItem ⟨[], 0⟩ 1 10) 2 20) 1 11) 1 = some 11 ∧
    idOf (setItem (setItem (setItem ⟨[], 0⟩ 1 10) 2 20) 1 11) 1 = some 0 := by
  decide

end DictP

namespace ListP
open SaVerif.AssocProxy.Lst

/-- `append` / `extend` / `+=` are the list operations on the proxied values -/
theorem append_refines (s : St) (v : Int) : view (append s v) = view s ++ [v] := by
  simp [view, append]

theorem extend_refines : ∀ (vs : List Int) (s : St), view (extend s vs) = view s ++ vs
  | [], s => by simp [extend]
  | v :: vs, s => by
    show view (extend (append s v) vs) = _
    rw [extend_refines vs (append s v), append_refines]
    simp

/-- `insert(i, v)` puts the value where `list.insert` puts it -/
theorem insert_refines (s : St) (i v : Int) :
    view (insert s i v) =
      (view s).take (pyInsertIdx (view s).length i) ++ [v] ++ (view s).drop (pyInsertIdx (view s).length i) := by
  simp [view, Lst.insert, List.map_take, List.map_drop]

theorem map_eraseIdx_val : ∀ (l : List Mem) (k : Nat),
    (l.eraseIdx k).map (·.val) = (l.map (·.val)).eraseIdx k
  | [], _ => rfl
  | _ :: _, 0 => rfl
  | a :: as, k + 1 => by simp [List.eraseIdx_cons_succ, map_eraseIdx_val as k]

/-- `del proxy[i]` / `pop(i)`: IndexError exactly outside `[-n, n)`, else the element at the
    normalised index goes -/
theorem delItem_refines (s : St) (i : Int) :
    match normIdx (view s).length i with
    | none => delItem s i = .error .indexError
    | some k => ∃ s', delItem s i = .ok s' ∧ view s' = (view s).eraseIdx k := by
  have hl : (view s).length = s.col.length := by simp [view]
  rw [hl]
  unfold delItem
  cases normIdx s.col.length i with
  | none => rfl
  | some k => exact ⟨_, rfl, map_eraseIdx_val s.col k⟩

theorem map_modify_val (l : List Mem) (k : Nat) (v : Int) :
    (l.modify k (fun m => { m with val := v })).map (·.val) = (l.map (·.val)).set k v := by
  induction l generalizing k with
  | nil => simp
  | cons a as ih =>
    cases k with
    | zero => simp
    | succ j => simp [ih]

/-- `proxy[i] = v` sets the value on the existing intermediary (identities unchanged) -/
theorem setItem_refines (s : St) (i v : Int) :
    match normIdx (view s).length i with
    | none => setItem s i v = .error .indexError
    | some k => ∃ s', setItem s i v = .ok s' ∧ view s' = (view s).set k v ∧
        s'.col.map (·.id) = s.col.map (·.id) := by
  have hl : (view s).length = s.col.length := by simp [view]
  rw [hl]
  unfold setItem
  cases normIdx s.col.length i with
  | none => rfl
  | some k =>
    refine ⟨_, rfl, map_modify_val s.col k v, ?_⟩
    simp only
    induction s.col generalizing k with
    | nil => simp
    | cons a as ih =>
      cases k with
      | zero => simp
      | succ j => simp [ih]

theorem view_eraseFirst : ∀ (l : List Mem) (v : Int),
    (eraseFirst l v).map (·.val) = (l.map (·.val)).erase v
  | [], _ => rfl
  | m :: ms, v => by
    unfold eraseFirst
    by_cases h : m.val = v
    · have hb : (m.val == v) = true := by simpa using h
      simp [hb, h]
    · have hb : (m.val == v) = false := by simpa using h
      simp only [hb, Bool.false_eq_true, if_false, List.map_cons]
      rw [List.erase_cons_tail (by simpa using h), view_eraseFirst ms v]

/-- `remove(v)`: ValueError iff absent, else the first occurrence goes (`list.remove`) -/
theorem remove_refines (s : St) (v : Int) :
    (v ∉ view s → remove s v = .error .valueError) ∧
    (v ∈ view s → ∃ s', remove s v = .ok s' ∧ view s' = (view s).erase v) := by
  have hany : (s.col.any (fun m => m.val == v)) = true ↔ v ∈ view s := by
    simp only [view, List.any_eq_true, List.mem_map, beq_iff_eq]
  constructor
  · intro h
    have : ¬ (s.col.any (fun m => m.val == v)) = true := fun hh => h (hany.1 hh)
    simp [remove, this]
  · intro h
    refine ⟨{ s with col := eraseFirst s.col v }, by simp [remove, hany.2 h], ?_⟩
    simp only [view]
    exact view_eraseFirst s.col v

/-- `proxy *= n` for `n ≥ 0` is `list.__imul__` on the proxied values -/
theorem imul_refines (s : St) (n : Nat) : view (imul s n) = repeatList (view s) n := by
  unfold imul
  cases n with
  | zero => simp [clear, view, repeatList]
  | succ k =>
    have h0 : ¬ ((k + 1 : Nat) : Int) = 0 := by omega
    simp only [h0, if_false]
    cases k with
    | zero => simp [repeatList]
    | succ j =>
      have h1 : (((j + 1 + 1 : Nat) : Int)) > 1 := by omega
      simp only [h1, if_true]
      rw [extend_refines]
      have : ((((j + 1 + 1 : Nat) : Int)) - 1).toNat = j + 1 := by omega
      rw [this]
      rfl

/-- the full-strength statement for negative `n` is false: `proxy *= -1` leaves the list
    unchanged where `list.__imul__` empties it -/
theorem imul_negative_counterexample :
    view (imul (extend ⟨[], 0⟩ [1, 2]) (-1)) = [1, 2] := by
  decide

example : view (imul (extend ⟨[], 0⟩ [1, 2]) 3) = [1, 2, 1, 2, 1, 2] := by decide

end ListP

end SaVerif.Props.C50
