import SaVerif.Lemmas.PoolFaultG
import SaVerif.Lemmas.RecProto
/-!
# C26 — The pool recovers from any fault without leaking or reusing dead connections

Theorems about the fault machine `SaVerif/Model/PoolFault.lean` (sequential
transcription of `_ConnectionRecord`, `_ConnectionFairy._checkout`, `_finalize_fairy`,
`Pool._invalidate` over `QueuePool`).  They quantify over ALL operation sequences
(`Op` = checkout / close / invalidate / soft invalidate / pool invalidate / GC drop /
time passing), ALL fault plans (`plan : List Nat`, one entry consumed at every
DBAPI call or checkout event, any length, any values) and all configurations
(pool_size, max_overflow, FIFO/LIFO, recycle, pre_ping, reset_on_return, listener).
-/
namespace SaVerif.Props.C26
open SaVerif.PoolFault

/-- configurations `QueuePool.__init__` can produce -/
def WF (c : Cfg) : Prop := c.maxOv = -1 ∨ 0 ≤ c.maxOv

/-- the inductive invariant: record/ledger/clock part and pool-level part -/
structure Inv (c : Cfg) (st : St) : Prop where
  g : GR st
  p : PInv c none st

theorem inv_init (c : Cfg) (plan : List Nat) : Inv c (init c plan) := by
  constructor
  · refine ⟨⟨?_, ?_⟩, ?_, ⟨by simp [init], ?_⟩⟩
    · intro r cn h; simp [init, connOf, blankRec] at h
    · intro r r' cn h; simp [init, connOf, blankRec] at h
    · intro cn h; simp [init] at h
    · intro x hx; simp [init] at hx
  · refine ⟨?_, ?_, ?_, ?_, ?_, ?_, ?_, ?_⟩
    · simp [init, inUseCount]; omega
    · intro r hr; simp [init] at hr
    · intro r hr; simp [init] at hr
    · simp [init]
    · intro r hr; cases hr
    · intro r cn h; simp [init, connOf, blankRec] at h
    · intro k x h; simp [init] at h
    · intro _; simp [init]

theorem inv_exec (c : Cfg) (st : St) (op : Op) (h : Inv c st) : Inv c (exec c st op).1 :=
  ⟨exec_GR op h.g h.p.qv, exec_PInv op h.p⟩

theorem run_fst_cons (c : Cfg) (st : St) (op : Op) (ops : List Op) :
    (run c st (op :: ops)).1 = (run c (exec c st op).1 ops).1 := by
  simp [run]

/-- **the invariant holds after any operation sequence under any fault plan** -/
theorem inv_run (c : Cfg) : ∀ (ops : List Op) (st : St), Inv c st → Inv c (run c st ops).1 := by
  intro ops
  induction ops with
  | nil => intro st h; simpa [run] using h
  | cons op ops ih =>
    intro st h
    rw [run_fst_cons]
    exact ih _ (inv_exec c st op h)

/-- no record is referenced by a fairy: every holder has released its connection
    (closed, invalidated or garbage-collected) -/
def Released (st : St) : Prop := ∀ x ∈ st.recs, x.inUse = false

/-- **quiescent_no_leak**: for every configuration, fault plan and operation
    sequence, once no record is in use `checkedout()` is 0 and every connection still
    open in the DBAPI ledger is the connection of a record idle in the pool. -/
theorem quiescent_no_leak (c : Cfg) (plan : List Nat) (ops : List Op)
    (hrel : Released (run c (init c plan) ops).1) :
    checkedout c (run c (init c plan) ops).1 = 0 ∧
    ∀ cn, (run c (init c plan) ops).1.conns[cn]? = some true →
      ∃ r ∈ (run c (init c plan) ops).1.queue,
        (getRec (run c (init c plan) ops).1 r).conn = some cn := by
  have hi := inv_run c ops _ (inv_init c plan)
  generalize (run c (init c plan) ops).1 = st at *
  have hz : inUseCount st.recs = 0 := inUseCount_zero_of_all st.recs hrel
  constructor
  · have := hi.p.acct
    simp only [Option.isSome_none] at this
    unfold checkedout
    simp at this ⊢
    omega
  · intro cn hcn
    obtain ⟨r, hr⟩ := hi.g.o cn hcn
    rcases hi.p.liveConn r cn hr with hl | hl | hl
    · exact ⟨r, hl, hr⟩
    · exfalso
      have hlt := inUseOf_lt hl
      have hm : st.recs.getD r blankRec ∈ st.recs := by
        simp [List.getD_eq_getElem?_getD, List.getElem?_eq_getElem hlt]
      have := hrel _ hm
      unfold inUseOf at hl
      rw [this] at hl; cases hl
    · cases hl

/-- idle records never exceed pool_size and the ledger never holds an open
    connection that no live record owns (no leak at ANY point, not only at rest) -/
theorem open_is_owned (c : Cfg) (plan : List Nat) (ops : List Op) (cn : Nat)
    (hopen : (run c (init c plan) ops).1.conns[cn]? = some true) :
    ∃ r, (getRec (run c (init c plan) ops).1 r).conn = some cn ∧
      (r ∈ (run c (init c plan) ops).1.queue ∨ (getRec (run c (init c plan) ops).1 r).inUse = true) := by
  have hi := inv_run c ops _ (inv_init c plan)
  generalize (run c (init c plan) ops).1 = st at *
  obtain ⟨r, hr⟩ := hi.g.o cn hopen
  rcases hi.p.liveConn r cn hr with hl | hl | hl
  · exact ⟨r, hr, Or.inl hl⟩
  · exact ⟨r, hr, Or.inr hl⟩
  · cases hl

/-- a record's connection is always open in the ledger and never shared -/
theorem record_conn_open_unshared (c : Cfg) (plan : List Nat) (ops : List Op) (r r' cn : Nat)
    (h1 : (getRec (run c (init c plan) ops).1 r).conn = some cn) :
    (run c (init c plan) ops).1.conns[cn]? = some true ∧
    ((getRec (run c (init c plan) ops).1 r').conn = some cn → r = r') := by
  have hi := inv_run c ops _ (inv_init c plan)
  generalize (run c (init c plan) ops).1 = st at *
  exact ⟨hi.g.r.isOpen r cn h1, fun h2 => hi.g.r.inj r r' cn h1 h2⟩

/-- **no_stale_handout**: after any history, a successful checkout hands out a
    connection that (a) is the connection of the record it checked out, (b) is open in
    the ledger (close() was never called on it), and whose record (c) is not older than
    the pool invalidation time and (d) was not soft-invalidated since it connected;
    (e) the fairy registered under the returned handle carries exactly that pair.
    The clock is the logical one (`tick`: strictly increasing per `time.time()` call). -/
theorem no_stale_handout (c : Cfg) (plan : List Nat) (ops : List Op) (h r cn : Nat)
    (hco : (checkout c (run c (init c plan) ops).1).2 = CoRes.ok h r cn) :
    let st' := (checkout c (run c (init c plan) ops).1).1
    (getRec st' r).conn = some cn ∧
    st'.conns[cn]? = some true ∧
    ¬ (getRec st' r).start < st'.invTime ∧
    ¬ (getRec st' r).start < (getRec st' r).softInv ∧
    st'.fairies[h]? = some (some { rid := r, conn := some cn }) := by
  have hi := inv_run c ops _ (inv_init c plan)
  generalize (run c (init c plan) ops).1 = st at *
  have ⟨hgood, hf⟩ := checkout_ok_spec hi.g hi.p hco
  have hg' := checkout_GR (c := c) hi.g hi.p.qv
  obtain ⟨hconn, hst⟩ := hgood
  have hopen := hg'.r.isOpen r cn hconn
  simp only [stale, Bool.or_eq_false_iff, decide_eq_false_iff_not] at hst
  exact ⟨hconn, hopen, hst.1, hst.2, hf⟩

/-- with recycle configured, the age test of `get_connection` is what the checkout
    relies on: a record that passes it is kept, one that fails is reconnected -/
theorem recycle_reconnects (c : Cfg) (st : St) (r cn : Nat) (hc : (getRec st r).conn = some cn)
    (hrec : 0 ≤ c.recycle) (hold : c.recycle < (st.clock : Int) - (getRec st r).start) :
    getConnection c st r = connect (closeRec (tickSt st) r) r := by
  simp [getConnection, hc, hrec, hold]

/-- checkedout() is never negative and idle never exceeds pool_size, at any point -/
theorem counters_sane (c : Cfg) (plan : List Nat) (ops : List Op) :
    0 ≤ checkedout c (run c (init c plan) ops).1 ∧
    (0 < c.size → (run c (init c plan) ops).1.queue.length ≤ c.size) := by
  have hi := inv_run c ops _ (inv_init c plan)
  generalize (run c (init c plan) ops).1 = st at *
  constructor
  · have := hi.p.acct
    simp only [Option.isSome_none] at this
    unfold checkedout
    simp at this ⊢
    omega
  · exact hi.p.qLe


/-! ## concurrent part: hand-over of an entry between concurrent checkouts

Every write of a cell another thread can see (`fairy_ref`, the queue) is one atomic step of
`SaVerif.RecProto.step`; a run of the machine is an arbitrary interleaving of any number of
checkout attempts.  The theorems hold for ALL runs. -/

/-- the invariant holds after every run -/
theorem proto_inv_run (ls : List RecProto.Label) (s : RecProto.St)
    (h : RecProto.run RecProto.init ls = some s) : RecProto.Inv s :=
  RecProto.inv_run ls _ _ RecProto.inv_init h

/-- whoever holds an entry is designated by its `fairy_ref`: the guard of
    `_finalize_fairy` (`fairy_ref is not None` / `fairy_ref is ref`) passes for every holder -/
theorem release_never_skipped (ls : List RecProto.Label) (s : RecProto.St) (a r : Nat)
    (h : RecProto.run RecProto.init ls = some s) (hh : s.pc a = .holding r) :
    s.ref r = some a :=
  (proto_inv_run ls s h).holdRef a r hh

/-- ... hence the step that loses the entry is never enabled -/
theorem skip_never_enabled (ls : List RecProto.Label) (s : RecProto.St) (a r : Nat)
    (h : RecProto.run RecProto.init ls = some s) : RecProto.step s (.skip a r) = none := by
  simp only [RecProto.step]
  split
  · rename_i hc
    exact absurd (release_never_skipped ls s a r h hc.1) hc.2
  · rfl

/-- an entry has at most one checkout attempt responsible for it, and is then neither idle
    (visible to others) nor closed -/
theorem handover_exclusive (ls : List RecProto.Label) (s : RecProto.St) (a b r : Nat)
    (h : RecProto.run RecProto.init ls = some s)
    (ha : RecProto.Owns s a r) (hb : RecProto.Owns s b r) :
    a = b ∧ s.idle r = false ∧ s.dead r = false :=
  ⟨(proto_inv_run ls s h).excl a b r ha hb, ((proto_inv_run ls s h).ownState a r ha).1,
   ((proto_inv_run ls s h).ownState a r ha).2.2⟩

/-- once every holder has released, every entry ever created is idle in the pool or was
    closed: no slot is lost, under any interleaving -/
theorem proto_quiescent_no_loss (ls : List RecProto.Label) (s : RecProto.St)
    (h : RecProto.run RecProto.init ls = some s) (hq : RecProto.Quiescent s) (r : Nat)
    (hu : s.used r = true) : s.idle r = true ∨ s.dead r = true := by
  rcases (proto_inv_run ls s h).accounted r hu with h1 | h1 | ⟨a, ha⟩
  · exact Or.inr h1
  · exact Or.inl h1
  · rcases hq a with h2 | h2 <;> simp [RecProto.Owns, h2] at ha

/-- the order of the two writes in `checkin()` matters: with `fairy_ref = None` AFTER the
    entry is made visible (`RecProto.stepLate`), a concurrent checkout of the entry between
    the two writes has its `fairy_ref` wiped, its release is skipped and the entry is lost:
    everything released, entry 0 neither idle nor closed -/
theorem late_clear_loses_entry :
    ∃ s, RecProto.runLate RecProto.init
        [.create 0 0, .setref 0 0, .put 0 0, .pop 1 0, .setref 1 0, .clear 0 0, .skip 1 0] = some s ∧
      RecProto.Quiescent s ∧ s.used 0 = true ∧ s.idle 0 = false ∧ s.dead 0 = false := by
  refine ⟨_, rfl, ?_, rfl, rfl, rfl⟩
  intro a
  by_cases h1 : a = 1
  · subst h1; right; rfl
  · by_cases h0 : a = 0
    · subst h0; right; rfl
    · left; simp [RecProto.upd, RecProto.init, h0, h1]

/-- the same schedule is not a run of the real order: the early `put` is refused -/
example : RecProto.run RecProto.init [.create 0 0, .setref 0 0, .put 0 0] = none := by
  simp [RecProto.run, RecProto.step, RecProto.init, RecProto.upd]

/-- non-vacuity: two checkouts hand one entry over (A releases, B takes it and releases) -/
example : ∃ s, RecProto.run RecProto.init
    [.create 0 0, .setref 0 0, .clear 0 0, .put 0 0, .pop 1 0, .setref 1 0, .clear 1 0, .put 1 0] = some s ∧
    s.idle 0 = true := ⟨_, rfl, rfl⟩

/-! ## non-vacuity -/

def exCfg : Cfg :=
  { size := 1, maxOv := 1, lifo := false, recycle := -1, prePing := true, reset := 0, hasEvent := true }

/-- two checkouts, the first return hits a rollback fault (record invalidated, comes
    back empty), the second return finds the queue full (closed); the next checkout
    reconnects the empty record: everything released, nothing leaks -/
example :
    let r := run exCfg (init exCfg [0, 0, 0, 0, 1]) [.co, .co, .ci 0, .ci 1, .co, .ci 2]
    (r.2, r.1.conns, r.1.queue, checkedout exCfg r.1) =
      ([.co (.ok 0 0 0), .co (.ok 1 1 1), .done, .done, .co (.ok 2 0 2), .done],
       [false, false, true], [0], 0) := by decide

example : Released (run exCfg (init exCfg [0, 0, 0, 0, 1]) [.co, .co, .ci 0, .ci 1, .co, .ci 2]).1 := by
  unfold Released; decide

/-- a checkout whose listener raises DisconnectionError twice exhausts its attempts -/
example : (run exCfg (init exCfg [0, 1, 0, 0, 1, 0, 0]) [.co]).2 = [.co .exhausted] := by decide

/-- pool invalidation: the idle record is older than `invTime` and is reconnected
    (connection 0 closed, 2 handed out) -/
example :
    let r := run exCfg (init exCfg []) [.co, .co, .ci 0, .pinv 1, .co]
    (r.2, r.1.conns) = ([.co (.ok 0 0 0), .co (.ok 1 1 1), .done, .done, .co (.ok 2 0 2)],
      [false, false, true]) := by decide

end SaVerif.Props.C26
