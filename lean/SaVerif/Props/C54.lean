import SaVerif.Lemmas.OrderedSetOps
import SaVerif.Lemmas.IdentitySet
import SaVerif.Lemmas.ImmDict
import SaVerif.Lemmas.Lru
/-!
# C54 — Utility collections conform to their reference models (part 1: OrderedSet)

Property theorems about the OrderedSet model (`SaVerif/Model/OrderedSet.lean`,
transcription of `OrderedSet` / `unique_list` in lib/sqlalchemy/util/_collections_cy.py).

* `orderedset_inv`   — representation invariant (`_list` duplicate-free and equal, as a set,
  to the builtin-set part) holds after ANY operation sequence over ANY number of live
  OrderedSets with arguments of every kind (literal iterables with duplicates, other live
  OrderedSets, the set itself).
* `*_spec` theorems  — the `_list` produced by each method is the reference
  "insertion-ordered set" result (filter of the old list ++ first occurrences of new elements).
* `orderedset_order_is_first_insertion` — every set-algebra operation keeps surviving elements
  in their old relative order and appends new elements after them.
* `*_mem` theorems   — the result is the mathematical set operation.
* `symdiff_update_nodedup_counterexample` — the variant of `symmetric_difference_update`
  without `unique_list` (the code before the F9 fix) breaks the invariant: the theorem is
  sensitive to that line.
-/
namespace SaVerif.Props.C54
open SaVerif.Coll SaVerif.Coll.OSet

/-! ## invariant over arbitrary operation sequences -/

def AllInv (rs : Regs) : Prop := ∀ s ∈ rs, s.Inv

theorem get_inv {rs : Regs} (h : AllInv rs) (r : Nat) : (rs.get r).Inv := by
  unfold Regs.get
  rw [List.getD_eq_getElem?_getD]
  cases hr : rs[r]? with
  | none => exact inv_empty
  | some s => exact h s (List.mem_of_getElem? hr)

theorem set_inv {rs : Regs} (h : AllInv rs) (r : Nat) {s : OSet} (hs : s.Inv) :
    AllInv (rs.set r s) := by
  intro t ht
  rcases List.mem_or_eq_of_mem_set ht with h1 | h1
  · exact h t h1
  · subst h1; exact hs

/-- literal `set`/`dict` arguments iterate each element once (a Python guarantee); every other
    argument — lists/tuples/generators with duplicates, live OrderedSets — is unconstrained -/
def OpWf : OOp → Prop
  | .new _ (some (.lit a)) => Arg.wf a
  | _ => True

theorem src_arg_wf {rs : Regs} (h : AllInv rs) (r : Nat) : Arg.wf (Src.arg rs (.reg r)) := by
  intro _
  exact (get_inv h r).nodup

theorem ostep_inv {rs : Regs} (h : AllInv rs) (op : OOp) (hw : OpWf op) :
    AllInv (ostep rs op).1 := by
  cases op with
  | new dst a =>
    cases a with
    | none => exact set_inv h dst inv_init_none
    | some src =>
      cases src with
      | lit a => exact set_inv h dst (inv_init a hw)
      | reg r => exact set_inv h dst (inv_init _ (src_arg_wf h r))
  | copy dst r => exact set_inv h dst (inv_copy (get_inv h r))
  | add r x => exact set_inv h r (inv_add (get_inv h r) x)
  | remove r x => exact set_inv h r (inv_remove (get_inv h r) x)
  | discard r x => exact set_inv h r (inv_discard (get_inv h r) x)
  | pop r => exact set_inv h r (inv_pop (get_inv h r))
  | insert r pos x => exact set_inv h r (inv_insert (get_inv h r) pos x)
  | clear r => exact set_inv h r (inv_clear _)
  | getitem r key => exact h
  | contains r x => exact h
  | len r => exact h
  | update r args => exact set_inv h r (inv_update (get_inv h r) _)
  | union dst r args => exact set_inv h dst (inv_union (get_inv h r) _)
  | intersection dst r args => exact set_inv h dst (inv_intersection (get_inv h r) _)
  | difference dst r args => exact set_inv h dst (inv_difference (get_inv h r) _)
  | symDiff dst r a => exact set_inv h dst (inv_symDiff (get_inv h r) _)
  | interUpdate r args => exact set_inv h r (inv_interUpdate (get_inv h r) _)
  | diffUpdate r args => exact set_inv h r (inv_diffUpdate (get_inv h r) _)
  | symDiffUpdate r a => exact set_inv h r (inv_symDiffUpdate (get_inv h r) _)

/-- **orderedset_inv**: after any sequence of operations (any length, any registers, any
    arguments) every live OrderedSet satisfies `_list.Nodup ∧ set(_list) = set part`. -/
theorem orderedset_inv (ops : List OOp) : ∀ (rs : Regs), AllInv rs → (∀ op ∈ ops, OpWf op) →
    AllInv (ofinal rs ops) := by
  induction ops with
  | nil => intro rs h _; exact h
  | cons op ops ih =>
    intro rs h hw
    exact ih _ (ostep_inv h op (hw op (by simp))) (fun o ho => hw o (by simp [ho]))

/-- starting from `n` empty OrderedSets -/
theorem orderedset_inv_from_empty (n : Nat) (ops : List OOp) (hw : ∀ op ∈ ops, OpWf op) :
    AllInv (ofinal (List.replicate n OSet.empty) ops) :=
  orderedset_inv ops _ (fun s hs => by rw [List.eq_of_mem_replicate hs]; exact inv_empty) hw

/-- `len(s)` (the set part) always equals the number of elements iterated -/
theorem orderedset_len_eq_iter_count (n : Nat) (ops : List OOp) (hw : ∀ op ∈ ops, OpWf op)
    (r : Nat) :
    ((ofinal (List.replicate n OSet.empty) ops).get r).len
      = ((ofinal (List.replicate n OSet.empty) ops).get r).lst.length :=
  len_eq (get_inv (orderedset_inv_from_empty n ops hw) r)

/-- `x in s` (the set part) always agrees with iteration -/
theorem orderedset_contains_iff_iterated (n : Nat) (ops : List OOp) (hw : ∀ op ∈ ops, OpWf op)
    (r : Nat) (x : Elem) :
    ((ofinal (List.replicate n OSet.empty) ops).get r).has x = true
      ↔ x ∈ ((ofinal (List.replicate n OSet.empty) ops).get r).lst :=
  has_iff (get_inv (orderedset_inv_from_empty n ops hw) r)

/-- under the invariant the internal `list.remove` can never raise ValueError and `pop`
    can never raise KeyError on a non-empty set (no "half-updated" state is reachable) -/
theorem orderedset_no_internal_error {s : OSet} (h : s.Inv) (x : Elem) :
    (s.remove x).2 ≠ some .valueError ∧ (s.discard x).2 = none ∧
      (s.lst ≠ [] → ∃ v, s.pop.2 = .ok v) := by
  refine ⟨?_, ?_, ?_⟩
  · by_cases hx : x ∈ s.lst
    · rw [remove_mem h hx]; simp
    · rw [remove_not_mem h hx]; simp
  · by_cases hx : x ∈ s.lst
    · rw [discard_mem h hx]
    · rw [discard_not_mem h hx]
  · intro hne
    rcases List.eq_nil_or_concat s.lst with hl | ⟨l, v, hl⟩
    · exact absurd hl hne
    · rw [List.concat_eq_append] at hl
      exact ⟨v, by rw [pop_concat h hl]⟩

/-! ## reference results of every method (iteration order included) -/

theorem init_spec (a : Arg) (h : Arg.wf a) : (OSet.init (some a)).lst = firstOcc a.elems :=
  init_lst a h

theorem add_spec {s : OSet} (h : s.Inv) (x : Elem) :
    (s.add x).lst = if x ∈ s.lst then s.lst else s.lst ++ [x] := by
  rw [add_lst h]; unfold refAdd
  by_cases hx : x ∈ s.lst <;> simp [hx]

theorem remove_spec {s : OSet} (h : s.Inv) (x : Elem) :
    (x ∈ s.lst → (s.remove x).1.lst = s.lst.filter (fun y => y != x) ∧ (s.remove x).2 = none) ∧
    (x ∉ s.lst → s.remove x = (s, some .keyError)) := by
  constructor
  · intro hx
    rw [remove_mem h hx]
    exact ⟨h.nodup.erase_eq_filter x, rfl⟩
  · exact remove_not_mem h

theorem discard_spec {s : OSet} (h : s.Inv) (x : Elem) :
    (s.discard x).1.lst = s.lst.filter (fun y => y != x) ∧ (s.discard x).2 = none := by
  by_cases hx : x ∈ s.lst
  · rw [discard_mem h hx]
    exact ⟨h.nodup.erase_eq_filter x, rfl⟩
  · rw [discard_not_mem h hx]
    refine ⟨?_, rfl⟩
    rw [List.filter_eq_self.2]
    intro y hy
    simp only [bne_iff_ne, ne_eq]
    rintro rfl
    exact hx hy

theorem pop_spec {s : OSet} (h : s.Inv) :
    (s.lst = [] → s.pop = (s, .error .keyError)) ∧
    (∀ l v, s.lst = l ++ [v] → s.pop.1.lst = l ∧ s.pop.2 = .ok v) := by
  constructor
  · exact pop_nil
  · intro l v hl
    rw [pop_concat h hl]
    exact ⟨rfl, rfl⟩

theorem insert_spec {s : OSet} (h : s.Inv) (pos : Int) (x : Elem) :
    (s.insert pos x).lst =
      if x ∈ s.lst then s.lst
      else s.lst.take (insertPos s.lst.length pos) ++ x :: s.lst.drop (insertPos s.lst.length pos) := by
  unfold OSet.insert
  rw [has_eq h]
  by_cases hx : x ∈ s.lst <;> simp [hx, listInsert]

/-- `update(*iterables)` / `|=`: old list, then the not-yet-present elements of the arguments
    in order of first occurrence -/
theorem update_spec {s : OSet} (h : s.Inv) (args : List (List Elem)) :
    (s.update args).lst
      = s.lst ++ (firstOcc args.flatten).filter (fun y => !s.lst.contains y) := by
  rw [update_lst h, refUpdate_eq]

theorem union_spec {s : OSet} (h : s.Inv) (args : List (List Elem)) :
    (s.union args).lst
      = s.lst ++ (firstOcc args.flatten).filter (fun y => !s.lst.contains y) := by
  rw [union_lst h, refUpdate_eq]

theorem intersection_spec {s : OSet} (h : s.Inv) (args : List (List Elem)) :
    (s.intersection args).lst = s.lst.filter (fun a => args.all (fun o => o.contains a)) ∧
    (s.interUpdate args).lst = s.lst.filter (fun a => args.all (fun o => o.contains a)) :=
  ⟨intersection_lst h args, interUpdate_lst h args⟩

theorem difference_spec {s : OSet} (h : s.Inv) (args : List (List Elem)) :
    (s.difference args).lst = s.lst.filter (fun a => args.all (fun o => !o.contains a)) ∧
    (s.diffUpdate args).lst = s.lst.filter (fun a => args.all (fun o => !o.contains a)) :=
  ⟨difference_lst h args, diffUpdate_lst h args⟩

/-- `symmetric_difference` / `^` and the in-place form agree and give: survivors of self in
    their order, then the new elements of the argument in order of first occurrence — for ANY
    argument, duplicates included (this is the statement F9 violated before the fix). -/
theorem symmetric_difference_spec {s : OSet} (h : s.Inv) (c : List Elem) :
    (s.symDiff c).lst
      = s.lst.filter (fun a => !c.contains a) ++ (firstOcc c).filter (fun a => !s.lst.contains a) ∧
    (s.symDiffUpdate c).lst = (s.symDiff c).lst := by
  refine ⟨symDiff_lst h c, ?_⟩
  rw [symDiffUpdate_lst h, symDiff_lst h]

/-! ## the results are the mathematical set operations -/

theorem update_mem {s : OSet} (h : s.Inv) (args : List (List Elem)) (x : Elem) :
    x ∈ (s.update args).lst ↔ x ∈ s.lst ∨ ∃ a ∈ args, x ∈ a := by
  rw [update_spec h]
  simp only [List.mem_append, List.mem_filter, mem_firstOcc, List.mem_flatten]
  constructor
  · rintro (h1 | ⟨h1, _⟩)
    · exact Or.inl h1
    · exact Or.inr h1
  · rintro (h1 | h1)
    · exact Or.inl h1
    · by_cases hx : x ∈ s.lst
      · exact Or.inl hx
      · exact Or.inr ⟨h1, by simp [hx]⟩

theorem intersection_mem {s : OSet} (h : s.Inv) (args : List (List Elem)) (x : Elem) :
    x ∈ (s.intersection args).lst ↔ x ∈ s.lst ∧ ∀ a ∈ args, x ∈ a := by
  rw [(intersection_spec h args).1]; simp [List.mem_filter]

theorem difference_mem {s : OSet} (h : s.Inv) (args : List (List Elem)) (x : Elem) :
    x ∈ (s.difference args).lst ↔ x ∈ s.lst ∧ ∀ a ∈ args, x ∉ a := by
  rw [(difference_spec h args).1]; simp [List.mem_filter]

theorem symmetric_difference_mem {s : OSet} (h : s.Inv) (c : List Elem) (x : Elem) :
    x ∈ (s.symDiff c).lst ↔ (x ∈ s.lst ∧ x ∉ c) ∨ (x ∈ c ∧ x ∉ s.lst) := by
  rw [(symmetric_difference_spec h c).1]
  simp [List.mem_filter, mem_firstOcc]

/-! ## iteration order is first-insertion order -/

/-- the shape "survivors of the old list in their old order, then only new elements" -/
def KeepsOrder (old new : List Elem) : Prop :=
  ∃ (p : Elem → Bool) (app : List Elem), new = old.filter p ++ app ∧ ∀ x ∈ app, x ∉ old

/-- **orderedset_order_is_first_insertion**: every mutating or constructing set-algebra
    method keeps the surviving elements of `self` in their existing relative order and places
    every new element after all of them (`insert` is the only positional operation). -/
theorem orderedset_order_is_first_insertion {s : OSet} (h : s.Inv) :
    (∀ x, KeepsOrder s.lst (s.add x).lst) ∧
    (∀ x, KeepsOrder s.lst (s.remove x).1.lst) ∧
    (∀ x, KeepsOrder s.lst (s.discard x).1.lst) ∧
    KeepsOrder s.lst s.pop.1.lst ∧
    (∀ args, KeepsOrder s.lst (s.update args).lst) ∧
    (∀ args, KeepsOrder s.lst (s.union args).lst) ∧
    (∀ args, KeepsOrder s.lst (s.intersection args).lst) ∧
    (∀ args, KeepsOrder s.lst (s.interUpdate args).lst) ∧
    (∀ args, KeepsOrder s.lst (s.difference args).lst) ∧
    (∀ args, KeepsOrder s.lst (s.diffUpdate args).lst) ∧
    (∀ c, KeepsOrder s.lst (s.symDiff c).lst) ∧
    (∀ c, KeepsOrder s.lst (s.symDiffUpdate c).lst) := by
  have keepAll : ∀ l : List Elem, l.filter (fun _ => true) = l := fun l => by simp
  refine ⟨?_, ?_, ?_, ?_, ?_, ?_, ?_, ?_, ?_, ?_, ?_, ?_⟩
  · intro x
    rw [add_spec h]
    by_cases hx : x ∈ s.lst
    · exact ⟨fun _ => true, [], by rw [if_pos hx, keepAll, List.append_nil], by simp⟩
    · exact ⟨fun _ => true, [x], by rw [if_neg hx, keepAll], by simpa using hx⟩
  · intro x
    by_cases hx : x ∈ s.lst
    · exact ⟨fun y => y != x, [], by rw [((remove_spec h x).1 hx).1]; simp, by simp⟩
    · rw [(remove_spec h x).2 hx]
      exact ⟨fun _ => true, [], by rw [keepAll, List.append_nil], by simp⟩
  · intro x
    exact ⟨fun y => y != x, [], by rw [(discard_spec h x).1]; simp, by simp⟩
  · rcases List.eq_nil_or_concat s.lst with hl | ⟨l, v, hl⟩
    · rw [pop_nil hl]
      exact ⟨fun _ => true, [], by rw [keepAll, List.append_nil], by simp⟩
    · rw [List.concat_eq_append] at hl
      refine ⟨fun y => y != v, [], ?_, by simp⟩
      rw [((pop_spec h).2 l v hl).1, hl]
      have hn := h.nodup
      rw [hl, List.nodup_append] at hn
      rw [List.filter_append]
      have h1 : l.filter (fun y => y != v) = l := by
        rw [List.filter_eq_self]
        intro y hy
        simp only [bne_iff_ne, ne_eq]
        rintro rfl
        exact hn.2.2 y hy y (by simp) rfl
      simp [h1]
  · intro args
    refine ⟨fun _ => true, _, by rw [update_spec h, keepAll], ?_⟩
    intro x hx
    simp [List.mem_filter] at hx
    exact hx.2
  · intro args
    refine ⟨fun _ => true, _, by rw [union_spec h, keepAll], ?_⟩
    intro x hx
    simp [List.mem_filter] at hx
    exact hx.2
  · intro args; exact ⟨_, [], by rw [(intersection_spec h args).1, List.append_nil], by simp⟩
  · intro args; exact ⟨_, [], by rw [(intersection_spec h args).2, List.append_nil], by simp⟩
  · intro args; exact ⟨_, [], by rw [(difference_spec h args).1, List.append_nil], by simp⟩
  · intro args; exact ⟨_, [], by rw [(difference_spec h args).2, List.append_nil], by simp⟩
  · intro c
    refine ⟨_, _, (symmetric_difference_spec h c).1, ?_⟩
    intro x hx
    simp [List.mem_filter] at hx
    exact hx.2
  · intro c
    refine ⟨_, _, by rw [(symmetric_difference_spec h c).2]; exact (symmetric_difference_spec h c).1, ?_⟩
    intro x hx
    simp [List.mem_filter] at hx
    exact hx.2

/-- `unique_list` keeps exactly the first occurrence of each element, in order -/
theorem unique_list_spec (seq : List Elem) :
    uniqueList seq = firstOcc seq ∧ (uniqueList seq).Nodup ∧ ∀ x, x ∈ uniqueList seq ↔ x ∈ seq :=
  ⟨uniqueList_eq_firstOcc seq, nodup_uniqueList seq, fun _ => mem_uniqueList⟩

/-! ## sensitivity: the pre-fix code (F9) is refuted by the same statement -/

/-- without `unique_list(collection)` the invariant fails for
    `OrderedSet([1,2,3]).symmetric_difference_update([3,4,4,5])` -/
theorem symdiff_update_nodedup_counterexample :
    ∃ (s : OSet) (c : List Elem), s.Inv ∧ ¬ (OSet.symDiffUpdateGen false s c).Inv := by
  refine ⟨OSet.init (some ⟨.sized, [1, 2, 3]⟩), [3, 4, 4, 5], inv_init _ (by intro h; cases h <;> contradiction), ?_⟩
  intro h
  have := h.nodup
  revert this
  decide

/-! ## non-vacuity -/
example : (OSet.init (some ⟨.sized, [3, 1, 3, 2, 1]⟩)).lst = [3, 1, 2] := by decide
example : ((OSet.init (some ⟨.sized, [1, 2, 3]⟩)).symDiffUpdate [3, 4, 4, 5]).lst = [1, 2, 4, 5] := by decide
example : (OSet.symDiffUpdateGen false (OSet.init (some ⟨.sized, [1, 2, 3]⟩)) [3, 4, 4, 5]).lst
    = [1, 2, 4, 4, 5] := by decide
example : ((OSet.init (some ⟨.sized, [5, 1, 2, 3]⟩)).intersection [[3, 5, 9], [5, 3]]).lst = [5, 3] := by decide
example : ((OSet.init (some ⟨.sized, [1, 2]⟩)).insert (-1) 7).lst = [1, 7, 2] := by decide
example : (ofinal (List.replicate 2 OSet.empty)
    [.new 0 (some (.lit ⟨.sized, [4, 2, 4]⟩)), .union 1 0 [.lit ⟨.iter, [9, 2, 9]⟩, .reg 0],
     .symDiffUpdate 0 (.reg 1), .pop 1]).map (·.lst) = [[9], [4, 2]] := by decide
example : OpWf (.new 0 (some (.lit ⟨.set, [1, 2]⟩))) := by intro _; decide

/-! ## sequence-level refinement: the whole register file follows the reference semantics -/

/-- reference state: one insertion-ordered duplicate-free list per live OrderedSet -/
abbrev RefRegs := List (List Elem)

def RefRegs.get (L : RefRegs) (r : Nat) : List Elem := L.getD r []

def refSrc (L : RefRegs) : Src → List Elem
  | .lit a => a.elems
  | .reg r => L.get r

/-- the reference ("insertion-ordered set") meaning of every operation -/
def refStep (L : RefRegs) : OOp → RefRegs
  | .new dst none => L.set dst []
  | .new dst (some src) => L.set dst (firstOcc (refSrc L src))
  | .copy dst r => L.set dst (L.get r)
  | .add r x => L.set r (if x ∈ L.get r then L.get r else L.get r ++ [x])
  | .remove r x => L.set r ((L.get r).filter (fun y => y != x))
  | .discard r x => L.set r ((L.get r).filter (fun y => y != x))
  | .pop r => L.set r (L.get r).dropLast
  | .insert r pos x =>
    L.set r (if x ∈ L.get r then L.get r
      else (L.get r).take (insertPos (L.get r).length pos) ++ x :: (L.get r).drop (insertPos (L.get r).length pos))
  | .clear r => L.set r []
  | .getitem _ _ => L
  | .contains _ _ => L
  | .len _ => L
  | .update r args =>
    L.set r (L.get r ++ (firstOcc (args.map (refSrc L)).flatten).filter (fun y => !(L.get r).contains y))
  | .union dst r args =>
    L.set dst (L.get r ++ (firstOcc (args.map (refSrc L)).flatten).filter (fun y => !(L.get r).contains y))
  | .intersection dst r args =>
    L.set dst ((L.get r).filter (fun a => (args.map (refSrc L)).all (fun o => o.contains a)))
  | .difference dst r args =>
    L.set dst ((L.get r).filter (fun a => (args.map (refSrc L)).all (fun o => !o.contains a)))
  | .symDiff dst r a =>
    L.set dst ((L.get r).filter (fun x => !(refSrc L a).contains x)
      ++ (firstOcc (refSrc L a)).filter (fun x => !(L.get r).contains x))
  | .interUpdate r args =>
    L.set r ((L.get r).filter (fun a => (args.map (refSrc L)).all (fun o => o.contains a)))
  | .diffUpdate r args =>
    L.set r ((L.get r).filter (fun a => (args.map (refSrc L)).all (fun o => !o.contains a)))
  | .symDiffUpdate r a =>
    L.set r ((L.get r).filter (fun x => !(refSrc L a).contains x)
      ++ (firstOcc (refSrc L a)).filter (fun x => !(L.get r).contains x))

def lsts (rs : Regs) : RefRegs := rs.map (·.lst)

theorem lsts_get (rs : Regs) (r : Nat) : (lsts rs).get r = (rs.get r).lst := by
  unfold lsts RefRegs.get Regs.get
  rw [List.getD_eq_getElem?_getD, List.getD_eq_getElem?_getD, List.getElem?_map]
  cases rs[r]? <;> rfl

theorem lsts_set (rs : Regs) (r : Nat) (s : OSet) : lsts (rs.set r s) = (lsts rs).set r s.lst := by
  unfold lsts; rw [List.map_set]

theorem refSrc_eq (rs : Regs) (a : Src) : refSrc (lsts rs) a = Src.elems rs a := by
  cases a with
  | lit a => rfl
  | reg r => simp only [refSrc, Src.elems, Src.arg]; exact lsts_get rs r

theorem refSrc_map (rs : Regs) (args : List Src) :
    args.map (refSrc (lsts rs)) = args.map (Src.elems rs) := by
  apply List.map_congr_left; intro a _; exact refSrc_eq rs a

/-- one step: the `_list`s of all live sets after the real operation are the reference step -/
theorem ostep_refines {rs : Regs} (h : AllInv rs) (op : OOp) (hw : OpWf op) :
    lsts (ostep rs op).1 = refStep (lsts rs) op := by
  cases op with
  | new dst a =>
    cases a with
    | none => simp only [ostep, refStep, Option.map_none, lsts_set]; rfl
    | some src =>
      simp only [ostep, refStep, Option.map_some, lsts_set, refSrc_eq]
      cases src with
      | lit a =>
        show List.set (lsts rs) dst (OSet.init (some a)).lst = _
        rw [init_spec a hw]; rfl
      | reg r =>
        show List.set (lsts rs) dst (OSet.init (some (Src.arg rs (.reg r)))).lst = _
        rw [init_spec _ (src_arg_wf h r)]; rfl
  | copy dst r => simp only [ostep, refStep, lsts_set, lsts_get]; rfl
  | add r x => simp only [ostep, refStep, lsts_set, lsts_get, add_spec (get_inv h r)]
  | remove r x =>
    simp only [ostep, refStep, lsts_set, lsts_get]
    congr 1
    by_cases hx : x ∈ (rs.get r).lst
    · exact ((remove_spec (get_inv h r) x).1 hx).1
    · rw [(remove_spec (get_inv h r) x).2 hx]
      simp only
      symm
      rw [List.filter_eq_self]
      intro y hy
      simp only [bne_iff_ne, ne_eq]
      rintro rfl
      exact hx hy
  | discard r x =>
    simp only [ostep, refStep, lsts_set, lsts_get]
    congr 1
    exact (discard_spec (get_inv h r) x).1
  | pop r =>
    simp only [ostep, refStep, lsts_set, lsts_get]
    congr 1
    rcases List.eq_nil_or_concat (rs.get r).lst with hl | ⟨l, v, hl⟩
    · rw [pop_nil hl, hl]; rfl
    · rw [List.concat_eq_append] at hl
      rw [((pop_spec (get_inv h r)).2 l v hl).1, hl, List.dropLast_concat]
  | insert r pos x =>
    simp only [ostep, refStep, lsts_set, lsts_get, insert_spec (get_inv h r)]
  | clear r => simp only [ostep, refStep, lsts_set]; rfl
  | getitem r key => rfl
  | contains r x => rfl
  | len r => rfl
  | update r args =>
    simp only [ostep, refStep, lsts_set, lsts_get, refSrc_map, update_spec (get_inv h r)]
  | union dst r args =>
    simp only [ostep, refStep, lsts_set, lsts_get, refSrc_map, union_spec (get_inv h r)]
  | intersection dst r args =>
    simp only [ostep, refStep, lsts_set, lsts_get, refSrc_map, (intersection_spec (get_inv h r) _).1]
  | difference dst r args =>
    simp only [ostep, refStep, lsts_set, lsts_get, refSrc_map, (difference_spec (get_inv h r) _).1]
  | symDiff dst r a =>
    simp only [ostep, refStep, lsts_set, lsts_get, refSrc_eq, (symmetric_difference_spec (get_inv h r) _).1]
  | interUpdate r args =>
    simp only [ostep, refStep, lsts_set, lsts_get, refSrc_map, (intersection_spec (get_inv h r) _).2]
  | diffUpdate r args =>
    simp only [ostep, refStep, lsts_set, lsts_get, refSrc_map, (difference_spec (get_inv h r) _).2]
  | symDiffUpdate r a =>
    simp only [ostep, refStep, lsts_set, lsts_get, refSrc_eq]
    rw [(symmetric_difference_spec (get_inv h r) _).2, (symmetric_difference_spec (get_inv h r) _).1]

/-- **orderedset_refines_reference**: for any operation history (any number of live sets, any
    arguments, sets used as each other's arguments) the iteration order of every live
    OrderedSet is what the insertion-ordered-set reference computes -/
theorem orderedset_refines_reference (ops : List OOp) : ∀ (rs : Regs), AllInv rs →
    (∀ op ∈ ops, OpWf op) →
    lsts (ofinal rs ops) = ops.foldl refStep (lsts rs) := by
  induction ops with
  | nil => intro rs _ _; rfl
  | cons op ops ih =>
    intro rs h hw
    have h1 := ostep_inv h op (hw op (by simp))
    have h2 := ostep_refines h op (hw op (by simp))
    show lsts (ofinal (ostep rs op).1 ops) = ops.foldl refStep (refStep (lsts rs) op)
    rw [ih _ h1 (fun o ho => hw o (by simp [ho])), h2]

example : [.new 0 (some (.lit ⟨.sized, [4, 2, 4]⟩)), .union 1 0 [.lit ⟨.iter, [9, 2, 9]⟩, .reg 0],
    .symDiffUpdate 0 (.reg 1), .pop 1].foldl refStep [[], []] = [[9], [4, 2]] := by decide

/-! # part 2: IdentitySet — a set keyed on object identity, insertion ordered -/

def IAllInv (rs : IRegs) : Prop := ∀ m ∈ rs, m.Nodup

theorem iget_inv {rs : IRegs} (h : IAllInv rs) (r : Nat) : (rs.get r).Nodup := by
  unfold IRegs.get
  rw [List.getD_eq_getElem?_getD]
  cases hr : rs[r]? with
  | none => exact List.nodup_nil
  | some s => exact h s (List.mem_of_getElem? hr)

theorem iset_inv {rs : IRegs} (h : IAllInv rs) (r : Nat) {m : IdSet} (hm : m.Nodup) :
    IAllInv (rs.set r m) := by
  intro t ht
  rcases List.mem_or_eq_of_mem_set ht with h1 | h1
  · exact h t h1
  · subst h1; exact hm

theorem istep_inv {rs : IRegs} (h : IAllInv rs) (op : IOp) : IAllInv (istep rs op).1 := by
  cases op with
  | new dst a => exact iset_inv h dst (IdSet.nodup_init _)
  | copy dst r => exact iset_inv h dst (iget_inv h r)
  | add r x => exact iset_inv h r (nodup_dictUpdate (iget_inv h r) [x])
  | remove r x => exact iset_inv h r (IdSet.nodup_remove (iget_inv h r) x)
  | discard r x => exact iset_inv h r (IdSet.nodup_remove (iget_inv h r) x)
  | pop r => exact iset_inv h r (IdSet.nodup_pop (iget_inv h r))
  | clear r => exact iset_inv h r List.nodup_nil
  | contains r x => exact h
  | len r => exact h
  | eq r o => exact h
  | ne r o => exact h
  | issubset r a => exact h
  | issuperset r a => exact h
  | lt r o => exact h
  | gt r o => exact h
  | update r a => exact iset_inv h r (nodup_dictUpdate (iget_inv h r) _)
  | union dst r a =>
    exact iset_inv h dst (nodup_dictUpdate (nodup_dictUpdate List.nodup_nil _) _)
  | difference dst r a => exact iset_inv h dst (nodup_filter _ (iget_inv h r))
  | intersection dst r a => exact iset_inv h dst (nodup_filter _ (iget_inv h r))
  | symDiff dst r a => exact iset_inv h dst (IdSet.nodup_symDiff (iget_inv h r) _)
  | diffUpdate r a => exact iset_inv h r (nodup_filter _ (iget_inv h r))
  | interUpdate r a => exact iset_inv h r (nodup_filter _ (iget_inv h r))
  | symDiffUpdate r a => exact iset_inv h r (IdSet.nodup_symDiff (iget_inv h r) _)

/-- **identityset_inv**: after any operation sequence over any number of live IdentitySets
    no object (id) is held twice -/
theorem identityset_inv (ops : List IOp) : ∀ (rs : IRegs), IAllInv rs → IAllInv (ifinal rs ops) := by
  induction ops with
  | nil => intro rs h; exact h
  | cons op ops ih => intro rs h; exact ih _ (istep_inv h op)

/-- **identityset_refines_idset**: every operation computes the mathematical set operation on
    ids (membership), for any argument (duplicates, any order, another IdentitySet) -/
theorem identityset_refines_idset (m : IdSet) (it : List ObjId) (x y : ObjId) :
    (y ∈ IdSet.init (some it) ↔ y ∈ it) ∧
    (y ∈ m.add x ↔ y ∈ m ∨ y = x) ∧
    (y ∈ m.update it ↔ y ∈ m ∨ y ∈ it) ∧
    (y ∈ m.union it ↔ y ∈ m ∨ y ∈ it) ∧
    (y ∈ m.difference it ↔ y ∈ m ∧ y ∉ it) ∧
    (y ∈ m.intersection it ↔ y ∈ m ∧ y ∈ it) ∧
    (y ∈ m.symDiff it ↔ (y ∈ m ∧ y ∉ it) ∨ (y ∈ it ∧ y ∉ m)) := by
  refine ⟨?_, ?_, ?_, ?_, ?_, ?_, ?_⟩
  · rw [IdSet.init_eq]; exact mem_firstOcc
  · show y ∈ dictUpdate m [x] ↔ _
    rw [mem_dictUpdate]; simp
  · exact mem_dictUpdate
  · unfold IdSet.union IdSet.update
    rw [mem_dictUpdate, mem_dictUpdate]; simp
  · simp [IdSet.difference, List.mem_filter]
  · simp [IdSet.intersection, List.mem_filter]
  · rw [IdSet.symDiff_eq]; simp [List.mem_filter, mem_firstOcc]

/-- removal: only the requested id leaves, KeyError exactly when absent -/
theorem identityset_remove_spec {m : IdSet} (h : m.Nodup) (x y : ObjId) :
    (x ∈ m → (y ∈ (m.remove x).1 ↔ y ∈ m ∧ y ≠ x) ∧ (m.remove x).2 = none) ∧
    (x ∉ m → m.remove x = (m, some .keyError)) ∧
    (y ∈ m.discard x ↔ y ∈ m ∧ y ≠ x) := by
  refine ⟨?_, ?_, ?_⟩
  · intro hx
    unfold IdSet.remove
    rw [List.contains_iff_mem.2 hx]
    simp only [if_true, and_true]
    rw [h.mem_erase_iff]; exact And.comm
  · intro hx
    unfold IdSet.remove
    have : m.contains x = false := by simpa using hx
    rw [this]; rfl
  · unfold IdSet.discard IdSet.remove
    by_cases hx : x ∈ m
    · rw [List.contains_iff_mem.2 hx]
      simp only [if_true]
      rw [h.mem_erase_iff]; exact And.comm
    · have hc : m.contains x = false := by simpa using hx
      rw [hc]
      simp only [Bool.false_eq_true, if_false]
      constructor
      · intro hy; exact ⟨hy, by rintro rfl; exact hx hy⟩
      · intro hy; exact hy.1

/-- comparisons decide the set relations (given duplicate-free members, which always holds) -/
theorem identityset_compare_spec {m o : IdSet} (hm : m.Nodup) (ho : o.Nodup) (it : List ObjId) :
    (dictEq m o = true ↔ ∀ x, x ∈ m ↔ x ∈ o) ∧
    (m.issubset it = true ↔ ∀ x ∈ m, x ∈ it) ∧
    (m.issuperset it = true ↔ ∀ x ∈ it, x ∈ m) := by
  refine ⟨dictEq_iff hm ho, ?_, ?_⟩
  · unfold IdSet.issubset
    rw [subsetB_iff, IdSet.init_eq]
    simp only [mem_firstOcc]
  · unfold IdSet.issuperset
    rw [subsetB_iff, IdSet.init_eq]
    simp only [mem_firstOcc]

/-- **identityset_order_is_first_insertion**: survivors keep their relative order, new ids are
    appended in order of first occurrence in the argument -/
theorem identityset_order_is_first_insertion {m : IdSet} (h : m.Nodup) (it : List ObjId) :
    m.update it = m ++ (firstOcc it).filter (fun y => !m.contains y) ∧
    m.union it = m ++ (firstOcc it).filter (fun y => !m.contains y) ∧
    m.symDiff it = m.filter (fun k => !it.contains k) ++ (firstOcc it).filter (fun k => !m.contains k) ∧
    IdSet.init (some it) = firstOcc it :=
  ⟨dictUpdate_eq m it, IdSet.union_eq h it, IdSet.symDiff_eq it, IdSet.init_eq it⟩

example : ifinal (List.replicate 2 [])
    [.new 0 (some (.lit [4, 2, 4])), .new 1 (some (.lit [2, 7])), .symDiffUpdate 0 (.reg 1),
     .union 1 1 (.lit [9, 9, 4])] = [[4, 7], [2, 7, 9, 4]] := by decide
example : (istep [[1, 2], [2, 1]] (.eq 0 1)).2 = .bool true := by decide

/-! # part 3: immutabledict — union / merge_with return correct copies -/

/-- **immutabledict_union_merge**: whatever object `union`/`merge_with` decides to return
    (`self`, one of the arguments, or a fresh dict) its contents — items AND key order — are
    those of the plain left-to-right merge in which `None`/empty arguments contribute nothing.
    Holds for any number of arguments of any kind. -/
theorem immutabledict_union_merge (self : KV) (others : List DArg) (hs : KVWf self)
    (ho : ∀ d ∈ others, KVWf d.items) :
    (unionOther self others).value self others = mergeSpec self others := by
  unfold unionOther
  by_cases he : others.isEmpty = true
  · rw [if_pos he]
    have : others = [] := List.isEmpty_iff.1 he
    subst this; rfl
  · rw [if_neg he]
    simp only
    have hspec := scan_spec others (if self.isEmpty then OnlyOne.isFalse else OnlyOne.isSelf) 0
    revert hspec
    cases scanOnlyOne (if self.isEmpty then OnlyOne.isFalse else OnlyOne.isSelf) 0 others with
    | isFalse =>
      rintro ⟨_, h2⟩
      exact (mergeSpec_all_falsy h2 self).symm
    | isSelf =>
      rintro ⟨_, h2⟩
      exact (mergeSpec_all_falsy h2 self).symm
    | isArg j =>
      rintro (⟨h1, _⟩ | ⟨h1, pre, kv, post, h2, h3, h4, h5⟩)
      · by_cases hse : self.isEmpty = true
        · rw [if_pos hse] at h1; cases h1
        · rw [if_neg hse] at h1; cases h1
      · have hse : self = [] := by
          by_cases hse : self.isEmpty = true
          · exact List.isEmpty_iff.1 hse
          · rw [if_neg hse] at h1; cases h1
        subst hse
        simp only [URes.value]
        have hj : j = pre.length := by omega
        subst hj
        rw [h2]
        have hget : (pre ++ DArg.imm kv :: post).getD pre.length DArg.none = DArg.imm kv := by
          rw [List.getD_eq_getElem?_getD]
          simp
        rw [hget]
        unfold mergeSpec
        rw [List.foldl_append, List.foldl_cons]
        have e1 := mergeSpec_all_falsy h3 []
        unfold mergeSpec at e1
        rw [e1]
        have hkv : KVWf kv := ho (DArg.imm kv) (by rw [h2]; simp)
        have e2 : kvUpdate [] (DArg.imm kv).items = kv := kvUpdate_nil_eq hkv
        rw [e2]
        have e3 := mergeSpec_all_falsy h4 kv
        unfold mergeSpec at e3
        rw [e3]
        rfl
    | isNone =>
      intro _
      simp only [URes.value]
      rw [fresh_fold_eq]
      by_cases hse : self.isEmpty = true
      · rw [if_pos hse, List.isEmpty_iff.1 hse]
      · rw [if_neg hse, kvUpdate_nil_eq hs]

/-- later mappings win: lookup in a left-to-right merge -/
def mergeLookup (k : Nat) : Option Nat → List DArg → Option Nat
  | cur, [] => cur
  | cur, d :: ds => mergeLookup k ((kvGet d.items k).or cur) ds

theorem mergeSpec_lookup (k : Nat) (others : List DArg) (ho : ∀ d ∈ others, KVWf d.items) :
    ∀ self : KV, kvGet (mergeSpec self others) k = mergeLookup k (kvGet self k) others := by
  induction others with
  | nil => intro self; rfl
  | cons d ds ih =>
    intro self
    show kvGet (mergeSpec (kvUpdate self d.items) ds) k = _
    rw [ih (fun x hx => ho x (by simp [hx])), kvGet_kvUpdate (ho d (by simp))]
    rfl

/-- **immutabledict_union_lookup**: `d.union(*others)[k]` is the value of the last argument
    that defines `k`, else `d[k]`; a key defined nowhere is absent -/
theorem immutabledict_union_lookup (self : KV) (others : List DArg) (hs : KVWf self)
    (ho : ∀ d ∈ others, KVWf d.items) (k : Nat) :
    kvGet ((unionOther self others).value self others) k
      = mergeLookup k (kvGet self k) others := by
  rw [immutabledict_union_merge self others hs ho, mergeSpec_lookup k others ho]

theorem mergeSpec_keys (others : List DArg) : ∀ self : KV,
    kvKeys (mergeSpec self others)
      = dictUpdate (kvKeys self) (others.flatMap (fun d => kvKeys d.items)) := by
  induction others with
  | nil => intro self; rfl
  | cons d ds ih =>
    intro self
    show kvKeys (mergeSpec (kvUpdate self d.items) ds) = _
    rw [ih, kvUpdate_keys, List.flatMap_cons]
    unfold dictUpdate
    rw [List.foldl_append]

/-- the result is a well-formed dict whose key order is first-insertion order -/
theorem immutabledict_union_keys (self : KV) (others : List DArg) (hs : KVWf self)
    (ho : ∀ d ∈ others, KVWf d.items) :
    KVWf ((unionOther self others).value self others) ∧
    kvKeys ((unionOther self others).value self others)
      = kvKeys self ++ (firstOcc (others.flatMap (fun d => kvKeys d.items))).filter
          (fun y => !(kvKeys self).contains y) := by
  rw [immutabledict_union_merge self others hs ho]
  refine ⟨?_, by rw [mergeSpec_keys, dictUpdate_eq]⟩
  unfold KVWf
  rw [mergeSpec_keys]
  exact nodup_dictUpdate hs _

/-- `self | other` and `other | self`: a fresh dict with the right-hand operand winning -/
theorem immutabledict_or_lookup (self o : KV) (hs : KVWf self) (hw : KVWf o) (k : Nat) :
    (orOp self (some o)).map (fun d => kvGet d k) = some ((kvGet o k).or (kvGet self k)) ∧
    (rorOp self (some o)).map (fun d => kvGet d k) = some ((kvGet self k).or (kvGet o k)) := by
  unfold orOp rorOp
  simp only [Option.map_some]
  rw [kvUpdate_nil_eq hs, kvUpdate_nil_eq hw, kvGet_kvUpdate hw, kvGet_kvUpdate hs]
  exact ⟨rfl, rfl⟩

example : unionOther [(1, 2)] [.none, .other []] = .self := by decide
example : unionOther [] [.none, .imm [(1, 2)], .imm []] = .arg 1 := by decide
example : unionOther [] [.other [(1, 2)]] = .fresh [(1, 2)] := by decide
example : unionOther [(1, 2), (3, 4)] [.other [(3, 9), (5, 6)], .none, .imm [(1, 0)]]
    = .fresh [(1, 0), (3, 9), (5, 6)] := by decide

/-! # part 4: LRUCache -/
open SaVerif.Coll.Lru

theorem lstep_inv {c : Lru} (h : c.Inv) (op : LOp) : (lstep c op).1.Inv := by
  cases op with
  | get k => exact inv_get h k
  | getitem k => exact inv_getitem h k
  | setitem k v => exact inv_setitem h k v
  | delitem k => exact inv_delitem h k
  | contains k => exact inv_contains h k
  | setdefault k v => exact inv_setdefault h k v
  | pop k d => exact Lru.inv_pop h k d
  | popitem => exact inv_popitem h
  | clear => exact inv_clearLoop _ h
  | len => exact h

theorem inv_new (cap n d : Nat) (a : Bool) : (Lru.new cap n d a).Inv :=
  ⟨List.Pairwise.nil, fun _ he => by cases he⟩

/-- **lru_inv**: after any operation sequence there is one entry per key, every counter value
    is held by at most one entry and none exceeds the cache counter -/
theorem lru_inv (ops : List LOp) : ∀ c : Lru, c.Inv → (lfinal c ops).Inv := by
  induction ops with
  | nil => intro c h; exact h
  | cons op ops ih => intro c h; exact ih _ (lstep_inv h op)

/-- **lru_size_bound**: after every `__setitem__` the size is within
    `capacity + capacity * threshold`, from any reachable state (any threshold ≥ 0) -/
theorem lru_size_bound {c : Lru} (h : c.Inv) (k v : Nat) :
    (c.setitem k v).data.length * c.thrDen ≤ c.capacity * c.thrDen + c.capacity * c.thrNum := by
  rw [setitem_eq]
  have := manageLoop_not_over (afterStore c k v) (distinct_afterStore h k v)
  unfold over at this
  simp only [decide_eq_false_iff_not, Nat.not_lt] at this
  exact this

/-- the `while` loop of `_manage_size` really terminates by its own condition: one pass
    always suffices (it is never the model's fuel that stops it) and it trims to exactly
    `capacity` entries -/
theorem lru_manage_size_one_pass {c : Lru} (h : c.Inv) (k v : Nat) :
    (c.setitem k v).data =
      if (afterStore c k v).over (afterStore c k v).data.length
      then evict c.capacity (afterStore c k v).data else (afterStore c k v).data := by
  rw [setitem_eq]
  exact manageLoop_eq (afterStore c k v) (distinct_afterStore h k v)

theorem lru_evicts_to_capacity {c : Lru} (h : c.Inv) (k v : Nat)
    (ho : (afterStore c k v).over (afterStore c k v).data.length = true) :
    (c.setitem k v).data.length = min c.capacity (afterStore c k v).data.length := by
  rw [lru_manage_size_one_pass h, if_pos ho]
  exact evict_length (distinct_afterStore h k v) _

/-- **lru_keeps_most_recent**: when `__setitem__` evicts, every evicted entry was used
    strictly less recently than every retained entry -/
theorem lru_keeps_most_recent {c : Lru} (h : c.Inv) (k v : Nat) (e e' : LEntry)
    (he : e ∈ (c.setitem k v).data) (he' : e' ∈ (afterStore c k v).data)
    (hgone : e' ∉ (c.setitem k v).data) : e'.ctr < e.ctr := by
  rw [lru_manage_size_one_pass h] at he hgone
  by_cases ho : (afterStore c k v).over (afterStore c k v).data.length = true
  · rw [if_pos ho] at he hgone
    exact evict_older (distinct_afterStore h k v) _ he he' hgone
  · rw [if_neg ho] at hgone
    exact absurd he' hgone

/-- the key just stored is never the one evicted (capacity ≥ 1) and reads back its value -/
theorem lru_setitem_then_get {c : Lru} (h : c.Inv) (k v : Nat) (hcap : 1 ≤ c.capacity) :
    ((c.setitem k v).get k).2 = .val v := by
  have hd := distinct_afterStore h k v
  have hself : (⟨k, v, c.counter + 1⟩ : LEntry) ∈ (afterStore c k v).data := mem_store_self _ _
  have hmem : (⟨k, v, c.counter + 1⟩ : LEntry) ∈ (c.setitem k v).data := by
    rw [lru_manage_size_one_pass h]
    by_cases ho : (afterStore c k v).over (afterStore c k v).data.length = true
    · rw [if_pos ho]
      apply Classical.byContradiction
      intro hgone
      have hlen := evict_length hd c.capacity
      have hpos := over_pos _ ho
      have : 0 < (evict c.capacity (afterStore c k v).data).length := by
        rw [hlen]; show 0 < min c.capacity _; omega
      obtain ⟨e, he⟩ := List.exists_mem_of_length_pos this
      have hlt := evict_older hd _ he hself hgone
      have hb : e.ctr ≤ c.counter + 1 := by
        rcases mem_store (mem_evict he) with rfl | ⟨he', _⟩
        · simp
        · have := h.bounded e he'; omega
      simp only at hlt
      omega
    · rw [if_neg ho]; exact hself
  have hinv := inv_setitem h k v
  have hf := find_of_mem hinv.distinct hmem
  unfold Lru.get
  simp only at hf
  rw [hf]

/-! ### values returned are the values stored under the requested key -/

/-- ghost: the value most recently written under each key by the cache's own stores -/
def ghostStep (c : Lru) (w : Nat → Option Nat) : LOp → (Nat → Option Nat)
  | .setitem k v => fun x => if x = k then some v else w x
  | .setdefault k v =>
    if (c.find k).isNone then (fun x => if x = k then some v else w x) else w
  | _ => w

def lrunGhost : Lru → (Nat → Option Nat) → List LOp → Lru × (Nat → Option Nat)
  | c, w, [] => (c, w)
  | c, w, op :: ops => lrunGhost (lstep c op).1 (ghostStep c w op) ops

/-- every pair held is the last one written under its key -/
def Stored (c : Lru) (w : Nat → Option Nat) : Prop := ∀ p ∈ kvs c.data, w p.1 = some p.2

theorem stored_of_kvsub {c' c : Lru} {w : Nat → Option Nat} (hs : KvSub c' c) (h : Stored c w) :
    Stored c' w := fun p hp => h p (hs p hp)

theorem stored_setitem {c : Lru} (hi : c.Inv) {w : Nat → Option Nat} (h : Stored c w) (k v : Nat) :
    Stored (c.setitem k v) (fun x => if x = k then some v else w x) := by
  intro p hp
  rcases kvs_setitem hi k v p hp with rfl | ⟨h1, h2⟩
  · simp
  · simp only [h2, if_false]; exact h p h1

theorem stored_step {c : Lru} (hi : c.Inv) {w : Nat → Option Nat} (h : Stored c w) (op : LOp) :
    Stored (lstep c op).1 (ghostStep c w op) := by
  cases op with
  | get k => exact stored_of_kvsub (kvsub_get c k) h
  | getitem k => exact stored_of_kvsub (kvsub_getitem c k) h
  | setitem k v => exact stored_setitem hi h k v
  | delitem k => exact stored_of_kvsub (kvsub_delitem c k) h
  | contains k => exact stored_of_kvsub (kvsub_contains c k) h
  | setdefault k v =>
    simp only [lstep, ghostStep, Lru.setdefault]
    cases hf : c.find k with
    | none =>
      have hk : (c.getitem k).2 = .keyError := (getitem_keyError_iff c k).2 hf
      have hg : c.getitem k = (c, .keyError) := by unfold Lru.getitem; rw [hf]
      rw [hg]
      simp only [Option.isNone_none, if_true]
      exact stored_setitem hi h k v
    | some e =>
      have hg : c.getitem k = (c.touch k, .val e.val) := by unfold Lru.getitem; rw [hf]
      rw [hg]
      simp only [Option.isNone_some, Bool.false_eq_true, if_false]
      exact stored_of_kvsub (kvsub_touch c k) h
  | pop k d => exact stored_of_kvsub (kvsub_pop c k d) h
  | popitem => exact stored_of_kvsub (kvsub_popitem c) h
  | clear => exact stored_of_kvsub (kvsub_clearLoop _ c) h
  | len => exact h

theorem stored_run (ops : List LOp) : ∀ (c : Lru) (w : Nat → Option Nat), c.Inv → Stored c w →
    Stored (lrunGhost c w ops).1 (lrunGhost c w ops).2 ∧ (lrunGhost c w ops).1.Inv := by
  induction ops with
  | nil => intro c w hi h; exact ⟨h, hi⟩
  | cons op ops ih =>
    intro c w hi h
    exact ih _ _ (lstep_inv hi op) (stored_step hi h op)

/-- **lru_get_returns_stored**: after ANY operation history on a fresh cache, `get(k)` /
    `cache[k]` can only return the value most recently stored under `k` — never a value
    stored under another key, never a stale one -/
theorem lru_get_returns_stored (cap n d : Nat) (a : Bool) (ops : List LOp) (k v : Nat) :
    let r := lrunGhost (Lru.new cap n d a) (fun _ => none) ops
    ((r.1.get k).2 = .val v → r.2 k = some v) ∧ ((r.1.getitem k).2 = .val v → r.2 k = some v) := by
  intro r
  have hs := (stored_run ops (Lru.new cap n d a) (fun _ => none) (inv_new cap n d a)
    (by intro p hp; cases hp)).1
  exact ⟨fun hg => hs (k, v) (get_val hg), fun hg => hs (k, v) (getitem_val hg)⟩

/-- the run with the ghost is the plain run -/
theorem lrunGhost_fst (ops : List LOp) : ∀ (c : Lru) (w : Nat → Option Nat),
    (lrunGhost c w ops).1 = lfinal c ops := by
  induction ops with
  | nil => intro c w; rfl
  | cons op ops ih => intro c w; exact ih _ _

/-- a hit refreshes recency: the touched key gets the (new) largest counter -/
theorem lru_hit_is_most_recent {c : Lru} (h : c.Inv) (k : Nat) (e : LEntry)
    (he : e ∈ (c.get k).1.data) (hk : e.key = k) (hhit : c.find k ≠ none) :
    ∀ e' ∈ (c.get k).1.data, e'.ctr ≤ e.ctr := by
  unfold Lru.get at he ⊢
  cases hf : c.find k with
  | none => exact absurd hf hhit
  | some e0 =>
    rw [hf] at he
    simp only at he ⊢
    unfold Lru.touch at he ⊢
    simp only [List.mem_map] at he ⊢
    obtain ⟨y, hy, rfl⟩ := he
    have hyk : y.key = k := by
      by_cases hyk : y.key = k
      · exact hyk
      · have : (y.key == k) = false := by simpa using hyk
        simp only [this, Bool.false_eq_true, if_false] at hk
        exact absurd hk hyk
    have h1 : (y.key == k) = true := by simpa using hyk
    simp only [h1, if_true]
    rintro e' ⟨z, hz, rfl⟩
    have := h.bounded z hz
    split
    · simp
    · omega

example : (lfinal (Lru.new 2 1 2 false)
    [.setitem 0 0, .setitem 1 1, .setitem 2 2, .setitem 3 3]).keys = [2, 3] := by decide
example : ((lfinal (Lru.new 2 1 2 false)
    [.setitem 0 0, .setitem 1 1, .setitem 2 2, .get 0, .setitem 3 3]).keys) = [0, 3] := by decide
example : (Lru.new 2 1 2 false).Inv := inv_new _ _ _ _

end SaVerif.Props.C54
