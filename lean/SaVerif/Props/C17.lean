import SaVerif.Model.Lambda
/-!
# C17 — lambda statements never reuse stale closure values
-/
namespace SaVerif.Props.C17
open SaVerif.Lambda

/-- the closure keeps the shape of the first one: same length, same classification,
    and no `None` (which the lambda binds but the direct build renders `IS NULL`) -/
def Stable (ks : List Bool) (vals : List CV) : Prop :=
  vals.map lambdaBound = ks ∧ ∀ v ∈ vals, v ≠ CV.none

theorem bound_eq_of_no_none (vals : List CV) (h : ∀ v ∈ vals, v ≠ CV.none) :
    vals.map directBound = vals.map lambdaBound := by
  apply List.map_congr_left
  intro v hv
  cases v with
  | lit x => rfl
  | obj i => rfl
  | none => exact absurd rfl (h _ hv)

/-- every cached template is what the user function yields for its key -/
def CacheInv (G : List CV → Tmpl) (cache : List (List CV × Tmpl)) : Prop :=
  ∀ k t, clookup k cache = some t → t = G k

theorem invoke_with (G : List CV → Tmpl) (ks : List Bool) (st : State) (vals : List CV)
    (hks : analysisKinds st vals = ks) :
    invoke G st vals =
      match clookup (structPart ks vals) st.cache with
      | some tm => ((true, fill tm (boundPart ks vals)), { st with analysis := some ks })
      | none =>
        ((false, fill (G (structPart ks vals)) (boundPart ks vals)),
         { analysis := some ks, cache := (structPart ks vals, G (structPart ks vals)) :: st.cache }) := by
  unfold invoke
  simp only [hks]
  cases clookup (structPart ks vals) st.cache <;> rfl

theorem invoke_eq_direct (G : List CV → Tmpl) (ks : List Bool) (st : State)
    (hinv : CacheInv G st.cache) (ha : st.analysis = none ∨ st.analysis = some ks)
    (vals : List CV) (hs : Stable ks vals) :
    (invoke G st vals).1.2 = direct G vals ∧
      CacheInv G (invoke G st vals).2.cache ∧ (invoke G st vals).2.analysis = some ks := by
  obtain ⟨hk, hn⟩ := hs
  have hks : analysisKinds st vals = ks := by
    rcases ha with h | h <;> simp [analysisKinds, h, hk]
  have hd : vals.map directBound = ks := by rw [bound_eq_of_no_none vals hn, hk]
  rw [invoke_with G ks st vals hks]
  unfold direct
  simp only [hd]
  cases hl : clookup (structPart ks vals) st.cache with
  | some tm =>
    have := hinv _ _ hl
    subst this
    exact ⟨rfl, hinv, rfl⟩
  | none =>
    refine ⟨rfl, ?_, rfl⟩
    intro k t hkt
    simp only [clookup] at hkt
    by_cases he : structPart ks vals = k
    · simp only [he, if_true] at hkt
      cases hkt; rfl
    · simp only [he, if_false] at hkt
      exact hinv k t hkt

/-- **lambda_invocation_eq_direct**: for ANY history of closures that keep the shape
    of the first one (any length, any values, any order of structural variants, any
    user function parametric in its literals), every invocation through the lambda
    cache produces exactly the directly built statement for the CURRENT closure values:
    no value of an earlier invocation survives, and a structural change selects a
    different cached form. -/
theorem lambda_invocation_eq_direct (G : List CV → Tmpl) (ks : List Bool) :
    ∀ (hist : List (List CV)) (st : State), CacheInv G st.cache →
      (st.analysis = none ∨ st.analysis = some ks) → (∀ v ∈ hist, Stable ks v) →
      (runHistory G st hist).map (·.2) = hist.map (direct G) := by
  intro hist
  induction hist with
  | nil => intro _ _ _ _; rfl
  | cons v r ih =>
    intro st hinv ha hs
    obtain ⟨h1, h2, h3⟩ := invoke_eq_direct G ks st hinv ha v (hs v (by simp))
    simp only [runHistory, List.map_cons, h1]
    rw [ih _ h2 (Or.inr h3) (fun x hx => hs x (by simp [hx]))]

/-- the first invocation of a structural variant is a miss, the following ones hit -/
theorem second_invocation_hits (G : List CV → Tmpl) (vals : List CV) :
    ((runHistory G { analysis := none, cache := [] } [vals, vals]).map (·.1)) = [false, true] := by
  simp [runHistory, invoke, clookup, analysisKinds]

/-- **kind_change_counterexample** (finding): a closure value `None` is bound by the
    lambda (`y = ?`) while the direct statement is structurally different (`y IS NULL`) -/
theorem none_counterexample :
    let G : List CV → Tmpl := fun k => if k.contains CV.none then [.txt 1] else [.txt 0, .slot 0]
    (runHistory G { analysis := none, cache := [] } [[CV.none]]).map (·.2) ≠ [direct G [CV.none]] := by
  decide

/-- a variable that changes kind after the analysis was made is mis-classified -/
theorem kind_change_counterexample :
    let G : List CV → Tmpl := fun k => .txt k.length :: [.slot 0]
    (runHistory G { analysis := none, cache := [] } [[CV.lit 5], [CV.obj 3]]).map (·.2) ≠
      [direct G [CV.lit 5], direct G [CV.obj 3]] := by
  decide

/-! ## chains: the cache key must carry the whole path of code objects -/

def ChainInv (kf : List Nat → List Nat) (G : List Nat → List CV → Tmpl) (cache : ChainCache) : Prop :=
  ∀ k sv t, cclookup (k, sv) cache = some t → ∀ p, kf p = k → t = G p sv

/-- **chain_invocation_eq_direct**: for ANY history of lambda chains (any lengths, optional
    middle links, alternative roots, any interleaving), if the key function applied to the
    path of code objects is injective (the real `tracker_key` is the identity on paths),
    every construction yields the statement built directly by the same links with the
    current values. -/
theorem chain_invocation_eq_direct (kf : List Nat → List Nat)
    (hinj : ∀ p q, kf p = kf q → p = q) (G : List Nat → List CV → Tmpl) :
    ∀ (hist : List (List Nat × List CV × List CV)) (cache : ChainCache), ChainInv kf G cache →
      (runChains kf G cache hist).map (·.2) =
        hist.map (fun c => directChain G c.1 c.2.1 c.2.2) := by
  intro hist
  induction hist with
  | nil => intro _ _; rfl
  | cons c r ih =>
    intro cache hinv
    obtain ⟨p, sv, lits⟩ := c
    cases hl : cclookup (kf p, sv) cache with
    | some tm =>
      have := hinv (kf p) sv tm hl p rfl
      subst this
      have hstep : invokeChain kf G cache p sv lits = ((true, fill (G p sv) lits), cache) := by
        simp [invokeChain, hl]
      simp only [runChains, hstep, List.map_cons]
      rw [ih cache hinv]
      rfl
    | none =>
      have hstep : invokeChain kf G cache p sv lits =
          ((false, fill (G p sv) lits), ((kf p, sv), G p sv) :: cache) := by
        simp [invokeChain, hl]
      have hinv' : ChainInv kf G (((kf p, sv), G p sv) :: cache) := by
        intro k sv' t hk q hq
        simp only [cclookup] at hk
        by_cases he : (kf p, sv) = (k, sv')
        · simp only [he, if_true] at hk
          cases hk
          have h1 : kf p = k := (Prod.mk.inj he).1
          have h2 : sv = sv' := (Prod.mk.inj he).2
          have : p = q := hinj p q (by rw [h1, hq])
          subst this; subst h2; rfl
        · simp only [he, if_false] at hk
          exact hinv k sv' t hk q hq
      simp only [runChains, hstep, List.map_cons]
      rw [ih _ hinv']
      rfl

theorem fullKey_injective : ∀ p q, fullKey p = fullKey q → p = q := fun _ _ h => h

/-- with the key truncated to (parent code, own code) two chains that differ only in an
    optional earlier link share one entry: the second gets the first one's statement -/
theorem truncated_key_counterexample :
    let G : List Nat → List CV → Tmpl := fun p _ => p.map Tok.txt
    (runChains truncKey G [] [([1, 2, 3, 4], [], []), ([1, 3, 4], [], [])]).map (·.2) ≠
      [directChain G [1, 2, 3, 4] [] [], directChain G [1, 3, 4] [] []] := by
  decide

/-! ## non-vacuity -/

example : Stable [false, true, true] [CV.obj 2, CV.lit 7, CV.lit 9] := by
  refine ⟨rfl, ?_⟩
  intro v hv; simp at hv; rcases hv with rfl | rfl | rfl <;> simp

end SaVerif.Props.C17
