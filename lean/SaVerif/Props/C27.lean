import SaVerif.Lemmas.TxnDisc
/-!
# C27 — A database disconnect invalidates the connection and blocks silent continuation

Theorems about M-TXN (`SaVerif/Model/Txn.lean`): `Connection._handle_dbapi_exception`
(`is_disconnect`, `handle_error` listeners, `invalidate_pool_on_disconnect`),
`Pool._invalidate`, `_ConnectionRecord.get_connection`, `Connection._revalidate_connection`,
`_invalid_transaction` and the PendingRollbackError checks.  Helper lemmas:
`Lemmas/TxnEvo.lean` (how pool state can evolve inside one API call), `Lemmas/TxnDisc.lean`.
-/
namespace SaVerif.Props.C27
open SaVerif.Txn

/-! ## a disconnect invalidates the Connection -/

/-- the error is a disconnect: classified so by the dialect, or by a `handle_error` listener -/
def IsDisc (c : Conn) (k : FKind) : Prop := k = .disc ∨ (c.db.listener = .forceDisc ∧ k = .err)

/-- **disconnect_invalidates**: for EVERY state holding a DBAPI connection, the handling of
    an error classified as a disconnect returns the disconnect result (DBAPIError with
    `connection_invalidated=True`), leaves the Connection invalidated (no DBAPI connection,
    reconnect allowed) and discards the dead DBAPI connection's uncommitted work. -/
theorem disconnect_invalidates (c : Conn) (k : FKind) (hd : c.hasDbapi = true)
    (hr : c.canReconnect = true) (hk : IsDisc c k) :
    (c.dbapiError k).2 = .disconnect ∧ (c.dbapiError k).1.invalidated = true ∧
    (c.dbapiError k).1.transaction = c.transaction ∧ (c.dbapiError k).1.txns = c.txns := by
  rw [dbapiError_disc c k hk, discError_spec c hd]
  simp [Conn.invalidated, hr]

/-- the pool side: unless a listener cleared `invalidate_pool_on_disconnect`, the pool's
    invalidation time moves past the birth of every connection that exists at that moment
    (so `get_connection` will recycle each of them instead of handing it out) -/
theorem disconnect_invalidates_pool (c : Conn) (k : FKind) (hd : c.hasDbapi = true)
    (hk : IsDisc c k) (hl : c.db.listener ≠ .noPoolInval) (ht : PoolTime c.db true) :
    ∀ r, some r ∈ (c.dbapiError k).1.db.idle → r.born < (c.dbapiError k).1.db.invalTime := by
  rw [dbapiError_disc c k hk, discError_spec c hd]
  have hl' : (c.db.listener == .noPoolInval) = false := by simpa using hl
  simp only [hl', Bool.false_eq_true, if_false]
  obtain ⟨_, hb, _⟩ := ht.held rfl
  intro r hr
  have hr' : some r ∈ c.db.idle :=
    (poolInvalidate_shrinks c.db).idle r ((kill_shrinks c.db.poolInvalidate).idle r hr)
  have := (ht.idle r hr').1
  simp only [DB.kill, DB.poolInvalidate, hb, if_true, DB.tick]
  omega

/-- **stale_never_handed_out**: after a disconnect was detected (pool invalidation not
    suppressed), through EVERY later history of API calls, close, garbage collection,
    new checkouts and extra pooled connections, the Connection never again holds a DBAPI connection that existed when
    the failure happened (their numbers are all below `nextRid` at the failure). -/
theorem stale_never_handed_out (c : Conn) (k : FKind) (hd : c.hasDbapi = true)
    (hk : IsDisc c k) (hl : c.db.listener ≠ .noPoolInval) (ht : PoolTime c.db true)
    (ops : List Op) :
    let c' := (c.dbapiError k).1.run ops
    c'.hasDbapi = true → c.db.nextRid ≤ c'.db.raw.rid := by
  intro c' hh
  -- the invariant holds right after the failure …
  have h0 : GenC c.db.nextRid (c.dbapiError k).1 := by
    have hpt : PoolTime (c.dbapiError k).1.db (c.dbapiError k).1.hasDbapi := by
      have hg0 : GenC 0 c := by
        unfold GenC; rw [hd]
        exact ⟨ht, ⟨Nat.zero_le _, fun _ _ h => absurd h (Nat.not_lt_zero _), fun _ => Nat.zero_le _⟩⟩
      exact ((dbapiError_E c k).gen hg0).1
    have hstale := disconnect_invalidates_pool c k hd hk hl ht
    refine ⟨hpt, ⟨?_, fun r hr _ => hstale r hr, ?_⟩⟩
    · rw [dbapiError_disc c k hk, discError_spec c hd]
      split <;> simp [DB.kill, DB.poolInvalidate, DB.tick] <;> split <;> simp
    · rw [dbapiError_disc c k hk, discError_spec c hd]
      intro e; cases e
  -- … and is preserved by every later step
  exact (run_gen ops _ h0 (fun _ _ => rfl)).2.held hh


/-- the clock discipline assumed above holds in every reachable state -/
theorem pooltime_reachable (rs : ResetStyle) (ls : Listener) (eo : List Bool) (rc : Option Nat)
    (ops : List Op) :
    let c := (Conn.connect (DB.init rs ls eo rc)).run ops
    PoolTime c.db c.hasDbapi := by
  have h0 : GenC 0 (Conn.connect (DB.init rs ls eo rc)) := by
    refine connect_gen ⟨⟨?_, Nat.le_refl _, fun e => (by cases e)⟩, ⟨Nat.zero_le _, ?_, fun e => (by cases e)⟩⟩
    · intro r hr; simp [DB.init] at hr
    · intro r hr; simp [DB.init] at hr
  exact (run_gen ops _ h0 (fun _ _ => rfl)).1

/-! ## further use raises until rollback() -/

/-- **pending_rollback_until_rollback** (one call): on an invalidated Connection whose
    transaction has not been rolled back, execute / begin / begin_nested / commit and
    commit of any transaction handle raise (PendingRollbackError or InvalidRequestError),
    the Connection stays blocked and NOTHING happens to the database or the pool. -/
theorem pending_rollback_until_rollback (c : Conn) (hb : Blocked c) (op : Op) (hu : op.uses = true) :
    (c.step op).2 ≠ .ok ∧ Blocked (c.step op).1 ∧ (c.step op).1.db = c.db :=
  blocked_step hb op hu

/-- … and therefore for every SEQUENCE of such calls: every single one raises, and at the
    end the database is exactly as it was and the Connection is still blocked. -/
theorem pending_rollback_run : ∀ (ops : List Op) (c : Conn), Blocked c → (∀ op ∈ ops, op.uses = true) →
    (∀ x ∈ c.trace ops, x.1 ≠ .ok) ∧ Blocked (c.run ops) ∧ (c.run ops).db = c.db := by
  intro ops
  induction ops with
  | nil => intro c hb _; exact ⟨fun x hx => (by cases hx), hb, rfl⟩
  | cons op ops ih =>
    intro c hb hu
    obtain ⟨h1, h2, h3⟩ := blocked_step hb op (hu op List.mem_cons_self)
    obtain ⟨i1, i2, i3⟩ := ih (c.step op).1 h2 (fun o ho => hu o (List.mem_cons_of_mem _ ho))
    refine ⟨?_, i2, i3.trans h3⟩
    intro x hx
    simp only [Conn.trace, List.mem_cons] at hx
    rcases hx with rfl | hx
    · exact h1
    · exact i1 x hx

/-! ## after rollback() the Connection reconnects transparently -/

/-- **reconnect_after_rollback**: in the blocked state (disconnect detected earlier),
    `rollback()` makes no DBAPI call, returns normally, detaches the transaction and ends
    every savepoint object; the next statement (no fault armed) then runs inside a new
    transaction on a freshly checked-out DBAPI connection.
    `PrevWF` / `RootPtr` are structural invariants of the handle table. -/
theorem reconnect_after_rollback (c : Conn) (hb : Blocked c) (hroot : RootPtr c) (hwf : PrevWF c)
    (hctx : c.ctxMgr = none) (hf : c.db.faults = []) (hl : c.db.listener ≠ .forceDisc) (s : Stmt) :
    c.rollback.2 = .ok ∧ c.rollback.1.db = c.db ∧ c.rollback.1.invalidated = true ∧
    c.rollback.1.inTransaction = false ∧ c.rollback.1.inNested = false ∧
    (let x := c.rollback.1.execute (.stmt s)
     (x.2 = .ok ∨ x.2 = .integrity) ∧ x.1.hasDbapi = true ∧ x.1.inTransaction = true ∧
       x.1.db.raw.rid = c.db.checkout.raw.rid) := by
  obtain ⟨r1, r2, r3, r4, r5, r6, r7⟩ := blocked_rollback hb hroot hwf
  refine ⟨r1, r2, by simp [Conn.invalidated, r5, r6], by simp [Conn.inTransaction, r3],
    by simp [Conn.inNested, r4], ?_⟩
  have := reconnect_execute r5 r6 r3 r4 (by rw [r7]; exact hctx) (by rw [r2]; exact hf)
    (by rw [r2]; exact hl) s
  rw [r2] at this
  exact this

/-- the same for every REACHABLE blocked state: the structural hypotheses are invariants
    (`wf_all`), so after any history that ends invalidated inside a transaction, `rollback()`
    un-blocks the Connection -/
theorem reconnect_after_rollback_reachable (rs : ResetStyle) (ls : Listener) (eo : List Bool) (rc : Option Nat)
    (ops : List Op) (hb : Blocked ((Conn.connect (DB.init rs ls eo rc)).run ops)) :
    let c := (Conn.connect (DB.init rs ls eo rc)).run ops
    c.rollback.2 = .ok ∧ c.rollback.1.db = c.db ∧ c.rollback.1.invalidated = true ∧
    c.rollback.1.inTransaction = false ∧ c.rollback.1.inNested = false := by
  have hw := run_wfc ops (Conn.connect (DB.init rs ls eo rc)) (wfc_empty rfl rfl rfl)
  obtain ⟨r1, r2, r3, r4, r5, r6, _⟩ := blocked_rollback hb hw.1 hw.2
  exact ⟨r1, r2, by simp [Conn.invalidated, r5, r6], by simp [Conn.inTransaction, r3],
    by simp [Conn.inNested, r4]⟩

/-- the connection obtained by that reconnect is clean and not one of the stale ones:
    combination with C24's `checkout_held_clean` -/
theorem reconnect_clean_connection (c : Conn) (hc : PoolClean c.db) :
    c.db.checkout.raw.working = c.db.checkout.committed ∧ c.db.checkout.raw.saves = [] :=
  ⟨(checkout_held_clean _ hc).1, (checkout_held_clean _ hc).2.1⟩

/-! ## errors not classified as disconnects leave the pool untouched -/

/-- **non_disconnect_leaves_pool**: a statement executed on a Connection that holds a DBAPI
    connection and fails with an error that is not a disconnect (IntegrityError, or an
    OperationalError the dialect does not classify, no reclassifying listener) leaves the
    Connection valid on the SAME DBAPI connection and the pool queue and invalidation time
    untouched — provided the error handler's own ROLLBACK (emitted when the statement failed
    before a transaction had begun) does not itself meet a dead connection
    (`handler_rollback_disconnect_invalidates` below covers that case). -/
theorem non_disconnect_leaves_pool (c : Conn) (q : Sql) (hd : c.hasDbapi = true)
    (hl : c.db.listener ≠ .forceDisc)
    (hnr : ∀ f, f ∈ c.db.faults → f.1 = .rollback → f.2 = .err)
    (hr : (c.execute q).2 = .operational ∨ (c.execute q).2 = .integrity) :
    (c.execute q).1.hasDbapi = true ∧ (c.execute q).1.db.raw.rid = c.db.raw.rid ∧
    (c.execute q).1.db.idle = c.db.idle ∧ (c.execute q).1.db.invalTime = c.db.invalTime := by
  rcases execute_ps c q hd hl with h | h | h | h
  · exact ⟨by rw [h.hasDbapi]; exact hd, h.rid, h.idle, h.invalTime⟩
  · rcases hr with hr | hr <;> rw [h] at hr <;> cases hr
  · rcases hr with hr | hr <;> rw [h] at hr <;> cases hr
  · obtain ⟨f, hm, h1, h2⟩ := h
    exact absurd (hnr f hm h1) h2

/-- the handler itself, for every state: not a disconnect ⇒ connection and pool unchanged -/
theorem plain_error_leaves_pool (c : Conn) (hl : c.db.listener ≠ .forceDisc)
    (hnr : ∀ f, f ∈ c.db.faults → f.1 = .rollback → f.2 = .err) :
    (c.dbapiError .err).2 = .operational ∧ (c.dbapiError .err).1.hasDbapi = c.hasDbapi ∧
    (c.dbapiError .err).1.db.idle = c.db.idle ∧ (c.dbapiError .err).1.db.invalTime = c.db.invalTime := by
  have hl' : (c.db.listener == .forceDisc) = false := by simpa using hl
  have e : c.dbapiError .err = c.plainError := by simp [Conn.dbapiError, hl']
  rw [e]
  have h : PoolSame c c.plainError.1 := by
    rcases plainError_poolSame c with h | ⟨f, hm, h1, h2⟩
    · exact h
    · exact absurd (hnr f hm h1) h2
  refine ⟨?_, h.hasDbapi, h.idle, h.invalTime⟩
  unfold Conn.plainError
  split
  · rfl
  · split
    · split
      · rfl
      · cases hf : c.db.takeFault .rollback with
        | mk o db1 =>
          cases o with
          | none => rfl
          | some k =>
            have := hnr _ (takeFault_some_mem hf) rfl
            simp only at this
            subst this
            rfl
    · rfl

/-- **handler_rollback_disconnect_invalidates**: a statement fails with an ORDINARY error
    before a transaction has begun (cursor creation), the error handler emits its autorollback,
    and that ROLLBACK fails with a disconnect-classified error (re-entrant
    `_handle_dbapi_exception`): the error raised is the ordinary one, not flagged
    `connection_invalidated` — but Connection and pool end up exactly as if the disconnect
    had been met directly (so `disconnect_invalidates`, `disconnect_invalidates_pool` and
    `stale_never_handed_out` apply to what follows). -/
theorem handler_rollback_disconnect_invalidates (c : Conn) (db1 : DB) (hd : c.hasDbapi = true)
    (hr : c.canReconnect = true) (ht : c.inTransaction = false) (hs : c.db.skipsRollback = false)
    (hl : c.db.listener ≠ .forceDisc) (hf : c.db.takeFault .rollback = (some .disc, db1)) :
    (c.dbapiError .err).2 = .operational ∧ (c.dbapiError .err).1.invalidated = true ∧
    (c.dbapiError .err).1 = (({ c with db := db1 } : Conn).dbapiError .disc).1 := by
  have hl' : (c.db.listener == .forceDisc) = false := by simpa using hl
  have e : c.dbapiError .err = c.plainError := by simp [Conn.dbapiError, hl']
  have e2 : c.plainError = ((({ c with db := db1 } : Conn).discError).1, .operational) := by
    simp [Conn.plainError, ht, hd, hs, hf]
  have e3 : ({ c with db := db1 } : Conn).dbapiError .disc = ({ c with db := db1 } : Conn).discError :=
    dbapiError_disc _ _ (Or.inl rfl)
  rw [e, e2, e3]
  refine ⟨rfl, ?_, rfl⟩
  have := disconnect_invalidates ({ c with db := db1 } : Conn) .disc hd hr (Or.inl rfl)
  rw [e3] at this
  exact this.2.1

/-! ## failing reconnects, pool_recycle -/

/-- **failed_reconnect_stays_invalidated**: when the transparent reconnect of an invalidated
    Connection fails (the creator raises — a plain error, a disconnect-classified error or a
    BaseException), the Connection simply stays invalidated: no DBAPI connection, no
    transaction, reconnect still possible, and the pool gained no usable connection. -/
theorem failed_reconnect_stays_invalidated (c : Conn) (hinv : c.invalidated = true)
    (ht : c.transaction = none) (hf : c.revalidate.2 ≠ .ok) :
    c.revalidate.1.invalidated = true ∧ c.revalidate.1.transaction = none ∧
    c.revalidate.1.txns = c.txns ∧
    (∀ r, some r ∈ c.revalidate.1.db.idle → some r ∈ c.db.idle) ∧
    c.revalidate.1.db.invalTime = c.db.invalTime ∧ c.revalidate.1.db.committed = c.db.committed := by
  simp only [Conn.invalidated, Bool.and_eq_true, Bool.not_eq_true'] at hinv
  revert hf
  simp only [Conn.revalidate, hinv.1, hinv.2, ht, Conn.invalidated]
  cases hx : c.db.checkoutF with
  | mk db o =>
    cases o with
    | none => intro h; exact absurd rfl h
    | some k =>
      intro _
      obtain ⟨db1, hasRec, db2, hpre, hfault, he⟩ := checkoutF_some hx
      have hp := checkoutPre_spec c.db
      rw [hpre] at hp
      have hd := takeFault_dataOnly db1 .connect
      rw [hfault] at hd
      have hcm : db2.committed = db1.committed := by
        have : (db1.takeFault .connect).2.committed = db1.committed := by
          unfold DB.takeFault; split <;> rfl
        rw [hfault] at this; exact this
      refine ⟨by simp, rfl, rfl, ?_, ?_, ?_⟩
      · intro r hr
        apply hp.idle r
        have hr' : some r ∈ db.idle := hr
        rw [he] at hr'
        cases hasRec with
        | false =>
          have : some r ∈ db2.idle := hr'
          rw [hd.idle] at this; exact this
        | true =>
          have : some r ∈ db2.idle ++ [none] := hr'
          rcases List.mem_append.1 this with h | h
          · rw [hd.idle] at h; exact h
          · simp at h
      · show db.invalTime = _
        rw [he]
        cases hasRec <;> exact hd.invalTime.trans hp.invalTime
      · show db.committed = _
        rw [he]
        cases hasRec <;> exact hcm.trans hp.committed

/-- **recycle_respects_invalidation**: whatever `pool_recycle` is configured (none, or any
    number of seconds — the age test and the invalidation-time test of
    `_ConnectionRecord.get_connection` are alternatives, not nested), a pooled connection is
    handed out only if it was born after the last pool invalidation. -/
theorem recycle_respects_invalidation (db : DB) (r : Raw) (h : db.checkoutPre.2.1 = some r) :
    some r ∈ db.idle ∧ db.invalTime ≤ r.born := by
  have := (checkoutPre_spec db).out r h
  exact ⟨this.1, by have := this.2; omega⟩

/-! ## where the unrestricted statement fails (finding F19)

Full statement (FALSE): "whenever rollback() has been called on a Connection whose DBAPI
connection turned out to be dead, no transaction or savepoint object remains current".
`reconnect_after_rollback` proves it when the disconnect was detected BEFORE rollback();
when it is first detected BY the ROLLBACK itself `RootTransaction._close_impl` skips the
cancellation of the savepoint objects. -/

def c0 : Conn := Conn.connect (DB.init .rollback)

theorem rollback_failure_counterexample :
    let ops : List Op := [.exec (.ins 1), .beginNested, .arm .rollback .disc, .rollback]
    ((c0.trace ops).map (·.1)).getLast? = some .disconnect ∧   -- rollback() raised the disconnect
    (c0.run ops).transaction = none ∧ (c0.run ops).invalidated = true ∧
    (c0.run ops).inNested = true ∧                              -- savepoint object still current+active
    -- the next statement reconnects and succeeds, and in_nested_transaction() is still True
    ((c0.run ops).step (.exec .sel)).2 = .ok ∧
    ((c0.run ops).step (.exec .sel)).1.inNested = true ∧
    -- its savepoint does not exist on the new DBAPI connection
    ((c0.run ops).step (.exec .sel)).1.db.raw.saves = [] ∧
    (((c0.run ops).step (.exec .sel)).1.step (.tRollback 1)).2 = .operational := by
  decide

/-! ## non-vacuity -/

/-- a reachable blocked state: disconnect during a statement inside a transaction with a savepoint -/
def blockedState : Conn :=
  c0.run [.warm 2, .begin, .exec (.ins 1), .beginNested, .arm .execute .disc, .exec (.ins 2)]

example : blockedState.hasDbapi = false ∧ blockedState.canReconnect = true ∧
    blockedState.transaction = some 0 := by decide
/-- the two pooled connections that existed at the failure are both stale afterwards -/
example : blockedState.db.idle.map (fun o => o.map (fun r => decide (r.born < blockedState.db.invalTime)))
    = [some true, some true, none] := by decide
/-- and after rollback the reconnect creates connection #3 rather than reusing #1 or #2 -/
example : ((blockedState.run [.rollback, .exec .sel]).db.raw.rid) = 3 := by decide
example : (c0.run [.warm 2, .begin, .exec (.ins 1)]).hasDbapi = true := by decide


/-- the history of a stale disconnect flag: disconnect on execute, rollback, a reconnect that
    fails with a disconnect-classified connect error, a reconnect that works, then a plain
    statement error — which must leave the Connection valid on the same DBAPI connection -/
def staleFlagOps : List Op :=
  [.begin, .arm .execute .disc, .exec (.ins 1), .rollback, .arm .connect .disc, .exec .sel, .exec .sel,
   .arm .execute .err, .exec (.ins 2)]

example : (c0.trace staleFlagOps).map (·.1) =
    [.ok, .ok, .disconnect, .ok, .ok, .disconnect, .ok, .ok, .operational] := by decide
example : (c0.run staleFlagOps).hasDbapi = true ∧
    (c0.run staleFlagOps).db.raw.rid = (c0.run (staleFlagOps.take 7)).db.raw.rid ∧
    (c0.run staleFlagOps).db.invalTime = (c0.run (staleFlagOps.take 7)).db.invalTime := by decide

/-- pool_recycle configured (not yet due): the connections pooled at the disconnect are still
    refused afterwards -/
def c0r : Conn := Conn.connect (DB.init .rollback .none [] (some 3600))
example : ((c0r.run [.warm 2, .arm .execute .disc, .exec (.ins 1), .rollback, .exec .sel]).db.raw.rid) = 3 := by
  decide
/-- pool_recycle due: an old pooled connection is replaced although no disconnect happened -/
def c0r2 : Conn := Conn.connect (DB.init .rollback .none [] (some 1))
example : ((c0r2.run [.warm 2, .close, .connect]).db.raw.rid) = 3 := by decide
example : ((c0.run [.warm 2, .close, .connect]).db.raw.rid) = 1 := by decide

/-- the handler's own autorollback meets the dead connection: the statement reports the
    ordinary error, the Connection is invalidated, the pooled connection #1 is stale and the
    next statement runs on a new connection #2 -/
def handlerOps : List Op := [.warm 1, .arm .cursor .err, .arm .rollback .disc, .exec .sel]
example : ((c0.trace handlerOps).map (·.1)).getLast? = some .operational ∧
    (c0.run handlerOps).invalidated = true ∧
    (c0.run handlerOps).db.idle.map (fun o => o.map (fun r => decide (r.born < (c0.run handlerOps).db.invalTime)))
      = [some true, none] ∧
    ((c0.run handlerOps).step (.exec .sel)).1.db.raw.rid = 2 := by decide

end SaVerif.Props.C27
