import SaVerif.Model.CyUtil
import SaVerif.Model.Row
import SaVerif.Model.ApplyProcs
import SaVerif.Props.C54
/-!
# C55 — Compiled and pure-Python implementations are interchangeable

Cython is not installed, so "the compiled build of the current source" cannot be produced.
What is established:

* `refine_trans` — two implementations that both agree with one model on a set of inputs agree
  with each other there (the shape of the argument: pure-Python source ≙ Lean model, checked by
  the C54/C55 correspondences; pre-built extension ≙ same model / same traces, checked whenever
  the extension is not stale);
* the utility-collection models of C54 (`SaVerif.Props.C54.*`) are the reference both builds
  are compared with;
* for the small helpers of engine/_util_cy.py and sql/_util_cy.py (M-CYUTIL) the optimisation
  that only one build could get wrong is proved unobservable: the slice fast path of
  `tuplegetter` returns exactly what `itemgetter(*indexes)` returns, and `anon_map` hands out
  stable, distinct, dense indexes.
-/
namespace SaVerif.Props.C55
open SaVerif.CyUtil

/-- both builds refine one model ⇒ they are interchangeable on the compared inputs -/
theorem refine_trans {α β : Type} (py so model : α → β) (S : α → Prop)
    (h1 : ∀ x, S x → py x = model x) (h2 : ∀ x, S x → so x = model x) :
    ∀ x, S x → py x = so x := fun x hx => (h1 x hx).trans (h2 x hx).symm

/-! ## tuplegetter: the slice fast path is unobservable -/

theorem contiguous_mapM (row : List Nat) : ∀ (rest : List Nat) (i0 : Nat),
    isContiguous (i0 :: rest) = true → (∀ i ∈ i0 :: rest, i < row.length) →
    (i0 :: rest).mapM (fun i => row[i]?) = some ((row.drop i0).take (rest.length + 1)) ∧
    (i0 :: rest).getLastD 0 = i0 + rest.length := by
  intro rest
  induction rest with
  | nil =>
    intro i0 _ hv
    have h0 : i0 < row.length := hv i0 (by simp)
    refine ⟨?_, by simp⟩
    simp only [List.mapM_cons, List.mapM_nil, List.getElem?_eq_getElem h0]
    rw [List.drop_eq_getElem_cons h0]
    simp only [Option.pure_def, Option.bind_eq_bind, Option.bind_some, List.take_succ_cons]
    simp
  | cons b rest ih =>
    intro i0 hc hv
    simp only [isContiguous, Bool.and_eq_true, beq_iff_eq] at hc
    obtain ⟨hb, hc'⟩ := hc
    have h0 : i0 < row.length := hv i0 (by simp)
    obtain ⟨h1, h2⟩ := ih b hc' (fun i hi => hv i (by simp [hi]))
    constructor
    · rw [List.mapM_cons, h1, List.getElem?_eq_getElem h0]
      simp only [Option.pure_def, Option.bind_eq_bind, Option.bind_some]
      rw [List.drop_eq_getElem_cons h0, ← hb]
      simp only [List.take_succ_cons]
      simp
    · have : (i0 :: b :: rest).getLastD 0 = (b :: rest).getLastD 0 := by
        simp [List.getLastD]
      rw [this, h2]
      simp only [List.length_cons]
      omega

/-- **tuplegetter_eq_itemgetter**: for valid indexes `tuplegetter(*idx)(row)` is
    `tuple(row[i] for i in idx)` whether or not the contiguous-slice fast path is taken -/
theorem tuplegetter_eq_itemgetter (idx row : List Nat) (hne : idx ≠ [])
    (hv : ∀ i ∈ idx, i < row.length) :
    tupleGetter idx row = idx.mapM (fun i => row[i]?) := by
  cases idx with
  | nil => exact absurd rfl hne
  | cons i0 rest =>
    unfold tupleGetter
    simp only
    by_cases hc : ((i0 :: rest).length == 1 || isContiguous (i0 :: rest)) = true
    · rw [if_pos hc]
      have hcont : isContiguous (i0 :: rest) = true := by
        rcases (Bool.or_eq_true_iff).1 hc with h | h
        · have : rest = [] := by
            cases rest with
            | nil => rfl
            | cons a t => simp at h
          subst this; rfl
        · exact h
      obtain ⟨h1, h2⟩ := contiguous_mapM row rest i0 hcont hv
      rw [h1, h2]
      congr 2
      omega
    · rw [if_neg hc]

/-! ## anon_map: stable, distinct, dense indexes -/

theorem anon_get_nodup {m : AnonMap} (h : m.Nodup) (k : Nat) : (m.get k).1.Nodup := by
  unfold AnonMap.get
  split
  · exact h
  · rename_i hk
    have hk' : k ∉ m := fun hm => hk (List.contains_iff_mem.2 hm)
    rw [List.nodup_append]
    refine ⟨h, by simp, ?_⟩
    intro a ha b hb hab
    simp only [List.mem_singleton] at hb
    subst hb; subst hab; exact hk' ha

/-- the index returned is the key's position, and it is the value every later lookup gives -/
theorem anon_map_index_stable (m : AnonMap) (k k' : Nat) (hk : k ∈ m) :
    (m.get k).2.1 = m.idxOf k ∧ (m.get k).2.2 = true ∧ ((m.get k').1).idxOf k = m.idxOf k := by
  refine ⟨?_, ?_, ?_⟩
  · unfold AnonMap.get; rw [if_pos (List.contains_iff_mem.2 hk)]
  · unfold AnonMap.get; rw [if_pos (List.contains_iff_mem.2 hk)]
  · unfold AnonMap.get
    split
    · rfl
    · simp only
      rw [List.idxOf_append, if_pos hk]

/-- a new key gets the next dense index `len(map)` and the flag `False` -/
theorem anon_map_new_key (m : AnonMap) (k : Nat) (hk : k ∉ m) :
    (m.get k).2.1 = m.length ∧ (m.get k).2.2 = false ∧ ((m.get k).1).idxOf k = m.length := by
  have hc : m.contains k = false := by simpa using hk
  unfold AnonMap.get
  rw [hc]
  simp only [Bool.false_eq_true, if_false, true_and]
  rw [List.idxOf_append, if_neg hk]
  simp

theorem anon_final_nodup (ks : List Nat) : ∀ m : AnonMap, m.Nodup → (AnonMap.final m ks).Nodup := by
  induction ks with
  | nil => intro m h; exact h
  | cons k ks ih => intro m h; exact ih _ (anon_get_nodup h k)

/-- distinct stored keys always have distinct indexes, after any lookup history -/
theorem anon_map_injective (ks : List Nat) (a b : Nat)
    (ha : a ∈ AnonMap.final [] ks) (hb : b ∈ AnonMap.final [] ks)
    (h : (AnonMap.final [] ks).idxOf a = (AnonMap.final [] ks).idxOf b) : a = b := by
  have h1 := List.getElem_idxOf (List.idxOf_lt_length_of_mem ha)
  have h2 := List.getElem_idxOf (List.idxOf_lt_length_of_mem hb)
  rw [← h1, ← h2]
  simp only [h]

example : tupleGetter [1, 2, 3] [5, 6, 7, 8, 9] = some [6, 7, 8] := by decide
example : tupleGetter [3, 1] [5, 6, 7, 8, 9] = some [8, 6] := by decide
example : AnonMap.run [] [6, 3, 6, 3, 0] = [(0, false), (1, false), (0, true), (1, true), (2, false)] := by
  decide
example : PrefixMap.run PrefixMap.empty [(1, 0), (2, 0), (1, 0), (3, 1)] = [(0, 1), (0, 2), (0, 1), (1, 1)] := by
  decide

/-! ## Row (engine/_row_cy.py BaseRow + engine/row.py Row): a named tuple over `_data` -/
section RowThms
open SaVerif.Row

/-- processors are applied position by position and never change the width -/
theorem apply_processors_spec (procs : List Proc) (data out : List Val)
    (h : applyProcs procs data = some out) :
    out.length = data.length ∧
    ∀ i (hi : i < out.length) (hp : i < procs.length) (hd : i < data.length),
      out[i] = procs[i].apply data[i] := by
  unfold applyProcs at h
  by_cases hl : (procs.length != data.length) = true
  · rw [if_pos hl] at h; cases h
  · rw [if_neg hl] at h
    cases h
    have hlen : procs.length = data.length := by simpa using hl
    refine ⟨by simp [hlen], ?_⟩
    intro i hi hp hd
    simp

/-- attribute access and mapping access by key are item access at the key's index; a missing
    key raises AttributeError / KeyError respectively and nothing else -/
theorem row_key_access (r : Row) (k : Nat) (hw : r.data.length = r.nkeys) :
    (k < r.nkeys → r.getattr k = r.getitem k ∧ r.getkey k = r.getitem k) ∧
    (¬ k < r.nkeys → r.getattr k = .error .attributeError ∧ r.getkey k = .error .keyError) := by
  constructor
  · intro hk
    have hd : k < r.data.length := by omega
    unfold Row.getattr Row.getkey Row.byKey Row.getitem tupleGet
    have h0 : ¬ ((k : Int) < 0) := by omega
    simp only [hk, if_true, h0, if_false, Int.toNat_natCast, List.getElem?_eq_getElem hd]
    first | exact ⟨rfl, rfl⟩ | trivial | simp
  · intro hk
    unfold Row.getattr Row.getkey Row.byKey
    simp only [hk, if_false]
    exact ⟨rfl, rfl⟩

/-- pickling round-trips to an equal row (same fields, same data, same hash) -/
theorem row_pickle_roundtrip (r : Row) :
    r.pickle = r ∧ r.pickle.hashKey = r.hashKey ∧ r.pickle.eq r.data = true := by
  refine ⟨rfl, rfl, ?_⟩
  simp [Row.pickle, Row.eq]

/-- equal rows hash alike -/
theorem row_eq_hash (r : Row) (o : List Val) (h : r.eq o = true) : r.hashKey = o := by
  simpa [Row.eq, Row.hashKey] using h

theorem tupleLt_irrefl : ∀ a : List Int, tupleLt a a = false
  | [] => rfl
  | x :: xs => by
    have : ¬ x < x := by omega
    simp [tupleLt, this, tupleLt_irrefl xs]

theorem tupleLt_asymm : ∀ a b : List Int, tupleLt a b = true → tupleLt b a = false
  | [], [], h => by simp [tupleLt] at h
  | [], _ :: _, _ => rfl
  | _ :: _, [], h => by simp [tupleLt] at h
  | x :: xs, y :: ys, h => by
    simp only [tupleLt] at h ⊢
    by_cases h1 : x < y
    · have : ¬ y < x := by omega
      simp [this, h1]
    · by_cases h2 : y < x
      · simp [h1, h2] at h
      · simp only [h1, h2, if_false] at h ⊢
        exact tupleLt_asymm xs ys h

theorem tupleLt_total : ∀ a b : List Int, a ≠ b → tupleLt a b = true ∨ tupleLt b a = true
  | [], [], h => absurd rfl h
  | [], _ :: _, _ => Or.inl rfl
  | _ :: _, [], _ => Or.inr rfl
  | x :: xs, y :: ys, h => by
    simp only [tupleLt]
    by_cases h1 : x < y
    · exact Or.inl (by simp [h1])
    · by_cases h2 : y < x
      · exact Or.inr (by simp [h2])
      · have hxy : x = y := by omega
        subst hxy
        have hne : xs ≠ ys := fun e => h (by rw [e])
        simp only [h1, if_false]
        exact tupleLt_total xs ys hne

theorem tupleLt_trans : ∀ a b c : List Int, tupleLt a b = true → tupleLt b c = true → tupleLt a c = true
  | [], [], _, h, _ => by simp [tupleLt] at h
  | [], _ :: _, [], _, h => by simp [tupleLt] at h
  | [], _ :: _, _ :: _, _, _ => rfl
  | _ :: _, [], _, h, _ => by simp [tupleLt] at h
  | _ :: _, _ :: _, [], _, h => by simp [tupleLt] at h
  | x :: xs, y :: ys, z :: zs, h1, h2 => by
    simp only [tupleLt] at h1 h2 ⊢
    by_cases a1 : x < y
    · by_cases b1 : y < z
      · have : x < z := by omega
        simp [this]
      · by_cases b2 : z < y
        · simp [b1, b2] at h2
        · have : x < z := by omega
          simp [this]
    · by_cases a2 : y < x
      · simp [a1, a2] at h1
      · simp only [a1, a2, if_false] at h1
        have hxy : x = y := by omega
        subst hxy
        by_cases b1 : x < z
        · simp [b1]
        · by_cases b2 : z < x
          · simp [b1, b2] at h2
          · simp only [b1, b2, if_false] at h2 ⊢
            exact tupleLt_trans xs ys zs h1 h2

/-- **row_ordering_is_tuple_ordering**: `<`, `<=`, `>`, `>=`, `==` of a Row against a tuple (or
    another Row's tuple) are the lexicographic strict total order on `_data`: exactly one of
    `<`, `==`, `>` holds, `<=`/`>=` are their unions, and `<` is transitive -/
theorem row_ordering_is_tuple_ordering (r : Row) (o : List Val) :
    (r.eq o = true ↔ r.data = o) ∧
    (r.lt o = true → r.gt o = false ∧ r.eq o = false) ∧
    (r.eq o = false → r.lt o = true ∨ r.gt o = true) ∧
    (r.le o = (r.lt o || r.eq o)) ∧ (r.ge o = (r.gt o || r.eq o)) ∧
    (∀ p : List Val, r.lt o = true → tupleLt o p = true → r.lt p = true) := by
  refine ⟨by simp [Row.eq], ?_, ?_, rfl, rfl, ?_⟩
  · intro h
    refine ⟨tupleLt_asymm _ _ h, ?_⟩
    unfold Row.eq
    apply Bool.eq_false_iff.2
    intro he
    have : r.data = o := by simpa using he
    unfold Row.lt at h
    rw [this, tupleLt_irrefl] at h
    cases h
  · intro h
    have : r.data ≠ o := by simpa [Row.eq] using h
    exact tupleLt_total _ _ this
  · intro p h1 h2
    exact tupleLt_trans _ _ _ h1 h2

example : (Row.make 3 (some [.neg, .none, .dbl]) [2, 0, 5]) = .ok ⟨3, [-2, 0, 10]⟩ := rfl
example : (⟨2, [1, 2]⟩ : Row).lt [1, 3] = true := by decide
example : (⟨2, [1, 2]⟩ : Row).getattr 5 = .error .attributeError := rfl
end RowThms

/-! ## `_apply_processors`: the compiled and the pure-Python branch compute the same row -/
section ApplyProcsThms
open SaVerif.ApplyProcs

theorem applyAt_hit {α : Type} (pp ps : List (Slot α)) (f : α → α) (pre d : List α) (v : α)
    (h : pp.length = pre.length) :
    applyAt (pp ++ some f :: ps) (pre ++ v :: d) pre.length = pre ++ f v :: d := by
  unfold applyAt
  have h1 : (pp ++ some f :: ps)[pre.length]? = some (some f) := by
    rw [← h]; simp
  have h2 : (pre ++ v :: d)[pre.length]? = some v := by simp
  rw [h1, h2]
  simp

theorem pure_eq_compiled_aux {α : Type} :
    ∀ (ps : List (Slot α)) (pp : List (Slot α)) (pre d : List α),
      pp.length = pre.length → ps.length = d.length →
      (procValidFrom pre.length ps).foldl (applyAt (pp ++ ps)) (pre ++ d) = pre ++ applyCompiled ps d
  | [], pp, pre, d, _, hd => by
    have : d = [] := List.eq_nil_of_length_eq_zero hd.symm
    subst this; simp [procValidFrom, applyCompiled]
  | none :: ps, pp, pre, [], _, hd => by simp at hd
  | some _ :: ps, pp, pre, [], _, hd => by simp at hd
  | none :: ps, pp, pre, v :: d, hp, hd => by
    have ih := pure_eq_compiled_aux ps (pp ++ [none]) (pre ++ [v]) d (by simp [hp]) (by simpa using hd)
    simp only [List.length_append, List.length_cons, List.length_nil, List.append_assoc,
      List.cons_append, List.nil_append] at ih
    simp only [procValidFrom, applyCompiled]
    exact ih
  | some f :: ps, pp, pre, v :: d, hp, hd => by
    have ih := pure_eq_compiled_aux ps (pp ++ [some f]) (pre ++ [f v]) d (by simp [hp]) (by simpa using hd)
    simp only [List.length_append, List.length_cons, List.length_nil, List.append_assoc,
      List.cons_append, List.nil_append] at ih
    simp only [procValidFrom, applyCompiled, List.foldl_cons]
    rw [applyAt_hit pp ps f pre d v hp]
    exact ih

/-- **apply_processors_branches_agree** (engine/_result_cy.py): for every processors tuple (any
    functions, also ones that do not map NULL to NULL) and every raw row of the same width (any
    values, NULLs included) the pure-Python branch — copy the row, overwrite the positions in
    `proc_valid` — returns what the compiled branch — position by position — returns -/
theorem apply_processors_branches_agree {α : Type} (procs : List (Slot α)) (data : List α)
    (h : procs.length = data.length) :
    applyPure procs (procValid procs) data = applyCompiled procs data := by
  have := pure_eq_compiled_aux procs [] [] data rfl h
  simpa [applyPure, procValid] using this

/-- sensitivity: the pure branch with "NULLs pass through" inserted does NOT agree with the
    compiled branch (a processor supplying a default for NULL shows it) -/
theorem apply_processors_skip_null_counterexample :
    applyPureSkipNull [NProc.nz.slot] (procValid [NProc.nz.slot]) [none]
      ≠ applyCompiled [NProc.nz.slot] [none] := by decide

theorem applyAt_miss {α : Type} (pp ps : List (Slot α)) (pre d : List α) (v : α)
    (h : pp.length = pre.length) :
    applyAt (pp ++ none :: ps) (pre ++ v :: d) pre.length = pre ++ v :: d := by
  unfold applyAt
  have h1 : (pp ++ (none : Slot α) :: ps)[pre.length]? = some none := by
    rw [← h]; simp
  rw [h1]

theorem rowpure_eq_compiled_aux {α : Type} :
    ∀ (ps : List (Slot α)) (pp : List (Slot α)) (pre d : List α),
      pp.length = pre.length → ps.length = d.length →
      (List.range' pre.length ps.length).foldl (applyAt (pp ++ ps)) (pre ++ d) = pre ++ applyCompiled ps d
  | [], pp, pre, d, _, hd => by
    have : d = [] := List.eq_nil_of_length_eq_zero hd.symm
    subst this; simp [applyCompiled]
  | none :: ps, pp, pre, [], _, hd => by simp at hd
  | some _ :: ps, pp, pre, [], _, hd => by simp at hd
  | none :: ps, pp, pre, v :: d, hp, hd => by
    have ih := rowpure_eq_compiled_aux ps (pp ++ [none]) (pre ++ [v]) d (by simp [hp]) (by simpa using hd)
    simp only [List.length_append, List.length_cons, List.length_nil, List.append_assoc,
      List.cons_append, List.nil_append] at ih
    simp only [List.length_cons, List.range'_succ, applyCompiled, List.foldl_cons]
    rw [applyAt_miss pp ps pre d v hp]
    exact ih
  | some f :: ps, pp, pre, v :: d, hp, hd => by
    have ih := rowpure_eq_compiled_aux ps (pp ++ [some f]) (pre ++ [f v]) d (by simp [hp]) (by simpa using hd)
    simp only [List.length_append, List.length_cons, List.length_nil, List.append_assoc,
      List.cons_append, List.nil_append] at ih
    simp only [List.length_cons, List.range'_succ, applyCompiled, List.foldl_cons]
    rw [applyAt_hit pp ps f pre d v hp]
    exact ih

/-- the same for the pure branch of engine/_row_cy.py (`for i in range(proc_size): if p is not None`) -/
theorem row_apply_processors_branches_agree {α : Type} (procs : List (Slot α)) (data : List α)
    (h : procs.length = data.length) :
    applyRowPure procs data = applyCompiled procs data := by
  have := rowpure_eq_compiled_aux procs [] [] data rfl h
  simpa [applyRowPure, List.range_eq_range'] using this

/-- what both branches compute: the width is kept, a column with a processor holds
    `processor(raw value)` — whatever the raw value, NULL included — and the others the raw value -/
theorem apply_processors_compiled_spec {α : Type} : ∀ (procs : List (Slot α)) (data : List α),
    procs.length = data.length →
    (applyCompiled procs data).length = data.length ∧
    ∀ i (hi : i < data.length) (hp : i < procs.length) (ho : i < (applyCompiled procs data).length),
      (applyCompiled procs data)[i] = (match procs[i] with | some f => f data[i] | none => data[i])
  | [], [], _ => by simp [applyCompiled]
  | [], _ :: _, h => by simp at h
  | _ :: _, [], h => by simp at h
  | none :: ps, v :: vs, h => by
    have ih := apply_processors_compiled_spec ps vs (by simpa using h)
    refine ⟨by simp [applyCompiled, ih.1], ?_⟩
    intro i hi hp ho
    cases i with
    | zero => simp [applyCompiled]
    | succ j =>
      simp only [applyCompiled, List.getElem_cons_succ]
      exact ih.2 j (by simpa using hi) (by simpa using hp) (by simpa [applyCompiled] using ho)
  | some f :: ps, v :: vs, h => by
    have ih := apply_processors_compiled_spec ps vs (by simpa using h)
    refine ⟨by simp [applyCompiled, ih.1], ?_⟩
    intro i hi hp ho
    cases i with
    | zero => simp [applyCompiled]
    | succ j =>
      simp only [applyCompiled, List.getElem_cons_succ]
      exact ih.2 j (by simpa using hi) (by simpa using hp) (by simpa [applyCompiled] using ho)

/-- the row getter's result does not depend on the build -/
theorem apply_processors_both_agree {α : Type} (procs : List (Slot α)) (data a b : List α)
    (h : applyProcsBoth procs data = some (a, b)) : a = b ∧ a.length = data.length := by
  unfold applyProcsBoth at h
  by_cases hl : (procs.length != data.length) = true
  · rw [if_pos hl] at h; cases h
  · rw [if_neg hl] at h
    have hlen : procs.length = data.length := by simpa using hl
    cases h
    exact ⟨(apply_processors_branches_agree procs data hlen).symm,
      (apply_processors_compiled_spec procs data hlen).1⟩

example : applyCompiled [NProc.nz.slot, NProc.none.slot, NProc.neg.slot] [none, none, some 3]
    = [some 77, none, some (-3)] := by decide
example : applyPure [NProc.nz.slot, NProc.none.slot, NProc.neg.slot]
    (procValid [NProc.nz.slot, NProc.none.slot, NProc.neg.slot]) [none, none, some 3]
    = [some 77, none, some (-3)] := by decide
example : procValid [NProc.nz.slot, NProc.none.slot, NProc.neg.slot] = [0, 2] := by decide
example : applyProcsBoth [NProc.nz.slot] [none, some 1] = none := by decide
end ApplyProcsThms

end SaVerif.Props.C55
