import SaVerif.Model.CyUtil
import SaVerif.Props.C54
/-!
# C55 — Compiled and pure-Python implementations are interchangeable

Cython is not installed, so "the compiled build of the current source" cannot be produced.
What is established:

* `refine_trans` — two implementations that both agree with one model on a set of inputs agree
  with each other there (the shape of the argument: pure-Python source ≙ Lean model, checked by
  the C54/C55 correspondences; pre-built extension ≙ same model / same traces, checked whenever
  the extension is not stale);
* the utility-collection models of C54 (`SaVerif.Props.C54.*`) are the reference both builds
  are compared with;
* for the small helpers of engine/_util_cy.py and sql/_util_cy.py (M-CYUTIL) the optimisation
  that only one build could get wrong is proved unobservable: the slice fast path of
  `tuplegetter` returns exactly what `itemgetter(*indexes)` returns, and `anon_map` hands out
  stable, distinct, dense indexes.
-/
namespace SaVerif.Props.C55
open SaVerif.CyUtil

/-- both builds refine one model ⇒ they are interchangeable on the compared inputs -/
theorem refine_trans {α β : Type} (py so model : α → β) (S : α → Prop)
    (h1 : ∀ x, S x → py x = model x) (h2 : ∀ x, S x → so x = model x) :
    ∀ x, S x → py x = so x := fun x hx => (h1 x hx).trans (h2 x hx).symm

/-! ## tuplegetter: the slice fast path is unobservable -/

theorem contiguous_mapM (row : List Nat) : ∀ (rest : List Nat) (i0 : Nat),
    isContiguous (i0 :: rest) = true → (∀ i ∈ i0 :: rest, i < row.length) →
    (i0 :: rest).mapM (fun i => row[i]?) = some ((row.drop i0).take (rest.length + 1)) ∧
    (i0 :: rest).getLastD 0 = i0 + rest.length := by
  intro rest
  induction rest with
  | nil =>
    intro i0 _ hv
    have h0 : i0 < row.length := hv i0 (by simp)
    refine ⟨?_, by simp⟩
    simp only [List.mapM_cons, List.mapM_nil, List.getElem?_eq_getElem h0]
    rw [List.drop_eq_getElem_cons h0]
    simp only [Option.pure_def, Option.bind_eq_bind, Option.bind_some, List.take_succ_cons]
    simp
  | cons b rest ih =>
    intro i0 hc hv
    simp only [isContiguous, Bool.and_eq_true, beq_iff_eq] at hc
    obtain ⟨hb, hc'⟩ := hc
    have h0 : i0 < row.length := hv i0 (by simp)
    obtain ⟨h1, h2⟩ := ih b hc' (fun i hi => hv i (by simp [hi]))
    constructor
    · rw [List.mapM_cons, h1, List.getElem?_eq_getElem h0]
      simp only [Option.pure_def, Option.bind_eq_bind, Option.bind_some]
      rw [List.drop_eq_getElem_cons h0, ← hb]
      simp only [List.take_succ_cons]
      simp
    · have : (i0 :: b :: rest).getLastD 0 = (b :: rest).getLastD 0 := by
        simp [List.getLastD]
      rw [this, h2]
      simp only [List.length_cons]
      omega

/-- **tuplegetter_eq_itemgetter**: for valid indexes `tuplegetter(*idx)(row)` is
    `tuple(row[i] for i in idx)` whether or not the contiguous-slice fast path is taken -/
theorem tuplegetter_eq_itemgetter (idx row : List Nat) (hne : idx ≠ [])
    (hv : ∀ i ∈ idx, i < row.length) :
    tupleGetter idx row = idx.mapM (fun i => row[i]?) := by
  cases idx with
  | nil => exact absurd rfl hne
  | cons i0 rest =>
    unfold tupleGetter
    simp only
    by_cases hc : ((i0 :: rest).length == 1 || isContiguous (i0 :: rest)) = true
    · rw [if_pos hc]
      have hcont : isContiguous (i0 :: rest) = true := by
        rcases (Bool.or_eq_true_iff).1 hc with h | h
        · have : rest = [] := by
            cases rest with
            | nil => rfl
            | cons a t => simp at h
          subst this; rfl
        · exact h
      obtain ⟨h1, h2⟩ := contiguous_mapM row rest i0 hcont hv
      rw [h1, h2]
      congr 2
      omega
    · rw [if_neg hc]

/-! ## anon_map: stable, distinct, dense indexes -/

theorem anon_get_nodup {m : AnonMap} (h : m.Nodup) (k : Nat) : (m.get k).1.Nodup := by
  unfold AnonMap.get
  split
  · exact h
  · rename_i hk
    have hk' : k ∉ m := fun hm => hk (List.contains_iff_mem.2 hm)
    rw [List.nodup_append]
    refine ⟨h, by simp, ?_⟩
    intro a ha b hb hab
    simp only [List.mem_singleton] at hb
    subst hb; subst hab; exact hk' ha

/-- the index returned is the key's position, and it is the value every later lookup gives -/
theorem anon_map_index_stable (m : AnonMap) (k k' : Nat) (hk : k ∈ m) :
    (m.get k).2.1 = m.idxOf k ∧ (m.get k).2.2 = true ∧ ((m.get k').1).idxOf k = m.idxOf k := by
  refine ⟨?_, ?_, ?_⟩
  · unfold AnonMap.get; rw [if_pos (List.contains_iff_mem.2 hk)]
  · unfold AnonMap.get; rw [if_pos (List.contains_iff_mem.2 hk)]
  · unfold AnonMap.get
    split
    · rfl
    · simp only
      rw [List.idxOf_append, if_pos hk]

/-- a new key gets the next dense index `len(map)` and the flag `False` -/
theorem anon_map_new_key (m : AnonMap) (k : Nat) (hk : k ∉ m) :
    (m.get k).2.1 = m.length ∧ (m.get k).2.2 = false ∧ ((m.get k).1).idxOf k = m.length := by
  have hc : m.contains k = false := by simpa using hk
  unfold AnonMap.get
  rw [hc]
  simp only [Bool.false_eq_true, if_false, true_and]
  rw [List.idxOf_append, if_neg hk]
  simp

theorem anon_final_nodup (ks : List Nat) : ∀ m : AnonMap, m.Nodup → (AnonMap.final m ks).Nodup := by
  induction ks with
  | nil => intro m h; exact h
  | cons k ks ih => intro m h; exact ih _ (anon_get_nodup h k)

/-- distinct stored keys always have distinct indexes, after any lookup history -/
theorem anon_map_injective (ks : List Nat) (a b : Nat)
    (ha : a ∈ AnonMap.final [] ks) (hb : b ∈ AnonMap.final [] ks)
    (h : (AnonMap.final [] ks).idxOf a = (AnonMap.final [] ks).idxOf b) : a = b := by
  have h1 := List.getElem_idxOf (List.idxOf_lt_length_of_mem ha)
  have h2 := List.getElem_idxOf (List.idxOf_lt_length_of_mem hb)
  rw [← h1, ← h2]
  simp only [h]

example : tupleGetter [1, 2, 3] [5, 6, 7, 8, 9] = some [6, 7, 8] := by decide
example : tupleGetter [3, 1] [5, 6, 7, 8, 9] = some [8, 6] := by decide
example : AnonMap.run [] [6, 3, 6, 3, 0] = [(0, false), (1, false), (0, true), (1, true), (2, false)] := by
  decide
example : PrefixMap.run PrefixMap.empty [(1, 0), (2, 0), (1, 0), (3, 1)] = [(0, 1), (0, 2), (0, 1), (1, 1)] := by
  decide

end SaVerif.Props.C55
