import SaVerif.Model.Scoped
/-!
# C52 — scoped_session gives each scope its own session

Theorems about the LTS `SaVerif/Model/Scoped.lean` (transcription of
`ScopedRegistry.__call__/has/clear` and `scoped_session.__call__/remove`): any number of
threads, any assignment of threads to scopes (several threads may share a scope), every
interleaving of the atomic steps (lookup / KeyError / createfunc / setdefault / has /
close / clear).
-/
namespace SaVerif.Props.C52
open SaVerif.Scoped

def ownerOf (s : Shared) (x : Sess) : Option Key := s.owner[x]?

/-- every session that is registered, in the hands of a thread, or was returned to a
    caller belongs to the scope it is associated with -/
structure Inv (scope : List Key) (s : State) : Prop where
  reg : ∀ (k : Key) (x : Sess), regAt s.toShared k = some x → ownerOf s.toShared x = some k
  pcs : ∀ (t : Nat) (k : Key) (x : Sess), scope[t]? = some k →
      (s.pcs[t]? = some (Pc.r2 x) ∨ (∃ rm, s.pcs[t]? = some (Pc.c3 rm x))) → ownerOf s.toShared x = some k
  got : ∀ (t : Nat) (k : Key) (x : Sess), scope[t]? = some k → (t, x) ∈ s.got → ownerOf s.toShared x = some k

theorem step_eq {scope : List Key} {s s' : State} {t : Nat} {l : Label}
    (hs : step scope s t l = some s') :
    ∃ old k new sh r, s.pcs[t]? = some old ∧ scope[t]? = some k ∧
      Scoped.trans s.toShared k old l = some (new, sh, r) ∧
      s' = { toShared := sh, pcs := s.pcs.set t new,
             got := match r with
               | some x => (t, x) :: s.got
               | none => s.got } := by
  unfold step at hs
  split at hs
  · rename_i pc k hpc hk
    split at hs
    · rename_i pc' sh r htr
      cases hs
      exact ⟨pc, k, pc', sh, r, hpc, hk, htr, rfl⟩
    · cases hs
  · cases hs

theorem regAt_set (s : Shared) (k k' : Key) (v : Option Sess) :
    regAt { s with reg := s.reg.set k v } k' = if k = k' ∧ k < s.reg.length then v else regAt s k' := by
  unfold regAt
  by_cases h : k = k'
  · subst h
    by_cases h2 : k < s.reg.length
    · simp [h2]
    · simp [h2]
  · simp [h, List.getD_eq_getElem?_getD, List.getElem?_set_ne h]

theorem lt_length_of_getElem? {α} {l : List α} {t : Nat} {a : α} (h : l[t]? = some a) : t < l.length := by
  rcases Nat.lt_or_ge t l.length with h1 | h1
  · exact h1
  · rw [List.getElem?_eq_none h1] at h; cases h

theorem owner_mono {o : List Key} {x : Sess} {k k' : Key} (h : o[x]? = some k) :
    (o ++ [k'])[x]? = some k := by
  rw [List.getElem?_append_left (lt_length_of_getElem? h)]; exact h

/-- what one transition does, field by field -/
structure Effect (s sh : Shared) (k : Key) (old new : Pc) (r : Option Sess) : Prop where
  owner : sh.owner = s.owner ∨ (sh.owner = s.owner ++ [k] ∧ ∃ rm, new = Pc.c3 rm s.owner.length)
  regOther : ∀ k', k' ≠ k → regAt sh k' = regAt s k'
  regSelf : regAt sh k = regAt s k ∨ regAt sh k = none ∨
            (∃ rm x, old = Pc.c3 rm x ∧ regAt sh k = some x)
  newPc : ∀ x, (new = Pc.r2 x ∨ ∃ rm, new = Pc.c3 rm x) →
      (old = Pc.r2 x ∨ (∃ rm, old = Pc.c3 rm x)) ∨ regAt s k = some x ∨
      (x = s.owner.length ∧ sh.owner = s.owner ++ [k])
  ret : ∀ x, r = some x → regAt sh k = some x
  closed : sh.closed = s.closed ∨ ∃ x, old = Pc.r2 x ∧ sh.closed = x :: s.closed

theorem trans_effect {s sh : Shared} {k : Key} {old new : Pc} {l : Label} {r : Option Sess}
    (h : Scoped.trans s k old l = some (new, sh, r)) : Effect s sh k old new r := by
  cases old <;> cases l <;> simp [Scoped.trans] at h
  case idle.call =>
    obtain ⟨rfl, rfl, rfl⟩ := h
    exact ⟨Or.inl rfl, fun _ _ => rfl, Or.inl rfl, by simp, by simp, Or.inl rfl⟩
  case idle.rm =>
    obtain ⟨rfl, rfl, rfl⟩ := h
    exact ⟨Or.inl rfl, fun _ _ => rfl, Or.inl rfl, by simp, by simp, Or.inl rfl⟩
  case r1.call =>
    obtain ⟨rfl, rfl, rfl⟩ := h
    exact ⟨Or.inl rfl, fun _ _ => rfl, Or.inl rfl, by simp, by simp, Or.inl rfl⟩
  case c1.miss =>
    obtain ⟨_, rfl, rfl, rfl⟩ := h
    exact ⟨Or.inl rfl, fun _ _ => rfl, Or.inl rfl, by simp, by simp, Or.inl rfl⟩
  case r0.has =>
    obtain ⟨_, rfl, rfl, rfl⟩ := h
    refine ⟨Or.inl rfl, fun _ _ => rfl, Or.inl rfl, ?_, by simp, Or.inl rfl⟩
    intro x hx; split at hx <;> simp at hx
  case c1.ret rm x =>
    obtain ⟨hreg, rfl, rfl, rfl⟩ := h
    refine ⟨Or.inl rfl, fun _ _ => rfl, Or.inl rfl, ?_, ?_, Or.inl rfl⟩
    · intro y hy
      unfold after at hy
      split at hy
      · simp at hy; subst hy; exact Or.inr (Or.inl hreg)
      · simp at hy
    · intro y hy
      split at hy
      · cases hy
      · cases hy; exact hreg
  case c2.create rm x =>
    obtain ⟨rfl, rfl, rfl, rfl⟩ := h
    refine ⟨Or.inr ⟨rfl, rm, rfl⟩, fun _ _ => rfl, Or.inl rfl, ?_, by simp, Or.inl rfl⟩
    intro y hy
    simp at hy
    exact Or.inr (Or.inr ⟨hy.symm, rfl⟩)
  case r2.close x y =>
    obtain ⟨rfl, rfl, rfl, rfl⟩ := h
    exact ⟨Or.inl rfl, fun _ _ => rfl, Or.inl rfl, by simp, by simp, Or.inr ⟨_, rfl, rfl⟩⟩
  case r3.clear =>
    obtain ⟨rfl, rfl, rfl⟩ := h
    refine ⟨Or.inl rfl, ?_, ?_, by simp, by simp, Or.inl rfl⟩
    · intro k' hk; rw [regAt_set]; simp [Ne.symm hk]
    · rw [regAt_set]
      by_cases hlt : k < s.reg.length
      · exact Or.inr (Or.inl (by simp [hlt]))
      · exact Or.inl (by simp [hlt])
  case c3.ret rm x y =>
    split at h
    · rename_i hnone
      simp at h
      obtain ⟨⟨rfl, hlt⟩, rfl, rfl, rfl⟩ := h
      refine ⟨Or.inl rfl, ?_, ?_, ?_, ?_, Or.inl rfl⟩
      · intro k' hk; rw [regAt_set]; simp [Ne.symm hk]
      · exact Or.inr (Or.inr ⟨rm, y, rfl, by rw [regAt_set]; simp [hlt]⟩)
      · intro z hz
        unfold after at hz
        split at hz
        · simp at hz; subst hz; exact Or.inl (Or.inr ⟨rm, rfl⟩)
        · simp at hz
      · intro z hz
        rw [regAt_set]; simp [hlt]
        split at hz
        · cases hz
        · cases hz; rfl
    · rename_i z hsome
      simp at h
      obtain ⟨rfl, rfl, rfl, rfl⟩ := h
      refine ⟨Or.inl rfl, fun _ _ => rfl, Or.inl rfl, ?_, ?_, Or.inl rfl⟩
      · intro w hw
        unfold after at hw
        split at hw
        · simp at hw; subst hw; exact Or.inr (Or.inl hsome)
        · simp at hw
      · intro w hw
        split at hw
        · cases hw
        · cases hw; exact hsome

theorem ownerOf_mono {s sh : Shared} {k : Key} {old new : Pc} {r : Option Sess}
    (e : Effect s sh k old new r) {x : Sess} {k0 : Key} (h : ownerOf s x = some k0) :
    ownerOf sh x = some k0 := by
  unfold ownerOf at *
  rcases e.owner with h1 | ⟨h1, _⟩
  · rw [h1]; exact h
  · rw [h1]; exact owner_mono h

theorem inv_init (scope : List Key) (nKeys : Nat) : Inv scope (init nKeys scope.length) := by
  refine ⟨?_, ?_, ?_⟩
  · intro k x h
    simp [init, regAt, List.getD_eq_getElem?_getD, List.getElem?_replicate] at h
    split at h <;> simp at h
  · intro t k x _ h
    rcases h with h | ⟨rm, h⟩ <;>
    · simp only [init] at h
      rw [List.getElem?_replicate] at h
      split at h <;> cases h
  · intro t k x _ h; simp [init] at h

theorem inv_step (scope : List Key) (s s' : State) (t : Nat) (l : Label) (h : Inv scope s)
    (hs : step scope s t l = some s') : Inv scope s' := by
  obtain ⟨old, k, new, sh, r, hold, hk, htr, rfl⟩ := step_eq hs
  have e := trans_effect htr
  have hlt := lt_length_of_getElem? hold
  -- the session the stepping thread holds in its pc belongs to its scope
  have hpcOld : ∀ x, (old = Pc.r2 x ∨ ∃ rm, old = Pc.c3 rm x) → ownerOf s.toShared x = some k := by
    intro x hx
    apply h.pcs t k x hk
    rcases hx with hx | ⟨rm, hx⟩
    · left; rw [hold, hx]
    · right; exact ⟨rm, by rw [hold, hx]⟩
  have hnew : ∀ x, (new = Pc.r2 x ∨ ∃ rm, new = Pc.c3 rm x) → ownerOf sh x = some k := by
    intro x hx
    rcases e.newPc x hx with h1 | h1 | ⟨h1, h2⟩
    · exact ownerOf_mono e (hpcOld x h1)
    · exact ownerOf_mono e (h.reg k x h1)
    · subst h1; unfold ownerOf; rw [h2]; simp
  refine ⟨?_, ?_, ?_⟩
  · intro k' x hx
    simp only at hx ⊢
    by_cases hkk : k' = k
    · subst hkk
      rcases e.regSelf with h1 | h1 | ⟨rm, y, h1, h2⟩
      · rw [h1] at hx; exact ownerOf_mono e (h.reg k' x hx)
      · rw [h1] at hx; cases hx
      · rw [h2] at hx; cases hx
        exact ownerOf_mono e (hpcOld x (Or.inr ⟨rm, h1⟩))
    · rw [e.regOther k' hkk] at hx
      exact ownerOf_mono e (h.reg k' x hx)
  · intro u ku x hku hx
    simp only at hx ⊢
    by_cases hu : u = t
    · subst hu
      rw [hk] at hku; cases hku
      rw [List.getElem?_set_self hlt] at hx
      apply hnew x
      rcases hx with hx | ⟨rm, hx⟩
      · left; cases hx; rfl
      · right; exact ⟨rm, by cases hx; rfl⟩
    · rw [List.getElem?_set_ne (Ne.symm hu)] at hx
      exact ownerOf_mono e (h.pcs u ku x hku hx)
  · intro u ku x hku hx
    simp only at hx ⊢
    have hold' : (u, x) ∈ s.got → ownerOf sh x = some ku := fun hm => ownerOf_mono e (h.got u ku x hku hm)
    cases r with
    | none => exact hold' hx
    | some y =>
      simp only [List.mem_cons] at hx
      rcases hx with hx | hx
      · cases hx
        rw [hk] at hku; cases hku
        exact (by
          have hreg := e.ret x rfl
          -- the value returned is the one registered for the scope afterwards
          rcases e.regSelf with h1 | h1 | ⟨rm, y, h1, h2⟩
          · rw [h1] at hreg; exact ownerOf_mono e (h.reg k x hreg)
          · rw [h1] at hreg; cases hreg
          · rw [h2] at hreg; cases hreg
            exact ownerOf_mono e (hpcOld x (Or.inr ⟨rm, h1⟩)))
      · exact hold' hx

theorem inv_reach (scope : List Key) (nKeys : Nat) (s : State) (hr : Reach scope nKeys s) :
    Inv scope s := by
  induction hr with
  | init => exact inv_init scope nKeys
  | step _ hs ih => exact inv_step scope _ _ _ _ ih hs

/-! ## the property -/

/-- **different_scope_different_session**: a session handed to a caller in one scope is
    never handed to a caller in another scope — at any time, under any interleaving,
    whatever `remove()` calls happen in between. -/
theorem different_scope_different_session (scope : List Key) (nKeys : Nat) (s : State)
    (hr : Reach scope nKeys s) (t u : Nat) (kt ku : Key) (x : Sess)
    (ht : scope[t]? = some kt) (hu : scope[u]? = some ku)
    (h1 : (t, x) ∈ s.got) (h2 : (u, x) ∈ s.got) : kt = ku := by
  have h := inv_reach scope nKeys s hr
  have a := h.got t kt x ht h1
  have b := h.got u ku x hu h2
  rw [a] at b; cases b; rfl

/-- what `scoped_session()` returns is what the registry holds for the scope right
    after the call -/
theorem returned_is_registered (scope : List Key) (s s' : State) (t : Nat) (l : Label) (k : Key)
    (hk : scope[t]? = some k) (hs : step scope s t l = some s') (x : Sess)
    (hret : s'.got = (t, x) :: s.got) : regAt s'.toShared k = some x := by
  obtain ⟨old, k', new, sh, r, hold', hk', htr, rfl⟩ := step_eq hs
  rw [hk] at hk'; cases hk'
  have e := trans_effect htr
  cases r with
  | none =>
    simp only at hret
    have := congrArg List.length hret
    simp at this
  | some y =>
    simp only [List.cons.injEq, Prod.mk.injEq] at hret
    obtain ⟨⟨_, rfl⟩, _⟩ := hret
    exact e.ret y rfl

/-- **same_scope_same_session** (stability half): the session registered for a scope
    stays registered under every step of every thread except the `clear` of a
    `remove()` executed in that very scope; together with `returned_is_registered`:
    two calls in one scope with no `remove()` of that scope in between return the same
    Session, whichever threads make them. -/
theorem registered_stable (scope : List Key) (s s' : State) (t : Nat) (l : Label) (k : Key) (x : Sess)
    (hs : step scope s t l = some s') (hreg : regAt s.toShared k = some x)
    (hnot : ¬ (l = Label.clear ∧ scope[t]? = some k)) : regAt s'.toShared k = some x := by
  obtain ⟨old, k', new, sh, r, hold', hk', htr, rfl⟩ := step_eq hs
  have e := trans_effect htr
  by_cases hkk : k = k'
  · subst hkk
    simp only
    cases old <;> cases l <;> simp [Scoped.trans] at htr
    case idle.call => obtain ⟨_, rfl, _⟩ := htr; exact hreg
    case idle.rm => obtain ⟨_, rfl, _⟩ := htr; exact hreg
    case r1.call => obtain ⟨_, rfl, _⟩ := htr; exact hreg
    case c1.miss => obtain ⟨_, _, rfl, _⟩ := htr; exact hreg
    case r0.has => obtain ⟨_, _, rfl, _⟩ := htr; exact hreg
    case c1.ret => obtain ⟨_, _, rfl, _⟩ := htr; exact hreg
    case c2.create => obtain ⟨_, _, rfl, _⟩ := htr; exact hreg
    case r2.close => obtain ⟨_, _, rfl, _⟩ := htr; exact hreg
    case r3.clear => exact absurd ⟨rfl, hk'⟩ hnot
    case c3.ret =>
      rw [hreg] at htr
      simp at htr
      obtain ⟨_, _, rfl, _⟩ := htr; exact hreg
  · simp only
    rw [e.regOther k hkk]; exact hreg

/-- **remove_only_current**: no step of a thread whose scope is `k` — in particular
    none of the steps of its `remove()` — changes what is registered for another scope,
    and the only session it can close belongs to scope `k`. -/
theorem remove_only_current (scope : List Key) (nKeys : Nat) (s s' : State)
    (hr : Reach scope nKeys s) (t : Nat) (l : Label) (k : Key)
    (hk : scope[t]? = some k) (hs : step scope s t l = some s') :
    (∀ k', k' ≠ k → regAt s'.toShared k' = regAt s.toShared k') ∧
    (∀ x, x ∈ s'.closed → x ∉ s.closed → ownerOf s'.toShared x = some k) := by
  have hinv := inv_reach scope nKeys s hr
  obtain ⟨old, k', new, sh, r, hold', hk', htr, rfl⟩ := step_eq hs
  rw [hk] at hk'; cases hk'
  have e := trans_effect htr
  refine ⟨e.regOther, ?_⟩
  intro x hx hnx
  simp only at hx ⊢
  rcases e.closed with h1 | ⟨y, h1, h2⟩
  · rw [h1] at hx; exact absurd hx hnx
  · rw [h2] at hx
    simp only [List.mem_cons] at hx
    rcases hx with rfl | hx
    · exact ownerOf_mono e (hinv.pcs t k x hk (Or.inl (by rw [hold', h1])))
    · exact absurd hx hnx

/-- a session registered for a scope was created by a thread of that scope -/
theorem registered_owned (scope : List Key) (nKeys : Nat) (s : State) (hr : Reach scope nKeys s)
    (k : Key) (x : Sess) (h : regAt s.toShared k = some x) : ownerOf s.toShared x = some k :=
  (inv_reach scope nKeys s hr).reg k x h

/-- two scopes never have the same session registered at the same time -/
theorem registry_injective (scope : List Key) (nKeys : Nat) (s : State) (hr : Reach scope nKeys s)
    (k k' : Key) (x : Sess) (h1 : regAt s.toShared k = some x) (h2 : regAt s.toShared k' = some x) :
    k = k' := by
  have a := registered_owned scope nKeys s hr k x h1
  have b := registered_owned scope nKeys s hr k' x h2
  rw [a] at b; cases b; rfl

/-! ## non-vacuity: threads 0 and 1 share scope 0, thread 2 has scope 1 -/

def exScope : List Key := [0, 0, 1]

/-- both threads of scope 0 miss, both create, the first setdefault wins and both get
    session 0; thread 2 gets its own session 2 -/
def exTrace : List (Nat × Label) :=
  [(0, .call), (1, .call), (0, .miss), (1, .miss), (0, .create 0), (1, .create 1),
   (2, .call), (2, .miss), (2, .create 2), (0, .ret 0), (1, .ret 0), (2, .ret 2)]

example : (run exScope (init 2 3) exTrace 0).toOption.map (fun s => (s.reg, s.got, s.owner))
    = some ([some 0, some 2], [(2, 2), (1, 0), (0, 0)], [0, 0, 1]) := by decide

/-- remove() in scope 0 while thread 2 keeps its session; the next call in scope 0
    creates a new one -/
example : (run exScope (init 2 3)
    (exTrace ++ [(0, .rm), (0, .has true), (0, .call), (0, .ret 0), (0, .close 0), (0, .clear),
                 (1, .call), (1, .miss), (1, .create 3), (1, .ret 3)]) 0).toOption.map
      (fun s => (s.reg, s.closed, s.got.head?)) = some ([some 3, some 2], [0], some (1, 3)) := by decide

/-- the LTS rejects a call that returns another scope's session -/
example : (run exScope (init 2 3) (exTrace ++ [(2, .call), (2, .ret 0)]) 0).toOption = none := by decide

end SaVerif.Props.C52
