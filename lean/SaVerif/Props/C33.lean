import SaVerif.Model.SessTxn
/-!
# C33 — Session commit/rollback/savepoint keep the session consistent with the database

Theorems about M-SESS (`SaVerif/Model/Sess.lean`, transcription of the SessionTransaction
snapshot machinery of `lib/sqlalchemy/orm/session.py`).

Full statement (NOT proved; see the partial results and the counterexamples below):
  for every history of add / modify / pk-switch / delete / flush / load / begin_nested /
  commit / rollback in which scopes are ended innermost-first, after every step the session
  is `coherent` (definition below: every persistent object's identity key names a row of
  the session's connection, loaded non-dirty values equal that row, flushed-deleted objects
  have no row, identity keys are unique).
What is proved: the ROWS side for every history (`session_rows_invariant`,
`session_end_states`: stack always well formed, no transaction ⇒ rows = committed rows,
out-of-order handle operations included); for ALL states, what a root rollback / a savepoint
rollback do to rows, transaction stack and loaded values; and that the OBJECT side is
FALSE without the innermost-first restriction (F20), with a repeated key switch across a
released savepoint (F21) and for added+key-switched objects (F23).  The unrestricted part is
carried by the differential correspondence and the oracle of `harness/props/c33.py`.
-/
namespace SaVerif.Props.C33
open SaVerif.SessTxn

/-- the consistency predicate of the property (decidable: used in evaluated examples and as
    the formal counterpart of the harness oracle) -/
def coherent (s : Sess) : Bool :=
  s.imap.all (fun o =>
    let x := s.obj o
    match x.key with
    | some k =>
      x.attached && !x.delFlag &&
      (match s.rows.get k with
       | some rv => (x.modV || !x.vL || x.v == rv) && (x.modPk || !x.idL || x.pk == k)
       | none => false) &&
      s.imap.all (fun o' => o' == o || (s.obj o').key != some k)
    | none => false)
  && (List.range s.objs.length).all (fun o =>
    let x := s.obj o
    !(x.attached && x.delFlag) || (match x.key with | some k => (s.rows.get k).isNone | none => true))

/-! ## lemmas about the per-object loops -/

theorem setObj_obj_ne (s : Sess) (o o' : Nat) (f : Obj → Obj) (h : o ≠ o') :
    (s.setObj o f).obj o' = s.obj o' := by
  simp [Sess.obj, Sess.setObj, List.getD_eq_getElem?_getD, List.getElem?_modify_ne _ _ h]

theorem setObj_obj_eq (s : Sess) (o : Nat) (f : Obj → Obj) (h : o < s.objs.length) :
    (s.setObj o f).obj o = f (s.obj o) := by
  simp [Sess.obj, Sess.setObj, List.getD_eq_getElem?_getD, List.getElem?_eq_getElem h]

def Expired (x : Obj) : Prop := x.idL = false ∧ x.vL = false ∧ x.modPk = false ∧ x.modV = false

theorem expire_expired (x : Obj) : Expired x.expire := ⟨rfl, rfl, rfl, rfl⟩

theorem expire_idem (x : Obj) (h : Expired x) : x.expire = x := by
  obtain ⟨a, b, c, d⟩ := h
  cases x; simp_all [Obj.expire]

theorem default_expired : Expired (default : Obj) := ⟨rfl, rfl, rfl, rfl⟩

theorem setObj_expire_obj (s : Sess) (a o : Nat) (h : Expired (s.obj o) ∨ a = o) :
    Expired ((s.setObj a Obj.expire).obj o) := by
  by_cases e : a = o
  · subst e
    by_cases ha : a < s.objs.length
    · rw [setObj_obj_eq _ _ _ ha]; exact expire_expired _
    · have : (s.setObj a Obj.expire).obj a = default := by
        have : s.objs[a]? = none := by simp; omega
        simp [Sess.obj, Sess.setObj, List.getD_eq_getElem?_getD, this]
      rw [this]; exact default_expired
  · rw [setObj_obj_ne _ _ _ _ e]
    rcases h with h | h
    · exact h
    · exact absurd h e

/-- the transaction stack up to the per-transaction bookkeeping sets -/
def shape (s : Sess) : List (Nat × Bool × Rows) := s.txns.map (fun t => (t.h, t.nested, t.saveRows))

/-- a helper changed neither rows nor the shape of the transaction stack -/
structure Frame (s s' : Sess) : Prop where
  rows : s'.rows = s.rows
  committed : s'.committed = s.committed
  shape : shape s' = shape s
  eoc : s'.eoc = s.eoc
  ended : s'.ended = s.ended

theorem Frame.refl (s : Sess) : Frame s s := ⟨rfl, rfl, rfl, rfl, rfl⟩
theorem Frame.trans {a b c : Sess} (h1 : Frame a b) (h2 : Frame b c) : Frame a c :=
  ⟨h2.rows.trans h1.rows, h2.committed.trans h1.committed, h2.shape.trans h1.shape,
   h2.eoc.trans h1.eoc, h2.ended.trans h1.ended⟩

theorem frame_setObj (s : Sess) (o : Nat) (f : Obj → Obj) : Frame s (s.setObj o f) :=
  ⟨rfl, rfl, rfl, rfl, rfl⟩

theorem frame_modTop (s : Sess) (f : STx → STx)
    (hf : ∀ t, (f t).h = t.h ∧ (f t).nested = t.nested ∧ (f t).saveRows = t.saveRows) :
    Frame s (s.modTop f) := by
  unfold Sess.modTop
  cases ht : s.txns with
  | nil => simp only []; exact ⟨rfl, rfl, rfl, rfl, rfl⟩
  | cons t rest =>
    simp only []
    refine ⟨rfl, rfl, ?_, rfl, rfl⟩
    simp [shape, ht, hf t]

theorem frame_expunge (s : Sess) (o : Nat) : Frame s (s.expunge o) := by
  unfold Sess.expunge
  refine Frame.trans ?_ (frame_setObj _ o _)
  split
  · exact ⟨rfl, rfl, rfl, rfl, rfl⟩
  · split
    · exact ⟨rfl, rfl, rfl, rfl, rfl⟩
    · exact frame_modTop s _ (fun t => ⟨rfl, rfl, rfl⟩)

theorem frame_expungeAll : ∀ (l : List Nat) (s : Sess), Frame s (expungeAll l s) := by
  intro l
  induction l with
  | nil => intro s; exact Frame.refl s
  | cons o os ih => intro s; exact (frame_expunge s o).trans (ih _)

theorem frame_restoreKeys (x : List Nat) : ∀ (l : List (Nat × (Nat × Nat))) (s : Sess),
    Frame s (restoreKeys x l s) := by
  intro l
  induction l with
  | nil => intro s; exact Frame.refl s
  | cons e es ih =>
    intro s
    obtain ⟨o, old, nw⟩ := e
    simp only [restoreKeys]
    refine Frame.trans ?_ (ih _)
    split <;> exact ⟨rfl, rfl, rfl, rfl, rfl⟩

theorem frame_revertDeletion (s : Sess) (o : Nat) : Frame s (s.revertDeletion o) := by
  unfold Sess.revertDeletion
  simp only []
  split
  · exact Frame.refl s
  · split
    · exact Frame.refl s
    · exact ⟨rfl, rfl, rfl, rfl, rfl⟩

theorem frame_revertAll : ∀ (l : List Nat) (s : Sess), Frame s (revertAll l s) := by
  intro l
  induction l with
  | nil => intro s; exact Frame.refl s
  | cons o os ih => intro s; exact (frame_revertDeletion s o).trans (ih _)

theorem frame_expireWhere (p : Nat → Obj → Bool) : ∀ (l : List Nat) (s : Sess),
    Frame s (expireWhere p l s) := by
  intro l
  induction l with
  | nil => intro s; exact Frame.refl s
  | cons o os ih =>
    intro s
    simp only [expireWhere]
    refine Frame.trans ?_ (ih _)
    split
    · exact frame_setObj _ _ _
    · exact Frame.refl s

theorem frame_restoreSnapshot (s : Sess) (t : STx) (d : Bool) : Frame s (s.restoreSnapshot t d) := by
  unfold Sess.restoreSnapshot
  exact (((frame_expungeAll _ s).trans (frame_restoreKeys _ _ _)).trans (frame_revertAll _ _)).trans
    (frame_expireWhere _ _ _)

/-- `expireWhere` with an always-true condition expires every listed object and keeps the
    identity map and the pending list -/
theorem expireAll_spec : ∀ (l : List Nat) (s : Sess),
    (expireWhere (fun _ _ => true) l s).imap = s.imap ∧
    (expireWhere (fun _ _ => true) l s).new = s.new ∧
    (∀ o ∈ l, Expired ((expireWhere (fun _ _ => true) l s).obj o)) ∧
    (∀ o, Expired (s.obj o) → Expired ((expireWhere (fun _ _ => true) l s).obj o)) := by
  intro l
  induction l with
  | nil =>
    intro s
    refine ⟨rfl, rfl, ?_, ?_⟩
    · intro o h; cases h
    · intro o h; exact h
  | cons a l ih =>
    intro s
    simp only [expireWhere, if_true]
    obtain ⟨i1, i2, i3, i4⟩ := ih (s.setObj a Obj.expire)
    refine ⟨i1, i2, ?_, fun o he => i4 o (setObj_expire_obj s a o (Or.inl he))⟩
    intro o ho
    rcases List.mem_cons.1 ho with rfl | ho
    · exact i4 _ (setObj_expire_obj s _ _ (Or.inr rfl))
    · exact i3 o ho

/-! ## what the scope-ending functions do, for every state -/

theorem shape_cons {s : Sess} {t : STx} {rest : List STx} (ht : s.txns = t :: rest) :
    shape s = (t.h, t.nested, t.saveRows) :: rest.map (fun t => (t.h, t.nested, t.saveRows)) := by
  simp [shape, ht]

theorem rollbackTop_cons {s : Sess} {t : STx} {rest : List STx} (ht : s.txns = t :: rest) :
    s.rollbackTop =
      (({ s with rows := if t.nested then t.saveRows else s.committed } : Sess).restoreSnapshot
        t t.nested).popTx := by
  unfold Sess.rollbackTop
  split
  · rename_i t' r' h
    rw [ht] at h
    cases h
    rfl
  · rename_i h
    rw [ht] at h
    cases h

/-- popping a transaction off a stack of known shape -/
theorem popTx_shape {s : Sess} {x : Nat × Bool × Rows} {xs : List (Nat × Bool × Rows)}
    (h : shape s = x :: xs) :
    shape s.popTx = xs ∧ s.popTx.ended = s.ended ++ [x.1] ∧ s.popTx.rows = s.rows ∧
    s.popTx.committed = s.committed ∧ s.popTx.imap = s.imap ∧ s.popTx.objs = s.objs ∧
    s.popTx.new = s.new := by
  unfold Sess.popTx
  cases htx : s.txns with
  | nil => simp [shape, htx] at h
  | cons t' rest' =>
    simp only [shape, htx, List.map_cons, List.cons.injEq] at h
    refine ⟨?_, ?_, rfl, rfl, rfl, rfl, rfl⟩
    · simp [shape, h.2]
    · simp [← h.1]

/-- **nested_rollback_restores_rows**: rolling back the innermost transaction when it is a
    savepoint puts the rows back to what they were at the SAVEPOINT, pops exactly that
    transaction and does not touch what other connections see. -/
theorem nested_rollback_restores_rows (s : Sess) (t : STx) (rest : List STx)
    (ht : s.txns = t :: rest) (hn : t.nested = true) :
    s.rollbackTop.rows = t.saveRows ∧ s.rollbackTop.committed = s.committed ∧
    shape s.rollbackTop = rest.map (fun t => (t.h, t.nested, t.saveRows)) ∧
    s.rollbackTop.ended = s.ended ++ [t.h] := by
  rw [rollbackTop_cons ht]
  simp only [hn, if_true]
  have hf := frame_restoreSnapshot ({ s with rows := t.saveRows } : Sess) t true
  have hsh : shape (({ s with rows := t.saveRows } : Sess).restoreSnapshot t true)
      = (t.h, t.nested, t.saveRows) :: rest.map (fun t => (t.h, t.nested, t.saveRows)) := by
    rw [hf.shape]; exact shape_cons (s := ({ s with rows := t.saveRows } : Sess)) ht
  obtain ⟨p1, p2, p3, p4, _⟩ := popTx_shape hsh
  exact ⟨p3.trans hf.rows, p4.trans hf.committed, p1, by rw [p2, hf.ended]⟩

/-- **root_rollback_expires_all**: rolling back the outermost transaction leaves no
    transaction, shows exactly the committed rows, and NO object of the identity map keeps a
    loaded value or a pending change — whatever is read afterwards comes from the database. -/
theorem root_rollback_expires_all (s : Sess) (t : STx) (ht : s.txns = [t]) (hn : t.nested = false) :
    s.rollbackTop.txns = [] ∧ s.rollbackTop.rows = s.committed ∧
    s.rollbackTop.committed = s.committed ∧
    ∀ o ∈ s.rollbackTop.imap, Expired (s.rollbackTop.obj o) := by
  rw [rollbackTop_cons ht]
  simp only [hn, Bool.false_eq_true, if_false]
  have hf := frame_restoreSnapshot ({ s with rows := s.committed } : Sess) t false
  -- the last loop of _restore_snapshot expires everything in the identity map
  have hexp : ∀ o ∈ (({ s with rows := s.committed } : Sess).restoreSnapshot t false).imap,
      Expired ((({ s with rows := s.committed } : Sess).restoreSnapshot t false).obj o) := by
    unfold Sess.restoreSnapshot
    simp only [Bool.not_false, Bool.true_or]
    intro o ho
    have key := expireAll_spec
      (revertAll ((t.deleted ++ (restoreKeys ((t.new ++ s.new).eraseDups) t.switches
        (expungeAll ((t.new ++ s.new).eraseDups) ({ s with rows := s.committed } : Sess))).marked).eraseDups)
        (restoreKeys ((t.new ++ s.new).eraseDups) t.switches
          (expungeAll ((t.new ++ s.new).eraseDups) ({ s with rows := s.committed } : Sess)))).imap
      (revertAll ((t.deleted ++ (restoreKeys ((t.new ++ s.new).eraseDups) t.switches
        (expungeAll ((t.new ++ s.new).eraseDups) ({ s with rows := s.committed } : Sess))).marked).eraseDups)
        (restoreKeys ((t.new ++ s.new).eraseDups) t.switches
          (expungeAll ((t.new ++ s.new).eraseDups) ({ s with rows := s.committed } : Sess))))
    rw [key.1] at ho
    exact key.2.2.1 o ho
  have hsh : shape (({ s with rows := s.committed } : Sess).restoreSnapshot t false)
      = [(t.h, t.nested, t.saveRows)] := by
    rw [hf.shape]; simp [shape, ht]
  obtain ⟨p1, _, p3, p4, p5, p6, _⟩ := popTx_shape hsh
  refine ⟨?_, p3.trans hf.rows, p4.trans hf.committed, ?_⟩
  · simpa [shape] using p1
  · intro o ho
    rw [p5] at ho
    have := hexp o ho
    simpa [Sess.obj, p6] using this


/-! ## rows and transaction stack: an invariant of EVERY history

(out-of-order handle operations included — the rows side of the session never goes wrong;
F20/F21/F23 are about the objects) -/

def flags (s : Sess) : List Bool := s.txns.map (·.nested)

/-- innermost first: savepoint transactions on top of exactly one root transaction -/
def StackOk : List Bool → Prop
  | [] => True
  | [b] => b = false
  | b :: b' :: rest => b = true ∧ StackOk (b' :: rest)

/-- the invariant: a well-formed transaction stack, and with no transaction in progress the
    session's connection sees exactly the committed rows -/
def RInv (s : Sess) : Prop := StackOk (flags s) ∧ (s.txns = [] → s.rows = s.committed)

theorem flags_of_shape {s s' : Sess} (h : shape s' = shape s) : flags s' = flags s := by
  have : (shape s').map (fun x => x.2.1) = (shape s).map (fun x => x.2.1) := by rw [h]
  simpa [shape, flags, List.map_map, Function.comp_def] using this

theorem txns_nil_of_shape {s s' : Sess} (h : shape s' = shape s) : s'.txns = [] ↔ s.txns = [] := by
  have : (shape s').length = (shape s).length := by rw [h]
  simp only [shape, List.length_map] at this
  constructor <;> intro e
  · have : s.txns.length = 0 := by rw [← this, e]; rfl
    exact List.eq_nil_of_length_eq_zero this
  · have : s'.txns.length = 0 := by rw [this, e]; rfl
    exact List.eq_nil_of_length_eq_zero this

/-- committed rows and stack shape unchanged (rows may change: a flush) -/
structure CFrame (s s' : Sess) : Prop where
  committed : s'.committed = s.committed
  shape : shape s' = shape s

theorem CFrame.refl (s : Sess) : CFrame s s := ⟨rfl, rfl⟩
theorem CFrame.trans {a b c : Sess} (h1 : CFrame a b) (h2 : CFrame b c) : CFrame a c :=
  ⟨h2.committed.trans h1.committed, h2.shape.trans h1.shape⟩
theorem Frame.toC {s s' : Sess} (h : Frame s s') : CFrame s s' := ⟨h.committed, h.shape⟩

theorem cframe_rows (s : Sess) (r : Rows) (i m n : List Nat) :
    CFrame s { s with rows := r, imap := i, marked := m, new := n } := ⟨rfl, rfl⟩

theorem cframe_step (s : Sess) (r : Rows) (i m n : List Nat) (f : STx → STx) (g : Obj → Obj) (o : Nat)
    (hf : ∀ t, (f t).h = t.h ∧ (f t).nested = t.nested ∧ (f t).saveRows = t.saveRows) :
    CFrame s ((({ s with rows := r, imap := i, marked := m, new := n } : Sess).modTop f).setObj o g) :=
  ((cframe_rows s r i m n).trans
    (frame_modTop ({ s with rows := r, imap := i, marked := m, new := n } : Sess) f hf).toC).trans
    (frame_setObj _ o g).toC

theorem cframe_flushObj (s : Sess) (o : Nat) : CFrame s (s.flushObj o) := by
  unfold Sess.flushObj
  simp only []
  split
  · split
    · exact cframe_step s _ _ _ _ _ _ o (fun t => ⟨rfl, rfl, rfl⟩)
    · exact CFrame.refl s
  · split
    · exact cframe_step s _ _ _ _ _ _ o (fun t => ⟨rfl, rfl, rfl⟩)
    · split
      · split
        · exact cframe_step s _ _ _ _ _ _ o (fun t => ⟨rfl, rfl, rfl⟩)
        · exact CFrame.refl s
      · exact CFrame.refl s

theorem cframe_flushAll : ∀ (l : List Nat) (s : Sess), CFrame s (flushAll l s) := by
  intro l
  induction l with
  | nil => intro s; exact CFrame.refl s
  | cons o os ih => intro s; exact (cframe_flushObj s o).trans (ih _)

theorem autobegin_spec (s : Sess) :
    s.autobegin.txns ≠ [] ∧ s.autobegin.rows = s.rows ∧ s.autobegin.committed = s.committed ∧
    (s.txns ≠ [] → s.autobegin = s) ∧ (s.txns = [] → flags s.autobegin = [false]) := by
  unfold Sess.autobegin
  cases h : s.txns with
  | nil => simp [flags]
  | cons t r => simp [h]

theorem rinv_autobegin {s : Sess} (h : RInv s) : RInv s.autobegin := by
  obtain ⟨a1, a2, a3, a4, a5⟩ := autobegin_spec s
  refine ⟨?_, fun e => absurd e a1⟩
  by_cases ht : s.txns = []
  · rw [a5 ht]; rfl
  · rw [a4 ht]; exact h.1

/-- a step that keeps committed rows and stack shape and is only taken with a transaction open -/
theorem rinv_cframe {s s' : Sess} (h : RInv s) (hf : CFrame s s') (hne : s.txns ≠ []) : RInv s' := by
  refine ⟨by rw [flags_of_shape hf.shape]; exact h.1, fun e => ?_⟩
  exact absurd ((txns_nil_of_shape hf.shape).1 e) hne

theorem rinv_flush {s : Sess} (h : RInv s) : RInv s.flush := by
  unfold Sess.flush
  split
  · have ha := rinv_autobegin h
    exact rinv_cframe ha (cframe_flushAll _ _) (autobegin_spec s).1
  · exact h

theorem flush_txns_ne {s : Sess} (hne : s.txns ≠ []) : s.flush.txns ≠ [] := by
  unfold Sess.flush
  split
  · intro e
    have hf := cframe_flushAll (List.range s.autobegin.objs.length) s.autobegin
    exact (autobegin_spec s).1 ((txns_nil_of_shape hf.shape).1 e)
  · exact hne

theorem rinv_load {s : Sess} (h : RInv s) (o : Nat) : RInv (s.load o).1 := by
  unfold Sess.load
  simp only []
  have h1 : RInv s.autobegin.autoflushNow := by
    unfold Sess.autoflushNow
    split
    · exact rinv_flush (rinv_autobegin h)
    · exact rinv_autobegin h
  have hne : s.autobegin.autoflushNow.txns ≠ [] := by
    unfold Sess.autoflushNow
    split
    · exact flush_txns_ne (autobegin_spec s).1
    · exact (autobegin_spec s).1
  split
  · exact rinv_cframe h1 (frame_setObj _ o _).toC hne
  · exact h1

theorem stackOk_tail {b : Bool} {l : List Bool} (h : StackOk (b :: l)) : StackOk l := by
  cases l with
  | nil => trivial
  | cons b' r => exact h.2

theorem stackOk_single {b : Bool} (h : StackOk [b]) : b = false := h

theorem frame_foldl_setObj (g : Obj → Obj) : ∀ (l : List Nat) (s : Sess),
    Frame s (l.foldl (fun s o => s.setObj o g) s) := by
  intro l
  induction l with
  | nil => intro s; exact Frame.refl s
  | cons o os ih => intro s; exact (frame_setObj s o g).trans (ih _)

theorem frame_removeSnapshot (s : Sess) (t : STx) : Frame s (s.removeSnapshot t) := by
  unfold Sess.removeSnapshot
  split
  · exact (frame_expireWhere _ _ _).trans (frame_foldl_setObj _ _ _)
  · split
    · exact frame_modTop s _ (fun p => ⟨rfl, rfl, rfl⟩)
    · exact Frame.refl s

/-- what ending the innermost transaction does to the invariant, given the state `s1` right
    before the pop (same stack as `s`) and the rows/committed it leaves -/
theorem rinv_pop {s1 : Sess} {t : STx} {rest : List STx} (ht : s1.txns = t :: rest)
    (hs : StackOk (flags s1)) (hroot : t.nested = false → s1.rows = s1.committed) :
    RInv s1.popTx ∧ s1.popTx.txns = rest ∧ s1.popTx.rows = s1.rows ∧
    s1.popTx.committed = s1.committed := by
  have hp : s1.popTx = { s1 with txns := rest, ended := s1.ended ++ [t.h] } := by
    simp [Sess.popTx, ht]
  rw [hp]
  refine ⟨⟨?_, fun e => ?_⟩, rfl, rfl, rfl⟩
  · have : flags s1 = t.nested :: rest.map (·.nested) := by simp [flags, ht]
    rw [this] at hs
    exact stackOk_tail hs
  · have e' : rest = [] := e
    have : flags s1 = [t.nested] := by simp [flags, ht, e']
    rw [this] at hs
    exact hroot (stackOk_single hs)

theorem flush_shape {s : Sess} (hne : s.txns ≠ []) : shape s.flush = shape s ∧ s.flush.committed = s.committed := by
  unfold Sess.flush
  split
  · have ha := (autobegin_spec s).2.2.2.1 hne
    have hf := cframe_flushAll (List.range s.autobegin.objs.length) s.autobegin
    rw [ha] at hf
    rw [ha]
    exact ⟨hf.shape, hf.committed⟩
  · exact ⟨rfl, rfl⟩

theorem txns_of_shape_cons {s s' : Sess} {t : STx} {rest : List STx} (h : shape s' = shape s)
    (ht : s.txns = t :: rest) :
    ∃ t' rest', s'.txns = t' :: rest' ∧ t'.nested = t.nested ∧ t'.h = t.h ∧ t'.saveRows = t.saveRows ∧
      rest'.length = rest.length := by
  cases hx : s'.txns with
  | nil => simp [shape, hx, ht] at h
  | cons t' rest' =>
    simp only [shape, hx, ht, List.map_cons, List.cons.injEq, Prod.mk.injEq] at h
    refine ⟨t', rest', rfl, h.1.2.1, h.1.1, h.1.2.2, ?_⟩
    have := congrArg List.length h.2
    simpa using this

theorem commitTop_cons {s : Sess} {t : STx} {rest : List STx} (ht : s.flush.txns = t :: rest) :
    s.commitTop =
      ((if t.nested then s.flush else { s.flush with committed := s.flush.rows }).popTx).removeSnapshot t := by
  unfold Sess.commitTop
  simp only []
  generalize s.flush = sf at ht
  cases hx : sf.txns with
  | nil => rw [hx] at ht; cases ht
  | cons t' r' =>
    rw [hx] at ht
    cases ht
    rfl

theorem rinv_commitTop {s : Sess} (h : RInv s) (hne : s.txns ≠ []) :
    RInv s.commitTop ∧ s.commitTop.txns.length + 1 = s.txns.length := by
  obtain ⟨t, rest, ht⟩ : ∃ t rest, s.txns = t :: rest := by
    cases hx : s.txns with
    | nil => exact absurd hx hne
    | cons t rest => exact ⟨t, rest, rfl⟩
  obtain ⟨hsh, hcm⟩ := flush_shape hne
  obtain ⟨t', rest', ht', hn', _, _, hlen⟩ := txns_of_shape_cons hsh ht
  have hs1 : StackOk (flags s.flush) := by rw [flags_of_shape hsh]; exact h.1
  rw [commitTop_cons ht']
  -- the state right before the pop
  let s2 : Sess := if t'.nested then s.flush else { s.flush with committed := s.flush.rows }
  show RInv (s2.popTx.removeSnapshot t') ∧ (s2.popTx.removeSnapshot t').txns.length + 1 = s.txns.length
  have hs2t : s2.txns = t' :: rest' := by
    show (if t'.nested then s.flush else { s.flush with committed := s.flush.rows }).txns = _
    split <;> exact ht'
  have hs2f : StackOk (flags s2) := by
    have : flags s2 = flags s.flush := by
      show flags (if t'.nested then s.flush else { s.flush with committed := s.flush.rows }) = _
      split <;> rfl
    rw [this]; exact hs1
  have hroot : t'.nested = false → s2.rows = s2.committed := by
    intro e
    show (if t'.nested then s.flush else { s.flush with committed := s.flush.rows }).rows
       = (if t'.nested then s.flush else { s.flush with committed := s.flush.rows }).committed
    simp [e]
  obtain ⟨p1, p2, p3, p4⟩ := rinv_pop hs2t hs2f hroot
  have hf := frame_removeSnapshot s2.popTx t'
  refine ⟨⟨by rw [flags_of_shape hf.shape]; exact p1.1, fun e => ?_⟩, ?_⟩
  · rw [hf.rows, hf.committed]
    exact p1.2 ((txns_nil_of_shape hf.shape).1 e)
  · have : (s2.popTx.removeSnapshot t').txns.length = s2.popTx.txns.length := by
      have := congrArg List.length hf.shape
      simpa [shape] using this
    rw [this, p2, hlen, ht]; rfl

theorem rinv_rollbackTop {s : Sess} (h : RInv s) (hne : s.txns ≠ []) :
    RInv s.rollbackTop ∧ s.rollbackTop.txns.length + 1 = s.txns.length := by
  obtain ⟨t, rest, ht⟩ : ∃ t rest, s.txns = t :: rest := by
    cases hx : s.txns with
    | nil => exact absurd hx hne
    | cons t rest => exact ⟨t, rest, rfl⟩
  rw [rollbackTop_cons ht]
  let s1 : Sess := { s with rows := if t.nested then t.saveRows else s.committed }
  have hf := frame_restoreSnapshot s1 t t.nested
  obtain ⟨t', rest', ht', hn', _, _, hlen⟩ := txns_of_shape_cons hf.shape (s := s1) ht
  have hs : StackOk (flags (s1.restoreSnapshot t t.nested)) := by
    rw [flags_of_shape hf.shape]; exact h.1
  have hroot : t'.nested = false →
      (s1.restoreSnapshot t t.nested).rows = (s1.restoreSnapshot t t.nested).committed := by
    intro e
    rw [hf.rows, hf.committed]
    show (if t.nested then t.saveRows else s.committed) = s.committed
    rw [← hn', e]; rfl
  obtain ⟨p1, p2, _, _⟩ := rinv_pop ht' hs hroot
  exact ⟨p1, by rw [p2, hlen, ht]; rfl⟩

theorem rinv_closeTop {s : Sess} (h : RInv s) (hne : s.txns ≠ []) :
    RInv s.closeTop ∧ s.closeTop.txns.length + 1 = s.txns.length := by
  obtain ⟨t, rest, ht⟩ : ∃ t rest, s.txns = t :: rest := by
    cases hx : s.txns with
    | nil => exact absurd hx hne
    | cons t rest => exact ⟨t, rest, rfl⟩
  have e : s.closeTop = ({ s with rows := if t.nested then t.saveRows else s.committed } : Sess).popTx := by
    simp [Sess.closeTop, ht]
  rw [e]
  have hroot : t.nested = false →
      ({ s with rows := if t.nested then t.saveRows else s.committed } : Sess).rows
        = ({ s with rows := if t.nested then t.saveRows else s.committed } : Sess).committed := by
    intro e; simp [e]
  obtain ⟨p1, p2, _, _⟩ :=
    rinv_pop (s1 := ({ s with rows := if t.nested then t.saveRows else s.committed } : Sess)) ht h.1 hroot
  exact ⟨p1, by rw [p2, ht]; rfl⟩

theorem rinv_repeat (f : Sess → Sess)
    (hf : ∀ s, RInv s → s.txns ≠ [] → RInv (f s) ∧ (f s).txns.length + 1 = s.txns.length) :
    ∀ (n : Nat) (s : Sess), RInv s → n ≤ s.txns.length →
      RInv (repeatN n f s) ∧ (repeatN n f s).txns.length + n = s.txns.length := by
  intro n
  induction n with
  | zero => intro s h _; exact ⟨h, rfl⟩
  | succ n ih =>
    intro s h hn
    have hne : s.txns ≠ [] := by intro e; rw [e] at hn; simp at hn
    obtain ⟨h1, h2⟩ := hf s h hne
    obtain ⟨i1, i2⟩ := ih (f s) h1 (by omega)
    simp only [repeatN]
    exact ⟨i1, by omega⟩

theorem depthOf_lt {s : Sess} {h d : Nat} (hd : s.depthOf h = some d) : d < s.txns.length := by
  unfold Sess.depthOf at hd
  exact (List.findIdx?_eq_some_iff_getElem.1 hd).1

/-- **session_rows_invariant** (one step): every operation — the out-of-order handle
    operations included — keeps the transaction stack well formed and, whenever no
    transaction is left, the session's connection sees exactly the committed rows. -/
theorem step_rinv {s : Sess} (h : RInv s) (op : SOp) : RInv (s.step op).1 := by
  cases op with
  | add pk v =>
    have ha := rinv_autobegin h
    exact rinv_cframe ha ⟨rfl, rfl⟩ (autobegin_spec s).1
  | setV o v =>
    simp only [Sess.step]
    split
    · exact rinv_cframe (rinv_autobegin h) (frame_setObj _ o _).toC (autobegin_spec s).1
    · refine ⟨h.1, fun e => ?_⟩
      exact h.2 e
  | setPk o pk =>
    simp only [Sess.step]
    have key : RInv (if (s.obj o).persistent && !(s.obj o).idL then s.load o
        else (if (s.obj o).attached then s.autobegin else s, SRes.ok)).1 := by
      split
      · exact rinv_load h o
      · split
        · exact rinv_autobegin h
        · exact h
    generalize (if (s.obj o).persistent && !(s.obj o).idL then s.load o
        else (if (s.obj o).attached then s.autobegin else s, SRes.ok)) = x at key
    obtain ⟨s1, r⟩ := x
    cases r <;> first
      | exact key
      | exact ⟨key.1, fun e => key.2 e⟩
  | delete o =>
    exact rinv_cframe (rinv_autobegin h) ⟨rfl, rfl⟩ (autobegin_spec s).1
  | flush => exact rinv_flush h
  | load o =>
    simp only [Sess.step]
    split
    · exact rinv_load h o
    · exact h
  | begin =>
    simp only [Sess.step]
    split
    · exact rinv_autobegin h
    · exact h
  | beginNested =>
    simp only [Sess.step]
    have h1 := rinv_flush (rinv_autobegin h)
    have hne := flush_txns_ne (autobegin_spec s).1
    refine ⟨?_, fun e => by simp at e⟩
    obtain ⟨t, rest, ht⟩ : ∃ t rest, s.autobegin.flush.txns = t :: rest := by
      cases hx : s.autobegin.flush.txns with
      | nil => exact absurd hx hne
      | cons t rest => exact ⟨t, rest, rfl⟩
    have hs := h1.1
    simp only [flags, ht, List.map_cons] at hs ⊢
    exact ⟨rfl, hs⟩
  | commit =>
    simp only [Sess.step, Sess.commit]
    split
    · have ha := rinv_autobegin h
      obtain ⟨c1, _⟩ := rinv_commitTop ha (autobegin_spec s).1
      exact ⟨c1.1, c1.2⟩
    · exact (rinv_repeat Sess.commitTop (fun s hs hne => rinv_commitTop hs hne) _ s h (Nat.le_refl _)).1
  | rollback =>
    exact (rinv_repeat Sess.rollbackTop (fun s hs hne => rinv_rollbackTop hs hne) _ s h (Nat.le_refl _)).1
  | close =>
    simp only [Sess.step, Sess.close]
    have hf := frame_foldl_setObj (fun x => x.detach false) ((s.imap ++ s.new).eraseDups) s
    have h1 : RInv ({ (List.foldl (fun s o => s.setObj o fun x => x.detach false) s
        ((s.imap ++ s.new).eraseDups)) with imap := [], new := [], marked := [] } : Sess) := by
      refine ⟨?_, fun e => ?_⟩
      · show StackOk (flags _)
        have : flags ({ (List.foldl (fun s o => s.setObj o fun x => x.detach false) s
            ((s.imap ++ s.new).eraseDups)) with imap := [], new := [], marked := [] } : Sess) = flags s :=
          flags_of_shape hf.shape
        rw [this]; exact h.1
      · show (List.foldl _ s _).rows = (List.foldl _ s _).committed
        rw [hf.rows, hf.committed]
        exact h.2 ((txns_nil_of_shape hf.shape).1 e)
    exact (rinv_repeat Sess.closeTop (fun s hs hne => rinv_closeTop hs hne) _ _ h1 (Nat.le_refl _)).1
  | tCommit x =>
    simp only [Sess.step, Sess.tCommit]
    split
    · rename_i d hd
      exact (rinv_repeat Sess.commitTop (fun s hs hne => rinv_commitTop hs hne) _ s h (depthOf_lt hd)).1
    · exact h
  | tRollback x =>
    simp only [Sess.step, Sess.tRollback]
    split
    · rename_i d hd
      obtain ⟨r1, r2⟩ := rinv_repeat Sess.closeTop (fun s hs hne => rinv_closeTop hs hne) d s h
        (Nat.le_of_lt (depthOf_lt hd))
      have hne : (repeatN d Sess.closeTop s).txns ≠ [] := by
        intro e
        have := depthOf_lt hd
        rw [e] at r2; simp at r2; omega
      exact (rinv_rollbackTop r1 hne).1
    · exact h
  | setAutoflush b => exact ⟨h.1, h.2⟩

/-- **session_rows_invariant**: for EVERY history, with autoflush on or off -/
theorem session_rows_invariant (eoc : Bool) (ops : List SOp) (af : Bool := true) :
    RInv ((Sess.init eoc af).run ops) := by
  have key : ∀ (ops : List SOp) (s : Sess), RInv s → RInv (s.run ops) := by
    intro ops
    induction ops with
    | nil => intro s h; exact h
    | cons op ops ih => intro s h; exact ih _ (step_rinv h op)
  exact key ops _ ⟨trivial, fun _ => rfl⟩

/-- after `Session.commit()` / `Session.rollback()` / `Session.close()` from any reachable
    state no transaction is left and the session's connection sees the committed rows -/
theorem session_end_states (eoc : Bool) (ops : List SOp) (af : Bool := true) :
    let s := (Sess.init eoc af).run ops
    (s.rollback.txns = [] ∧ s.rollback.rows = s.rollback.committed) ∧
    (s.txns ≠ [] → s.commit.txns = [] ∧ s.commit.rows = s.commit.committed) := by
  intro s
  have h := session_rows_invariant eoc ops af
  refine ⟨?_, fun hne => ?_⟩
  · obtain ⟨r1, r2⟩ := rinv_repeat Sess.rollbackTop (fun s hs hne => rinv_rollbackTop hs hne)
      s.txns.length s h (Nat.le_refl _)
    have : s.rollback.txns = [] := List.eq_nil_of_length_eq_zero (by
      show (repeatN s.txns.length Sess.rollbackTop s).txns.length = 0
      omega)
    exact ⟨this, r1.2 this⟩
  · obtain ⟨r1, r2⟩ := rinv_repeat Sess.commitTop (fun s hs hne => rinv_commitTop hs hne)
      s.txns.length s h (Nat.le_refl _)
    have e : s.commit = repeatN s.txns.length Sess.commitTop s := by
      unfold Sess.commit
      have : s.txns.isEmpty = false := by
        cases hx : s.txns with
        | nil => exact absurd hx hne
        | cons _ _ => rfl
      simp [this]
    rw [e]
    have : (repeatN s.txns.length Sess.commitTop s).txns = [] := List.eq_nil_of_length_eq_zero (by omega)
    exact ⟨this, r1.2 this⟩

/-! ## what is accounted to a savepoint: only work done after it began

`begin_nested()` writes everything that is pending in the enclosing scope BEFORE the
SAVEPOINT — an unconditional flush, not an autoflush: the `autoflush` setting (the
`Session(autoflush=False)` option, a `no_autoflush` block) plays no part. -/

theorem flushObj_withAf (s : Sess) (b : Bool) (o : Nat) :
    (s.withAf b).flushObj o = (s.flushObj o).withAf b := by
  obtain ⟨objs, new, marked, imap, txns, nextH, ended, rows, committed, eoc, af⟩ := s
  unfold Sess.flushObj
  simp only [Sess.withAf, Sess.obj, Sess.modTop, Sess.setObj]
  by_cases h1 : marked.contains o = true
  · rw [if_pos h1, if_pos h1]
    cases hk : (objs.getD o default).key with
    | none => rfl
    | some k => cases txns <;> rfl
  · rw [if_neg h1, if_neg h1]
    by_cases h2 : new.contains o = true
    · rw [if_pos h2, if_pos h2]; cases txns <;> rfl
    · rw [if_neg h2, if_neg h2]
      by_cases h3 : (imap.contains o && (objs.getD o default).modified) = true
      · simp only [h3, ↓reduceIte]
        cases hk : (objs.getD o default).key with
        | none => rfl
        | some k => cases txns <;> rfl
      · simp only [h3, Bool.false_eq_true, ↓reduceIte]

theorem flushAll_withAf (b : Bool) : ∀ (l : List Nat) (s : Sess),
    flushAll l (s.withAf b) = (flushAll l s).withAf b := by
  intro l
  induction l with
  | nil => intro s; rfl
  | cons o os ih => intro s; simp only [flushAll]; rw [flushObj_withAf, ih]

theorem flush_withAf (s : Sess) (b : Bool) : (s.withAf b).flush = s.flush.withAf b := by
  unfold Sess.flush
  have hu : (s.withAf b).unclean = s.unclean := rfl
  rw [hu]
  split
  · have ha : (s.withAf b).autobegin = s.autobegin.withAf b := by
      unfold Sess.autobegin Sess.withAf; split <;> rfl
    rw [ha]
    exact flushAll_withAf b _ _
  · rfl

/-- **begin_nested_ignores_autoflush**: for EVERY session state, begin_nested() does exactly
    the same with autoflush off as with autoflush on — in particular the same rows are written
    before the SAVEPOINT and the same objects are registered with the ENCLOSING transaction. -/
theorem begin_nested_ignores_autoflush (s : Sess) (b : Bool) :
    ((s.withAf b).step .beginNested).1 = ((s.step .beginNested).1).withAf b := by
  have ha : (s.withAf b).autobegin = s.autobegin.withAf b := by
    unfold Sess.autobegin Sess.withAf; split <;> rfl
  simp only [Sess.step]
  rw [ha, flush_withAf]

/-- **savepoint_scope_starts_empty**: the transaction object pushed by begin_nested() has
    nothing accounted to it (`_new`, `_dirty`, `_deleted`, `_key_switches` empty) and
    remembers the rows as they are AFTER the enclosing scope's pending work was written;
    the enclosing transactions are the ones the flush registered that work with. -/
theorem savepoint_scope_starts_empty (s : Sess) :
    let s' := (s.step .beginNested).1
    ∃ t rest, s'.txns = t :: rest ∧ rest = s.autobegin.flush.txns ∧ t.nested = true ∧
      t.new = [] ∧ t.dirty = [] ∧ t.deleted = [] ∧ t.switches = [] ∧ t.saveRows = s'.rows ∧
      s'.rows = s.autobegin.flush.rows := by
  simp only [Sess.step]
  exact ⟨_, _, rfl, rfl, rfl, rfl, rfl, rfl, rfl, rfl, trivial⟩

/-- a flush registers objects with the INNERMOST transaction only: whatever a flush inside a
    savepoint touches, the collections of the enclosing transactions stay as they are -/
theorem flushObj_outer_untouched (s : Sess) (o : Nat) : (s.flushObj o).txns.tail = s.txns.tail := by
  have key : ∀ (s : Sess) (f : STx → STx), (s.modTop f).txns.tail = s.txns.tail := by
    intro s f; unfold Sess.modTop; split <;> simp_all
  unfold Sess.flushObj
  simp only []
  split
  · split
    · show ((Sess.modTop _ _).setObj _ _).txns.tail = _
      exact key _ _
    · rfl
  · split
    · show ((Sess.modTop _ _).setObj _ _).txns.tail = _
      exact key _ _
    · split
      · split
        · show ((Sess.modTop _ _).setObj _ _).txns.tail = _
          exact key _ _
        · rfl
      · rfl

/-! ## where the full statement fails (findings F20, F21, F23) -/

def s0 : Sess := Sess.init true

/-- F20: `s1 = begin_nested(); s2 = begin_nested(); …; s1.rollback()` — the inner savepoint
    transaction is closed without restoring its snapshot: object 0 keeps the value flushed
    inside `s2` (stale, not expired) and object 1, inserted inside `s2`, stays persistent with
    no row.  Handles: 0 = root of the first commit, 1 = root, 2 = s1, 3 = s2. -/
theorem outer_rollback_counterexample :
    let ops : List SOp := [.add 1 10, .commit, .beginNested, .beginNested, .add 2 20, .flush,
                           .setV 0 11, .flush, .tRollback 2]
    coherent (s0.run ops) = false ∧
    (s0.run ops).rows = [(1, 10)] ∧                       -- the database did roll back
    ((s0.run ops).obj 0).v = 11 ∧ ((s0.run ops).obj 0).vL = true ∧ ((s0.run ops).obj 0).modV = false ∧
    (s0.run ops).imap.contains 1 = true ∧ ((s0.run ops).obj 1).key = some 2 := by
  decide

/-- the same history ended innermost-first is coherent -/
example :
    coherent (s0.run [.add 1 10, .commit, .beginNested, .beginNested, .add 2 20, .flush,
                      .setV 0 11, .flush, .tRollback 3, .tRollback 2]) = true := by decide

/-- F21: key switch 1→5 in the transaction, 5→6 inside a savepoint that is released, then the
    transaction is rolled back: `_remove_snapshot` replaced the parent's (1, 5) entry by (5, 6),
    so the identity key is restored to 5 — a key with no row. -/
theorem key_switch_merge_counterexample :
    let ops : List SOp := [.add 1 10, .commit, .setPk 0 5, .flush, .beginNested, .setPk 0 6, .flush,
                           .tCommit 2, .rollback]
    coherent (s0.run ops) = false ∧ (s0.run ops).rows = [(1, 10)] ∧
    ((s0.run ops).obj 0).key = some 5 ∧ ((s0.run ops).step (.load 0)).2 = .objectDeleted := by
  decide

/-- with the savepoint rolled back instead of released the original key comes back -/
example :
    let s := s0.run [.add 1 10, .commit, .setPk 0 5, .flush, .beginNested, .setPk 0 6, .flush,
                     .tRollback 2, .rollback]
    coherent s = true ∧ (s.obj 0).key = some 1 := by decide

/-- F23: an object added and key-switched inside a rolled-back transaction gets its old key
    written back after it was expunged: detached (key 1, no session) instead of transient -/
theorem rolled_back_new_object_counterexample :
    let s := s0.run [.add 1 11, .flush, .setPk 0 2, .flush, .rollback]
    (s.obj 0).attached = false ∧ (s.obj 0).key = some 1 ∧ s.rows = [] := by
  decide

/-! ## non-vacuity: a long innermost-first history stays coherent at every step -/

def sampleOps : List SOp :=
  [.add 1 10, .add 2 20, .commit, .setV 0 11, .beginNested, .add 3 30, .setPk 1 7, .flush,
   .beginNested, .delete 0, .flush, .setV 2 31, .tRollback 3, .load 0, .tCommit 2, .setV 0 12,
   .rollback, .load 0, .load 1, .delete 1, .commit]

def coherentAlong : Sess → List SOp → Bool
  | s, [] => coherent s
  | s, op :: ops => coherent s && coherentAlong (s.step op).1 ops

example : coherentAlong s0 sampleOps = true := by decide
example : (s0.run sampleOps).committed = [(1, 10)] := by decide
/-- the hypotheses of `root_rollback_expires_all` / `nested_rollback_restores_rows` are met
    by reachable states with pending, dirty, deleted and key-switched objects -/
example : ((s0.run (sampleOps.take 12)).txns.map (·.nested)) = [true, true, false] := by decide

/-- autoflush off: work pending when begin_nested() is called is written before the SAVEPOINT
    and registered with the root transaction; rolling the savepoint back (after a flush inside
    it) discards only object #2, and the outer commit persists rows 1=11 and 2=20 -/
def afOps : List SOp :=
  [.add 1 10, .commit, .setV 0 11, .add 2 20, .beginNested, .add 3 30, .flush, .tRollback 2]
example : ((Sess.init true false).run afOps).rows = [(1, 11), (2, 20)] ∧
    ((Sess.init true false).run afOps).txns.map (fun t => (t.h, t.new, t.dirty)) = [(1, [1], [0])] ∧
    ((Sess.init true false).run (afOps ++ [.commit])).committed = [(1, 11), (2, 20)] := by decide

end SaVerif.Props.C33
