import SaVerif.Model.SessTxn
/-!
# C33 — Session commit/rollback/savepoint keep the session consistent with the database

Theorems about M-SESS (`SaVerif/Model/Sess.lean`, transcription of the SessionTransaction
snapshot machinery of `lib/sqlalchemy/orm/session.py`).

Full statement (NOT proved; see the partial results and the counterexamples below):
  for every history of add / modify / pk-switch / delete / flush / load / begin_nested /
  commit / rollback in which scopes are ended innermost-first, after every step the session
  is `coherent` (definition below: every persistent object's identity key names a row of
  the session's connection, loaded non-dirty values equal that row, flushed-deleted objects
  have no row, identity keys are unique).
What is proved: for ALL states, what a root rollback / a savepoint rollback / a commit do
to rows, transaction stack, pending objects and loaded values; and that the statement is
FALSE without the innermost-first restriction (F20), with a repeated key switch across a
released savepoint (F21) and for added+key-switched objects (F23).  The unrestricted part is
carried by the differential correspondence and the oracle of `harness/props/c33.py`.
-/
namespace SaVerif.Props.C33
open SaVerif.SessTxn

/-- the consistency predicate of the property (decidable: used in evaluated examples and as
    the formal counterpart of the harness oracle) -/
def coherent (s : Sess) : Bool :=
  s.imap.all (fun o =>
    let x := s.obj o
    match x.key with
    | some k =>
      x.attached && !x.delFlag &&
      (match s.rows.get k with
       | some rv => (x.modV || !x.vL || x.v == rv) && (x.modPk || !x.idL || x.pk == k)
       | none => false) &&
      s.imap.all (fun o' => o' == o || (s.obj o').key != some k)
    | none => false)
  && (List.range s.objs.length).all (fun o =>
    let x := s.obj o
    !(x.attached && x.delFlag) || (match x.key with | some k => (s.rows.get k).isNone | none => true))

/-! ## lemmas about the per-object loops -/

theorem setObj_obj_ne (s : Sess) (o o' : Nat) (f : Obj → Obj) (h : o ≠ o') :
    (s.setObj o f).obj o' = s.obj o' := by
  simp [Sess.obj, Sess.setObj, List.getD_eq_getElem?_getD, List.getElem?_modify_ne _ _ h]

theorem setObj_obj_eq (s : Sess) (o : Nat) (f : Obj → Obj) (h : o < s.objs.length) :
    (s.setObj o f).obj o = f (s.obj o) := by
  simp [Sess.obj, Sess.setObj, List.getD_eq_getElem?_getD, List.getElem?_eq_getElem h]

def Expired (x : Obj) : Prop := x.idL = false ∧ x.vL = false ∧ x.modPk = false ∧ x.modV = false

theorem expire_expired (x : Obj) : Expired x.expire := ⟨rfl, rfl, rfl, rfl⟩

theorem expire_idem (x : Obj) (h : Expired x) : x.expire = x := by
  obtain ⟨a, b, c, d⟩ := h
  cases x; simp_all [Obj.expire]

theorem default_expired : Expired (default : Obj) := ⟨rfl, rfl, rfl, rfl⟩

theorem setObj_expire_obj (s : Sess) (a o : Nat) (h : Expired (s.obj o) ∨ a = o) :
    Expired ((s.setObj a Obj.expire).obj o) := by
  by_cases e : a = o
  · subst e
    by_cases ha : a < s.objs.length
    · rw [setObj_obj_eq _ _ _ ha]; exact expire_expired _
    · have : (s.setObj a Obj.expire).obj a = default := by
        have : s.objs[a]? = none := by simp; omega
        simp [Sess.obj, Sess.setObj, List.getD_eq_getElem?_getD, this]
      rw [this]; exact default_expired
  · rw [setObj_obj_ne _ _ _ _ e]
    rcases h with h | h
    · exact h
    · exact absurd h e

/-- the transaction stack up to the per-transaction bookkeeping sets -/
def shape (s : Sess) : List (Nat × Bool × Rows) := s.txns.map (fun t => (t.h, t.nested, t.saveRows))

/-- a helper changed neither rows nor the shape of the transaction stack -/
structure Frame (s s' : Sess) : Prop where
  rows : s'.rows = s.rows
  committed : s'.committed = s.committed
  shape : shape s' = shape s
  eoc : s'.eoc = s.eoc
  ended : s'.ended = s.ended

theorem Frame.refl (s : Sess) : Frame s s := ⟨rfl, rfl, rfl, rfl, rfl⟩
theorem Frame.trans {a b c : Sess} (h1 : Frame a b) (h2 : Frame b c) : Frame a c :=
  ⟨h2.rows.trans h1.rows, h2.committed.trans h1.committed, h2.shape.trans h1.shape,
   h2.eoc.trans h1.eoc, h2.ended.trans h1.ended⟩

theorem frame_setObj (s : Sess) (o : Nat) (f : Obj → Obj) : Frame s (s.setObj o f) :=
  ⟨rfl, rfl, rfl, rfl, rfl⟩

theorem frame_modTop (s : Sess) (f : STx → STx)
    (hf : ∀ t, (f t).h = t.h ∧ (f t).nested = t.nested ∧ (f t).saveRows = t.saveRows) :
    Frame s (s.modTop f) := by
  unfold Sess.modTop
  cases ht : s.txns with
  | nil => simp only []; exact ⟨rfl, rfl, rfl, rfl, rfl⟩
  | cons t rest =>
    simp only []
    refine ⟨rfl, rfl, ?_, rfl, rfl⟩
    simp [shape, ht, hf t]

theorem frame_expunge (s : Sess) (o : Nat) : Frame s (s.expunge o) := by
  unfold Sess.expunge
  refine Frame.trans ?_ (frame_setObj _ o _)
  split
  · exact ⟨rfl, rfl, rfl, rfl, rfl⟩
  · split
    · exact ⟨rfl, rfl, rfl, rfl, rfl⟩
    · exact frame_modTop s _ (fun t => ⟨rfl, rfl, rfl⟩)

theorem frame_expungeAll : ∀ (l : List Nat) (s : Sess), Frame s (expungeAll l s) := by
  intro l
  induction l with
  | nil => intro s; exact Frame.refl s
  | cons o os ih => intro s; exact (frame_expunge s o).trans (ih _)

theorem frame_restoreKeys (x : List Nat) : ∀ (l : List (Nat × (Nat × Nat))) (s : Sess),
    Frame s (restoreKeys x l s) := by
  intro l
  induction l with
  | nil => intro s; exact Frame.refl s
  | cons e es ih =>
    intro s
    obtain ⟨o, old, nw⟩ := e
    simp only [restoreKeys]
    refine Frame.trans ?_ (ih _)
    split <;> exact ⟨rfl, rfl, rfl, rfl, rfl⟩

theorem frame_revertDeletion (s : Sess) (o : Nat) : Frame s (s.revertDeletion o) := by
  unfold Sess.revertDeletion
  simp only []
  split
  · exact Frame.refl s
  · split
    · exact Frame.refl s
    · exact ⟨rfl, rfl, rfl, rfl, rfl⟩

theorem frame_revertAll : ∀ (l : List Nat) (s : Sess), Frame s (revertAll l s) := by
  intro l
  induction l with
  | nil => intro s; exact Frame.refl s
  | cons o os ih => intro s; exact (frame_revertDeletion s o).trans (ih _)

theorem frame_expireWhere (p : Nat → Obj → Bool) : ∀ (l : List Nat) (s : Sess),
    Frame s (expireWhere p l s) := by
  intro l
  induction l with
  | nil => intro s; exact Frame.refl s
  | cons o os ih =>
    intro s
    simp only [expireWhere]
    refine Frame.trans ?_ (ih _)
    split
    · exact frame_setObj _ _ _
    · exact Frame.refl s

theorem frame_restoreSnapshot (s : Sess) (t : STx) (d : Bool) : Frame s (s.restoreSnapshot t d) := by
  unfold Sess.restoreSnapshot
  exact (((frame_expungeAll _ s).trans (frame_restoreKeys _ _ _)).trans (frame_revertAll _ _)).trans
    (frame_expireWhere _ _ _)

/-- `expireWhere` with an always-true condition expires every listed object and keeps the
    identity map and the pending list -/
theorem expireAll_spec : ∀ (l : List Nat) (s : Sess),
    (expireWhere (fun _ _ => true) l s).imap = s.imap ∧
    (expireWhere (fun _ _ => true) l s).new = s.new ∧
    (∀ o ∈ l, Expired ((expireWhere (fun _ _ => true) l s).obj o)) ∧
    (∀ o, Expired (s.obj o) → Expired ((expireWhere (fun _ _ => true) l s).obj o)) := by
  intro l
  induction l with
  | nil =>
    intro s
    refine ⟨rfl, rfl, ?_, ?_⟩
    · intro o h; cases h
    · intro o h; exact h
  | cons a l ih =>
    intro s
    simp only [expireWhere, if_true]
    obtain ⟨i1, i2, i3, i4⟩ := ih (s.setObj a Obj.expire)
    refine ⟨i1, i2, ?_, fun o he => i4 o (setObj_expire_obj s a o (Or.inl he))⟩
    intro o ho
    rcases List.mem_cons.1 ho with rfl | ho
    · exact i4 _ (setObj_expire_obj s _ _ (Or.inr rfl))
    · exact i3 o ho

/-! ## what the scope-ending functions do, for every state -/

theorem shape_cons {s : Sess} {t : STx} {rest : List STx} (ht : s.txns = t :: rest) :
    shape s = (t.h, t.nested, t.saveRows) :: rest.map (fun t => (t.h, t.nested, t.saveRows)) := by
  simp [shape, ht]

theorem rollbackTop_cons {s : Sess} {t : STx} {rest : List STx} (ht : s.txns = t :: rest) :
    s.rollbackTop =
      (({ s with rows := if t.nested then t.saveRows else s.committed } : Sess).restoreSnapshot
        t t.nested).popTx := by
  unfold Sess.rollbackTop
  split
  · rename_i t' r' h
    rw [ht] at h
    cases h
    rfl
  · rename_i h
    rw [ht] at h
    cases h

/-- popping a transaction off a stack of known shape -/
theorem popTx_shape {s : Sess} {x : Nat × Bool × Rows} {xs : List (Nat × Bool × Rows)}
    (h : shape s = x :: xs) :
    shape s.popTx = xs ∧ s.popTx.ended = s.ended ++ [x.1] ∧ s.popTx.rows = s.rows ∧
    s.popTx.committed = s.committed ∧ s.popTx.imap = s.imap ∧ s.popTx.objs = s.objs ∧
    s.popTx.new = s.new := by
  unfold Sess.popTx
  cases htx : s.txns with
  | nil => simp [shape, htx] at h
  | cons t' rest' =>
    simp only [shape, htx, List.map_cons, List.cons.injEq] at h
    refine ⟨?_, ?_, rfl, rfl, rfl, rfl, rfl⟩
    · simp [shape, h.2]
    · simp [← h.1]

/-- **nested_rollback_restores_rows**: rolling back the innermost transaction when it is a
    savepoint puts the rows back to what they were at the SAVEPOINT, pops exactly that
    transaction and does not touch what other connections see. -/
theorem nested_rollback_restores_rows (s : Sess) (t : STx) (rest : List STx)
    (ht : s.txns = t :: rest) (hn : t.nested = true) :
    s.rollbackTop.rows = t.saveRows ∧ s.rollbackTop.committed = s.committed ∧
    shape s.rollbackTop = rest.map (fun t => (t.h, t.nested, t.saveRows)) ∧
    s.rollbackTop.ended = s.ended ++ [t.h] := by
  rw [rollbackTop_cons ht]
  simp only [hn, if_true]
  have hf := frame_restoreSnapshot ({ s with rows := t.saveRows } : Sess) t true
  have hsh : shape (({ s with rows := t.saveRows } : Sess).restoreSnapshot t true)
      = (t.h, t.nested, t.saveRows) :: rest.map (fun t => (t.h, t.nested, t.saveRows)) := by
    rw [hf.shape]; exact shape_cons (s := ({ s with rows := t.saveRows } : Sess)) ht
  obtain ⟨p1, p2, p3, p4, _⟩ := popTx_shape hsh
  exact ⟨p3.trans hf.rows, p4.trans hf.committed, p1, by rw [p2, hf.ended]⟩

/-- **root_rollback_expires_all**: rolling back the outermost transaction leaves no
    transaction, shows exactly the committed rows, and NO object of the identity map keeps a
    loaded value or a pending change — whatever is read afterwards comes from the database. -/
theorem root_rollback_expires_all (s : Sess) (t : STx) (ht : s.txns = [t]) (hn : t.nested = false) :
    s.rollbackTop.txns = [] ∧ s.rollbackTop.rows = s.committed ∧
    s.rollbackTop.committed = s.committed ∧
    ∀ o ∈ s.rollbackTop.imap, Expired (s.rollbackTop.obj o) := by
  rw [rollbackTop_cons ht]
  simp only [hn, Bool.false_eq_true, if_false]
  have hf := frame_restoreSnapshot ({ s with rows := s.committed } : Sess) t false
  -- the last loop of _restore_snapshot expires everything in the identity map
  have hexp : ∀ o ∈ (({ s with rows := s.committed } : Sess).restoreSnapshot t false).imap,
      Expired ((({ s with rows := s.committed } : Sess).restoreSnapshot t false).obj o) := by
    unfold Sess.restoreSnapshot
    simp only [Bool.not_false, Bool.true_or]
    intro o ho
    have key := expireAll_spec
      (revertAll ((t.deleted ++ (restoreKeys ((t.new ++ s.new).eraseDups) t.switches
        (expungeAll ((t.new ++ s.new).eraseDups) ({ s with rows := s.committed } : Sess))).marked).eraseDups)
        (restoreKeys ((t.new ++ s.new).eraseDups) t.switches
          (expungeAll ((t.new ++ s.new).eraseDups) ({ s with rows := s.committed } : Sess)))).imap
      (revertAll ((t.deleted ++ (restoreKeys ((t.new ++ s.new).eraseDups) t.switches
        (expungeAll ((t.new ++ s.new).eraseDups) ({ s with rows := s.committed } : Sess))).marked).eraseDups)
        (restoreKeys ((t.new ++ s.new).eraseDups) t.switches
          (expungeAll ((t.new ++ s.new).eraseDups) ({ s with rows := s.committed } : Sess))))
    rw [key.1] at ho
    exact key.2.2.1 o ho
  have hsh : shape (({ s with rows := s.committed } : Sess).restoreSnapshot t false)
      = [(t.h, t.nested, t.saveRows)] := by
    rw [hf.shape]; simp [shape, ht]
  obtain ⟨p1, _, p3, p4, p5, p6, _⟩ := popTx_shape hsh
  refine ⟨?_, p3.trans hf.rows, p4.trans hf.committed, ?_⟩
  · simpa [shape] using p1
  · intro o ho
    rw [p5] at ho
    have := hexp o ho
    simpa [Sess.obj, p6] using this


/-! ## where the full statement fails (findings F20, F21, F23) -/

def s0 : Sess := Sess.init true

/-- F20: `s1 = begin_nested(); s2 = begin_nested(); …; s1.rollback()` — the inner savepoint
    transaction is closed without restoring its snapshot: object 0 keeps the value flushed
    inside `s2` (stale, not expired) and object 1, inserted inside `s2`, stays persistent with
    no row.  Handles: 0 = root of the first commit, 1 = root, 2 = s1, 3 = s2. -/
theorem outer_rollback_counterexample :
    let ops : List SOp := [.add 1 10, .commit, .beginNested, .beginNested, .add 2 20, .flush,
                           .setV 0 11, .flush, .tRollback 2]
    coherent (s0.run ops) = false ∧
    (s0.run ops).rows = [(1, 10)] ∧                       -- the database did roll back
    ((s0.run ops).obj 0).v = 11 ∧ ((s0.run ops).obj 0).vL = true ∧ ((s0.run ops).obj 0).modV = false ∧
    (s0.run ops).imap.contains 1 = true ∧ ((s0.run ops).obj 1).key = some 2 := by
  decide

/-- the same history ended innermost-first is coherent -/
example :
    coherent (s0.run [.add 1 10, .commit, .beginNested, .beginNested, .add 2 20, .flush,
                      .setV 0 11, .flush, .tRollback 3, .tRollback 2]) = true := by decide

/-- F21: key switch 1→5 in the transaction, 5→6 inside a savepoint that is released, then the
    transaction is rolled back: `_remove_snapshot` replaced the parent's (1, 5) entry by (5, 6),
    so the identity key is restored to 5 — a key with no row. -/
theorem key_switch_merge_counterexample :
    let ops : List SOp := [.add 1 10, .commit, .setPk 0 5, .flush, .beginNested, .setPk 0 6, .flush,
                           .tCommit 2, .rollback]
    coherent (s0.run ops) = false ∧ (s0.run ops).rows = [(1, 10)] ∧
    ((s0.run ops).obj 0).key = some 5 ∧ ((s0.run ops).step (.load 0)).2 = .objectDeleted := by
  decide

/-- with the savepoint rolled back instead of released the original key comes back -/
example :
    let s := s0.run [.add 1 10, .commit, .setPk 0 5, .flush, .beginNested, .setPk 0 6, .flush,
                     .tRollback 2, .rollback]
    coherent s = true ∧ (s.obj 0).key = some 1 := by decide

/-- F23: an object added and key-switched inside a rolled-back transaction gets its old key
    written back after it was expunged: detached (key 1, no session) instead of transient -/
theorem rolled_back_new_object_counterexample :
    let s := s0.run [.add 1 11, .flush, .setPk 0 2, .flush, .rollback]
    (s.obj 0).attached = false ∧ (s.obj 0).key = some 1 ∧ s.rows = [] := by
  decide

/-! ## non-vacuity: a long innermost-first history stays coherent at every step -/

def sampleOps : List SOp :=
  [.add 1 10, .add 2 20, .commit, .setV 0 11, .beginNested, .add 3 30, .setPk 1 7, .flush,
   .beginNested, .delete 0, .flush, .setV 2 31, .tRollback 3, .load 0, .tCommit 2, .setV 0 12,
   .rollback, .load 0, .load 1, .delete 1, .commit]

def coherentAlong : Sess → List SOp → Bool
  | s, [] => coherent s
  | s, op :: ops => coherent s && coherentAlong (s.step op).1 ops

example : coherentAlong s0 sampleOps = true := by decide
example : (s0.run sampleOps).committed = [(1, 10)] := by decide
/-- the hypotheses of `root_rollback_expires_all` / `nested_rollback_restores_rows` are met
    by reachable states with pending, dirty, deleted and key-switched objects -/
example : ((s0.run (sampleOps.take 12)).txns.map (·.nested)) = [true, true, false] := by decide

end SaVerif.Props.C33
