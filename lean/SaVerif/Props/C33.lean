import SaVerif.Model.Txn
namespace SaVerif.Props.C33
open SaVerif.Txn

theorem placeholder : (Conn.connect (DB.init .rollback)).inTransaction = false := by decide

end SaVerif.Props.C33
