import SaVerif.Lemmas.UrlScan
/-!
# C20 — Database URLs round-trip through their string form

Property theorems about M-URL (`SaVerif/Model/Url.lean`: `URL.render_as_string`,
`_parse_url`, and the `urllib.parse` functions they call).  Strings are arbitrary lists
of Unicode scalar values; nothing below is restricted to ASCII except the drivername
(the regex's `\w` is modelled for ASCII).  The `safe=` sets and `keep_blank_values` come
from `Gen/UrlCfg.lean`, regenerated from the working tree on every run.
-/
namespace SaVerif.Props.C20
open SaVerif.Url SaVerif.Gen.UrlCfg

/-! ## urllib level -/

/-- **unquote_quote**: for every string and every `safe` set not containing `%` -/
theorem unquote_quote (safe : Str) (hs : '%' ∉ safe) (s : Str) : unquote (quote safe s) = s :=
  unquote_quote' safe hs s

/-- the three `safe=` arguments used by `render_as_string` qualify -/
theorem safe_sets_ok : '%' ∉ safeUser ∧ '%' ∉ safePassword ∧ '%' ∉ safeDatabase := by decide

/-- **quote_plus round trip** as `parse_qsl` undoes it: `+` → space, then `unquote` -/
theorem unquote_plus_quote_plus (s : Str) : unquote ((quotePlus s).map plusToSpace) = s :=
  qsDecode_quotePlus s

/-- **parse_qsl ∘ render**: every non-empty list of key/value pairs — keys and values
    arbitrary, empty strings included — is recovered from its `k=v&k=v` form with
    `keep_blank_values=True` -/
theorem parse_qsl_render (kvs : List (Str × Str)) (hne : kvs ≠ []) :
    parseQsl true (intercalate ['&'] (kvs.map pairStr)) = kvs :=
  parseQsl_render hne

/-! ## the URL -/

/-- "syntactically valid host": non-empty, none of `/ ? @`; a host without `:` must not
    start with `[` (it would be read as a bracketed IPv6 literal) -/
def WFHost (h : Str) : Prop :=
  h ≠ [] ∧ (∀ x ∈ h, x ≠ '/' ∧ x ≠ '?' ∧ x ≠ '@') ∧ (':' ∉ h → ∀ t, h ≠ '[' :: t)

structure WF (u : URL) : Prop where
  name_ne : u.drivername ≠ []
  name_ok : ∀ c ∈ u.drivername, wordPlus c = true
  host_ok : ∀ h, u.host = some h → WFHost h
  /-- forced by the proof (see `parse_render_counterexample_password_without_username`) -/
  pw_user : u.username = none → u.password = none
  keys_nodup : (keysOf u.query).Nodup
  /-- forced by the proof (see `parse_render_counterexample_singleton_tuple`) -/
  vals_ok : ∀ e ∈ u.query, WFVal e.2

/-! ### rendered segments -/

def segU (u : URL) : Str :=
  match u.username with
  | none => []
  | some user =>
    quote safeUser user
      ++ (match u.password with
          | none => []
          | some pw => ':' :: quote safePassword pw)
      ++ ['@']

def segH (u : URL) : Str :=
  match u.host with
  | none => []
  | some h => if h.contains ':' then '[' :: h ++ [']'] else h

def segP (u : URL) : Str :=
  match u.port with
  | none => []
  | some p => ':' :: (toString p).toList

def segD (u : URL) : Str :=
  match u.database with
  | none => []
  | some d => '/' :: quote safeDatabase d

def segQ (u : URL) : Str :=
  if u.query.isEmpty then [] else '?' :: intercalate ['&'] (renderPairs u.query)

theorem render_eq (u : URL) :
    render u = u.drivername ++ ':' :: '/' :: '/' :: (segU u ++ (segH u ++ (segP u ++ (segD u ++ segQ u)))) := by
  have h : "://".toList = [':', '/', '/'] := by decide
  unfold render
  rw [h]
  show _ ++ _ ++ segU u ++ segH u ++ segP u ++ segD u ++ segQ u = _
  simp only [List.append_assoc, List.cons_append, List.nil_append]

/-! ### which characters each segment can contain -/

theorem user_chars {s : Str} {x : Char} (h : x ∈ quote safeUser s) : x ≠ ':' ∧ x ≠ '/' ∧ x ≠ '@' := by
  have hq := mem_quote h
  refine ⟨?_, ?_, ?_⟩ <;> (intro he; subst he; revert hq; decide)

theorem pw_chars {s : Str} : '@' ∉ quote safePassword s := fun h => by
  have hq := mem_quote h
  revert hq; decide

theorem db_chars {s : Str} {x : Char} (h : x ∈ quote safeDatabase s) : x ≠ '?' ∧ x ≠ '@' := by
  have hq := mem_quote h
  refine ⟨?_, ?_⟩ <;> (intro he; subst he; revert hq; decide)

theorem not_port_char (c : Char) (hc : ¬ (c.isDigit = true ∨ c = '-')) {p : Int} :
    c ∉ (toString p).toList := fun h => hc (port_chars p c h)

theorem port_char_ne {p : Int} {x : Char} (h : x ∈ (toString p).toList) :
    x ≠ '/' ∧ x ≠ '?' ∧ x ≠ ']' ∧ x ≠ '@' := by
  refine ⟨?_, ?_, ?_, ?_⟩ <;> intro he <;> subst he
  · exact not_port_char '/' (by decide) h
  · exact not_port_char '?' (by decide) h
  · exact not_port_char ']' (by decide) h
  · exact not_port_char '@' (by decide) h

theorem mem_intercalate {sep : Str} {x : Char} : ∀ {l : List Str}, x ∈ intercalate sep l →
    x ∈ sep ∨ ∃ p ∈ l, x ∈ p := by
  intro l
  induction l with
  | nil => intro h; simp [intercalate] at h
  | cons a l ih =>
    intro h
    cases l with
    | nil => exact Or.inr ⟨a, List.mem_cons_self, by simpa [intercalate] using h⟩
    | cons b l =>
      simp only [intercalate, List.mem_append] at h
      rcases h with (h | h) | h
      · exact Or.inr ⟨a, List.mem_cons_self, h⟩
      · exact Or.inl h
      · rcases ih h with h' | ⟨p, hp, hx⟩
        · exact Or.inl h'
        · exact Or.inr ⟨p, List.mem_cons_of_mem _ hp, hx⟩

theorem at_not_in_pairStr (kv : Str × Str) : '@' ∉ pairStr kv := by
  unfold pairStr
  simp only [List.mem_append, List.mem_cons, not_or]
  exact ⟨at_not_in_quotePlus, by decide, at_not_in_quotePlus⟩

theorem at_not_in_segQ (u : URL) : '@' ∉ segQ u := by
  unfold segQ
  split
  · simp
  · intro h
    rcases List.mem_cons.1 h with h | h
    · revert h; decide
    · rw [renderPairs_eq] at h
      rcases mem_intercalate h with h | ⟨p, hp, hx⟩
      · revert h; decide
      · obtain ⟨kv, _, rfl⟩ := List.mem_map.1 hp
        exact at_not_in_pairStr kv hx

theorem at_not_in_segD (u : URL) : '@' ∉ segD u := by
  unfold segD
  split
  · simp
  · intro h
    rcases List.mem_cons.1 h with h | h
    · revert h; decide
    · exact (db_chars h).2 rfl

theorem at_not_in_segP (u : URL) : '@' ∉ segP u := by
  unfold segP
  split
  · simp
  · intro h
    rcases List.mem_cons.1 h with h | h
    · revert h; decide
    · exact (port_char_ne h).2.2.2 rfl

theorem at_not_in_segH {u : URL} (hw : WF u) : '@' ∉ segH u := by
  unfold segH
  split
  · simp
  · rename_i h heq
    have hh := (hw.host_ok h heq).2.1
    split
    · intro hm
      simp only [List.cons_append, List.mem_cons, List.mem_append, List.mem_singleton,
        List.not_mem_nil, or_false] at hm
      rcases hm with hm | hm | hm
      · revert hm; decide
      · exact (hh _ hm).2.2 rfl
      · revert hm; decide
    · intro hm
      exact (hh _ hm).2.2 rfl

theorem at_not_in_tail {u : URL} (hw : WF u) : '@' ∉ segH u ++ (segP u ++ (segD u ++ segQ u)) := by
  simp only [List.mem_append, not_or]
  exact ⟨at_not_in_segH hw, at_not_in_segP u, at_not_in_segD u, at_not_in_segQ u⟩

/-! ### segment boundaries -/

theorem segQ_head (u : URL) : ∀ c t, segQ u = c :: t → c = '?' := by
  intro c t h
  unfold segQ at h
  split at h
  · cases h
  · exact (List.cons.inj h).1.symm

theorem segDQ_head (u : URL) : ∀ c t, segD u ++ segQ u = c :: t → (c = '/' ∨ c = '?') := by
  intro c t h
  unfold segD at h
  split at h
  · exact Or.inr (segQ_head u c t (by simpa using h))
  · exact Or.inl (List.cons.inj h).1.symm

theorem segPDQ_delim (u : URL) : StartsDelim (segP u ++ (segD u ++ segQ u)) := by
  intro c t h
  unfold segP at h
  split at h
  · rcases segDQ_head u c t (by simpa using h) with h' | h'
    · exact Or.inr (Or.inl h')
    · exact Or.inr (Or.inr h')
  · exact Or.inl (List.cons.inj h).1.symm

/-! ### scanning each segment -/

theorem scanQuery_segQ (u : URL) :
    scanQuery (segQ u) = if u.query.isEmpty then none else some (intercalate ['&'] (renderPairs u.query)) := by
  unfold segQ
  split <;> rfl

theorem scanDb_seg (u : URL) :
    scanDb (segD u ++ segQ u) = (u.database.map (quote safeDatabase), segQ u) := by
  unfold segD
  cases hd : u.database with
  | none =>
    simp only [List.nil_append, Option.map_none]
    unfold scanDb
    split
    · rename_i t heq
      have := segQ_head u _ _ heq
      exact absurd this (by decide)
    · rfl
  | some d =>
    simp only [Option.map_some, List.cons_append]
    unfold scanDb
    have := tw_stop (p := fun x => x != '?') (a := quote safeDatabase d) (T := segQ u)
      (fun x hx => by simpa using (db_chars hx).1)
      (fun c t he => by rw [segQ_head u c t he]; rfl)
    simp only [this.1, this.2]

theorem scanPort_seg (u : URL) :
    scanPort (segP u ++ (segD u ++ segQ u)) = (u.port.map (fun p => (toString p).toList), segD u ++ segQ u) := by
  unfold segP
  cases hp : u.port with
  | none =>
    simp only [List.nil_append, Option.map_none]
    unfold scanPort
    split
    · rename_i t heq
      rcases segDQ_head u _ _ heq with h | h <;> exact absurd h (by decide)
    · rfl
  | some p =>
    simp only [Option.map_some, List.cons_append]
    unfold scanPort
    have := tw_stop (p := fun c => c != '/' && c != '?') (a := (toString p).toList) (T := segD u ++ segQ u)
      (fun x hx => by simp [(port_char_ne hx).1, (port_char_ne hx).2.1])
      (fun c t he => by rcases segDQ_head u c t he with h | h <;> (subst h; rfl))
    simp only [this.1, this.2]

/-- `(ipv4host, ipv6host)` the regex assigns to a host -/
def hostGroups : Option Str → Option Str × Option Str
  | none => (none, none)
  | some h => if h.contains ':' then (none, some h) else (some h, none)

theorem scanHost_seg {u : URL} (hw : WF u) :
    scanHost (segH u ++ (segP u ++ (segD u ++ segQ u))) =
      ((hostGroups u.host).1, (hostGroups u.host).2, segP u ++ (segD u ++ segQ u)) := by
  unfold segH hostGroups
  cases hh : u.host with
  | none =>
    simp only [List.nil_append]
    exact scanHost_none (segPDQ_delim u)
  | some h =>
    obtain ⟨hne, hch, hbr⟩ := hw.host_ok h hh
    by_cases hc : h.contains ':' = true
    · simp only [hc, if_true]
      have hassoc : ('[' :: h ++ [']']) ++ (segP u ++ (segD u ++ segQ u))
          = '[' :: (h ++ ']' :: (segP u ++ (segD u ++ segQ u))) := by simp
      rw [hassoc]
      refine scanHost_v6 hne (fun x hx => ⟨(hch x hx).1, (hch x hx).2.1⟩) ?_ (segDQ_head u)
      intro x hx
      unfold segP at hx
      split at hx
      · cases hx
      · rcases List.mem_cons.1 hx with hx | hx
        · subst hx; decide
        · exact ⟨(port_char_ne hx).1, (port_char_ne hx).2.1, (port_char_ne hx).2.2.1⟩
    · simp only [hc, Bool.false_eq_true, if_false]
      have hnc : ':' ∉ h := by simpa using hc
      exact scanHost_v4 hne
        (fun x hx => ⟨(hch x hx).1, fun he => hnc (he ▸ hx), (hch x hx).2.1⟩) (hbr hnc) (segPDQ_delim u)

theorem scanUserinfo_seg {u : URL} (hw : WF u) (T : Str) (hT : '@' ∉ T) :
    scanUserinfo (segU u ++ T) =
      (u.username.map (quote safeUser), u.password.map (quote safePassword), T) := by
  unfold segU
  cases hu : u.username with
  | none =>
    rw [hw.pw_user hu]
    simp only [List.nil_append, Option.map_none]
    exact scanUserinfo_noAt hT
  | some user =>
    cases hp : u.password with
    | none =>
      simp only [List.append_nil, Option.map_some, Option.map_none, List.append_assoc,
        List.singleton_append]
      exact scanUserinfo_user (fun x hx => user_chars hx) hT
    | some pw =>
      simp only [Option.map_some, List.append_assoc, List.cons_append, List.singleton_append,
        List.nil_append]
      exact scanUserinfo_userpw T (fun x hx => ⟨(user_chars hx).1, (user_chars hx).2.1⟩) pw_chars

/-- what the regex extracts from a rendered URL -/
theorem scan_render {u : URL} (hw : WF u) :
    scan (render u) = some
      ⟨u.drivername, u.username.map (quote safeUser), u.password.map (quote safePassword),
       (hostGroups u.host).1, (hostGroups u.host).2, u.port.map (fun p => (toString p).toList),
       u.database.map (quote safeDatabase),
       if u.query.isEmpty then none else some (intercalate ['&'] (renderPairs u.query))⟩ := by
  rw [render_eq]
  unfold scan
  have hname := takeWhile_append_cons (p := wordPlus) (a := u.drivername) (c := ':')
    ('/' :: '/' :: (segU u ++ (segH u ++ (segP u ++ (segD u ++ segQ u))))) hw.name_ok (by decide)
  have hemp : u.drivername.isEmpty = false := by
    cases hd : u.drivername with
    | nil => exact absurd hd hw.name_ne
    | cons _ _ => rfl
  simp only [hname.1, hname.2, hemp]
  rw [scanUserinfo_seg hw _ (at_not_in_tail hw)]
  simp only
  rw [scanHost_seg hw]
  simp only
  rw [scanPort_seg]
  simp only
  rw [scanDb_seg]
  simp only
  rw [scanQuery_segQ]

/-! ## the round trip -/

theorem map_unquote_quote (safe : Str) (hs : '%' ∉ safe) (o : Option Str) :
    (o.map (quote safe)).map unquote = o := by
  cases o with
  | none => rfl
  | some s => simp [unquote_quote' safe hs s]

theorem hostGroups_join (h : Option Str) : joinHost (hostGroups h).1 (hostGroups h).2 = h := by
  cases h with
  | none => rfl
  | some s =>
    by_cases hc : ':' ∈ s <;> simp [hostGroups, joinHost, hc]

theorem portOf_render (p : Option Int) : portOf (p.map (fun p => (toString p).toList)) = .ok p := by
  cases p with
  | none => rfl
  | some p =>
    simp only [Option.map_some, portOf]
    rw [parsePort_toString]

theorem keepBlank_true : keepBlank = true := by decide

theorem query_roundtrip {u : URL} (hw : WF u) (hne : u.query.isEmpty = false) :
    (parseQsl keepBlank (intercalate ['&'] (renderPairs u.query))).foldl addPair [] = sortEntries u.query := by
  rw [keepBlank_true, renderPairs_eq]
  have hperm := sortEntries_perm u.query
  have hE : sortEntries u.query ≠ [] := by
    intro he
    rw [he] at hperm
    have := hperm.symm.eq_nil
    rw [this] at hne
    cases hne
  have hvals : ∀ e ∈ sortEntries u.query, WFVal e.2 := fun e he => hw.vals_ok e (hperm.mem_iff.1 he)
  have hkv : (sortEntries u.query).flatMap kvsOf ≠ [] := by
    cases hs : sortEntries u.query with
    | nil => exact absurd hs hE
    | cons e es =>
      have hwe := hvals e (hs ▸ List.mem_cons_self)
      obtain ⟨k, qv⟩ := e
      cases qv with
      | single v => simp [kvsOf, QVal.toList]
      | multi vs =>
        cases vs with
        | nil => simp [WFVal] at hwe
        | cons v vs => simp [kvsOf, QVal.toList]
  rw [parseQsl_render hkv]
  have hnd : (keysOf ([] ++ sortEntries u.query)).Nodup := by
    simp only [List.nil_append, keysOf]
    exact (hperm.map _).nodup_iff.2 hw.keys_nodup
  have := foldl_addPair_entries (sortEntries u.query) [] hnd hvals
  simpa using this

/-- **parse_render**: for every well-formed URL, parsing its rendered form gives back the
    URL; the query comes back in key order (`URL.__eq__` compares it as a dict, see
    `parse_render_query_perm`).  `no_component_leak` is a corollary: every component of
    the result is the corresponding component of the input, for arbitrary contents of the
    others. -/
theorem parse_render (u : URL) (hw : WF u) :
    parseUrl (render u) = .ok { u with query := sortEntries u.query } := by
  unfold parseUrl
  rw [scan_render hw]
  simp only
  have hso := safe_sets_ok
  rw [portOf_render, map_unquote_quote _ hso.1, map_unquote_quote _ hso.2.1,
    map_unquote_quote _ hso.2.2, hostGroups_join]
  simp only
  cases hq : u.query.isEmpty with
  | true =>
    have : u.query = [] := by simpa using hq
    simp [this, sortEntries, queryOf]
  | false =>
    simp only [Bool.false_eq_true, if_false, queryOf]
    rw [query_roundtrip hw hq]

/-- the query of the parsed URL is the original one as a dict -/
theorem parse_render_query_perm (u : URL) : (sortEntries u.query).Perm u.query :=
  sortEntries_perm u.query

/-- **no_component_leak**: whatever the other components contain, each parsed component
    equals the rendered one -/
theorem no_component_leak (u v : URL) (hw : WF u) (h : parseUrl (render u) = .ok v) :
    v.drivername = u.drivername ∧ v.username = u.username ∧ v.password = u.password ∧
    v.host = u.host ∧ v.port = u.port ∧ v.database = u.database ∧ v.query.Perm u.query := by
  rw [parse_render u hw] at h
  cases h
  exact ⟨rfl, rfl, rfl, rfl, rfl, rfl, sortEntries_perm u.query⟩

/-! ## counterexamples (replayed on the real code by harness/props/c20.py) -/

/-- `{"a": ("x",)}` comes back as `{"a": "x"}`: `vals_ok` cannot be dropped -/
theorem parse_render_counterexample_singleton_tuple :
    (parseUrl (render ⟨['p', 'g'], none, none, some ['h'], none, none, [(['a'], .multi [['x']])]⟩)).toOption
      = some ⟨['p', 'g'], none, none, some ['h'], none, none, [(['a'], .single ['x'])]⟩ := by
  decide

/-- a password without a username is not rendered at all: `pw_user` cannot be dropped -/
theorem parse_render_counterexample_password_without_username :
    (parseUrl (render ⟨['p', 'g'], none, some ['p'], some ['h'], none, none, []⟩)).toOption
      = some ⟨['p', 'g'], none, none, some ['h'], none, none, []⟩ := by
  decide

/-! ## non-vacuity -/

/-- blank values (fixed in /repo: keep_blank_values=True), specials in every component -/
def exUrl : URL :=
  ⟨"pg+x".toList, some "u@:/ é".toList, some "p@:?+%".toList, some "::1".toList, some 5432,
   some "a/b?c d".toList, [("k&=".toList, .single []), ([], .multi ["1".toList, [], "+ %".toList])]⟩

theorem exUrl_wf : WF exUrl where
  name_ne := by decide
  name_ok := by decide
  host_ok := by
    intro h hh
    cases hh
    refine ⟨by decide, by decide, ?_⟩
    intro hc
    exact absurd (by decide : ':' ∈ "::1".toList) hc
  pw_user := by intro h; cases h
  keys_nodup := by decide
  vals_ok := by
    intro e he
    simp only [exUrl, List.mem_cons, List.not_mem_nil, or_false] at he
    rcases he with rfl | rfl
    · trivial
    · show 2 ≤ 3; decide

example : parseUrl (render exUrl) = .ok { exUrl with query := sortEntries exUrl.query } :=
  parse_render exUrl exUrl_wf

end SaVerif.Props.C20
