import SaVerif.Lemmas.Expire
/-!
# C46 — Expired and refreshed attributes reflect the database

Theorems about M-ORM/expire (`SaVerif/Model/Expire.lean`).

* `read_expired_eq_db` — reading an attribute that is not loaded returns the value
  the row has now (or the autoflush fails).
* `fresh_after_expire`, `fresh_after_expireAll`, `fresh_after_refresh`,
  `fresh_after_commit_eoc`, `fresh_after_rollback`, `fresh_after_populate_existing`
  + `read_of_fresh` — after each of the operations the property names, the next read
  of a covered attribute returns the database value.
* `pending_survives` — a pending value stays in place under every operation that
  does not expire / refresh / repopulate / overwrite that attribute and does not roll
  the session back.
* `coh_run` (induction over arbitrary operation sequences): as long as no other
  connection writes, every loaded unmodified attribute equals the database and every
  remembered committed value too; `coh_after_expireAll`, `coh_after_rollback`,
  `coh_after_commit_eoc` re-establish it from *any* state (i.e. after arbitrary
  external writes); `read_coherent` is the user-level corollary.
-/
namespace SaVerif.Props.C46
open SaVerif.Expire

def Coh (st : St) : Prop := ∀ k o, st.objs k = some o → CohObj o (st.rows k)
def WF (c : Cfg) (st : St) : Prop := ∀ k o, st.objs k = some o → WFObj c o

/-- operations that bring state in from outside the Session: the other connection's writes,
    and (re-)attaching an instance that was loaded earlier / elsewhere -/
def isExt : Op → Bool
  | .extSet _ _ _ | .extDel _ | .extIns _ _ | .detach _ | .attach _ _ => true
  | _ => false

/-! ## small facts about the state transformers -/

theorem expireAllObjs_some {objs : Nat → Option Obj} {k : Nat} {o' : Obj}
    (h : expireAllObjs objs k = some o') : ∃ o, objs k = some o ∧ o' = expireObj o := by
  unfold expireAllObjs at h
  cases ho : objs k with
  | none => simp [ho] at h
  | some o => simp only [ho, Option.map_some, Option.some.injEq] at h; exact ⟨o, rfl, h.symm⟩

theorem coh_expireAll (rows : DB) (saved : Option DB) (objs : Nat → Option Obj) (txn : Bool)
    (det : Nat → Option Obj) : Coh ⟨rows, saved, expireAllObjs objs, txn, det⟩ := by
  intro k o' h
  obtain ⟨o, _, he⟩ := expireAllObjs_some h
  rw [he]; exact cohObj_expireObj o _

theorem wf_expireAll (c : Cfg) (rows : DB) (saved : Option DB) (objs : Nat → Option Obj) (txn : Bool)
    (det : Nat → Option Obj) : WF c ⟨rows, saved, expireAllObjs objs, txn, det⟩ := by
  intro k o' h
  obtain ⟨o, _, he⟩ := expireAllObjs_some h
  rw [he]; exact wfObj_expireObj c o

theorem coh_rolledBack (st : St) : Coh (rolledBack st) := coh_expireAll _ _ _ _ _
theorem wf_rolledBack (c : Cfg) (st : St) : WF c (rolledBack st) := wf_expireAll c _ _ _ _ _

theorem setObj_objs (st : St) (k j : Nat) (o : Option Obj) :
    (setObj st k o).objs j = if j = k then o else st.objs j := rfl

theorem setObj_rows (st : St) (k : Nat) (o : Option Obj) : (setObj st k o).rows = st.rows := rfl

theorem coh_setObj {st : St} (h : Coh st) (k : Nat) (o : Obj) (ho : CohObj o (st.rows k)) :
    Coh (setObj st k (some o)) := by
  intro j o' hj
  rw [setObj_objs] at hj
  rw [setObj_rows]
  by_cases hjk : j = k
  · subst hjk; simp only [if_true, Option.some.injEq] at hj; rw [← hj]; exact ho
  · simp only [hjk, if_false] at hj; exact h j o' hj

theorem wf_setObj {c : Cfg} {st : St} (h : WF c st) (k : Nat) (o : Obj) (ho : WFObj c o) :
    WF c (setObj st k (some o)) := by
  intro j o' hj
  rw [setObj_objs] at hj
  by_cases hjk : j = k
  · subst hjk; simp only [if_true, Option.some.injEq] at hj; rw [← hj]; exact ho
  · simp only [hjk, if_false] at hj; exact h j o' hj

/-- changing only `txn` -/
theorem coh_txn {st : St} (h : Coh st) (b : Bool) : Coh { st with txn := b } := h
theorem wf_txn {c : Cfg} {st : St} (h : WF c st) (b : Bool) : WF c { st with txn := b } := h

/-! ## flush -/

theorem doFlush_some {c : Cfg} {st st1 : St} (h : doFlush c st = some st1) :
    anyBelow c.npk (staleAt c st) = false ∧
    st1.rows = (fun k => if k < c.npk then flushRow c (st.objs k) (st.rows k) else st.rows k) ∧
    st1.objs = (fun k => if k < c.npk then (st.objs k).map (fun o => flushObj o (st.rows k)) else st.objs k) := by
  unfold doFlush at h
  split at h
  · cases h
  · rename_i hs
    simp only [Option.some.injEq] at h
    subst h
    exact ⟨by simpa using hs, rfl, rfl⟩

theorem doFlush_inv {c : Cfg} {st st1 : St} (hw : WF c st) (hc : Coh st)
    (h : doFlush c st = some st1) : WF c st1 ∧ Coh st1 := by
  obtain ⟨hs, hrows, hobjs⟩ := doFlush_some h
  refine ⟨?_, ?_⟩
  · intro k o' hk
    rw [hobjs] at hk
    simp only at hk
    by_cases hlt : k < c.npk
    · simp only [hlt, if_true] at hk
      cases ho : st.objs k with
      | none => simp [ho] at hk
      | some o =>
        simp only [ho, Option.map_some, Option.some.injEq] at hk
        rw [← hk]; exact wfObj_flushObj (hw k o ho) _
    · simp only [hlt, if_false] at hk; exact hw k o' hk
  · intro k o' hk
    rw [hobjs] at hk
    rw [hrows]
    simp only at hk ⊢
    by_cases hlt : k < c.npk
    · simp only [hlt, if_true] at hk ⊢
      cases ho : st.objs k with
      | none => simp [ho] at hk
      | some o =>
        simp only [ho, Option.map_some, Option.some.injEq] at hk
        rw [← hk]
        have hst := anyBelow_false hs hlt
        simp only [staleAt, ho] at hst
        have hns : (needsUpdate c o && (st.rows k).isNone) = false := by
          cases hn : needsUpdate c o with
          | false => rfl
          | true => simpa [hn] using hst
        exact cohObj_flush (hw k o ho) (hc k o ho) hns
    · simp only [hlt, if_false] at hk ⊢; exact hc k o' hk

theorem autoflush_inv {c : Cfg} {st st1 : St} (hw : WF c st) (hc : Coh st)
    (h : autoflush c st = some st1) : WF c st1 ∧ Coh st1 := by
  unfold autoflush at h
  split at h
  · exact doFlush_inv hw hc h
  · cases h; exact ⟨hw, hc⟩

/-- the flush does not touch an unmodified attribute's row value and keeps the
    object's unloaded attributes unloaded unless it had to load the primary key -/
theorem doFlush_row_unmod {c : Cfg} {st st1 : St} (h : doFlush c st = some st1) (k : Nat) (o : Obj)
    (r : Vals) (a : Attr) (ho : st.objs k = some o) (hr : st.rows k = some r) (hm : o.mod a = false) :
    ∃ r1, st1.rows k = some r1 ∧ r1 a = r a := by
  obtain ⟨_, hrows, _⟩ := doFlush_some h
  rw [hrows]
  simp only
  by_cases hlt : k < c.npk
  · simp only [hlt, if_true, ho, hr]
    exact flushRow_unchanged c o r a (attrChanged_of_unmod o a hm)
  · simp only [hlt, if_false]; exact ⟨r, hr, rfl⟩

theorem autoflush_row_unmod {c : Cfg} {st st1 : St} (h : autoflush c st = some st1) (k : Nat) (o : Obj)
    (r : Vals) (a : Attr) (ho : st.objs k = some o) (hr : st.rows k = some r) (hm : o.mod a = false) :
    ∃ r1, st1.rows k = some r1 ∧ r1 a = r a := by
  unfold autoflush at h
  split at h
  · exact doFlush_row_unmod h k o r a ho hr hm
  · cases h; exact ⟨r, hr, rfl⟩

theorem doFlush_obj {c : Cfg} {st st1 : St} (h : doFlush c st = some st1) (k : Nat) (o : Obj)
    (ho : st.objs k = some o) : ∃ o1, st1.objs k = some o1 := by
  obtain ⟨_, _, hobjs⟩ := doFlush_some h
  rw [hobjs]
  simp only
  by_cases hlt : k < c.npk
  · simp [hlt, ho]
  · simp [hlt, ho]

theorem autoflush_obj {c : Cfg} {st st1 : St} (h : autoflush c st = some st1) (k : Nat) (o : Obj)
    (ho : st.objs k = some o) : ∃ o1, st1.objs k = some o1 := by
  unfold autoflush at h
  split at h
  · exact doFlush_obj h k o ho
  · cases h; exact ⟨o, ho⟩

/-! ## reading an expired attribute -/

/-- **read_expired_eq_db**: the attribute is not loaded and not modified, the row
    exists: the read returns the row's current value — unless the autoflush that
    precedes the load fails (then the session is rolled back). -/
theorem read_expired_eq_db (c : Cfg) (st : St) (k : Nat) (a : Attr) (o : Obj) (r : Vals)
    (ho : st.objs k = some o) (hd : o.dict a = none) (hm : o.mod a = false)
    (hr : st.rows k = some r) :
    (step c st (.read k a)).2 = .val (r a) ∨ (step c st (.read k a)).2 = .stale := by
  simp only [step, ho, hd]
  cases haf : autoflush c st with
  | none => right; rfl
  | some st1 =>
    left
    obtain ⟨r1, hr1, he⟩ := autoflush_row_unmod haf k o r a ho hr hm
    obtain ⟨o1, ho1⟩ := autoflush_obj haf k o ho
    simp only [ho1, hr1, he]

/-- with autoflush off (or nothing to flush) there is no failure case -/
theorem read_expired_eq_db_noflush (c : Cfg) (hc : c.af = false) (st : St) (k : Nat) (a : Attr)
    (o : Obj) (r : Vals) (ho : st.objs k = some o) (hd : o.dict a = none)
    (hr : st.rows k = some r) : (step c st (.read k a)).2 = .val (r a) := by
  simp only [step, ho, hd, autoflush, hc, Bool.false_eq_true, if_false, hr]

/-- the row vanished: ObjectDeletedError, never a stale value -/
theorem read_expired_gone (c : Cfg) (hc : c.af = false) (st : St) (k : Nat) (a : Attr)
    (o : Obj) (ho : st.objs k = some o) (hd : o.dict a = none) (hr : st.rows k = none) :
    (step c st (.read k a)).2 = .gone := by
  simp only [step, ho, hd, autoflush, hc, Bool.false_eq_true, if_false, hr]

/-! ## freshness after the operations the property names -/

/-- attribute `a` of object `k` is *fresh*: not pending, and either unloaded (the next
    read loads it) or equal to the row's current value -/
def Fresh (st : St) (k : Nat) (a : Attr) : Prop :=
  ∀ o, st.objs k = some o → o.mod a = false ∧
    (o.dict a = none ∨ ∃ r, st.rows k = some r ∧ o.dict a = some (r a))

/-- **read_of_fresh**: reading a fresh attribute of an object whose row exists
    returns the database value (or the autoflush fails) -/
theorem read_of_fresh (c : Cfg) (st : St) (k : Nat) (a : Attr) (o : Obj) (r : Vals)
    (hf : Fresh st k a) (ho : st.objs k = some o) (hr : st.rows k = some r) :
    (step c st (.read k a)).2 = .val (r a) ∨ (step c st (.read k a)).2 = .stale := by
  obtain ⟨hm, hd | ⟨r', hr', hd⟩⟩ := hf o ho
  · exact read_expired_eq_db c st k a o r ho hd hm hr
  · left
    rw [hr] at hr'; cases hr'
    simp only [step, ho, hd]

theorem fresh_after_expire (c : Cfg) (st : St) (k : Nat) (attrs : Option (List Attr)) (a : Attr)
    (hcov : ∀ l, attrs = some l → a ∈ l) : Fresh (step c st (.expire k attrs)).1 k a := by
  simp only [step]
  cases ho : st.objs k with
  | none => intro o h; simp [ho] at h
  | some o =>
    intro o' h
    simp only [setObj_objs, if_true, Option.some.injEq] at h
    rw [← h]
    cases attrs with
    | none => exact ⟨rfl, Or.inl rfl⟩
    | some l =>
      have hmem : a ∈ l := hcov l rfl
      simp [expireSel, expireAttrs, hmem]

theorem fresh_after_expireAll (c : Cfg) (st : St) (k : Nat) (a : Attr) :
    Fresh (step c st .expireAll).1 k a := by
  intro o' h
  simp only [step] at h
  obtain ⟨o, _, he⟩ := expireAllObjs_some h
  rw [he]; exact ⟨rfl, Or.inl rfl⟩

theorem fresh_after_rollback (c : Cfg) (st : St) (htx : st.txn = true) (k : Nat) (a : Attr) :
    Fresh (step c st .rollback).1 k a := by
  intro o' h
  simp only [step, htx, if_true, rolledBack] at h
  obtain ⟨o, _, he⟩ := expireAllObjs_some h
  rw [he]; exact ⟨rfl, Or.inl rfl⟩

theorem fresh_after_commit_eoc (c : Cfg) (heoc : c.eoc = true) (st : St) (k : Nat) (a : Attr) :
    Fresh (step c st .commit).1 k a := by
  intro o' h
  simp only [step] at h
  cases hf : doFlush c st with
  | none =>
    simp only [hf, rolledBack] at h
    obtain ⟨o, _, he⟩ := expireAllObjs_some h
    rw [he]; exact ⟨rfl, Or.inl rfl⟩
  | some st1 =>
    simp only [hf, heoc, if_true] at h
    obtain ⟨o, _, he⟩ := expireAllObjs_some h
    rw [he]; exact ⟨rfl, Or.inl rfl⟩

/-- refresh that did not fail: the covered attributes hold the row's current values -/
theorem fresh_after_refresh (c : Cfg) (st : St) (k : Nat) (attrs : Option (List Attr)) (a : Attr)
    (hcov : ∀ l, attrs = some l → a ∈ l)
    (hok : (step c st (.refresh k attrs)).2 = .done) :
    Fresh (step c st (.refresh k attrs)).1 k a := by
  simp only [step] at hok ⊢
  cases ho : st.objs k with
  | none => intro o h; simp [ho] at h
  | some o =>
    simp only [ho] at hok ⊢
    cases haf : autoflush c (setObj st k (some (expireSel o attrs))) with
    | none => simp [haf] at hok
    | some st1 =>
      simp only [haf] at hok ⊢
      cases ho1 : st1.objs k with
      | none => simp [ho1] at hok
      | some o1 =>
        cases hr1 : st1.rows k with
        | none => simp [ho1, hr1] at hok
        | some r =>
          simp only [ho1, hr1]
          intro o' h
          simp only [setObj_objs, if_true, Option.some.injEq] at h
          rw [← h, setObj_rows]
          cases attrs with
          | none => exact ⟨rfl, Or.inr ⟨r, hr1, rfl⟩⟩
          | some l =>
            have hmem : a ∈ l := hcov l rfl
            exact ⟨by simp [populateAttrs, hmem], Or.inr ⟨r, hr1, by simp [populateAttrs, hmem]⟩⟩

/-- a populate_existing query: the (auto)flush succeeded and the filter matched row `k` -/
theorem fresh_after_populate_existing (c : Cfg) (st st1 : St) (filt : Option (Attr × Int)) (k : Nat)
    (a : Attr) (hk : k < c.npk) (haf : autoflush c st = some st1) (r : Vals)
    (hr : st1.rows k = some r) (hm : rowMatches filt r = true) :
    Fresh (step c st (.query true filt)).1 k a := by
  simp only [step, haf]
  intro o' h
  simp only [hk, if_true, hr, hm] at h
  cases ho1 : st1.objs k with
  | none =>
    simp only [ho1, Option.some.injEq] at h
    rw [← h]; exact ⟨rfl, Or.inr ⟨r, hr, rfl⟩⟩
  | some o1 =>
    simp only [ho1, Option.some.injEq, if_true] at h
    rw [← h]; exact ⟨rfl, Or.inr ⟨r, hr, rfl⟩⟩

/-- an instance that was loaded earlier / elsewhere and is (re-)attached — `add()` of a
    detached object or `merge(obj, load=False)` — is loaded in a transaction that never
    touched the database; the commit that follows expires it all the same
    (`fresh_after_commit_eoc` holds for every state), so the next read goes to the database.
    This is the state: attached, loaded, transaction begun. -/
theorem attach_loaded (c : Cfg) (st : St) (k : Nat) (m : Bool) (o : Obj)
    (hd : st.det k = some o) (hn : st.objs k = none) :
    (step c st (.attach k m)).1.objs k = some (cleanCopy o) ∧ (step c st (.attach k m)).1.txn = true ∧
    (step c st (.attach k m)).1.rows = st.rows ∧ (step c st (.attach k m)).1.saved = st.saved := by
  simp [step, hd, hn]

/-! ## pending values survive -/

theorem flushObj_dict (o : Obj) (row : Option Vals) (a : Attr) (v : Int) (h : o.dict a = some v) :
    (flushObj o row).dict a = some v := by
  unfold flushObj
  by_cases hd : o.dirty = true
  · simp only [hd, if_true]
    cases hpk : o.pk <;> cases row <;> simp [loadExpired, h]
  · simp only [hd, Bool.false_eq_true, if_false]; exact h

theorem doFlush_dict {c : Cfg} {st st1 : St} (h : doFlush c st = some st1) (k : Nat) (o : Obj)
    (a : Attr) (v : Int) (ho : st.objs k = some o) (hd : o.dict a = some v) :
    ∃ o1, st1.objs k = some o1 ∧ o1.dict a = some v := by
  obtain ⟨_, _, hobjs⟩ := doFlush_some h
  rw [hobjs]
  simp only
  by_cases hlt : k < c.npk
  · simp only [hlt, if_true, ho, Option.map_some]
    exact ⟨_, rfl, flushObj_dict o _ a v hd⟩
  · simp only [hlt, if_false]; exact ⟨o, ho, hd⟩

theorem autoflush_dict {c : Cfg} {st st1 : St} (h : autoflush c st = some st1) (k : Nat) (o : Obj)
    (a : Attr) (v : Int) (ho : st.objs k = some o) (hd : o.dict a = some v) :
    ∃ o1, st1.objs k = some o1 ∧ o1.dict a = some v := by
  unfold autoflush at h
  split at h
  · exact doFlush_dict h k o a v ho hd
  · cases h; exact ⟨o, ho, hd⟩

theorem loadExpired_dict (o : Obj) (r : Vals) (a : Attr) (v : Int) (h : o.dict a = some v) :
    (loadExpired o r).dict a = some v := by
  simp [loadExpired, h]

/-- the operations after which the application can no longer expect attribute `a` of
    object `k` to hold the value it had -/
def Discards (c : Cfg) (op : Op) (k : Nat) (a : Attr) : Bool :=
  match op with
  | .set k' a' _ => k' == k && a' == a
  | .expire k' attrs | .refresh k' attrs =>
    k' == k && (match attrs with
                | none => true
                | some l => l.contains a)
  | .expireAll => true
  | .query pop _ => pop
  | .rollback => true
  | .commit => c.eoc
  | .detach k' => k' == k
  | _ => false

/-- **pending_survives**: whatever value attribute `a` of object `k` holds (in
    particular a pending one) is still there after any operation that does not
    overwrite, expire, refresh or repopulate it and does not end in a rollback. -/
theorem pending_survives (c : Cfg) (st : St) (op : Op) (k : Nat) (a : Attr) (o : Obj) (v : Int)
    (ho : st.objs k = some o) (hd : o.dict a = some v)
    (hnd : Discards c op k a = false) (hns : (step c st op).2 ≠ .stale) :
    ∃ o', (step c st op).1.objs k = some o' ∧ o'.dict a = some v := by
  cases op with
  | read k' a' =>
    simp only [step] at hns ⊢
    cases ho' : st.objs k' with
    | none => exact ⟨o, ho, hd⟩
    | some o2 =>
      simp only [ho'] at hns ⊢
      cases hd' : o2.dict a' with
      | some w => exact ⟨o, ho, hd⟩
      | none =>
        simp only [hd'] at hns ⊢
        cases haf : autoflush c st with
        | none => simp [haf] at hns
        | some st1 =>
          simp only [haf]
          obtain ⟨o1, ho1, hd1⟩ := autoflush_dict haf k o a v ho hd
          cases ho1' : st1.objs k' with
          | none => exact ⟨o1, ho1, hd1⟩
          | some o3 =>
            cases hr : st1.rows k' with
            | none => exact ⟨o1, ho1, hd1⟩
            | some r =>
              simp only [setObj_objs]
              by_cases hkk : k = k'
              · subst hkk
                rw [ho1] at ho1'; cases ho1'
                exact ⟨_, if_pos rfl, loadExpired_dict o1 r a v hd1⟩
              · simp only [hkk, if_false]; exact ⟨o1, ho1, hd1⟩
  | set k' a' w =>
    simp only [step]
    cases ho' : st.objs k' with
    | none => exact ⟨o, ho, hd⟩
    | some o2 =>
      simp only [setObj_objs]
      by_cases hkk : k = k'
      · subst hkk
        rw [ho] at ho'; cases ho'
        simp only [Discards, beq_self_eq_true, Bool.true_and, beq_eq_false_iff_ne, ne_eq] at hnd
        refine ⟨_, if_pos rfl, ?_⟩
        have hne : ¬ a = a' := fun h => hnd h.symm
        simp [setAttr, hne, hd]
      · simp only [hkk, if_false]; exact ⟨o, ho, hd⟩
  | expire k' attrs =>
    simp only [step]
    cases ho' : st.objs k' with
    | none => exact ⟨o, ho, hd⟩
    | some o2 =>
      simp only [setObj_objs]
      by_cases hkk : k = k'
      · subst hkk
        rw [ho] at ho'; cases ho'
        simp only [Discards, beq_self_eq_true, Bool.true_and] at hnd
        refine ⟨_, if_pos rfl, ?_⟩
        cases attrs with
        | none => simp at hnd
        | some l =>
          have hnm : ¬ a ∈ l := by simpa using hnd
          simp [expireSel, expireAttrs, hnm, hd]
      · simp only [hkk, if_false]; exact ⟨o, ho, hd⟩
  | expireAll => simp [Discards] at hnd
  | refresh k' attrs =>
    simp only [step] at hns ⊢
    cases ho' : st.objs k' with
    | none => exact ⟨o, ho, hd⟩
    | some o2 =>
      simp only [ho'] at hns ⊢
      -- the value is still there after the expire half of refresh
      have hex : ∃ o0, (setObj st k' (some (expireSel o2 attrs))).objs k = some o0 ∧ o0.dict a = some v := by
        simp only [setObj_objs]
        by_cases hkk : k = k'
        · subst hkk
          rw [ho] at ho'; cases ho'
          simp only [Discards, beq_self_eq_true, Bool.true_and] at hnd
          refine ⟨_, if_pos rfl, ?_⟩
          cases attrs with
          | none => simp at hnd
          | some l =>
            have hnm : ¬ a ∈ l := by simpa using hnd
            simp [expireSel, expireAttrs, hnm, hd]
        · simp only [hkk, if_false]; exact ⟨o, ho, hd⟩
      obtain ⟨o0, ho0, hd0⟩ := hex
      cases haf : autoflush c (setObj st k' (some (expireSel o2 attrs))) with
      | none => simp [haf] at hns
      | some st1 =>
        simp only [haf]
        obtain ⟨o1, ho1, hd1⟩ := autoflush_dict haf k o0 a v ho0 hd0
        cases ho1' : st1.objs k' with
        | none => exact ⟨o1, ho1, hd1⟩
        | some o3 =>
          cases hr : st1.rows k' with
          | none => exact ⟨o1, ho1, hd1⟩
          | some r =>
            simp only [setObj_objs]
            by_cases hkk : k = k'
            · subst hkk
              rw [ho1] at ho1'; cases ho1'
              simp only [Discards, beq_self_eq_true, Bool.true_and] at hnd
              refine ⟨_, if_pos rfl, ?_⟩
              cases attrs with
              | none => simp at hnd
              | some l =>
                have hnm : ¬ a ∈ l := by simpa using hnd
                simp [populateAttrs, hnm, hd1]
            · simp only [hkk, if_false]; exact ⟨o1, ho1, hd1⟩
  | query pop filt =>
    simp only [Discards] at hnd
    subst hnd
    simp only [step] at hns ⊢
    cases haf : autoflush c st with
    | none => simp [haf] at hns
    | some st1 =>
      simp only [haf]
      obtain ⟨o1, ho1, hd1⟩ := autoflush_dict haf k o a v ho hd
      by_cases hlt : k < c.npk
      · simp only [hlt, if_true]
        cases hr : st1.rows k with
        | none => exact ⟨o1, ho1, hd1⟩
        | some r =>
          by_cases hm : rowMatches filt r = true
          · simp only [hm, if_true, ho1]
            exact ⟨_, rfl, loadExpired_dict o1 r a v hd1⟩
          · simp only [hm, Bool.false_eq_true, if_false]; exact ⟨o1, ho1, hd1⟩
      · simp only [hlt, if_false]; exact ⟨o1, ho1, hd1⟩
  | flush =>
    simp only [step] at hns ⊢
    cases hf : doFlush c st with
    | none => simp [hf] at hns
    | some st1 => exact doFlush_dict hf k o a v ho hd
  | commit =>
    simp only [Discards] at hnd
    simp only [step] at hns ⊢
    cases hf : doFlush c st with
    | none => simp [hf] at hns
    | some st1 =>
      simp only [hf, hnd, Bool.false_eq_true, if_false]
      exact doFlush_dict hf k o a v ho hd
  | rollback => simp [Discards] at hnd
  | extSet k' a' w =>
    simp only [step]
    split <;> exact ⟨o, ho, hd⟩
  | extDel k' =>
    simp only [step]
    split <;> exact ⟨o, ho, hd⟩
  | extIns k' w =>
    simp only [step]
    split <;> exact ⟨o, ho, hd⟩
  | detach k' =>
    simp only [Discards, beq_eq_false_iff_ne, ne_eq] at hnd
    simp only [step]
    split
    · split
      · exact ⟨o, ho, hd⟩
      · refine ⟨o, ?_, hd⟩
        have hne : ¬ k = k' := fun h => hnd h.symm
        simp only [hne, if_false]
        exact ho
    · exact ⟨o, ho, hd⟩
  | attach k' m =>
    simp only [step]
    split
    · rename_i o2 hn hs
      by_cases hkk : k = k'
      · subst hkk; rw [ho] at hn; cases hn
      · refine ⟨o, ?_, hd⟩
        simp only [hkk, if_false]
        exact ho
    · exact ⟨o, ho, hd⟩

/-! ## coherence over arbitrary histories -/

theorem inv_init (c : Cfg) : WF c St.init ∧ Coh St.init :=
  ⟨fun _ _ h => by simp [St.init] at h, fun _ _ h => by simp [St.init] at h⟩

/-- the result of a query on a coherent, well-formed state -/
theorem query_inv (c : Cfg) (st1 : St) (pop : Bool) (filt : Option (Attr × Int))
    (hw : WF c st1) (hc : Coh st1) :
    let st2 : St := { st1 with
      txn := true
      objs := fun k =>
        if k < c.npk then
          match st1.rows k with
          | some r =>
            if rowMatches filt r then
              match st1.objs k with
              | some o => some (if pop then populateFull o r else loadExpired o r)
              | none => some (newObj r)
            else st1.objs k
          | none => st1.objs k
        else st1.objs k }
    WF c st2 ∧ Coh st2 := by
  intro st2
  have key : ∀ k o', st2.objs k = some o' → WFObj c o' ∧ CohObj o' (st1.rows k) := by
    intro k o' h
    simp only [st2] at h
    by_cases hlt : k < c.npk
    · simp only [hlt, if_true] at h
      cases hr : st1.rows k with
      | none => simp only [hr] at h; exact ⟨hw k o' h, hr ▸ hc k o' h⟩
      | some r =>
        simp only [hr] at h
        by_cases hm : rowMatches filt r = true
        · simp only [hm, if_true] at h
          cases ho : st1.objs k with
          | none =>
            simp only [ho, Option.some.injEq] at h
            rw [← h]; exact ⟨wfObj_newObj c r, cohObj_newObj r⟩
          | some o =>
            simp only [ho, Option.some.injEq] at h
            rw [← h]
            have hco := hc k o ho
            rw [hr] at hco
            cases pop with
            | true => exact ⟨wfObj_newObj c r, cohObj_newObj r⟩
            | false => exact ⟨wfObj_loadExpired (hw k o ho) r, cohObj_loadExpired hco⟩
        · simp only [hm, Bool.false_eq_true, if_false] at h
          exact ⟨hw k o' h, hr ▸ hc k o' h⟩
    · simp only [hlt, if_false] at h
      exact ⟨hw k o' h, hc k o' h⟩
  exact ⟨fun k o' h => (key k o' h).1, fun k o' h => (key k o' h).2⟩

/-- every operation keeps well-formedness (operations of the other connection too) -/
theorem step_wf (c : Cfg) (st : St) (op : Op) (hok : opOk c op = true) (hw : WF c st) :
    WF c (step c st op).1 := by
  -- coherence is not needed for WF; reuse the structure of `step`
  cases op with
  | read k a =>
    simp only [step]
    cases ho : st.objs k with
    | none => (try dsimp only); exact hw
    | some o =>
      try dsimp only
      cases hd : o.dict a with
      | some v => (try dsimp only); exact hw
      | none =>
        try dsimp only
        try simp only
        cases haf : autoflush c st with
        | none => (try dsimp only); exact wf_rolledBack c st
        | some st1 =>
          try dsimp only
          have hw1 : WF c st1 := by
            unfold autoflush at haf
            split at haf
            · obtain ⟨_, _, hobjs⟩ := doFlush_some haf
              intro k' o' hk
              rw [hobjs] at hk
              try simp only at hk
              by_cases hlt : k' < c.npk
              · simp only [hlt, if_true] at hk
                cases ho' : st.objs k' with
                | none => (try dsimp only); simp [ho'] at hk
                | some o2 =>
                  try dsimp only
                  simp only [ho', Option.map_some, Option.some.injEq] at hk
                  rw [← hk]; exact wfObj_flushObj (hw k' o2 ho') _
              · simp only [hlt, if_false] at hk; exact hw k' o' hk
            · cases haf; exact hw
          try simp only
          cases ho1 : st1.objs k with
          | none => (try dsimp only); exact hw1
          | some o1 =>
            try dsimp only
            cases hr : st1.rows k with
            | none => (try dsimp only); exact hw1
            | some r => (try dsimp only); exact wf_setObj (wf_txn hw1 true) k _ (wfObj_loadExpired (hw1 k o1 ho1) r)
  | set k a v =>
    simp only [step]
    cases ho : st.objs k with
    | none => (try dsimp only); exact hw
    | some o =>
      try dsimp only
      simp only [opOk, Bool.and_eq_true, decide_eq_true_eq] at hok
      exact wf_setObj (wf_txn hw true) k _ (wfObj_setAttr (hw k o ho) a v hok.2)
  | expire k attrs =>
    simp only [step]
    cases ho : st.objs k with
    | none => (try dsimp only); exact hw
    | some o => (try dsimp only); exact wf_setObj hw k _ (wfObj_expireSel (hw k o ho) attrs)
  | expireAll => exact wf_expireAll c _ _ _ _ _
  | refresh k attrs =>
    simp only [step]
    cases ho : st.objs k with
    | none => (try dsimp only); exact hw
    | some o =>
      try dsimp only
      try simp only
      have hw0 : WF c (setObj st k (some (expireSel o attrs))) :=
        wf_setObj hw k _ (wfObj_expireSel (hw k o ho) attrs)
      cases haf : autoflush c (setObj st k (some (expireSel o attrs))) with
      | none => (try dsimp only); exact wf_rolledBack c _
      | some st1 =>
        try dsimp only
        have hw1 : WF c st1 := by
          unfold autoflush at haf
          split at haf
          · obtain ⟨_, _, hobjs⟩ := doFlush_some haf
            intro k' o' hk
            rw [hobjs] at hk
            try simp only at hk
            by_cases hlt : k' < c.npk
            · simp only [hlt, if_true] at hk
              cases ho' : (setObj st k (some (expireSel o attrs))).objs k' with
              | none => (try dsimp only); simp [ho'] at hk
              | some o2 =>
                try dsimp only
                simp only [ho', Option.map_some, Option.some.injEq] at hk
                rw [← hk]; exact wfObj_flushObj (hw0 k' o2 ho') _
            · simp only [hlt, if_false] at hk; exact hw0 k' o' hk
          · cases haf; exact hw0
        try simp only
        cases ho1 : st1.objs k with
        | none => (try dsimp only); exact hw1
        | some o1 =>
          try dsimp only
          cases hr : st1.rows k with
          | none => (try dsimp only); exact hw1
          | some r =>
            try dsimp only
            refine wf_setObj (wf_txn hw1 true) k _ ?_
            cases attrs with
            | none => (try dsimp only); exact wfObj_newObj c r
            | some l => (try dsimp only); exact wfObj_populateAttrs (hw1 k o1 ho1) l r
  | query pop filt =>
    simp only [step]
    cases haf : autoflush c st with
    | none => (try dsimp only); exact wf_rolledBack c st
    | some st1 =>
      try dsimp only
      have hw1 : WF c st1 := by
        unfold autoflush at haf
        split at haf
        · obtain ⟨_, _, hobjs⟩ := doFlush_some haf
          intro k' o' hk
          rw [hobjs] at hk
          try simp only at hk
          by_cases hlt : k' < c.npk
          · simp only [hlt, if_true] at hk
            cases ho' : st.objs k' with
            | none => (try dsimp only); simp [ho'] at hk
            | some o2 =>
              try dsimp only
              simp only [ho', Option.map_some, Option.some.injEq] at hk
              rw [← hk]; exact wfObj_flushObj (hw k' o2 ho') _
          · simp only [hlt, if_false] at hk; exact hw k' o' hk
        · cases haf; exact hw
      try simp only
      intro k o' h
      simp only at h
      by_cases hlt : k < c.npk
      · simp only [hlt, if_true] at h
        cases hr : st1.rows k with
        | none => (try dsimp only); simp only [hr] at h; exact hw1 k o' h
        | some r =>
          try dsimp only
          simp only [hr] at h
          by_cases hm : rowMatches filt r = true
          · simp only [hm, if_true] at h
            cases ho : st1.objs k with
            | none => (try dsimp only); simp only [ho, Option.some.injEq] at h; rw [← h]; exact wfObj_newObj c r
            | some o =>
              try dsimp only
              simp only [ho, Option.some.injEq] at h
              rw [← h]
              cases pop with
              | true => (try dsimp only); exact wfObj_newObj c r
              | false => (try dsimp only); exact wfObj_loadExpired (hw1 k o ho) r
          · simp only [hm, Bool.false_eq_true, if_false] at h; exact hw1 k o' h
      · simp only [hlt, if_false] at h; exact hw1 k o' h
  | flush =>
    simp only [step]
    cases hf : doFlush c st with
    | none => (try dsimp only); exact wf_rolledBack c st
    | some st1 =>
      try dsimp only
      obtain ⟨_, _, hobjs⟩ := doFlush_some hf
      intro k' o' hk
      try simp only at hk
      rw [hobjs] at hk
      try simp only at hk
      by_cases hlt : k' < c.npk
      · simp only [hlt, if_true] at hk
        cases ho' : st.objs k' with
        | none => (try dsimp only); simp [ho'] at hk
        | some o2 =>
          try dsimp only
          simp only [ho', Option.map_some, Option.some.injEq] at hk
          rw [← hk]; exact wfObj_flushObj (hw k' o2 ho') _
      · simp only [hlt, if_false] at hk; exact hw k' o' hk
  | commit =>
    simp only [step]
    cases hf : doFlush c st with
    | none => (try dsimp only); exact wf_rolledBack c st
    | some st1 =>
      try dsimp only
      have hw1 : WF c st1 := by
        obtain ⟨_, _, hobjs⟩ := doFlush_some hf
        intro k' o' hk
        rw [hobjs] at hk
        try simp only at hk
        by_cases hlt : k' < c.npk
        · simp only [hlt, if_true] at hk
          cases ho' : st.objs k' with
          | none => (try dsimp only); simp [ho'] at hk
          | some o2 =>
            try dsimp only
            simp only [ho', Option.map_some, Option.some.injEq] at hk
            rw [← hk]; exact wfObj_flushObj (hw k' o2 ho') _
        · simp only [hlt, if_false] at hk; exact hw k' o' hk
      try simp only
      by_cases he : c.eoc = true
      · simp only [he, if_true]; exact wf_expireAll c _ _ _ _ _
      · simp only [he, Bool.false_eq_true, if_false]; exact hw1
  | rollback =>
    simp only [step]
    split
    · exact wf_rolledBack c st
    · exact hw
  | extSet k a v => simp only [step]; split <;> exact hw
  | extDel k => simp only [step]; split <;> exact hw
  | extIns k v => simp only [step]; split <;> exact hw
  | detach k =>
    simp only [step]
    split
    · split
      · exact hw
      · intro j o' hj
        simp only at hj
        by_cases hjk : j = k
        · simp [hjk] at hj
        · simp only [hjk, if_false] at hj; exact hw j o' hj
    · exact hw
  | attach k m =>
    simp only [step]
    split
    · intro j o' hj
      simp only at hj
      by_cases hjk : j = k
      · simp only [hjk, if_true, Option.some.injEq] at hj
        rw [← hj]
        exact ⟨fun _ h => by simp [cleanCopy] at h, fun _ h => by simp [cleanCopy] at h⟩
      · simp only [hjk, if_false] at hj; exact hw j o' hj
    · exact hw

/-- every operation *of the session* keeps coherence -/
theorem step_coh (c : Cfg) (st : St) (op : Op) (hok : opOk c op = true) (hext : isExt op = false)
    (hw : WF c st) (hc : Coh st) : Coh (step c st op).1 := by
  cases op with
  | read k a =>
    simp only [step]
    cases ho : st.objs k with
    | none => (try dsimp only); exact hc
    | some o =>
      try dsimp only
      cases hd : o.dict a with
      | some v => (try dsimp only); exact hc
      | none =>
        try dsimp only
        try simp only
        cases haf : autoflush c st with
        | none => (try dsimp only); exact coh_rolledBack st
        | some st1 =>
          try dsimp only
          obtain ⟨hw1, hc1⟩ := autoflush_inv hw hc haf
          try simp only
          cases ho1 : st1.objs k with
          | none => (try dsimp only); exact hc1
          | some o1 =>
            try dsimp only
            cases hr : st1.rows k with
            | none => (try dsimp only); exact hc1
            | some r =>
              try dsimp only
              refine coh_setObj (coh_txn hc1 true) k _ ?_
              have := hc1 k o1 ho1
              rw [hr] at this
              simpa [hr] using cohObj_loadExpired this
  | set k a v =>
    simp only [step]
    cases ho : st.objs k with
    | none => (try dsimp only); exact hc
    | some o => (try dsimp only); exact coh_setObj (coh_txn hc true) k _ (cohObj_setAttr (hc k o ho) a v)
  | expire k attrs =>
    simp only [step]
    cases ho : st.objs k with
    | none => (try dsimp only); exact hc
    | some o => (try dsimp only); exact coh_setObj hc k _ (cohObj_expireSel (hc k o ho) attrs)
  | expireAll => exact coh_expireAll _ _ _ _ _
  | refresh k attrs =>
    simp only [step]
    cases ho : st.objs k with
    | none => (try dsimp only); exact hc
    | some o =>
      try dsimp only
      try simp only
      have hw0 : WF c (setObj st k (some (expireSel o attrs))) :=
        wf_setObj hw k _ (wfObj_expireSel (hw k o ho) attrs)
      have hc0 : Coh (setObj st k (some (expireSel o attrs))) :=
        coh_setObj hc k _ (cohObj_expireSel (hc k o ho) attrs)
      cases haf : autoflush c (setObj st k (some (expireSel o attrs))) with
      | none => (try dsimp only); exact coh_rolledBack _
      | some st1 =>
        try dsimp only
        obtain ⟨hw1, hc1⟩ := autoflush_inv hw0 hc0 haf
        try simp only
        cases ho1 : st1.objs k with
        | none => (try dsimp only); exact hc1
        | some o1 =>
          try dsimp only
          cases hr : st1.rows k with
          | none => (try dsimp only); exact hc1
          | some r =>
            try dsimp only
            refine coh_setObj (coh_txn hc1 true) k _ ?_
            have hco := hc1 k o1 ho1
            rw [hr] at hco
            cases attrs with
            | none => (try dsimp only); simpa [hr, populateFull] using cohObj_newObj r
            | some l => (try dsimp only); simpa [hr] using cohObj_populateAttrs hco l
  | query pop filt =>
    simp only [step]
    cases haf : autoflush c st with
    | none => (try dsimp only); exact coh_rolledBack st
    | some st1 =>
      try dsimp only
      obtain ⟨hw1, hc1⟩ := autoflush_inv hw hc haf
      exact (query_inv c st1 pop filt hw1 hc1).2
  | flush =>
    simp only [step]
    cases hf : doFlush c st with
    | none => (try dsimp only); exact coh_rolledBack st
    | some st1 => (try dsimp only); exact (doFlush_inv hw hc hf).2
  | commit =>
    simp only [step]
    cases hf : doFlush c st with
    | none => (try dsimp only); exact coh_rolledBack st
    | some st1 =>
      try dsimp only
      obtain ⟨_, hc1⟩ := doFlush_inv hw hc hf
      try simp only
      by_cases he : c.eoc = true
      · simp only [he, if_true]; exact coh_expireAll _ _ _ _ _
      · simp only [he, Bool.false_eq_true, if_false]; exact hc1
  | rollback =>
    simp only [step]
    split
    · exact coh_rolledBack st
    · exact hc
  | extSet k a v => simp [isExt] at hext
  | extDel k => simp [isExt] at hext
  | extIns k v => simp [isExt] at hext
  | detach k => simp [isExt] at hext
  | attach k m => simp [isExt] at hext

theorem wf_run (c : Cfg) (ops : List Op) (hok : ∀ op ∈ ops, opOk c op = true) (st : St)
    (hw : WF c st) : WF c (run c st ops) := by
  induction ops generalizing st with
  | nil => exact hw
  | cons o os ih =>
    exact ih (fun op h => hok op (List.mem_cons_of_mem _ h)) _
      (step_wf c st o (hok o List.mem_cons_self) hw)

/-- **coh_run**: as long as the other connection does not write, after any sequence
    of session operations every loaded unmodified attribute equals the database (and
    every remembered committed value too) -/
theorem coh_run (c : Cfg) (ops : List Op) (hok : ∀ op ∈ ops, opOk c op = true ∧ isExt op = false)
    (st : St) (hw : WF c st) (hc : Coh st) : WF c (run c st ops) ∧ Coh (run c st ops) := by
  induction ops generalizing st with
  | nil => exact ⟨hw, hc⟩
  | cons o os ih =>
    have ho := hok o List.mem_cons_self
    exact ih (fun op h => hok op (List.mem_cons_of_mem _ h)) _
      (step_wf c st o ho.1 hw) (step_coh c st o ho.1 ho.2 hw hc)

/-- whatever the other connection did before: expire_all re-establishes coherence -/
theorem coh_after_expireAll (c : Cfg) (st : St) : Coh (step c st .expireAll).1 :=
  coh_expireAll _ _ _ _ _

theorem coh_after_rollback (c : Cfg) (st : St) (htx : st.txn = true) : Coh (step c st .rollback).1 := by
  simp only [step, htx, if_true]; exact coh_rolledBack st

theorem coh_after_commit_eoc (c : Cfg) (heoc : c.eoc = true) (st : St) : Coh (step c st .commit).1 := by
  simp only [step]
  cases hf : doFlush c st with
  | none => exact coh_rolledBack st
  | some st1 => simp only [heoc, if_true]; exact coh_expireAll _ _ _ _ _

/-- **read_coherent** (user level): history = arbitrary operations (external writes
    included), then `expire_all`, then any operations of the session only.  Every
    read of an attribute that has no pending change then returns the value the row
    has at that moment, raises ObjectDeletedError if the row is gone, or the
    autoflush fails. -/
theorem read_coherent (c : Cfg) (pre post : List Op) (hpre : ∀ op ∈ pre, opOk c op = true)
    (hpost : ∀ op ∈ post, opOk c op = true ∧ isExt op = false) (k : Nat) (a : Attr) (o : Obj)
    (st : St) (hst : st = run c (step c (run c St.init pre) .expireAll).1 post)
    (ho : st.objs k = some o) (hm : o.mod a = false) :
    (∃ r, st.rows k = some r ∧ (step c st (.read k a)).2 = .val (r a)) ∨
    (step c st (.read k a)).2 = .gone ∨ (step c st (.read k a)).2 = .stale := by
  have hw0 : WF c (run c St.init pre) := wf_run c pre hpre _ (inv_init c).1
  have hw1 : WF c (step c (run c St.init pre) .expireAll).1 := step_wf c _ _ rfl hw0
  obtain ⟨_, hc⟩ := coh_run c post hpost _ hw1 (coh_after_expireAll c _)
  rw [← hst] at hc
  cases hd : o.dict a with
  | some v =>
    obtain ⟨r, hr, hv⟩ := (hc k o ho).loaded a v hd hm
    left
    exact ⟨r, hr, by simp only [step, ho, hd, hv]⟩
  | none =>
    cases hr : st.rows k with
    | some r =>
      rcases read_expired_eq_db c st k a o r ho hd hm hr with h | h
      · left; exact ⟨r, rfl, h⟩
      · right; right; exact h
    | none =>
      simp only [step, ho, hd]
      cases haf : autoflush c st with
      | none => right; right; rfl
      | some st1 =>
        right; left
        -- the row is still absent after the flush (a flush never creates rows)
        have hr1 : st1.rows k = none := by
          unfold autoflush at haf
          split at haf
          · obtain ⟨_, hrows, _⟩ := doFlush_some haf
            rw [hrows]
            simp only
            by_cases hlt : k < c.npk
            · simp [hlt, hr, flushRow]
            · simp [hlt, hr]
          · cases haf; exact hr
        simp only
        cases ho1 : st1.objs k <;> simp [hr1]

/-! ## non-vacuity -/

/-- external update, expire, read: the new value; pending change on another attribute kept -/
example :
    let c : Cfg := ⟨1, 3, false, true⟩
    runOut c St.init [.extIns 0 5, .query false none, .set 0 1 9, .extSet 0 0 7, .read 0 0,
                      .expire 0 (some [0]), .read 0 0, .read 0 1] =
      [.done, .done, .done, .done, .val 5, .done, .val 7, .val 9] := by decide

/-- populate_existing overwrites the pending value; plain query does not -/
example :
    let c : Cfg := ⟨1, 2, false, true⟩
    runOut c St.init [.extIns 0 5, .query false none, .set 0 1 9, .query false none, .read 0 1,
                      .query true none, .read 0 1] =
      [.done, .done, .done, .done, .val 9, .done, .val 5] := by decide

/-- `Discards` is false for a partial expire of another attribute (pending_survives applies) -/
example : Discards ⟨1, 3, true, true⟩ (.expire 0 (some [0, 2])) 0 1 = false := by decide

end SaVerif.Props.C46
