import SaVerif.Lemmas.Types
import SaVerif.Gen.SqliteFormats
/-!
# C09 — Column types round-trip values and apply processing exactly once

Theorems about M-TYPES for the SQLite storage formats.  The format templates are
*regenerated from the source* (`Gen/SqliteFormats.lean`); `decide` ties them to the
canonical ISO layouts for which the round-trip lemmas are proved, so an edit of a
`_storage_format` string in `dialects/sqlite/base.py` re-runs the proof.
-/
namespace SaVerif.Props.C09
open SaVerif.Types SaVerif.Gen.SqliteFormats

/-- the ISO layout with date/time separator `sep` (`fromisoformat` takes ' ' and 'T') -/
def canonDateTime (sep : Char) : List Tok :=
  [.field .year 4, .lit '-', .field .month 2, .lit '-', .field .day 2, .lit sep, .field .hour 2,
   .lit ':', .field .minute 2, .lit ':', .field .second 2, .lit '.', .field .micro 6]
def canonDateTimeTrunc (sep : Char) : List Tok :=
  [.field .year 4, .lit '-', .field .month 2, .lit '-', .field .day 2, .lit sep, .field .hour 2,
   .lit ':', .field .minute 2, .lit ':', .field .second 2]
def canonDate : List Tok := [.field .year 4, .lit '-', .field .month 2, .lit '-', .field .day 2]
def canonTime : List Tok :=
  [.field .hour 2, .lit ':', .field .minute 2, .lit ':', .field .second 2, .lit '.', .field .micro 6]
def canonTimeTrunc : List Tok := [.field .hour 2, .lit ':', .field .minute 2, .lit ':', .field .second 2]

/-- the formats found in the source are the ISO layouts `fromisoformat` is modelled for -/
theorem source_formats_canonical :
    (datetimeFormat = canonDateTime ' ' ∨ datetimeFormat = canonDateTime 'T') ∧
    (datetimeTruncFormat = canonDateTimeTrunc ' ' ∨ datetimeTruncFormat = canonDateTimeTrunc 'T') ∧
    dateFormat = canonDate ∧ timeFormat = canonTime ∧ timeTruncFormat = canonTimeTrunc := by
  decide

/-- every value of `datetime.datetime` (years 1–9999, microseconds) -/
def validDT (d : DT) : Prop :=
  1 ≤ d.year ∧ d.year ≤ 9999 ∧ 1 ≤ d.month ∧ d.month ≤ 12 ∧ 1 ≤ d.day ∧ d.day ≤ 31 ∧
  d.hour < 24 ∧ d.minute < 60 ∧ d.second < 60 ∧ d.micro < 1000000

theorem isoDatePart_render (y m d : Nat) (rest : List Char) (hy : y < 10 ^ 4) (hm : m < 10 ^ 2)
    (hd : d < 10 ^ 2) :
    isoDatePart (padNat 4 y ++ '-' :: (padNat 2 m ++ '-' :: (padNat 2 d ++ rest))) = some (y, m, d, rest) := by
  simp only [isoDatePart, bind, Option.bind, takeFixed_pad 4 y _ hy, expect, beq_self_eq_true, if_true,
    takeFixed_pad 2 m _ hm, takeFixed_pad 2 d _ hd, digitsVal_fixedDigits 4 y hy,
    digitsVal_fixedDigits 2 m hm, digitsVal_fixedDigits 2 d hd]

theorem isoTimePart_render (h mi s us : Nat) (hh : h < 10 ^ 2) (hmi : mi < 10 ^ 2) (hs : s < 10 ^ 2)
    (hus : us < 10 ^ 6) :
    isoTimePart (padNat 2 h ++ ':' :: (padNat 2 mi ++ ':' :: (padNat 2 s ++ '.' :: (padNat 6 us ++ [])))) =
      some (h, mi, s, us) := by
  simp only [isoTimePart, bind, Option.bind, takeFixed_pad 2 h _ hh, expect, beq_self_eq_true, if_true,
    takeFixed_pad 2 mi _ hmi, takeFixed_pad 2 s _ hs, takeFixed_pad 6 us _ hus,
    digitsVal_fixedDigits 2 h hh, digitsVal_fixedDigits 2 mi hmi, digitsVal_fixedDigits 2 s hs,
    digitsVal_fixedDigits 6 us hus]

theorem isoTimePart_render_trunc (h mi s : Nat) (hh : h < 10 ^ 2) (hmi : mi < 10 ^ 2) (hs : s < 10 ^ 2) :
    isoTimePart (padNat 2 h ++ ':' :: (padNat 2 mi ++ ':' :: (padNat 2 s ++ []))) = some (h, mi, s, 0) := by
  simp only [isoTimePart, bind, Option.bind, takeFixed_pad 2 h _ hh, expect, beq_self_eq_true, if_true,
    takeFixed_pad 2 mi _ hmi, takeFixed_pad 2 s _ hs,
    digitsVal_fixedDigits 2 h hh, digitsVal_fixedDigits 2 mi hmi, digitsVal_fixedDigits 2 s hs]

/-- **datetime_roundtrip**: for every valid datetime, parsing the string the bind
    processor stores gives the datetime back (years 1–9999, all microseconds) -/
theorem datetime_roundtrip (d : DT) (hv : validDT d) :
    isoDateTime (render datetimeFormat d) = some d := by
  obtain ⟨h1, h2, h3, h4, h5, h6, h7, h8, h9, h10⟩ := hv
  have hsep : ∃ sep, datetimeFormat = canonDateTime sep ∧ (sep == ' ' || sep == 'T') = true := by
    rcases source_formats_canonical.1 with h | h
    · exact ⟨' ', h, by decide⟩
    · exact ⟨'T', h, by decide⟩
  obtain ⟨sep, hfmt, hsepok⟩ := hsep
  rw [hfmt]
  simp only [render, canonDateTime, List.flatMap_cons, List.flatMap_nil, DT.get,
    List.singleton_append]
  simp only [isoDateTime]
  rw [isoDatePart_render d.year d.month d.day _ (by omega) (by omega) (by omega)]
  simp only [hsepok, if_true]
  rw [isoTimePart_render d.hour d.minute d.second d.micro (by omega) (by omega) (by omega) (by omega)]
  have hvd : validDate d.year d.month d.day = true := by simp [validDate]; omega
  have hvt : validTime d.hour d.minute d.second d.micro = true := by simp [validTime]; omega
  simp [hvd, hvt]

/-- `truncate_microseconds=True`: the round trip keeps everything but the microseconds -/
theorem datetime_trunc_roundtrip (d : DT) (hv : validDT d) :
    isoDateTime (render datetimeTruncFormat d) = some { d with micro := 0 } := by
  obtain ⟨h1, h2, h3, h4, h5, h6, h7, h8, h9, h10⟩ := hv
  have hsep : ∃ sep, datetimeTruncFormat = canonDateTimeTrunc sep ∧ (sep == ' ' || sep == 'T') = true := by
    rcases source_formats_canonical.2.1 with h | h
    · exact ⟨' ', h, by decide⟩
    · exact ⟨'T', h, by decide⟩
  obtain ⟨sep, hfmt, hsepok⟩ := hsep
  rw [hfmt]
  simp only [render, canonDateTimeTrunc, List.flatMap_cons, List.flatMap_nil, DT.get,
    List.singleton_append]
  simp only [isoDateTime]
  rw [isoDatePart_render d.year d.month d.day _ (by omega) (by omega) (by omega)]
  simp only [hsepok, if_true]
  rw [isoTimePart_render_trunc d.hour d.minute d.second (by omega) (by omega) (by omega)]
  have hvd : validDate d.year d.month d.day = true := by simp [validDate]; omega
  have hvt : validTime d.hour d.minute d.second 0 = true := by simp [validTime]; omega
  simp [hvd, hvt]

/-- **date_roundtrip** -/
theorem date_roundtrip (y m dd : Nat) (hy : 1 ≤ y ∧ y ≤ 9999) (hm : 1 ≤ m ∧ m ≤ 12) (hd : 1 ≤ dd ∧ dd ≤ 31) :
    isoDate (render dateFormat ⟨y, m, dd, 0, 0, 0, 0⟩) = some ⟨y, m, dd, 0, 0, 0, 0⟩ := by
  rw [source_formats_canonical.2.2.1]
  simp only [render, canonDate, List.flatMap_cons, List.flatMap_nil, DT.get,
    List.singleton_append]
  simp only [isoDate]
  have := isoDatePart_render y m dd [] (by omega) (by omega) (by omega)
  simp only [List.append_nil] at this ⊢
  rw [this]
  have hvd : validDate y m dd = true := by simp [validDate]; omega
  simp [hvd]

/-- **time_roundtrip** -/
theorem time_roundtrip (h mi s us : Nat) (hh : h < 24) (hmi : mi < 60) (hs : s < 60) (hus : us < 1000000) :
    isoTime (render timeFormat ⟨0, 0, 0, h, mi, s, us⟩) = some ⟨0, 0, 0, h, mi, s, us⟩ := by
  rw [source_formats_canonical.2.2.2.1]
  simp only [render, canonTime, List.flatMap_cons, List.flatMap_nil, DT.get,
    List.singleton_append]
  simp only [isoTime]
  rw [isoTimePart_render h mi s us (by omega) (by omega) (by omega) (by omega)]
  have hvt : validTime h mi s us = true := by simp [validTime]; omega
  simp [hvt]

/-! non-vacuity: the extreme values -/
example : validDT ⟨9999, 12, 31, 23, 59, 59, 999999⟩ ∧ validDT ⟨1, 1, 1, 0, 0, 0, 0⟩ := by
  simp [validDT]
example : render (canonDateTime ' ') ⟨1, 1, 1, 0, 0, 0, 5⟩ = "0001-01-01 00:00:00.000005".toList := by decide

/-! ## custom `storage_format` + `regexp` -/

/-- every field is at least one digit wide and is followed by a non-digit literal (or
    ends the format): then the `(\d+)` groups of the matching regexp are unambiguous -/
def regexOK : List Tok → Bool
  | [] => true
  | .lit _ :: ts => regexOK ts
  | .field _ w :: ts =>
    decide (1 ≤ w) && (match ts with
      | [] => true
      | .lit c :: _ => !isDigit c
      | .field _ _ :: _ => false) && regexOK ts

def fits (tmpl : List Tok) (d : DT) : Prop :=
  ∀ f w, Tok.field f w ∈ tmpl → d.get f < 10 ^ w

/-- what `type_(*map(int, groups))` receives: the rendered fields, in format order -/
def applyAll (tmpl : List Tok) (d : DT) (acc : DT) : DT :=
  tmpl.foldl (fun a t => match t with
    | .field f _ => a.set f (d.get f)
    | .lit _ => a) acc

theorem padNat_ne_nil (w n : Nat) (hw : 1 ≤ w) (h : n < 10 ^ w) : padNat w n ≠ [] := by
  simp only [padNat, h, if_true]
  intro hnil
  have := congrArg List.length hnil
  simp [fixedDigits_length] at this
  omega

/-- **custom_format_roundtrip**: for *any* storage format whose fields are separated by
    non-digit literals, the regexp parse of the rendered string recovers every field -/
theorem custom_format_roundtrip :
    ∀ (tmpl : List Tok) (d acc : DT), regexOK tmpl = true → fits tmpl d →
      regexParse tmpl (render tmpl d) acc = some (applyAll tmpl d acc) := by
  intro tmpl
  induction tmpl with
  | nil => intro d acc _ _; rfl
  | cons t ts ih =>
    intro d acc hok hfit
    have hfit' : fits ts d := fun f w h => hfit f w (List.mem_cons_of_mem _ h)
    cases t with
    | lit c =>
      simp only [regexOK] at hok
      simp only [render, List.flatMap_cons, List.singleton_append, regexParse, expect, beq_self_eq_true,
        if_true, applyAll, List.foldl_cons]
      exact ih d acc hok hfit'
    | field f w =>
      simp only [regexOK, Bool.and_eq_true, decide_eq_true_eq] at hok
      obtain ⟨⟨hw, hnext⟩, hrest⟩ := hok
      have hf : d.get f < 10 ^ w := hfit f w (by simp)
      have hrender : render (Tok.field f w :: ts) d = padNat w (d.get f) ++ render ts d := by
        simp [render]
      rw [hrender]
      have hpad : padNat w (d.get f) = (fixedDigits w (d.get f)).map digitChar := by
        simp [padNat, hf]
      have hhead : ∀ c, (render ts d).head? = some c → isDigit c = false := by
        intro c hc
        cases ts with
        | nil => simp [render] at hc
        | cons t2 ts2 =>
          cases t2 with
          | lit c2 =>
            simp only [render, List.flatMap_cons, List.singleton_append, List.head?_cons,
              Option.some.injEq] at hc
            subst hc
            simpa using hnext
          | field _ _ => simp at hnext
      have htd := takeDigits_digits (fixedDigits w (d.get f)) (render ts d) (fixedDigits_lt _ _) hhead
      simp only [regexParse]
      rw [hpad, htd]
      have hne : fixedDigits w (d.get f) ≠ [] := by
        intro hnil
        have := congrArg List.length hnil
        simp [fixedDigits_length] at this
        omega
      cases hfd : fixedDigits w (d.get f) with
      | nil => exact absurd hfd hne
      | cons x xs =>
        simp only
        rw [← hfd, digitsVal_fixedDigits w _ hf]
        simp only [applyAll, List.foldl_cons]
        exact ih d _ hrest hfit'

/-- the documented legacy format `%(month)02d/%(day)02d/%(year)04d` -/
example : regexOK [.field .month 2, .lit '/', .field .day 2, .lit '/', .field .year 4] = true := by decide

/-- a format without separators is *not* recoverable by `(\d+)(\d+)…` — the hypothesis matters -/
example : regexParse [.field .hour 2, .field .minute 2] (render [.field .hour 2, .field .minute 2] ⟨0,0,0,12,34,0,0⟩)
    ⟨0,0,0,0,0,0,0⟩ = none := by decide

/-! ## Interval (stored relative to the epoch), Boolean, Enum -/

/-- Interval is stored as `epoch + value` in a DATETIME column and read back as
    `value' - epoch`: it round-trips whenever the DATETIME does, for any datetime arithmetic in
    which subtraction undoes addition (Python's, trusted) — negative intervals included -/
theorem interval_roundtrip {D T : Type} (add : D → T → D) (sub : D → D → T) (store : D → D)
    (harith : ∀ e t, sub (add e t) e = t) (epoch : D) (t : T)
    (hstore : store (add epoch t) = add epoch t) :
    sub (store (add epoch t)) epoch = t := by
  rw [hstore, harith]

theorem boolean_roundtrip : ∀ b : Option Bool, intToBoolean (boolBind b) = b := by
  intro b
  match b with
  | none => rfl
  | some true => rfl
  | some false => rfl

theorem find?_unique_name (l : List (Nat × Nat)) (hn : (l.map (·.1)).Nodup) (m : Nat × Nat) (hm : m ∈ l) :
    l.find? (fun x => x.1 == m.1) = some m := by
  induction l with
  | nil => cases hm
  | cons x xs ih =>
    simp only [List.map_cons, List.nodup_cons] at hn
    rcases List.mem_cons.1 hm with rfl | hmx
    · simp
    · have hne : x.1 ≠ m.1 := by
        intro he
        exact hn.1 (by rw [he]; exact List.mem_map_of_mem hmx)
      have : (x.1 == m.1) = false := by simpa using hne
      simp only [List.find?_cons]
      simp only [this]
      exact ih hn.2 hmx

/-- **enum_roundtrip**: for any enum class (aliases allowed: several names may share an
    object), every member survives `_db_value_for_elem` then `_object_value_for_elem` -/
theorem enum_roundtrip (members : List (Nat × Nat)) (hn : (members.map (·.1)).Nodup)
    (m : Nat × Nat) (hm : m ∈ members) :
    ∃ name, validLookup members m.2 = some name ∧ objectLookup members name = some m.2 := by
  unfold validLookup objectLookup
  cases hf : members.find? (fun x => x.2 == m.2) with
  | none =>
    have := List.find?_eq_none.1 hf m hm
    simp at this
  | some m' =>
    have hm' : m' ∈ members := List.mem_of_find?_eq_some hf
    have hobj : m'.2 = m.2 := by simpa using List.find?_some hf
    refine ⟨m'.1, rfl, ?_⟩
    have hrev : (members.reverse.map (·.1)).Nodup := by
      rw [List.map_reverse]
      have : List.Pairwise (fun a b => b ≠ a) (members.map (·.1)) :=
        List.Pairwise.imp (fun h => Ne.symm h) hn
      exact List.pairwise_reverse.2 this
    rw [find?_unique_name members.reverse hrev m' (by simpa using hm')]
    simp [hobj]

/-- aliases: `B` is an alias of `A` (same object 7); binding `B` stores "A", read back as the
    same object -/
example : validLookup [(1, 7), (2, 7), (3, 9)] 7 = some 1 ∧ objectLookup [(1, 7), (2, 7), (3, 9)] 2 = some 7 := by
  decide

/-! ## exactly one result processor per column, whatever the nesting -/

/-- **processor_applied_once**: labels, subqueries / CTEs, unions, scalar subqueries and
    RETURNING hand exactly one type to the result map, so a TypeDecorator column is
    processed once — never twice, never skipped — in every nesting context of the model -/
theorem processor_applied_once (e : Nest) (h : e.typed = true) : e.procCount = 1 := by
  simp [Nest.procCount, h]

theorem nesting_preserves_type (e : Nest) :
    (Nest.label e).typed = e.typed ∧ (Nest.subq e).typed = e.typed ∧
    (Nest.scalarSubq e).typed = e.typed ∧ (Nest.returning e).typed = e.typed ∧
    ∀ e2, (Nest.union e e2).typed = e.typed := by
  simp [Nest.typed]

example : (Nest.label (Nest.subq (Nest.union (Nest.label (Nest.col true)) (Nest.col false)))).procCount = 1 := by
  decide

/-- `label(name, expr, type_=T)` over an expression of another type: `T` is what every outer
    nesting level sees (`Label._make_proxy` copies the label's type onto the proxy column) -/
example : (Nest.subq (Nest.subq (Nest.labelT true (Nest.col false)))).procCount = 1 := by decide

/-! ## expanded IN elements keep the bind processor; reported primary keys -/

theorem lookup_range_map (esc p : Nat) : ∀ (n j : Nat), j < n →
    ((List.range n).map (fun i => ((esc, i + 1), p))).lookup (esc, j + 1) = some p := by
  intro n
  induction n with
  | zero => intro j h; omega
  | succ n ih =>
    intro j h
    rw [List.range_succ, List.map_append, List.lookup_append]
    by_cases hj : j < n
    · rw [ih j hj]; rfl
    · have hjn : j = n := by omega
      subst hjn
      have hnone : ((List.range j).map (fun i => ((esc, i + 1), p))).lookup (esc, j + 1) = none := by
        rw [List.lookup_eq_none_iff]
        intro e he
        simp only [List.mem_map, List.mem_range] at he
        obtain ⟨i, hi, rfl⟩ := he
        simp only [bne_iff_ne, ne_eq, Prod.mk.injEq, not_and]
        intro _; omega
      simp [hnone, List.lookup]

/-- **expanded_elements_processed**: whatever the DBAPI-safe (escaped) name of an expanding bind
    is, every one of its `n` expanded elements carries the bind processor registered for the
    bind — IN lists are bind-processed element by element, for every column name -/
theorem expanded_elements_processed (procs : List (Nat × Nat)) (name esc n p : Nat)
    (h : procs.lookup name = some p) :
    ∀ j, j < n → (expandBind procs name esc n).lookup (esc, j + 1) = some p := by
  intro j hj
  simp only [expandBind, h]
  exact lookup_range_map esc p n j hj

/-- no processor for the bind ⇒ none for its elements (types without bind processing) -/
theorem expanded_elements_unprocessed (procs : List (Nat × Nat)) (name esc n : Nat)
    (h : procs.lookup name = none) : expandBind procs name esc n = [] := by
  simp [expandBind, h]

example : (expandBind [(1, 7), (3, 9)] 1 2 3).lookup (2, 3) = some 7 := by decide

/-- **expanded_tuple_elements_processed**: element `j` of tuple `i` of an expanding tuple bind
    carries the processor of the `j`-th column type under the key built from the *escaped* name —
    the name the element has in the SQL — for every escaped name -/
theorem expanded_tuple_elements_processed (tprocs : List (Nat × List (Option Nat))) (name esc n : Nat)
    (ps : List (Option Nat)) (h : tprocs.lookup name = some ps) (i j p : Nat) (hi : i < n)
    (hj : ps[j]? = some (some p)) :
    ((esc, i + 1, j + 1), p) ∈ expandTupleBind tprocs name esc n := by
  simp only [expandTupleBind, h, List.mem_flatMap, List.mem_range, List.mem_filterMap]
  have hjl : j < ps.length := by
    rcases Nat.lt_or_ge j ps.length with h1 | h1
    · exact h1
    · rw [List.getElem?_eq_none h1] at hj; cases hj
  refine ⟨i, hi, j, hjl, ?_⟩
  simp [List.getD, hj]

example : (expandTupleBind [(1, [none, some 7])] 1 2 2).lookup (2, 2, 2) = some 7 ∧
    (expandTupleBind [(1, [none, some 7])] 1 2 2).lookup (2, 1, 1) = none := by decide

/-- **inserted_pk_matches_select**: for a primary-key type whose result processing undoes its
    bind processing, the key an INSERT reports on a lastrowid backend equals what a SELECT of
    that row returns — for an explicit key (stored as `bind v`) and for a generated one -/
theorem inserted_pk_matches_select (bind proc : Int → Int) (hrt : ∀ v, proc (bind v) = v)
    (explicitParam : Option Int) (generated : Int) :
    let stored := match explicitParam with
      | some v => bind v
      | none => generated
    insertedPk proc explicitParam stored = proc stored := by
  cases explicitParam with
  | some v => simp [insertedPk, hrt]
  | none => simp [insertedPk]

example : insertedPk (· + 1000) (some 1010) 10 = 1010 ∧ insertedPk (· + 1000) none 11 = 1011 := by decide

end SaVerif.Props.C09
