import SaVerif.Lemmas.ResultSpec
/-!
# C10 — Result objects deliver exactly the underlying rows under any access pattern

Theorems about M-RESULT (`SaVerif/Model/Result.lean`).  Layout of the argument:

1. `src_refines` (Lemmas): every primitive of every real source — `CursorFetchStrategy`,
   `BufferedRowCursorFetchStrategy` with *any* buffer contents / bufsize / growth factor /
   max_row_buffer, `FullyBufferedCursorFetchStrategy`, `IteratorResult`,
   `ChunkedIteratorResult` (not dynamic) — commutes with the abstraction
   `buffer ++ cursor ↦ remaining rows`.
2. `run_refines`: hence *every operation sequence* on the facade (Result / ScalarResult /
   MappingResult calls, `Op`) returns over a real source exactly what it returns over the
   bare list, by induction over the sequence (hazard-free runs, sizes ≥ 1).
3. On the bare list the loops disappear: `fetchmany_unique_spec` etc. characterise each
   call by a structural function of the remaining rows.
-/
namespace SaVerif.Props.C10
open SaVerif.Result

/-! ## 1–2. refinement of every source to the bare list, for every op sequence -/

/-- **run_refines**: for any source type that refines the bare list, any facade state and
    any operation sequence with sizes ≥ 1 whose run raises no hazard flag, the outputs (and
    flags) over the source equal those over the bare list. -/
theorem run_refines {σ : Type} {O : SrcOps σ} {good : σ → Prop} {abs : σ → Plain}
    (R : Refines O good abs) :
    ∀ (ops : List Op) (st : St σ), good st.src → st.yp ≠ some 0 →
      (∀ op ∈ ops, op.sized = true) → (∀ x ∈ run O st ops, x.2 = false) →
      run Plain.ops (absSt abs st) ops = run O st ops := by
  intro ops
  induction ops with
  | nil => intro st _ _ _ _; simp [run]
  | cons op ops ih =>
    intro st hg hyp hs hz
    simp only [run] at hz ⊢
    have hz0 : (step O st op).1.2 = false := hz _ (by simp)
    have h := step_refines R st op hg hyp (hs op (by simp)) hz0
    rw [h.1]
    simp only
    rw [ih (step O st op).2 h.2.1 h.2.2 (fun o ho => hs o (by simp [ho]))
      (fun x hx => hz x (by simp [hx]))]

/-- the bare list a run starts from -/
def plainInit (rows : List Row) (d1 sss : Bool) (width : Nat) : St Plain :=
  St.init { rem := rows, hard := false, d1 := d1 } sss width

theorem absSt_init (s : Src) (sss : Bool) (w : Nat) :
    absSt Src.abs (St.init s sss w) = St.init s.abs sss w := rfl

/-- **default_refines_plain**: the plain DBAPI-cursor strategy -/
theorem default_refines_plain (rows : List Row) (sss : Bool) (w : Nat) (ops : List Op)
    (hs : ∀ op ∈ ops, op.sized = true)
    (hz : ∀ x ∈ run Src.ops (St.init (Src.mkDefault rows) sss w) ops, x.2 = false) :
    run Src.ops (St.init (Src.mkDefault rows) sss w) ops = run Plain.ops (plainInit rows true sss w) ops := by
  have h := run_refines src_refines ops (St.init (Src.mkDefault rows) sss w)
    (by simp [St.init, Src.mkDefault, Src.good]) (by simp [St.init]) hs hz
  rw [← h]; rfl

/-- **buffered_refines_plain**: `stream_results` with any `max_row_buffer`; the invariant
    `buffer ++ cursor = remaining rows` holds through every growth step of the buffer -/
theorem buffered_refines_plain (maxbuf : Nat) (rows : List Row) (sss : Bool) (w : Nat) (ops : List Op)
    (hs : ∀ op ∈ ops, op.sized = true)
    (hz : ∀ x ∈ run Src.ops (St.init (Src.mkBuffered maxbuf rows) sss w) ops, x.2 = false) :
    run Src.ops (St.init (Src.mkBuffered maxbuf rows) sss w) ops =
      run Plain.ops (plainInit rows false sss w) ops := by
  have h := run_refines src_refines ops (St.init (Src.mkBuffered maxbuf rows) sss w)
    (by simp [St.init, Src.mkBuffered, Src.good]) (by simp [St.init]) hs hz
  rw [← h, absSt_init]
  have : List.take 1 rows ++ List.drop 1 rows = rows := List.take_append_drop 1 rows
  simp only [Src.mkBuffered, Src.abs, plainInit, this]

/-- any BufferedRow state at all (arbitrary buffer, bufsize, growth factor, max) -/
theorem buffered_any_refines_plain (buf cur : List Row) (bs g mx : Nat) (sss : Bool) (w : Nat)
    (ops : List Op) (hs : ∀ op ∈ ops, op.sized = true)
    (hz : ∀ x ∈ run Src.ops (St.init (.cursor (.buffered buf bs g mx) cur false false) sss w) ops, x.2 = false) :
    run Src.ops (St.init (.cursor (.buffered buf bs g mx) cur false false) sss w) ops =
      run Plain.ops (plainInit (buf ++ cur) false sss w) ops := by
  have h := run_refines src_refines ops (St.init (.cursor (.buffered buf bs g mx) cur false false) sss w)
    (by simp [St.init, Src.good]) (by simp [St.init]) hs hz
  rw [← h]; rfl

theorem full_refines_plain (rows : List Row) (sss : Bool) (w : Nat) (ops : List Op)
    (hs : ∀ op ∈ ops, op.sized = true)
    (hz : ∀ x ∈ run Src.ops (St.init (Src.mkFull rows) sss w) ops, x.2 = false) :
    run Src.ops (St.init (Src.mkFull rows) sss w) ops = run Plain.ops (plainInit rows false sss w) ops := by
  have h := run_refines src_refines ops (St.init (Src.mkFull rows) sss w)
    (by simp [St.init, Src.mkFull, Src.good]) (by simp [St.init]) hs hz
  rw [← h]; rfl

theorem iter_refines_plain (rows : List Row) (sss : Bool) (w : Nat) (ops : List Op)
    (hs : ∀ op ∈ ops, op.sized = true)
    (hz : ∀ x ∈ run Src.ops (St.init (Src.mkIter rows) sss w) ops, x.2 = false) :
    run Src.ops (St.init (Src.mkIter rows) sss w) ops = run Plain.ops (plainInit rows false sss w) ops := by
  have h := run_refines src_refines ops (St.init (Src.mkIter rows) sss w)
    (by simp [St.init, Src.mkIter, Src.good]) (by simp [St.init]) hs hz
  rw [← h]; rfl

/-- ChunkedIteratorResult refines the list when `dynamic_yield_per` is off and the run
    raises no hazard (no `yield_per` while a chunk is held).  Full statement (false, see
    `chunked_dynamic_counterexample`): the same for `dynamic_yield_per = True`. -/
theorem chunked_refines_plain_partial (rows : List Row) (sss : Bool) (w : Nat) (ops : List Op)
    (hs : ∀ op ∈ ops, op.sized = true)
    (hz : ∀ x ∈ run Src.ops (St.init (Src.mkChunked false rows) sss w) ops, x.2 = false) :
    run Src.ops (St.init (Src.mkChunked false rows) sss w) ops =
      run Plain.ops (plainInit rows false sss w) ops := by
  have h := run_refines src_refines ops (St.init (Src.mkChunked false rows) sss w)
    (by simp [St.init, Src.mkChunked, Src.good]) (by simp [St.init]) hs hz
  rw [← h]; rfl

/-- dynamic_yield_per: `fetchone` then `fetchmany(2)` drops rows 1–3 of the held chunk -/
theorem chunked_dynamic_counterexample :
    (run Src.ops (St.init (Src.mkChunked true [[0],[1],[2],[3],[4],[5]]) false 1)
        [.yieldPer .r 4, .fetchone .r, .fetchmany .r (some 2)]).map (·.1) ≠
    (run Plain.ops (plainInit [[0],[1],[2],[3],[4],[5]] false false 1)
        [.yieldPer .r 4, .fetchone .r, .fetchmany .r (some 2)]).map (·.1) := by
  decide

/-- `yield_per` after a fetch on a ChunkedIteratorResult: hazard flag raised, rows lost -/
theorem chunked_yield_per_counterexample :
    (run Src.ops (St.init (Src.mkChunked false [[0],[1],[2],[3]]) false 1)
        [.yieldPer .r 3, .fetchone .r, .yieldPer .r 2, .fetchall .r]) =
      [(.unit, false), (.item (.row [0]), false), (.unit, true), (.items [.row [3]], false)] := by
  decide

/-- first() on a CursorResult that was already auto-closed by exhaustion does not
    hard-close it (hazard `corner`): later fetches return [] instead of raising -/
theorem corner_counterexample :
    (run Src.ops (St.init (Src.mkDefault [[1]]) false 1) [.fetchall .r, .first .r, .fetchall .r]) =
      [(.items [.row [1]], false), (.none, true), (.items [], false)] ∧
    (run Plain.ops (plainInit [[1]] true false 1) [.fetchall .r, .first .r, .fetchall .r]).map (·.1) =
      [.items [.row [1]], .none, .err .closed] := by
  decide

/-! non-vacuity: a hazard-free, sized run with buffer growth, a view, uniqueness and a close -/
example :
    let ops := [Op.fetchone .r, .fetchmany .r (some 3), .unique .r .ident, .scalars 0,
                .iter .v 2, .partitions .v (some 1) 2, .first .v, .closed .r]
    (∀ op ∈ ops, op.sized = true) ∧
    (∀ x ∈ run Src.ops (St.init (Src.mkBuffered 7 ((List.range 14).map (fun i => [i % 5]))) false 1) ops,
      x.2 = false) := by
  decide

/-! ## 3. what the calls return over the bare list -/

/-- **delivered_exactly_once**: for any sequence of row-delivering calls (fetchone, next,
    fetchmany(n), fetchall, iteration, partitions — any sizes, in any order) on a handle with
    any projection (`columns`, scalars, mappings) and any unique filter, the rows handed out,
    concatenated, are the projection of a *prefix* `c` of the remaining rows, de-duplicated
    against the filter's seen-set (`deliver`), and the untouched suffix is what remains:
    nothing is lost, repeated or reordered. -/
theorem delivered_exactly_once :
    ∀ (ops : List Op) (st : St Plain), (∀ op ∈ ops, op.isData = true) → st.v = none →
      st.src.hard = false → st.r.hashOk st.sss st.src.rem →
      Delivers st.sss st.r st.src ((run Plain.ops st ops).flatMap (fun o => o.1.delivered))
        (runFinal Plain.ops st ops).r (runFinal Plain.ops st ops).src := by
  intro ops
  induction ops with
  | nil => intro st _ _ hp _; simpa [run, runFinal] using Delivers.refl st.sss st.r st.src hp
  | cons op ops ih =>
    intro st hd hv hp hh
    have h1 := step_delivers st op (hd op (by simp)) hv hp hh
    obtain ⟨d1, hv1, hs1⟩ := h1
    have hp1 : (step Plain.ops st op).2.src.hard = false := by
      obtain ⟨_, _, _, _, _, h4⟩ := d1; exact h4
    have h2 := ih (step Plain.ops st op).2 (fun o ho => hd o (by simp [ho])) hv1 hp1
      (by rw [hs1]; exact d1.hashOk hh)
    rw [hs1] at h2
    simpa [run, runFinal] using d1.trans h2

/-- without a unique filter: delivered rows followed by the projection of what is left
    equal the projection of what was there -/
theorem delivered_conservation (ops : List Op) (st : St Plain) (hd : ∀ op ∈ ops, op.isData = true)
    (hv : st.v = none) (hp : st.src.hard = false) (hu : st.r.uq = none) :
    (run Plain.ops st ops).flatMap (fun o => o.1.delivered) ++
        (runFinal Plain.ops st ops).src.rem.map (fun r => postItem st.sss st.r (mkItem st.sss st.r r)) =
      st.src.rem.map (fun r => postItem st.sss st.r (mkItem st.sss st.r r)) := by
  obtain ⟨c, pre, e, hdl, hi, _⟩ := delivered_exactly_once ops st hd hv hp (by intro u h; simp [hu] at h)
  rw [deliver_none _ _ _ hu] at hdl
  simp only [Prod.mk.injEq, Option.some.injEq] at hdl
  rw [hi, e, ← hdl.1]
  simp [List.map_map, Function.comp_def]

/-- the same over every real source: row-delivering calls raise no hazard, so the outputs
    over the real fetch strategy are those over the list, and `delivered_exactly_once` applies -/
theorem src_delivered_exactly_once (s : Src) (hg : s.good) (hopen : s.abs.hard = false)
    (sss : Bool) (w : Nat) (yp : Option Nat) (h : Handle) (ops : List Op)
    (hd : ∀ op ∈ ops, op.isData = true) (hs : ∀ op ∈ ops, op.sized = true) (hyp : yp ≠ some 0)
    (hh : h.hashOk sss s.abs.rem)
    (hz : ∀ x ∈ run Src.ops { src := s, sss := sss, width := w, yp := yp, r := h, v := none } ops, x.2 = false) :
    ∃ c pre h' rest, s.abs.rem = c ++ rest ∧ deliver sss h c = (some pre, h') ∧
      (run Src.ops { src := s, sss := sss, width := w, yp := yp, r := h, v := none } ops).flatMap
        (fun o => o.1.delivered) = pre.map (postItem sss h) := by
  have href := run_refines src_refines ops
    { src := s, sss := sss, width := w, yp := yp, r := h, v := none } hg hyp hs hz
  obtain ⟨c, pre, e, hdl, hi, _⟩ := delivered_exactly_once ops
    (absSt Src.abs { src := s, sss := sss, width := w, yp := yp, r := h, v := none }) hd rfl hopen hh
  exact ⟨c, pre, _, _, e, hdl, by rw [← href]; exact hi⟩

/-- **fetchmany_unique_spec**: under `unique()`, `fetchmany(n)` returns the first `n` rows
    whose key has not been seen, in order, and consumes exactly up to the last of them
    (`unique_spec` of DESIGN.md) — the `while num_required` batching loop is invisible. -/
theorem fetchmany_unique_spec (sss : Bool) (yp : Option Nat) (h : Handle) (u : UQ) (n : Nat) (p : Plain)
    (hu : h.uq = some u) (hp : p.hard = false) (hh : hashableRows sss h u.strat p.rem) :
    (manyrows Plain.ops sss yp h (some n) p).1 =
        .ok ((takeUniq sss h u.strat p.rem n u.seen).1.map (postItem sss h)) ∧
    (manyrows Plain.ops sss yp h (some n) p).2.1 =
        { h with uq := some { u with seen := (takeUniq sss h u.strat p.rem n u.seen).2.1 } } ∧
    (manyrows Plain.ops sss yp h (some n) p).2.2.rem = (takeUniq sss h u.strat p.rem n u.seen).2.2 := by
  have hl := manyLoop_plain sss h u.strat n (Plain.ops.size p + 1) [] u.seen p hp hh (by simp [Plain.ops])
  unfold manyrows
  simp only [hu]
  rcases hx : manyLoop Plain.ops sss h u.strat n (Plain.ops.size p + 1) [] u.seen p with ⟨o, seen', p1⟩
  rw [hx] at hl
  simp only [List.length_nil, Nat.sub_zero, List.nil_append] at hl
  obtain ⟨ho, hs, hr, _⟩ := hl
  subst ho
  simp [manyFin, hs, hr]

/-- `fetchone()` under `unique()` returns the first unseen row -/
theorem fetchone_unique_spec (raw sss : Bool) (h : Handle) (u : UQ) (p : Plain)
    (hu : h.uq = some u) (hp : p.hard = false) (hh : hashableRows sss h u.strat p.rem) :
    (onerow Plain.ops raw sss h p).1 =
        .ok ((takeUniq sss h u.strat p.rem 1 u.seen).1.head?.map (postItem sss h)) ∧
    (onerow Plain.ops raw sss h p).2.2.rem = (takeUniq sss h u.strat p.rem 1 u.seen).2.2 := by
  have hl := oneLoop_plain raw sss h u.strat (Plain.ops.size p + 1) u.seen p hp hh (by simp [Plain.ops])
  unfold onerow
  simp only [hu]
  rcases hx : oneLoop Plain.ops raw sss h u.strat (Plain.ops.size p + 1) u.seen p with ⟨o, seen', p1⟩
  rw [hx] at hl
  simp only at hl
  obtain ⟨ho, _, hr, _⟩ := hl
  subst ho
  cases (takeUniq sss h u.strat p.rem 1 u.seen).1.head? <;> simp [hr]

/-- without `unique()`, `fetchmany(n)` is `take n` / `drop n` -/
theorem fetchmany_plain_spec (sss : Bool) (yp : Option Nat) (h : Handle) (n : Nat) (p : Plain)
    (hu : h.uq = none) (hp : p.hard = false) :
    (manyrows Plain.ops sss yp h (some n) p).1 =
        .ok ((p.rem.take n).map (fun r => postItem sss h (mkItem sss h r))) ∧
    (manyrows Plain.ops sss yp h (some n) p).2.2.rem = p.rem.drop n := by
  simp [manyrows, hu, effSize, Plain.ops, Plain.fetchmany, hp]

/-! ### projections compose to any depth (`_translated_indexes`) -/

/-- `tuplegetter(*indexes)` on a raw row -/
def proj (c : List Nat) (raw : Row) : Row := c.map (fun i => raw.getD i 0)

/-- the rows a handle sees after a chain of `columns(...)` calls, each applied to the rows
    produced by the previous one -/
def projAll : List (List Nat) → Row → Row
  | [], raw => raw
  | idxs :: rest, raw => projAll rest (proj idxs raw)

/-- the metadata's `_translated_indexes` after the same chain of `_reduce` calls
    (`none` = some call raised IndexError) -/
def reduceAll (width : Nat) : List (List Nat) → Option (List Nat) → Option (Option (List Nat))
  | [], cols => some cols
  | idxs :: rest, cols =>
    match reduceCols width cols idxs with
    | some c => reduceAll width rest (some c)
    | none => none

/-- the rows a handle with translated indexes `cols` hands on -/
def baseRow (cols : Option (List Nat)) (raw : Row) : Row :=
  match cols with
  | none => raw
  | some c0 => proj c0 raw

theorem range_getD (w i : Nat) (h : i < w) : (List.range w).getD i 0 = i := by
  simp [List.getD, h]

/-- one `_reduce`: the new translated indexes read from the raw row what the given indexes
    read from the already projected row -/
theorem reduce_step (width : Nat) (cols : Option (List Nat)) (idxs c : List Nat) (raw : Row)
    (h : reduceCols width cols idxs = some c) :
    proj c raw = proj idxs (baseRow cols raw) := by
  cases cols with
  | none =>
    simp only [reduceCols] at h
    by_cases hall : (idxs.all fun i => decide (i < (List.range width).length)) = true
    · simp only [hall, if_true, Option.some.injEq] at h
      subst h
      simp only [proj, List.map_map]
      apply List.map_congr_left
      intro i hi
      have hlt := (List.all_eq_true.1 hall) i hi
      simp only [decide_eq_true_eq, List.length_range] at hlt
      simp only [Function.comp, baseRow]
      rw [range_getD width i hlt]
    · rw [if_neg hall] at h; cases h
  | some c0 =>
    simp only [reduceCols] at h
    by_cases hall : (idxs.all fun i => decide (i < c0.length)) = true
    · simp only [hall, if_true, Option.some.injEq] at h
      subst h
      simp only [proj, List.map_map]
      apply List.map_congr_left
      intro i hi
      have hlt := (List.all_eq_true.1 hall) i hi
      simp only [decide_eq_true_eq] at hlt
      simp [Function.comp, baseRow, proj, List.getD, List.getElem?_map, hlt]
    · rw [if_neg hall] at h; cases h

/-- **compose_translated**: for a chain of projections of *any* depth, the composed
    `_translated_indexes` applied to the raw row give exactly the successive projections —
    reduction by i then j … equals reduction by the composition, by induction on the chain -/
theorem compose_translated (width : Nat) :
    ∀ (chain : List (List Nat)) (cols : Option (List Nat)) (final : Option (List Nat)) (raw : Row),
      reduceAll width chain cols = some final →
      baseRow final raw = projAll chain (baseRow cols raw) := by
  intro chain
  induction chain with
  | nil =>
    intro cols final raw h
    simp only [reduceAll, Option.some.injEq] at h
    subst h; rfl
  | cons idxs rest ih =>
    intro cols final raw h
    simp only [reduceAll] at h
    cases hr : reduceCols width cols idxs with
    | none => simp [hr] at h
    | some c =>
      rw [hr] at h
      have := ih (some c) final raw h
      rw [this]
      simp only [projAll]
      rw [← reduce_step width cols idxs c raw hr]
      rfl

/-- depth 3 with reordering at every level: `columns(2,0,1).columns(1,2).columns(1)` reads raw
    column 1 -/
example : reduceAll 3 [[2, 0, 1], [1, 2], [1]] none = some (some [1]) ∧
    projAll [[2, 0, 1], [1, 2], [1]] [10, 11, 12] = [11] := by decide

/-! ### first() / one() / one_or_none() -/

/-- the remainder as the property sees it: projected and, under `unique()`, reduced to
    the rows whose key is new -/
def distinctRemainder (sss : Bool) (h : Handle) (rem : List Row) : List Item :=
  match h.uq with
  | none => rem.map (mkItem sss h)
  | some u => (takeUniq sss h u.strat rem rem.length u.seen).1

/-- `one_errors` of DESIGN.md: no row → None / NoResultFound; exactly one → that row;
    two or more → MultipleResultsFound when a second row is checked for, else the first -/
def onlySpec (sss : Bool) (h : Handle) (second rnone : Bool) (rem : List Row) : Out :=
  match distinctRemainder sss h rem with
  | [] => if rnone then .err .noResult else .none
  | [x] => .item (postItem sss h x)
  | x :: _ :: _ => if second then .err .multiple else .item (postItem sss h x)

/-
Full statement (FALSE — finding F17, see `onlyone_unique_counterexample`):
  theorem onlyone_spec (p open) : onlyOne Plain.ops sss h second rnone false p
      = (onlySpec sss h second rnone p.rem, Plain.done)
`_only_one_row` reads raw rows and never consults the seen-set, so the equality needs the
guard that no remaining row has an already-seen key (e.g. nothing was delivered yet).
-/
theorem onlyone_spec_partial (sss : Bool) (h : Handle) (second rnone : Bool) (p : Plain)
    (hp : p.hard = false)
    (hG : ∀ u, h.uq = some u → ∀ r ∈ p.rem, u.seen.contains (keyOf u.strat (mkItem sss h r)) = false) :
    onlyOne Plain.ops sss h second rnone false p = (onlySpec sss h second rnone p.rem, Plain.done) := by
  unfold onlyOne
  rw [Plain.fetchone_open true p hp]
  cases hrem : p.rem with
  | nil =>
    cases hu : h.uq <;> simp [onlySpec, distinctRemainder, hu, takeUniq, Plain.done]
  | cons r rest =>
    simp only [Bool.false_and, Bool.false_eq_true, if_false]
    have hsc : ∀ q : Plain, Plain.ops.softClose true q = Plain.done := by
      intro q; simp [Plain.ops, Plain.softClose, Plain.done]
    cases hu : h.uq with
    | none =>
      cases second with
      | false =>
        cases rest <;> simp [onlySpec, distinctRemainder, hu, hsc]
      | true =>
        simp only [if_true]
        rw [Plain.fetchone_open true { p with rem := rest } hp]
        cases rest with
        | nil => simp [onlySpec, distinctRemainder, hu, Plain.done]
        | cons r2 rest2 => simp [onlySpec, distinctRemainder, hu, hsc]
    | some u =>
      have hr : u.seen.contains (keyOf u.strat (mkItem sss h r)) = false := hG u hu r (by simp [hrem])
      have hrest : ∀ x ∈ rest, u.seen.contains (keyOf u.strat (mkItem sss h x)) = false :=
        fun x hx => hG u hu x (by simp [hrem, hx])
      -- the de-duplicated remainder starts with the first row …
      have hdr : distinctRemainder sss h (r :: rest) =
          mkItem sss h r ::
            (takeUniq sss h u.strat rest rest.length (keyOf u.strat (mkItem sss h r) :: u.seen)).1 := by
        have hr' : keyOf u.strat (mkItem sss h r) ∉ u.seen := by simpa using hr
        simp [distinctRemainder, hu, takeUniq, hr']
      -- … and has a second element iff some later row differs from it
      have hsecond : (takeUniq sss h u.strat rest rest.length (keyOf u.strat (mkItem sss h r) :: u.seen)).1 = [] ↔
          rest.any (fun x => decide (keyOf u.strat (mkItem sss h x) ≠ keyOf u.strat (mkItem sss h r))) = false := by
        cases hre : rest with
        | nil => simp [takeUniq]
        | cons y ys =>
          rw [← hre, takeUniq_nil_iff sss h u.strat rest rest.length _ (by simp [hre])]
          simp only [List.any_eq_false, decide_eq_true_eq, List.contains_cons]
          constructor
          · intro hall x hx
            have := hall x hx
            have hns := hrest x hx
            simp only [Bool.or_eq_true, beq_iff_eq] at this
            rcases this with h1 | h1
            · simp [h1]
            · rw [hns] at h1; cases h1
          · intro hall x hx
            have := hall x hx
            simp only [ne_eq, Decidable.not_not] at this
            simp [this]
      cases second with
      | false =>
        simp only [Bool.false_eq_true, if_false, hsc, onlySpec, hdr]
        cases (takeUniq sss h u.strat rest rest.length (keyOf u.strat (mkItem sss h r) :: u.seen)).1 <;> simp
      | true =>
        simp only [if_true]
        have hsk := skipEq_plain sss h u.strat (keyOf u.strat (mkItem sss h r)) (Plain.ops.size { p with rem := rest } + 1)
          { p with rem := rest } hp (by simp [Plain.ops])
        rcases hx : skipEq Plain.ops sss h u.strat (keyOf u.strat (mkItem sss h r))
          (Plain.ops.size { p with rem := rest } + 1) { p with rem := rest } with ⟨o, p2⟩
        rw [hx] at hsk
        simp only at hsk
        obtain ⟨ho, hclose, hdone⟩ := hsk
        subst ho
        cases hany : rest.any (fun x => decide (keyOf u.strat (mkItem sss h x) ≠ keyOf u.strat (mkItem sss h r))) with
        | true =>
          have hne : (takeUniq sss h u.strat rest rest.length (keyOf u.strat (mkItem sss h r) :: u.seen)).1 ≠ [] := by
            intro hnil; rw [hsecond.1 hnil] at hany; cases hany
          simp only [onlySpec, hdr]
          have : Plain.ops.softClose true p2 = Plain.done := hclose
          cases htl : (takeUniq sss h u.strat rest rest.length (keyOf u.strat (mkItem sss h r) :: u.seen)).1 with
          | nil => exact absurd htl hne
          | cons y ys => simp [this]
        | false =>
          have hnil := hsecond.2 hany
          simp only [onlySpec, hdr, hnil]
          simp [hdone hany]

/-- **F17**: `unique()`, one row delivered, then `first()`: the code returns the duplicate
    `(1)` again where the de-duplicated remainder starts with `(2)`; with `one()` it raises
    MultipleResultsFound where exactly one unseen row is left. -/
theorem onlyone_unique_counterexample :
    (run Plain.ops (plainInit [[1], [1], [2]] false false 1)
        [.unique .r .ident, .fetchone .r, .first .r]).map (·.1) =
      [.unit, .item (.row [1]), .item (.row [1])] ∧
    onlySpec false { view := .rows, cols := none, uq := some { seen := [.tup [1]], strat := .ident } }
        false false [[1], [2]] = .item (.row [2]) ∧
    (run Plain.ops (plainInit [[1], [1], [2]] false false 1)
        [.unique .r .ident, .fetchone .r, .one .r]).map (·.1) =
      [.unit, .item (.row [1]), .err .multiple] ∧
    onlySpec false { view := .rows, cols := none, uq := some { seen := [.tup [1]], strat := .ident } }
        true true [[1], [2]] = .item (.row [2]) := by
  decide

/-! non-vacuity of `onlyone_spec_partial`: a fresh unique filter over rows with duplicates -/
example : onlyOne Plain.ops false { view := .rows, cols := none, uq := some { seen := [], strat := .ident } }
    true true false { rem := [[3], [3], [3]], hard := false, d1 := false } =
    (.item (.row [3]), Plain.done) := by decide

/-! ## 4. frozen and merged results -/

/-- **frozen_replay**: thawing a FrozenResult gives an open result over exactly the frozen
    data — `fetchall` returns it, for any data, any number of times (the thaw is a pure
    function of the data) -/
theorem frozen_replay (data : List Row) (w : Nat) :
    (step Src.ops (St.init (Src.ops.ofList data) false w) (.fetchall .r)).1 =
      (.items (data.map .row), false) := by
  simp [step, getH, St.init, Handle.init, allrows, Src.ops, Src.fetchall, mkItem, postItem,
    List.map_map, Function.comp_def]

/-- freezing consumes the result through `fetchall` (filters applied) and the thawed result
    starts from exactly those rows -/
theorem freeze_data (s : Src) (hg : s.good) (hopen : s.abs.hard = false) (w : Nat) (h : Handle)
    (hu : h.uq = none) (hv : h.view = .rows) :
    (step Src.ops { src := s, sss := false, width := w, yp := none, r := h, v := none } .freeze).2.src.abs.rem =
      s.abs.rem.map (fun r => itemVals (mkItem false h r)) := by
  have hr := src_fetchall_refines s hg
  simp only [step, Bool.false_eq_true, if_false, allrows, hu]
  have h1 : (Src.fetchall s).1 = .ok s.abs.rem := by
    have := congrArg Prod.fst hr.1
    simpa [Prod.map, Plain.fetchall, hopen] using this
  rcases hx : Src.ops.fetchall s with ⟨o, s1⟩
  have hx' : Src.fetchall s = (o, s1) := hx
  rw [hx'] at h1
  simp only at h1
  subst h1
  simp [Src.ops, Src.abs, postItem, hv, List.map_map, Function.comp_def]

theorem rawDrain_spec :
    ∀ (f : Nat) (s : Src), s.good → s.abs.hard = false → s.abs.rem.length < f →
      Src.rawDrain f s = s.abs.rem := by
  intro f
  induction f with
  | zero => intro s _ _ hf; omega
  | succ f ih =>
    intro s hg ho hf
    have hr := src_rawNext_refines s hg
    simp only [Src.rawDrain]
    rcases hx : Src.rawNext s with ⟨o, s1⟩
    rw [hx] at hr
    obtain ⟨hr1, hg1⟩ := hr
    simp only [Prod.map, id] at hr1
    rw [Plain.rawNext_eq] at hr1
    cases hrem : s.abs.rem with
    | nil =>
      simp [Plain.fetchone, ho, hrem] at hr1
      obtain ⟨h1, _⟩ := hr1
      subst h1
      rfl
    | cons r rest =>
      simp [Plain.fetchone, ho, hrem] at hr1
      obtain ⟨h1, h2⟩ := hr1
      subst h1
      simp only
      have := ih s1 hg1 (by rw [h2]) (by rw [h2]; simp [hrem] at hf; simpa using hf)
      rw [this, h2]

/-- **merged_concat**: a MergedResult over fresh children delivers the children's rows
    concatenated, whatever fetch strategy each child uses -/
theorem merged_concat (children : List Src) (hg : ∀ c ∈ children, c.good)
    (ho : ∀ c ∈ children, c.abs.hard = false) :
    (Src.mkMerged children).abs.rem = children.flatMap (fun c => c.abs.rem) := by
  have hm : (Src.mkMerged children).abs.rem =
      children.flatMap (fun c => Src.rawDrain (c.size + 1) c) := rfl
  rw [hm]
  clear hm
  induction children with
  | nil => rfl
  | cons c cs ih =>
    simp only [List.flatMap_cons]
    rw [ih (fun x hx => hg x (by simp [hx])) (fun x hx => ho x (by simp [hx]))]
    rw [rawDrain_spec _ c (hg c (by simp)) (ho c (by simp)) (by rw [src_size c (hg c (by simp))]; omega)]

example : (Src.mkMerged [Src.mkBuffered 2 [[1], [2], [3]], Src.mkDefault [[4]], Src.mkFull [[5], [6]]]).abs.rem =
    [[1], [2], [3], [4], [5], [6]] := by decide

end SaVerif.Props.C10
