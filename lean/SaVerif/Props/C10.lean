import SaVerif.Lemmas.Result
/-!
# C10 — Result objects deliver exactly the underlying rows under any access pattern

Theorems about M-RESULT (`SaVerif/Model/Result.lean`).  Layout of the argument:

1. `src_refines` (Lemmas): every primitive of every real source — `CursorFetchStrategy`,
   `BufferedRowCursorFetchStrategy` with *any* buffer contents / bufsize / growth factor /
   max_row_buffer, `FullyBufferedCursorFetchStrategy`, `IteratorResult`,
   `ChunkedIteratorResult` (not dynamic) — commutes with the abstraction
   `buffer ++ cursor ↦ remaining rows`.
2. `run_refines`: hence *every operation sequence* on the facade (Result / ScalarResult /
   MappingResult calls, `Op`) returns over a real source exactly what it returns over the
   bare list, by induction over the sequence (hazard-free runs, sizes ≥ 1).
3. On the bare list the loops disappear: `fetchmany_unique_spec` etc. characterise each
   call by a structural function of the remaining rows.
-/
namespace SaVerif.Props.C10
open SaVerif.Result

/-! ## 1–2. refinement of every source to the bare list, for every op sequence -/

/-- **run_refines**: for any source type that refines the bare list, any facade state and
    any operation sequence with sizes ≥ 1 whose run raises no hazard flag, the outputs (and
    flags) over the source equal those over the bare list. -/
theorem run_refines {σ : Type} {O : SrcOps σ} {good : σ → Prop} {abs : σ → Plain}
    (R : Refines O good abs) :
    ∀ (ops : List Op) (st : St σ), good st.src → st.yp ≠ some 0 →
      (∀ op ∈ ops, op.sized = true) → (∀ x ∈ run O st ops, x.2 = false) →
      run Plain.ops (absSt abs st) ops = run O st ops := by
  intro ops
  induction ops with
  | nil => intro st _ _ _ _; simp [run]
  | cons op ops ih =>
    intro st hg hyp hs hz
    simp only [run] at hz ⊢
    have hz0 : (step O st op).1.2 = false := hz _ (by simp)
    have h := step_refines R st op hg hyp (hs op (by simp)) hz0
    rw [h.1]
    simp only
    rw [ih (step O st op).2 h.2.1 h.2.2 (fun o ho => hs o (by simp [ho]))
      (fun x hx => hz x (by simp [hx]))]

/-- the bare list a run starts from -/
def plainInit (rows : List Row) (d1 sss : Bool) (width : Nat) : St Plain :=
  St.init { rem := rows, hard := false, d1 := d1 } sss width

theorem absSt_init (s : Src) (sss : Bool) (w : Nat) :
    absSt Src.abs (St.init s sss w) = St.init s.abs sss w := rfl

/-- **default_refines_plain**: the plain DBAPI-cursor strategy -/
theorem default_refines_plain (rows : List Row) (sss : Bool) (w : Nat) (ops : List Op)
    (hs : ∀ op ∈ ops, op.sized = true)
    (hz : ∀ x ∈ run Src.ops (St.init (Src.mkDefault rows) sss w) ops, x.2 = false) :
    run Src.ops (St.init (Src.mkDefault rows) sss w) ops = run Plain.ops (plainInit rows true sss w) ops := by
  have h := run_refines src_refines ops (St.init (Src.mkDefault rows) sss w)
    (by simp [St.init, Src.mkDefault, Src.good]) (by simp [St.init]) hs hz
  rw [← h]; rfl

/-- **buffered_refines_plain**: `stream_results` with any `max_row_buffer`; the invariant
    `buffer ++ cursor = remaining rows` holds through every growth step of the buffer -/
theorem buffered_refines_plain (maxbuf : Nat) (rows : List Row) (sss : Bool) (w : Nat) (ops : List Op)
    (hs : ∀ op ∈ ops, op.sized = true)
    (hz : ∀ x ∈ run Src.ops (St.init (Src.mkBuffered maxbuf rows) sss w) ops, x.2 = false) :
    run Src.ops (St.init (Src.mkBuffered maxbuf rows) sss w) ops =
      run Plain.ops (plainInit rows false sss w) ops := by
  have h := run_refines src_refines ops (St.init (Src.mkBuffered maxbuf rows) sss w)
    (by simp [St.init, Src.mkBuffered, Src.good]) (by simp [St.init]) hs hz
  rw [← h, absSt_init]
  have : List.take 1 rows ++ List.drop 1 rows = rows := List.take_append_drop 1 rows
  simp only [Src.mkBuffered, Src.abs, plainInit, this]

/-- any BufferedRow state at all (arbitrary buffer, bufsize, growth factor, max) -/
theorem buffered_any_refines_plain (buf cur : List Row) (bs g mx : Nat) (sss : Bool) (w : Nat)
    (ops : List Op) (hs : ∀ op ∈ ops, op.sized = true)
    (hz : ∀ x ∈ run Src.ops (St.init (.cursor (.buffered buf bs g mx) cur false false) sss w) ops, x.2 = false) :
    run Src.ops (St.init (.cursor (.buffered buf bs g mx) cur false false) sss w) ops =
      run Plain.ops (plainInit (buf ++ cur) false sss w) ops := by
  have h := run_refines src_refines ops (St.init (.cursor (.buffered buf bs g mx) cur false false) sss w)
    (by simp [St.init, Src.good]) (by simp [St.init]) hs hz
  rw [← h]; rfl

theorem full_refines_plain (rows : List Row) (sss : Bool) (w : Nat) (ops : List Op)
    (hs : ∀ op ∈ ops, op.sized = true)
    (hz : ∀ x ∈ run Src.ops (St.init (Src.mkFull rows) sss w) ops, x.2 = false) :
    run Src.ops (St.init (Src.mkFull rows) sss w) ops = run Plain.ops (plainInit rows false sss w) ops := by
  have h := run_refines src_refines ops (St.init (Src.mkFull rows) sss w)
    (by simp [St.init, Src.mkFull, Src.good]) (by simp [St.init]) hs hz
  rw [← h]; rfl

theorem iter_refines_plain (rows : List Row) (sss : Bool) (w : Nat) (ops : List Op)
    (hs : ∀ op ∈ ops, op.sized = true)
    (hz : ∀ x ∈ run Src.ops (St.init (Src.mkIter rows) sss w) ops, x.2 = false) :
    run Src.ops (St.init (Src.mkIter rows) sss w) ops = run Plain.ops (plainInit rows false sss w) ops := by
  have h := run_refines src_refines ops (St.init (Src.mkIter rows) sss w)
    (by simp [St.init, Src.mkIter, Src.good]) (by simp [St.init]) hs hz
  rw [← h]; rfl

/-- ChunkedIteratorResult refines the list when `dynamic_yield_per` is off and the run
    raises no hazard (no `yield_per` while a chunk is held).  Full statement (false, see
    `chunked_dynamic_counterexample`): the same for `dynamic_yield_per = True`. -/
theorem chunked_refines_plain_partial (rows : List Row) (sss : Bool) (w : Nat) (ops : List Op)
    (hs : ∀ op ∈ ops, op.sized = true)
    (hz : ∀ x ∈ run Src.ops (St.init (Src.mkChunked false rows) sss w) ops, x.2 = false) :
    run Src.ops (St.init (Src.mkChunked false rows) sss w) ops =
      run Plain.ops (plainInit rows false sss w) ops := by
  have h := run_refines src_refines ops (St.init (Src.mkChunked false rows) sss w)
    (by simp [St.init, Src.mkChunked, Src.good]) (by simp [St.init]) hs hz
  rw [← h]; rfl

/-- dynamic_yield_per: `fetchone` then `fetchmany(2)` drops rows 1–3 of the held chunk -/
theorem chunked_dynamic_counterexample :
    (run Src.ops (St.init (Src.mkChunked true [[0],[1],[2],[3],[4],[5]]) false 1)
        [.yieldPer .r 4, .fetchone .r, .fetchmany .r (some 2)]).map (·.1) ≠
    (run Plain.ops (plainInit [[0],[1],[2],[3],[4],[5]] false false 1)
        [.yieldPer .r 4, .fetchone .r, .fetchmany .r (some 2)]).map (·.1) := by
  decide

/-- `yield_per` after a fetch on a ChunkedIteratorResult: hazard flag raised, rows lost -/
theorem chunked_yield_per_counterexample :
    (run Src.ops (St.init (Src.mkChunked false [[0],[1],[2],[3]]) false 1)
        [.yieldPer .r 3, .fetchone .r, .yieldPer .r 2, .fetchall .r]) =
      [(.unit, false), (.item (.row [0]), false), (.unit, true), (.items [.row [3]], false)] := by
  decide

/-- first() on a CursorResult that was already auto-closed by exhaustion does not
    hard-close it (hazard `corner`): later fetches return [] instead of raising -/
theorem corner_counterexample :
    (run Src.ops (St.init (Src.mkDefault [[1]]) false 1) [.fetchall .r, .first .r, .fetchall .r]) =
      [(.items [.row [1]], false), (.none, true), (.items [], false)] ∧
    (run Plain.ops (plainInit [[1]] true false 1) [.fetchall .r, .first .r, .fetchall .r]).map (·.1) =
      [.items [.row [1]], .none, .err .closed] := by
  decide

/-! non-vacuity: a hazard-free, sized run with buffer growth, a view, uniqueness and a close -/
example :
    let ops := [Op.fetchone .r, .fetchmany .r (some 3), .unique .r .ident, .scalars 0,
                .iter .v 2, .partitions .v (some 1) 2, .first .v, .closed .r]
    (∀ op ∈ ops, op.sized = true) ∧
    (∀ x ∈ run Src.ops (St.init (Src.mkBuffered 7 ((List.range 14).map (fun i => [i % 5]))) false 1) ops,
      x.2 = false) := by
  decide

end SaVerif.Props.C10
