import SaVerif.Model.Autoflush
/-!
# C47 — With autoflush on, queries see all pending changes

Theorems about M-ORM/autoflush (`SaVerif/Model/Autoflush.lean`).

* `insertAll_spec` (induction over `session.new`), `flush_eq_spec` — a successful
  flush leaves the database equal to the pointwise specification `specDb`: every
  pending object is present with its values, every modified object's row holds its
  current values, every deleted object's row is gone, everything else is untouched.
* `flush_flush` — flush is idempotent.
* `autoflush_query_eq_flush_then_query`, `…_count`, `…_core`, `…_get`, `…_children` —
  with autoflush enabled each reading operation returns (and leaves the session in)
  exactly what it returns after an explicit `flush()`.
* `query_reflects_pending` — the autoflushing query is evaluated over `specDb`.
* `no_autoflush_sees_db` — with the execution option or inside `no_autoflush` the
  query is evaluated over the unflushed database.
-/
namespace SaVerif.Props.C47
open SaVerif.Autoflush

/-! ## what a flush writes -/

theorem insertAll_none_before : ∀ (l : List (Key × Row)) (db db' : DB),
    insertAll l db = some db' → ∀ e ∈ l, db e.1 = none := by
  intro l
  induction l with
  | nil => intro db db' _ e he; cases he
  | cons x rest ih =>
    intro db db' h e he
    obtain ⟨k, r⟩ := x
    simp only [insertAll] at h
    cases hk : db k with
    | some _ => simp [hk] at h
    | none =>
      simp only [hk] at h
      rcases List.mem_cons.1 he with rfl | hin
      · exact hk
      · have := ih _ _ h e hin
        by_cases hek : e.1 = k
        · simp [hek] at this
        · simpa [hek] using this

/-- **insertAll_spec**: the INSERT phase, by induction over the pending list -/
theorem insertAll_spec : ∀ (l : List (Key × Row)) (db db' : DB),
    insertAll l db = some db' →
    ∀ k, db' k = (match l.find? (fun e => e.1 == k) with
                  | some e => some e.2
                  | none => db k) := by
  intro l
  induction l with
  | nil => intro db db' h k; simp only [insertAll, Option.some.injEq] at h; subst h; rfl
  | cons x rest ih =>
    intro db db' h k
    obtain ⟨k0, r0⟩ := x
    simp only [insertAll] at h
    cases hk0 : db k0 with
    | some _ => simp [hk0] at h
    | none =>
      simp only [hk0] at h
      have hrec := ih _ _ h k
      have hnone := insertAll_none_before _ _ _ h
      by_cases hkk : k0 = k
      · subst hkk
        simp only [List.find?_cons, beq_self_eq_true]
        -- no later entry can have the same key: the slot is occupied by then
        have hnf : rest.find? (fun e => e.1 == k0) = none := by
          rw [List.find?_eq_none]
          intro e he hek
          have := hnone e he
          simp only [beq_iff_eq] at hek
          simp [hek] at this
        rw [hrec, hnf]
        simp
      · have hne : ((k0 == k) = false) := by simpa using hkk
        simp only [List.find?_cons, hne]
        rw [hrec]
        cases rest.find? (fun e => e.1 == k) with
        | some e => rfl
        | none => simp only []; rw [if_neg (fun h : k = k0 => hkk h.symm)]

theorem find_filter_of_imp {α : Type} (l : List α) (p q : α → Bool) (h : ∀ a, q a = true → p a = true) :
    (l.filter p).find? q = l.find? q := by
  induction l with
  | nil => rfl
  | cons x rest ih =>
    by_cases hp : p x = true
    · simp only [List.filter_cons, hp, if_true, List.find?_cons, ih]
    · have hq : q x = false := by
        cases hqx : q x with
        | false => rfl
        | true => exact absurd (h x hqx) hp
      simp only [List.filter_cons, hp, Bool.false_eq_true, if_false, List.find?_cons, hq, ih]

theorem find_filter_of_not {α : Type} (l : List α) (p q : α → Bool) (h : ∀ a, q a = true → p a = false) :
    (l.filter p).find? q = none := by
  rw [List.find?_eq_none]
  intro a ha hq
  rw [List.mem_filter] at ha
  rw [h a hq] at ha
  exact absurd ha.2 (by simp)

/-- first pending entry for a key: the INSERT order (P before C) does not matter -/
theorem find_orderedNew (l : List (Key × Row)) (k : Key) :
    (orderedNew l).find? (fun e => e.1 == k) = l.find? (fun e => e.1 == k) := by
  unfold orderedNew
  rw [List.find?_append]
  by_cases hk : k.t = 0
  · rw [find_filter_of_imp l _ _ (by
      intro a ha
      simp only [beq_iff_eq] at ha
      simp [ha, hk])]
    rw [find_filter_of_not l _ _ (by
      intro a ha
      simp only [beq_iff_eq] at ha
      simp [ha, hk])]
    simp
  · rw [find_filter_of_not l _ _ (by
      intro a ha
      simp only [beq_iff_eq] at ha
      simp [ha, hk])]
    rw [find_filter_of_imp l _ _ (by
      intro a ha
      simp only [beq_iff_eq] at ha
      simp [ha, hk])]
    simp

/-- the database the pending state describes -/
def specDb (st : St) : DB := fun k =>
  applyObj (st.objs k) (match st.new.find? (fun e => e.1 == k) with
                         | some e => some e.2
                         | none => st.db k)

/-- **flush_eq_spec** -/
theorem flush_eq_spec (c : Cfg) (st st1 : St) (hw : hasWork c st = true)
    (h : doFlush c st = some st1) : st1.db = specDb st ∧ st1.new = [] := by
  unfold doFlush at h
  simp only [hw, Bool.not_true, Bool.false_eq_true, if_false] at h
  cases hi : insertAll (orderedNew st.new) st.db with
  | none => simp [hi] at h
  | some db1 =>
    simp only [hi, Option.some.injEq] at h
    subst h
    refine ⟨?_, rfl⟩
    funext k
    simp only [specDb]
    rw [insertAll_spec _ _ _ hi k, find_orderedNew]

theorem flush_nowork (c : Cfg) (st : St) (hw : hasWork c st = false) : doFlush c st = some st := by
  simp [doFlush, hw]

/-- after a flush there is nothing left to flush -/
theorem hasWork_after_flush (c : Cfg) (st st1 : St) (h : doFlush c st = some st1) :
    hasWork c st1 = false := by
  cases hw : hasWork c st with
  | false => rw [flush_nowork c st hw] at h; cases h; exact hw
  | true =>
    unfold doFlush at h
    simp only [hw, Bool.not_true, Bool.false_eq_true, if_false] at h
    cases hi : insertAll (orderedNew st.new) st.db with
    | none => simp [hi] at h
    | some db1 =>
      simp only [hi, Option.some.injEq] at h
      subst h
      unfold hasWork
      simp only [List.isEmpty_nil, Bool.not_true, Bool.false_or]
      rw [List.any_eq_false]
      intro i _
      have clean : ∀ k : Key, workAt (objsAfter st k) = false := by
        intro k
        unfold objsAfter
        cases st.new.find? (fun e => e.1 == k) with
        | some e => rfl
        | none =>
          simp only [objAfterFlush]
          cases st.objs k with
          | none => rfl
          | some o => by_cases hd : o.del = true <;> simp [hd, workAt]
      simp only [List.any_cons, List.any_nil, Bool.or_false, clean]
      decide

/-- **flush_flush**: flush is idempotent -/
theorem flush_flush (c : Cfg) (st st1 : St) (h : doFlush c st = some st1) :
    doFlush c st1 = some st1 :=
  flush_nowork c st1 (hasWork_after_flush c st st1 h)

/-! ## autoflush = flush, then the operation -/

theorem afStep_after_flush (c : Cfg) (on : Bool) (st st1 : St) (h : doFlush c st = some st1) :
    afStep c on st1 = some st1 := by
  unfold afStep
  cases on with
  | true => simp only [if_true]; exact flush_flush c st st1 h
  | false => rfl

/-- `Session.flush()` that succeeds -/
theorem step_flush (c : Cfg) (st st1 : St) (h : doFlush c st = some st1) :
    step c st .flush = (st1, .done) := by
  simp only [step, h]

/-- **autoflush_query_eq_flush_then_query**: autoflush enabled; `st1` is the session
    after an explicit, successful `flush()` (`step_flush`): the ORM query returns the
    same rows and leaves the same session state whether or not `flush()` was called
    first. -/
theorem autoflush_query_eq_flush_then_query (c : Cfg) (haf : c.af = true) (st st1 : St) (q : Q)
    (h : doFlush c st = some st1) :
    step c st (.query q .on) = step c st1 (.query q .on) := by
  have h2 := afStep_after_flush c (autoflushOn c .on) st st1 h
  simp only [step, h2]
  simp only [autoflushOn, haf, afStep, Bool.true_and, beq_self_eq_true, if_true, h]

theorem autoflush_count_eq_flush_then_count (c : Cfg) (haf : c.af = true) (st st1 : St) (q : Q)
    (h : doFlush c st = some st1) :
    step c st (.count q .on) = step c st1 (.count q .on) := by
  have h2 := afStep_after_flush c (autoflushOn c .on) st st1 h
  simp only [step, h2]
  simp only [autoflushOn, haf, afStep, Bool.true_and, beq_self_eq_true, if_true, h]

theorem autoflush_core_eq_flush_then_core (c : Cfg) (haf : c.af = true) (st st1 : St) (q : Q)
    (h : doFlush c st = some st1) :
    step c st (.core q .on) = step c st1 (.core q .on) := by
  have h2 := afStep_after_flush c (coreFlushOn c .on) st st1 h
  simp only [step, h2]
  have : coreFlushOn c .on = true := by simp [coreFlushOn, haf]
  simp only [this, afStep, if_true, h]

/-- a legacy `Query` made of Table columns / SQL functions only (no ORM entity) -/
theorem autoflush_legacy_eq_flush_then_legacy (c : Cfg) (haf : c.af = true) (st st1 : St) (q : Q)
    (h : doFlush c st = some st1) :
    step c st (.legacy q .on) = step c st1 (.legacy q .on) ∧
    step c st (.legacyCount q .on) = step c st1 (.legacyCount q .on) := by
  have h2 := afStep_after_flush c (autoflushOn c .on) st st1 h
  simp only [step, h2]
  simp only [autoflushOn, haf, afStep, Bool.true_and, beq_self_eq_true, if_true, h, and_self]

/-- lazy load of `P.children` on a persistent, not deleted parent -/
theorem autoflush_children_eq_flush_then_children (c : Cfg) (haf : c.af = true) (st st1 : St) (p : Nat)
    (o o1 : Obj) (ho : st.objs ⟨0, p⟩ = some o) (hd : o.del = false)
    (h : doFlush c st = some st1) (ho1 : st1.objs ⟨0, p⟩ = some o1) (hd1 : o1.del = false) :
    step c st (.children p .on) = step c st1 (.children p .on) := by
  have h2 := afStep_after_flush c (c.af && AfMode.on == AfMode.on) st st1 h
  simp only [step, ho, hd, ho1, hd1, Bool.false_eq_true, if_false, h2]
  simp only [haf, afStep, Bool.true_and, beq_self_eq_true, if_true, h]

/-- `Session.get` of an identity that is absent from the identity map before and
    after the flush (a pending object of that identity: `get_pending_found`) -/
theorem autoflush_get_eq_flush_then_get (c : Cfg) (haf : c.af = true) (st st1 : St) (k : Key)
    (habs : st.objs k = none) (h : doFlush c st = some st1) (habs1 : st1.objs k = none) :
    step c st (.get k .on) = step c st1 (.get k .on) := by
  have h2 := afStep_after_flush c (autoflushOn c .on) st st1 h
  simp only [step, habs, habs1, h2]
  simp only [autoflushOn, haf, afStep, Bool.true_and, beq_self_eq_true, if_true, h, habs1]

/-- a pending object is found by `get` once autoflush has inserted it -/
theorem get_pending_found (c : Cfg) (haf : c.af = true) (st st1 : St) (k : Key) (r : Row)
    (habs : st.objs k = none) (hnew : st.new.find? (fun e => e.1 == k) = some (k, r))
    (h : doFlush c st = some st1) :
    (step c st (.get k .on)).2 = .obj (some (r.a, false)) := by
  have hw : hasWork c st = true := by
    unfold hasWork
    cases hl : st.new with
    | nil => simp [hl] at hnew
    | cons _ _ => simp
  have hobj : st1.objs k = some ⟨r, false, false⟩ := by
    have h' := h
    unfold doFlush at h'
    simp only [hw, Bool.not_true, Bool.false_eq_true, if_false] at h'
    cases hi : insertAll (orderedNew st.new) st.db with
    | none => simp [hi] at h'
    | some db1 =>
      simp only [hi, Option.some.injEq] at h'
      rw [← h']
      simp only [objsAfter, hnew]
  simp only [step, habs, autoflushOn, haf, afStep, Bool.true_and, beq_self_eq_true, if_true, h, hobj]

/-- **query_reflects_pending**: the autoflushing query is evaluated over the database
    the pending state describes -/
theorem query_reflects_pending (c : Cfg) (haf : c.af = true) (st st1 : St) (q : Q)
    (hw : hasWork c st = true) (h : doFlush c st = some st1) :
    (step c st (.query q .on)).2 =
      .rows (resultOf (loadInto st1 (evalQ c.n (specDb st) q).1 (evalQ c.n (specDb st) q).2)
                      (evalQ c.n (specDb st) q).1 (evalQ c.n (specDb st) q).2) := by
  have hdb := (flush_eq_spec c st st1 hw h).1
  simp only [step, autoflushOn, haf, afStep, Bool.true_and, beq_self_eq_true, if_true, h, hdb]

/-- **no_autoflush_sees_db**: execution option `autoflush=False`, `no_autoflush`, or a
    Session created with `autoflush=False`: no flush, the query runs on the database
    as it is -/
theorem no_autoflush_sees_db (c : Cfg) (st : St) (q : Q) (m : AfMode)
    (hoff : c.af = false ∨ m ≠ .on) :
    (step c st (.query q m)).2 =
      .rows (resultOf (loadInto st (evalQ c.n st.db q).1 (evalQ c.n st.db q).2)
                      (evalQ c.n st.db q).1 (evalQ c.n st.db q).2) := by
  have : autoflushOn c m = false := by
    unfold autoflushOn
    rcases hoff with h | h
    · simp [h]
    · cases m <;> simp_all
  simp only [step, this, afStep, Bool.false_eq_true, if_false]

/-! ## non-vacuity -/

/-- pending add + modification + delete, then an autoflushing query / count / lazy load -/
example :
    let c : Cfg := ⟨3, true⟩
    runOut c St.init [.add ⟨0, 0⟩ ⟨1, none⟩, .add ⟨1, 0⟩ ⟨1, some 0⟩, .add ⟨1, 1⟩ ⟨2, some 0⟩, .commit,
                      .query (.all 1) .on, .setA ⟨1, 0⟩ 2, .del ⟨1, 1⟩, .add ⟨1, 2⟩ ⟨2, some 0⟩,
                      .query (.byA 1 2) .optOff, .query (.byA 1 2) .on, .count (.byPid 0) .on,
                      .children 0 .on] =
      [.done, .done, .done, .done, .rows [(0, 1), (1, 2)], .done, .done, .done,
       .rows [(1, 2)], .rows [(0, 2), (2, 2)], .num 2, .rows [(0, 2), (2, 2)]] := by decide

/-- hypotheses of `autoflush_query_eq_flush_then_query` are satisfiable with work pending -/
example :
    let c : Cfg := ⟨2, true⟩
    let st := run c St.init [.add ⟨0, 0⟩ ⟨1, none⟩, .commit, .setA ⟨0, 0⟩ 5, .add ⟨0, 1⟩ ⟨5, none⟩]
    hasWork c st = true ∧ (doFlush c st).isSome = true ∧
    (step c st (.query (.byA 0 5) .on)).2 = .rows [(0, 5), (1, 5)] := by decide

end SaVerif.Props.C47
