import SaVerif.Model.Autoflush
/-!
# C47 — With autoflush on, queries see all pending changes

Theorems about M-ORM/autoflush (`SaVerif/Model/Autoflush.lean`).

* `insertAll_spec` (induction over `session.new`), `flush_eq_spec` — a successful
  flush leaves the database equal to the pointwise specification `specDb`: every
  pending object is present with its values, every modified object's row holds its
  current values, every deleted object's row is gone, everything else is untouched.
* `flush_flush` — flush is idempotent.
* `core_autoflush_precedes_scalar_fast_path`, `core_autoflush_precedes_execute`,
  `kind_plugin_table` — translator obligations: the ordering facts and the plugin table
  regenerated from the current orm/session.py / the real statements
  (`SaVerif/Gen/AutoflushCfg.lean`); `flushes_table` — with them the autoflush decision
  of `Session._execute_internal` does not depend on the entry point.
* `autoflush_query_eq_flush_then_query` (for EVERY statement kind — ORM entities, ORM
  count, Core select / count on the Table, text(), Core exists() over ORM criteria,
  legacy Query — and EVERY entry point — Session.execute / .scalars / .scalar,
  Query.all / .first / .one_or_none / .scalar / .count), `…_no_autoflush` (the same read
  run inside `no_autoflush` after the explicit flush), `…_count`, `…_core`, `…_legacy`,
  `…_get`, `…_children` — with autoflush enabled each reading operation returns (and
  leaves the session in) exactly what it returns after an explicit `flush()`.
* `scalar_eq_head_of_execute`, `scalars_eq_execute`, `first_eq_head_of_all` — in every
  state Session.scalar(stmt) returns the head (or None) of what Session.execute(stmt)
  returns, over the same database.
* `query_reflects_pending` — the autoflushing statement is evaluated over `specDb`.
* `no_autoflush_sees_db` — inside `no_autoflush`, with Session(autoflush=False), or (ORM
  statements) with the execution option the statement is evaluated over the unflushed
  database; `core_ignores_autoflush_option` — a statement without the ORM plugin
  flushes in spite of the execution option (#9809).
-/
namespace SaVerif.Props.C47
open SaVerif.Autoflush
open SaVerif.Gen.AutoflushCfg

/-! ## what a flush writes -/

theorem insertAll_none_before : ∀ (l : List (Key × Row)) (db db' : DB),
    insertAll l db = some db' → ∀ e ∈ l, db e.1 = none := by
  intro l
  induction l with
  | nil => intro db db' _ e he; cases he
  | cons x rest ih =>
    intro db db' h e he
    obtain ⟨k, r⟩ := x
    simp only [insertAll] at h
    cases hk : db k with
    | some _ => simp [hk] at h
    | none =>
      simp only [hk] at h
      rcases List.mem_cons.1 he with rfl | hin
      · exact hk
      · have := ih _ _ h e hin
        by_cases hek : e.1 = k
        · simp [hek] at this
        · simpa [hek] using this

/-- **insertAll_spec**: the INSERT phase, by induction over the pending list -/
theorem insertAll_spec : ∀ (l : List (Key × Row)) (db db' : DB),
    insertAll l db = some db' →
    ∀ k, db' k = (match l.find? (fun e => e.1 == k) with
                  | some e => some e.2
                  | none => db k) := by
  intro l
  induction l with
  | nil => intro db db' h k; simp only [insertAll, Option.some.injEq] at h; subst h; rfl
  | cons x rest ih =>
    intro db db' h k
    obtain ⟨k0, r0⟩ := x
    simp only [insertAll] at h
    cases hk0 : db k0 with
    | some _ => simp [hk0] at h
    | none =>
      simp only [hk0] at h
      have hrec := ih _ _ h k
      have hnone := insertAll_none_before _ _ _ h
      by_cases hkk : k0 = k
      · subst hkk
        simp only [List.find?_cons, beq_self_eq_true]
        -- no later entry can have the same key: the slot is occupied by then
        have hnf : rest.find? (fun e => e.1 == k0) = none := by
          rw [List.find?_eq_none]
          intro e he hek
          have := hnone e he
          simp only [beq_iff_eq] at hek
          simp [hek] at this
        rw [hrec, hnf]
        simp
      · have hne : ((k0 == k) = false) := by simpa using hkk
        simp only [List.find?_cons, hne]
        rw [hrec]
        cases rest.find? (fun e => e.1 == k) with
        | some e => rfl
        | none => simp only []; rw [if_neg (fun h : k = k0 => hkk h.symm)]

theorem find_filter_of_imp {α : Type} (l : List α) (p q : α → Bool) (h : ∀ a, q a = true → p a = true) :
    (l.filter p).find? q = l.find? q := by
  induction l with
  | nil => rfl
  | cons x rest ih =>
    by_cases hp : p x = true
    · simp only [List.filter_cons, hp, if_true, List.find?_cons, ih]
    · have hq : q x = false := by
        cases hqx : q x with
        | false => rfl
        | true => exact absurd (h x hqx) hp
      simp only [List.filter_cons, hp, Bool.false_eq_true, if_false, List.find?_cons, hq, ih]

theorem find_filter_of_not {α : Type} (l : List α) (p q : α → Bool) (h : ∀ a, q a = true → p a = false) :
    (l.filter p).find? q = none := by
  rw [List.find?_eq_none]
  intro a ha hq
  rw [List.mem_filter] at ha
  rw [h a hq] at ha
  exact absurd ha.2 (by simp)

/-- first pending entry for a key: the INSERT order (P before C) does not matter -/
theorem find_orderedNew (l : List (Key × Row)) (k : Key) :
    (orderedNew l).find? (fun e => e.1 == k) = l.find? (fun e => e.1 == k) := by
  unfold orderedNew
  rw [List.find?_append]
  by_cases hk : k.t = 0
  · rw [find_filter_of_imp l _ _ (by
      intro a ha
      simp only [beq_iff_eq] at ha
      simp [ha, hk])]
    rw [find_filter_of_not l _ _ (by
      intro a ha
      simp only [beq_iff_eq] at ha
      simp [ha, hk])]
    simp
  · rw [find_filter_of_not l _ _ (by
      intro a ha
      simp only [beq_iff_eq] at ha
      simp [ha, hk])]
    rw [find_filter_of_imp l _ _ (by
      intro a ha
      simp only [beq_iff_eq] at ha
      simp [ha, hk])]
    simp

/-- the database the pending state describes -/
def specDb (st : St) : DB := fun k =>
  applyObj (st.objs k) (match st.new.find? (fun e => e.1 == k) with
                         | some e => some e.2
                         | none => st.db k)

/-- **flush_eq_spec** -/
theorem flush_eq_spec (c : Cfg) (st st1 : St) (hw : hasWork c st = true)
    (h : doFlush c st = some st1) : st1.db = specDb st ∧ st1.new = [] := by
  unfold doFlush at h
  simp only [hw, Bool.not_true, Bool.false_eq_true, if_false] at h
  cases hi : insertAll (orderedNew st.new) st.db with
  | none => simp [hi] at h
  | some db1 =>
    simp only [hi, Option.some.injEq] at h
    subst h
    refine ⟨?_, rfl⟩
    funext k
    simp only [specDb]
    rw [insertAll_spec _ _ _ hi k, find_orderedNew]

theorem flush_nowork (c : Cfg) (st : St) (hw : hasWork c st = false) : doFlush c st = some st := by
  simp [doFlush, hw]

/-- after a flush there is nothing left to flush -/
theorem hasWork_after_flush (c : Cfg) (st st1 : St) (h : doFlush c st = some st1) :
    hasWork c st1 = false := by
  cases hw : hasWork c st with
  | false => rw [flush_nowork c st hw] at h; cases h; exact hw
  | true =>
    unfold doFlush at h
    simp only [hw, Bool.not_true, Bool.false_eq_true, if_false] at h
    cases hi : insertAll (orderedNew st.new) st.db with
    | none => simp [hi] at h
    | some db1 =>
      simp only [hi, Option.some.injEq] at h
      subst h
      unfold hasWork
      simp only [List.isEmpty_nil, Bool.not_true, Bool.false_or]
      rw [List.any_eq_false]
      intro i _
      have clean : ∀ k : Key, workAt (objsAfter st k) = false := by
        intro k
        unfold objsAfter
        cases st.new.find? (fun e => e.1 == k) with
        | some e => rfl
        | none =>
          simp only [objAfterFlush]
          cases st.objs k with
          | none => rfl
          | some o => by_cases hd : o.del = true <;> simp [hd, workAt]
      simp only [List.any_cons, List.any_nil, Bool.or_false, clean]
      decide

/-- **flush_flush**: flush is idempotent -/
theorem flush_flush (c : Cfg) (st st1 : St) (h : doFlush c st = some st1) :
    doFlush c st1 = some st1 :=
  flush_nowork c st1 (hasWork_after_flush c st st1 h)

/-! ## autoflush = flush, then the operation -/

theorem afStep_after_flush (c : Cfg) (on : Bool) (st st1 : St) (h : doFlush c st = some st1) :
    afStep c on st1 = some st1 := by
  unfold afStep
  cases on with
  | true => simp only [if_true]; exact flush_flush c st st1 h
  | false => rfl

/-- `Session.flush()` that succeeds -/
theorem step_flush (c : Cfg) (st st1 : St) (h : doFlush c st = some st1) :
    step c st .flush = (st1, .done) := by
  simp only [step, h]

/-! ## translator obligations: the regenerated facts about `Session._execute_internal` -/

/-- the unconditional Core autoflush (#9809) is called before the `conn.scalar(…)` fast path -/
theorem core_autoflush_precedes_scalar_fast_path : coreAutoflushBeforeScalarFastPath = true := by decide

theorem core_autoflush_precedes_execute : coreAutoflushBeforeExecute = true := by decide

/-- which statement kinds carry the ORM compile-state plugin (Core `exists()` does not
    propagate the plugin of its ORM criteria; a legacy `Query` always is an ORM statement) -/
theorem kind_plugin_table :
    [Kind.entity, .count, .core, .coreCount, .text, .textCount, .existsSel, .existsDot, .legacy, .legacyCount].map Kind.orm
      = [true, true, false, false, false, false, false, false, true, true] := by decide

theorem coreCallReached_all (v : Via) : coreCallReached v = true := by
  cases v <;> simp only [coreCallReached, core_autoflush_precedes_scalar_fast_path, core_autoflush_precedes_execute]

/-- **flushes_table**: the decision table does not depend on the entry point -/
theorem flushes_table (c : Cfg) (orm : Bool) (v : Via) (m : AfMode) :
    flushes c orm v m = if orm then (c.af && m == .on) else (c.af && m != .ctxOff) := by
  simp only [flushes, coreCallReached_all, autoflushOn, coreFlushOn, Bool.and_true]

theorem flushes_on (c : Cfg) (haf : c.af = true) (orm : Bool) (v : Via) : flushes c orm v .on = true := by
  rw [flushes_table]; cases orm <;> simp [haf]

theorem flushes_ctxOff (c : Cfg) (orm : Bool) (v : Via) : flushes c orm v .ctxOff = false := by
  rw [flushes_table]; cases orm <;> simp

/-- **autoflush_query_eq_flush_then_query**: autoflush enabled; `st1` is the session
    after an explicit, successful `flush()` (`step_flush`): a statement of ANY kind run
    through ANY entry point returns the same result and leaves the same session state
    whether or not `flush()` was called first. -/
theorem autoflush_query_eq_flush_then_query (c : Cfg) (haf : c.af = true) (st st1 : St)
    (k : Kind) (v : Via) (q : Q) (h : doFlush c st = some st1) :
    step c st (.read k v q .on) = step c st1 (.read k v q .on) := by
  have hf := flushes_on c haf k.orm v
  have h2 := afStep_after_flush c true st st1 h
  simp only [step, hf, h2]
  simp only [afStep, if_true, h]

/-- the property verbatim (the harness' twin run): explicit `flush()`, then the same
    statement through the same entry point inside `no_autoflush` -/
theorem autoflush_query_eq_flush_then_query_no_autoflush (c : Cfg) (haf : c.af = true) (st st1 : St)
    (k : Kind) (v : Via) (q : Q) (h : doFlush c st = some st1) :
    step c st (.read k v q .on) = step c st1 (.read k v q .ctxOff) := by
  have hf := flushes_on c haf k.orm v
  have hc := flushes_ctxOff c k.orm v
  simp only [step, hf, hc]
  simp only [afStep, if_true, h, Bool.false_eq_true, if_false]

theorem autoflush_count_eq_flush_then_count (c : Cfg) (haf : c.af = true) (st st1 : St) (q : Q)
    (h : doFlush c st = some st1) :
    step c st (.count q .on) = step c st1 (.count q .on) :=
  autoflush_query_eq_flush_then_query c haf st st1 .count .execute q h

theorem autoflush_core_eq_flush_then_core (c : Cfg) (haf : c.af = true) (st st1 : St) (q : Q)
    (h : doFlush c st = some st1) :
    step c st (.core q .on) = step c st1 (.core q .on) :=
  autoflush_query_eq_flush_then_query c haf st st1 .core .execute q h

/-- a legacy `Query` made of Table columns / SQL functions only (no ORM entity) -/
theorem autoflush_legacy_eq_flush_then_legacy (c : Cfg) (haf : c.af = true) (st st1 : St) (q : Q)
    (h : doFlush c st = some st1) :
    step c st (.legacy q .on) = step c st1 (.legacy q .on) ∧
    step c st (.legacyCount q .on) = step c st1 (.legacyCount q .on) :=
  ⟨autoflush_query_eq_flush_then_query c haf st st1 .legacy .qAll q h,
   autoflush_query_eq_flush_then_query c haf st st1 .legacyCount .qOne q h⟩

/-! ## entry points agree -/

/-- what `Session.scalar` keeps of a result list -/
def headOut : Out → Out
  | .list l => .one l.head?
  | o => o

theorem resultOf_loadInto (st : St) (t t' : Nat) (ids ids' : List Nat) :
    resultOf (loadInto st t ids) t' ids' = resultOf st t' ids' := by
  unfold resultOf
  apply List.map_congr_left
  intro i _
  simp only [loadInto]
  by_cases hc : t' = t ∧ ids.contains i = true
  · simp only [hc, and_self, if_true]
    cases st.objs ⟨t, i⟩ <;> cases st.db ⟨t, i⟩ <;> rfl
  · simp only [hc, if_false]

theorem loadFor_db (k : Kind) (v : Via) (st : St) (t : Nat) (ids : List Nat) :
    (loadFor k v st t ids).db = st.db ∧ (loadFor k v st t ids).new = st.new := by
  unfold loadFor
  cases k.shape <;> simp [loadInto]

/-- the values handed out do not depend on which of the loaded entities stay referenced -/
theorem values_loadFor (k : Kind) (v : Via) (st : St) (t : Nat) (ids : List Nat) :
    values k (loadFor k v st t ids) t ids = values k st t ids := by
  unfold values loadFor
  cases k.shape <;> simp only [resultOf_loadInto]

/-- **scalar_eq_head_of_execute**: in every state, for every statement kind and mode,
    `Session.scalar(stmt)` returns the first element (or None) of what
    `Session.execute(stmt)` returns, and both leave the same database and pending list. -/
theorem scalar_eq_head_of_execute (c : Cfg) (st : St) (k : Kind) (q : Q) (m : AfMode) :
    (step c st (.read k .scalar q m)).2 = headOut (step c st (.read k .execute q m)).2 ∧
    (step c st (.read k .scalar q m)).1.db = (step c st (.read k .execute q m)).1.db ∧
    (step c st (.read k .scalar q m)).1.new = (step c st (.read k .execute q m)).1.new := by
  have hf : flushes c k.orm .scalar m = flushes c k.orm .execute m := by
    rw [flushes_table, flushes_table]
  simp only [step, hf]
  cases afStep c (flushes c k.orm .execute m) st with
  | none => exact ⟨rfl, rfl, rfl⟩
  | some st1 =>
    simp only [values_loadFor, consume, headOut, loadFor_db, and_self]

/-- `Session.scalars(stmt)` is `Session.execute(stmt).scalars()` -/
theorem scalars_eq_execute (c : Cfg) (st : St) (k : Kind) (q : Q) (m : AfMode) :
    step c st (.read k .scalars q m) = step c st (.read k .execute q m) := by
  rfl

/-- `Query.first()` returns the head (or None) of `Query.all()` -/
theorem first_eq_head_of_all (c : Cfg) (st : St) (k : Kind) (q : Q) (m : AfMode) :
    (step c st (.read k .qFirst q m)).2 = headOut (step c st (.read k .qAll q m)).2 := by
  have hf : flushes c k.orm .qFirst m = flushes c k.orm .qAll m := by
    rw [flushes_table, flushes_table]
  simp only [step, hf]
  cases afStep c (flushes c k.orm .qAll m) st with
  | none => rfl
  | some st1 => simp only [values_loadFor, consume, headOut]

/-- lazy load of `P.children` on a persistent, not deleted parent -/
theorem autoflush_children_eq_flush_then_children (c : Cfg) (haf : c.af = true) (st st1 : St) (p : Nat)
    (o o1 : Obj) (ho : st.objs ⟨0, p⟩ = some o) (hd : o.del = false)
    (h : doFlush c st = some st1) (ho1 : st1.objs ⟨0, p⟩ = some o1) (hd1 : o1.del = false) :
    step c st (.children p .on) = step c st1 (.children p .on) := by
  have h2 := afStep_after_flush c (c.af && AfMode.on == AfMode.on) st st1 h
  simp only [step, ho, hd, ho1, hd1, Bool.false_eq_true, if_false, h2]
  simp only [haf, afStep, Bool.true_and, beq_self_eq_true, if_true, h]

/-- `Session.get` of an identity that is absent from the identity map before and
    after the flush (a pending object of that identity: `get_pending_found`) -/
theorem autoflush_get_eq_flush_then_get (c : Cfg) (haf : c.af = true) (st st1 : St) (k : Key)
    (habs : st.objs k = none) (h : doFlush c st = some st1) (habs1 : st1.objs k = none) :
    step c st (.get k .on) = step c st1 (.get k .on) := by
  have h2 := afStep_after_flush c (autoflushOn c .on) st st1 h
  simp only [step, habs, habs1, h2]
  simp only [autoflushOn, haf, afStep, Bool.true_and, beq_self_eq_true, if_true, h, habs1]

/-- a pending object is found by `get` once autoflush has inserted it -/
theorem get_pending_found (c : Cfg) (haf : c.af = true) (st st1 : St) (k : Key) (r : Row)
    (habs : st.objs k = none) (hnew : st.new.find? (fun e => e.1 == k) = some (k, r))
    (h : doFlush c st = some st1) :
    (step c st (.get k .on)).2 = .obj (some (r.a, false)) := by
  have hw : hasWork c st = true := by
    unfold hasWork
    cases hl : st.new with
    | nil => simp [hl] at hnew
    | cons _ _ => simp
  have hobj : st1.objs k = some ⟨r, false, false⟩ := by
    have h' := h
    unfold doFlush at h'
    simp only [hw, Bool.not_true, Bool.false_eq_true, if_false] at h'
    cases hi : insertAll (orderedNew st.new) st.db with
    | none => simp [hi] at h'
    | some db1 =>
      simp only [hi, Option.some.injEq] at h'
      rw [← h']
      simp only [objsAfter, hnew]
  simp only [step, habs, autoflushOn, haf, afStep, Bool.true_and, beq_self_eq_true, if_true, h, hobj]

/-- **query_reflects_pending**: the autoflushing statement — any kind, any entry point —
    is evaluated over the database the pending state describes -/
theorem query_reflects_pending (c : Cfg) (haf : c.af = true) (st st1 : St) (k : Kind) (v : Via) (q : Q)
    (hw : hasWork c st = true) (h : doFlush c st = some st1) :
    (step c st (.read k v q .on)).2 =
      consume v (values k st1 (evalQ c.n (specDb st) q).1 (evalQ c.n (specDb st) q).2) := by
  have hdb := (flush_eq_spec c st st1 hw h).1
  have hf := flushes_on c haf k.orm v
  simp only [step, hf, afStep, if_true, h, hdb, values_loadFor]

/-- **no_autoflush_sees_db**: inside `no_autoflush`, with a Session created with
    `autoflush=False`, or — for a statement with the ORM plugin — with the execution
    option `autoflush=False`: no flush, the statement runs on the database as it is -/
theorem no_autoflush_sees_db (c : Cfg) (st : St) (k : Kind) (v : Via) (q : Q) (m : AfMode)
    (hoff : c.af = false ∨ m = .ctxOff ∨ (k.orm = true ∧ m ≠ .on)) :
    (step c st (.read k v q m)).2 =
      consume v (values k st (evalQ c.n st.db q).1 (evalQ c.n st.db q).2) := by
  have hf : flushes c k.orm v m = false := by
    rw [flushes_table]
    rcases hoff with h | h | ⟨ho, h⟩
    · simp [h]
    · subst h; cases k.orm <;> simp
    · rw [ho]; cases m <;> simp_all
  simp only [step, hf, afStep, Bool.false_eq_true, if_false, values_loadFor]

/-- a statement without the ORM plugin has no autoflush execution option (#9809): it
    flushes exactly as without the option -/
theorem core_ignores_autoflush_option (c : Cfg) (st : St) (k : Kind) (v : Via) (q : Q)
    (hk : k.orm = false) :
    step c st (.read k v q .optOff) = step c st (.read k v q .on) := by
  have hf : flushes c k.orm v .optOff = flushes c k.orm v .on := by
    rw [flushes_table, flushes_table, hk]; rfl
  simp only [step, hf]

/-! ## non-vacuity -/

/-- pending add + modification + delete, then an autoflushing query / count / lazy load -/
example :
    let c : Cfg := ⟨3, true⟩
    runOut c St.init [.add ⟨0, 0⟩ ⟨1, none⟩, .add ⟨1, 0⟩ ⟨1, some 0⟩, .add ⟨1, 1⟩ ⟨2, some 0⟩, .commit,
                      .query (.all 1) .on, .setA ⟨1, 0⟩ 2, .del ⟨1, 1⟩, .add ⟨1, 2⟩ ⟨2, some 0⟩,
                      .query (.byA 1 2) .optOff, .query (.byA 1 2) .on, .count (.byPid 0) .on,
                      .children 0 .on] =
      [.done, .done, .done, .done, .list [.ent 0 1, .ent 1 2], .done, .done, .done,
       .list [.ent 1 2], .list [.ent 0 2, .ent 2 2], .list [.num 2], .list [.ent 0 2, .ent 2 2]] := by decide

/-- the entry points and the plugin-less kinds on one pending state (row C0 modified, C1
    deleted, C2 added): `Session.scalar` of a Core count / text / exists statement is the
    first statement after the changes and sees all of them; with `no_autoflush` it does not -/
example :
    let c : Cfg := ⟨3, true⟩
    let pre : List Op := [.add ⟨0, 0⟩ ⟨1, none⟩, .add ⟨1, 0⟩ ⟨1, some 0⟩, .add ⟨1, 1⟩ ⟨2, some 0⟩, .commit,
                          .query (.all 1) .on, .setA ⟨1, 0⟩ 2, .del ⟨1, 1⟩, .add ⟨1, 2⟩ ⟨2, some 0⟩]
    (runOut c St.init (pre ++ [.read .coreCount .scalar (.byA 1 2) .on])).getLast? = some (.one (some (.num 2))) ∧
    (runOut c St.init (pre ++ [.read .coreCount .scalar (.byA 1 2) .ctxOff])).getLast? = some (.one (some (.num 1))) ∧
    (runOut c St.init (pre ++ [.read .coreCount .scalar (.byA 1 2) .optOff])).getLast? = some (.one (some (.num 2))) ∧
    (runOut c St.init (pre ++ [.read .count .scalar (.byA 1 2) .optOff])).getLast? = some (.one (some (.num 1))) ∧
    (runOut c St.init (pre ++ [.read .text .scalar (.byA 1 2) .on])).getLast? = some (.one (some (.id 0))) ∧
    (runOut c St.init (pre ++ [.read .text .scalars (.byA 1 2) .on])).getLast? = some (.list [.id 0, .id 2]) ∧
    (runOut c St.init (pre ++ [.read .existsSel .scalar (.byA 1 1) .on])).getLast? = some (.one (some (.flag false))) ∧
    (runOut c St.init (pre ++ [.read .existsDot .scalar (.byA 1 1) .ctxOff])).getLast? = some (.one (some (.flag true))) ∧
    (runOut c St.init (pre ++ [.read .entity .scalar (.byA 1 2) .on])).getLast? = some (.one (some (.ent 0 2))) ∧
    (runOut c St.init (pre ++ [.read .entity .scalar (.byA 1 7) .on])).getLast? = some (.one none) ∧
    (runOut c St.init (pre ++ [.read .legacy .qFirst (.byA 1 2) .on])).getLast? = some (.one (some (.id 0))) ∧
    (runOut c St.init (pre ++ [.read .legacy .qOne (.byA 1 2) .on])).getLast? = some .multi ∧
    (runOut c St.init (pre ++ [.read .legacy .qCount (.byA 1 2) .on])).getLast? = some (.one (some (.num 2))) := by decide

/-- hypotheses of `autoflush_query_eq_flush_then_query` are satisfiable with work pending,
    and its conclusion is not trivial: without the flush the scalar differs -/
example :
    let c : Cfg := ⟨2, true⟩
    let st := run c St.init [.add ⟨0, 0⟩ ⟨1, none⟩, .commit, .setA ⟨0, 0⟩ 5, .add ⟨0, 1⟩ ⟨5, none⟩]
    hasWork c st = true ∧ (doFlush c st).isSome = true ∧
    (step c st (.query (.byA 0 5) .on)).2 = .list [.ent 0 5, .ent 1 5] ∧
    (step c st (.read .coreCount .scalar (.byA 0 5) .on)).2 = .one (some (.num 2)) ∧
    (step c st (.read .coreCount .scalar (.byA 0 5) .ctxOff)).2 = .one (some (.num 0)) := by decide

/-- `scalar_eq_head_of_execute` on a state with pending work: both sides are `some 1` -/
example :
    let c : Cfg := ⟨2, true⟩
    let st := run c St.init [.add ⟨0, 0⟩ ⟨1, none⟩, .commit, .setA ⟨0, 0⟩ 5, .add ⟨0, 1⟩ ⟨5, none⟩]
    (step c st (.read .text .execute (.byA 0 5) .on)).2 = .list [.id 0, .id 1] ∧
    (step c st (.read .text .scalar (.byA 0 5) .on)).2 = .one (some (.id 0)) := by decide

end SaVerif.Props.C47
