import SaVerif.Lemmas.SchemaTr
import SaVerif.Gen.SchemaTables
/-!
# C16 — schema_translate_map renders the mapped schemas regardless of cache state

Theorems about `SaVerif/Model/SchemaTr.lean` (transcription of
`IdentifierPreparer._with_schema_translate / _render_schema_translates` and of the
cache-then-substitute order of `_compile_w_cache` / `_init_compiled`).
-/
namespace SaVerif.Props.C16
open SaVerif.SchemaTr
open SaVerif.Bind (Str)

/-! ## regenerated constants -/

theorem pattern_match :
    SaVerif.Gen.SchemaTables.pattern = "(__\\[SCHEMA_([^\\]]+)\\])" := by decide

theorem symbol_format_match :
    SaVerif.Gen.SchemaTables.symbolFormat = "__[SCHEMA_%s]" ∧
      SaVerif.Gen.SchemaTables.noneName = "_none" := by decide

/-! ## the scan recovers exactly the tokens -/

theorem tokensS_fuel_independent (s : Str) (f : Nat) (h : s.length < f) :
    tokensAuxS f s = tokensS s :=
  tokensAuxS_fuel f (s.length + 1) s h (by omega)

/-- **schema_scan_round_trip**: for every list of pieces satisfying NoSchemaToken,
    the regex scan of the rendered statement returns the pieces themselves. -/
theorem schema_scan_round_trip (ps : List SPiece) (h : SafeSP ps) :
    tokensS (renderSP ps) = spToks ps :=
  tokensS_render ps h

/-! ## symbolic compilation as pieces -/

def symPieces (q : Str → Str) (inc : Bool) : List Seg → Except SchemaTr.Err (List SPiece)
  | [] => .ok []
  | .text t :: r => (symPieces q inc r).map (SPiece.lit t :: ·)
  | .ref (some n) true :: r =>
    if n.contains '[' || n.contains ']' then .error .squareBracket
    else (symPieces q inc r).map (fun ps => SPiece.tok n :: SPiece.lit ['.'] :: ps)
  | .ref (some n) false :: r =>
    (symPieces q inc r).map (SPiece.lit (if n.isEmpty then [] else q n ++ ['.']) :: ·)
  | .ref none um :: r =>
    if um && inc then
      (symPieces q inc r).map (fun ps => SPiece.tok noneAlias :: SPiece.lit ['.'] :: ps)
    else symPieces q inc r

theorem compileSym_eq_pieces (q : Str → Str) (inc : Bool) (segs : List Seg) :
    compileSym q inc segs = (symPieces q inc segs).map renderSP := by
  induction segs with
  | nil => rfl
  | cons s r ih =>
    cases s with
    | text t =>
      simp only [compileSym, compileSeg, symPieces, ih]
      cases symPieces q inc r <;> simp [Except.map, renderSP, SPiece.render]
    | ref schema um =>
      cases schema with
      | none =>
        by_cases h : (um && inc) = true
        · simp only [compileSym, compileSeg, symPieces, h, if_true, ih]
          cases symPieces q inc r <;>
            simp [Except.map, renderSP, SPiece.render, token]
        · simp only [compileSym, compileSeg, symPieces, h, if_false, ih, Bool.false_eq_true]
          cases symPieces q inc r <;> simp [Except.map]
      | some n =>
        cases um with
        | true =>
          by_cases hb : ('[' ∈ n ∨ ']' ∈ n)
          · simp [compileSym, compileSeg, symPieces, hb, Except.map]
          · simp only [compileSym, compileSeg, symPieces, ih, List.contains_eq_mem,
              Bool.or_eq_true, decide_eq_true_eq, hb, if_false]
            cases symPieces q inc r <;> simp [Except.map, renderSP, SPiece.render, token]
        | false =>
          by_cases he : n.isEmpty = true
          · simp only [compileSym, compileSeg, symPieces, he, if_true, if_false, ih,
              Bool.false_eq_true]
            cases symPieces q inc r <;> simp [Except.map, renderSP, SPiece.render]
          · simp only [compileSym, compileSeg, symPieces, he, if_false, ih, Bool.false_eq_true]
            cases symPieces q inc r <;> simp [Except.map, renderSP, SPiece.render]

/-! ## substitution equals direct compilation of the translated statement -/

/-- the schema a map sends `s` to (`dflt` = dialect.default_schema_name) -/
def target (m : SMap) (dflt : Str) (s : Option Str) : Option Str :=
  match mlookup s m with
  | some (some x) => if x.isEmpty then some dflt else some x
  | some none => some dflt
  | none => s

/-- the construct "whose tables carry the translated schema names" -/
def translateSeg (m : SMap) (dflt : Str) : Seg → Seg
  | .text t => .text t
  | .ref s true => .ref (target m dflt s) false
  | .ref s false => .ref s false

/-- names the theorem speaks about: non-empty and not the stand-in for None -/
def NamesOk : List Seg → Prop
  | [] => True
  | .ref (some n) true :: r => n ≠ [] ∧ n ≠ noneAlias ∧ NamesOk r
  | _ :: r => NamesOk r

theorem renderToks_lits (q : Str → Str) (d : SMap) (dflt : Option Str) (t : Str)
    (rest : List STok) :
    renderToks q d dflt (t.map STok.lit ++ rest) = (renderToks q d dflt rest).map (t ++ ·) := by
  induction t with
  | nil => cases h : renderToks q d dflt rest <;> simp [Except.map, h]
  | cons c t ih =>
    simp only [List.map_cons, List.cons_append, renderToks, ih]
    cases h : renderToks q d dflt rest <;> simp [Except.map]

theorem effective_named (m : SMap) (dflt n : Str) (hn : n ≠ []) (hna : n ≠ noneAlias)
    (hd : dflt ≠ []) :
    ∃ tgt, effective (withNoneAlias m) (some dflt) n = .ok tgt ∧
      target m dflt (some n) = some tgt ∧ tgt ≠ [] := by
  have hl : mlookup (some n) (withNoneAlias m) = mlookup (some n) m := by
    unfold withNoneAlias
    cases h : mlookup none m with
    | none => rfl
    | some v =>
      simp only []
      exact mlookup_mset_ne _ _ _ _ (by intro e; cases e; exact hna rfl)
  unfold effective target
  rw [hl]
  cases h : mlookup (some n) m with
  | none =>
    refine ⟨n, ?_, rfl, hn⟩
    have : n.isEmpty = false := by cases n <;> simp_all
    simp [hna, this]
  | some v =>
    cases v with
    | none => exact ⟨dflt, by simp, rfl, hd⟩
    | some x =>
      by_cases hx : x.isEmpty = true
      · exact ⟨dflt, by simp [hx], by simp [hx], hd⟩
      · refine ⟨x, by simp [hx], by simp [hx], ?_⟩
        intro e; subst e; simp at hx

theorem effective_none (m : SMap) (dflt : Str) (hd : dflt ≠ []) (hn : hasNone m = true) :
    ∃ tgt, effective (withNoneAlias m) (some dflt) noneAlias = .ok tgt ∧
      target m dflt none = some tgt ∧ tgt ≠ [] := by
  unfold hasNone at hn
  cases h : mlookup none m with
  | none => simp [h] at hn
  | some v =>
    have hl : mlookup (some noneAlias) (withNoneAlias m) = some v := by
      unfold withNoneAlias; rw [h]; exact mlookup_mset_self _ _ _
    unfold effective target
    rw [hl, h]
    cases v with
    | none => exact ⟨dflt, by simp, rfl, hd⟩
    | some x =>
      by_cases hx : x.isEmpty = true
      · exact ⟨dflt, by simp [hx], by simp [hx], hd⟩
      · refine ⟨x, by simp [hx], by simp [hx], ?_⟩
        intro e; subst e; simp at hx

theorem renderToks_pieces (q : Str → Str) (m : SMap) (dflt : Str) (hd : dflt ≠ []) :
    ∀ (segs : List Seg) (ps : List SPiece), symPieces q (hasNone m) segs = .ok ps →
      NamesOk segs →
      renderToks q (withNoneAlias m) (some dflt) (spToks ps) =
        .ok (compileDirect q (segs.map (translateSeg m dflt))) := by
  intro segs
  induction segs with
  | nil =>
    intro ps h _
    simp only [symPieces] at h; cases h; rfl
  | cons s r ih =>
    intro ps h hn
    cases s with
    | text t =>
      simp only [symPieces] at h
      cases hr : symPieces q (hasNone m) r with
      | error e => simp [hr, Except.map] at h
      | ok ps' =>
        simp only [hr, Except.map] at h; cases h
        simp only [spToks, renderToks_lits, ih ps' hr hn, List.map_cons, translateSeg,
          compileDirect]
        rfl
    | ref schema um =>
      cases schema with
      | none =>
        by_cases hc : (um && hasNone m) = true
        · simp only [symPieces, hc, if_true] at h
          cases hr : symPieces q (hasNone m) r with
          | error e => simp [hr, Except.map] at h
          | ok ps' =>
            simp only [hr, Except.map] at h; cases h
            simp only [Bool.and_eq_true] at hc
            obtain ⟨hum, hnm⟩ := hc
            subst hum
            obtain ⟨tgt, he, ht, hne⟩ := effective_none m dflt hd hnm
            have hie : tgt.isEmpty = false := by cases tgt <;> simp_all
            have := ih ps' hr hn
            simp only [spToks, renderToks, he, List.map_cons, List.map_nil, List.nil_append,
              List.cons_append, translateSeg, ht, compileDirect, hie, this]
            simp [Except.map]
        · simp only [symPieces, hc, if_false, Bool.false_eq_true] at h
          have := ih ps h hn
          rw [this]
          have ht : translateSeg m dflt (.ref none um) = .ref none false ∨
              (um = true ∧ hasNone m = false) := by
            cases um with
            | false => left; rfl
            | true => right; simp at hc; exact ⟨rfl, by simpa using hc⟩
          rcases ht with ht | ⟨hum, hnm⟩
          · simp [List.map_cons, ht, compileDirect]
          · subst hum
            have hl : mlookup none m = none := by
              unfold hasNone at hnm
              cases h2 : mlookup none m with
              | none => rfl
              | some v => simp [h2] at hnm
            simp [List.map_cons, translateSeg, target, hl, compileDirect]
      | some n =>
        cases um with
        | false =>
          simp only [symPieces] at h
          cases hr : symPieces q (hasNone m) r with
          | error e => simp [hr, Except.map] at h
          | ok ps' =>
            simp only [hr, Except.map] at h; cases h
            simp only [spToks, renderToks_lits, ih ps' hr hn, List.map_cons, translateSeg,
              compileDirect]
            rfl
        | true =>
          obtain ⟨hne, hna, hn'⟩ := hn
          by_cases hb : ('[' ∈ n ∨ ']' ∈ n)
          · simp [symPieces, hb] at h
          · simp only [symPieces, List.contains_eq_mem, Bool.or_eq_true, decide_eq_true_eq, hb,
              if_false] at h
            cases hr : symPieces q (hasNone m) r with
            | error e => simp [hr, Except.map] at h
            | ok ps' =>
              simp only [hr, Except.map] at h; cases h
              obtain ⟨tgt, he, ht, htne⟩ := effective_named m dflt n hne hna hd
              have hie : tgt.isEmpty = false := by cases tgt <;> simp_all
              have := ih ps' hr hn'
              simp only [spToks, renderToks, he, List.map_cons, List.map_nil, List.nil_append,
                List.cons_append, translateSeg, ht, compileDirect, hie, this]
              simp [Except.map]

/-- **translate_eq_direct**: for every statement, every non-empty map and every
    quoting function, substituting the map into the symbolic compilation yields
    exactly the direct compilation of the statement whose table references carry the
    translated schema names — provided no text segment contains the token prefix
    (NoSchemaToken, `SafeSP`) and no schema is empty or literally `_none`. -/
theorem translate_eq_direct (q : Str → Str) (m : SMap) (dflt : Str) (segs : List Seg)
    (ps : List SPiece) (hd : dflt ≠ [])
    (hps : symPieces q (hasNone m) segs = .ok ps) (hsafe : SafeSP ps) (hn : NamesOk segs) :
    (compileSym q (hasNone m) segs).bind
        (fun s => renderTranslates q (some dflt) (hasNone m) s m) =
      .ok (compileDirect q (segs.map (translateSeg m dflt))) := by
  rw [compileSym_eq_pieces, hps]
  simp only [Except.map, Except.bind]
  unfold renderTranslates
  simp only [Bool.and_not_self, Bool.false_eq_true, if_false]
  rw [schema_scan_round_trip ps hsafe]
  exact renderToks_pieces q m dflt hd segs ps hps hn

/-! ## the shared cache is transparent when the None key is used consistently -/

theorem compileFor_congr (q : Str → Str) (segs : List Seg) (m1 m2 : SMap)
    (h1 : m1.isEmpty = m2.isEmpty) (h2 : m1.isEmpty = false → hasNone m1 = hasNone m2) :
    compileFor q segs m1 = compileFor q segs m2 := by
  unfold compileFor
  by_cases he : m1.isEmpty = true
  · rw [← h1]; simp [he]
  · have he' : m1.isEmpty = false := by simpa using he
    rw [← h1, ← h2 he']

/-- every entry of the cache is what compiling its statement for ANY map of the
    same truthiness (and, if non-empty, None-presence `b`) produces -/
def CacheInv (q : Str → Str) (stmts : Nat → List Seg) (b : Bool) (cache : Cache) : Prop :=
  ∀ k e, clookup k cache = some e →
    ∀ m : SMap, (!m.isEmpty) = k.2 → (m.isEmpty = false → hasNone m = b) →
      compileFor q (stmts k.1) m = .ok e

/-- all non-empty maps of the history agree on the presence of the None key -/
def Consistent (b : Bool) (hs : List (Nat × SMap)) : Prop :=
  ∀ p ∈ hs, p.2.isEmpty = false → hasNone p.2 = b

/-- **cache_independent_of_map**: for ANY history of executions (any statements, any
    maps, any length, any interleaving) through one shared compiled cache, if the
    non-empty maps agree on whether `None` is a key, then every execution produces
    exactly what a cold compilation with its own map produces. -/
theorem cache_independent_of_map (q : Str → Str) (dflt : Option Str)
    (stmts : Nat → List Seg) (b : Bool) :
    ∀ (hs : List (Nat × SMap)) (cache : Cache), CacheInv q stmts b cache → Consistent b hs →
      runHistory q dflt stmts cache hs =
        hs.map (fun p => execCold q dflt (stmts p.1) p.2) := by
  intro hs
  induction hs with
  | nil => intro _ _ _; rfl
  | cons p r ih =>
    intro cache hinv hc
    obtain ⟨sid, m⟩ := p
    have hm : m.isEmpty = false → hasNone m = b := hc (sid, m) (by simp)
    have hc' : Consistent b r := fun x hx => hc x (by simp [hx])
    simp only [runHistory, execCached, List.map_cons]
    cases hl : clookup (sid, !m.isEmpty) cache with
    | some en =>
      have := hinv _ _ hl m rfl hm
      simp only at this
      simp only []
      rw [ih cache hinv hc']
      congr 1
      simp only [execCold, this]
    | none =>
      cases hcf : compileFor q (stmts sid) m with
      | error e =>
        simp only []
        rw [ih cache hinv hc']
        congr 1
        simp only [execCold, hcf]
      | ok en =>
        have hinv' : CacheInv q stmts b (((sid, !m.isEmpty), en) :: cache) := by
          intro k e hk m' hk2 hm'
          simp only [clookup] at hk
          by_cases hkk : (sid, !m.isEmpty) = k
          · simp only [hkk, if_true] at hk
            cases hk
            subst hkk
            simp only at hk2 ⊢
            rw [← hcf]
            apply compileFor_congr
            · cases h1 : m'.isEmpty <;> cases h2 : m.isEmpty <;> simp_all
            · intro he
              have hme : m.isEmpty = false := by
                cases h2 : m.isEmpty <;> simp_all
              rw [hm' he, hm hme]
          · simp only [hkk, if_false] at hk
            exact hinv k e hk m' hk2 hm'
        simp only []
        rw [ih _ hinv' hc']
        congr 1
        simp only [execCold, hcf]

/-- the empty cache satisfies the invariant -/
theorem cacheInv_nil (q : Str → Str) (stmts : Nat → List Seg) (b : Bool) :
    CacheInv q stmts b [] := by
  intro k e h; simp [clookup] at h

/-! ## both hypotheses are necessary (replayed on the real code by the harness) -/

def exStmt : List Seg := [.text "SELECT * FROM ".toList, .ref none true, .text "t".toList]

/-- **F11**: same statement, first `{a: s1}` then `{None: s2, a: s1}` on a shared
    cache: the second execution raises although a cold compilation succeeds -/
theorem cache_none_presence_counterexample :
    runHistory id (some "main".toList) (fun _ => exStmt) []
        [(0, [(some "a".toList, some "s1".toList)]),
         (0, [(none, some "s2".toList), (some "a".toList, some "s1".toList)])] =
      [.ok "SELECT * FROM t".toList, .error .noneNowPresent] ∧
    execCold id (some "main".toList) exStmt
        [(none, some "s2".toList), (some "a".toList, some "s1".toList)] =
      .ok "SELECT * FROM s2.t".toList := by
  decide +kernel

/-- **F12**: a text segment (a rendered literal) containing `__[SCHEMA_a]` is rewritten -/
theorem literal_token_counterexample :
    renderTranslates id (some "main".toList) false
        "SELECT '__[SCHEMA_a]' FROM __[SCHEMA_a].t".toList
        [(some "a".toList, some "s2".toList)] =
      .ok "SELECT 's2' FROM s2.t".toList := by
  decide +kernel

/-- a table whose schema is literally `_none` is translated by the None entry -/
theorem none_alias_counterexample :
    (compileSym id true [.ref (some "_none".toList) true, .text "t".toList]).bind
        (fun s => renderTranslates id (some "main".toList) true s [(none, some "s1".toList)]) =
      .ok "s1.t".toList := by
  decide +kernel

/-! ## non-vacuity -/

def exSegs : List Seg :=
  [.text "SELECT ".toList, .ref (some "a".toList) true, .text "t.x FROM ".toList,
   .ref (some "a".toList) true, .text "t JOIN ".toList, .ref none true, .text "u ON 1=1".toList]

def exMap : SMap := [(some "a".toList, some "s1".toList), (none, none)]

example : ∃ ps, symPieces id (hasNone exMap) exSegs = .ok ps ∧ SafeSP ps ∧ NamesOk exSegs :=
  ⟨_, rfl, by decide +kernel, by simp [NamesOk, exSegs, noneAlias]⟩

example : Consistent true [(0, exMap), (1, []), (0, [(none, some "s2".toList)])] := by
  intro p hp
  simp only [List.mem_cons, List.mem_nil_iff, or_false] at hp
  rcases hp with rfl | rfl | rfl <;> simp [exMap, hasNone, mlookup]

end SaVerif.Props.C16
