import SaVerif.Props.C19
import SaVerif.Gen.DepTuples
/-!
# C31 — flush emits statements in an order that satisfies every constraint

`Gen/DepTuples.lean` is regenerated on every run from the `uow.dependencies.update([...])`
calls of orm/dependency.py (per relationship direction, per-mapper and per-state form).
The unit of work executes its actions in the order `topological.sort(dependencies,
actions)` (M-TOPO, Props/C19).  The theorems below combine the two: for ANY set of
dependency tuples that contains the tuples a relationship registers, ANY set of actions
containing the relevant ones, and ANY output of the sort, the row that is referenced is
written before the row that references it, and removed after it.

`σ` instantiates the symbolic names of dependency.py with the concrete actions of a
flush (SaveUpdateAll(mapper) …, or SaveUpdateState(state) … in the per-state form).
That the real flush registers exactly these tuples, with these actions present, is
checked on every real flush by harness/props/c31.py.
-/
namespace SaVerif.Props.C31
open SaVerif.Topo SaVerif.Gen.DepTuples

/-- instantiate a symbolic table -/
def inst (σ : Sym → Node) (tab : List (Sym × Sym)) : List Edge := tab.map (fun p => (σ p.1, σ p.2))

/-- one registered tuple whose two actions take part in the flush is respected by the
    execution order -/
theorem before_of_mem (ts : List Edge) (items out : List Node) (σ : Sym → Node) (tab : List (Sym × Sym))
    (a b : Sym) (h : sort ts items = some out) (hsub : ∀ e ∈ inst σ tab, e ∈ ts)
    (hab : (a, b) ∈ tab) (ha : σ a ∈ items) (hb : σ b ∈ items) :
    out.idxOf (σ a) < out.idxOf (σ b) := by
  apply C19.sort_respects ts items out (σ a) (σ b) h _ ha hb
  apply hsub
  unfold inst
  exact List.mem_map.2 ⟨(a, b), hab, rfl⟩

/-- two registered tuples chain through a middle action that takes part in the flush -/
theorem before_via (ts : List Edge) (items out : List Node) (σ : Sym → Node) (tab : List (Sym × Sym))
    (a m b : Sym) (h : sort ts items = some out) (hsub : ∀ e ∈ inst σ tab, e ∈ ts)
    (h1 : (a, m) ∈ tab) (h2 : (m, b) ∈ tab) (ha : σ a ∈ items) (hm : σ m ∈ items) (hb : σ b ∈ items) :
    out.idxOf (σ a) < out.idxOf (σ b) :=
  Nat.lt_trans (before_of_mem ts items out σ tab a m h hsub h1 ha hm)
    (before_of_mem ts items out σ tab m b h hsub h2 hm hb)

section
variable (ts : List Edge) (items out : List Node) (σ : Sym → Node) (h : sort ts items = some out)
include h

/-! ## one-to-many (FK on the child), no post_update -/

/-- **INSERT of the parent row precedes INSERT/UPDATE of its children** -/
theorem o2m_parent_saved_first (hsub : ∀ e ∈ inst σ (o2m_prop false), e ∈ ts)
    (hp : σ .parent_saves ∈ items) (hm : σ .after_save ∈ items) (hc : σ .child_saves ∈ items) :
    out.idxOf (σ .parent_saves) < out.idxOf (σ .child_saves) :=
  before_via ts items out σ _ .parent_saves .after_save .child_saves h hsub (by decide) (by decide) hp hm hc

/-- **DELETE of the children precedes DELETE of the parent row** -/
theorem o2m_children_deleted_first (hsub : ∀ e ∈ inst σ (o2m_prop false), e ∈ ts)
    (hc : σ .child_deletes ∈ items) (hp : σ .parent_deletes ∈ items) :
    out.idxOf (σ .child_deletes) < out.idxOf (σ .parent_deletes) :=
  before_of_mem ts items out σ _ .child_deletes .parent_deletes h hsub (by decide) hc hp

/-- children that stay get their FK rewritten (their UPDATE is part of `child_saves`, decided
    by `before_delete`) before the parent row is deleted -/
theorem o2m_fk_cleared_before_parent_delete (hsub : ∀ e ∈ inst σ (o2m_prop false), e ∈ ts)
    (hb : σ .before_delete ∈ items) (hc : σ .child_saves ∈ items) (hp : σ .parent_deletes ∈ items) :
    out.idxOf (σ .before_delete) < out.idxOf (σ .child_saves) ∧
    out.idxOf (σ .child_saves) < out.idxOf (σ .parent_deletes) :=
  ⟨before_of_mem ts items out σ _ .before_delete .child_saves h hsub (by decide) hb hc,
   before_of_mem ts items out σ _ .child_saves .parent_deletes h hsub (by decide) hc hp⟩

/-! ## many-to-one (FK on the "parent" = the referencing side), no post_update -/

/-- **the referenced row is inserted before the row that references it** -/
theorem m2o_referenced_saved_first (hsub : ∀ e ∈ inst σ (m2o_prop false), e ∈ ts)
    (hc : σ .child_saves ∈ items) (hm : σ .after_save ∈ items) (hp : σ .parent_saves ∈ items) :
    out.idxOf (σ .child_saves) < out.idxOf (σ .parent_saves) :=
  before_via ts items out σ _ .child_saves .after_save .parent_saves h hsub (by decide) (by decide) hc hm hp

/-- **the referencing row is deleted (or re-pointed) before the referenced row is deleted** -/
theorem m2o_referencing_removed_first (hsub : ∀ e ∈ inst σ (m2o_prop false), e ∈ ts)
    (hp : σ .parent_deletes ∈ items) (hs : σ .parent_saves ∈ items) (hc : σ .child_deletes ∈ items) :
    out.idxOf (σ .parent_deletes) < out.idxOf (σ .child_deletes) ∧
    out.idxOf (σ .parent_saves) < out.idxOf (σ .child_deletes) :=
  ⟨before_of_mem ts items out σ _ .parent_deletes .child_deletes h hsub (by decide) hp hc,
   before_of_mem ts items out σ _ .parent_saves .child_deletes h hsub (by decide) hs hc⟩

/-! ## many-to-many (association rows written by `after_save` / `before_delete`) -/

/-- **both end rows exist before the association row is inserted** -/
theorem m2m_ends_saved_before_association (pu : Bool) (hsub : ∀ e ∈ inst σ (m2m_prop pu), e ∈ ts)
    (hp : σ .parent_saves ∈ items) (hc : σ .child_saves ∈ items) (hm : σ .after_save ∈ items) :
    out.idxOf (σ .parent_saves) < out.idxOf (σ .after_save) ∧
    out.idxOf (σ .child_saves) < out.idxOf (σ .after_save) :=
  ⟨before_of_mem ts items out σ _ .parent_saves .after_save h hsub (by cases pu <;> decide) hp hm,
   before_of_mem ts items out σ _ .child_saves .after_save h hsub (by cases pu <;> decide) hc hm⟩

/-- **association rows are deleted before either end row is deleted** -/
theorem m2m_association_deleted_before_ends (pu : Bool) (hsub : ∀ e ∈ inst σ (m2m_prop pu), e ∈ ts)
    (hb : σ .before_delete ∈ items) (hp : σ .parent_deletes ∈ items) (hc : σ .child_deletes ∈ items) :
    out.idxOf (σ .before_delete) < out.idxOf (σ .parent_deletes) ∧
    out.idxOf (σ .before_delete) < out.idxOf (σ .child_deletes) :=
  ⟨before_of_mem ts items out σ _ .before_delete .parent_deletes h hsub (by cases pu <;> decide) hb hp,
   before_of_mem ts items out σ _ .before_delete .child_deletes h hsub (by cases pu <;> decide) hb hc⟩

/-! ## post_update (mutually dependent rows): the FK is written by a separate UPDATE -/

/-- many-to-one with post_update: no order is imposed between the two INSERTs, both
    precede the UPDATE that sets the FK; on delete the FK is cleared by an UPDATE before
    either row is deleted -/
theorem m2o_post_update_breaks_cycle (hsub : ∀ e ∈ inst σ (m2o_prop true), e ∈ ts)
    (hp : σ .parent_saves ∈ items) (hc : σ .child_saves ∈ items) (hm : σ .after_save ∈ items)
    (hu : σ .parent_post_updates ∈ items) :
    out.idxOf (σ .parent_saves) < out.idxOf (σ .parent_post_updates) ∧
    out.idxOf (σ .child_saves) < out.idxOf (σ .parent_post_updates) :=
  ⟨before_via ts items out σ _ .parent_saves .after_save .parent_post_updates h hsub (by decide) (by decide) hp hm hu,
   before_via ts items out σ _ .child_saves .after_save .parent_post_updates h hsub (by decide) (by decide) hc hm hu⟩

theorem m2o_post_update_clears_before_delete (hsub : ∀ e ∈ inst σ (m2o_prop true), e ∈ ts)
    (hu : σ .parent_pre_updates ∈ items) (hp : σ .parent_deletes ∈ items) (hc : σ .child_deletes ∈ items) :
    out.idxOf (σ .parent_pre_updates) < out.idxOf (σ .child_deletes) ∧
    out.idxOf (σ .parent_pre_updates) < out.idxOf (σ .parent_deletes) :=
  ⟨before_of_mem ts items out σ _ .parent_pre_updates .child_deletes h hsub (by decide) hu hc,
   before_of_mem ts items out σ _ .parent_pre_updates .parent_deletes h hsub (by decide) hu hp⟩

omit h in
/-- the post_update table really imposes no order between the two INSERTs: neither
    direction is registered -/
theorem m2o_post_update_no_insert_order :
    (Sym.child_saves, Sym.parent_saves) ∉ m2o_prop true ∧ (Sym.parent_saves, Sym.child_saves) ∉ m2o_prop true ∧
    (Sym.after_save, Sym.parent_saves) ∉ m2o_prop true := by decide

theorem o2m_post_update_breaks_cycle (hsub : ∀ e ∈ inst σ (o2m_prop true), e ∈ ts)
    (hp : σ .parent_saves ∈ items) (hc : σ .child_saves ∈ items) (hm : σ .after_save ∈ items)
    (hu : σ .child_post_updates ∈ items) :
    out.idxOf (σ .parent_saves) < out.idxOf (σ .child_post_updates) ∧
    out.idxOf (σ .child_saves) < out.idxOf (σ .child_post_updates) :=
  ⟨before_via ts items out σ _ .parent_saves .after_save .child_post_updates h hsub (by decide) (by decide) hp hm hu,
   before_via ts items out σ _ .child_saves .after_save .child_post_updates h hsub (by decide) (by decide) hc hm hu⟩

/-! ## per-state form (self-referential relationships, mapper-level cycles) -/

/-- one-to-many, one (parent state, child state) pair: the parent row is saved before the
    child row; on delete the child is handled before the parent row is deleted -/
theorem o2m_state_parent_first (cd : Bool) (hsub : ∀ e ∈ inst σ (o2m_state false false cd), e ∈ ts)
    (hp : σ .save_parent ∈ items) (hc : σ .child_action ∈ items) :
    out.idxOf (σ .save_parent) < out.idxOf (σ .child_action) :=
  before_of_mem ts items out σ _ .save_parent .child_action h hsub (by cases cd <;> decide) hp hc

theorem o2m_state_child_before_parent_delete (cd : Bool) (hsub : ∀ e ∈ inst σ (o2m_state false true cd), e ∈ ts)
    (hc : σ .child_action ∈ items) (hp : σ .delete_parent ∈ items) :
    out.idxOf (σ .child_action) < out.idxOf (σ .delete_parent) :=
  before_of_mem ts items out σ _ .child_action .delete_parent h hsub (by cases cd <;> decide) hc hp

/-- many-to-one, per state: the referenced row is saved first; a referenced row being
    deleted is deleted after the referencing row -/
theorem m2o_state_referenced_first (hsub : ∀ e ∈ inst σ (m2o_state false false false), e ∈ ts)
    (hc : σ .child_action ∈ items) (hm : σ .after_save ∈ items) (hp : σ .save_parent ∈ items) :
    out.idxOf (σ .child_action) < out.idxOf (σ .save_parent) :=
  before_via ts items out σ _ .child_action .after_save .save_parent h hsub (by decide) (by decide) hc hm hp

theorem m2o_state_referencing_deleted_first (hsub : ∀ e ∈ inst σ (m2o_state false true true), e ∈ ts)
    (hp : σ .delete_parent ∈ items) (hc : σ .child_action ∈ items) :
    out.idxOf (σ .delete_parent) < out.idxOf (σ .child_action) :=
  before_of_mem ts items out σ _ .delete_parent .child_action h hsub (by decide) hp hc

end

/-! ## non-vacuity: a concrete flush (Parent 0/3, Child 1/4 saves/deletes, ProcessAll 2/5) -/

def demoσ : Sym → Node
  | .parent_saves => 0 | .child_saves => 1 | .after_save => 2 | .parent_deletes => 3
  | .child_deletes => 4 | .before_delete => 5 | _ => 9

example : (sort (inst demoσ (o2m_prop false) ++ [(0, 3), (1, 4)]) [4, 3, 5, 1, 0, 2]).isSome = true := by
  decide

example : ∀ e ∈ inst demoσ (o2m_prop false), e ∈ inst demoσ (o2m_prop false) ++ [(0, 3), (1, 4)] := by
  intro e he; exact List.mem_append_left _ he

end SaVerif.Props.C31
