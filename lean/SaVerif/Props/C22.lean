import SaVerif.Model.Visit
/-!
# C22 — Compiling a well-formed construct never fails with an internal error
(the part that is a finite table: visitor dispatch)

`Gen/VisitTable.lean` is regenerated from the working tree on every run: one row per
(built-in dialect, compiler kind, `__visit_name__` of a Visitable class).  A new construct
without compiler support, a renamed `visit_` method or a dialect compiler overriding
`visit_unsupported_compilation` with something else changes the table and re-runs these.
-/
namespace SaVerif.Props.C22
open SaVerif.Visit SaVerif.Gen.VisitTable

/-- every (dialect, kind) has the documented fallback -/
theorem fallback_documented_everywhere :
    ∀ d < 6, ∀ k < 3, fallbackOK d k = true := by decide

/-- **dispatch_never_internal**: for every visit name whatsoever (in the table or not),
    on every dialect and compiler kind, dispatch calls a method or raises
    UnsupportedCompilationError -/
theorem dispatch_never_internal (d k : Nat) (hd : d < 6) (hk : k < 3) (name : String) :
    dispatch d k name ≠ .internal := by
  unfold dispatch
  rw [fallback_documented_everywhere d hd k hk]
  split <;> simp

/-- the base constructs every statement is made of compile on every dialect
    (non-vacuity of the table: these rows exist and say `true`) -/
theorem core_constructs_supported :
    ∀ d < 6, (["select", "insert", "update", "delete", "binary", "bindparam", "column", "table",
                "label", "cast", "case", "cte", "compound_select", "function", "over", "unary"].all
              (fun n => hasMethod d 0 n)) = true := by decide +kernel

example : dispatch 0 0 "no_such_construct" = .unsupported := by decide +kernel
example : dispatch 1 0 "select" = .method := by decide +kernel

end SaVerif.Props.C22
