import SaVerif.Lemmas.Imv
import SaVerif.Gen.ImvFlags
/-!
# C12 — Bulk INSERT with RETURNING returns one row per parameter set, in order

Property theorems about M-IMV (`SaVerif/Model/Imv.lean`, transcription of
`SQLCompiler._deliver_insertmanyvalues_batches` and
`DefaultDialect._deliver_insertmanyvalues_batches`).

The database / DBAPI cursor is an adversary: `answer b` is *any* list of rows that
is a permutation of the rows the batch really inserted.  Theorems quantify over
every parameter list, every positive batch size, every mode and every such
adversary.
-/
namespace SaVerif.Props.C12
open SaVerif.Imv

/-! ## the decision table -/

/-- **downgrade_when_unsortable**: whenever ordered RETURNING is requested and there is
    no usable sentinel (none found, or an upsert without the VALUES counter), the
    row-at-a-time mode is chosen — batched mode is never used when the result could
    not be re-ordered.  (The quantifier is the finite table of the nine flags.) -/
theorem downgrade_when_unsortable (f : Flags)
    (hsort : f.sortByParameterOrder = true) (hres : f.hasResultColumns = true)
    (hno : f.hasSentinelColumns = false ∨ (f.includesUpsert = true ∧ f.embedValuesCounter = false)) :
    ∃ d, chooseMode f = .rowAtATime d := by
  obtain ⟨a, b, c, d, e, g, i, j, k⟩ := f
  have t : ∀ (a b c d e g i j k : Bool), d = true → e = true →
      (g = false ∨ (i = true ∧ j = false)) →
      ∃ x, chooseMode ⟨a, b, c, d, e, g, i, j, k⟩ = .rowAtATime x := by decide
  exact t a b c d e g i j k hsort hres hno

/-- contrapositive form used by the pipeline theorems: batched + ordered ⇒ a sentinel
    exists, and with upsert behaviours the VALUES counter is embedded -/
theorem batched_only_if_sortable (f : Flags) (h : chooseMode f = .batched)
    (hsort : f.sortByParameterOrder = true) (hres : f.hasResultColumns = true) :
    f.hasSentinelColumns = true ∧ f.supportsMultivaluesInsert = true ∧
    (f.includesUpsert = true → f.embedValuesCounter = true) := by
  obtain ⟨a, b, c, d, e, g, i, j, k⟩ := f
  have t : ∀ (a b c d e g i j k : Bool), chooseMode ⟨a, b, c, d, e, g, i, j, k⟩ = .batched →
      d = true → e = true → g = true ∧ c = true ∧ (i = true → j = true) := by decide
  exact t a b c d e g i j k h hsort hres

/-- parametrised binds in an upsert SET clause with RETURNING are never batched
    without the VALUES counter (issue 13130) -/
theorem upsert_bound_never_batched (f : Flags) (h : f.hasUpsertBound = true)
    (hres : f.hasResultColumns = true) (hc : f.embedValuesCounter = false) :
    chooseMode f ≠ .batched := by
  obtain ⟨a, b, c, d, e, g, i, j, k⟩ := f
  have t : ∀ (a b c d e g i j k : Bool), k = true → e = true → j = false →
      chooseMode ⟨a, b, c, d, e, g, i, j, k⟩ ≠ .batched := by decide
  exact t a b c d e g i j k h hres hc

/-- only the "DEFAULT VALUES without DEFAULT metavalue" case is row-at-a-time without
    being flagged as downgraded (so its one-row batches still go through the sentinel
    match) -/
theorem not_downgraded_row_mode (f : Flags) (h : chooseMode f = .rowAtATime false) :
    f.isDefaultExpr = true ∧ f.supportsDefaultMetavalue = false := by
  obtain ⟨a, b, c, d, e, g, i, j, k⟩ := f
  have t : ∀ (a b c d e g i j k : Bool), chooseMode ⟨a, b, c, d, e, g, i, j, k⟩ = .rowAtATime false →
      a = true ∧ b = false := by decide
  exact t a b c d e g i j k h

/-- a dialect without multi-row VALUES support never gets a batched statement -/
theorem no_multivalues_never_batched (f : Flags) (h : f.supportsMultivaluesInsert = false) :
    chooseMode f ≠ .batched := by
  obtain ⟨a, b, c, d, e, g, i, j, k⟩ := f
  have t : ∀ (a b c d e g i j k : Bool), c = false →
      chooseMode ⟨a, b, c, d, e, g, i, j, k⟩ ≠ .batched := by decide
  exact t a b c d e g i j k h

/-! ## the regenerated tables (dialect flags, `_sentinel_col_*_lookup`) -/

def allDefChars : List DefChar :=
  [.none, .unknown, .clientside, .sentinelDefault, .serverside, .identity, .sequence,
   .monotonicFunction]

theorem mem_allDefChars (c : DefChar) : c ∈ allDefChars := by cases c <;> decide

/-- **server_generated_sentinel_is_implicit** (over the tables regenerated from the
    source): whenever `_get_sentinel_column_for_table` hands out a sentinel whose value
    the server generates, the dialect's `insertmanyvalues_implicit_sentinel` has an
    autoincrement capability bit, so `visit_insert` marks it `implicit_sentinel` and the
    rows are sorted on it — there is no dialect/column kind for which an unsortable
    server-side sentinel is selected and the statement batched anyway. -/
theorem server_generated_sentinel_is_implicit :
    ∀ d ∈ Gen.ImvFlags.dialects, ∀ (a e : Bool), ∀ c ∈ allDefChars,
      sentinelForTable Gen.ImvFlags.tables d.implicitSentinel a e c = some true →
      serverGenerated a c = true →
      d.implicitSentinel &&& Gen.ImvFlags.anyAutoincrement ≠ 0 := by decide

/-- a server-side (non monotonic) default is never usable as sentinel on any dialect -/
theorem serverside_default_never_sentinel :
    ∀ d ∈ Gen.ImvFlags.dialects, ∀ (a e : Bool),
      sentinelForTable Gen.ImvFlags.tables d.implicitSentinel a e .serverside ≠ some true := by
  decide

/-- client-side sentinel kinds are usable on every dialect that uses insertmanyvalues -/
theorem clientside_sentinel_always_usable :
    ∀ d ∈ Gen.ImvFlags.dialects, ∀ (a e : Bool), ∀ c ∈ [DefChar.clientside, .sentinelDefault],
      sentinelForTable Gen.ImvFlags.tables d.implicitSentinel a e c = some true := by decide

/-- the default page size of every dialect is positive (so `lenparams // batch_size`
    cannot divide by zero unless the user asks for page size 0) and, where a parameter
    limit exists, it leaves room for at least 100 binds -/
theorem dialect_page_sizes_positive :
    ∀ d ∈ Gen.ImvFlags.dialects, 0 < d.pageSize ∧ (d.maxParameters = 0 ∨ 100 ≤ d.maxParameters) := by
  decide

/-! ## the sort flag over chained returning() calls -/

theorem sortFlagAfter_eq_any (chain : List Bool) : sortFlagAfter chain = chain.any id := by
  unfold sortFlagAfter
  have : ∀ (acc : Bool), chain.foldl (fun acc f => acc || f) acc = (acc || chain.any id) := by
    induction chain with
    | nil => intro acc; simp
    | cons b t ih => intro acc; simp [List.foldl_cons, ih, Bool.or_assoc]
  simpa using this false

/-- **sort_flag_monotone**: a later `returning()` / `return_defaults()` call that does not
    repeat `sort_by_parameter_order=True` never resets the flag: it is the OR over the chain. -/
theorem sort_flag_monotone (chain more : List Bool) (h : sortFlagAfter chain = true) :
    sortFlagAfter (chain ++ more) = true := by
  rw [sortFlagAfter_eq_any] at h ⊢
  rw [List.any_append, h]
  rfl

/-! ## batches partition the parameter list -/

/-- **batches_partition_params** (1): concatenating the batches gives back the
    parameter list — every parameter set is sent exactly once, in order. -/
theorem batches_partition_params {α : Type} (mode : Mode) (bs : Nat) (ps : List α)
    (bl : List (Batch α)) (h : deliver mode bs ps = some bl) :
    (bl.map (·.params)).flatten = ps := by
  unfold deliver at h
  cases mode with
  | rowAtATime d =>
    simp only [Option.some.injEq] at h
    subst h
    exact mkRows_params _ _ _ _
  | batched =>
    simp only at h
    split at h
    · cases h
    · rename_i hbs
      simp only [Option.some.injEq] at h
      subst h
      rw [mkBatches_params]
      exact chunkAux_flatten bs (by simpa [Nat.pos_iff_ne_zero] using hbs) _ _ (Nat.le_refl _)

/-- **batches_partition_params** (2): no batch is empty, none exceeds the batch size,
    `current_batch_size` is the real size, `total_batches` is the real count. -/
theorem batches_bounded {α : Type} (bs : Nat) (ps : List α)
    (bl : List (Batch α)) (h : deliver .batched bs ps = some bl) :
    bl.length = totalBatches ps.length bs ∧
    ∀ b ∈ bl, b.params ≠ [] ∧ b.params.length ≤ bs ∧ b.current = b.params.length ∧
      b.total = bl.length ∧ b.downgraded = false := by
  unfold deliver at h
  simp only at h
  split at h
  · cases h
  · rename_i hbs
    have hpos : 0 < bs := by simpa [Nat.pos_iff_ne_zero] using hbs
    simp only [Option.some.injEq] at h
    subst h
    have hlen : (mkBatches bs (totalBatches ps.length bs) 1 (chunk bs ps)).length
        = totalBatches ps.length bs := by
      have := congrArg List.length (mkBatches_params (α := α) bs (totalBatches ps.length bs) 1 (chunk bs ps))
      rw [List.length_map] at this
      rw [this]
      exact chunkAux_length bs hpos _ _ (Nat.le_refl _)
    refine ⟨hlen, ?_⟩
    intro b hb
    obtain ⟨h1, h2, h3, h4⟩ := mkBatches_mem _ _ _ _ _ hb
    obtain ⟨h5, h6⟩ := chunkAux_mem bs hpos _ _ _ h3
    exact ⟨h5, h6, h4 (chunkAux_dropLast_full bs _ _), by rw [h1, hlen], h2⟩

/-- batch numbers are 1, 2, …, total -/
theorem batch_numbers {α : Type} (bs : Nat) (ps : List α)
    (bl : List (Batch α)) (h : deliver .batched bs ps = some bl) :
    bl.map (·.num) = (List.range bl.length).map (· + 1) := by
  unfold deliver at h
  simp only at h
  split at h
  · cases h
  · simp only [Option.some.injEq] at h
    subst h
    rw [mkBatches_nums]
    have := congrArg List.length (mkBatches_params (α := α) bs (totalBatches ps.length bs) 1 (chunk bs ps))
    rw [List.length_map] at this
    rw [this]

/-- row-at-a-time: one batch per parameter set, each of size one -/
theorem rows_one_each {α : Type} (d : Bool) (bs : Nat) (ps : List α)
    (bl : List (Batch α)) (h : deliver (.rowAtATime d) bs ps = some bl) :
    bl.length = ps.length ∧
    ∀ b ∈ bl, b.current = 1 ∧ b.total = ps.length ∧ b.downgraded = d ∧ ∃ p ∈ ps, b.params = [p] := by
  unfold deliver at h
  simp only [Option.some.injEq] at h
  subst h
  refine ⟨mkRows_length _ _ _ _, ?_⟩
  intro b hb
  obtain ⟨h1, h2, h3, p, hp, h4⟩ := mkRows_mem _ _ _ _ _ hb
  exact ⟨h3, h1, h2, p, hp, h4⟩

/-- the `insertmanyvalues_max_parameters` shrink keeps every statement within the
    limit: outside-of-VALUES binds plus `per_batch` binds per row never exceed it. -/
theorem batch_size_respects_max_params (batchSize : Int) (maxParams totalBinds perBatch : Nat)
    (k : Int) (h : effBatchSize batchSize maxParams totalBinds perBatch = some k)
    (hmax : 0 < maxParams) :
    ((totalBinds : Int) - perBatch) + (perBatch : Int) * k ≤ maxParams := by
  unfold effBatchSize at h
  have h0 : (maxParams == 0) = false := by simpa using (Nat.pos_iff_ne_zero.1 hmax)
  simp only [h0, Bool.false_eq_true, ↓reduceIte] at h
  split at h
  · cases h
  · rename_i hp
    have hp' : 0 < perBatch := by
      have : perBatch ≠ 0 := by simpa using hp
      omega
    simp only [Option.some.injEq] at h
    have hpi : (0 : Int) < (perBatch : Int) := by exact_mod_cast hp'
    have hq : Int.fdiv ((maxParams : Int) - ((totalBinds : Int) - perBatch)) perBatch * perBatch
        ≤ (maxParams : Int) - ((totalBinds : Int) - perBatch) := by
      rw [Int.fdiv_eq_ediv_of_nonneg _ (Int.le_of_lt hpi)]
      exact Int.ediv_mul_le _ (Int.ne_of_gt hpi)
    have hk : k ≤ Int.fdiv ((maxParams : Int) - ((totalBinds : Int) - perBatch)) perBatch := by
      rw [← h]; exact Int.min_le_right _ _
    have := Int.mul_le_mul_of_nonneg_right hk (Int.le_of_lt hpi)
    rw [Int.mul_comm (perBatch : Int) k]
    omega

/-! ## rewritten positional parameters -/

/-- **positional_group_is_param_set**: in the flattened parameter sequence of a batch
    the k-th group of VALUES parameters is exactly the VALUES slice of the k-th
    parameter set (no shift, no mixing between rows), for every batch length. -/
theorem positional_group_is_param_set {β : Type} (numIns lo hi L : Nat) (batch : List (List β))
    (hL : ∀ p ∈ batch, p.length = L) (hlo : lo ≤ hi) (hhi : hi ≤ L)
    (hfull : numIns = L → lo = 0 ∧ hi = L)
    (k : Nat) (hk : k < batch.length) :
    slice (lo + k * (hi - lo)) (lo + (k + 1) * (hi - lo)) (replacedPositional numIns lo hi batch)
      = slice lo hi batch[k] := by
  cases batch with
  | nil => simp at hk
  | cons b0 rest =>
    have hb0 : b0.length = L := hL b0 List.mem_cons_self
    unfold replacedPositional
    simp only
    split
    · rename_i heq
      have : numIns = L := by rw [← hb0]; simpa using heq
      obtain ⟨h0, h1⟩ := hfull this
      subst h0; subst h1
      have := slice_flatten_uniform hi (b0 :: rest) hL k hk
      simp only [Nat.zero_add, Nat.sub_zero]
      rw [this]
      unfold slice
      rw [List.take_of_length_le (by rw [hL _ (List.getElem_mem hk)]; omega)]
      simp
    · -- left extras ++ groups ++ right extras
      have hw : ∀ l ∈ (b0 :: rest).map (slice lo hi), l.length = hi - lo := by
        intro l hl
        obtain ⟨p, hp, rfl⟩ := List.mem_map.1 hl
        unfold slice
        rw [List.length_drop, List.length_take, hL p hp]; omega
      have hk' : k < ((b0 :: rest).map (slice lo hi)).length := by simpa using hk
      have key := slice_flatten_uniform (hi - lo) _ hw k hk'
      have hleft : (b0.take lo).length = lo := by rw [List.length_take, hb0]; omega
      unfold slice at key ⊢
      rw [List.append_assoc, List.take_append, List.drop_append, hleft]
      have e1 : lo + (k + 1) * (hi - lo) - lo = (k + 1) * (hi - lo) := by omega
      have e2 : lo + k * (hi - lo) - (List.take (lo + (k + 1) * (hi - lo)) (List.take lo b0)).length
          = k * (hi - lo) := by
        rw [List.length_take, hleft]; omega
      have e3 : List.drop (lo + k * (hi - lo)) (List.take (lo + (k + 1) * (hi - lo)) (List.take lo b0)) = [] := by
        apply List.drop_of_length_le
        rw [List.length_take, hleft]; omega
      rw [e1, e2, e3, List.nil_append]
      -- inside the groups: the right extras are beyond (k+1)*w
      have hfl : (((b0 :: rest).map (slice lo hi)).flatten).length = (b0 :: rest).length * (hi - lo) := by
        clear key hk hk'
        generalize (b0 :: rest) = bl at hw
        induction bl with
        | nil => simp
        | cons x xs ih =>
          simp only [List.map_cons, List.flatten_cons, List.length_append, List.length_cons]
          rw [ih (fun l hl => hw l (by simp only [List.map_cons, List.mem_cons]; exact Or.inr hl)),
            hw (slice lo hi x) (by simp), Nat.succ_mul]
          omega
      rw [List.take_append_of_le_length]
      · rw [key]
        cases k with
        | zero => rfl
        | succ j => simp
      · have hfl' := hfl
        unfold slice at hfl'
        rw [hfl']
        exact Nat.mul_le_mul_right _ hk

/-- numeric paramstyles: the j-th placeholder of the k-th VALUES group is numbered with
    the (1-based) position of that group's j-th value in the flattened parameters -/
theorem numeric_position (numIns lo current k j : Nat) (hk : k < current) (hj : j < numIns) :
    (numericPositions numIns lo current)[k * numIns + j]? = some (lo + k * numIns + j + 1) := by
  unfold numericPositions
  have hlt : k * numIns + j < numIns * current := by
    calc k * numIns + j < k * numIns + numIns := by omega
      _ = (k + 1) * numIns := by rw [Nat.succ_mul]
      _ ≤ current * numIns := Nat.mul_le_mul_right _ hk
      _ = numIns * current := Nat.mul_comm _ _
  simp only [List.getElem?_map, List.getElem?_range hlt, Option.map_some]
  congr 1; omega

/-! ## RETURNING rows are put back into parameter order -/

/-- **implicit_sentinel_sorted**: if the backend assigned increasing keys in VALUES
    order, then whatever order the rows come back in, the sort restores them. -/
theorem implicit_sentinel_sorted {ρ : Type} (key : ρ → Int) (inserted returned : List ρ)
    (hperm : returned.Perm inserted)
    (hinc : inserted.Pairwise (fun a b => key a < key b)) :
    sortImplicit key returned = inserted :=
  sortImplicit_restores key inserted returned hperm hinc

/-- soundness of the explicit sentinel match, with **no** assumption on the backend:
    if it does not raise, the n-th delivered row is a returned row carrying the n-th
    parameter set's sentinel value.  (It can never silently pair a row with a
    parameter set whose sentinel differs.) -/
theorem sentinel_sort_sound {κ ρ : Type} [BEq κ] [LawfulBEq κ] (key : ρ → κ) (n : Nat)
    (sentinels : List κ) (returned out : List ρ)
    (h : sortExplicit key n sentinels returned = .ok out) :
    out.map key = sentinels ∧ ∀ r ∈ out, r ∈ returned := by
  unfold sortExplicit at h
  simp only at h
  split at h
  · cases h
  · obtain ⟨hl, hall⟩ := mapM_ok_forall _ _ _ h
    have hrow : ∀ i (h1 : i < sentinels.length) (h2 : i < out.length),
        key out[i] = sentinels[i] ∧ out[i] ∈ returned := by
      intro i h1 h2
      have := hall i h1 h2
      split at this
      · rename_i r hr
        cases this
        have hm := dictOf_mem key returned _ (lookup_mem hr)
        exact ⟨hm.2.symm, hm.1⟩
      · cases this
    constructor
    · apply List.ext_getElem (by simp [hl])
      intro i h1 h2
      simp only [List.getElem_map]
      exact (hrow i h2 (by simpa using h1)).1
    · intro r hr
      obtain ⟨i, hi, rfl⟩ := List.getElem_of_mem hr
      exact (hrow i (by omega) hi).2

/-- **sentinel_sort_restores_order**: with distinct sentinel values, for *every*
    permutation in which the backend returns the batch's rows, the delivered rows are
    the inserted rows in parameter order (and nothing is raised). -/
theorem sentinel_sort_restores_order {κ ρ : Type} [BEq κ] [LawfulBEq κ] (key : ρ → κ)
    (sentinels : List κ) (inserted returned : List ρ)
    (hperm : returned.Perm inserted)
    (hkeys : inserted.map key = sentinels)
    (hdistinct : sentinels.Nodup) :
    sortExplicit key sentinels.length sentinels returned = .ok inserted := by
  have hn' : (returned.map key).Nodup := by
    have : (returned.map key).Perm (inserted.map key) := hperm.map key
    exact this.nodup_iff.2 (hkeys ▸ hdistinct)
  unfold sortExplicit
  simp only [dictOf_nodup key returned hn', List.length_map]
  have hlen : returned.length = sentinels.length := by
    rw [hperm.length_eq, ← hkeys, List.length_map]
  simp only [hlen, bne_self_eq_false, Bool.false_eq_true, ↓reduceIte]
  rw [← hkeys]
  apply mapM_ok_of_forall
  intro r hr
  have hr' : r ∈ returned := hperm.symm.subset hr
  rw [lookup_pairs key returned hn' r hr']

/-- **dup_sentinel_raises**: if two parameter sets of a batch carry the same sentinel value
    then — whatever order the (honest) backend returns the rows in — the match refuses
    with the row-count error instead of pairing rows arbitrarily. -/
theorem dup_sentinel_raises {κ ρ : Type} [BEq κ] [LawfulBEq κ] (key : ρ → κ)
    (sentinels : List κ) (inserted returned : List ρ)
    (hperm : returned.Perm inserted)
    (hkeys : inserted.map key = sentinels)
    (hdup : ¬ sentinels.Nodup) :
    sortExplicit key sentinels.length sentinels returned = .error .rowcount := by
  unfold sortExplicit
  have hlen : returned.length = sentinels.length := by
    rw [hperm.length_eq, ← hkeys, List.length_map]
  have hne : (dictOf key returned).length ≠ sentinels.length := by
    intro heq
    have hn := dictOf_length_eq_imp_nodup key returned (by rw [heq, hlen])
    have : (returned.map key).Perm (inserted.map key) := hperm.map key
    exact hdup (hkeys ▸ (this.nodup_iff.1 hn))
  simp [hne]

/-! ## the whole pipeline -/

theorem runBatches_ok {α κ ρ : Type} [BEq κ] (style : Style) (ikey : ρ → Int) (ekey : ρ → κ)
    (sentinelOf : α → κ) (answer : Batch α → List ρ) (f : Batch α → List ρ) :
    ∀ (bl : List (Batch α)),
      (∀ b ∈ bl, sortBatch style ikey ekey b sentinelOf (answer b) = .ok (f b)) →
      runBatches style ikey ekey sentinelOf answer bl = .ok (bl.map f).flatten := by
  intro bl
  induction bl with
  | nil => intro _; rfl
  | cons b bl ih =>
    intro h
    simp only [runBatches, h b List.mem_cons_self,
      ih (fun x hx => h x (List.mem_cons_of_mem _ hx)), List.map_cons, List.flatten_cons]

theorem map_flatten_params {α ρ : Type} (mk : α → ρ) (bl : List (Batch α)) :
    (bl.map (fun b => b.params.map mk)).flatten = ((bl.map (·.params)).flatten).map mk := by
  induction bl with
  | nil => rfl
  | cons b bl ih => simp [ih]

/-- **imv_explicit_in_param_order**: client-side sentinel values that are pairwise
    distinct ⇒ for every batch size, every mode and every per-batch permutation chosen
    by the backend, the result is exactly one row per parameter set, in parameter
    order. -/
theorem imv_explicit_in_param_order {α κ ρ : Type} [BEq κ] [LawfulBEq κ]
    (mode : Mode) (bs : Nat) (ps : List α) (bl : List (Batch α))
    (mk : α → ρ) (ikey : ρ → Int) (ekey : ρ → κ) (sentinelOf : α → κ)
    (answer : Batch α → List ρ)
    (hdel : deliver mode bs ps = some bl)
    (hadv : ∀ b ∈ bl, (answer b).Perm (b.params.map mk))
    (hkey : ∀ p, ekey (mk p) = sentinelOf p)
    (hdistinct : (ps.map sentinelOf).Nodup) :
    runBatches .explicit ikey ekey sentinelOf answer bl = .ok (ps.map mk) := by
  have hpart := batches_partition_params mode bs ps bl hdel
  rw [← hpart, ← map_flatten_params]
  apply runBatches_ok
  intro b hb
  unfold sortBatch
  -- the batch's sentinels are a sublist of all sentinels, hence distinct
  have hsub : (b.params.map sentinelOf).Nodup := by
    have h1 : (b.params).Sublist ((bl.map (·.params)).flatten) :=
      List.sublist_flatten_of_mem (List.mem_map_of_mem hb)
    rw [hpart] at h1
    exact (h1.map sentinelOf).nodup hdistinct
  split
  · -- downgraded: a single row, any permutation of a singleton is itself
    cases mode with
    | batched =>
      have := (batches_bounded bs ps bl hdel).2 b hb
      simp_all
    | rowAtATime d =>
      obtain ⟨_, _, _, p, _, hp⟩ := (rows_one_each d bs ps bl hdel).2 b hb
      have := hadv b hb
      rw [hp] at this ⊢
      simp only [List.map_cons, List.map_nil, List.perm_singleton] at this
      rw [this]; rfl
  · have hk : (b.params.map mk).map ekey = b.params.map sentinelOf := by
      simp [List.map_map, Function.comp_def, hkey]
    have := sentinel_sort_restores_order ekey (b.params.map sentinelOf) (b.params.map mk)
      (answer b) (hadv b hb) hk hsub
    simpa using this

/-- **imv_implicit_in_param_order**: a backend that assigns increasing keys in VALUES
    order (across the whole run) ⇒ same conclusion with the implicit sentinel. -/
theorem imv_implicit_in_param_order {α κ ρ : Type} [BEq κ]
    (mode : Mode) (bs : Nat) (ps : List α) (bl : List (Batch α))
    (mk : α → ρ) (ikey : ρ → Int) (ekey : ρ → κ) (sentinelOf : α → κ)
    (answer : Batch α → List ρ)
    (hdel : deliver mode bs ps = some bl)
    (hadv : ∀ b ∈ bl, (answer b).Perm (b.params.map mk))
    (hinc : (ps.map mk).Pairwise (fun a b => ikey a < ikey b)) :
    runBatches .implicit ikey ekey sentinelOf answer bl = .ok (ps.map mk) := by
  have hpart := batches_partition_params mode bs ps bl hdel
  rw [← hpart, ← map_flatten_params]
  apply runBatches_ok
  intro b hb
  unfold sortBatch
  have hsub : (b.params.map mk).Pairwise (fun a b => ikey a < ikey b) := by
    have h1 : (b.params).Sublist ((bl.map (·.params)).flatten) :=
      List.sublist_flatten_of_mem (List.mem_map_of_mem hb)
    rw [hpart] at h1
    exact hinc.sublist (h1.map mk)
  split
  · cases mode with
    | batched =>
      have := (batches_bounded bs ps bl hdel).2 b hb
      simp_all
    | rowAtATime d =>
      obtain ⟨_, _, _, p, _, hp⟩ := (rows_one_each d bs ps bl hdel).2 b hb
      have := hadv b hb
      rw [hp] at this ⊢
      simp only [List.map_cons, List.map_nil, List.perm_singleton] at this
      rw [this]; rfl
  · simp only
    rw [implicit_sentinel_sorted ikey (b.params.map mk) (answer b) (hadv b hb) hsub]

/-- **imv_row_at_a_time_in_param_order**: the downgraded mode needs no sentinel at
    all — whatever the style, one row per statement cannot be re-ordered. -/
theorem imv_row_at_a_time_in_param_order {α κ ρ : Type} [BEq κ]
    (bs : Nat) (ps : List α) (bl : List (Batch α))
    (mk : α → ρ) (ikey : ρ → Int) (ekey : ρ → κ) (sentinelOf : α → κ)
    (answer : Batch α → List ρ) (style : Style)
    (hdel : deliver (.rowAtATime true) bs ps = some bl)
    (hadv : ∀ b ∈ bl, (answer b).Perm (b.params.map mk)) :
    runBatches style ikey ekey sentinelOf answer bl = .ok (ps.map mk) := by
  have hpart := batches_partition_params _ bs ps bl hdel
  rw [← hpart, ← map_flatten_params]
  apply runBatches_ok
  intro b hb
  obtain ⟨_, _, hd, p, _, hp⟩ := (rows_one_each true bs ps bl hdel).2 b hb
  have := hadv b hb
  unfold sortBatch
  rw [hp] at this
  simp only [List.map_cons, List.map_nil, List.perm_singleton] at this
  simp [hd, hp, this]

/-- **imv_unsorted_is_permutation**: without a sort request nothing is promised about
    order, but still exactly one row per parameter set comes back. -/
theorem imv_unsorted_is_permutation {α κ ρ : Type} [BEq κ]
    (mode : Mode) (bs : Nat) (ps : List α) (bl : List (Batch α))
    (mk : α → ρ) (ikey : ρ → Int) (ekey : ρ → κ) (sentinelOf : α → κ)
    (answer : Batch α → List ρ)
    (hdel : deliver mode bs ps = some bl)
    (hadv : ∀ b ∈ bl, (answer b).Perm (b.params.map mk)) :
    ∃ out, runBatches .none ikey ekey sentinelOf answer bl = .ok out ∧ out.Perm (ps.map mk) := by
  have hpart := batches_partition_params mode bs ps bl hdel
  refine ⟨(bl.map answer).flatten, ?_, ?_⟩
  · apply runBatches_ok
    intro b _
    unfold sortBatch
    split <;> rfl
  · rw [← hpart, ← map_flatten_params]
    clear hdel hpart
    induction bl with
    | nil => simp
    | cons b bl ih =>
      simp only [List.map_cons, List.flatten_cons]
      exact (hadv b List.mem_cons_self).append (ih (fun x hx => hadv x (List.mem_cons_of_mem _ hx)))

instance {ε α : Type} [DecidableEq ε] [DecidableEq α] : DecidableEq (Except ε α)
  | .ok a, .ok b => if h : a = b then isTrue (h ▸ rfl) else isFalse (fun e => by cases e; exact h rfl)
  | .error a, .error b =>
    if h : a = b then isTrue (h ▸ rfl) else isFalse (fun e => by cases e; exact h rfl)
  | .ok _, .error _ => isFalse (fun e => by cases e)
  | .error _, .ok _ => isFalse (fun e => by cases e)

/-- the sort is needed: in batched mode without it an adversarial backend does change
    the order (so the hypotheses above are not vacuous and the downgrade rule matters) -/
theorem imv_unsorted_counterexample :
    ∃ (bl : List (Batch Nat)) (answer : Batch Nat → List Nat),
      deliver .batched 2 [10, 20, 30] = some bl ∧
      (∀ b ∈ bl, (answer b).Perm (b.params.map id)) ∧
      runBatches (α := Nat) (κ := Nat) (ρ := Nat) .none (fun r => (r : Int)) id id answer bl ≠ .ok [10, 20, 30] := by
  refine ⟨_, fun b => b.params.reverse, rfl, ?_, by decide⟩
  intro b _
  simp

/-! ## non-vacuity -/

example : deliver .batched 3 [1, 2, 3, 4, 5, 6, 7] =
    some [⟨[1, 2, 3], 3, 1, 3, false⟩, ⟨[4, 5, 6], 3, 2, 3, false⟩, ⟨[7], 1, 3, 3, false⟩] := by
  decide
example : (deliver (.rowAtATime true) 3 [1, 2]).map (·.map (·.params)) = some [[1], [2]] := by decide
example : deliver .batched 0 [1] = none := by decide
example : sortExplicit (fun (r : Nat × Nat) => r.2) 3 [7, 8, 9] [(1, 9), (2, 7), (3, 8)]
    = .ok [(2, 7), (3, 8), (1, 9)] := by decide
example : sortExplicit (fun (r : Nat × Nat) => r.2) 3 [7, 7, 9] [(1, 9), (2, 7), (3, 7)]
    = .error .rowcount := by decide
example : sortExplicit (fun (r : Nat × Nat) => r.2) 3 [7, 8, 9] [(1, 9), (2, 7), (3, 6)]
    = .error .nomatch := by decide
example : sortImplicit (fun (r : Nat × Int) => r.2) [(1, 5), (2, 3), (3, 4)]
    = [(2, 3), (3, 4), (1, 5)] :=
  implicit_sentinel_sorted _ _ _ (by decide) (by decide)
example : effBatchSize 1000 2099 12 10 = some 209 := by decide
example : effBatchSize 1000 5 12 10 = some 0 := by decide
example : chooseMode ⟨false, true, true, true, true, false, false, false, false⟩ = .rowAtATime true := by
  decide
example : chooseMode ⟨false, true, true, true, true, true, false, false, false⟩ = .batched := by decide

end SaVerif.Props.C12
