import SaVerif.Model.Shard
/-!
# C53 — Horizontal sharding routes reads and writes per the shard choosers

Theorems about M-ORM/shard (`SaVerif/Model/Shard.lean`), for every chooser function,
number of shards, data set and pending list.

* `flushNew_spec` (induction over `session.new`), `flush_routes_to_chosen_shard` — a
  successful flush writes each pending object into the shard its chooser names, and
  into no other.
* `update_routes_by_token` — the row `(shard s, pk)` after a flush depends only on the
  object whose identity token is `s`.
* `query_union_of_chosen_shards` (induction over the shard list) — a query returns
  exactly the matching rows of the shards it was sent to, shard by shard in chooser
  order; `query_keeps_databases`.
* `same_pk_distinct_across_shards` — objects with one primary key and different tokens
  are separate entries: changing one leaves the other, and its shard, alone.
-/
namespace SaVerif.Props.C53
open SaVerif.Shard

/-- where the pending entry for `(pk, shard)` is -/
def pendingFor (c : Cfg) (l : List (Nat × Row)) (k s : Nat) : Option (Nat × Row) :=
  l.find? (fun e => e.1 == k && c.chooser e.2.region == s)

theorem flushNew_spec (c : Cfg) (objs : Nat → Nat → Option Obj) :
    ∀ (l : List (Nat × Row)) (sh sh' : Nat → DB), (l.map (·.1)).Nodup →
      flushNew c objs l sh = some sh' →
      ∀ s k, sh' s k = (match pendingFor c l k s with
                        | some e => some e.2
                        | none => sh s k) := by
  intro l
  induction l with
  | nil =>
    intro sh sh' _ h s k
    simp only [flushNew, Option.some.injEq] at h
    subst h; rfl
  | cons x rest ih =>
    intro sh sh' hnd h s k
    obtain ⟨pk, r⟩ := x
    simp only [List.map_cons, List.nodup_cons] at hnd
    simp only [flushNew] at h
    by_cases hb : (!isSwitch objs pk (c.chooser r.region) && (sh (c.chooser r.region) pk).isSome) = true
    · simp [hb] at h
    · simp only [hb, Bool.false_eq_true, if_false] at h
      have hrec := ih _ _ hnd.2 h s k
      unfold pendingFor at hrec ⊢
      by_cases hhit : (pk = k ∧ c.chooser r.region = s)
      · obtain ⟨rfl, rfl⟩ := hhit
        -- no later entry has this primary key
        have hnf : rest.find? (fun e => e.1 == pk && c.chooser e.2.region == c.chooser r.region) = none := by
          rw [List.find?_eq_none]
          intro e he hcon
          simp only [Bool.and_eq_true, beq_iff_eq] at hcon
          exact hnd.1 (List.mem_map.2 ⟨e, he, hcon.1⟩)
        simp only [List.find?_cons, beq_self_eq_true, Bool.and_self]
        rw [hrec, hnf]
        simp
      · have hmiss : ((pk == k) && (c.chooser r.region == s)) = false := by
          cases h1 : (pk == k) <;> cases h2 : (c.chooser r.region == s) <;> simp_all
        simp only [List.find?_cons, hmiss]
        rw [hrec]
        cases rest.find? (fun e => e.1 == k && c.chooser e.2.region == s) with
        | some e => rfl
        | none =>
          simp only
          by_cases hs : s = c.chooser r.region
          · subst hs
            have : ¬ k = pk := fun hk => hhit ⟨hk.symm, rfl⟩
            simp [this]
          · simp [hs]

theorem doFlush_shards (c : Cfg) (st st1 : St) (h : doFlush c st = some st1) :
    ∃ sh1, flushNew c st.objs st.new st.shards = some sh1 ∧
      st1.shards = (fun s k => match newAt c st.new k s with
                               | some _ => sh1 s k
                               | none => applyObj (st.objs k s) (sh1 s k)) := by
  unfold doFlush at h
  cases hf : flushNew c st.objs st.new st.shards with
  | none => simp [hf] at h
  | some sh1 =>
    simp only [hf, Option.some.injEq] at h
    subst h
    exact ⟨sh1, rfl, rfl⟩

theorem newAt_eq (c : Cfg) (l : List (Nat × Row)) (k s : Nat) :
    newAt c l k s = (pendingFor c l k s).map (·.2) := rfl

/-- **flush_routes_to_chosen_shard**: after a successful flush a pending object is in
    the shard its chooser names, with its values; in every other shard the row for that
    primary key is whatever the object holding *that* shard's token dictates (no insert
    went there). -/
theorem flush_routes_to_chosen_shard (c : Cfg) (st st1 : St) (pk : Nat) (r : Row)
    (hnd : (st.new.map (·.1)).Nodup) (hin : (pk, r) ∈ st.new) (h : doFlush c st = some st1) :
    st1.shards (c.chooser r.region) pk = some r ∧
    ∀ s, s ≠ c.chooser r.region →
      st1.shards s pk = applyObj (st.objs pk s) (st.shards s pk) := by
  obtain ⟨sh1, hf, hsh⟩ := doFlush_shards c st st1 h
  have spec := flushNew_spec c st.objs st.new st.shards sh1 hnd hf
  -- the only pending entry with this primary key is (pk, r)
  have uniq : ∀ e ∈ st.new, e.1 = pk → e = (pk, r) := by
    intro e he hk
    have key : ∀ (l : List (Nat × Row)), (l.map (·.1)).Nodup → (pk, r) ∈ l → e ∈ l → e.1 = pk → e = (pk, r) := by
      intro l
      induction l with
      | nil => intro _ h1; cases h1
      | cons x rest ih =>
        intro hn h1 h2 hk
        simp only [List.map_cons, List.nodup_cons] at hn
        rcases List.mem_cons.1 h1 with rfl | h1'
        · rcases List.mem_cons.1 h2 with rfl | h2'
          · rfl
          · exact absurd (List.mem_map.2 ⟨e, h2', hk⟩) hn.1
        · rcases List.mem_cons.1 h2 with rfl | h2'
          · exact absurd (List.mem_map.2 ⟨(pk, r), h1', hk.symm⟩) hn.1
          · exact ih hn.2 h1' h2' hk
    exact key st.new hnd hin he hk
  have hfind : pendingFor c st.new pk (c.chooser r.region) = some (pk, r) := by
    unfold pendingFor
    cases hfd : st.new.find? (fun e => e.1 == pk && c.chooser e.2.region == c.chooser r.region) with
    | none =>
      rw [List.find?_eq_none] at hfd
      exact absurd (by simp) (hfd (pk, r) hin)
    | some e =>
      have hm := List.mem_of_find?_eq_some hfd
      have hp := List.find?_some hfd
      simp only [Bool.and_eq_true, beq_iff_eq] at hp
      rw [uniq e hm hp.1]
  refine ⟨?_, ?_⟩
  · rw [hsh]
    simp only [newAt_eq, hfind, Option.map_some]
    rw [spec, hfind]
  · intro s hs
    have hnone : pendingFor c st.new pk s = none := by
      unfold pendingFor
      rw [List.find?_eq_none]
      intro e he hcon
      simp only [Bool.and_eq_true, beq_iff_eq] at hcon
      have := uniq e he hcon.1
      rw [this] at hcon
      exact hs hcon.2.symm
    rw [hsh]
    simp only [newAt_eq, hnone, Option.map_none]
    rw [spec, hnone]

/-- **update_routes_by_token**: with nothing pending for `pk`, the row `(s, pk)` after
    the flush is decided by the object whose token is `s` alone: updated if that object
    is dirty, deleted if it is marked deleted, untouched otherwise — whatever the objects
    with the same primary key in other shards do. -/
theorem update_routes_by_token (c : Cfg) (st st1 : St) (pk s : Nat)
    (hnd : (st.new.map (·.1)).Nodup) (hno : ∀ e ∈ st.new, e.1 ≠ pk) (h : doFlush c st = some st1) :
    st1.shards s pk = applyObj (st.objs pk s) (st.shards s pk) := by
  obtain ⟨sh1, hf, hsh⟩ := doFlush_shards c st st1 h
  have spec := flushNew_spec c st.objs st.new st.shards sh1 hnd hf
  have hnone : pendingFor c st.new pk s = none := by
    unfold pendingFor
    rw [List.find?_eq_none]
    intro e he hcon
    simp only [Bool.and_eq_true, beq_iff_eq] at hcon
    exact hno e he hcon.1
  rw [hsh]
  simp only [newAt_eq, hnone, Option.map_none]
  rw [spec, hnone]

/-! ## queries -/

theorem loadInto_shards (st : St) (s : Nat) (ids : List Nat) : (loadInto st s ids).shards = st.shards := rfl

theorem queryShards_shards (c : Cfg) (f : Filt) : ∀ (l : List Nat) (st : St),
    (queryShards c f l st).1.shards = st.shards := by
  intro l
  induction l with
  | nil => intro st; rfl
  | cons s rest ih =>
    intro st
    simp only [queryShards]
    rw [ih, loadInto_shards]

/-- a query never writes -/
theorem query_keeps_databases (c : Cfg) (st : St) (f : Filt) (sh : Option (List Nat)) :
    (step c st (.query f sh)).1.shards = st.shards ∧ (step c st (.query f sh)).1.new = st.new := by
  simp only [step]
  refine ⟨queryShards_shards c f _ st, ?_⟩
  generalize sh.getD (allShards c) = l
  induction l generalizing st with
  | nil => rfl
  | cons s rest ih =>
    simp only [queryShards]
    rw [ih]
    rfl

/-- **query_union_of_chosen_shards**: the identities a query returns are exactly, shard
    after shard in the order the chooser gave, the rows of that shard that satisfy the
    criterion. -/
theorem query_union_of_chosen_shards (c : Cfg) (f : Filt) : ∀ (l : List Nat) (st : St),
    (queryShards c f l st).2.map (fun x => (x.1, x.2.1)) =
      l.flatMap (fun s => (selectShard c (st.shards s) f).map (fun k => (k, s))) := by
  intro l
  induction l with
  | nil => intro st; rfl
  | cons s rest ih =>
    intro st
    simp only [queryShards, List.map_append, List.flatMap_cons]
    rw [ih, loadInto_shards]
    congr 1
    simp [List.map_map, Function.comp_def]

/-- membership form: `(pk, s)` is returned iff `s` was chosen and the row matches there -/
theorem query_mem_iff (c : Cfg) (f : Filt) (l : List Nat) (st : St) (k s : Nat) :
    (k, s) ∈ (queryShards c f l st).2.map (fun x => (x.1, x.2.1)) ↔
      s ∈ l ∧ k < c.n ∧ ∃ r, st.shards s k = some r ∧ f.ok r = true := by
  rw [query_union_of_chosen_shards]
  simp only [List.mem_flatMap, List.mem_map, Prod.mk.injEq, selectShard, List.mem_filter, List.mem_range]
  constructor
  · rintro ⟨s', hs', k', ⟨hk', hm⟩, rfl, rfl⟩
    refine ⟨hs', hk', ?_⟩
    cases hr : st.shards s' k' with
    | none => simp [hr] at hm
    | some r => exact ⟨r, rfl, by simpa [hr] using hm⟩
  · rintro ⟨hs, hk, r, hr, hok⟩
    exact ⟨s, hs, k, ⟨hk, by simp [hr, hok]⟩, rfl, rfl⟩

/-! ## one primary key in two shards -/

/-- **same_pk_distinct_across_shards**: modifying (or deleting) the object `(pk, s)`
    leaves the object `(pk, s')` of another shard untouched, and the flush that follows
    leaves shard `s'`'s row for `pk` as it would have been without that modification. -/
theorem same_pk_distinct_across_shards (c : Cfg) (st : St) (pk s s' : Nat) (v : Int) (hne : s' ≠ s) :
    (step c st (.set pk s v)).1.objs pk s' = st.objs pk s' ∧
    (step c st (.del pk s)).1.objs pk s' = st.objs pk s' ∧
    (step c st (.set pk s v)).1.shards = st.shards ∧
    (step c st (.set pk s v)).1.new = st.new := by
  simp only [step]
  cases ho : st.objs pk s with
  | none => (refine ⟨?_, ?_, ?_, ?_⟩ <;> first | trivial | rfl)
  | some o =>
    by_cases hd : o.del = true
    · simp only [hd, if_true]; (refine ⟨?_, ?_, ?_, ?_⟩ <;> first | trivial | rfl)
    · simp only [hd, Bool.false_eq_true, if_false]
      refine ⟨?_, ?_, ?_, ?_⟩ <;> first | trivial | rfl | simp [hne]

/-- **merge_routes_by_token**: merging a detached, modified object back (its key carries the
    token of the shard it was loaded from) touches the instance of that shard only — the
    instances, and after the flush the rows, of the same primary key in other shards are as
    they were. -/
theorem merge_routes_by_token (c : Cfg) (st : St) (pk s s' : Nat) (v : Int) (hne : s' ≠ s) :
    (step c st (.mergeDet pk s v)).1.objs pk s' = st.objs pk s' ∧
    (step c st (.mergeDet pk s v)).1.shards = st.shards ∧
    (step c st (.mergeDet pk s v)).1.new = st.new := by
  simp only [step]
  cases ho : st.objs pk s with
  | none => (refine ⟨?_, ?_, ?_⟩ <;> first | trivial | rfl)
  | some o =>
    cases hr : st.shards s pk with
    | none => (refine ⟨?_, ?_, ?_⟩ <;> first | trivial | rfl)
    | some r =>
      by_cases hd : o.del = true
      · simp only [hd, if_true]; (refine ⟨?_, ?_, ?_⟩ <;> first | trivial | rfl)
      · simp only [hd, Bool.false_eq_true, if_false]
        refine ⟨?_, ?_, ?_⟩ <;> first | trivial | rfl | simp [hne]

/-- …and therefore the other shard's row after the flush is unaffected -/
theorem other_shard_row_unaffected (c : Cfg) (st st1 st2 : St) (pk s s' : Nat) (v : Int) (hne : s' ≠ s)
    (hnd : (st.new.map (·.1)).Nodup) (hno : ∀ e ∈ st.new, e.1 ≠ pk)
    (h1 : doFlush c st = some st1) (h2 : doFlush c (step c st (.set pk s v)).1 = some st2) :
    st2.shards s' pk = st1.shards s' pk := by
  obtain ⟨ho, _, hsh, hnew⟩ := same_pk_distinct_across_shards c st pk s s' v hne
  rw [update_routes_by_token c st st1 pk s' hnd hno h1]
  rw [update_routes_by_token c _ st2 pk s' (by rw [hnew]; exact hnd) (by rw [hnew]; exact hno) h2]
  rw [ho, hsh]

/-! ## non-vacuity -/

/-- pk 0 lives in both shards; region 0 → shard 0, region 1 → shard 1 -/
example :
    let c : Cfg := ⟨2, 2, fun r => r, [1, 0]⟩
    outs c St.init [.add 0 ⟨0, 5⟩, .flush, .add 0 ⟨1, 7⟩, .flush, .query .all none, .query .all (some [1]),
                    .set 0 1 9, .flush, .query .all (some [1, 0]), .get 0 none] =
      [.done, .done, .done, .done, .rows [(0, 0, 5), (0, 1, 7)], .rows [(0, 1, 7)], .done, .done,
       .rows [(0, 1, 9), (0, 0, 5)], .found 0 1 9] := by decide

/-- hypotheses of `flush_routes_to_chosen_shard` are satisfiable -/
example :
    let c : Cfg := ⟨2, 2, fun r => r, [0, 1]⟩
    let st := run c St.init [.add 0 ⟨1, 5⟩, .add 1 ⟨0, 6⟩]
    (st.new.map (·.1)).Nodup ∧ (0, (⟨1, 5⟩ : Row)) ∈ st.new ∧ (doFlush c st).isSome = true := by decide

end SaVerif.Props.C53
