import SaVerif.Lemmas.Pratt
import SaVerif.Lemmas.Expr
import SaVerif.Model.Expr
import SaVerif.Model.ExprGrammar
import SaVerif.Model.ExprEval
/-!
# C07 — IN / NOT IN with expanding parameters follows SQL semantics

**§1** three-valued `IN` (`evalIn`, validated against the real SQLite by
`corr/c07:evalIn`) characterised for every left value and every list.
**§2** what the compiler emits for `x.in_(list)` / `x.not_in(list)` / their negations
(`Model/Expr.lean`: `_in_impl`, `_negate_in_binary`, `visit_not_in_op_binary`,
`visit_empty_set_op_expr`, the dialects' `visit_empty_set_expr`) evaluates, under the standard
interpretation of the emitted tokens, to that three-valued `IN` — for every list *including the
empty one* on every dialect, every left value including NULL.
**§3** the emitted empty-set forms (`x IN (NULL) AND (1 != 1)` has an `AND` at a position
SQLAlchemy treats as precedence 5) are well bracketed in every parent context.
-/
namespace SaVerif.Props.C07
open SaVerif.Expr SaVerif.Pratt SaVerif.Expr.Gen


/-! ## §1 three-valued IN -/

theorem or3_comm (a b : TV) : or3 a b = or3 b a := by
  cases a with
  | none => cases b with
    | none => rfl
    | some y => cases y <;> rfl
  | some x => cases x <;> (cases b with
    | none => rfl
    | some y => cases y <;> rfl)

theorem or3_assoc (a b c : TV) : or3 (or3 a b) c = or3 a (or3 b c) := by
  cases a with
  | none => cases b with
    | none => cases c with
      | none => rfl
      | some z => cases z <;> rfl
    | some y => cases y <;> (cases c with
      | none => rfl
      | some z => cases z <;> rfl)
  | some x => cases x <;> (cases b with
    | none => cases c with
      | none => rfl
      | some z => cases z <;> rfl
    | some y => cases y <;> (cases c with
      | none => rfl
      | some z => cases z <;> rfl))

theorem or3_idem (a : TV) : or3 a a = a := by
  cases a with
  | none => rfl
  | some x => cases x <;> rfl

theorem or3_false_left (a : TV) : or3 (some false) a = a := by
  cases a with
  | none => rfl
  | some x => cases x <;> rfl

theorem or3_eq_true (a b : TV) : or3 a b = some true ↔ a = some true ∨ b = some true := by
  cases a with
  | none => cases b with
    | none => simp [or3]
    | some y => cases y <;> simp [or3]
  | some x => cases x <;> (cases b with
    | none => simp [or3]
    | some y => cases y <;> simp [or3])

theorem or3_eq_false (a b : TV) : or3 a b = some false ↔ a = some false ∧ b = some false := by
  cases a with
  | none => cases b with
    | none => simp [or3]
    | some y => cases y <;> simp [or3]
  | some x => cases x <;> (cases b with
    | none => simp [or3]
    | some y => cases y <;> simp [or3])

/-- **in_eq_or_chain**: `x IN (v₁,…,vₙ)` is the OR of the equalities; the empty list gives FALSE -/
theorem in_eq_or_chain (x : Val) (vs : List Val) :
    evalIn x vs = (vs.map (evalCmp .eq x)).foldr or3 (some false) := by
  induction vs with
  | nil => rfl
  | cons v vs ih => simp [evalIn, ih]

theorem notin_eq_not_or_chain (x : Val) (vs : List Val) :
    evalNotIn x vs = not3 ((vs.map (evalCmp .eq x)).foldr or3 (some false)) := by
  simp [evalNotIn, in_eq_or_chain]

theorem in_empty (x : Val) : evalIn x [] = some false ∧ evalNotIn x [] = some true := ⟨rfl, rfl⟩

/-- TRUE exactly when some member compares equal -/
theorem in_true_iff (x : Val) (vs : List Val) :
    evalIn x vs = some true ↔ ∃ v ∈ vs, evalCmp .eq x v = some true := by
  induction vs with
  | nil => simp [evalIn]
  | cons v vs ih => simp [evalIn, or3_eq_true, ih]

/-- FALSE exactly when every member compares unequal (in particular none is NULL unless the
    list is empty, and the left side is not NULL unless the list is empty) -/
theorem in_false_iff (x : Val) (vs : List Val) :
    evalIn x vs = some false ↔ ∀ v ∈ vs, evalCmp .eq x v = some false := by
  induction vs with
  | nil => simp [evalIn]
  | cons v vs ih => simp [evalIn, or3_eq_false, ih]

theorem eq_null_left (v : Val) : evalCmp .eq .null v = none := by
  cases v <;> rfl

theorem eq_null_right (x : Val) : evalCmp .eq x .null = none := by
  cases x <;> rfl

/-- a NULL left side: UNKNOWN for every non-empty list, FALSE for the empty one -/
theorem in_null_left (vs : List Val) :
    evalIn .null vs = if vs = [] then some false else none := by
  induction vs with
  | nil => rfl
  | cons v vs ih =>
    simp only [evalIn, eq_null_left, ih]
    cases vs with
    | nil => rfl
    | cons w ws => simp [or3]

/-- a NULL member can only turn FALSE into UNKNOWN, never affect TRUE -/
theorem in_null_member (x : Val) (vs : List Val) :
    evalIn x (.null :: vs) = if evalIn x vs = some true then some true else none := by
  simp only [evalIn, eq_null_right]
  cases h : evalIn x vs with
  | none => rfl
  | some b => cases b <;> rfl

theorem in_append (x : Val) (as bs : List Val) :
    evalIn x (as ++ bs) = or3 (evalIn x as) (evalIn x bs) := by
  induction as with
  | nil => simp [evalIn, or3_false_left]
  | cons a as ih => simp [evalIn, ih, or3_assoc]

/-- duplicates do not matter -/
theorem in_duplicate (x v : Val) (vs : List Val) :
    evalIn x (v :: v :: vs) = evalIn x (v :: vs) := by
  simp [evalIn, ← or3_assoc, or3_idem]

/-- order does not matter -/
theorem in_perm (x : Val) {as bs : List Val} (h : as.Perm bs) : evalIn x as = evalIn x bs := by
  induction h with
  | nil => rfl
  | cons v _ ih => simp [evalIn, ih]
  | swap a b l => simp only [evalIn]; rw [← or3_assoc, ← or3_assoc, or3_comm (evalCmp .eq x b)]
  | trans _ _ ih1 ih2 => exact ih1.trans ih2

theorem notin_true_iff (x : Val) (vs : List Val) :
    evalNotIn x vs = some true ↔ ∀ v ∈ vs, evalCmp .eq x v = some false := by
  rw [← in_false_iff]
  simp only [evalNotIn]
  cases evalIn x vs with
  | none => simp [not3]
  | some b => cases b <;> simp [not3]

/-- non-vacuity: the three outcomes all occur -/
example : evalIn (.int 1) [.int 2, .null, .int 1] = some true := by decide
example : evalIn (.int 3) [.int 2, .null, .int 1] = none := by decide
example : evalIn (.int 3) [.int 2, .int 1] = some false := by decide
example : evalNotIn (.int 3) [.int 2, .null] = none := by decide

/-! ## §2 the emitted tokens evaluate to three-valued IN -/

section Sem
variable [Abs]

def litVal : Lit → Val
  | .int i => .int i
  | .str s => .str s
  | .bool b => .int (if b then 1 else 0)
  | .num _ => .null
  | .null => .null

theorem atom_renderLit (env : String → Val) (d : Dialect) (v : Lit) :
    (atomVal env (renderLit d true v)).items = [litVal v] := by
  cases v with
  | int i => rfl
  | str s => rfl
  | num s => rfl
  | null => rfl
  | bool b => cases b <;> rfl

theorem items_chainFrom (env : String → Val) (acc : G) (gs : List G) :
    (evalG (stdI env) (chainFrom .comma ", " acc gs)).items
      = (evalG (stdI env) acc).items ++ (gs.map (fun g => (evalG (stdI env) g).items)).flatten := by
  induction gs generalizing acc with
  | nil => simp [chainFrom]
  | cons g gs ih =>
    simp only [chainFrom, ih, evalG, List.map_cons, List.flatten_cons]
    simp [stdI, stdInf, SV.items, List.append_assoc]

theorem items_atoms (env : String → Val) (d : Dialect) (vs : List Lit) :
    ((vs.map (fun v => G.atom (renderLit d true v))).map
        (fun g => (evalG (stdI env) g).items)).flatten = vs.map litVal := by
  induction vs with
  | nil => rfl
  | cons w ws ih =>
    simp only [List.map_cons, List.flatten_cons, ih]
    have : (evalG (stdI env) (G.atom (renderLit d true w))).items = [litVal w] :=
      atom_renderLit env d w
    rw [this]
    rfl

/-- the rendered literal list `(v₁, …, vₙ)` denotes the list of its values -/
theorem items_litList (env : String → Val) (d : Dialect) (vs : List Lit) (h : vs ≠ []) :
    (evalG (stdI env) (G.br .paren (litListG d true vs))).items = vs.map litVal := by
  cases vs with
  | nil => exact absurd rfl h
  | cons v vs =>
    have hp : ∀ g, evalG (stdI env) (G.br .paren g) = evalG (stdI env) g := fun g => rfl
    rw [hp]
    simp only [litListG, List.map_cons, chain]
    rw [items_chainFrom, items_atoms]
    have : (evalG (stdI env) (G.atom (renderLit d true v))).items = [litVal v] :=
      atom_renderLit env d v
    rw [this]
    rfl

/-- the element `_in_impl` builds for `x.in_(vals)` (left operand already built) -/
def inExpr (x : SaExpr) (vals : List Lit) (ty : Ty) : SaExpr :=
  mkBinary x (.inlist vals ty .in_op) .in_op .bool (some .not_in_op) none

def notInExpr (x : SaExpr) (vals : List Lit) (ty : Ty) : SaExpr :=
  mkBinary x (.inlist vals ty .not_in_op) .not_in_op .bool (some .in_op) none

/-- `is_precedent(op, in_op) = is_precedent(op, not_in_op)` for every operator of the regenerated
    table (the two have the same precedence and neither is naturally self-precedent) -/
theorem isPrecedent_in_notin (op : Op) :
    isPrecedent op (some .in_op) = isPrecedent op (some .not_in_op) := by
  cases op <;> decide

/-- negation rewrites `x IN list` into `x NOT IN list` *and* switches the parameter's
    `expand_op` (`BindParameter._negate_in_binary`), and back; the operands are re-grouped
    against the new operator by the `BinaryExpression` constructor -/
theorem negate_in (x : SaExpr) (vals : List Lit) (ty : Ty) :
    negate (inExpr x vals ty) =
      .binary .not_in_op (selfGroup (some .not_in_op) (selfGroup (some .in_op) x))
        (.inlist vals ty .not_in_op) (some .in_op) none .bool ∧
    negate (notInExpr x vals ty) =
      .binary .in_op (selfGroup (some .in_op) (selfGroup (some .not_in_op) x))
        (.inlist vals ty .in_op) (some .not_in_op) none .bool := by
  constructor <;> simp [inExpr, notInExpr, negate, mkBinary, negateInBinary, selfGroup, wouldGroup]

theorem and3_false_right (a : TV) : and3 a (some false) = some false := by
  cases a with
  | none => rfl
  | some b => cases b <;> rfl

theorem or3_true_right (a : TV) : or3 a (some true) = some true := by
  cases a with
  | none => rfl
  | some b => cases b <;> rfl

theorem selfGroup_inlist (a : Option Op) (vals : List Lit) (ty : Ty) (eo : Op) :
    selfGroup a (.inlist vals ty eo) = .inlist vals ty eo := by
  simp [selfGroup, wouldGroup]

/-- **in_render_sound** (every dialect, every list *including the empty one*, every left
    operand): the emitted tokens of `x.in_(vals)` evaluate to the three-valued IN of the left
    operand's value and the list's values. -/
theorem in_render_sound (env : String → Val) (d : Dialect) (x : SaExpr) (vals : List Lit) (ty : Ty) :
    evalG (stdI env) (render d true (inExpr x vals ty)) =
      .s (ofTV (evalIn (evalG (stdI env) (render d true (selfGroup (some .in_op) x))).scalar
        (vals.map litVal))) := by
  simp only [inExpr, mkBinary, selfGroup_inlist]
  rw [render_in_op]
  cases vals with
  | nil =>
    by_cases hd : d = .sqlite
    · simp [inG, hd, evalG, stdI, stdInf, atomVal, SV.items, evalIn]
    · simp [inG, hd, evalG, stdI, stdInf, atomVal, SV.items, SV.scalar, evalIn, nullAtom, intAtom,
        truth_ofTV', and3_false_right, evalCmp, cmpVal, tvOf]
  | cons v vs =>
    have hl : (evalG (stdI env) (litListG d true (v :: vs))).items = (v :: vs).map litVal :=
      items_litList env d (v :: vs) (by simp)
    simp only [inG, List.isEmpty_cons, Bool.false_eq_true, if_false, evalG]
    show stdInf .in_ _ (evalG (stdI env) (litListG d true (v :: vs))) = _
    simp only [stdInf]
    rw [hl]
where
  truth_ofTV' : ∀ t : TV, truth (ofTV t) = t := by
    intro t
    cases t with
    | none => rfl
    | some b => cases b <;> rfl

/-- same for `x.not_in(vals)`: the emitted `(x NOT IN (…))` — for the empty list
    `(x NOT IN (NULL) OR (1 = 1))` resp. SQLite's empty sub-select — is the negation -/
theorem notin_render_sound (env : String → Val) (d : Dialect) (x : SaExpr) (vals : List Lit) (ty : Ty) :
    evalG (stdI env) (render d true (notInExpr x vals ty)) =
      .s (ofTV (evalNotIn (evalG (stdI env) (render d true (selfGroup (some .not_in_op) x))).scalar
        (vals.map litVal))) := by
  simp only [notInExpr, mkBinary, selfGroup_inlist]
  rw [render_not_in_op]
  cases vals with
  | nil =>
    by_cases hd : d = .sqlite
    · simp [inG, hd, evalG, stdI, stdInf, atomVal, SV.items, evalNotIn, evalIn, not3]
    · simp [inG, hd, evalG, stdI, stdInf, atomVal, SV.items, SV.scalar, evalNotIn, evalIn, nullAtom,
        intAtom, in_render_sound.truth_ofTV', or3_true_right, evalCmp, cmpVal, tvOf, not3]
  | cons v vs =>
    have hl : (evalG (stdI env) (litListG d true (v :: vs))).items = (v :: vs).map litVal :=
      items_litList env d (v :: vs) (by simp)
    simp only [inG, List.isEmpty_cons, Bool.false_eq_true, if_false, evalG]
    show stdInf .notIn _ (evalG (stdI env) (litListG d true (v :: vs))) = _
    simp only [stdInf]
    rw [hl]

/-- **empty_in_render_sound**: corollary for the empty list — FALSE / TRUE whatever the left
    operand evaluates to, NULL included, on every dialect -/
theorem empty_in_render_sound (env : String → Val) (d : Dialect) (x : SaExpr) (ty : Ty) :
    evalG (stdI env) (render d true (inExpr x [] ty)) = .s (.int 0) ∧
    evalG (stdI env) (render d true (notInExpr x [] ty)) = .s (.int 1) := by
  constructor
  · rw [in_render_sound]; rfl
  · rw [notin_render_sound]; rfl

/-- **rebind_length_independent**: for non-empty lists the emitted tree is one fixed context
    around the parenthesised literal list — the left operand's rendering and every grouping
    decision are independent of the list and its length (what re-expanding a cached statement
    relies on) -/
theorem rebind_length_independent (d : Dialect) (x : SaExpr) (ty : Ty) :
    ∃ ctx : G → G, ∀ vals : List Lit, vals ≠ [] →
      render d true (inExpr x vals ty) = ctx (G.br .paren (litListG d true vals)) := by
  refine ⟨fun rhs => G.inf .in_ (opText .in_op) (render d true (selfGroup (some .in_op) x)) rhs, ?_⟩
  intro vals h
  simp only [inExpr, mkBinary, selfGroup_inlist]
  rw [render_in_op]
  cases vals with
  | nil => exact absurd rfl h
  | cons v vs => simp [inG]

/-- whether a parent parenthesises the IN expression does not depend on the list -/
theorem grouping_independent_of_list (a : Option Op) (x : SaExpr) (vs ws : List Lit) (ty : Ty) :
    wouldGroup a (inExpr x vs ty) = wouldGroup a (inExpr x ws ty) ∧
    wouldGroup a (notInExpr x vs ty) = wouldGroup a (notInExpr x ws ty) := by
  constructor <;> rfl

end Sem

/-! ## §3 the empty-set forms in context -/

def colA : SaExpr := .col "a" .int
def colB : SaExpr := .col "b" .bool
def colC : SaExpr := .col "c" .int

def parents : List Op :=
  [.add, .sub, .mul, .concat_op, .eq, .ne, .lt, .le, .gt, .ge, .is_, .is_not,
   .is_distinct_from, .is_not_distinct_from, .like_op, .not_like_op, .and_, .or_]

/-- the IN expressions whose rendering contains more than the plain `x IN (…)` -/
def subjects : List SaExpr :=
  [inExpr colA [] .int, notInExpr colA [] .int, inExpr colA [.int 1, .null] .int,
   notInExpr colA [.int 1] .int, negate (inExpr colA [] .int), negate (notInExpr colA [] .int)]

/-- every subject, as either operand of every parent operator, as member of `and_` / `or_`,
    under NOT, and as CASE condition, renders to a tree the backend grammar reads back -/
def contextsOK (d : Dialect) (g : Grammar) : Bool :=
  subjects.all fun s =>
    (parents.all fun p =>
      wb g (render d true (mkBinary s colC p .bool none none)).norm &&
      wb g (render d true (mkBinary colC s p .bool none none)).norm) &&
    wb g (render d true (boolConstruct .and_ [s, colB, s])).norm &&
    wb g (render d true (boolConstruct .or_ [colB, s])).norm &&
    wb g (render d true (boolConstruct .and_ [boolConstruct .or_ [s, colB], s])).norm &&
    wb g (render d true (negate (boolConstruct .and_ [s, colB]))).norm &&
    wb g (render d true (mkCase .absent [s, colC] colA)).norm

theorem empty_in_contexts_sqlite : contextsOK .sqlite sqlite = true := by decide +kernel
theorem empty_in_contexts_postgresql : contextsOK .postgresql postgresql = true := by decide +kernel
theorem empty_in_contexts_mysql : contextsOK .mysql mysql = true := by decide +kernel

/-- and the emitted text is read back exactly (instance of C01's round trip) -/
theorem empty_in_text_roundtrip :
    parse postgresql (render .postgresql true (boolConstruct .or_ [inExpr colA [] .int, colB])).print
      = some (render .postgresql true (boolConstruct .or_ [inExpr colA [] .int, colB])).norm := by
  have h : wb postgresql
      (render .postgresql true (boolConstruct .or_ [inExpr colA [] .int, colB])).norm = true := by
    decide +kernel
  rw [← print_norm]
  exact parse_print postgresql _ h

end SaVerif.Props.C07
