import SaVerif.Model.Limit
import SaVerif.Gen.LimitForms
/-!
# C18 — LIMIT/OFFSET and their dialect emulations return exactly the requested slice

For every rendering form the list semantics of the rendered SQL equals
`slice off lim rows = (rows.drop off).take lim` of the fully ordered result, for every
result list and every pair of numbers.  The MSSQL ROW_NUMBER() wrapper carries no ORDER BY
on the outer query (finding F13): for it the statement is proved up to permutation for an
arbitrary arrangement of the derived table, and exactly when the derived table keeps the
numbering order.
-/
namespace SaVerif.Props.C18
open SaVerif.Limit

/-! ## native forms -/

/-- **limit_offset_is_slice** (LIMIT l OFFSET o; `LIMIT -1` / `LIMIT ALL` = no limit) -/
theorem limit_offset_is_slice {α : Type} (o : Nat) (l : Option Nat) (rows : List α) :
    limitOffset (l.map (fun n => (n : Int))) o rows = slice o l rows := by
  cases l with
  | none => rfl
  | some n =>
    simp only [limitOffset, sqlLimit, slice, Option.map_some]
    have : ¬ ((n : Int) < 0) := by omega
    simp [this]

/-- SQLite renders an OFFSET without LIMIT as `LIMIT -1 OFFSET o` -/
theorem sqlite_limit_minus_one_is_slice {α : Type} (o : Nat) (rows : List α) :
    limitOffset (some (-1)) o rows = slice o none rows := by
  simp [limitOffset, sqlLimit, slice]

/-- MySQL `LIMIT o, l` -/
theorem mysql_limit_is_slice {α : Type} (o l : Nat) (rows : List α) :
    mysqlLimit o l rows = slice o (some l) rows := rfl

/-- MySQL renders an OFFSET without LIMIT as `LIMIT o, 18446744073709551615`: the slice,
    as long as the result has at most 2^64-1 rows -/
theorem mysql_offset_only_is_slice {α : Type} (o : Nat) (rows : List α)
    (h : rows.length ≤ 18446744073709551615) :
    mysqlLimit o 18446744073709551615 rows = slice o none rows := by
  simp only [mysqlLimit, slice]
  apply List.take_of_length_le
  rw [List.length_drop]; omega

/-- `OFFSET o ROWS FETCH FIRST l ROWS ONLY` (PostgreSQL fetch(), MSSQL 2012+, Oracle 12c+) -/
theorem offset_fetch_is_slice {α : Type} (o : Nat) (l : Option Nat) (rows : List α) :
    offsetFetch o l rows = slice o l rows := by
  cases l <;> rfl

/-- `SELECT TOP l` (MSSQL, only rendered without OFFSET) -/
theorem top_is_slice {α : Type} (l : Nat) (rows : List α) :
    top l rows = slice 0 (some l) rows := by
  simp [top, slice]

/-! ## the ROW_NUMBER() window -/

/-- filtering positions `k, k+1, …` on `off + k < pos + 1 ≤ lim + off + k` keeps exactly
    `(drop off).take lim` -/
theorem window_filter {α : Type} :
    ∀ (rows : List α) (k off lim : Nat),
      ((rows.zipIdx k).filter (fun x => decide (off + k < x.2 + 1) && decide (x.2 + 1 ≤ lim + off + k))).map (·.1)
        = (rows.drop off).take lim := by
  intro rows
  induction rows with
  | nil => intro k off lim; simp
  | cons a t ih =>
    intro k off lim
    simp only [List.zipIdx_cons, List.filter_cons]
    cases off with
    | zero =>
      cases lim with
      | zero =>
        -- nothing passes the upper bound
        have hhead : (decide (0 + k < k + 1) && decide (k + 1 ≤ 0 + 0 + k)) = false := by
          simp only [Bool.and_eq_false_imp, decide_eq_true_eq, decide_eq_false_iff_not]; omega
        have hnone : ((t.zipIdx (k + 1)).filter
            (fun x => decide (0 + k < x.2 + 1) && decide (x.2 + 1 ≤ 0 + 0 + k))) = [] := by
          rw [List.filter_eq_nil_iff]
          intro x hx
          have := List.le_snd_of_mem_zipIdx hx
          simp only [Bool.and_eq_true, decide_eq_true_eq, not_and]
          intro _; omega
        rw [hhead, hnone]
        rfl
      | succ l =>
        have hhead : (decide (0 + k < k + 1) && decide (k + 1 ≤ l + 1 + 0 + k)) = true := by
          simp only [Bool.and_eq_true, decide_eq_true_eq]; omega
        have hrest : (t.zipIdx (k + 1)).filter
              (fun x => decide (0 + k < x.2 + 1) && decide (x.2 + 1 ≤ l + 1 + 0 + k))
            = (t.zipIdx (k + 1)).filter
              (fun x => decide (0 + (k + 1) < x.2 + 1) && decide (x.2 + 1 ≤ l + 0 + (k + 1))) := by
          apply List.filter_congr
          intro x hx
          have := List.le_snd_of_mem_zipIdx hx
          congr 1 <;> (apply decide_eq_decide.2; omega)
        rw [hhead, hrest]
        simp only [↓reduceIte, List.map_cons, List.drop_zero, List.take_succ_cons]
        have := ih (k + 1) 0 l
        simp only [List.drop_zero] at this
        rw [this]
    | succ o =>
      have hhead : (decide (o + 1 + k < k + 1) && decide (k + 1 ≤ lim + (o + 1) + k)) = false := by
        simp only [Bool.and_eq_false_imp, decide_eq_true_eq, decide_eq_false_iff_not]; omega
      have hrest : (t.zipIdx (k + 1)).filter
            (fun x => decide (o + 1 + k < x.2 + 1) && decide (x.2 + 1 ≤ lim + (o + 1) + k))
          = (t.zipIdx (k + 1)).filter
            (fun x => decide (o + (k + 1) < x.2 + 1) && decide (x.2 + 1 ≤ lim + o + (k + 1))) := by
        apply List.filter_congr
        intro x _
        congr 1 <;> (apply decide_eq_decide.2; omega)
      rw [hhead, hrest]
      simp only [Bool.false_eq_true, ↓reduceIte, List.drop_succ_cons]
      exact ih (k + 1) o lim

theorem window_filter_unbounded {α : Type} :
    ∀ (rows : List α) (k off : Nat),
      ((rows.zipIdx k).filter (fun x => decide (off + k < x.2 + 1))).map (·.1) = rows.drop off := by
  intro rows
  induction rows with
  | nil => intro k off; simp
  | cons a t ih =>
    intro k off
    simp only [List.zipIdx_cons, List.filter_cons]
    cases off with
    | zero =>
      have hhead : decide (0 + k < k + 1) = true := by simp
      have hrest : (t.zipIdx (k + 1)).filter (fun x => decide (0 + k < x.2 + 1))
          = (t.zipIdx (k + 1)).filter (fun x => decide (0 + (k + 1) < x.2 + 1)) := by
        apply List.filter_congr
        intro x hx
        have := List.le_snd_of_mem_zipIdx hx
        apply decide_eq_decide.2; omega
      rw [hhead, hrest]
      simp only [↓reduceIte, List.map_cons, List.drop_zero]
      have := ih (k + 1) 0
      simp only [List.drop_zero] at this
      rw [this]
    | succ o =>
      have hhead : decide (o + 1 + k < k + 1) = false := by
        simp only [decide_eq_false_iff_not]; omega
      have hrest : (t.zipIdx (k + 1)).filter (fun x => decide (o + 1 + k < x.2 + 1))
          = (t.zipIdx (k + 1)).filter (fun x => decide (o + (k + 1) < x.2 + 1)) := by
        apply List.filter_congr
        intro x _
        apply decide_eq_decide.2; omega
      rw [hhead, hrest]
      simp only [Bool.false_eq_true, ↓reduceIte, List.drop_succ_cons]
      exact ih (k + 1) o

theorem numbered_filter {α : Type} (p : Nat → Bool) (rows : List α) :
    ((numbered rows).filter (fun x => p x.2)).map (·.1)
      = ((rows.zipIdx 0).filter (fun x => p (x.2 + 1))).map (·.1) := by
  unfold numbered
  rw [List.filter_map, List.map_map]
  rfl

/-- the wrapper applied to the derived table in numbering order is exactly the slice, for
    the four combinations of offset / limit the code distinguishes -/
theorem row_number_wrapper_is_slice_ordered {α : Type} (o l : Option Nat) (rows : List α)
    (h : o.isSome ∨ l.isSome) :
    rowNumberWrapper o l (numbered rows) = slice (o.getD 0) l rows := by
  unfold rowNumberWrapper
  rw [numbered_filter (rnPred o l)]
  cases o with
  | none =>
    cases l with
    | none => simp at h
    | some lim =>
      simp only [rnPred, Option.getD_none, slice, List.drop_zero]
      have := window_filter rows 0 0 lim
      simp only [Nat.add_zero, List.drop_zero] at this
      rw [← this]
      congr 1
  | some off =>
    cases l with
    | none =>
      simp only [rnPred, Option.getD_some, slice]
      have := window_filter_unbounded rows 0 off
      simpa using this
    | some lim =>
      simp only [rnPred, Option.getD_some, slice]
      have := window_filter rows 0 off lim
      simpa using this

/-- **row_number_wrapper_is_slice_perm** (F13): the derived table of the MSSQL wrapper has
    no ORDER BY and neither has the outer query, so SQL lets its rows arrive in any
    order; whatever that order, the rows returned are exactly the rows of the slice — as a
    multiset.  (The full "in slice order" statement is not provable: see the
    counterexample.) -/
theorem row_number_wrapper_is_slice_perm {α : Type} (o l : Option Nat) (rows : List α)
    (inner : List (α × Nat)) (hinner : inner.Perm (numbered rows))
    (h : o.isSome ∨ l.isSome) :
    (rowNumberWrapper o l inner).Perm (slice (o.getD 0) l rows) := by
  rw [← row_number_wrapper_is_slice_ordered o l rows h]
  unfold rowNumberWrapper
  exact (hinner.filter _).map _

/-- with a derived table delivered in another order the wrapper returns the slice's rows in
    another order: nothing in the rendered SQL forbids it -/
theorem row_number_wrapper_order_counterexample :
    ∃ (rows : List Nat) (inner : List (Nat × Nat)),
      inner.Perm (numbered rows) ∧
      rowNumberWrapper (some 1) (some 2) inner ≠ slice 1 (some 2) rows :=
  ⟨[10, 20, 30, 40], [(30, 3), (20, 2), (10, 1), (40, 4)], by decide, by decide⟩

/-! ## the ROWNUM wrappers -/

/-- **rownum_wrapper_is_slice**: Oracle's pre-12c forms (limit only, offset only, both),
    with `max_row = limit + offset` as the code computes it -/
theorem rownum_wrapper_is_slice {α : Type} (o l : Option Nat) (rows : List α) :
    rownumWrapper o l rows = slice (o.getD 0) l rows := by
  cases o with
  | none =>
    cases l with
    | none => simp [rownumWrapper, slice]
    | some lim => simp [rownumWrapper, slice]
  | some off =>
    cases l with
    | none =>
      simp only [rownumWrapper, Option.getD_some, slice]
      rw [numbered_filter (fun rn => decide (off < rn))]
      have := window_filter_unbounded rows 0 off
      simpa using this
    | some lim =>
      simp only [rownumWrapper, Option.getD_some, slice]
      rw [numbered_filter (fun rn => decide (off < rn))]
      have := window_filter_unbounded (rows.take (lim + off)) 0 off
      simp only [Nat.add_zero] at this
      rw [this, List.drop_take]
      congr 1
      omega

/-! ## slice() / __getitem__ on top of an existing OFFSET -/

/-- Python `l[a:b]` for `0 ≤ a`, `0 ≤ b` -/
def pySlice (a : Nat) (b : Option Nat) (l : List α) : List α :=
  match b with
  | none => l.drop a
  | some stop => (l.take stop).drop a

/-- **slice_after_offset**: `stmt.offset(k).slice(a, b)` / `q.offset(k)[a:b]` must select
    `rows[k:][a:b]`; that is the slice with offset `k + a` and limit `b - a` which
    `_make_slice` computes (it must ADD the slice start to the existing offset — also when
    the start is 0 — and never drop it). -/
theorem slice_after_offset {α : Type} (k a : Nat) (b : Option Nat) (rows : List α) :
    pySlice a b (rows.drop k) = slice (k + a) (b.map (· - a)) rows := by
  cases b with
  | none => simp [pySlice, slice, List.drop_drop, Nat.add_comm]
  | some stop =>
    simp only [pySlice, slice, Option.map_some]
    rw [List.drop_take, List.drop_drop, Nat.add_comm]

/-- with slice start 0 the existing offset is what remains -/
theorem slice_zero_keeps_offset {α : Type} (k n : Nat) (rows : List α) :
    pySlice 0 (some n) (rows.drop k) = slice k (some n) rows := by
  have := slice_after_offset k 0 (some n) rows
  simpa using this

/-! ## WITH TIES and PERCENT -/

/-- the slice is a prefix of the WITH TIES result and every extra row ties with the
    slice's last row on the sort key -/
theorem with_ties_extends_slice {α κ : Type} [BEq κ] (key : α → κ) (o l : Nat) (rows : List α) :
    slice o (some l) rows <+: withTies key o l rows ∧
    ∀ last, (slice o (some l) rows).getLast? = some last →
      ∀ r ∈ (withTies key o l rows).drop (slice o (some l) rows).length, (key r == key last) = true := by
  unfold withTies slice
  simp only
  cases hlast : ((rows.drop o).take l).getLast? with
  | none =>
    refine ⟨List.prefix_refl _, ?_⟩
    intro last h; cases h
  | some last =>
    refine ⟨List.prefix_append _ _, ?_⟩
    intro last' h
    cases h
    intro r hr
    simp only [List.drop_left] at hr
    have hall := List.all_takeWhile (l := (rows.drop o).drop l) (p := fun r => key r == key last)
    rw [List.all_eq_true] at hall
    exact hall r hr

/-- `FETCH FIRST 0 ROWS WITH TIES` returns nothing -/
theorem with_ties_zero {α κ : Type} [BEq κ] (key : α → κ) (o : Nat) (rows : List α) :
    withTies key o 0 rows = [] := by
  simp [withTies]

/-- PERCENT: never more rows than there are (p ≤ 100), at least one when both are positive,
    all of them at 100 -/
theorem percent_count_bounds (n p : Nat) (hp : p ≤ 100) :
    percentCount n p ≤ n ∧ (0 < n → 0 < p → 0 < percentCount n p) ∧ percentCount n 100 = n := by
  unfold percentCount
  refine ⟨?_, ?_, by omega⟩
  · have : n * p ≤ n * 100 := Nat.mul_le_mul_left n hp
    omega
  · intro hn hp0
    have : 1 ≤ n * p := Nat.mul_pos hn hp0
    omega

/-! ## the regenerated form table -/

/-- every probe of every dialect configuration renders a form able to express what was
    asked (`TOP` never together with an OFFSET, no form silently dropped), and the
    emulations are only used by the configurations without OFFSET/FETCH support -/
theorem forms_applicable :
    ∀ r ∈ Gen.LimitForms.rows, formApplicable r = true := by decide

theorem wrappers_only_where_needed :
    ∀ r ∈ Gen.LimitForms.rows,
      (r.form = .rowNumber → r.dialect = "mssql2008") ∧ (r.form = .rownum → r.dialect = "oracle11") := by
  decide

theorem modern_dialects_use_native_forms :
    ∀ r ∈ Gen.LimitForms.rows,
      r.dialect ∈ ["sqlite", "postgresql", "mysql", "mssql2012", "oracle12"] →
      r.form ≠ .rowNumber ∧ r.form ≠ .rownum := by decide

/-! ## non-vacuity -/

example : slice 1 (some 2) [10, 20, 30, 40] = [20, 30] := by decide
example : rowNumberWrapper (some 1) (some 2) (numbered [10, 20, 30, 40]) = [20, 30] := by decide
example : rownumWrapper (some 1) (some 2) [10, 20, 30, 40] = [20, 30] := by decide
example : rownumWrapper (some 5) (some 2) [10, 20, 30, 40] = ([] : List Nat) := by decide
example : limitOffset (some (-1)) 3 [10, 20, 30, 40] = [40] := by decide
example : withTies (fun (r : Nat × Nat) => r.2) 0 2 [(1, 5), (2, 7), (3, 7), (4, 9)]
    = [(1, 5), (2, 7), (3, 7)] := by decide
example : percentCount 7 30 = 3 := by decide

end SaVerif.Props.C18
