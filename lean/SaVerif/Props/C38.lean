import SaVerif.Lemmas.PySlice
import SaVerif.Lemmas.PyDelSlice
import SaVerif.Lemmas.PySet
import SaVerif.Lemmas.PyDict
/-!
# C38 — Instrumented collections behave exactly like the Python types they wrap

Property theorems about M-PYSEQ (`SaVerif/Model/PySeq.lean`, `SaVerif/Model/PySetDict.lean`:
Python list/set/dict semantics + the instrumented decorators of orm/collections.py with the
append/remove event log).

Full statement (C38): for EVERY operation with EVERY argument on a collection of ANY size the
instrumented operation has the contents, return value and exception of the builtin operation
and its events account exactly for the membership change.

It is false of the code as it stands in three places (all replayed on the real code and listed
in known_findings.d/C38.json); the theorems below are therefore `_partial` with the exact
guards, and each excluded region has a `_counterexample`:

* G3 `l[a:b] = <non-iterable>` deletes the slice before raising TypeError;
* G4 `l[a:b:k] = <iterator>` raises TypeError (needs `len(value)`);
* G5 `l *= n` fires no events.
-/
namespace SaVerif.Props.C38
open SaVerif.PySeq

/-! ## slice normalisation (the F5 region): `index.indices(len(self))` is in range -/

theorem slice_indices_in_bounds {len : Nat} {s : Slice} {start stop step : Int}
    (h : sliceIndices len s = some (start, stop, step)) :
    step ≠ 0 ∧
    (0 < step → 0 ≤ start ∧ start ≤ len ∧ 0 ≤ stop ∧ stop ≤ len) ∧
    (step < 0 → -1 ≤ start ∧ start ≤ (len : Int) - 1 ∧ -1 ≤ stop ∧ stop ≤ (len : Int) - 1) :=
  sliceIndices_bounds h

/-- `self.__setitem__(i, item)` inside the extended-slice loop can never raise IndexError -/
theorem slice_positions_valid {len : Nat} {s : Slice} {start stop step : Int}
    (h : sliceIndices len s = some (start, stop, step)) :
    ∀ i ∈ rangeList start stop step, 0 ≤ i ∧ i < len :=
  rangeList_valid h

/-! ## step-1 slice assignment: the delete loop + insert loop IS list slice assignment -/

/-- the value actually iterated: a snapshot of the list when `value is self` -/
def valueItems (l : List Item) (v : Val) : List Item := if v.kind == .self then l else v.elems

theorem setslice_step1_spec (l : List Item) (s : Slice) (v : Val) (start stop : Int)
    (h : sliceIndices l.length s = some (start, stop, 1)) (hv : v.kind ≠ .nonIter) :
    let a := start.toNat
    let n := (stop - start).toNat
    iSetSlice l s v =
      ⟨l.take a ++ valueItems l v ++ l.drop (a + n),
       if v.kind == .self && start == 0 && stop ≥ (l.length : Int) then []
       else ((l.drop a).take n).map .rem ++ (valueItems l v).map .app,
       .none⟩ ∧
    pSetSlice l s v = .ok (l.take a ++ valueItems l v ++ l.drop (a + n)) := by
  intro a n
  obtain ⟨_, hpos, _⟩ := sliceIndices_bounds h
  obtain ⟨h1, h2, h3, h4⟩ := hpos (by omega)
  have ha : (a : Int) = start := Int.toNat_of_nonneg h1
  have ha_le : a ≤ l.length := by
    have : (a : Int) ≤ l.length := by omega
    omega
  have han : a + n ≤ l.length := by
    have : ((a + n : Nat) : Int) ≤ l.length := by
      have hn : (n : Int) = if stop - start ≥ 0 then stop - start else 0 := by
        show ((stop - start).toNat : Int) = _
        split
        · exact Int.toNat_of_nonneg (by omega)
        · have : (stop - start).toNat = 0 := by omega
          rw [this]; rfl
      rw [Int.natCast_add, ha, hn]
      split <;> omega
    omega
  have hstop' : (if stop < start then start else stop).toNat = a + n := by
    split
    · have : n = 0 := by show (stop - start).toNat = 0; omega
      omega
    · have : (stop.toNat : Int) = ((a + n : Nat) : Int) := by
        rw [Int.toNat_of_nonneg h3, Int.natCast_add, ha]
        show stop = start + ((stop - start).toNat : Int)
        rw [Int.toNat_of_nonneg (by omega)]; omega
      omega
  constructor
  · unfold iSetSlice
    rw [h]
    simp only [beq_self_eq_true, if_true]
    by_cases hfull : (v.kind == .self && start == 0 && stop ≥ (l.length : Int)) = true
    · rw [if_pos hfull, if_pos hfull]
      -- full-slice self assignment: nothing happens and the list equals itself
      simp only [Bool.and_eq_true, beq_iff_eq, decide_eq_true_eq] at hfull
      obtain ⟨⟨hk, hs0⟩, hst⟩ := hfull
      have a0 : a = 0 := by show start.toNat = 0; omega
      have hn : n = l.length := by
        show (stop - start).toNat = l.length
        have : stop = l.length := by omega
        rw [this, hs0]; simp
      have hvi : valueItems l v = l := by unfold valueItems; simp [hk]
      rw [a0, hn, hvi]
      simp
    · rw [if_neg hfull, if_neg hfull]
      rw [rangeLen_step1, delLoop_eq n a l [] han]
      simp only [List.nil_append]
      have hni : (v.kind == .nonIter) = false := by
        cases hk : v.kind <;> simp_all
      rw [hni]
      simp only [Bool.false_eq_true, if_false]
      have hpre : ((l.take a).length : Int) = start := by
        rw [List.length_take, Nat.min_eq_left ha_le]; exact ha
      have := insLoop_zero (if (v.kind == .self) = true then l else v.elems) (l.take a)
        (l.drop (a + n)) (((l.drop a).take n).map .rem)
      rw [hpre] at this
      rw [this]
      rfl
  · unfold pSetSlice
    rw [h]
    have hni : (v.kind == .nonIter) = false := by
      cases hk : v.kind <;> simp_all
    simp only [hni, Bool.false_eq_true, if_false, beq_self_eq_true, if_true]
    rw [hstop']
    rfl

/-! ## per-operation refinement -/

/-- where the instrumented list is allowed to be compared with the builtin list -/
def ContentsGuard (l : List Item) : LOp → Prop
  | .setslice s v =>
    match sliceIndices l.length s with
    | none => True
    | some (start, stop, step) =>
      if step = 1 then v.kind ≠ .nonIter ∨ (stop - start).toNat = 0
      else v.kind = .sized ∨ v.kind = .self ∨ v.kind = .nonIter
  | _ => True

/-- **instrumented_list_refines_list_partial**: same contents, same return value, same
    exception as the builtin list for every operation, every index / slice / value and every
    list length — outside G3 (non-iterable value with a non-empty step-1 slice) and G4
    (iterator assigned to an extended slice).
    Full statement (false, see the counterexamples): the same without `ContentsGuard`. -/
theorem instrumented_list_refines_list_partial (l : List Item) (op : LOp)
    (hg : ContentsGuard l op) :
    (iStep l op).items = (pStep l op).1 ∧ (iStep l op).ret = (pStep l op).2 := by
  cases op with
  | append x => exact ⟨rfl, rfl⟩
  | remove x =>
    simp only [iStep, pStep, iRemove]
    cases pRemove l x <;> exact ⟨rfl, rfl⟩
  | insert p x => exact ⟨rfl, rfl⟩
  | setitem i x =>
    simp only [iStep, pStep, iSetItem, pGet, pSetItem]
    cases hn : normIndex l.length i with
    | none => exact ⟨rfl, rfl⟩
    | some k =>
      have hk := normIndex_some hn
      simp only [List.getElem?_eq_getElem hk]
      first | exact ⟨rfl, rfl⟩ | trivial | simp
  | delitem i =>
    simp only [iStep, pStep, iDelItem, pGet, pDelItem]
    cases hn : normIndex l.length i with
    | none => exact ⟨rfl, rfl⟩
    | some k =>
      have hk := normIndex_some hn
      simp only [List.getElem?_eq_getElem hk]
      first | exact ⟨rfl, rfl⟩ | trivial | simp
  | pop i =>
    simp only [iStep, pStep, iPop]
    cases pPop l i with
    | error e => exact ⟨rfl, rfl⟩
    | ok r => exact ⟨rfl, rfl⟩
  | clear => exact ⟨rfl, rfl⟩
  | extend v =>
    simp only [iStep, pStep, iExtend]
    cases v.kind <;> exact ⟨rfl, rfl⟩
  | setslice s v =>
    simp only [ContentsGuard] at hg
    simp only [iStep, pStep]
    cases hs : sliceIndices l.length s with
    | none =>
      unfold iSetSlice pSetSlice
      rw [hs]
      exact ⟨rfl, rfl⟩
    | some t =>
      obtain ⟨start, stop, step⟩ := t
      rw [hs] at hg
      simp only at hg
      by_cases h1 : step = 1
      · subst h1
        simp only [if_true] at hg
        by_cases hv : v.kind = .nonIter
        · -- non-iterable with an empty slice: nothing deleted, TypeError on both sides
          have hn : (stop - start).toNat = 0 := by
            rcases hg with hg | hg
            · exact absurd hv hg
            · exact hg
          unfold iSetSlice pSetSlice
          rw [hs]
          simp only [beq_self_eq_true, if_true, hv]
          rw [rangeLen_step1, hn]
          simp [delLoop]
        · obtain ⟨hi, hp⟩ := setslice_step1_spec l s v start stop hs hv
          rw [hi, hp]
          exact ⟨rfl, rfl⟩
      · rw [if_neg h1] at hg
        have hb : (step == 1) = false := by simpa using h1
        unfold iSetSlice pSetSlice
        rw [hs]
        simp only [hb, Bool.false_eq_true, if_false]
        rcases hg with hk | hk | hk
        · simp only [hk]
          have hni : (ValKind.sized == ValKind.nonIter) = false := by decide
          have hns : (ValKind.sized == ValKind.self) = false := by decide
          simp only [hni, hns, Bool.false_eq_true, if_false]
          by_cases hlen : (v.elems.length != (rangeList start stop step).length) = true
          · rw [if_pos hlen, if_pos hlen]; exact ⟨rfl, rfl⟩
          · rw [if_neg hlen, if_neg hlen]
            obtain ⟨ev', he, _⟩ := extLoop_spec (rangeList start stop step) v.elems l []
              (rangeList_valid hs)
            rw [he]
            exact ⟨rfl, rfl⟩
        · simp only [hk]
          have hni : (ValKind.self == ValKind.nonIter) = false := by decide
          have hns : (ValKind.self == ValKind.self) = true := by decide
          simp only [hni, hns, Bool.false_eq_true, if_false, if_true]
          by_cases hlen : (l.length != (rangeList start stop step).length) = true
          · rw [if_pos hlen, if_pos hlen]; exact ⟨rfl, rfl⟩
          · rw [if_neg hlen, if_neg hlen]
            obtain ⟨ev', he, _⟩ := extLoop_spec (rangeList start stop step) l l []
              (rangeList_valid hs)
            rw [he]
            exact ⟨rfl, rfl⟩
        · simp only [hk]
          have hni : (ValKind.nonIter == ValKind.nonIter) = true := by decide
          simp only [hni, if_true]
          first | exact ⟨rfl, rfl⟩ | trivial | simp
  | delslice s =>
    simp only [iStep, pStep, iDelSlice, pGetSlice, pDelSlice]
    cases sliceIndices l.length s with
    | none => exact ⟨rfl, rfl⟩
    | some t => obtain ⟨a, b, c⟩ := t; exact ⟨rfl, rfl⟩
  | imul n => exact ⟨rfl, rfl⟩
  | reverse => exact ⟨rfl, rfl⟩

/-! ## event accounting -/

/-- where the events are claimed to account exactly for the change -/
def EventsGuard (l : List Item) : LOp → Prop
  | .imul n => n = 1
  | op => ContentsGuard l op

/-- **instrumented_list_events_account_partial**: old contents + appended = new contents +
    removed (as multisets) for every operation — outside G5 (`*=`) and the regions excluded by
    `ContentsGuard` (`remove` of an absent item fires nothing: G1 is fixed). -/
theorem instrumented_list_events_account_partial (l : List Item) (op : LOp)
    (hg : EventsGuard l op) :
    Accounts l (iStep l op).events (iStep l op).items := by
  cases op with
  | append x =>
    show Accounts l [.app x] (l ++ [x])
    unfold Accounts; simp [apps, rems]
  | remove x =>
    by_cases hx : x ∈ l
    · simp only [iStep, iRemove, pRemove, List.contains_iff_mem.2 hx, if_true]
      exact acc_erase hx
    · have hc : l.contains x = false := by simpa using hx
      simp only [iStep, iRemove, pRemove, hc, Bool.false_eq_true, if_false]
      exact acc_refl l
  | insert p x => exact acc_insert l p x
  | setitem i x =>
    simp only [iStep, iSetItem, pGet, pSetItem]
    cases hn : normIndex l.length i with
    | none => exact acc_refl l
    | some k =>
      have hk := normIndex_some hn
      simp only [List.getElem?_eq_getElem hk]
      exact acc_set (List.getElem?_eq_getElem hk)
  | delitem i =>
    simp only [iStep, iDelItem, pGet, pDelItem]
    cases hn : normIndex l.length i with
    | none => exact acc_refl l
    | some k =>
      have hk := normIndex_some hn
      simp only [List.getElem?_eq_getElem hk]
      exact acc_eraseIdx (List.getElem?_eq_getElem hk)
  | pop i =>
    simp only [iStep, iPop, pPop]
    cases hn : normIndex l.length i with
    | none => exact acc_refl l
    | some k =>
      have hk := normIndex_some hn
      simp only [List.getElem?_eq_getElem hk]
      exact acc_eraseIdx (List.getElem?_eq_getElem hk)
  | clear =>
    show Accounts l (l.map .rem) []
    unfold Accounts; rw [apps_map_rem, rems_map_rem]; simp
  | extend v =>
    simp only [iStep, iExtend]
    cases v.kind
    · show Accounts l (v.elems.map .app) (l ++ v.elems)
      unfold Accounts; rw [apps_map_app, rems_map_app]; simp
    · show Accounts l (v.elems.map .app) (l ++ v.elems)
      unfold Accounts; rw [apps_map_app, rems_map_app]; simp
    · show Accounts l (l.map .app) (l ++ l)
      unfold Accounts; rw [apps_map_app, rems_map_app]; simp
    · exact acc_refl l
  | setslice s v =>
    have hg' : ContentsGuard l (.setslice s v) := hg
    simp only [ContentsGuard] at hg'
    simp only [iStep]
    cases hs : sliceIndices l.length s with
    | none => unfold iSetSlice; rw [hs]; exact acc_refl l
    | some t =>
      obtain ⟨start, stop, step⟩ := t
      rw [hs] at hg'
      simp only at hg'
      by_cases h1 : step = 1
      · subst h1
        simp only [if_true] at hg'
        by_cases hv : v.kind = .nonIter
        · have hn : (stop - start).toNat = 0 := by
            rcases hg' with hg' | hg'
            · exact absurd hv hg'
            · exact hg'
          unfold iSetSlice
          rw [hs]
          simp only [beq_self_eq_true, if_true, hv]
          rw [rangeLen_step1, hn]
          simp [delLoop]
          exact acc_refl l
        · obtain ⟨hi, _⟩ := setslice_step1_spec l s v start stop hs hv
          rw [hi]
          simp only
          obtain ⟨_, hpos, _⟩ := sliceIndices_bounds hs
          obtain ⟨b1, b2, b3, b4⟩ := hpos (by omega)
          split
          · -- full self-slice: contents unchanged, no events
            rename_i hfull
            simp only [Bool.and_eq_true, beq_iff_eq, decide_eq_true_eq] at hfull
            obtain ⟨⟨hk, hs0⟩, hst⟩ := hfull
            have a0 : start.toNat = 0 := by omega
            have hn : (stop - start).toNat = l.length := by
              have : stop = l.length := by omega
              rw [this, hs0]; simp
            have hvi : valueItems l v = l := by unfold valueItems; simp [hk]
            rw [a0, hn, hvi]
            simp only [List.take_zero, List.nil_append, Nat.zero_add, List.drop_length,
              List.append_nil]
            exact acc_refl l
          · unfold Accounts
            rw [apps_append, rems_append, apps_map_rem, rems_map_rem, apps_map_app, rems_map_app]
            simp only [List.nil_append, List.append_nil]
            -- l ++ xs  ~  (take a ++ xs ++ drop (a+n)) ++ take n (drop a)
            have hl : l = l.take start.toNat ++ ((l.drop start.toNat).take (stop - start).toNat
                ++ l.drop (start.toNat + (stop - start).toNat)) := by
              conv => lhs; rw [← List.take_append_drop start.toNat l]
              congr 1
              conv => lhs; rw [← List.take_append_drop (stop - start).toNat (l.drop start.toNat)]
              rw [List.drop_drop]
            generalize valueItems l v = X
            conv => lhs; rw [hl]
            generalize l.take start.toNat = A
            generalize (l.drop start.toNat).take (stop - start).toNat = B
            generalize l.drop (start.toNat + (stop - start).toNat) = C
            -- (A ++ (B ++ C)) ++ X ~ (A ++ X ++ C) ++ B
            have p1 : ((A ++ (B ++ C)) ++ X).Perm (A ++ (B ++ (C ++ X))) := by simp
            have p2 : (A ++ X ++ C ++ B).Perm (A ++ (X ++ (C ++ B))) := by simp
            refine p1.trans (List.Perm.trans ?_ p2.symm)
            refine List.Perm.append_left A ?_
            -- B ++ (C ++ X) ~ X ++ (C ++ B)
            have q1 : (B ++ (C ++ X)).Perm ((C ++ X) ++ B) := List.perm_append_comm
            have q2 : ((C ++ X) ++ B).Perm ((X ++ C) ++ B) :=
              List.Perm.append_right B List.perm_append_comm
            exact (q1.trans q2).trans (by simp)
      · rw [if_neg h1] at hg'
        have hb : (step == 1) = false := by simpa using h1
        unfold iSetSlice
        rw [hs]
        simp only [hb, Bool.false_eq_true, if_false]
        rcases hg' with hk | hk | hk
        · simp only [hk]
          by_cases hlen : (v.elems.length != (rangeList start stop step).length) = true
          · rw [if_pos hlen]; exact acc_refl l
          · rw [if_neg hlen]
            obtain ⟨ev', he, hacc⟩ := extLoop_spec (rangeList start stop step) v.elems l []
              (rangeList_valid hs)
            rw [he]
            simpa using hacc
        · simp only [hk]
          by_cases hlen : (l.length != (rangeList start stop step).length) = true
          · rw [if_pos hlen]; exact acc_refl l
          · rw [if_neg hlen]
            obtain ⟨ev', he, hacc⟩ := extLoop_spec (rangeList start stop step) l l []
              (rangeList_valid hs)
            rw [he]
            simpa using hacc
        · simp only [hk]
          exact acc_refl l
  | delslice s => exact iDelSlice_accounts l s
  | imul n =>
    have hn : n = 1 := hg
    subst hn
    show Accounts l [] (pImul l 1)
    have : pImul l 1 = l := by simp [pImul]
    rw [this]; exact acc_refl l
  | reverse =>
    show Accounts l [] l.reverse
    unfold Accounts; simp [apps, rems]
    exact (List.reverse_perm l).symm

/-- `del l[slice]` for ANY start/stop/step: the events are one remove per item of `l[slice]`
    and those are exactly the items the deletion takes out (the positions of
    `range(*slice.indices(len))` are distinct and valid) -/
theorem delslice_events_are_the_slice (l : List Item) (s : Slice) :
    Accounts l (iDelSlice l s).events (iDelSlice l s).items ∧
    (∀ items l', pGetSlice l s = .ok items → pDelSlice l s = .ok l' →
      iDelSlice l s = ⟨l', items.map .rem, .none⟩) := by
  refine ⟨iDelSlice_accounts l s, ?_⟩
  intro items l' h1 h2
  unfold iDelSlice; rw [h1, h2]

/-! ## operation sequences -/

def AllGuarded : List Item → List LOp → Prop
  | _, [] => True
  | l, op :: ops => ContentsGuard l op ∧ AllGuarded (pStep l op).1 ops

/-- **instrumented_list_sequence_refines_list_partial**: along any operation sequence whose steps
    stay inside the guard, the instrumented list and the builtin list go through the same
    states and produce the same return values / exceptions (induction over the sequence) -/
theorem instrumented_list_sequence_refines_list_partial (ops : List LOp) : ∀ (l : List Item),
    AllGuarded l ops →
    (iRun l ops).map (fun r => (r.items, r.ret)) = pRun l ops := by
  induction ops with
  | nil => intro l _; rfl
  | cons op ops ih =>
    intro l hg
    obtain ⟨h1, h2⟩ := hg
    obtain ⟨hi, hr⟩ := instrumented_list_refines_list_partial l op h1
    simp only [iRun, pRun, List.map_cons]
    rw [hi, hr, ih _ h2]

def AllEventsGuarded : List Item → List LOp → Prop
  | _, [] => True
  | l, op :: ops => EventsGuard l op ∧ AllEventsGuarded (iStep l op).items ops

/-- all events fired along a sequence, in order -/
def allEvents : List Res → List Event
  | [] => []
  | r :: rs => r.events ++ allEvents rs

def lastItems (l : List Item) (rs : List Res) : List Item :=
  match rs.getLast? with
  | some r => r.items
  | none => l

theorem lastItems_cons (l : List Item) (r : Res) (rs : List Res) :
    lastItems l (r :: rs) = lastItems r.items rs := by
  cases rs with
  | nil => rfl
  | cons h t => unfold lastItems; rw [List.getLast?_cons_cons]; simp [List.getLast?_cons]

/-- **instrumented_list_history_events_account_partial**: over a whole operation history the
    initial contents plus every item ever appended equal the final contents plus every item
    ever removed (multisets) — by induction over the history -/
theorem instrumented_list_history_events_account_partial (ops : List LOp) : ∀ (l : List Item),
    AllEventsGuarded l ops →
    Accounts l (allEvents (iRun l ops)) (lastItems l (iRun l ops)) := by
  induction ops with
  | nil => intro l _; exact acc_refl l
  | cons op ops ih =>
    intro l hg
    obtain ⟨h1, h2⟩ := hg
    have a1 := instrumented_list_events_account_partial l op h1
    have a2 := ih (iStep l op).items h2
    simp only [iRun, allEvents]
    rw [lastItems_cons]
    exact acc_trans a1 a2

/-! ## the excluded regions are real: counterexamples (each replayed on the real code) -/

/-- sensitivity (G1, fixed): the unguarded `remove` of the code before the fix fires a remove
    event for an item that was never in the collection (`[0].remove(1)`) -/
theorem remove_unguarded_counterexample :
    ∃ (l : List Item) (x : Item), (iRemoveUnguarded l x).ret = .err .valueError ∧
      ¬ Accounts l (iRemoveUnguarded l x).events (iRemoveUnguarded l x).items := by
  refine ⟨[0], 1, by decide, ?_⟩
  intro h
  have := h.length_eq
  revert this
  decide

/-- G3: `[0,1][0:2] = 5` — the builtin list is untouched, the instrumented one is emptied -/
theorem setslice_noniterable_counterexample :
    ∃ (l : List Item) (s : Slice), (pStep l (.setslice s ⟨.nonIter, []⟩)).1 = l ∧
      (iStep l (.setslice s ⟨.nonIter, []⟩)).items ≠ l := by
  exact ⟨[0, 1], ⟨some 0, some 2, none⟩, by decide, by decide⟩

/-- G4: `[0,1,2][::2] = iter([7,8])` works on a list, TypeError on the instrumented list -/
theorem extslice_iterator_counterexample :
    ∃ (l : List Item) (s : Slice) (v : Val), v.kind = .iter ∧
      (pStep l (.setslice s v)).2 = .none ∧ (iStep l (.setslice s v)).ret = .err .typeError := by
  exact ⟨[0, 1, 2], ⟨none, none, some 2⟩, ⟨.iter, [7, 8]⟩, rfl, by decide, by decide⟩

/-- the extended-slice loop as it was before the G2' fix: the k-th item is read from the live
    list while it is being written -/
def extLoopSelfOld : List Int → Nat → List Item → List Event → Res
  | i :: is, k, l, ev =>
    match l[k]? with
    | none => ⟨l, ev, .none⟩
    | some x =>
      let r := iSetItem l i x
      match r.ret with
      | .err e => ⟨r.items, ev ++ r.events, .err e⟩
      | _ => extLoopSelfOld is (k + 1) r.items (ev ++ r.events)
  | [], _, l, ev => ⟨l, ev, .none⟩

/-- sensitivity (G2', fixed): without the snapshot `l = [0,1]; l[::-1] = l` gives `[0,0]`
    where the list gives `[1,0]` -/
theorem extslice_self_unfixed_counterexample :
    (extLoopSelfOld (rangeList 1 (-1) (-1)) 0 [0, 1] []).items = [0, 0] ∧
      (pStep [0, 1] (.setslice ⟨none, none, some (-1)⟩ ⟨.self, []⟩)).1 = [1, 0] ∧
      (iStep [0, 1] (.setslice ⟨none, none, some (-1)⟩ ⟨.self, []⟩)).items = [1, 0] := by
  decide

/-- G5: `[0] *= 2` adds an item without any event -/
theorem imul_counterexample :
    ∃ (l : List Item) (n : Int), ¬ Accounts l (iStep l (.imul n)).events (iStep l (.imul n)).items := by
  refine ⟨[0], 2, ?_⟩
  intro h
  have := h.length_eq
  revert this
  decide

/-- sensitivity: the slice normalisation that was in the code before the F5 fix
    (`start = index.start or 0; if start < 0: start += len`) leaves the valid range -/
def oldStart (len : Nat) (start : Option Int) : Int :=
  let s := start.getD 0
  if s < 0 then s + len else s

theorem old_normalisation_counterexample :
    ∃ (len : Nat) (start : Option Int), oldStart len start < 0 ∧
      ∀ stop step a b c, sliceIndices len ⟨start, stop, step⟩ = some (a, b, c) → 0 < c → 0 ≤ a := by
  refine ⟨5, some (-7), by decide, ?_⟩
  intro stop step a b c h hc
  exact ((sliceIndices_bounds h).2.1 hc).1

/-! ## non-vacuity -/
example : ContentsGuard [0, 1, 2, 3, 4] (.setslice ⟨some (-7), some 2, none⟩ ⟨.sized, [9]⟩) := by
  simp [ContentsGuard, sliceIndices, adjust]
example : (iStep [0, 1, 2, 3, 4] (.setslice ⟨some (-7), some 2, none⟩ ⟨.sized, [9]⟩))
    = ⟨[9, 2, 3, 4], [.rem 0, .rem 1, .app 9], .none⟩ := by decide
example : (iStep [0, 1, 2, 3, 4] (.setslice ⟨none, none, some (-2)⟩ ⟨.sized, [7, 8, 9]⟩)).items
    = [9, 1, 8, 3, 7] := by decide
example : (iStep [0, 1, 2] (.setslice ⟨some 1, some 3, none⟩ ⟨.self, []⟩)).items
    = [0, 0, 1, 2] := by decide
example : AllGuarded [0, 1] [.append 2, .setslice ⟨some 5, some 1, none⟩ ⟨.iter, [3]⟩, .pop (-1)] := by
  refine ⟨trivial, ?_, trivial, trivial⟩
  simp [ContentsGuard, sliceIndices, adjust, pStep]
example : EventsGuard [0, 1] (.remove 7) := by simp [EventsGuard, ContentsGuard]

/-! # instrumented set -/
open SaVerif.PySeq.SetI

/-- the facts proved about one instrumented-set operation that succeeds on the builtin set -/
structure SetOk (s s' : List Item) (r : Res) : Prop where
  members : ∀ x, x ∈ r.items ↔ x ∈ s'
  nodup : r.items.Nodup
  noError : ∀ e, r.ret ≠ .err e
  exact : ExactEvents s r

theorem setOk_of_loop {s s' : List Item} {r : Res} (hr : r.ret = .none)
    (hl : Loop s r.items r.events) (hm : ∀ x, x ∈ r.items ↔ x ∈ s') : SetOk s s' r :=
  ⟨hm, hl.nodup, by intro e; rw [hr]; simp, exact_of_loop hl⟩

theorem set_update_ok {s : List Item} (hs : s.Nodup) (v : Val) (s' : List Item)
    (h : (match v.kind with | .nonIter => none | .self => some s | _ => some (sUnion s v.elems)) = some s') :
    SetOk s s' (SetI.update s v) := by
  unfold SetI.update
  cases hk : v.kind <;> rw [hk] at h <;> simp only at h
  · cases h
    obtain ⟨a, b, c⟩ := each_add v.elems s s [] (loop_start hs) (fun _ _ h => h)
    exact setOk_of_loop a b (fun x => by rw [c, mem_sUnion])
  · cases h
    obtain ⟨a, b, c⟩ := each_add v.elems s s [] (loop_start hs) (fun _ _ h => h)
    exact setOk_of_loop a b (fun x => by rw [c, mem_sUnion])
  · cases h
    obtain ⟨a, b, c⟩ := each_add s s s [] (loop_start hs) (fun _ _ h => h)
    exact setOk_of_loop a b (fun x => by rw [c]; simp)
  · cases h

theorem set_diffUpdate_ok {s : List Item} (hs : s.Nodup) (v : Val) (s' : List Item)
    (h : (match v.kind with | .nonIter => none | .self => some [] | _ => some (sDiff s v.elems)) = some s') :
    SetOk s s' (SetI.diffUpdate s v) := by
  unfold SetI.diffUpdate
  cases hk : v.kind <;> rw [hk] at h <;> simp only at h
  · cases h
    obtain ⟨a, b, c⟩ := each_discard v.elems s s [] (loop_start hs) (fun _ _ h => h)
    exact setOk_of_loop a b (fun x => by rw [c, mem_sDiff])
  · cases h
    obtain ⟨a, b, c⟩ := each_discard v.elems s s [] (loop_start hs) (fun _ _ h => h)
    exact setOk_of_loop a b (fun x => by rw [c, mem_sDiff])
  · cases h
    obtain ⟨a, b, c⟩ := each_discard s s s [] (loop_start hs) (fun _ _ h => h)
    exact setOk_of_loop a b (fun x => by rw [c]; simp)
  · cases h

theorem set_interUpdate_ok {s : List Item} (hs : s.Nodup) (v : Val) (s' : List Item)
    (h : (match v.kind with | .nonIter => none | .self => some s | _ => some (sInter s v.elems)) = some s') :
    SetOk s s' (SetI.interUpdate s v) := by
  unfold SetI.interUpdate
  cases hk : v.kind <;> rw [hk] at h <;> simp only at h
  · cases h
    obtain ⟨a, b, c⟩ := wantHave_spec hs (nodup_filter' (fun x => v.elems.contains x) hs)
    exact setOk_of_loop a b c
  · cases h
    obtain ⟨a, b, c⟩ := wantHave_spec hs (nodup_filter' (fun x => v.elems.contains x) hs)
    exact setOk_of_loop a b c
  · cases h
    obtain ⟨a, b, c⟩ := wantHave_spec hs hs
    exact setOk_of_loop a b c
  · cases h

theorem set_symDiffUpdate_ok {s : List Item} (hs : s.Nodup) (v : Val) (s' : List Item)
    (h : (match v.kind with | .nonIter => none | .self => some [] | _ => some (sSymDiff s v.elems)) = some s') :
    SetOk s s' (SetI.symDiffUpdate s v) := by
  unfold SetI.symDiffUpdate
  cases hk : v.kind <;> rw [hk] at h <;> simp only at h
  · cases h
    obtain ⟨a, b, c⟩ := wantHave_spec hs (nodup_sSymDiff hs v.elems)
    exact setOk_of_loop a b c
  · cases h
    obtain ⟨a, b, c⟩ := wantHave_spec hs (nodup_sSymDiff hs v.elems)
    exact setOk_of_loop a b c
  · cases h
    obtain ⟨a, b, c⟩ := wantHave_spec hs (List.nodup_nil)
    exact setOk_of_loop a b c
  · cases h

/-- **instrumented_set_refines_set**: whenever the builtin set operation succeeds, the
    instrumented operation ends with exactly the same members, raises nothing, and fires
    exactly one append event per new member and one remove event per lost member (no event
    for members that stay) — for every operation, every argument (any iterable with
    duplicates, the set itself), every set size.  FULL theorem (no guard). -/
theorem instrumented_set_refines_set (s : List Item) (hs : s.Nodup) (op : SOp) (s' : List Item)
    (h : sPlain s op = some s') : SetOk s s' (sStep s op) := by
  cases op with
  | add x =>
    simp only [sPlain, Option.some.injEq] at h
    subst h
    have hl := loop_add (loop_start hs) x (fun h => h)
    simp only [List.nil_append] at hl
    exact setOk_of_loop (add_ret s x) hl
      (fun y => by show y ∈ (SetI.add s x).items ↔ _; rw [mem_add_items, mem_sAdd])
  | discard x =>
    simp only [sPlain, Option.some.injEq] at h
    subst h
    have hl := loop_discard (loop_start hs) x (fun h => h)
    simp only [List.nil_append] at hl
    exact setOk_of_loop (discard_ret s x) hl
      (fun y => by
        show y ∈ (SetI.discard s x).items ↔ _
        rw [mem_discard_items hs, hs.mem_erase_iff]; exact And.comm)
  | remove x =>
    simp only [sPlain] at h
    by_cases hx : x ∈ s
    · rw [if_pos (List.contains_iff_mem.2 hx)] at h
      cases h
      have hl := loop_discard (loop_start hs) x (fun h => h)
      simp only [List.nil_append] at hl
      show SetOk s (s.erase x) (SetI.remove s x)
      rw [remove_eq_discard hx]
      exact setOk_of_loop (discard_ret s x) hl
        (fun y => by rw [mem_discard_items hs, hs.mem_erase_iff]; exact And.comm)
    · have hc : s.contains x = false := by simpa using hx
      rw [hc] at h; cases h
  | pop p =>
    cases p with
    | none => simp [sPlain] at h
    | some x =>
      simp only [sPlain] at h
      by_cases hx : x ∈ s
      · rw [if_pos (List.contains_iff_mem.2 hx)] at h
        cases h
        have hl := loop_discard (loop_start hs) x (fun h => h)
        simp only [List.nil_append] at hl
        have hne : s.isEmpty = false := by
          cases s with
          | nil => cases hx
          | cons a t => rfl
        have hd : SetI.discard s x = ⟨s.erase x, [.rem x], .none⟩ := by
          unfold SetI.discard; rw [if_pos (List.contains_iff_mem.2 hx)]
        have hp : sStep s (.pop (some x)) = ⟨s.erase x, [.rem x], .val x⟩ := by
          simp only [sStep, SetI.pop, hne, Bool.false_eq_true, if_false,
            List.contains_iff_mem.2 hx, if_true]
        rw [hp]
        rw [hd] at hl
        exact ⟨fun y => Iff.rfl, hs.erase x, by intro e; simp, exact_of_loop hl⟩
      · have hc : s.contains x = false := by simpa using hx
        rw [hc] at h; cases h
  | clear =>
    simp only [sPlain, Option.some.injEq] at h
    subst h
    obtain ⟨a, b, c⟩ := each_remove s s s [] (loop_start hs) hs (fun x hx => ⟨hx, hx⟩)
    exact setOk_of_loop a b (fun x => by show x ∈ (each SetI.remove s s []).items ↔ _; rw [c]; simp)
  | update v => exact set_update_ok hs v s' h
  | diffUpdate v => exact set_diffUpdate_ok hs v s' h
  | interUpdate v => exact set_interUpdate_ok hs v s' h
  | symDiffUpdate v => exact set_symDiffUpdate_ok hs v s' h
  | ior strict v =>
    cases strict with
    | false => simp [sPlain] at h
    | true => exact set_update_ok hs v s' h
  | isub strict v =>
    cases strict with
    | false => simp [sPlain] at h
    | true => exact set_diffUpdate_ok hs v s' h
  | iand strict v =>
    cases strict with
    | false => simp [sPlain] at h
    | true => exact set_interUpdate_ok hs v s' h
  | ixor strict v =>
    cases strict with
    | false => simp [sPlain] at h
    | true => exact set_symDiffUpdate_ok hs v s' h

/-- when the builtin operation raises, the instrumented one raises too, having changed
    nothing and fired nothing -/
theorem instrumented_set_raises_like_set (s : List Item) (op : SOp) (h : sPlain s op = none) :
    (sStep s op).items = s ∧ (sStep s op).events = [] ∧ ∃ e, (sStep s op).ret = .err e := by
  cases op with
  | add x => simp [sPlain] at h
  | discard x => simp [sPlain] at h
  | remove x =>
    simp only [sPlain] at h
    by_cases hx : s.contains x = true
    · rw [if_pos hx] at h; cases h
    · simp only [sStep, SetI.remove, hx, Bool.false_eq_true, if_false]
      first | exact ⟨rfl, rfl, _, rfl⟩ | simp
  | pop p =>
    simp only [sStep, SetI.pop]
    by_cases he : s.isEmpty = true
    · rw [if_pos he]; exact ⟨rfl, rfl, _, rfl⟩
    · rw [if_neg he]
      cases p with
      | none => exact ⟨rfl, rfl, _, rfl⟩
      | some x =>
        simp only [sPlain] at h
        by_cases hx : s.contains x = true
        · rw [if_pos hx] at h; cases h
        · simp only [hx, Bool.false_eq_true, if_false]
          first | exact ⟨rfl, rfl, _, rfl⟩ | simp
  | clear => simp [sPlain] at h
  | update v =>
    simp only [sPlain] at h
    simp only [sStep, SetI.update]
    cases hk : v.kind <;> rw [hk] at h <;> (try simp only at h) <;> simp only <;>
        first | exact ⟨rfl, rfl, _, rfl⟩ | exact ⟨trivial, trivial, _, rfl⟩ | cases h
  | diffUpdate v =>
    simp only [sPlain] at h
    simp only [sStep, SetI.diffUpdate]
    cases hk : v.kind <;> rw [hk] at h <;> (try simp only at h) <;> simp only <;>
        first | exact ⟨rfl, rfl, _, rfl⟩ | exact ⟨trivial, trivial, _, rfl⟩ | cases h
  | interUpdate v =>
    simp only [sPlain] at h
    simp only [sStep, SetI.interUpdate]
    cases hk : v.kind <;> rw [hk] at h <;> (try simp only at h) <;> simp only <;>
        first | exact ⟨rfl, rfl, _, rfl⟩ | exact ⟨trivial, trivial, _, rfl⟩ | cases h
  | symDiffUpdate v =>
    simp only [sPlain] at h
    simp only [sStep, SetI.symDiffUpdate]
    cases hk : v.kind <;> rw [hk] at h <;> (try simp only at h) <;> simp only <;>
        first | exact ⟨rfl, rfl, _, rfl⟩ | exact ⟨trivial, trivial, _, rfl⟩ | cases h
  | ior strict v =>
    cases strict with
    | false => exact ⟨rfl, rfl, _, rfl⟩
    | true =>
      simp only [sPlain] at h
      simp only [sStep, if_true, SetI.update]
      cases hk : v.kind <;> rw [hk] at h <;> (try simp only at h) <;> simp only <;>
        first | exact ⟨rfl, rfl, _, rfl⟩ | exact ⟨trivial, trivial, _, rfl⟩ | cases h
  | isub strict v =>
    cases strict with
    | false => exact ⟨rfl, rfl, _, rfl⟩
    | true =>
      simp only [sPlain] at h
      simp only [sStep, if_true, SetI.diffUpdate]
      cases hk : v.kind <;> rw [hk] at h <;> (try simp only at h) <;> simp only <;>
        first | exact ⟨rfl, rfl, _, rfl⟩ | exact ⟨trivial, trivial, _, rfl⟩ | cases h
  | iand strict v =>
    cases strict with
    | false => exact ⟨rfl, rfl, _, rfl⟩
    | true =>
      simp only [sPlain] at h
      simp only [sStep, if_true, SetI.interUpdate]
      cases hk : v.kind <;> rw [hk] at h <;> (try simp only at h) <;> simp only <;>
        first | exact ⟨rfl, rfl, _, rfl⟩ | exact ⟨trivial, trivial, _, rfl⟩ | cases h
  | ixor strict v =>
    cases strict with
    | false => exact ⟨rfl, rfl, _, rfl⟩
    | true =>
      simp only [sPlain] at h
      simp only [sStep, if_true, SetI.symDiffUpdate]
      cases hk : v.kind <;> rw [hk] at h <;> (try simp only at h) <;> simp only <;>
        first | exact ⟨rfl, rfl, _, rfl⟩ | exact ⟨trivial, trivial, _, rfl⟩ | cases h

example : (sStep [1, 2, 3] (.symDiffUpdate ⟨.sized, [3, 4, 4]⟩)) = ⟨[1, 2, 4], [.rem 3, .app 4], .none⟩ := by
  decide
example : sPlain [1, 2, 3] (.symDiffUpdate ⟨.sized, [3, 4, 4]⟩) = some [1, 2, 4] := by decide

/-! ## set histories -/

def SameSet (a b : List Item) : Prop := ∀ x, x ∈ a ↔ x ∈ b

theorem contains_congr {a b : List Item} (h : SameSet a b) (x : Item) : a.contains x = b.contains x := by
  rw [Bool.eq_iff_iff, List.contains_iff_mem, List.contains_iff_mem]; exact h x

/-- the builtin set operation only depends on the members, and keeps a set a set -/
theorem sPlain_congr {s t : List Item} (hs : s.Nodup) (ht : t.Nodup) (h : SameSet s t) (op : SOp) :
    (sPlain s op = none ↔ sPlain t op = none) ∧
    ∀ a b, sPlain s op = some a → sPlain t op = some b → SameSet a b ∧ b.Nodup := by
  have valcase : ∀ (v : Val) (f : List Item → List Item → List Item) (selfS selfT : List Item),
      (∀ y, SameSet (f s y) (f t y)) → (∀ y, (f t y).Nodup) → SameSet selfS selfT → selfT.Nodup →
      ((match v.kind with | .nonIter => (none : Option (List Item)) | .self => some selfS | _ => some (f s v.elems)) = none ↔
       (match v.kind with | .nonIter => (none : Option (List Item)) | .self => some selfT | _ => some (f t v.elems)) = none) ∧
      ∀ a b, (match v.kind with | .nonIter => (none : Option (List Item)) | .self => some selfS | _ => some (f s v.elems)) = some a →
        (match v.kind with | .nonIter => (none : Option (List Item)) | .self => some selfT | _ => some (f t v.elems)) = some b →
        SameSet a b ∧ b.Nodup := by
    intro v f selfS selfT hf hn hself hselfn
    cases v.kind <;> simp only
    · exact ⟨by simp, fun a b ha hb => by cases ha; cases hb; exact ⟨hf _, hn _⟩⟩
    · exact ⟨by simp, fun a b ha hb => by cases ha; cases hb; exact ⟨hf _, hn _⟩⟩
    · exact ⟨by simp, fun a b ha hb => by cases ha; cases hb; exact ⟨hself, hselfn⟩⟩
    · exact ⟨by simp, fun a b ha _ => by cases ha⟩
  have eraseS : ∀ x, SameSet (s.erase x) (t.erase x) := by
    intro x y; rw [hs.mem_erase_iff, ht.mem_erase_iff, h y]
  have hU := fun v => valcase v sUnion s t (fun y x => by rw [mem_sUnion, mem_sUnion, h x])
    (fun y => nodup_sUnion ht y) h ht
  have hD := fun v => valcase v sDiff [] [] (fun y x => by rw [mem_sDiff, mem_sDiff, h x])
    (fun y => nodup_filter' _ ht) (fun _ => Iff.rfl) List.nodup_nil
  have hI := fun v => valcase v sInter s t (fun y x => by rw [mem_sInter, mem_sInter, h x])
    (fun y => nodup_filter' _ ht) h ht
  have hX := fun v => valcase v sSymDiff [] [] (fun y x => by rw [mem_sSymDiff, mem_sSymDiff, h x])
    (fun y => nodup_sSymDiff ht y) (fun _ => Iff.rfl) List.nodup_nil
  cases op with
  | add x =>
    refine ⟨by simp [sPlain], ?_⟩
    intro a b ha hb
    simp only [sPlain, Option.some.injEq] at ha hb
    subst ha; subst hb
    exact ⟨fun y => by rw [mem_sAdd, mem_sAdd, h y], nodup_sAdd ht⟩
  | discard x =>
    refine ⟨by simp [sPlain], ?_⟩
    intro a b ha hb
    simp only [sPlain, Option.some.injEq] at ha hb
    subst ha; subst hb
    exact ⟨eraseS x, ht.erase x⟩
  | remove x =>
    simp only [sPlain, contains_congr h x]
    by_cases hx : t.contains x = true
    · simp only [hx, if_true]
      exact ⟨by simp, fun a b ha hb => by cases ha; cases hb; exact ⟨eraseS x, ht.erase x⟩⟩
    · simp only [hx]
      exact ⟨by simp, fun a b ha _ => by simp at ha⟩
  | pop p =>
    cases p with
    | none => exact ⟨by simp [sPlain], fun a b ha _ => by simp [sPlain] at ha⟩
    | some x =>
      simp only [sPlain, contains_congr h x]
      by_cases hx : t.contains x = true
      · simp only [hx, if_true]
        exact ⟨by simp, fun a b ha hb => by cases ha; cases hb; exact ⟨eraseS x, ht.erase x⟩⟩
      · simp only [hx]
        exact ⟨by simp, fun a b ha _ => by simp at ha⟩
  | clear =>
    exact ⟨by simp [sPlain], fun a b ha hb => by
      simp only [sPlain, Option.some.injEq] at ha hb; subst ha; subst hb
      exact ⟨fun _ => Iff.rfl, List.nodup_nil⟩⟩
  | update v => exact hU v
  | diffUpdate v => exact hD v
  | interUpdate v => exact hI v
  | symDiffUpdate v => exact hX v
  | ior strict v =>
    cases strict with
    | false => exact ⟨by simp [sPlain], fun a b ha _ => by simp [sPlain] at ha⟩
    | true => exact hU v
  | isub strict v =>
    cases strict with
    | false => exact ⟨by simp [sPlain], fun a b ha _ => by simp [sPlain] at ha⟩
    | true => exact hD v
  | iand strict v =>
    cases strict with
    | false => exact ⟨by simp [sPlain], fun a b ha _ => by simp [sPlain] at ha⟩
    | true => exact hI v
  | ixor strict v =>
    cases strict with
    | false => exact ⟨by simp [sPlain], fun a b ha _ => by simp [sPlain] at ha⟩
    | true => exact hX v

def sPlainRun (s : List Item) : List SOp → List Item
  | [] => s
  | op :: ops => sPlainRun ((sPlain s op).getD s) ops

def sFinal (s : List Item) (ops : List SOp) : List Item := ops.foldl (fun s op => (sStep s op).items) s

/-- **instrumented_set_history_refines_set**: after ANY operation history the instrumented set
    has exactly the members of the builtin set driven by the same history -/
theorem instrumented_set_history_refines_set (ops : List SOp) : ∀ (s t : List Item),
    s.Nodup → t.Nodup → SameSet s t → SameSet (sFinal s ops) (sPlainRun t ops) := by
  induction ops with
  | nil => intro s t _ _ h; exact h
  | cons op ops ih =>
    intro s t hs ht h
    obtain ⟨hnone, hsome⟩ := sPlain_congr hs ht h op
    show SameSet (sFinal (sStep s op).items ops) (sPlainRun ((sPlain t op).getD t) ops)
    cases hp : sPlain s op with
    | none =>
      have hq := hnone.1 hp
      obtain ⟨h1, _, _⟩ := instrumented_set_raises_like_set s op hp
      rw [hq, h1]
      exact ih s t hs ht h
    | some a =>
      have ok := instrumented_set_refines_set s hs op a hp
      cases hq : sPlain t op with
      | none => rw [hnone.2 hq] at hp; cases hp
      | some b =>
        obtain ⟨hab, hb⟩ := hsome a b hp hq
        simp only [Option.getD_some]
        exact ih _ _ ok.nodup hb (fun x => (ok.members x).trans (hab x))

/-! # instrumented dict (InstrumentedDict / KeyFuncDict) -/

/-- the facts proved about one instrumented-dict operation that succeeds on the builtin dict -/
structure DictOk (d d' : Dict) (r : DRes) : Prop where
  items : r.items = d'
  noError : ∀ e, r.ret ≠ .err e
  acc : Accounts (dVals d) r.events (dVals d')
  wf : DWf d'

theorem dict_setitem_ok {d : Dict} (hw : DWf d) (k : Key) (v : Item) :
    (DictI.setitem d k v).items = dSet d k v ∧ (DictI.setitem d k v).ret = .none ∧
    Accounts (dVals d) (DictI.setitem d k v).events (dVals (dSet d k v)) ∧ DWf (dSet d k v) := by
  obtain ⟨w, hs, hn⟩ := acc_dSet hw k v
  unfold DictI.setitem
  cases hg : dGet d k with
  | none => exact ⟨rfl, rfl, hn hg, w⟩
  | some old => exact ⟨rfl, rfl, hs old hg, w⟩

theorem dict_delitem_ok {d : Dict} (hw : DWf d) {k : Key} {old : Item} (hg : dGet d k = some old) :
    DictI.delitem d k = ⟨dDel d k, [.rem old], .none⟩ := by
  unfold DictI.delitem; rw [hg]

/-- the `update` loop: contents follow `dict.update`, events stay accounted -/
theorem dict_update_loop (o : Dict) : ∀ (d0 d : Dict) (ev : List Event), DWf d →
    Accounts (dVals d0) ev (dVals d) →
    let r := o.foldl (fun (r : DRes) e =>
      if dGet r.items e.1 == some e.2 then r
      else let r' := DictI.setitem r.items e.1 e.2; ⟨r'.items, r.events ++ r'.events, .none⟩)
      (⟨d, ev, .none⟩ : DRes)
    r.items = dUpdate d o ∧ r.ret = .none ∧ Accounts (dVals d0) r.events (dVals r.items) ∧
      DWf r.items := by
  induction o with
  | nil => intro d0 d ev hw ha; exact ⟨rfl, rfl, ha, hw⟩
  | cons e o ih =>
    intro d0 d ev hw ha
    simp only [List.foldl_cons]
    by_cases hsame : (dGet d e.1 == some e.2) = true
    · rw [if_pos hsame]
      have hg : dGet d e.1 = some e.2 := by simpa using hsame
      have := ih d0 d ev hw ha
      have hu : dUpdate d (e :: o) = dUpdate d o := by
        show dUpdate (dSet d e.1 e.2) o = _
        rw [dSet_same hw hg]
      rw [hu]; exact this
    · rw [if_neg hsame]
      obtain ⟨h1, _, h3, h4⟩ := dict_setitem_ok hw e.1 e.2
      rw [h1]
      have := ih d0 (dSet d e.1 e.2) (ev ++ (DictI.setitem d e.1 e.2).events) h4 (acc_trans ha h3)
      exact this

theorem dict_update_ok {d : Dict} (hw : DWf d) (o : Dict) :
    DictOk d (dUpdate d o) (DictI.update d o) := by
  obtain ⟨a, b, c, e⟩ := dict_update_loop o d d [] hw (acc_refl _)
  unfold DictI.update
  refine ⟨a, by intro x; rw [b]; simp, ?_, ?_⟩
  · rw [← a]; exact c
  · rw [← a]; exact e

theorem dGet_last {pre : Dict} {k : Key} {v : Item} (hw : DWf (pre ++ [(k, v)])) :
    dGet (pre ++ [(k, v)]) k = some v := by
  induction pre with
  | nil => simp [dGet_cons]
  | cons e pre ih =>
    obtain ⟨he, hwd⟩ := wf_cons hw
    rw [List.cons_append, dGet_cons]
    have : ¬ e.1 = k := by
      intro h; apply he; simp [dKeys, h]
    rw [if_neg this]
    exact ih hwd

/-- **instrumented_dict_refines_dict**: whenever the builtin dict operation succeeds the
    instrumented dict ends with the same items in the same order, raises nothing, and its
    events account exactly for the values that entered and left — for `__setitem__`,
    `__delitem__`, `clear`, `pop`, `popitem`, `setdefault`, `update` (mapping / pairs /
    keywords), `|=`, `KeyFuncDict.set` and `.remove`, any dict size.  FULL theorem. -/
theorem instrumented_dict_refines_dict (d : Dict) (hw : DWf d) (op : DOp) (d' : Dict)
    (h : dPlain d op = some d') : DictOk d d' (dStep d op) := by
  cases op with
  | setitem k v =>
    simp only [dPlain, Option.some.injEq] at h
    subst h
    obtain ⟨a, b, c, e⟩ := dict_setitem_ok hw k v
    exact ⟨a, by intro x; show (DictI.setitem d k v).ret ≠ _; rw [b]; simp, c, e⟩
  | delitem k =>
    simp only [dPlain] at h
    cases hg : dGet d k with
    | none =>
      have : dHas d k = false := by rw [dHas_eq_isSome, hg]; rfl
      rw [this] at h; cases h
    | some old =>
      have : dHas d k = true := by rw [dHas_eq_isSome, hg]; rfl
      rw [this] at h
      simp only [if_true, Option.some.injEq] at h
      subst h
      obtain ⟨hacc, hwf⟩ := acc_dDel hw hg
      show DictOk d (dDel d k) (DictI.delitem d k)
      rw [dict_delitem_ok hw hg]
      exact ⟨rfl, by intro x; simp, hacc, hwf⟩
  | clear =>
    simp only [dPlain, Option.some.injEq] at h
    subst h
    refine ⟨rfl, by intro x; simp [dStep, DictI.clear], ?_, by simp [DWf, dKeys]⟩
    show Accounts (dVals d) (d.map (fun e => Event.rem e.2)) (dVals [])
    have : d.map (fun e => Event.rem e.2) = (dVals d).map Event.rem := by
      unfold dVals; rw [List.map_map]; rfl
    rw [this]
    unfold Accounts
    rw [apps_map_rem, rems_map_rem]; simp [dVals]
  | pop k hd df =>
    simp only [dPlain] at h
    cases hg : dGet d k with
    | none =>
      have hh : dHas d k = false := by rw [dHas_eq_isSome, hg]; rfl
      rw [hh] at h
      simp only [Bool.false_eq_true, if_false] at h
      cases hd with
      | false => simp at h
      | true =>
        simp only [if_true, Option.some.injEq] at h
        subst h
        simp only [dStep, DictI.pop, hg, if_true]
        exact ⟨rfl, by intro x; cases df <;> simp, acc_refl _, hw⟩
    | some old =>
      have hh : dHas d k = true := by rw [dHas_eq_isSome, hg]; rfl
      rw [hh] at h
      simp only [if_true, Option.some.injEq] at h
      subst h
      obtain ⟨hacc, hwf⟩ := acc_dDel hw hg
      simp only [dStep, DictI.pop, hg]
      exact ⟨rfl, by intro x; simp, hacc, hwf⟩
  | popitem =>
    simp only [dPlain] at h
    cases hl : d.getLast? with
    | none => rw [hl] at h; cases h
    | some kv =>
      obtain ⟨k, v⟩ := kv
      rw [hl] at h
      simp only [Option.some.injEq] at h
      subst h
      obtain ⟨pre, hpre⟩ := List.getLast?_eq_some_iff.1 hl
      have hg : dGet d k = some v := by rw [hpre]; exact dGet_last (hpre ▸ hw)
      obtain ⟨hacc, hwf⟩ := acc_dDel hw hg
      simp only [dStep, DictI.popitem, hl]
      exact ⟨rfl, by intro x; simp, hacc, hwf⟩
  | setdefault k v =>
    simp only [dPlain] at h
    cases hg : dGet d k with
    | none =>
      have hh : dHas d k = false := by rw [dHas_eq_isSome, hg]; rfl
      rw [hh] at h
      simp only [Bool.false_eq_true, if_false, Option.some.injEq] at h
      subst h
      obtain ⟨a, _, c, e⟩ := dict_setitem_ok hw k v
      simp only [dStep, DictI.setdefault, hg]
      exact ⟨a, by intro x; simp, c, e⟩
    | some old =>
      have hh : dHas d k = true := by rw [dHas_eq_isSome, hg]; rfl
      rw [hh] at h
      simp only [if_true, Option.some.injEq] at h
      subst h
      simp only [dStep, DictI.setdefault, hg]
      exact ⟨rfl, by intro x; simp, acc_refl _, hw⟩
  | update o =>
    simp only [dPlain, Option.some.injEq] at h
    subst h
    exact dict_update_ok hw o
  | ior o =>
    simp only [dPlain, Option.some.injEq] at h
    subst h
    exact dict_update_ok hw o
  | kset v =>
    simp only [dPlain, Option.some.injEq] at h
    subst h
    obtain ⟨a, b, c, e⟩ := dict_setitem_ok hw v v
    exact ⟨a, by intro x; show (DictI.setitem d v v).ret ≠ _; rw [b]; simp, c, e⟩
  | kremove v =>
    simp only [dPlain] at h
    cases hg : dGet d v with
    | none => rw [hg] at h; cases h
    | some cur =>
      rw [hg] at h
      simp only at h
      by_cases hc : (cur == v) = true
      · rw [if_pos hc] at h
        cases h
        obtain ⟨hacc, hwf⟩ := acc_dDel hw hg
        have hne : (cur != v) = false := by simp [bne, hc]
        simp only [dStep, DictI.kremove, hg, hne, Bool.false_eq_true, if_false]
        rw [dict_delitem_ok hw hg]
        exact ⟨rfl, by intro x; simp, hacc, hwf⟩
      · rw [if_neg hc] at h; cases h

/-- when the builtin operation raises, the instrumented dict raises too, unchanged and silent -/
theorem instrumented_dict_raises_like_dict (d : Dict) (op : DOp) (h : dPlain d op = none) :
    (dStep d op).items = d ∧ (dStep d op).events = [] ∧ ∃ e, (dStep d op).ret = .err e := by
  cases op with
  | setitem k v => simp [dPlain] at h
  | delitem k =>
    simp only [dPlain] at h
    cases hg : dGet d k with
    | none => simp only [dStep, DictI.delitem, hg]; first | exact ⟨rfl, rfl, _, rfl⟩ | exact ⟨trivial, trivial, _, rfl⟩ | simp
    | some old =>
      have hh : dHas d k = true := by rw [dHas_eq_isSome, hg]; rfl
      rw [hh] at h; simp at h
  | clear => simp [dPlain] at h
  | pop k hd df =>
    simp only [dPlain] at h
    cases hg : dGet d k with
    | none =>
      have hh : dHas d k = false := by rw [dHas_eq_isSome, hg]; rfl
      rw [hh] at h
      cases hd with
      | true => simp at h
      | false => simp only [dStep, DictI.pop, hg]; first | exact ⟨rfl, rfl, _, rfl⟩ | exact ⟨trivial, trivial, _, rfl⟩ | simp
    | some old =>
      have hh : dHas d k = true := by rw [dHas_eq_isSome, hg]; rfl
      rw [hh] at h; simp at h
  | popitem =>
    simp only [dPlain] at h
    cases hl : d.getLast? with
    | none => simp only [dStep, DictI.popitem, hl]; first | exact ⟨rfl, rfl, _, rfl⟩ | exact ⟨trivial, trivial, _, rfl⟩ | simp
    | some kv => obtain ⟨k, v⟩ := kv; rw [hl] at h; cases h
  | setdefault k v =>
    simp only [dPlain] at h
    by_cases hh : dHas d k = true
    · rw [if_pos hh] at h; cases h
    · rw [if_neg hh] at h; cases h
  | update o => simp [dPlain] at h
  | ior o => simp [dPlain] at h
  | kset v => simp [dPlain] at h
  | kremove v =>
    simp only [dPlain] at h
    cases hg : dGet d v with
    | none => simp only [dStep, DictI.kremove, hg]; first | exact ⟨rfl, rfl, _, rfl⟩ | exact ⟨trivial, trivial, _, rfl⟩ | simp
    | some cur =>
      rw [hg] at h
      simp only at h
      by_cases hc : (cur == v) = true
      · rw [if_pos hc] at h; cases h
      · have hne : (cur != v) = true := by simp [bne, hc]
        simp only [dStep, DictI.kremove, hg, hne, if_true]
        first | exact ⟨rfl, rfl, _, rfl⟩ | exact ⟨trivial, trivial, _, rfl⟩ | simp

/-- the builtin dict along a history: an operation that raises leaves the dict unchanged -/
def dPlainRun (d : Dict) : List DOp → Dict
  | [] => d
  | op :: ops => dPlainRun ((dPlain d op).getD d) ops

def dFinal (d : Dict) (ops : List DOp) : Dict := ops.foldl (fun d op => (dStep d op).items) d

def dAllEvents (d : Dict) : List DOp → List Event
  | [] => []
  | op :: ops => (dStep d op).events ++ dAllEvents (dStep d op).items ops

/-- **instrumented_dict_history_refines_dict**: after ANY operation history the instrumented
    dict holds exactly the items (and key order) of the builtin dict driven by the same
    history, still one entry per key, and all events fired along the way account for the
    values that entered and left (induction over the history) -/
theorem instrumented_dict_history_refines_dict (ops : List DOp) : ∀ (d : Dict), DWf d →
    dFinal d ops = dPlainRun d ops ∧ DWf (dFinal d ops) ∧
    Accounts (dVals d) (dAllEvents d ops) (dVals (dFinal d ops)) := by
  induction ops with
  | nil => intro d hw; exact ⟨rfl, hw, acc_refl _⟩
  | cons op ops ih =>
    intro d hw
    cases hp : dPlain d op with
    | none =>
      obtain ⟨h1, h2, _⟩ := instrumented_dict_raises_like_dict d op hp
      have := ih d hw
      simp only [dFinal, List.foldl_cons, dPlainRun, dAllEvents, hp, Option.getD_none, h1, h2,
        List.nil_append] at this ⊢
      exact this
    | some d' =>
      have ok := instrumented_dict_refines_dict d hw op d' hp
      obtain ⟨a, b, c⟩ := ih d' ok.wf
      simp only [dFinal, List.foldl_cons, dPlainRun, dAllEvents, hp, Option.getD_some, ok.items] at a b c ⊢
      refine ⟨a, b, ?_⟩
      exact acc_trans ok.acc c

/-- sensitivity (seeded C38-D): inferring "nothing removed" from `item is default` loses the
    remove event of `d.pop(k, d[k])` — the item leaves, no event accounts for it -/
theorem dict_pop_infers_from_default_counterexample :
    ∃ (d : Dict) (k : Key) (x : Item), DWf d ∧ dGet d k = some x ∧
      ¬ Accounts (dVals d) (DictI.popInfersFromDefault d k x).events
          (dVals (DictI.popInfersFromDefault d k x).items) ∧
      Accounts (dVals d) (DictI.pop d k true (some x)).events (dVals (DictI.pop d k true (some x)).items) := by
  refine ⟨[(1, 5)], 1, 5, by simp [DWf, dKeys], rfl, ?_, ?_⟩
  · intro h
    have := h.length_eq
    revert this
    decide
  · exact (instrumented_dict_refines_dict [(1, 5)] (by simp [DWf, dKeys]) (.pop 1 true (some 5)) [] rfl).acc

/-- sensitivity: the unwrapped `dict.__ior__` of the code before the G8 fix changes the
    contents without any event -/
theorem dict_ior_unwrapped_counterexample :
    ∃ (d o : Dict), DWf d ∧
      ¬ Accounts (dVals d) (DictI.iorUnwrapped d o).events (dVals (DictI.iorUnwrapped d o).items) := by
  refine ⟨[], [(1, 1)], by simp [DWf, dKeys], ?_⟩
  intro h
  have := h.length_eq
  revert this
  decide

example : dStep [(1, 1), (2, 2)] (.update [(1, 5), (2, 2), (3, 3)])
    = ⟨[(1, 5), (2, 2), (3, 3)], [.rem 1, .app 5, .app 3], .none⟩ := by decide
example : DWf [(1, 1), (2, 2)] := by simp [DWf, dKeys]

end SaVerif.Props.C38
