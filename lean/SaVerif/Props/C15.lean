import SaVerif.Lemmas.UrlScan
import SaVerif.Model.SqliteReflect
/-!
# C15 — Reflection reproduces the schema that was created (SQLite, pure parsing core)

`affinity_roundtrip` and `reflect_emit_fixpoint` are decided against `Gen/SqliteTypes.lean`,
which the translator regenerates from the working tree (ischema_names, the DDL text of every
type the type compiler emits, the DDL text of every reflected class): editing
`_resolve_type_affinity`'s tables or a `visit_*` of the SQLite type compiler re-runs them.
`find_cols_recovers` is a general theorem about the column-list scanner.
The catalog half of the property is checked on real SQLite by harness/props/c15.py.
-/
namespace SaVerif.Props.C15
open SaVerif.SqliteReflect SaVerif.Gen.SqliteTypes

/-- emitted type text → reflected class → its DDL text: same SQLite affinity, and the
    reflected type can be rendered -/
def affinityOK (row : String × String) : Bool :=
  match ddlOf (resolve row.2.toList) with
  | some d => d != "!error" && sqliteAffinity d.toList == sqliteAffinity row.2.toList
  | none => false

/-- **affinity_roundtrip**: for every type the generator (and SQLiteTypeCompiler) emits -/
theorem affinity_roundtrip : ∀ row ∈ emitted, affinityOK row = true := by decide

/-- reflecting the re-emitted DDL text gives the same class and argument count again -/
def fixpointOK (row : String × String) : Bool :=
  match ddlOf (resolve row.2.toList) with
  | some d => resolve d.toList == resolve row.2.toList
  | none => false

/-- **reflect_emit_fixpoint**: reflect ∘ emit ∘ reflect = reflect on every emitted type -/
theorem reflect_emit_fixpoint : ∀ row ∈ emitted, fixpointOK row = true := by decide

/-- every class `_resolve_type_affinity` can return for a known name is renderable
    without arguments (so a reflected table can always be re-created) -/
theorem ischema_classes_renderable :
    ∀ kv ∈ ischema, (ddlOf (kv.2, 0)).isSome = true := by decide

/-- **primary_key_rendered_exactly_once**: for every combination of the five facts the two
    cooperating sites of SQLiteDDLCompiler look at (the column is a primary key, the table has
    sqlite_autoincrement, the key has one column, the type has Integer affinity, the column has
    no foreign key), a primary-key column is rendered either inline or by the table-level
    constraint, never by both and never by neither.  Decided against the conjunct lists
    regenerated from the source (`Gen/SqlitePk.lean`). -/
theorem primary_key_rendered_exactly_once :
    ∀ a < 32, atomHolds a 0 = true → (pkInline a != pkTableLevel a) = true := by decide

/-- non-vacuity: both renderings occur -/
example : pkInline 31 = true ∧ pkTableLevel 31 = false ∧ pkInline 15 = false ∧ pkTableLevel 15 = true := by decide

/-! ## the column-list scanner -/

/-- how `DDLCompiler` writes one column of a constraint: quoted or bare -/
def renderCol (i : Bool × Str) : Str := if i.1 then '"' :: i.2 ++ ['"'] else i.2

def renderSig : List (Bool × Str) → Str
  | [] => []
  | [i] => renderCol i
  | i :: is => renderCol i ++ ',' :: ' ' :: renderSig is

/-- identifiers the scanner supports: non-empty, no double quote, no newline; bare ones
    consist of `[A-Za-z0-9_]` -/
def ItemOK (i : Bool × Str) : Prop :=
  i.2 ≠ [] ∧ '"' ∉ i.2 ∧ '\n' ∉ i.2 ∧ (i.1 = false → ∀ c ∈ i.2, isIdentChar c = true)

theorem findCols_skip {fuel : Nat} {c : Char} {t : Str} (h1 : c ≠ '"') (h2 : isIdentChar c = false) :
    findCols (fuel + 1) (c :: t) = findCols fuel t := by
  have e1 : (c == '"') = false := by simpa using h1
  simp [findCols, e1, h2]

theorem findCols_nil (fuel : Nat) : findCols fuel [] = [] := by
  cases fuel <;> rfl

/-- one item followed by a rest that is empty or starts with `,` -/
theorem findCols_item {fuel : Nat} {i : Bool × Str} (hi : ItemOK i) {rest : Str}
    (hrest : ∀ c t, rest = c :: t → c = ',') :
    findCols (fuel + 1) (renderCol i ++ rest) = i.2 :: findCols fuel rest := by
  obtain ⟨q, name⟩ := i
  obtain ⟨hne, hq, hnl, hid⟩ := hi
  simp only at hne hq hnl hid
  cases name with
  | nil => exact absurd rfl hne
  | cons x name' =>
    cases q with
    | true =>
      simp only [renderCol, if_true, List.cons_append, List.append_assoc]
      have hx : x ≠ '\n' := fun he => hnl (he ▸ List.mem_cons_self)
      have ex : (x == '\n') = false := by simpa using hx
      have htw := SaVerif.Url.takeWhile_append_cons (p := fun y => y != '"' && y != '\n') (a := name')
        (c := '"') rest (fun y hy => by
          have h1 : y ≠ '"' := fun he => hq (he ▸ List.mem_cons_of_mem _ hy)
          have h2 : y ≠ '\n' := fun he => hnl (he ▸ List.mem_cons_of_mem _ hy)
          simp [h1, h2]) (by simp)
      simp only [findCols, List.nil_append, beq_self_eq_true, if_true, ex, Bool.false_eq_true, if_false, htw.1, htw.2]
    | false =>
      simp only [renderCol, Bool.false_eq_true, if_false]
      have hall := hid rfl
      have hx := hall x List.mem_cons_self
      have hxq : x ≠ '"' := fun he => hq (he ▸ List.mem_cons_self)
      have exq : (x == '"') = false := by simpa using hxq
      have htw := SaVerif.Url.tw_stop (p := isIdentChar) (a := x :: name') (T := rest) hall
        (fun c t he => by rw [hrest c t he]; decide)
      rw [List.cons_append]
      simp only [findCols, exq, Bool.false_eq_true, if_false, hx, if_true]
      rw [← List.cons_append, htw.1, htw.2]

theorem length_renderCol_pos {i : Bool × Str} (hi : ItemOK i) : 0 < (renderCol i).length := by
  obtain ⟨q, name⟩ := i
  cases name with
  | nil => exact absurd rfl hi.1
  | cons x xs => cases q <;> simp [renderCol]

/-- **find_cols_recovers**: `_find_cols_in_sig` returns exactly the identifiers of every
    rendered column list, whatever their number and spelling (within `ItemOK`) -/
theorem findCols_renderSig : ∀ (items : List (Bool × Str)) (fuel : Nat),
    (∀ i ∈ items, ItemOK i) → (renderSig items).length < fuel →
    findCols fuel (renderSig items) = items.map (·.2) := by
  intro items
  induction items with
  | nil => intro fuel _ _; simp [renderSig, findCols_nil]
  | cons i is ih =>
    intro fuel hok hlen
    have hi := hok i List.mem_cons_self
    cases is with
    | nil =>
      simp only [renderSig] at hlen ⊢
      cases fuel with
      | zero => omega
      | succ f =>
        have := findCols_item (fuel := f) hi (rest := []) (by intro c t h; cases h)
        simp only [List.append_nil] at this
        rw [this, findCols_nil]
        rfl
    | cons j js =>
      simp only [renderSig] at hlen ih ⊢
      have hpos := length_renderCol_pos hi
      simp only [List.length_append, List.length_cons] at hlen
      cases fuel with
      | zero => omega
      | succ f =>
        rw [findCols_item hi (by intro c t h; exact (List.cons.inj h).1.symm)]
        match f, hlen with
        | f' + 2, hlen =>
          rw [findCols_skip (by decide) (by decide), findCols_skip (by decide) (by decide)]
          rw [ih f' (fun k hk => hok k (List.mem_cons_of_mem _ hk)) (by omega)]
          rfl
        | 0, hlen => omega
        | 1, hlen => omega

theorem find_cols_recovers (items : List (Bool × Str)) (hok : ∀ i ∈ items, ItemOK i) :
    findColsInSig (renderSig items) = items.map (·.2) :=
  findCols_renderSig items _ hok (Nat.lt_succ_self _)

/-! ## non-vacuity -/
example : findColsInSig "\"has space\", c1, \"select\", \"a,b)c\"".toList
    = ["has space".toList, "c1".toList, "select".toList, "a,b)c".toList] := by decide
example : resolve "VARCHAR(30)".toList = ("VARCHAR", 1) := by decide
example : resolve "DOUBLE PRECISION".toList = ("REAL", 0) := by decide
example : sqliteAffinity "DOUBLE PRECISION".toList = "REAL" := by decide

end SaVerif.Props.C15
