import SaVerif.Lemmas.LruMT
/-!
# C54 (part 5) — LRUCache under threads: all interleavings

The transition system of `SaVerif/Model/LruMT.lean`: any number of threads, each running any
program of `get(k)` / `cache[k] = v` / `del cache[k]`, one atomic shared access per step, NO fairness and no
bound on the number of steps.  `Reach (init …) s` ranges over every state of every
interleaving.

* `lru_mt_get_returns_stored` — a `get(k)` can only return a value that some `cache[k] = v`
  of the programs stored under that very key (never a value of another key, never garbage),
  in every interleaving.
* `lru_mt_mutex_exclusive` — at most one thread is inside the try-lock protected section, and
  the lock flag says so.
* `lru_mt_size_bound` — the sequential bound `len <= capacity*(1+threshold)` does NOT survive
  threads as an invariant (a thread whose try-lock fails leaves its insert unpruned); what
  holds in every reachable state is `len - (busy + failed) <= capacity*(1+threshold)`, where
  `busy` counts threads between their insert and the end of the pruning they owe, and
  `failed` counts try-locks that failed since the last "all clear" check.
* `lru_mt_quiescent_bound`, `lru_mt_single_thread_bound` — corollaries: when all threads are
  idle the excess is at most the number of failed try-locks; with one thread there are none
  and the sequential theorem `lru_size_bound` is recovered.
* `lru_mt_size_bound_is_tight` — two threads can really end, quiescent, above the bound.
-/
namespace SaVerif.Props.C54MT
open SaVerif.LruMT

/-- every (key, value) some `cache[k] = v` of the programs asks to store -/
def storedPairs (progs : List (List MOp)) : List (Nat × Nat) :=
  progs.flatten.filterMap (fun op => match op with | .set k v => some (k, v) | _ => none)

theorem mem_storedPairs {progs : List (List MOp)} {p : List MOp} {k v : Nat}
    (hp : p ∈ progs) (h : MOp.set k v ∈ p) : (k, v) ∈ storedPairs progs := by
  unfold storedPairs
  rw [List.mem_filterMap]
  exact ⟨.set k v, List.mem_flatten.2 ⟨p, hp, h⟩, rfl⟩

theorem init_invS (cap num den : Nat) (progs : List (List MOp)) :
    InvS (storedPairs progs) (init cap num den progs) := by
  constructor
  · intro e he; cases he
  · intro th hth
    simp only [init, List.mem_map] at hth
    obtain ⟨p, hp, rfl⟩ := hth
    exact ⟨fun k v h => mem_storedPairs hp h, trivial, fun k v h => by cases h⟩

theorem init_invN (cap num den : Nat) (progs : List (List MOp)) : InvN (init cap num den progs) := by
  have z3 : ∀ l : List (List MOp), ((l.map (fun p => (⟨.idle, p, []⟩ : Thread))).map w3).sum = 0 := by
    intro l; induction l with
    | nil => rfl
    | cons a l ih => simp only [List.map_cons, List.sum_cons, ih]; rfl
  have z4 : ∀ l : List (List MOp), ((l.map (fun p => (⟨.idle, p, []⟩ : Thread))).map w4).sum = 0 := by
    intro l; induction l with
    | nil => rfl
    | cons a l ih => simp only [List.map_cons, List.sum_cons, ih]; rfl
  refine ⟨?_, ?_, ?_⟩
  · simp [init, within]
  · simp [init, busy]
  · show holders (init cap num den progs) = if (init cap num den progs).held then 1 else 0
    simp only [init, holders, z4]
    rfl

/-- the two invariants hold in every reachable state -/
theorem reach_inv {cap num den : Nat} {progs : List (List MOp)} {s : MState}
    (h : Reach (init cap num den progs) s) : InvS (storedPairs progs) s ∧ InvN s := by
  induction h with
  | refl => exact ⟨init_invS _ _ _ _, init_invN _ _ _ _⟩
  | step t _ hs ih => exact ⟨invS_step ih.1 hs, invN_step ih.2 hs⟩

/-- **lru_mt_get_returns_stored**: in every interleaving of every set of thread programs, a
    completed `get(k)` that returned `v` returned a value stored under `k` -/
theorem lru_mt_get_returns_stored {cap num den : Nat} {progs : List (List MOp)} {s : MState}
    (h : Reach (init cap num den progs) s) (th : Thread) (hth : th ∈ s.threads) (k v : Nat)
    (hr : (k, some v) ∈ th.rets) : ∃ p ∈ progs, MOp.set k v ∈ p := by
  have hS := ((reach_inv h).1.threads th hth).rets k v hr
  unfold storedPairs at hS
  rw [List.mem_filterMap] at hS
  obtain ⟨op, hop, he⟩ := hS
  obtain ⟨p, hp, hm⟩ := List.mem_flatten.1 hop
  cases op with
  | get k' => simp at he
  | del k' => simp at he
  | set k' v' =>
    simp only [Option.some.injEq, Prod.mk.injEq] at he
    obtain ⟨rfl, rfl⟩ := he
    exact ⟨p, hp, hm⟩

/-- what is in the dict itself is always a stored pair under its own key -/
theorem lru_mt_data_is_stored {cap num den : Nat} {progs : List (List MOp)} {s : MState}
    (h : Reach (init cap num den progs) s) (e : MEnt) (he : e ∈ s.data) :
    (e.key, e.val) ∈ storedPairs progs := (reach_inv h).1.data e he

/-- **lru_mt_mutex_exclusive** -/
theorem lru_mt_mutex_exclusive {cap num den : Nat} {progs : List (List MOp)} {s : MState}
    (h : Reach (init cap num den progs) s) :
    holders s ≤ 1 ∧ (s.held = true ↔ holders s = 1) := by
  have hm := (reach_inv h).2.mutex
  cases hh : s.held <;> rw [hh] at hm <;> simp at hm <;> simp [hm]

/-- **lru_mt_size_bound** (every reachable state of every interleaving) -/
theorem lru_mt_size_bound {cap num den : Nat} {progs : List (List MOp)} {s : MState}
    (h : Reach (init cap num den progs) s) :
    within s (s.data.length - (busy s + s.failed)) := by
  obtain ⟨hsz, hex, _⟩ := (reach_inv h).2
  exact within_mono hsz (by omega)

theorem busy_zero_of_quiescent {s : MState} (hq : quiescent s = true) : busy s = 0 := by
  unfold quiescent at hq
  unfold busy
  rw [List.all_eq_true] at hq
  have : ∀ l : List Thread, (∀ th ∈ l, (th.pc == .idle && th.prog.isEmpty) = true) → (l.map w3).sum = 0 := by
    intro l
    induction l with
    | nil => intro _; rfl
    | cons a l ih =>
      intro hl
      have ha := hl a (by simp)
      simp only [Bool.and_eq_true, beq_iff_eq] at ha
      have : w3 a = 0 := by unfold w3; rw [ha.1]
      simp only [List.map_cons, List.sum_cons, this, ih (fun th hth => hl th (by simp [hth]))]
  exact this _ hq

/-- **lru_mt_quiescent_bound**: when every thread has finished, the size exceeds the bound by
    at most the number of try-locks that failed since the last completed pruning check -/
theorem lru_mt_quiescent_bound {cap num den : Nat} {progs : List (List MOp)} {s : MState}
    (h : Reach (init cap num den progs) s) (hq : quiescent s = true) :
    within s (s.data.length - s.failed) := by
  have := lru_mt_size_bound h
  rw [busy_zero_of_quiescent hq] at this
  simpa using this

/-- how `failed` can change in one step: only a try-lock on a held mutex increments it -/
theorem failed_step {s s' : MState} {t : Nat} (hs : mstep s t = some s') :
    s'.failed = s.failed ∨ s'.failed = 0 ∨
      (s'.failed = s.failed + 1 ∧ s.held = true ∧ ∃ th, s.threads[t]? = some th ∧ th.pc = .m0) := by
  unfold mstep at hs
  cases hth : s.threads[t]? with
  | none => rw [hth] at hs; cases hs
  | some th =>
    rw [hth] at hs
    obtain ⟨pc, prog, rets⟩ := th
    cases pc with
    | idle =>
      cases prog with
      | nil => cases hs
      | cons op rest =>
        cases op with
        | get k =>
          simp only at hs
          cases hf : find s.data k <;> rw [hf] at hs <;> cases hs <;> exact Or.inl rfl
        | set k v => cases hs; exact Or.inl rfl
        | del k => cases hs; exact Or.inl rfl
    | gI0 k it => cases hs; exact Or.inl rfl
    | gI1 k it r => cases hs; exact Or.inl rfl
    | gI2 k it => cases hs; exact Or.inl rfl
    | gW k it v => cases hs; exact Or.inl rfl
    | sI1 k v r => cases hs; exact Or.inl rfl
    | sI2 k v => cases hs; exact Or.inl rfl
    | sSt k v c => cases hs; exact Or.inl rfl
    | m0 =>
      simp only at hs
      split at hs
      · rename_i hh
        cases hs
        exact Or.inr (Or.inr ⟨rfl, hh, _, rfl, rfl⟩)
      · cases hs; exact Or.inl rfl
    | m1 =>
      simp only at hs
      split at hs
      · cases hs; exact Or.inl rfl
      · cases hs; exact Or.inr (Or.inl rfl)
    | m2 => cases hs; exact Or.inl rfl
    | m3 todo =>
      cases todo with
      | nil => cases hs; exact Or.inl rfl
      | cons k ks => cases hs; exact Or.inl rfl
    | m4 => cases hs; exact Or.inl rfl

theorem threads_length_step {s s' : MState} {t : Nat} (hs : mstep s t = some s') :
    s'.threads.length = s.threads.length := by
  unfold mstep at hs
  cases hth : s.threads[t]? with
  | none => rw [hth] at hs; cases hs
  | some th =>
    rw [hth] at hs
    obtain ⟨pc, prog, rets⟩ := th
    cases pc with
    | idle =>
      cases prog with
      | nil => cases hs
      | cons op rest =>
        cases op with
        | get k =>
          simp only at hs
          cases hf : find s.data k <;> rw [hf] at hs <;> cases hs <;> simp [setThread]
        | set k v => cases hs; simp [setThread]
        | del k => cases hs; simp [setThread]
    | m0 => simp only at hs; split at hs <;> cases hs <;> simp [setThread]
    | m1 => simp only at hs; split at hs <;> cases hs <;> simp [setThread]
    | m3 todo => cases todo <;> cases hs <;> simp [setThread]
    | gI0 k it => cases hs; simp [setThread]
    | gI1 k it r => cases hs; simp [setThread]
    | gI2 k it => cases hs; simp [setThread]
    | gW k it v => cases hs; simp [setThread]
    | sI1 k v r => cases hs; simp [setThread]
    | sI2 k v => cases hs; simp [setThread]
    | sSt k v c => cases hs; simp [setThread]
    | m2 => cases hs; simp [setThread]
    | m4 => cases hs; simp [setThread]

/-- with a single thread no try-lock ever fails -/
theorem single_thread_failed_zero {cap num den : Nat} {prog : List MOp} {s : MState}
    (h : Reach (init cap num den [prog]) s) : s.threads.length = 1 ∧ s.failed = 0 := by
  induction h with
  | refl => exact ⟨rfl, rfl⟩
  | @step s1 s2 t hr hs ih =>
    have hlen := threads_length_step hs
    refine ⟨by rw [hlen]; exact ih.1, ?_⟩
    rcases failed_step hs with h1 | h1 | ⟨_, hheld, th, hth, hpc⟩
    · rw [h1]; exact ih.2
    · exact h1
    · -- impossible: the only thread is at m0, so nobody holds the mutex
      exfalso
      have hm := (reach_inv hr).2.mutex
      rw [hheld] at hm
      simp only [if_true] at hm
      have hl := ih.1
      have : s1.threads = [th] := by
        cases hts : s1.threads with
        | nil => rw [hts] at hl; simp at hl
        | cons a rest =>
          rw [hts] at hl hth
          have : rest = [] := by
            cases rest with
            | nil => rfl
            | cons b r => simp at hl
          subst this
          cases t with
          | zero => simp at hth; rw [hth]
          | succ n => simp at hth
      unfold holders at hm
      rw [this] at hm
      simp only [List.map_cons, List.map_nil, List.sum_cons, List.sum_nil, w4, hpc] at hm
      omega

/-- **lru_mt_single_thread_bound**: one thread ⇒ at every operation boundary the sequential
    size bound holds -/
theorem lru_mt_single_thread_bound {cap num den : Nat} {prog : List MOp} {s : MState}
    (h : Reach (init cap num den [prog]) s) (hidle : busy s = 0) : within s s.data.length := by
  have := lru_mt_size_bound h
  rw [hidle, (single_thread_failed_zero h).2] at this
  simpa using this

/-- every schedule is a path of the transition system -/
theorem runSched_reach (sched : List Nat) : ∀ s0 s : MState, Reach s0 s → Reach s0 (runSched s sched) := by
  induction sched with
  | nil => intro s0 s h; exact h
  | cons t ts ih =>
    intro s0 s h
    unfold runSched
    cases hm : mstep s t with
    | none => exact ih s0 s h
    | some s' => exact ih s0 s' (Reach.step t h hm)

/-- **lru_mt_size_bound_is_tight**: capacity 1, threshold 0, two threads each storing one new
    key: there is an interleaving that ends quiescent with 2 entries (> 1 = the bound) and one
    failed try-lock — the sequential invariant is really lost under threads -/
theorem lru_mt_size_bound_is_tight :
    ∃ s, Reach (init 1 0 1 [[.set 1 1], [.set 2 2]]) s ∧ quiescent s = true ∧
      s.data.length = 2 ∧ s.failed = 1 ∧ ¬ within s s.data.length := by
  refine ⟨runSched (init 1 0 1 [[.set 1 1], [.set 2 2]]) [0, 0, 0, 0, 0, 0, 1, 1, 1, 1, 1, 0], ?_, ?_, ?_, ?_, ?_⟩
  · exact runSched_reach _ _ _ Reach.refl
  · decide
  · decide
  · decide
  · unfold within; decide

example : quiescent (runSched (init 2 1 2 [[.set 1 1, .get 1], [.set 2 2, .get 1]])
    [0, 1, 0, 1, 0, 1, 0, 1, 0, 1, 0, 1, 0, 1, 0, 1, 0, 1, 0, 1, 0, 1, 0, 1, 0, 1]) = true := by decide

end SaVerif.Props.C54MT
