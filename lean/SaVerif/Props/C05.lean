import SaVerif.Lemmas.Literal
import SaVerif.Gen.LiteralTables
/-!
# C05 — Literal rendering is equivalent to binding and cannot inject SQL

Theorems about M-STR/literals (`SaVerif/Model/Literal.lean`).  The string-literal
configurations (`SaVerif/Gen/LiteralTables.lean`) are regenerated from the working
tree on every run, so an edit to `String.literal_processor`, to MSSQL's
`_UnicodeLiteral` or to a compiler's `render_literal_value` re-runs the proofs.
-/
namespace SaVerif.Props.C05
open SaVerif.Ident SaVerif.Literal SaVerif.Gen.LiteralTables

/-- the statement text as the server receives it (DBAPI `%` formatting under
    `format`/`pyformat`) -/
def sent (c : Cfg) (t : Str) : Option Str := if dblLit c then unPercent t else some t

/-! ## strings -/

/-- **lex_render_string** — for every string value `s` (any code points: quotes,
    backslashes, percent signs, newlines, NUL, unicode) and any following text that
    does not start with a quote, the rendered literal is exactly one string token of
    the backend and decodes to `s`: the literal cannot end early, swallow what follows,
    or change the statement's shape. -/
theorem lex_render_string (c : Cfg) (h : wfLit c = true) (mode : Nat)
    (hm : bsLit c = (mode != 0)) (hesc : decodeEsc mode 92 = [92]) (s rest : Str)
    (hr : ∀ x t, rest = x :: t → x ≠ 39) :
    ∃ t, sent c (renderString c s) = some t ∧
      lexString mode (npreLit c) (t ++ rest) = some (s, rest) := by
  have hlex := lexStrAux_lit mode (bsLit c) hm hesc s rest hr
  have hpre : c.pre = [39] ∨ c.pre = [78, 39] := by
    simp only [wfLit, Bool.and_eq_true, Bool.or_eq_true, beq_iff_eq] at h
    exact h.1.1.2
  refine ⟨c.pre ++ s.flatMap (litChar false (bsLit c)) ++ [39], ?_, ?_⟩
  · rw [renderString_eq c h]
    unfold sent
    cases hd : dblLit c with
    | false => simp
    | true =>
      have hp : 37 ∉ c.pre := by rcases hpre with e | e <;> rw [e] <;> decide
      simp only [if_true, unPercent, List.append_assoc]
      rw [unPercentAux_free c.pre _ hp, unPercentAux_lit]
      simp [unPercentAux]
  · rcases hpre with e | e
    · have : npreLit c = false := by simp [npreLit, e]
      rw [this, e]
      simpa [lexString] using hlex
    · have : npreLit c = true := by simp [npreLit, e]
      rw [this, e]
      simpa [lexString] using hlex

/-- the configurations shipped, each with the escape mode of its backend's tokenizer
    (0 = quote doubling only, 1 = MySQL backslash escapes, 2 = PostgreSQL with
    standard_conforming_strings = off) — the pairing is trusted documentation -/
def configs : List (Cfg × Nat) :=
  [(default, 0), (sqlite, 0), (postgresql, 0), (postgresqlbs, 2), (pgasyncpg, 0), (mysql, 1),
   (mysqlnobs, 0), (mariadb, 1), (mssql, 0), (mssqln, 0), (oracle, 0)]

theorem configs_wf : ∀ x ∈ configs,
    wfLit x.1 = true ∧ bsLit x.1 = (x.2 != 0) ∧ decodeEsc x.2 92 = [92] := by decide +kernel

/-- **lex_render_string** for every shipped configuration -/
theorem lex_render_string_dialects (x : Cfg × Nat) (hx : x ∈ configs) (s rest : Str)
    (hr : ∀ y t, rest = y :: t → y ≠ 39) :
    ∃ t, sent x.1 (renderString x.1 s) = some t ∧
      lexString x.2 (npreLit x.1) (t ++ rest) = some (s, rest) :=
  lex_render_string x.1 (configs_wf x hx).1 x.2 (configs_wf x hx).2.1 (configs_wf x hx).2.2 s rest hr

/-! ## integers -/

/-- **render_int_roundtrip** — `str(int(v))` is one numeric token with value `v` -/
theorem render_int_roundtrip (i : Int) (rest : Str) (hr : ∀ x t, rest = x :: t → isDigit x = false) :
    lexInt (renderInt i ++ rest) = some (i, rest) := by
  cases i with
  | ofNat n =>
    obtain ⟨hne, hd, hv⟩ := natStr_spec n
    have htw := takeWhile_digits (natStr n) rest hd hr
    have hhead : ∀ u, natStr n ++ rest = 45 :: u → False := by
      intro u hu
      cases hn : natStr n with
      | nil => exact hne hn
      | cons a t =>
        rw [hn] at hu
        simp only [List.cons_append, List.cons.injEq] at hu
        have := hd a (by rw [hn]; simp)
        rw [hu.1] at this
        simp [isDigit] at this
    simp only [renderInt]
    unfold lexInt
    split
    · rename_i u heq; exact absurd heq (hhead u)
    · have hemp : (natStr n).isEmpty = false := by simpa using hne
      simp [htw.1, htw.2, hemp, hv]
  | negSucc n =>
    obtain ⟨hne, hd, hv⟩ := natStr_spec (n + 1)
    have htw := takeWhile_digits (natStr (n + 1)) rest hd hr
    have hemp : (natStr (n + 1)).isEmpty = false := by simpa using hne
    simp only [renderInt, List.cons_append, lexInt, htw.1, htw.2, hemp, hv]
    simp [Int.negSucc_eq]

/-- full statement (false): "a rendered integer is one numeric token wherever it is
    placed".  A negative literal directly after a unary minus forms `--`, which every
    backend reads as a comment to the end of the line (replayed on SQLite by the harness). -/
theorem int_after_minus_counterexample (n : Nat) :
    startsLineComment (45 :: renderInt (Int.negSucc n)) = true := by
  simp [renderInt, startsLineComment]

/-! ## dates and times -/

/-- **temporal literals** — the rendered `'…isoformat…'` text of a date, a time or a
    datetime is untouched by the compiler's backslash pass, contains no percent sign
    (so the DBAPI's formatting leaves it alone) and is one string token whose content
    is the ISO text, on every shipped configuration. -/
theorem temporal_literal_one_token (x : Cfg × Nat) (hx : x ∈ configs) (rest : Str)
    (hr : ∀ y t, rest = y :: t → y ≠ 39) (y m d h mi s us : Nat) :
    lexString x.2 false (renderDate x.1 y m d ++ rest) = some (isoDate y m d, rest) ∧
    lexString x.2 false (renderTime x.1 h mi s us ++ rest) = some (isoTime h mi s us, rest) ∧
    lexString x.2 false (renderDateTime x.1 y m d h mi s us ++ rest)
      = some (isoDate y m d ++ 32 :: isoTime h mi s us, rest) ∧
    37 ∉ renderDate x.1 y m d ∧ 37 ∉ renderTime x.1 h mi s us ∧
    37 ∉ renderDateTime x.1 y m d h mi s us := by
  obtain ⟨hw, hm, he⟩ := configs_wf x hx
  have hdt : ∀ c ∈ isoDate y m d ++ 32 :: isoTime h mi s us, isPlain c = true := by
    intro c hc
    simp only [List.mem_append, List.mem_cons] at hc
    rcases hc with hc | hc | hc
    · exact isoDate_plain _ _ _ c hc
    · subst hc; decide
    · exact isoTime_plain _ _ _ _ c hc
  have h1 := plain_literal x.1 hw x.2 hm he (isoDate y m d) rest (isoDate_plain y m d) hr
  have h2 := plain_literal x.1 hw x.2 hm he (isoTime h mi s us) rest (isoTime_plain h mi s us) hr
  have h3 := plain_literal x.1 hw x.2 hm he _ rest hdt hr
  simp only [renderDate, renderTime, renderDateTime]
  refine ⟨?_, ?_, ?_, ?_, ?_, ?_⟩
  · rw [h1.1]; exact h1.2.2
  · rw [h2.1]; exact h2.2.2
  · have e : (39 :: isoDate y m d ++ 32 :: isoTime h mi s us ++ [39])
        = 39 :: (isoDate y m d ++ 32 :: isoTime h mi s us) ++ [39] := by simp
    rw [e, h3.1]; exact h3.2.2
  · rw [h1.1]; exact h1.2.1
  · rw [h2.1]; exact h2.2.1
  · have e : (39 :: isoDate y m d ++ 32 :: isoTime h mi s us ++ [39])
        = 39 :: (isoDate y m d ++ 32 :: isoTime h mi s us) ++ [39] := by simp
    rw [e, h3.1]; exact h3.2.1

/-! ## booleans and None -/

theorem bool_none_keywords : ∀ x ∈ configs, ∀ b : Bool,
    (renderBool x.1 b = [116, 114, 117, 101] ∨ renderBool x.1 b = [102, 97, 108, 115, 101] ∨
     renderBool x.1 b = [49] ∨ renderBool x.1 b = [48]) ∧ renderNone x.1 = [78, 85, 76, 76] := by
  decide +kernel

/-! ## the positional-parameter regex pass over the finished statement -/

/-- **literal_survives_postprocessing_partial** — `_process_positional` leaves any text
    without the two characters `%(` untouched (forced hypothesis: see the counterexample) -/
theorem positional_pass_identity (repl : Str) : ∀ (fuel : Nat) (t : Str),
    hasPctParen t = false → subPyformat repl fuel t = t := by
  intro fuel
  induction fuel with
  | zero => intro t _; cases t <;> rfl
  | succ k ih =>
    intro t h
    cases t with
    | nil => rfl
    | cons c u =>
      simp only [subPyformat, matchPyformat_none _ h]
      rw [ih u (hasPctParen_tail c u h)]

/-- **literal_survives_postprocessing_partial** — on a configuration without percent
    doubling (the positional dialects: SQLite's qmark, asyncpg's numeric), a string value
    that does not contain `%(` renders to a literal that `_process_positional` leaves
    untouched, whatever else it contains.  (Full statement without the hypothesis is
    false: `positional_pass_counterexample`.) -/
theorem literal_survives_postprocessing_partial (c : Cfg) (h : wfLit c = true)
    (hd : dblLit c = false) (s : Str) (hs : hasPctParen s = false) (repl : Str) (fuel : Nat) :
    subPyformat repl fuel (renderString c s) = renderString c s := by
  apply positional_pass_identity
  rw [renderString_eq c h, hd]
  have hpre : c.pre = [39] ∨ c.pre = [78, 39] := by
    simp only [wfLit, Bool.and_eq_true, Bool.or_eq_true, beq_iff_eq] at h
    exact h.1.1.2
  have hbody : hasPctParen (s.flatMap (litChar false (bsLit c)) ++ [39]) = false := by
    rw [hasPctParen_lit]
    -- appending a quote to `s` creates no `%(`
    have : ∀ (t : Str), hasPctParen t = false → hasPctParen (t ++ [39]) = false := by
      intro t
      induction t with
      | nil => intro _; decide
      | cons a u ih =>
        intro ht
        rw [hasPctParen_cons] at ht
        simp only [Bool.or_eq_false_iff] at ht
        rw [List.cons_append, hasPctParen_cons, ih ht.2]
        cases u with
        | nil =>
          by_cases ha : a = 37 <;> simp [ha]
        | cons b v => simpa using ht.1
    exact this s hs
  rcases hpre with e | e <;> rw [e]
  · simp only [List.cons_append, List.nil_append, List.append_assoc]
    rw [hasPctParen_cons, hbody]; simp
  · simp only [List.cons_append, List.nil_append, List.append_assoc]
    rw [hasPctParen_cons, hasPctParen_cons, hbody]; simp

/-- the literal `'%(x)s'` rendered for SQLite (qmark) is rewritten to `'?'` -/
theorem positional_pass_counterexample :
    subPyformat [63] 20 (renderString sqlite [37, 40, 120, 41, 115]) = [39, 63, 39] := by
  decide +kernel

/-! ## non-vacuity -/

example : renderString mysql (ofS "a'b\\c%d") = ofS "'a''b\\\\c%%d'" := by decide +kernel
example : lexString 1 false (ofS "'a''b\\\\c%d' AND x") = some (ofS "a'b\\c%d", ofS " AND x") := by
  decide +kernel
example : renderString mssqln (ofS "x'") = ofS "N'x'''" := by decide +kernel
example : lexInt (renderInt (-120) ++ ofS ")") = some (-120, ofS ")") := by decide +kernel
example : renderInt 0 = [48] := by decide +kernel
example : renderDateTime mysql 5 1 2 3 4 5 6 = ofS "'0005-01-02 03:04:05.000006'" := by decide +kernel
-- an unescaped quote would end the token early: the lexer really distinguishes
example : lexString 0 false (ofS "'a'b'") = some (ofS "a", ofS "b'") := by decide +kernel
example : lexString 1 false (ofS "'a\\' OR 1=1 --'") = some (ofS "a' OR 1=1 --", []) := by
  decide +kernel

end SaVerif.Props.C05
