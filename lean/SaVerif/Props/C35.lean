import SaVerif.Gen.Lifecycle
import SaVerif.Model.Sess
import SaVerif.Lemmas.Sess
import SaVerif.Lemmas.SessNP
/-!
# C35 — object lifecycle states and events follow the documented state machine

* §1 the regenerated flag table (`Gen/Lifecycle.lean`, from orm/state.py): exactly one
  state for every valuation (`decide` over the regenerated formulas — a source edit
  re-runs this proof).
* §2 the transcribed primitives that move an instance (`_after_attach`,
  `_detach_states`, `_remove_newly_deleted`, `_update_impl(revert_deletion)`), for
  EVERY session state: called on an instance in the documented source state they
  perform exactly the documented transition and log exactly its event.
* §3 for EVERY history of operations, every member of `session.new` is a pending
  instance (`new_members_are_pending`, induction over the history; one preservation
  lemma per transcribed function in `Lemmas/SessNP.lean`).
* §4 the full statement ("for every history the logged events replay to the
  actual state of every instance") is FALSE for the code as it is: concrete
  witnesses (`*_counterexample`), each replayed on the real Session as a known
  finding (known_findings.d/C35.json).
-/
set_option linter.unusedSimpArgs false
namespace SaVerif.Props.C35
open SaVerif.Gen.Lifecycle SaVerif.Sess

/-! ## §1 flag table -/

/-- the five `inspect(obj)` state flags for a valuation of
    (`key is not None`, `_attached`, `_deleted`), through the regenerated formulas -/
def flags (k a d : Bool) : List Bool :=
  [transient k a d, pending k a d, persistent k a d, deleted k a d, detached k a d]

/-- **exactly_one_state**: for every valuation of the three inputs exactly one of
    transient / pending / persistent / deleted / detached is true. -/
theorem exactly_one_state : ∀ k a d : Bool, ((flags k a d).filter id).length = 1 := by decide

/-- `has_identity` is "persistent or detached" as its docstring says, *or deleted* -/
theorem has_identity_eq : ∀ k a d : Bool,
    has_identity k a d = (persistent k a d || detached k a d || deleted k a d) := by decide

/-- `was_deleted` is true in the deleted state and false in the persistent state -/
theorem was_deleted_spec : ∀ k a d : Bool,
    (deleted k a d = true → was_deleted k a d = true) ∧
    (persistent k a d = true → was_deleted k a d = false) := by decide

/-- `_attached` needs a session id that is registered -/
theorem attached_spec : ∀ s l : Bool, attached s l = true ↔ (s = true ∧ l = true) := by decide

inductive LS where | T | P | S | D | X
  deriving DecidableEq, Repr

/-- the state named by the flags (first flag that is set, in the order of `flags`) -/
def lsOfFlags (k a d : Bool) : LS :=
  if transient k a d then .T else if pending k a d then .P else if persistent k a d then .S
  else if deleted k a d then .D else .X

/-- the named state is characterised by its own flag alone (consequence of exclusivity) -/
theorem lsOfFlags_spec : ∀ k a d : Bool,
    (lsOfFlags k a d = .T ↔ transient k a d = true) ∧ (lsOfFlags k a d = .P ↔ pending k a d = true) ∧
    (lsOfFlags k a d = .S ↔ persistent k a d = true) ∧ (lsOfFlags k a d = .D ↔ deleted k a d = true) ∧
    (lsOfFlags k a d = .X ↔ detached k a d = true) := by decide

/-- lifecycle state of a model instance -/
def ls (ob : Obj) : LS := lsOfFlags ob.key.isSome ob.att ob.del

/-- source and target of each lifecycle event (`none` = the instance did not exist) -/
def evSrc : Ev → Option LS
  | .t2p => some .T | .p2t => some .P | .s2t => some .S | .p2s => some .P | .x2s => some .X
  | .l2s => none | .s2d => some .S | .d2s => some .D | .d2x => some .D | .s2x => some .S

def evDst : Ev → LS
  | .t2p => .P | .p2t => .T | .s2t => .T | .p2s => .S | .x2s => .S
  | .l2s => .S | .s2d => .D | .d2s => .S | .d2x => .X | .s2x => .X

/-- strict replay of an event chain -/
def replay : Option LS → List Ev → Option (Option LS)
  | s, [] => some s
  | s, e :: es => if evSrc e == s then replay (some (evDst e)) es else none

/-- events logged for instance `o` -/
def evsOf (log : List (Ev × Oid)) (o : Oid) : List Ev := (log.filter (fun e => e.2 == o)).map (·.1)


/-! ## §2 the primitives that move an instance, for every session state -/

/-- `_after_attach` on an instance that is not attached and does not carry `_deleted`:
    exactly one event is logged, it leaves the instance's state and enters its new state
    (transient→pending or detached→persistent). -/
theorem afterAttach_spec (σ : Sess) (o : Oid) (ho : o < σ.objs.length)
    (hatt : (getO σ o).att = false) (hdel : (getO σ o).del = false) :
    ∃ e, (afterAttach σ o).log = σ.log ++ [(e, o)] ∧ evSrc e = some (ls (getO σ o)) ∧
         evDst e = ls (getO (afterAttach σ o) o) := by
  unfold afterAttach
  cases hk : (getO σ o).key with
  | none =>
    refine ⟨.t2p, ?_⟩
    simp [ho, hk, ls, hatt, hdel, evSrc, evDst, lsOfFlags, transient, pending]
  | some k =>
    refine ⟨.x2s, ?_⟩
    simp [ho, hk, ls, hatt, hdel, evSrc, evDst, lsOfFlags, transient, pending, persistent, deleted, detached]

/-- non-vacuity: attaching a fresh `Item(id=1)` -/
example : (afterAttach (newObj {} 1) 0).log = [(.t2p, 0)] := by decide

/-- one iteration of `InstanceState._detach_states` on an instance that IS attached to the
    session, whose `_deleted` flag implies an identity key, and that is not a deleted
    instance being sent to transient: exactly one event, matching the move. -/
theorem detachOne_spec (σ : Sess) (o : Oid) (toT : Bool) (ho : o < σ.objs.length)
    (hatt : (getO σ o).att = true) (hcoh : (getO σ o).del = true → (getO σ o).key.isSome = true)
    (hq : ¬ (toT = true ∧ (getO σ o).del = true)) :
    ∃ e, (detachOne toT σ o).log = σ.log ++ [(e, o)] ∧ evSrc e = some (ls (getO σ o)) ∧
         evDst e = ls (getO (detachOne toT σ o) o) := by
  unfold detachOne
  cases hk : (getO σ o).key with
  | none =>
    have hd : (getO σ o).del = false := by
      cases hd : (getO σ o).del with
      | false => rfl
      | true => have := hcoh hd; simp [hk] at this
    refine ⟨.p2t, ?_⟩
    cases toT <;> simp [ho, hk, ls, hatt, hd, evSrc, evDst, lsOfFlags, transient, pending]
  | some k =>
    cases hd : (getO σ o).del with
    | false =>
      cases toT
      · refine ⟨.s2x, ?_⟩
        simp [ho, hk, ls, hatt, hd, evSrc, evDst, lsOfFlags, transient, pending, persistent, deleted, detached]
      · refine ⟨.s2t, ?_⟩
        simp [ho, hk, ls, hatt, hd, evSrc, evDst, lsOfFlags, transient, pending, persistent, deleted, detached]
    | true =>
      have : toT = false := by
        cases toT with
        | false => rfl
        | true => exact absurd ⟨rfl, hd⟩ hq
      subst this
      refine ⟨.d2x, ?_⟩
      simp [ho, hk, ls, hatt, hd, evSrc, evDst, lsOfFlags, transient, pending, persistent, deleted, detached]

/-- the excluded corner is a real one: a deleted instance sent to transient logs
    deleted_to_detached but ends transient (finding `now-T-but-events-lead-to-X`) -/
theorem detachOne_deleted_to_transient_counterexample :
    let σ : Sess := { objs := [{ key := some 1, att := true, del := true }] }
    (detachOne true σ 0).log = [(.d2x, 0)] ∧ ls (getO (detachOne true σ 0) 0) = .T := by decide

/-- and so is the other: `_detach_states` on an instance that is no longer attached still
    logs an event (findings `persistent_to_transient-fired-in-state-X`,
    `pending_to_transient-fired-in-state-T`, `deleted_to_detached-fired-in-state-X`) -/
theorem detachOne_unattached_counterexample :
    let σ : Sess := { objs := [{ key := some 1 }, { }] }
    ls (getO σ 0) = .X ∧ (detachOne true σ 0).log = [(.s2t, 0)] ∧
    ls (getO σ 1) = .T ∧ (detachOne true σ 1).log = [(.p2t, 1)] := by decide

/-- `_remove_newly_deleted` on a persistent instance: persistent→deleted with its event -/
theorem removeNewlyDeletedOne_spec (σ : Sess) (o : Oid) (ho : o < σ.objs.length)
    (hs : ls (getO σ o) = .S) :
    (removeNewlyDeletedOne σ o).log = σ.log ++ [(.s2d, o)] ∧
    ls (getO (removeNewlyDeletedOne σ o) o) = .D := by
  have hflags : (getO σ o).key.isSome = true ∧ (getO σ o).att = true := by
    revert hs
    unfold ls
    cases (getO σ o).key.isSome <;> cases (getO σ o).att <;> cases (getO σ o).del <;> decide
  have hlen : ∀ τ : Sess, τ.objs = σ.objs → o < τ.objs.length := fun τ h => h ▸ ho
  constructor
  · simp [removeNewlyDeletedOne, updTxn, imSafeDiscard]
    repeat (first | split | rfl)
  · unfold removeNewlyDeletedOne
    simp only [getO_emit]
    rw [getO_setO_same]
    · simp [ls, lsOfFlags, transient, pending, persistent, deleted]
      have h1 : ∀ τ : Sess, τ.objs = σ.objs → getO τ o = getO σ o := fun τ h => by simp [getO, h]
      rw [h1]
      · simp [hflags]
        cases hk : (getO σ o).key <;> simp_all
      · simp [updTxn, imSafeDiscard]
        repeat (first | split | rfl)
    · apply hlen
      simp [updTxn, imSafeDiscard]
      repeat (first | split | rfl)


/-! ## §3 whole histories: `session.new` holds pending instances only -/

/-- **new_members_are_pending**: after ANY history of operations (add, delete, flush incl.
    failures, commit, rollback, savepoints, expunge, close, merge, get, queries, refresh,
    primary-key changes, make_transient*) every member of `session.new` is an instance without
    identity key that is attached to the session — by induction over the history, every
    transcribed function preserving the invariant (`Lemmas/SessNP.lean`). -/
theorem new_members_are_pending (eoc : Bool) (ops : List Op) : NP (run eoc ops) := by
  unfold run
  have : ∀ (l : List Op) (σ : Sess), NP σ →
      NP (l.foldl (fun σ op => if opValid σ op then (step σ op).1.1 else σ) σ) := by
    intro l
    induction l with
    | nil => intro σ h; exact h
    | cons op t ih =>
      intro σ h
      apply ih
      show NP (if opValid σ op = true then (step σ op).1.1 else σ)
      split
      · rename_i hv; exact NP_step _ _ hv h
      · exact h
  apply this
  intro o ho; cases ho

/-- in terms of the regenerated flag formulas: every member of `session.new` answers
    `inspect(obj).pending == True` (and, by `exactly_one_state`, no other state) -/
theorem new_members_flag_pending (eoc : Bool) (ops : List Op) (o : Oid) (h : o ∈ (run eoc ops).new) :
    pending (getO (run eoc ops) o).key.isSome (getO (run eoc ops) o).att (getO (run eoc ops) o).del = true ∧
    ls (getO (run eoc ops) o) = .P := by
  have := new_members_are_pending eoc ops o h
  unfold Pend at this
  have hk : (getO (run eoc ops) o).key.isSome = false := by rw [this.1]; rfl
  constructor
  · rw [hk, this.2]; cases (getO (run eoc ops) o).del <;> decide
  · unfold ls; rw [hk, this.2]; cases (getO (run eoc ops) o).del <;> decide

example : (run true [.new 1, .new 2, .add 0, .add 1, .flush, .new 3, .add 2]).new = [2] := by decide

/-! ## §4 whole histories: the full statement and its counterexamples -/

/-- instance `o`'s logged events replay, from "transient" (or from nothing when the first
    event is loaded_as_persistent), exactly to its present state -/
def trackedObj (σ : Sess) (o : Oid) : Bool :=
  let evs := evsOf σ.log o
  let start : Option LS := match evs with
    | .l2s :: _ => none
    | _ => some .T
  replay start evs == some (some (ls (getO σ o)))

def tracked (σ : Sess) : Bool := (List.range σ.objs.length).all (trackedObj σ)

def usesSilentOps (ops : List Op) : Bool :=
  ops.any (fun op => match op with | .mt _ _ => true | .mtd _ => true | _ => false)

/-
FULL STATEMENT (false for the code as it is — see the counterexamples below):

  theorem events_track_state (eoc : Bool) (ops : List Op) (h : usesSilentOps ops = false) :
      tracked (run eoc ops) = true
-/

/-- non-vacuity / positive instances: ordinary histories do replay -/
example : tracked (run true [.new 1, .add 0, .flush, .delete 0, .commit]) = true := by decide
example : tracked (run true [.new 1, .new 2, .add 0, .add 1, .commit, .get 1, .delete 0, .flush,
                             .rollback, .expunge 1, .add 1, .close]) = true := by decide
example : tracked (run true [.new 1, .add 0, .nbegin, .new 2, .add 1, .flush, .nrollback, .commit]) = true := by decide

/-- `delete(obj); rollback()` without a flush logs deleted_to_persistent for an instance that
    never left the persistent state -/
theorem events_track_state_counterexample_delete_rollback :
    usesSilentOps [.new 1, .add 0, .commit, .delete 0, .rollback] = false ∧
    tracked (run true [.new 1, .add 0, .commit, .delete 0, .rollback]) = false := by decide

/-- insert + delete in one transaction, then rollback: deleted_to_detached, but transient -/
theorem events_track_state_counterexample_insert_delete_rollback :
    tracked (run true [.new 1, .add 0, .flush, .delete 0, .flush, .rollback]) = false := by decide

/-- insert, expunge, rollback: persistent_to_transient for a detached instance -/
theorem events_track_state_counterexample_expunge_rollback :
    tracked (run true [.new 1, .add 0, .flush, .expunge 0, .rollback]) = false := by decide

/-- delete of an expired instance followed by get(): persistent_to_deleted twice -/
theorem events_track_state_counterexample_delete_get :
    tracked (run true [.new 1, .add 0, .commit, .delete 0, .get 1]) = false := by decide

/-- a failed flush restores the snapshot, a later change makes rollback restore it again:
    pending_to_transient for an instance that is already transient -/
theorem events_track_state_counterexample_double_restore :
    tracked (run true [.new 1, .new 2, .new 1, .add 0, .flush, .add 2, .flush, .add 1, .rollback]) = false := by decide

/-- deleted instance expunged inside a SAVEPOINT, then commit: deleted_to_detached twice -/
theorem events_track_state_counterexample_expunge_in_savepoint :
    tracked (run true [.new 1, .add 0, .commit, .delete 0, .flush, .nbegin, .expunge 0, .commit]) = false := by decide

/-- delete() of an instance that is already in the deleted state -/
theorem events_track_state_counterexample_delete_twice :
    tracked (run true [.new 1, .add 0, .commit, .delete 0, .flush, .delete 0, .flush]) = false := by decide

/-- insert, change the primary key, flush, rollback: persistent_to_transient is logged but the
    key-switch loop restores the old key: the instance ends detached -/
theorem events_track_state_counterexample_keyswitch_rollback :
    tracked (run true [.new 1, .add 0, .flush, .setpk 0 2, .flush, .rollback]) = false ∧
    ls (getO (run true [.new 1, .add 0, .flush, .setpk 0 2, .flush, .rollback]) 0) = .X := by decide

/-- documented end states that are not reached (no event is wrong here, the transition
    itself is missing): with expire_on_commit=False a deleted instance survives commit in
    the deleted state; close() leaves a deleted instance attached -/
theorem commit_detaches_deleted_counterexample :
    ls (getO (run false [.new 1, .add 0, .commit, .delete 0, .commit]) 0) = .D ∧
    ls (getO (run true [.new 1, .add 0, .commit, .delete 0, .commit]) 0) = .X := by decide

theorem close_detaches_all_counterexample :
    ls (getO (run true [.new 1, .add 0, .commit, .delete 0, .flush, .close]) 0) = .D := by decide

end SaVerif.Props.C35
