import SaVerif.Gen.Lifecycle
import SaVerif.Model.Sess
/-!
# C35 — object lifecycle states and events follow the documented state machine
-/
namespace SaVerif.Props.C35
open SaVerif.Gen.Lifecycle

/-- the five `inspect(obj)` state flags for a valuation of
    (`key is not None`, `_attached`, `_deleted`), through the regenerated formulas -/
def flags (k a d : Bool) : List Bool :=
  [transient k a d, pending k a d, persistent k a d, deleted k a d, detached k a d]

/-- **exactly_one_state**: for every valuation of the three inputs exactly one of
    transient / pending / persistent / deleted / detached is true. -/
theorem exactly_one_state : ∀ k a d : Bool, ((flags k a d).filter id).length = 1 := by decide

end SaVerif.Props.C35
