import SaVerif.Model.Upsert
import SaVerif.Lemmas.Imv
/-!
# C56 — Upsert statements insert or update exactly as their conflict clause says

Theorems about the insert-or-update model (`SaVerif/Model/Upsert.lean`) and about the two
ways SQLAlchemy sends an executemany upsert to the database: one statement per parameter
set (`runRows`) or one multi-VALUES statement per batch (`runBatched`, batches produced by
C12's `chunk`).  The specification of the property is `runRows`: the insert-or-update
fold, one parameter set after the other, each with its own bind values.
-/
namespace SaVerif.Props.C56
open SaVerif.Upsert

instance {ε α : Type} [DecidableEq ε] [DecidableEq α] : DecidableEq (Except ε α)
  | .ok a, .ok b => if h : a = b then isTrue (h ▸ rfl) else isFalse (fun e => by cases e; exact h rfl)
  | .error a, .error b =>
    if h : a = b then isTrue (h ▸ rfl) else isFalse (fun e => by cases e; exact h rfl)
  | .ok _, .error _ => isFalse (fun e => by cases e)
  | .error _, .ok _ => isFalse (fun e => by cases e)

/-! ## statements without bindparam() do not look at the bind values -/

theorem eval_no_bound (e : Expr) (old new : Row) (b1 b2 : List Val)
    (h : exprUsesBound e = false) : eval e old new b1 = eval e old new b2 := by
  induction e with
  | const v => rfl
  | excluded c => rfl
  | existing c => rfl
  | bound k => simp [exprUsesBound] at h
  | add a b iha ihb =>
    simp only [exprUsesBound, Bool.or_eq_false_iff] at h
    simp only [eval, iha h.1, ihb h.2]

theorem holds_no_bound (w : Cond) (old new : Row) (b1 b2 : List Val)
    (h : condUsesBound w = false) : holds w old new b1 = holds w old new b2 := by
  cases w with
  | always => rfl
  | lt a b =>
    simp only [condUsesBound, Bool.or_eq_false_iff] at h
    simp only [holds, eval_no_bound a old new b1 b2 h.1, eval_no_bound b old new b1 b2 h.2]
  | ne a b =>
    simp only [condUsesBound, Bool.or_eq_false_iff] at h
    simp only [holds, eval_no_bound a old new b1 b2 h.1, eval_no_bound b old new b1 b2 h.2]
  | isNull a =>
    simp only [condUsesBound] at h
    simp only [holds, eval_no_bound a old new b1 b2 h]

theorem applySet_no_bound (set : List (Nat × Expr)) (old new : Row) (b1 b2 : List Val)
    (h : set.any (fun ce => exprUsesBound ce.2) = false) :
    applySet set old new b1 = applySet set old new b2 := by
  unfold applySet
  have : ∀ (acc : Row), set.foldl (fun acc ce => acc.set ce.1 (eval ce.2 old new b1)) acc
      = set.foldl (fun acc ce => acc.set ce.1 (eval ce.2 old new b2)) acc := by
    induction set with
    | nil => intro acc; rfl
    | cons ce rest ih =>
      intro acc
      simp only [List.any_cons, Bool.or_eq_false_iff] at h
      simp only [List.foldl_cons, eval_no_bound ce.2 old new b1 b2 h.1]
      exact ih h.2 _
  exact this old

theorem pickClause_mem {cls : List Clause} {viol : List (List Nat)} {cl : Clause}
    (h : pickClause cls viol = some cl) : cl ∈ cls := by
  unfold pickClause at h
  exact List.mem_of_find?_eq_some h

theorem step_no_bound (s : Stmt) (tbl : List Row) (r : Row) (b1 b2 : List Val)
    (h : stmtUsesBound s = false) : step s tbl r b1 = step s tbl r b2 := by
  unfold step
  simp only
  split
  · rfl
  · split
    · rfl
    · split
      · rfl
      · rename_i cl hpick
        have hcl : actionUsesBound cl.action = false := by
          unfold stmtUsesBound at h
          rw [List.any_eq_false] at h
          have := h cl (pickClause_mem hpick)
          simpa using this
        cases hact : cl.action with
        | nothing => rfl
        | update set w =>
          rw [hact] at hcl
          simp only [actionUsesBound, Bool.or_eq_false_iff] at hcl
          simp only
          split
          · rfl
          · rename_i i _
            rw [holds_no_bound w _ r b1 b2 hcl.2, applySet_no_bound set _ r b1 b2 hcl.1]

/-! ## batched = row-at-a-time -/

theorem runBatch_eq_runRows (s : Stmt) (h : stmtUsesBound s = false) (binds : List Val) :
    ∀ (ps : List Param) (tbl : List Row), runBatch s binds tbl ps = runRows s tbl ps := by
  intro ps
  induction ps with
  | nil => intro tbl; rfl
  | cons p ps ih =>
    intro tbl
    simp only [runBatch, runRows, step_no_bound s tbl p.row binds p.binds h]
    split
    · rfl
    · rename_i tbl' out _
      rw [ih tbl']

theorem runRows_append (s : Stmt) :
    ∀ (a b : List Param) (tbl : List Row),
      runRows s tbl (a ++ b) =
        match runRows s tbl a with
        | .error e => .error e
        | .ok (t1, o1) =>
          match runRows s t1 b with
          | .error e => .error e
          | .ok (t2, o2) => .ok (t2, o1 ++ o2) := by
  intro a
  induction a with
  | nil =>
    intro b tbl
    simp only [List.nil_append, runRows]
    cases runRows s tbl b with
    | error e => rfl
    | ok r => rfl
  | cons p ps ih =>
    intro b tbl
    simp only [List.cons_append, runRows]
    cases hstep : step s tbl p.row p.binds with
    | error e => rfl
    | ok r =>
      obtain ⟨tbl', out⟩ := r
      simp only
      rw [ih b tbl']
      cases runRows s tbl' ps with
      | error e => rfl
      | ok r1 =>
        obtain ⟨t1, o1⟩ := r1
        simp only
        cases runRows s t1 b with
        | error e => rfl
        | ok r2 => rfl

theorem runBatched_eq_runRows_flatten (s : Stmt) (h : stmtUsesBound s = false) :
    ∀ (bs : List (List Param)) (tbl : List Row),
      runBatched s tbl bs = runRows s tbl bs.flatten := by
  intro bs
  induction bs with
  | nil => intro tbl; rfl
  | cons b bs ih =>
    intro tbl
    simp only [runBatched, List.flatten_cons, runRows_append, runBatch_eq_runRows s h]
    cases runRows s tbl b with
    | error e => rfl
    | ok r =>
      obtain ⟨t1, o1⟩ := r
      simp only [ih t1]
      cases runRows s t1 bs.flatten with
      | error e => rfl
      | ok r2 => rfl

/-- **upsert_batched_eq_rowwise** (`upsert_eq_spec` for the batched path): when the ON
    CONFLICT clause contains no bindparam(), sending the parameter sets in multi-VALUES
    batches of ANY positive size leaves the table in exactly the state — and produces
    exactly the RETURNING rows, or the error — of the insert-or-update fold over the
    parameter sets one by one. -/
theorem upsert_batched_eq_rowwise (s : Stmt) (h : stmtUsesBound s = false) (n : Nat) (hn : 0 < n)
    (tbl : List Row) (ps : List Param) :
    runBatched s tbl (SaVerif.Imv.chunk n ps) = runRows s tbl ps := by
  rw [runBatched_eq_runRows_flatten s h]
  unfold SaVerif.Imv.chunk
  rw [SaVerif.Imv.chunkAux_flatten n hn _ _ (Nat.le_refl _)]

theorem runBatchedFixed_eq_runRows_flatten (s : Stmt) (h : stmtUsesBound s = false)
    (binds : List Val) :
    ∀ (bs : List (List Param)) (tbl : List Row),
      runBatchedFixed s binds tbl bs = runRows s tbl bs.flatten := by
  intro bs
  induction bs with
  | nil => intro tbl; rfl
  | cons b bs ih =>
    intro tbl
    simp only [runBatchedFixed, List.flatten_cons, runRows_append, runBatch_eq_runRows s h]
    cases runRows s tbl b with
    | error e => rfl
    | ok r =>
      obtain ⟨t1, o1⟩ := r
      simp only [ih t1]
      cases runRows s t1 bs.flatten with
      | error e => rfl
      | ok r2 => rfl

/-- the named-paramstyle variant (non-VALUES binds taken once from the first parameter set
    of the whole list) -/
theorem upsert_batched_fixed_eq_rowwise (s : Stmt) (h : stmtUsesBound s = false) (n : Nat)
    (hn : 0 < n) (binds : List Val) (tbl : List Row) (ps : List Param) :
    runBatchedFixed s binds tbl (SaVerif.Imv.chunk n ps) = runRows s tbl ps := by
  rw [runBatchedFixed_eq_runRows_flatten s h]
  unfold SaVerif.Imv.chunk
  rw [SaVerif.Imv.chunkAux_flatten n hn _ _ (Nat.le_refl _)]

/-- same, when every parameter set of a batch happens to carry the same bind values -/
theorem upsert_batched_eq_rowwise_same_binds (s : Stmt) (binds : List Val) :
    ∀ (ps : List Param) (tbl : List Row), (∀ p ∈ ps, p.binds = binds) →
      runBatch s binds tbl ps = runRows s tbl ps := by
  intro ps
  induction ps with
  | nil => intro tbl _; rfl
  | cons p ps ih =>
    intro tbl hall
    simp only [runBatch, runRows, hall p List.mem_cons_self]
    split
    · rfl
    · rename_i tbl' out _
      rw [ih tbl' (fun q hq => hall q (List.mem_cons_of_mem _ hq))]

/-- **upsert_bound_batched_counterexample** (issue 13130): with `SET a = bindparam()` the
    batched form is wrong — one statement has one SET clause, so every row of the batch
    is updated with the first set's value.  This is why `chooseMode` sends
    `has_upsert_bound_parameters` statements row by row (C12 `upsert_bound_never_batched`). -/
theorem upsert_bound_batched_counterexample :
    ∃ (s : Stmt) (tbl : List Row) (ps : List Param),
      stmtUsesBound s = true ∧
      runBatched s tbl (SaVerif.Imv.chunk 2 ps) ≠ runRows s tbl ps :=
  ⟨⟨[[0]], [⟨some [0], .update [(1, .bound 0)] .always⟩], []⟩,
    [[some 1, some 0], [some 2, some 0]],
    [⟨[some 1, some 5], [some 7]⟩, ⟨[some 2, some 6], [some 8]⟩], by decide, by decide⟩

/-! ## RETURNING and DO NOTHING -/

/-- **returning_rows_in_param_order**: the row-at-a-time execution yields exactly one
    RETURNING slot per parameter set, in parameter order (`none` = nothing returned for
    that set: DO NOTHING or a false WHERE); concatenating the non-empty slots is what C12's
    downgraded mode delivers. -/
theorem returning_rows_in_param_order (s : Stmt) :
    ∀ (ps : List Param) (tbl tbl' : List Row) (outs : List (Option Row)),
      runRows s tbl ps = .ok (tbl', outs) → outs.length = ps.length := by
  intro ps
  induction ps with
  | nil => intro tbl tbl' outs h; simp only [runRows] at h; cases h; rfl
  | cons p ps ih =>
    intro tbl tbl' outs h
    simp only [runRows] at h
    split at h
    · cases h
    · rename_i t1 out _
      split at h
      · cases h
      · rename_i t2 outs' hrest
        cases h
        simp [ih t1 _ outs' hrest]

theorem findConflict_lt {u : List Nat} {tbl : List Row} {r : Row} {i : Nat}
    (h : findConflict u tbl r = some i) : i < tbl.length := by
  unfold findConflict at h
  by_cases hlt : tbl.findIdx (conflictsOn u r) < tbl.length
  · simp only [hlt, ↓reduceIte, Option.some.injEq] at h
    omega
  · simp [hlt] at h

/-- a returned row is the row that sits in the table right after its parameter set -/
theorem step_returned_row_in_table (s : Stmt) (tbl tbl' : List Row) (r out : Row) (binds : List Val)
    (h : step s tbl r binds = .ok (tbl', some out)) : out ∈ tbl' := by
  unfold step at h
  simp only at h
  split at h
  · cases h
  · split at h
    · cases h; simp
    · split at h
      · cases h
      · split at h
        · cases h
        · split at h
          · cases h
          · rename_i i hfc
            split at h
            · split at h
              · cases h
              · cases h
                have hi : i < tbl.length := findConflict_lt hfc
                exact List.mem_iff_getElem.2 ⟨i, by simpa using hi, by simp⟩
            · cases h

/-- **do_nothing_keeps_existing**: if every clause is DO NOTHING, no existing row is ever
    touched: the old table is a prefix of the new one. -/
theorem do_nothing_keeps_existing (s : Stmt)
    (hall : ∀ cl ∈ s.clauses, cl.action = .nothing) :
    ∀ (ps : List Param) (tbl tbl' : List Row) (outs : List (Option Row)),
      runRows s tbl ps = .ok (tbl', outs) → tbl <+: tbl' := by
  intro ps
  induction ps with
  | nil => intro tbl tbl' outs h; simp only [runRows] at h; cases h; exact List.prefix_refl _
  | cons p ps ih =>
    intro tbl tbl' outs h
    simp only [runRows] at h
    split at h
    · cases h
    · rename_i t1 out hstep
      split at h
      · cases h
      · rename_i t2 outs' hrest
        cases h
        have h1 : tbl <+: t1 := by
          unfold step at hstep
          simp only at hstep
          split at hstep
          · cases hstep
          · split at hstep
            · cases hstep; exact List.prefix_append _ _
            · split at hstep
              · cases hstep
              · rename_i cl hpick
                rw [hall cl (pickClause_mem hpick)] at hstep
                cases hstep; exact List.prefix_refl _
        exact h1.trans (ih t1 _ outs' hrest)

/-! ## unique constraints stay satisfied -/

/-- every unique constraint holds in the table (NULLs never collide) -/
def UniqueOK (us : List (List Nat)) (tbl : List Row) : Prop :=
  ∀ u ∈ us, tbl.Pairwise (fun a b => conflictsOn u a b = false)

theorem conflictsOn_symm (u : List Nat) (a b : Row) : conflictsOn u a b = conflictsOn u b a := by
  unfold conflictsOn
  congr 1
  funext c
  cases cell a c <;> cases cell b c <;> simp [Bool.beq_comm]
  all_goals exact Bool.eq_iff_iff.2 ⟨fun h => by simpa [eq_comm] using h, fun h => by simpa [eq_comm] using h⟩

theorem pairwise_set {α : Type} {R : α → α → Prop} (e : α) :
    ∀ (l : List α) (i : Nat), l.Pairwise R →
      (∀ j x, l[j]? = some x → j ≠ i → R x e ∧ R e x) → (l.set i e).Pairwise R := by
  intro l
  induction l with
  | nil => intro i _ _; simp
  | cons a t ih =>
    intro i hp hall
    rw [List.pairwise_cons] at hp
    cases i with
    | zero =>
      simp only [List.set_cons_zero, List.pairwise_cons]
      refine ⟨?_, hp.2⟩
      intro x hx
      obtain ⟨j, hj, rfl⟩ := List.getElem_of_mem hx
      exact (hall (j + 1) t[j] (by simp [hj]) (by omega)).2
    | succ i' =>
      simp only [List.set_cons_succ, List.pairwise_cons]
      refine ⟨?_, ih i' hp.2 ?_⟩
      · intro x hx
        rcases List.mem_or_eq_of_mem_set hx with hx | rfl
        · exact hp.1 x hx
        · exact (hall 0 a (by simp) (by omega)).1
      · intro j x hj hne
        exact hall (j + 1) x (by simpa using hj) (by omega)

/-- **step_preserves_unique**: a parameter set that is accepted (insert, DO NOTHING, DO
    UPDATE) leaves every unique constraint of the table satisfied -/
theorem step_preserves_unique (s : Stmt) (tbl tbl' : List Row) (r : Row) (binds : List Val)
    (out : Option Row) (hok : UniqueOK s.uniques tbl)
    (h : step s tbl r binds = .ok (tbl', out)) : UniqueOK s.uniques tbl' := by
  unfold step at h
  simp only at h
  split at h
  · cases h
  · split at h
    · rename_i hviol
      cases h
      intro u hu
      rw [List.pairwise_append]
      refine ⟨hok u hu, by simp, ?_⟩
      intro a ha b hb
      simp only [List.mem_singleton] at hb
      subst hb
      -- no constraint is violated by r
      have : (violated s tbl b) = [] := by simpa using hviol
      unfold violated at this
      rw [List.filter_eq_nil_iff] at this
      have h1 := this u hu
      simp only [List.any_eq_true, not_exists, not_and, Bool.not_eq_true] at h1
      rw [conflictsOn_symm]
      exact h1 a ha
    · split at h
      · cases h
      · split at h
        · cases h; exact hok
        · split at h
          · cases h
          · rename_i i hfc
            split at h
            · split at h
              · cases h
              · rename_i hcoll
                cases h
                intro u hu
                apply pairwise_set _ _ _ (hok u hu)
                intro j x hj hne
                simp only [Bool.or_eq_true, not_or, Bool.not_eq_true] at hcoll
                have hc := hcoll.1
                unfold collidesElsewhere at hc
                rw [List.any_eq_false] at hc
                have h2 := hc u hu
                simp only [Bool.not_eq_true] at h2
                rw [List.any_eq_false] at h2
                have h3 := h2 (x, j) (List.mem_zipIdx_iff_getElem?.2 hj)
                simp only [Bool.and_eq_true, bne_iff_ne, ne_eq, not_and, Bool.not_eq_true] at h3
                have h4 := h3 hne
                exact ⟨by rw [conflictsOn_symm]; exact h4, h4⟩
            · cases h; exact hok

/-- the same for a whole executemany -/
theorem upsert_preserves_unique (s : Stmt) :
    ∀ (ps : List Param) (tbl tbl' : List Row) (outs : List (Option Row)),
      UniqueOK s.uniques tbl → runRows s tbl ps = .ok (tbl', outs) → UniqueOK s.uniques tbl' := by
  intro ps
  induction ps with
  | nil => intro tbl tbl' outs hok h; simp only [runRows] at h; cases h; exact hok
  | cons p ps ih =>
    intro tbl tbl' outs hok h
    simp only [runRows] at h
    split at h
    · cases h
    · rename_i t1 out hstep
      split at h
      · cases h
      · rename_i t2 outs' hrest
        cases h
        exact ih t1 _ outs' (step_preserves_unique s tbl t1 p.row p.binds out hok hstep) hrest

/-! ## MySQL ON DUPLICATE KEY UPDATE: left-to-right assignments -/

def cellAgree (a b : Row) (cols : List Nat) : Prop := ∀ x ∈ cols, cell a x = cell b x

theorem eval_agree (e : Expr) (a b new : Row) (binds : List Val)
    (h : cellAgree a b (exprReads e)) : eval e a new binds = eval e b new binds := by
  induction e with
  | const v => rfl
  | excluded c => rfl
  | existing c => exact h c (by simp [exprReads])
  | bound k => rfl
  | add x y ihx ihy =>
    simp only [eval]
    rw [ihx (fun c hc => h c (by simp [exprReads, hc])),
      ihy (fun c hc => h c (by simp [exprReads, hc]))]

/-- no right-hand side reads a column assigned earlier in the list -/
def NoReadAfterWrite : List (Nat × Expr) → Prop
  | [] => True
  | (c, _) :: rest => (∀ ce ∈ rest, c ∉ exprReads ce.2) ∧ NoReadAfterWrite rest

theorem cell_set_ne (r : Row) (c x : Nat) (v : Val) (h : c ≠ x) : cell (r.set c v) x = cell r x := by
  unfold cell
  simp [List.getD_eq_getElem?_getD, List.getElem?_set_ne h]

/-- **mysql_sequential_eq_simultaneous**: MySQL applies the assignments of ON DUPLICATE KEY
    UPDATE left to right, later ones seeing earlier results; that equals the simultaneous
    (PostgreSQL / SQLite) reading whenever no right-hand side reads an earlier-assigned
    column — in particular for the usual `col = VALUES(col)` / `col = new.col` forms. -/
theorem mysql_sequential_eq_simultaneous (set : List (Nat × Expr)) (old new : Row)
    (binds : List Val) (h : NoReadAfterWrite set) :
    applySetSequential set old new binds = applySet set old new binds := by
  unfold applySetSequential applySet
  have : ∀ (set : List (Nat × Expr)) (acc : Row), NoReadAfterWrite set →
      (∀ ce ∈ set, cellAgree acc old (exprReads ce.2)) →
      set.foldl (fun acc ce => acc.set ce.1 (eval ce.2 acc new binds)) acc
        = set.foldl (fun acc ce => acc.set ce.1 (eval ce.2 old new binds)) acc := by
    intro set
    induction set with
    | nil => intro acc _ _; rfl
    | cons ce rest ih =>
      intro acc hraw hag
      obtain ⟨c, e⟩ := ce
      simp only [List.foldl_cons]
      rw [eval_agree e acc old new binds (hag (c, e) List.mem_cons_self)]
      apply ih _ hraw.2
      intro ce' hce' x hx
      have hne : c ≠ x := by
        intro heq
        exact hraw.1 ce' hce' (heq ▸ hx)
      rw [cell_set_ne _ _ _ _ hne]
      exact hag ce' (List.mem_cons_of_mem _ hce') x hx
  exact this set old h (fun _ _ _ _ => rfl)

/-- the hypothesis is needed: `a = a + 1, b = a` differs between the two readings -/
theorem mysql_sequential_counterexample :
    applySetSequential [(0, .add (.existing 0) (.const (some 1))), (1, .existing 0)] [some 5, some 0] [] []
      ≠ applySet [(0, .add (.existing 0) (.const (some 1))), (1, .existing 0)] [some 5, some 0] [] [] := by
  decide

/-! ## non-vacuity -/

example : runRows ⟨[[0], [1]], [⟨some [0], .update [(2, .add (.existing 2) (.excluded 2))] .always⟩,
      ⟨none, .nothing⟩], [0]⟩
    [[some 1, some 10, some 5], [some 2, some 20, some 5]]
    [⟨[some 1, some 99, some 7], []⟩, ⟨[some 3, some 20, some 1], []⟩, ⟨[some 4, some 40, some 1], []⟩]
    = .ok ([[some 1, some 10, some 12], [some 2, some 20, some 5], [some 4, some 40, some 1]],
           [some [some 1, some 10, some 12], none, some [some 4, some 40, some 1]]) := by decide
example : runRows ⟨[[0], [1]], [⟨some [0], .nothing⟩], []⟩ [[some 1, some 10]]
    [⟨[some 2, some 10], []⟩] = .error .constraint := by decide
example : stmtUsesBound ⟨[[0]], [⟨some [0], .update [(1, .excluded 1)] (.lt (.existing 1) (.excluded 1))⟩], []⟩
    = false := by decide
example : NoReadAfterWrite [(1, .excluded 1), (2, .add (.existing 2) (.excluded 2))] := by
  simp [NoReadAfterWrite, exprReads]

end SaVerif.Props.C56
