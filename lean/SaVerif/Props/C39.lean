import SaVerif.Lemmas.Cascade
import SaVerif.Gen.CascadeTable
/-!
# C39 — Cascades follow their configured rules

Part 1 (this file, first milestone): `Mapper.cascade_iterator` +
`RelationshipProperty.cascade_iterator` transcribed (`SaVerif/Model/Cascade.lean`).
`cascade_reaches_exactly`: for ANY object graph (cycles, shared children, self references),
any relationship flag assignment and any `halt_on`, the objects yielded by the traversal are
exactly those reachable from the root through at least one edge whose relationship carries the
cascade (and whose target is not halted), each exactly once (`cascade_nodup`).
-/
namespace SaVerif.Props.C39
open SaVerif.Cascade

/-- everything the traversal yields is reachable through flagged edges -/
theorem cascade_sound (g : Graph) (fuel root : Nat) (out : List Nat)
    (h : cascade g fuel root = some out) : ∀ y, y ∈ out → Reach g root y := by
  unfold cascade at h
  cases hl : loop g fuel { stack := [.props root (allRels g)], visited := [], out := [] } with
  | none => rw [hl] at h; cases h
  | some s' =>
    rw [hl] at h
    simp only [Option.map_some, Option.some.injEq] at h
    subst h
    have ⟨hI, _⟩ := inv_loop g root fuel _ s' (inv_init g root) hl
    intro y hy
    exact hI.sound y ((hI.cover y).2 (Or.inl hy))

/-- everything reachable through flagged edges is yielded -/
theorem cascade_complete (g : Graph) (fuel root : Nat) (out : List Nat)
    (h : cascade g fuel root = some out) : ∀ y, Reach g root y → y ∈ out := by
  unfold cascade at h
  cases hl : loop g fuel { stack := [.props root (allRels g)], visited := [], out := [] } with
  | none => rw [hl] at h; cases h
  | some s' =>
    rw [hl] at h
    simp only [Option.map_some, Option.some.injEq] at h
    subst h
    have ⟨hI, hE⟩ := inv_loop g root fuel _ s' (inv_init g root) hl
    -- with an empty stack: visited = yielded, and root ∪ yielded is closed under flagged edges
    have hvis : ∀ x, x ∈ s'.visited → x ∈ s'.out := by
      intro x hx
      rcases (hI.cover x).1 hx with h1 | h1
      · exact h1
      · rw [hE] at h1; cases h1
    have hclosed : ∀ x, (x = root ∨ x ∈ s'.out) → ∀ c, Edge g x c → c ∈ s'.out := by
      intro x hx c ⟨r, hr, hfl, hcv, hh⟩
      rcases hI.closed x hx r hr hfl c hcv hh with h1 | ⟨rs, hm, _⟩
      · exact hvis c h1
      · rw [hE] at hm; cases hm
    intro y hy
    induction hy with
    | one e => exact hclosed root (Or.inl rfl) _ e
    | more _ e ih => exact hclosed _ (Or.inr ih) _ e

/-- **cascade_reaches_exactly**: the set of objects an operation's cascade reaches is the
    transitive closure over edges whose relationship has the cascade flag -/
theorem cascade_reaches_exactly (g : Graph) (fuel root : Nat) (out : List Nat)
    (h : cascade g fuel root = some out) (y : Nat) : y ∈ out ↔ Reach g root y :=
  ⟨cascade_sound g fuel root out h y, cascade_complete g fuel root out h y⟩

/-- each reached object is yielded exactly once -/
theorem cascade_nodup (g : Graph) (fuel root : Nat) (out : List Nat)
    (h : cascade g fuel root = some out) : out.Nodup := by
  unfold cascade at h
  cases hl : loop g fuel { stack := [.props root (allRels g)], visited := [], out := [] } with
  | none => rw [hl] at h; cases h
  | some s' =>
    rw [hl] at h
    simp only [Option.map_some, Option.some.injEq] at h
    subst h
    have ⟨hI, hE⟩ := inv_loop g root fuel _ s' (inv_init g root) hl
    have := hI.nodup
    rw [hE] at this
    simpa [pend] using this

/-- a cycle through the root, a shared child and an unflagged relationship:
    0 -r0-> 1, 1 -r0-> 0 (cycle), 0 -r1-> 2, 1 -r1-> 2 (shared), 2 -r2-> 3 (r2 not flagged) -/
def exampleGraph : Graph where
  nrels := 3
  flag := fun r => r != 2
  halt := fun _ => false
  vals := fun n r =>
    if n = 0 ∧ r = 0 then [1] else if n = 1 ∧ r = 0 then [0]
    else if (n = 0 ∨ n = 1) ∧ r = 1 then [2] else if n = 2 ∧ r = 2 then [3] else []

/-- non-vacuity -/
example : cascade exampleGraph 100 0 = some [1, 0, 2] := by decide

/-! ## session operations as closures

`Session._save_or_update_state`, `Session._delete_impl(head=True)` and `Session.expunge` apply
their per-object action to the root and to every object yielded by the iterator.  With
`out` the yielded list, the affected set is therefore the reflexive-transitive closure. -/

/-- `Session.add(root)`: `_save_or_update_impl` on the root and on everything the save-update
    cascade yields, `halt_on = self._contains_state` -/
def addOp (inSess : Nat → Bool) (root : Nat) (out : List Nat) : Nat → Bool :=
  fun y => inSess y || y == root || out.contains y

/-- **add_reaches_exactly**: after `session.add(root)` an object is in the session iff it was
    already, or it is the root, or it is reachable from the root through save-update edges
    along objects that were not yet in the session -/
theorem add_reaches_exactly (g : Graph) (inSess : Nat → Bool) (hh : g.halt = inSess)
    (fuel root : Nat) (out : List Nat) (h : cascade g fuel root = some out) (y : Nat) :
    addOp inSess root out y = true ↔ inSess y = true ∨ y = root ∨ Reach g root y := by
  have := cascade_reaches_exactly g fuel root out h y
  simp only [addOp, Bool.or_eq_true, beq_iff_eq, List.contains_eq_mem, decide_eq_true_eq, this]
  constructor
  · rintro ((h1 | h1) | h1)
    · exact Or.inl h1
    · exact Or.inr (Or.inl h1)
    · exact Or.inr (Or.inr h1)
  · rintro (h1 | h1 | h1)
    · exact Or.inl (Or.inl h1)
    · exact Or.inl (Or.inr h1)
    · exact Or.inr h1

/-- `Session.delete(root)`: the root and every object the delete cascade yields is marked
    deleted — `_delete_impl(head=False)` returns early for objects without an identity key -/
def deleteOp (deleted hasKey : Nat → Bool) (root : Nat) (out : List Nat) : Nat → Bool :=
  fun y => deleted y || (hasKey y && (y == root || out.contains y))

/-- **delete_reaches_exactly** -/
theorem delete_reaches_exactly (g : Graph) (deleted hasKey : Nat → Bool) (fuel root : Nat)
    (out : List Nat) (h : cascade g fuel root = some out) (y : Nat) :
    deleteOp deleted hasKey root out y = true ↔
      deleted y = true ∨ (hasKey y = true ∧ (y = root ∨ Reach g root y)) := by
  have := cascade_reaches_exactly g fuel root out h y
  simp only [deleteOp, Bool.or_eq_true, Bool.and_eq_true, beq_iff_eq, List.contains_eq_mem,
    decide_eq_true_eq, this]

/-- `Session.expunge(root)`: the root and everything the expunge cascade yields leaves the
    session -/
def expungeOp (inSess : Nat → Bool) (root : Nat) (out : List Nat) : Nat → Bool :=
  fun y => inSess y && !(y == root || out.contains y)

/-- **expunge_reaches_exactly** -/
theorem expunge_reaches_exactly (g : Graph) (inSess : Nat → Bool) (fuel root : Nat)
    (out : List Nat) (h : cascade g fuel root = some out) (y : Nat) :
    expungeOp inSess root out y = true ↔
      inSess y = true ∧ ¬ (y = root ∨ Reach g root y) := by
  have := cascade_reaches_exactly g fuel root out h y
  simp only [expungeOp, Bool.and_eq_true, Bool.not_eq_true', Bool.or_eq_false_iff,
    beq_eq_false_iff_ne, ne_eq, List.contains_eq_mem, decide_eq_false_iff_not, this, not_or]

/-! ## the CascadeOptions table (regenerated from orm/util.py on every run) -/

open SaVerif.Gen.CascadeTable in
/-- `all` stands for exactly save-update, merge, refresh-expire, expunge, delete -/
theorem all_expands_to_five :
    (normalize ["all"]).map (fun l => (["delete", "expunge", "merge", "refresh-expire", "save-update"].all l.contains)
      && l.length == 5) = some true := by
  decide

open SaVerif.Gen.CascadeTable in
/-- `all` never implies delete-orphan; `all, delete-orphan` adds exactly it -/
theorem all_excludes_delete_orphan :
    (normalize ["all"]).map (fun l => l.contains "delete-orphan") = some false ∧
    (normalize ["all", "delete-orphan"]).map (fun l => l.contains "delete-orphan" && l.length == 6) = some true := by
  decide

open SaVerif.Gen.CascadeTable in
/-- `none` clears whatever else is given -/
theorem none_clears :
    normalize ["none"] = some [] ∧ normalize ["all", "none"] = some [] ∧
    normalize ["delete", "none", "delete-orphan"] = some [] := by
  decide

open SaVerif.Gen.CascadeTable in
/-- every flag attribute of CascadeOptions is read from the option of the same name, and an
    unknown option is rejected -/
theorem flag_attrs_named :
    flagAttrs.all (fun p => p.1.toList.map (fun c => if c = '_' then '-' else c) == p.2.toList) = true ∧ flagAttrs.length = 6 ∧
    normalize ["bogus"] = none := by
  decide

open SaVerif.Gen.CascadeTable in
/-- the transcription `normalize` was made from this exact source of `CascadeOptions.__new__`;
    an edit to the function breaks this obligation and triggers the exhaustive option search -/
theorem normalize_source_unchanged : newSourceSha = "b2a616930b4731d3e32b140605c008f4d8d38246" := by
  decide

end SaVerif.Props.C39
