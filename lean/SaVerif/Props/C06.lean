import SaVerif.Lemmas.Ident
import SaVerif.Model.IdentBackends
import SaVerif.Gen.IdentTables
/-!
# C06 — Identifier quoting round-trips every representable name

Theorems about M-STR/identifiers (`SaVerif/Model/Ident.lean`, a transcription of
`IdentifierPreparer` and its dialect subclasses).  The general theorems hold for
every preparer satisfying the decidable side conditions `wf` / `compat`; these are
discharged for each shipped dialect by `decide` over `SaVerif/Gen/IdentTables.lean`,
which the translator regenerates from the working tree on every run — so an edit to
a reserved-word list, to `LEGAL_CHARACTERS`, to the quote characters or to
`_escape_identifier` / `_unescape_identifier` re-runs these proofs.
-/
namespace SaVerif.Props.C06
open SaVerif.Ident SaVerif.Gen.IdentTables

/-! ## splitting a formatted dotted identifier recovers the components -/

/-- what `unformat_identifiers` returns for a component: the name itself, except
    that under `format`/`pyformat` paramstyles a *quoted* name keeps the `%%` that
    `_escape_identifier` wrote for the DBAPI (`_unescape_identifier` does not undo it) -/
def img (p : Prep) (n : Str) : Str :=
  if requiresQuotes p n = some true then n.flatMap (pctChar (dbl p)) else n

/-- **unformat_format** — for every list of non-empty names (any characters: quotes,
    dots, newlines, percent signs, unicode), `unformat_identifiers` applied to the
    dotted rendering returns one component per name, each the image `img` of the name. -/
theorem unformat_format (p : Prep) (h : WF p) (names : List Str) (hne : ∀ n ∈ names, n ≠ [])
    (text : Str) (hf : formatDotted p names = some text) :
    unformat p text = names.map (img p) := by
  unfold formatDotted at hf
  cases hq : quoteAll p names with
  | none => simp [hq] at hf
  | some qs =>
    simp only [hq, Option.map_some, Option.some.injEq] at hf
    subst hf
    unfold unformat
    rw [findall_format p h names qs hq hne _ (Nat.le_refl _), List.map_map]
    apply List.map_congr_left
    intro n hn
    simp only [Function.comp, grp, img]
    by_cases hr : requiresQuotes p n = some true
    · have hne' : (escape p n).isEmpty = false := by
        simpa using escape_ne_nil p h n (hne n hn)
      simp only [hr, if_true, hne', Bool.false_eq_true, if_false]
      exact unescape_escape p h n
    · simp only [hr, if_false, List.isEmpty_nil, if_true]
      -- an unquoted component contains no closing-quote character
      have hq1 : ∃ q, quote p none n = some q := by
        clear hr
        induction names generalizing qs with
        | nil => cases hn
        | cons a as ih =>
          simp only [quoteAll] at hq
          cases hqa : quote p none a with
          | none => simp [hqa] at hq
          | some qa =>
            cases hqas : quoteAll p as with
            | none => simp [hqa, hqas] at hq
            | some qas =>
              simp only [List.mem_cons] at hn
              rcases hn with hn | hn
              · exact ⟨qa, hn ▸ hqa⟩
              · exact ih (fun m hm => hne m (by simp [hm])) qas hqas hn
      obtain ⟨q, hq1⟩ := hq1
      have hfalse : requiresQuotes p n = some false := by
        unfold quote at hq1
        simp only at hq1
        cases hrq : requiresQuotes p n with
        | none => rw [hrq] at hq1; cases hq1
        | some b => cases b; rfl; exact absurd hrq hr
      have := (bare_chars p h n hfalse).2.2.1
      simp only [unescape, applyOps, h.unesc, List.foldl_cons, List.foldl_nil]
      exact pyReplace_pair_free p.fq n this

/-- with a non-doubling paramstyle the components come back exactly -/
theorem unformat_format_exact (p : Prep) (h : WF p) (hd : dbl p = false) (names : List Str)
    (hne : ∀ n ∈ names, n ≠ []) (text : Str) (hf : formatDotted p names = some text) :
    unformat p text = names := by
  rw [unformat_format p h names hne text hf]
  have : img p = id := by
    funext n; unfold img; rw [hd, flatMap_pctChar_false]; split <;> rfl
  simp [this]

/-- every name without a percent sign comes back exactly, on every dialect -/
theorem unformat_format_nopct (p : Prep) (h : WF p) (names : List Str)
    (hne : ∀ n ∈ names, n ≠ []) (hp : ∀ n ∈ names, 37 ∉ n) (text : Str)
    (hf : formatDotted p names = some text) : unformat p text = names := by
  rw [unformat_format p h names hne text hf]
  have : ∀ n ∈ names, img p n = n := by
    intro n hn; unfold img
    split
    · have : ∀ (s : Str), 37 ∉ s → s.flatMap (pctChar (dbl p)) = s := by
        intro s hs
        induction s with
        | nil => rfl
        | cons c t ih =>
          have hc : c ≠ 37 := fun e => hs (by simp [e])
          simp [pctChar, hc, ih (fun e => hs (by simp [e]))]
      exact this n (hp n hn)
    · rfl
  calc names.map (img p) = names.map id := List.map_congr_left this
    _ = names := by simp

/-! ## a rendered identifier is one token that the server decodes to the name -/

/-- **lex_quoted** — a delimited identifier produced by `quote_identifier`, after the
    DBAPI's `%`-formatting where the paramstyle has one, is a single token for the
    backend lexer and denotes exactly `n`; whatever follows is left untouched. -/
theorem lex_quoted (p : Prep) (b : Backend) (h : WF p) (hiq : b.iq = p.iq) (hfq : b.fq = p.fq)
    (n rest : Str) (hn : n ≠ []) (hr : ∀ c t, rest = c :: t → c ≠ p.fq) :
    ∃ t, serverSees p (quoteIdentifier p n) = some t ∧ lexIdent b (t ++ rest) = some (n, rest) := by
  refine ⟨_, serverSees_quoted p h n, ?_⟩
  have hb := lexQuotedBody_escaped p.fq n rest hr
  have hne : n.isEmpty = false := by simpa using hn
  simp [lexIdent, hiq, hfq, hb, hne]

/-- full statement (false, see `lex_quote_counterexample`):
    `quote p none n = some q → … → lexIdent b (q' ++ rest) = some (n, rest)` for every `n`.
    The forced hypothesis `hnl` excludes names that end in a newline after a
    non-empty run of legal characters: `LEGAL_CHARACTERS` ends in `$`, which also
    matches before a trailing `\n`, so such names are emitted unquoted. -/
theorem lex_quote_partial (p : Prep) (b : Backend) (hw : WF p) (hc : Compat p b)
    (n q rest : Str) (hn : n ≠ []) (hq : quote p none n = some q)
    (hnl : requiresQuotes p n = some false → n.getLast? ≠ some 10)
    (hr : ∀ c t, rest = c :: t → c ≠ p.fq ∧ b.isCont c = false) :
    ∃ t, serverSees p q = some t ∧
      lexIdent b (t ++ rest) =
        some (if requiresQuotes p n = some true then n else b.foldStr n, rest) := by
  unfold quote at hq
  simp only at hq
  cases hrq : requiresQuotes p n with
  | none => rw [hrq] at hq; cases hq
  | some bq =>
    rw [hrq] at hq
    cases bq with
    | true =>
      simp only [Option.some.injEq] at hq
      subst hq
      simpa using lex_quoted p b hw hc.iq hc.fq n rest hn (fun c t e => (hr c t e).1)
    | false =>
      simp only [Option.some.injEq] at hq
      subst hq
      have hpct := (bare_chars p hw n hrq).2.2.2
      refine ⟨n, ?_, ?_⟩
      · unfold serverSees
        split
        · have := unPercentAux_free n [] hpct
          simpa [unPercent, unPercentAux] using this
        · rfl
      · simpa using lex_bare p b hw hc n rest hrq (hnl hrq) (fun c t e => (hr c t e).2)

/-- on backends that do not fold to upper case the stored name is `n` itself -/
theorem lex_quote_partial_exact (p : Prep) (b : Backend) (hw : WF p) (hc : Compat p b)
    (hf : b.fold ≠ 2) (n q rest : Str) (hn : n ≠ []) (hq : quote p none n = some q)
    (hnl : requiresQuotes p n = some false → n.getLast? ≠ some 10)
    (hr : ∀ c t, rest = c :: t → c ≠ p.fq ∧ b.isCont c = false) :
    ∃ t, serverSees p q = some t ∧ lexIdent b (t ++ rest) = some (n, rest) := by
  obtain ⟨t, h1, h2⟩ := lex_quote_partial p b hw hc n q rest hn hq hnl hr
  refine ⟨t, h1, ?_⟩
  rw [h2]
  split
  · rfl
  · rename_i hne
    have hfalse : requiresQuotes p n = some false := by
      unfold quote at hq
      simp only at hq
      cases hrq : requiresQuotes p n with
      | none => rw [hrq] at hq; cases hq
      | some bq => cases bq; rfl; exact absurd hrq hne
    rw [foldStr_id p b hc n hfalse hf]

/-! ## every spelling of a backend keyword is quoted -/

/-- **reserved_quoted** — if the backend's grammar treats `k` as a keyword, every
    upper/lower/mixed-case spelling of `k` is rendered quoted. -/
theorem reserved_quoted (p : Prep) (b : Backend) (hc : Compat p b) (n : Str)
    (hk : n.map asciiLowerChar ∈ b.keywords) : requiresQuotes p n = some true := by
  have hascii : ∀ c ∈ n, c < 128 := by
    intro c hcn
    have h1 := hc.kwAscii _ hk (asciiLowerChar c) (List.mem_map.2 ⟨c, hcn, rfl⟩)
    apply Classical.byContradiction
    intro hge
    rw [asciiLowerChar_high c (by omega)] at h1
    exact hge h1
  have hlow : lower p n = n.map asciiLowerChar := by
    unfold lower
    have : ∀ c ∈ n, lowerChar p c = [asciiLowerChar c] := fun c hcn => hc.ascii c (hascii c hcn)
    clear hk hascii
    induction n with
    | nil => rfl
    | cons a t ih =>
      simp only [List.flatMap_cons, List.map_cons, this a (by simp)]
      rw [ih (fun c hct => this c (by simp [hct]))]
      rfl
  have hres : p.reserved.contains (lower p n) = true := by
    rw [hlow]; simpa using hc.kw _ hk
  unfold requiresQuotes
  simp only [hres, if_true]

/-! ## the `_strings` memo is transparent for every call sequence -/

/-- **quote_cache_transparent** — starting from an empty memo, any sequence of
    `quote` calls (plain strings and `quoted_name`s with any `quote` flag, repeated
    or not) returns what the memo-free function returns for each call. -/
theorem quote_cache_transparent (p : Prep) (ops : List (Option Bool × Str)) :
    quoteSeq p [] ops = ops.map (fun op => quote p op.1 op.2) :=
  quoteSeq_spec p ops [] (cacheOK_nil p)

/-! ## case-folding dialects: `normalize_name` / `denormalize_name` -/

/-- **denormalize_normalize** — for every ASCII name `X` as a case-folding server
    (Oracle style) reports it — reserved words, names with illegal initial characters,
    upper, lower and mixed case — `denormalize_name(normalize_name(X))` is `X` again:
    the name SQLAlchemy hands back to catalog queries is the one the server stored.
    (`denormalize_normalize_gen` states it for any name under the two case-map
    identities `lower∘lower = lower`, `upper∘lower = upper`.) -/
theorem denormalize_normalize (p : Prep) (X n : Str) (f : Option Bool)
    (hX : ∀ c ∈ X, c < 128) (h : normalizeName p X = some (n, f)) :
    denormalizeName p f n = some X :=
  denormalize_normalize_ascii p X n f hX h

/-! ## instantiation for the shipped dialects (regenerated tables) -/

def allPreps : List Prep :=
  [default, sqlite, postgresql, pgasyncpg, mysql, mariadb, mysqlansi, mssql, oracle]

/-- preparers whose paramstyle does not double percent signs -/
def plainPreps : List Prep := [default, sqlite, pgasyncpg, mssql, oracle]

theorem all_wf : ∀ p ∈ allPreps, wf p = true := by decide +kernel

theorem plain_no_doubling : ∀ p ∈ plainPreps, wf p = true ∧ dbl p = false := by decide +kernel

/-- **unformat_format** for every shipped dialect -/
theorem unformat_format_dialects (p : Prep) (hp : p ∈ allPreps) (names : List Str)
    (hne : ∀ n ∈ names, n ≠ []) (text : Str) (hf : formatDotted p names = some text) :
    unformat p text = names.map (img p) :=
  unformat_format p (wf_iff p (all_wf p hp)) names hne text hf

theorem unformat_format_exact_dialects (p : Prep) (hp : p ∈ plainPreps) (names : List Str)
    (hne : ∀ n ∈ names, n ≠ []) (text : Str) (hf : formatDotted p names = some text) :
    unformat p text = names :=
  unformat_format_exact p (wf_iff p (plain_no_doubling p hp).1) (plain_no_doubling p hp).2
    names hne text hf

/-- SQLite: the backend keyword list is what the linked sqlite3 library rejects -/
def sqliteBackend : Backend := Backends.sqlite sqliteRejected

theorem sqlite_compat : compat sqlite sqliteBackend = true := by decide +kernel

/-- **reserved_quoted (SQLite)**: every spelling of every word that sqlite3 refuses as
    a bare identifier is quoted (this is the proof that broke before `returning` and
    `nothing` were added to `RESERVED_WORDS`). -/
theorem reserved_quoted_sqlite (n : Str) (hk : n.map asciiLowerChar ∈ sqliteRejected) :
    requiresQuotes sqlite n = some true :=
  reserved_quoted sqlite sqliteBackend (compat_iff _ _ sqlite_compat) n hk

/-- **lex_quote (SQLite)**: what SQLite's tokenizer reads back is the name -/
theorem lex_quote_sqlite_partial (n q rest : Str) (hn : n ≠ []) (hq : quote sqlite none n = some q)
    (hnl : requiresQuotes sqlite n = some false → n.getLast? ≠ some 10)
    (hr : ∀ c t, rest = c :: t → c ≠ 34 ∧ sqliteBackend.isCont c = false) :
    lexIdent sqliteBackend (q ++ rest) = some (n, rest) := by
  have hw := wf_iff sqlite (all_wf sqlite (by simp [allPreps]))
  obtain ⟨t, h1, h2⟩ := lex_quote_partial_exact sqlite sqliteBackend hw
    (compat_iff _ _ sqlite_compat) (by decide) n q rest hn hq hnl hr
  have : serverSees sqlite q = some q := by
    have : dbl sqlite = false := by decide +kernel
    simp [serverSees, this]
  rw [this] at h1
  cases h1
  exact h2

/-- the hypothesis `hnl` cannot be dropped: `"a\n"` is rendered unquoted and SQLite
    reads the identifier `a` (replayed on the real code by the harness) -/
theorem lex_quote_counterexample :
    quote sqlite none [97, 10] = some [97, 10] ∧
    lexIdent sqliteBackend [97, 10] = some ([97], [10]) := by decide +kernel

/-- `pgGap` (from the translator): PostgreSQL keywords (manual, Appendix C) missing from the
    dialect's `RESERVED_WORDS`; not executable offline, reported as a finding by the harness -/
def pgBackend : Backend :=
  Backends.postgresql (pgKeywords.filter (fun k => !pgGap.contains k))

theorem pg_compat_partial : compat postgresql pgBackend = true ∧ compat pgasyncpg pgBackend = true := by
  decide +kernel

/-- full statement (fails for the five `pgGap` words on the current tree):
    `n.map asciiLowerChar ∈ pgKeywords → requiresQuotes postgresql n = some true` -/
theorem reserved_quoted_pg_partial (n : Str) (hk : n.map asciiLowerChar ∈ pgKeywords)
    (hg : n.map asciiLowerChar ∉ pgGap) : requiresQuotes postgresql n = some true := by
  apply reserved_quoted postgresql pgBackend (compat_iff _ _ pg_compat_partial.1) n
  simp only [pgBackend, Backends.postgresql, List.mem_filter, hk, true_and]
  simpa using hg

/-- each gap word is a documented keyword and, wherever it is absent from
    `RESERVED_WORDS`, it is rendered unquoted (stated conditionally so that adding
    the word upstream does not break the proof) -/
theorem reserved_quoted_pg_gap : ∀ k ∈ pgGap, k ∈ pgKeywords ∧
    (postgresql.reserved.contains k = false → requiresQuotes postgresql k = some false) := by
  decide +kernel

/-- **lex_quote (PostgreSQL, both paramstyles)** outside the keyword gap -/
theorem lex_quote_pg_partial (p : Prep) (hp : p = postgresql ∨ p = pgasyncpg) (n q rest : Str)
    (hn : n ≠ []) (hq : quote p none n = some q)
    (hnl : requiresQuotes p n = some false → n.getLast? ≠ some 10)
    (hr : ∀ c t, rest = c :: t → c ≠ p.fq ∧ pgBackend.isCont c = false) :
    ∃ t, serverSees p q = some t ∧ lexIdent pgBackend (t ++ rest) = some (n, rest) := by
  rcases hp with hp | hp <;> subst hp
  · exact lex_quote_partial_exact _ _ (wf_iff _ (all_wf _ (by simp [allPreps])))
      (compat_iff _ _ pg_compat_partial.1) (by decide) n q rest hn hq hnl hr
  · exact lex_quote_partial_exact _ _ (wf_iff _ (all_wf _ (by simp [allPreps])))
      (compat_iff _ _ pg_compat_partial.2) (by decide) n q rest hn hq hnl hr

/-- MySQL / MariaDB / MSSQL / Oracle: the regular-identifier alphabet and quoting
    style agree with the backend grammar; their keyword lists are a parameter
    (any list contained in the dialect's `reserved_words`). -/
theorem other_compat :
    compat mysql (Backends.mysql []) = true ∧ compat mariadb (Backends.mysql []) = true ∧
    compat mysqlansi (Backends.mysqlAnsi []) = true ∧ compat mssql (Backends.mssql []) = true ∧
    compat oracle (Backends.oracle []) = true := by decide +kernel

/-- quoted identifiers decode to the name on every dialect -/
theorem lex_quoted_dialects :
    ∀ pb ∈ [(default, Backends.sqlite []), (sqlite, sqliteBackend), (postgresql, pgBackend),
            (pgasyncpg, pgBackend), (mysql, Backends.mysql []), (mariadb, Backends.mysql []),
            (mysqlansi, Backends.mysqlAnsi []), (mssql, Backends.mssql []),
            (oracle, Backends.oracle [])],
      wf pb.1 = true ∧ pb.2.iq = pb.1.iq ∧ pb.2.fq = pb.1.fq := by decide +kernel

/-! ## non-vacuity -/

-- a name with every troublesome character, in a three-part dotted name
example : formatDotted sqlite [ofS "a\"b.c", ofS "select", ofS "x_1"]
    = some (ofS "\"a\"\"b.c\".\"select\".x_1") := by decide +kernel
example : unformat sqlite (ofS "\"a\"\"b.c\".\"select\".x_1")
    = [ofS "a\"b.c", ofS "select", ofS "x_1"] := by decide +kernel
example : quoteIdentifier mssql (ofS "a]b") = ofS "[a]]b]" := by decide +kernel
example : unformat mssql (ofS "[a]]b].[T]") = [ofS "a]b", ofS "T"] := by decide +kernel
-- percent doubling is visible on pyformat dialects (img ≠ id there)
example : (formatDotted postgresql [ofS "a%b"]).map (unformat postgresql)
    = some [ofS "a%%b"] := by decide +kernel
example : lexIdent pgBackend (ofS "\"a%b\" FROM") = some (ofS "a%b", ofS " FROM") := by
  decide +kernel
example : requiresQuotes sqlite (ofS "ReTuRnInG") = some true := by decide +kernel
example : ofS "returning" ∈ sqliteRejected := by decide +kernel
example : quoteSeq sqlite [] [(none, ofS "a b"), (some false, ofS "a b"), (none, ofS "a b")]
    = [some (ofS "\"a b\""), some (ofS "a b"), some (ofS "\"a b\"")] := by decide +kernel
example : lexIdent (Backends.oracle []) (ofS "abc ") = some (ofS "ABC", ofS " ") := by
  decide +kernel
-- normalize_name: all-upper plain name folds to lower, reserved words and illegal initials do not
example : normalizeName sqlite (ofS "ABC") = some (ofS "abc", none) := by decide +kernel
example : normalizeName sqlite (ofS "ORDER") = some (ofS "ORDER", none) := by decide +kernel
example : normalizeName sqlite (ofS "1ABC") = some (ofS "1ABC", none) := by decide +kernel
example : normalizeName sqlite (ofS "abc") = some (ofS "abc", some true) := by decide +kernel
example : denormalizeName sqlite none (ofS "abc") = some (ofS "ABC") := by decide +kernel
example : denormalizeName sqlite (some true) (ofS "abc") = some (ofS "abc") := by decide +kernel

end SaVerif.Props.C06
