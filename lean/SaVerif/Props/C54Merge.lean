import SaVerif.Model.MergeLists
/-!
# C54 (extension) — `util.merge_lists_w_ordering` is an order-respecting duplicate-free union

`merge_lists_w_ordering(a, b)` lives in the anchored file util/_collections.py and is what
declarative uses to reconcile `vars(cls)` with `cls.__annotations__` (two duplicate-free key
lists).  For ALL duplicate-free lists `a`, `b` over any type with decidable equality:

* `merge_mem`      — the result holds exactly the elements of `a` and of `b`;
* `merge_nodup`    — no element is emitted twice (the shared names are emitted once);
* `merge_length`   — `|result| + |a ∩ b| = |a| + |b|`;
* `merge_disjoint` — without shared elements the result is `a ++ b`;
* `merge_nil_left` / `merge_nil_right` — the empty list is a unit;
* `merge_order_left` / `merge_order_right` — (ALL lists, duplicates included) the elements only
  one of the lists has keep the relative order they have in that list.

The proofs are by induction along the two-iterator loop with the invariant `Inv` below (every
element still in `overlap` is still ahead in BOTH iterators; every element ahead in both
iterators is still in `overlap`; nothing emitted is still ahead).  `merge_dup_counterexample`
shows the duplicate-free hypothesis is needed (the real code has the same behaviour, checked by
the correspondence run, which also feeds lists with duplicates).
-/
namespace SaVerif.Props.C54Merge
open SaVerif.MergeLists

variable {α : Type} [DecidableEq α]

/-- loop invariant of `go` -/
structure Inv (cur oth ov res : List α) : Prop where
  curNodup : cur.Nodup
  othNodup : oth.Nodup
  resNodup : res.Nodup
  ovBoth : ∀ x, x ∈ ov → x ∈ cur ∧ x ∈ oth
  bothOv : ∀ x, x ∈ cur → x ∈ oth → x ∈ ov
  resFresh : ∀ x, x ∈ res → x ∉ cur ∧ x ∉ oth

theorem inv_init (a b : List α) (ha : a.Nodup) (hb : b.Nodup) : Inv a b (overlap a b) [] := by
  refine ⟨ha, hb, List.nodup_nil, ?_, ?_, ?_⟩
  · intro x hx; simpa [overlap] using hx
  · intro x h1 h2; simp [overlap, h1, h2]
  · intro x hx; cases hx

theorem inv_swap {e : α} {rest oth ov res : List α} (h : Inv (e :: rest) oth ov res)
    (he : e ∈ ov) : Inv oth rest (ov.filter (fun x => x != e)) res := by
  have hcn := List.nodup_cons.mp h.curNodup
  refine ⟨h.othNodup, hcn.2, h.resNodup, ?_, ?_, ?_⟩
  · intro x hx
    have hx' : x ∈ ov ∧ x ≠ e := by simpa using hx
    have := h.ovBoth x hx'.1
    refine ⟨this.2, ?_⟩
    rcases List.mem_cons.mp this.1 with h1 | h1
    · exact absurd h1 hx'.2
    · exact h1
  · intro x h1 h2
    have hne : x ≠ e := by intro hh; subst hh; exact hcn.1 h2
    have := h.bothOv x (List.mem_cons_of_mem _ h2) h1
    simpa using ⟨this, hne⟩
  · intro x hx
    have := h.resFresh x hx
    exact ⟨this.2, fun hh => this.1 (List.mem_cons_of_mem _ hh)⟩

omit [DecidableEq α] in
theorem inv_emit {e : α} {rest oth ov res : List α} (h : Inv (e :: rest) oth ov res)
    (he : e ∉ ov) : Inv rest oth ov (res ++ [e]) := by
  have hcn := List.nodup_cons.mp h.curNodup
  have heo : e ∉ oth := fun hh => he (h.bothOv e (List.mem_cons_self) hh)
  refine ⟨hcn.2, h.othNodup, ?_, ?_, ?_, ?_⟩
  · rw [List.nodup_append]
    refine ⟨h.resNodup, by simp, ?_⟩
    intro x hx y hy
    have hy' : y = e := by simpa using hy
    subst hy'
    intro hxy; subst hxy
    exact (h.resFresh x hx).1 List.mem_cons_self
  · intro x hx
    have := h.ovBoth x hx
    refine ⟨?_, this.2⟩
    rcases List.mem_cons.mp this.1 with h1 | h1
    · subst h1; exact absurd hx he
    · exact h1
  · intro x h1 h2; exact h.bothOv x (List.mem_cons_of_mem _ h1) h2
  · intro x hx
    rcases List.mem_append.mp hx with h1 | h1
    · have := h.resFresh x h1
      exact ⟨fun hh => this.1 (List.mem_cons_of_mem _ hh), this.2⟩
    · have : x = e := by simpa using h1
      subst this; exact ⟨hcn.1, heo⟩

/-- membership and nodup of the loop result from any invariant state -/
theorem go_spec : ∀ (n : Nat) (cur oth ov res : List α), cur.length + oth.length = n →
    Inv cur oth ov res →
    (∀ x, x ∈ go cur oth ov res ↔ x ∈ res ∨ x ∈ cur ∨ x ∈ oth) ∧
    (go cur oth ov res).Nodup := by
  intro n
  induction n using Nat.strongRecOn with
  | _ n ih =>
    intro cur oth ov res hn h
    cases cur with
    | nil =>
      rw [go]
      refine ⟨by intro x; simp, ?_⟩
      rw [List.nodup_append]
      exact ⟨h.resNodup, h.othNodup, fun x hx y hy hxy => (h.resFresh x hx).2 (hxy ▸ hy)⟩
    | cons e rest =>
      rw [go]
      by_cases he : e ∈ ov
      · have hc : ov.contains e = true := by simpa using he
        simp only [hc, if_true]
        have h' := inv_swap h he
        obtain ⟨m1, m2⟩ := ih (oth.length + rest.length) (by simp at hn; omega) oth rest _ res rfl h'
        have heo : e ∈ oth := (h.ovBoth e he).2
        refine ⟨?_, m2⟩
        intro x; rw [m1 x]
        constructor
        · rintro (h1 | h1 | h1)
          · exact Or.inl h1
          · exact Or.inr (Or.inr h1)
          · exact Or.inr (Or.inl (List.mem_cons_of_mem _ h1))
        · rintro (h1 | h1 | h1)
          · exact Or.inl h1
          · rcases List.mem_cons.mp h1 with h2 | h2
            · subst h2; exact Or.inr (Or.inl heo)
            · exact Or.inr (Or.inr h2)
          · exact Or.inr (Or.inl h1)
      · have hc : ov.contains e = false := by simpa using he
        simp only [hc, Bool.false_eq_true, if_false]
        have h' := inv_emit h he
        obtain ⟨m1, m2⟩ := ih (rest.length + oth.length) (by simp at hn; omega) rest oth ov _ rfl h'
        refine ⟨?_, m2⟩
        intro x; rw [m1 x]
        simp only [List.mem_append, List.mem_cons, List.not_mem_nil, or_false]
        constructor
        · rintro ((h1 | h1) | h1 | h1)
          · exact Or.inl h1
          · exact Or.inr (Or.inl (Or.inl h1))
          · exact Or.inr (Or.inl (Or.inr h1))
          · exact Or.inr (Or.inr h1)
        · rintro (h1 | (h1 | h1) | h1)
          · exact Or.inl (Or.inl h1)
          · exact Or.inl (Or.inr h1)
          · exact Or.inr (Or.inl h1)
          · exact Or.inr (Or.inr h1)

/-- **merge_mem**: the result holds exactly the elements of the two lists -/
theorem merge_mem (a b : List α) (ha : a.Nodup) (hb : b.Nodup) (x : α) :
    x ∈ mergeListsWOrdering a b ↔ x ∈ a ∨ x ∈ b := by
  have := (go_spec _ a b (overlap a b) [] rfl (inv_init a b ha hb)).1 x
  simpa [mergeListsWOrdering] using this

/-- **merge_nodup**: nothing is emitted twice — a name present in both lists appears once -/
theorem merge_nodup (a b : List α) (ha : a.Nodup) (hb : b.Nodup) :
    (mergeListsWOrdering a b).Nodup :=
  (go_spec _ a b (overlap a b) [] rfl (inv_init a b ha hb)).2

/-- **merge_perm**: the result is a rearrangement of `a` followed by the elements of `b` that are
not in `a` (the duplicate-free union) -/
theorem merge_perm (a b : List α) (ha : a.Nodup) (hb : b.Nodup) :
    (mergeListsWOrdering a b).Perm (a ++ b.filter (fun x => !a.contains x)) := by
  rw [List.perm_ext_iff_of_nodup (merge_nodup a b ha hb)]
  · intro x; rw [merge_mem a b ha hb]
    by_cases hx : x ∈ a <;> simp [hx]
  · rw [List.nodup_append]
    refine ⟨ha, hb.filter _, ?_⟩
    intro x hx y hy hxy
    subst hxy
    simp [hx] at hy

/-- **merge_length**: `|result| = |a| + |b \ a|` -/
theorem merge_length (a b : List α) (ha : a.Nodup) (hb : b.Nodup) :
    (mergeListsWOrdering a b).length = a.length + (b.filter (fun x => !a.contains x)).length := by
  rw [(merge_perm a b ha hb).length_eq, List.length_append]

/-- the loop with an empty overlap set just concatenates -/
theorem go_nil_ov : ∀ (cur oth res : List α), go cur oth [] res = res ++ cur ++ oth := by
  intro cur
  induction cur with
  | nil => intro oth res; rw [go]; simp
  | cons e rest ih => intro oth res; rw [go]; simp [ih]

/-- **merge_disjoint**: lists with nothing in common (duplicates allowed) are concatenated -/
theorem merge_disjoint (a b : List α) (h : ∀ x, x ∈ a → x ∉ b) :
    mergeListsWOrdering a b = a ++ b := by
  have : overlap a b = [] := by
    simp only [overlap, List.filter_eq_nil_iff]
    intro x hx; simpa using h x hx
  simp [mergeListsWOrdering, this, go_nil_ov]

theorem merge_nil_left (b : List α) : mergeListsWOrdering [] b = b :=
  by simpa using merge_disjoint ([] : List α) b (by simp)

theorem merge_nil_right (a : List α) : mergeListsWOrdering a [] = a :=
  by simpa using merge_disjoint a ([] : List α) (by simp)

/-- filtering the loop result by a predicate that is false on the overlap set and on one of the
two iterators gives the emitted prefix followed by the other iterator, both filtered — whichever
iterator is currently being read (the two conjuncts swap at every iterator switch) -/
theorem go_filter (p : α → Bool) : ∀ (n : Nat) (cur oth ov res : List α),
    cur.length + oth.length = n → (∀ x, x ∈ ov → p x = false) →
    ((∀ x, x ∈ oth → p x = false) →
      (go cur oth ov res).filter p = res.filter p ++ cur.filter p) ∧
    ((∀ x, x ∈ cur → p x = false) →
      (go cur oth ov res).filter p = res.filter p ++ oth.filter p) := by
  intro n
  induction n using Nat.strongRecOn with
  | _ n ih =>
    intro cur oth ov res hn hov
    cases cur with
    | nil =>
      rw [go]
      refine ⟨fun ho => ?_, fun _ => by simp⟩
      have : oth.filter p = [] := by simpa [List.filter_eq_nil_iff] using ho
      simp [this]
    | cons e rest =>
      rw [go]
      by_cases he : e ∈ ov
      · have hc : ov.contains e = true := by simpa using he
        have hpe : p e = false := hov e he
        simp only [hc, if_true]
        have hov' : ∀ x, x ∈ ov.filter (fun x => x != e) → p x = false :=
          fun x hx => hov x (List.mem_filter.mp hx).1
        obtain ⟨i1, i2⟩ := ih (oth.length + rest.length) (by simp at hn; omega) oth rest _ res rfl hov'
        refine ⟨fun ho => ?_, fun hcur => ?_⟩
        · rw [i2 ho]; simp [hpe]
        · exact i1 (fun x hx => hcur x (List.mem_cons_of_mem _ hx))
      · have hc : ov.contains e = false := by simpa using he
        simp only [hc, Bool.false_eq_true, if_false]
        obtain ⟨i1, i2⟩ := ih (rest.length + oth.length) (by simp at hn; omega) rest oth ov (res ++ [e]) rfl hov
        refine ⟨fun ho => ?_, fun hcur => ?_⟩
        · rw [i1 ho]; cases hp : p e <;> simp [hp]
        · have hpe : p e = false := hcur e List.mem_cons_self
          rw [i2 (fun x hx => hcur x (List.mem_cons_of_mem _ hx))]; simp [hpe]

/-- **merge_order_left** ("maintaining ordering"): the elements only `a` has keep the relative
order they have in `a` — for ALL lists, duplicates included -/
theorem merge_order_left (a b : List α) :
    (mergeListsWOrdering a b).filter (fun x => !b.contains x) = a.filter (fun x => !b.contains x) := by
  have h := (go_filter (fun x => !b.contains x) _ a b (overlap a b) [] rfl
    (by intro x hx; simp [overlap] at hx; simp [hx.2])).1 (by intro x hx; simp [hx])
  simpa [mergeListsWOrdering] using h

/-- **merge_order_right**: the elements only `b` has keep the relative order they have in `b` -/
theorem merge_order_right (a b : List α) :
    (mergeListsWOrdering a b).filter (fun x => !a.contains x) = b.filter (fun x => !a.contains x) := by
  have h := (go_filter (fun x => !a.contains x) _ a b (overlap a b) [] rfl
    (by intro x hx; simp [overlap] at hx; simp [hx.1])).2 (by intro x hx; simp [hx])
  simpa [mergeListsWOrdering] using h


/-- corollary: the elements only `a` has form, in `a`'s order, a subsequence of the result -/
theorem merge_exclusive_sublist_left (a b : List α) :
    (a.filter (fun x => !b.contains x)).Sublist (mergeListsWOrdering a b) := by
  rw [← merge_order_left]; exact List.filter_sublist

/-- corollary: the elements only `b` has form, in `b`'s order, a subsequence of the result -/
theorem merge_exclusive_sublist_right (a b : List α) :
    (b.filter (fun x => !a.contains x)).Sublist (mergeListsWOrdering a b) := by
  rw [← merge_order_right]; exact List.filter_sublist

/-- the loop on two copies of one duplicate-free list whose members are exactly the overlap set -/
theorem go_self : ∀ (r ov res : List α), r.Nodup → (∀ x, x ∈ ov ↔ x ∈ r) →
    go r r ov res = res ++ r := by
  intro r
  induction r with
  | nil => intro ov res _ _; rw [go]
  | cons e t ih =>
    intro ov res hnd hov
    have hcn := List.nodup_cons.mp hnd
    have he : ov.contains e = true := by simp [hov]
    rw [go]; simp only [he, if_true]
    have hne : (ov.filter (fun x => x != e)).contains e = false := by simp
    rw [go]; simp only [hne, Bool.false_eq_true, if_false]
    rw [ih (ov.filter (fun x => x != e)) (res ++ [e]) hcn.2 ?_]
    · simp
    · intro x
      simp only [List.mem_filter, hov, List.mem_cons, bne_iff_ne, ne_eq]
      constructor
      · rintro ⟨h1 | h1, h2⟩
        · exact absurd h1 h2
        · exact h1
      · intro h1
        exact ⟨Or.inr h1, fun hh => hcn.1 (hh ▸ h1)⟩

/-- **merge_self**: merging a duplicate-free list with itself gives it back (declarative: a class
whose `vars()` and `__annotations__` list the same names in the same order keeps that order) -/
theorem merge_self (a : List α) (ha : a.Nodup) : mergeListsWOrdering a a = a := by
  have := go_self a (overlap a a) [] ha (by intro x; simp [overlap])
  simpa [mergeListsWOrdering] using this

/-- without the duplicate-free hypothesis an element can be emitted more often than it occurs in
either list's de-duplicated union (the real function does the same) -/
theorem merge_dup_counterexample :
    mergeListsWOrdering [1, 1, 2] [2, 1, 1] = [1, 2, 1, 1] ∧
    ¬ (mergeListsWOrdering [1, 1, 2] [2, 1, 1]).Nodup := by
  have h : mergeListsWOrdering [1, 1, 2] [2, 1, 1] = [1, 2, 1, 1] := by
    simp [mergeListsWOrdering, overlap, go]
  exact ⟨h, by rw [h]; decide⟩

/-! non-vacuity: the docstring example (shared names `id`=1, `created_at`=3) -/
example : mergeListsWOrdering [0, 1, 2, 3] [1, 4, 5, 6, 3] = [0, 1, 4, 5, 6, 2, 3] := by
  simp [mergeListsWOrdering, overlap, go]
example : ([0, 1, 2, 3] : List Nat).Nodup ∧ ([1, 4, 5, 6, 3] : List Nat).Nodup := by decide

end SaVerif.Props.C54Merge
