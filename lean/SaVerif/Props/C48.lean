import SaVerif.Model.Weakref
/-!
# C48 — Pending changes survive the application dropping its references

Theorems about M-ORM/weakref (`SaVerif/Model/Weakref.lean`).

`stepGc` is the Session as CPython runs it: after every operation every object that
neither the application nor the Session (`_strong_obj`, `_new`, `_deleted`) holds is
gone from the identity map.  `step` is the reference semantics in which nothing is
ever collected.

* `gc_unobservable_partial`, `gc_same_db_partial` — for every history WITHOUT a rollback
  (induction over the operation list through the simulation `Sim`): both semantics
  produce the same outputs (values read, flush/commit results; only
  `len(identity_map)` may differ) and the same database.  Hence every change is flushed
  no matter which references were dropped and what was collected in between.
* `gc_unobservable_counterexample` — with a rollback the full statement is false: the
  transaction remembers the instances it inserted only weakly (finding).
* `collect_keeps_strong` — collection never removes an object with pending work;
  `collect_flush_db` — flushing after a collection writes the same database;
  `collect_releases` — an unmodified, undeleted object without application reference
  *is* released.
-/
namespace SaVerif.Props.C48
open SaVerif.Weakref

/-! ## invariant of the reference semantics (no other writer) -/

/-- identity-map entry vs. its row: clean values are the row's, modified objects have a
    value, and the row exists -/
def InvSlot (o : Option Obj) (row : Option Int) : Prop :=
  ∀ ob, o = some ob →
    (ob.mod = false → ob.val = none ∨ ob.val = row) ∧ (ob.mod = true → ob.val.isSome = true) ∧
    row.isSome = true

def Inv (s : St) : Prop := ∀ k, InvSlot (s.objs k) (s.db k)

theorem invSlot_none (row : Option Int) : InvSlot none row := fun _ h => by cases h

/-- closing tactic for the slot lemmas: the new entry is an explicit record -/
macro "slot_done" : tactic =>
  `(tactic| (intro ob' he; simp only [Option.some.injEq, Option.map_some] at he; subst he;
             refine ⟨?_, ?_, ?_⟩ <;> simp_all))

theorem invSlot_get (nw : Option (Int × Bool)) (o : Option Obj) (row : Option Int)
    (h : InvSlot o row) : InvSlot (getSlot nw o row).1.2 row := by
  unfold getSlot
  cases nw with
  | some _ => exact h
  | none =>
    cases o with
    | some ob =>
      obtain ⟨h1, h2, h3⟩ := h ob rfl
      by_cases hd : ob.del = true
      · simp only [hd, if_true]; exact h
      · simp only [hd, Bool.false_eq_true, if_false]
        cases hv : ob.val with
        | some v => simp only []; slot_done
        | none =>
          cases row with
          | none => exact invSlot_none _
          | some v => simp only []; slot_done
    | none =>
      cases row with
      | none => exact invSlot_none _
      | some v => simp only []; slot_done

theorem invSlot_set (v : Int) (nw : Option (Int × Bool)) (o : Option Obj) (row : Option Int)
    (h : InvSlot o row) : InvSlot (setSlot v nw o).1.2 row := by
  unfold setSlot
  cases nw with
  | some p =>
    obtain ⟨w, a⟩ := p
    by_cases ha : a = true
    · simp only [ha, if_true]; exact h
    · simp only [ha, Bool.false_eq_true, if_false]; exact h
  | none =>
    cases o with
    | none => exact h
    | some ob =>
      obtain ⟨h1, h2, h3⟩ := h ob rfl
      by_cases hc : (ob.app && !ob.del) = true
      · simp only [hc, if_true]; slot_done
      · simp only [hc, Bool.false_eq_true, if_false]; exact h

theorem invSlot_del (nw : Option (Int × Bool)) (o : Option Obj) (row : Option Int)
    (h : InvSlot o row) : InvSlot (delSlot nw o).1.2 row := by
  unfold delSlot
  cases nw with
  | some p => exact h
  | none =>
    cases o with
    | none => exact h
    | some ob =>
      obtain ⟨h1, h2, h3⟩ := h ob rfl
      by_cases hc : (ob.app && !ob.del) = true
      · simp only [hc, if_true]; slot_done
      · simp only [hc, Bool.false_eq_true, if_false]; exact h

theorem invSlot_add (v : Int) (nw : Option (Int × Bool)) (o : Option Obj) (row : Option Int)
    (h : InvSlot o row) : InvSlot (addSlot v nw o).1.2 row := by
  unfold addSlot
  cases o <;> simp only [] <;> split <;> exact h

theorem invSlot_drop (nw : Option (Int × Bool)) (o : Option Obj) (row : Option Int)
    (h : InvSlot o row) : InvSlot (dropSlot nw o).1.2 row := by
  unfold dropSlot
  cases nw with
  | some p => exact h
  | none =>
    cases o with
    | none => exact h
    | some ob =>
      obtain ⟨h1, h2, h3⟩ := h ob rfl
      simp only []
      slot_done

theorem invSlot_exp (nw : Option (Int × Bool)) (o : Option Obj) (row : Option Int)
    (h : InvSlot o row) : InvSlot (expSlot nw o).1.2 row := by
  unfold expSlot
  cases nw with
  | some p => exact h
  | none =>
    cases o with
    | none => exact h
    | some ob =>
      obtain ⟨h1, h2, h3⟩ := h ob rfl
      by_cases hc : (ob.app && !ob.del) = true
      · simp only [hc, if_true]; slot_done
      · simp only [hc, Bool.false_eq_true, if_false]; exact h

theorem invSlot_expVal (nw : Option (Int × Bool)) (o : Option Obj) (row : Option Int)
    (h : InvSlot o row) : InvSlot (expValSlot nw o).1.2 row := by
  unfold expValSlot
  cases nw with
  | some p => exact h
  | none =>
    cases o with
    | none => exact h
    | some ob =>
      obtain ⟨h1, h2, h3⟩ := h ob rfl
      by_cases hc : (ob.app && !ob.del) = true
      · simp only [hc, if_true]; slot_done
      · simp only [hc, Bool.false_eq_true, if_false]; exact h

theorem invSlot_expId (nw : Option (Int × Bool)) (o : Option Obj) (row : Option Int)
    (h : InvSlot o row) : InvSlot (expIdSlot nw o).1.2 row := by
  unfold expIdSlot
  cases nw with
  | some p => exact h
  | none =>
    cases o with
    | none => exact h
    | some ob =>
      by_cases hc : (ob.app && !ob.del) = true
      · simp only [hc, if_true]; exact h
      · simp only [hc, Bool.false_eq_true, if_false]; exact h

theorem invSlot_setDead (nw : Option (Int × Bool)) (o : Option Obj) (row : Option Int)
    (h : InvSlot o row) : InvSlot (setDeadSlot nw o).1.2 row := by
  unfold setDeadSlot
  cases nw with
  | some p => exact h
  | none =>
    cases o with
    | none => exact h
    | some ob =>
      obtain ⟨h1, h2, h3⟩ := h ob rfl
      by_cases hc : (ob.app && !ob.del) = true
      · simp only [hc, if_true]; slot_done
      · simp only [hc, Bool.false_eq_true, if_false]; exact h

theorem inv_putSlot (s : St) (k : Nat) (r : Slot × Out) (h : Inv s) (hk : InvSlot r.1.2 (s.db k)) :
    Inv (putSlot s k r).1 := by
  intro j
  simp only [putSlot]
  by_cases hj : j = k
  · subst hj; simp only [if_true]; exact hk
  · simp only [hj, if_false]; exact h j

theorem invSlot_flush (nw : Option (Int × Bool)) (o : Option Obj) (row : Option Int)
    (h : InvSlot o row) : InvSlot (flushObj nw o) (flushRow nw o row) := by
  unfold flushObj flushRow
  cases nw with
  | some p =>
    obtain ⟨v, a⟩ := p
    simp only []
    slot_done
  | none =>
    cases o with
    | none => exact invSlot_none _
    | some ob =>
      obtain ⟨h1, h2, h3⟩ := h ob rfl
      by_cases hd : ob.del = true
      · simp only [hd, if_true]; exact invSlot_none _
      · simp only [hd, Bool.false_eq_true, if_false]
        by_cases hm : ob.mod = true
        · simp only [hm, if_true]
          cases row with
          | none => cases h3
          | some r => simp only []; slot_done
        · simp only [hm, Bool.false_eq_true, if_false]; slot_done

theorem doFlush_cases (c : Cfg) (s s1 : St) (h : doFlush c s = some s1) :
    s1 = s ∨
    (s1.db = (fun k => if k < c.n then flushRow (s.new k) (s.objs k) (s.db k) else s.db k) ∧
     s1.objs = (fun k => if k < c.n then flushObj (s.new k) (s.objs k) else s.objs k) ∧
     s1.new = (fun k => if k < c.n then none else s.new k) ∧
     s1.saved = (match s.saved with
                 | some x => some x
                 | none => some s.db)) := by
  unfold doFlush at h
  split at h
  · left; cases h; rfl
  · split at h
    · cases h
    · right
      simp only [Option.some.injEq] at h
      subst h
      exact ⟨rfl, rfl, rfl, rfl⟩

theorem inv_doFlush (c : Cfg) (s s1 : St) (hi : Inv s) (h : doFlush c s = some s1) : Inv s1 := by
  rcases doFlush_cases c s s1 h with rfl | ⟨hdb, hobjs, _, _⟩
  · exact hi
  · intro k
    rw [hdb, hobjs]
    simp only
    by_cases hk : k < c.n
    · simp only [hk, if_true]; exact invSlot_flush _ _ _ (hi k)
    · simp only [hk, if_false]; exact hi k

theorem inv_expireMap (s : St) (hi : Inv s) :
    Inv { s with saved := none, txn := false, fresh := fun _ => false,
                 sp := none, spFresh := fun _ => false, spDirty := fun _ => false,
                 objs := fun k => (s.objs k).map (fun o => { o with val := none, mod := false }) } := by
  intro k
  simp only
  cases ho : s.objs k with
  | none => exact invSlot_none _
  | some o =>
    obtain ⟨h1, h2, h3⟩ := hi k o ho
    simp only [Option.map_some]
    slot_done

theorem inv_init : Inv St.init := fun _ => invSlot_none _

/-- the operation neither is nor triggers a rollback (explicit `rollback()`, or a flush that
    fails) in the reference semantics -/
def Calm (c : Cfg) (s : St) (op : Op) : Prop :=
  op ≠ .rollback ∧ op ≠ .rollbackNested ∧ (step c s op).2 ≠ .integrity

theorem inv_stepLive (c : Cfg) (s : St) (op : Op) (hi : Inv s)
    (hnr : op ≠ .rollback) (hnn : op ≠ .rollbackNested)
    (hni : (stepLive c s op).2 ≠ .integrity) : Inv (stepLive c s op).1 := by
  cases op with
  | get k => exact inv_putSlot s k _ hi (invSlot_get _ _ _ (hi k))
  | set k v => exact inv_putSlot s k _ hi (invSlot_set v _ _ _ (hi k))
  | del k => exact inv_putSlot s k _ hi (invSlot_del _ _ _ (hi k))
  | add k v => exact inv_putSlot s k _ hi (invSlot_add v _ _ _ (hi k))
  | drop k => exact inv_putSlot s k _ hi (invSlot_drop _ _ _ (hi k))
  | expire k => exact inv_putSlot s k _ hi (invSlot_exp _ _ _ (hi k))
  | expireVal k => exact inv_putSlot s k _ hi (invSlot_expVal _ _ _ (hi k))
  | expireId k => exact inv_putSlot s k _ hi (invSlot_expId _ _ _ (hi k))
  | begin => exact hi
  | beginNested =>
    simp only [stepLive] at hni ⊢
    split
    · exact hi
    · rename_i hsp
      simp only [hsp, if_false] at hni
      cases h : doFlush c s with
      | none => simp [h] at hni
      | some s1 => exact fun k => inv_doFlush c s s1 hi h k
  | rollbackNested => exact absurd rfl hnn
  | releaseNested =>
    simp only [stepLive] at hni ⊢
    cases hsp : s.sp with
    | none => exact hi
    | some d =>
      simp only [hsp] at hni ⊢
      cases h : doFlush c s with
      | none => simp [h] at hni
      | some s1 => exact fun k => inv_doFlush c s s1 hi h k
  | flush =>
    simp only [stepLive] at hni ⊢
    cases h : doFlush c s with
    | none => simp [h] at hni
    | some s1 => exact inv_doFlush c s s1 hi h
  | commit =>
    simp only [stepLive] at hni ⊢
    cases h : doFlush c s with
    | none => simp [h] at hni
    | some s1 =>
      have h1 := inv_doFlush c s s1 hi h
      by_cases he : c.eoc = true
      · simp only [he, if_true]; exact inv_expireMap s1 h1
      · simp only [he, Bool.false_eq_true, if_false]; exact h1
  | rollback => exact absurd rfl hnr
  | len => exact hi

theorem inv_stepDead (c : Cfg) (s : St) (op : Op) (hi : Inv s) : Inv (stepDead c s op).1 := by
  cases op with
  | set k v =>
    simp only [stepDead]
    split
    · exact inv_putSlot s k _ hi (invSlot_set v _ _ _ (hi k))
    · exact inv_putSlot s k _ hi (invSlot_setDead _ _ _ (hi k))
  | drop k => exact inv_putSlot s k _ hi (invSlot_drop _ _ _ (hi k))
  | begin => exact hi
  | len => exact hi
  | get k => exact hi
  | del k => exact hi
  | add k v => exact hi
  | expire k => exact hi
  | expireVal k => exact hi
  | expireId k => exact hi
  | flush => exact hi
  | commit => exact hi
  | rollback => exact hi
  | beginNested => exact hi
  | rollbackNested => exact hi
  | releaseNested => exact hi

/-- the invariant holds along every rollback-free history of the reference semantics -/
theorem inv_step (c : Cfg) (s : St) (op : Op) (hi : Inv s) (hq : Calm c s op) : Inv (step c s op).1 := by
  obtain ⟨hnr, hnn, hni⟩ := hq
  unfold step at hni ⊢
  by_cases hl : live c s = true
  · simp only [hl, if_true] at hni ⊢; exact inv_stepLive c s op hi hnr hnn hni
  · simp only [hl, Bool.false_eq_true, if_false]; exact inv_stepDead c s op hi

/-! ## the simulation -/

/-- entry of the collected identity map vs. the uncollected one: equal, or collected
    and then nobody holds it -/
def Rel (og os : Option Obj) : Prop :=
  og = os ∨ (og = none ∧ ∃ o, os = some o ∧ o.app = false ∧ strong o = false)

structure Sim (g s : St) : Prop where
  db : g.db = s.db
  saved : g.saved = s.saved
  new : g.new = s.new
  txn : g.txn = s.txn
  objs : ∀ k, Rel (g.objs k) (s.objs k)
  sp : g.sp = s.sp

theorem rel_refl (o : Option Obj) : Rel o o := Or.inl rfl

theorem strong_false {o : Obj} (h : strong o = false) : o.mod = false ∧ o.del = false := by
  unfold strong at h
  simp only [Bool.or_eq_false_iff] at h
  exact ⟨h.1.1, h.2⟩

theorem strong_false_touched {o : Obj} (h : strong o = false) : o.touched = false := by
  unfold strong at h
  simp only [Bool.or_eq_false_iff] at h
  exact h.1.2

/-- outputs agree up to the size of the identity map -/
def ObsEq (a b : Out) : Prop := a = b ∨ ∃ x y, a = .num x ∧ b = .num y

/-- what a slot operation has to satisfy: same pending entry, same output, related objects -/
def SlotSim (rg rs : Slot × Out) : Prop := rg.1.1 = rs.1.1 ∧ rg.2 = rs.2 ∧ Rel rg.1.2 rs.1.2

theorem slotSim_of_eq {rg rs : Slot × Out} (h : rg = rs) : SlotSim rg rs := by
  subst h; exact ⟨rfl, rfl, rel_refl _⟩

theorem sim_get (nw : Option (Int × Bool)) (og os : Option Obj) (row : Option Int)
    (hr : Rel og os) (hi : InvSlot os row) : SlotSim (getSlot nw og row) (getSlot nw os row) := by
  rcases hr with rfl | ⟨rfl, o, rfl, ha, hs⟩
  · exact slotSim_of_eq rfl
  · obtain ⟨hm, hd⟩ := strong_false hs
    have ht := strong_false_touched hs
    obtain ⟨h1, _, _⟩ := hi o rfl
    unfold getSlot
    cases nw with
    | some p => exact ⟨rfl, rfl, Or.inr ⟨rfl, o, rfl, ha, hs⟩⟩
    | none =>
      simp only [hd, Bool.false_eq_true, if_false]
      cases hv : o.val with
      | some v =>
        -- cached value = row (coherence): the reload of the collected twin returns the same
        have hrow : row = some v := by
          rcases h1 hm with h | h
          · rw [hv] at h; cases h
          · rw [← h, hv]
        subst hrow
        refine ⟨rfl, rfl, Or.inl ?_⟩
        cases o
        simp_all
      | none =>
        cases row with
        | none => exact ⟨rfl, rfl, rel_refl _⟩
        | some v =>
          refine ⟨rfl, rfl, Or.inl ?_⟩
          cases o
          simp_all

theorem sim_set (v : Int) (nw : Option (Int × Bool)) (og os : Option Obj) (hr : Rel og os) :
    SlotSim (setSlot v nw og) (setSlot v nw os) := by
  rcases hr with rfl | ⟨rfl, o, rfl, ha, hs⟩
  · exact slotSim_of_eq rfl
  · unfold setSlot
    cases nw with
    | some p =>
      obtain ⟨w, a⟩ := p
      by_cases h : a = true <;> simp only [h, if_true, Bool.false_eq_true, if_false] <;>
        exact ⟨rfl, rfl, Or.inr ⟨rfl, o, rfl, ha, hs⟩⟩
    | none =>
      simp only [ha, Bool.false_and, Bool.false_eq_true, if_false]
      exact ⟨rfl, rfl, Or.inr ⟨rfl, o, rfl, ha, hs⟩⟩

theorem sim_del (nw : Option (Int × Bool)) (og os : Option Obj) (hr : Rel og os) :
    SlotSim (delSlot nw og) (delSlot nw os) := by
  rcases hr with rfl | ⟨rfl, o, rfl, ha, hs⟩
  · exact slotSim_of_eq rfl
  · unfold delSlot
    cases nw with
    | some p => exact ⟨rfl, rfl, Or.inr ⟨rfl, o, rfl, ha, hs⟩⟩
    | none =>
      simp only [ha, Bool.false_and, Bool.false_eq_true, if_false]
      exact ⟨rfl, rfl, Or.inr ⟨rfl, o, rfl, ha, hs⟩⟩

theorem sim_add (v : Int) (nw : Option (Int × Bool)) (og os : Option Obj) (hr : Rel og os) :
    SlotSim (addSlot v nw og) (addSlot v nw os) := by
  rcases hr with rfl | ⟨rfl, o, rfl, ha, hs⟩
  · exact slotSim_of_eq rfl
  · unfold addSlot
    simp only [ha, hs, Bool.not_false, Bool.and_self, Bool.and_true]
    by_cases hn : nw.isNone = true
    · simp only [hn, if_true]; exact ⟨rfl, rfl, Or.inr ⟨rfl, o, rfl, ha, hs⟩⟩
    · simp only [hn, Bool.false_eq_true, if_false]; exact ⟨rfl, rfl, Or.inr ⟨rfl, o, rfl, ha, hs⟩⟩

theorem sim_drop (nw : Option (Int × Bool)) (og os : Option Obj) (hr : Rel og os) :
    SlotSim (dropSlot nw og) (dropSlot nw os) := by
  rcases hr with rfl | ⟨rfl, o, rfl, ha, hs⟩
  · exact slotSim_of_eq rfl
  · unfold dropSlot
    cases nw with
    | some p => exact ⟨rfl, rfl, Or.inr ⟨rfl, o, rfl, ha, hs⟩⟩
    | none =>
      refine ⟨rfl, rfl, Or.inr ⟨rfl, { o with app := false }, rfl, rfl, ?_⟩⟩
      simpa [strong] using hs

theorem sim_exp (nw : Option (Int × Bool)) (og os : Option Obj) (hr : Rel og os) :
    SlotSim (expSlot nw og) (expSlot nw os) := by
  rcases hr with rfl | ⟨rfl, o, rfl, ha, hs⟩
  · exact slotSim_of_eq rfl
  · unfold expSlot
    cases nw with
    | some p => exact ⟨rfl, rfl, Or.inr ⟨rfl, o, rfl, ha, hs⟩⟩
    | none =>
      simp only [ha, Bool.false_and, Bool.false_eq_true, if_false]
      exact ⟨rfl, rfl, Or.inr ⟨rfl, o, rfl, ha, hs⟩⟩

theorem sim_expVal (nw : Option (Int × Bool)) (og os : Option Obj) (hr : Rel og os) :
    SlotSim (expValSlot nw og) (expValSlot nw os) := by
  rcases hr with rfl | ⟨rfl, o, rfl, ha, hs⟩
  · exact slotSim_of_eq rfl
  · unfold expValSlot
    cases nw with
    | some p => exact ⟨rfl, rfl, Or.inr ⟨rfl, o, rfl, ha, hs⟩⟩
    | none =>
      simp only [ha, Bool.false_and, Bool.false_eq_true, if_false]
      exact ⟨rfl, rfl, Or.inr ⟨rfl, o, rfl, ha, hs⟩⟩

theorem sim_expId (nw : Option (Int × Bool)) (og os : Option Obj) (hr : Rel og os) :
    SlotSim (expIdSlot nw og) (expIdSlot nw os) := by
  rcases hr with rfl | ⟨rfl, o, rfl, ha, hs⟩
  · exact slotSim_of_eq rfl
  · unfold expIdSlot
    cases nw with
    | some p => exact ⟨rfl, rfl, Or.inr ⟨rfl, o, rfl, ha, hs⟩⟩
    | none =>
      simp only [ha, Bool.false_and, Bool.false_eq_true, if_false]
      exact ⟨rfl, rfl, Or.inr ⟨rfl, o, rfl, ha, hs⟩⟩

theorem sim_setDead (nw : Option (Int × Bool)) (og os : Option Obj) (hr : Rel og os) :
    SlotSim (setDeadSlot nw og) (setDeadSlot nw os) := by
  rcases hr with rfl | ⟨rfl, o, rfl, ha, hs⟩
  · exact slotSim_of_eq rfl
  · unfold setDeadSlot
    cases nw with
    | some p => exact ⟨rfl, rfl, Or.inr ⟨rfl, o, rfl, ha, hs⟩⟩
    | none =>
      simp only [ha, Bool.false_and, Bool.false_eq_true, if_false]
      exact ⟨rfl, rfl, Or.inr ⟨rfl, o, rfl, ha, hs⟩⟩

theorem rel_touched {og os : Option Obj} (h : Rel og os) : touchedOpt og = touchedOpt os := by
  rcases h with rfl | ⟨rfl, o, rfl, _, hs⟩
  · rfl
  · simp [touchedOpt, strong_false_touched hs]

theorem sim_putSlot {g s : St} (hs : Sim g s) (k : Nat) (rg rs : Slot × Out) (h : SlotSim rg rs) :
    Sim (putSlot g k rg).1 (putSlot s k rs).1 ∧ (putSlot g k rg).2 = (putSlot s k rs).2 := by
  obtain ⟨h1, h2, h3⟩ := h
  refine ⟨⟨hs.db, hs.saved, ?_, hs.txn, ?_, hs.sp⟩, h2⟩
  · funext j
    simp only [putSlot]
    by_cases hj : j = k
    · simp [hj, h1]
    · simp only [hj, if_false]; rw [hs.new]
  · intro j
    simp only [putSlot]
    by_cases hj : j = k
    · simp only [hj, if_true]; exact h3
    · simp only [hj, if_false]; exact hs.objs j

/-- collection keeps the simulation -/
theorem sim_collect {g s : St} (hs : Sim g s) : Sim (collect g) s := by
  refine ⟨hs.db, hs.saved, hs.new, hs.txn, ?_, hs.sp⟩
  intro k
  simp only [collect]
  rcases hs.objs k with h | ⟨h, o, ho, ha, hst⟩
  · cases hg : g.objs k with
    | none => rw [← h, hg]; exact rel_refl _
    | some o =>
      by_cases hc : (o.app || strong o) = true
      · simp only [hc, if_true]; rw [← h, hg]; exact rel_refl _
      · simp only [hc, Bool.false_eq_true, if_false]
        simp only [Bool.or_eq_true, not_or, Bool.not_eq_true] at hc
        exact Or.inr ⟨rfl, o, by rw [← h, hg], hc.1, hc.2⟩
  · rw [h]; exact Or.inr ⟨rfl, o, ho, ha, hst⟩

theorem rel_strong {og os : Option Obj} (h : Rel og os) : strongOpt og = strongOpt os := by
  rcases h with rfl | ⟨rfl, o, rfl, _, hs⟩
  · rfl
  · simp [strongOpt, hs]

theorem sim_hasWork (c : Cfg) {g s : St} (hs : Sim g s) : hasWork c g = hasWork c s := by
  unfold hasWork
  congr 1
  funext k
  rw [hs.new, rel_strong (hs.objs k)]

theorem rel_flushRow (nw : Option (Int × Bool)) {og os : Option Obj} (row : Option Int) (h : Rel og os) :
    flushRow nw og row = flushRow nw os row := by
  rcases h with rfl | ⟨rfl, o, rfl, _, hs⟩
  · rfl
  · obtain ⟨hm, hd⟩ := strong_false hs
    unfold flushRow
    cases nw with
    | some p => rfl
    | none => simp [hm, hd]

theorem rel_flushObj (nw : Option (Int × Bool)) {og os : Option Obj} (h : Rel og os) :
    Rel (flushObj nw og) (flushObj nw os) := by
  rcases h with rfl | ⟨rfl, o, rfl, ha, hs⟩
  · exact rel_refl _
  · obtain ⟨hm, hd⟩ := strong_false hs
    unfold flushObj
    cases nw with
    | some p => exact rel_refl _
    | none =>
      simp only [hd, Bool.false_eq_true, if_false]
      exact Or.inr ⟨rfl, _, rfl, ha, by simp [strong, hd]⟩

theorem sim_doFlush (c : Cfg) {g s : St} (hs : Sim g s) :
    (doFlush c g = none ∧ doFlush c s = none) ∨
    ∃ g1 s1, doFlush c g = some g1 ∧ doFlush c s = some s1 ∧ Sim g1 s1 := by
  unfold doFlush
  rw [sim_hasWork c hs]
  by_cases hw : hasWork c s = true
  · simp only [hw, Bool.not_true, Bool.false_eq_true, if_false]
    have hdup : (anyBelow c.n (dupAt g) || anyBelow c.n (goneAt g)) =
        (anyBelow c.n (dupAt s) || anyBelow c.n (goneAt s)) := by
      have e1 : dupAt g = dupAt s := by funext k; unfold dupAt; rw [hs.new, hs.db]
      have e2 : goneAt g = goneAt s := by
        funext k; unfold goneAt; rw [hs.new, hs.db, rel_strong (hs.objs k)]
      rw [e1, e2]
    rw [hdup]
    by_cases hd : (anyBelow c.n (dupAt s) || anyBelow c.n (goneAt s)) = true
    · left; simp [hd]
    · right
      simp only [hd, Bool.false_eq_true, if_false]
      refine ⟨_, _, rfl, rfl, ⟨?_, ?_, ?_, ?_, ?_, hs.sp⟩⟩
      · funext k
        simp only
        by_cases hk : k < c.n
        · simp only [hk, if_true]; rw [hs.new, hs.db, rel_flushRow _ _ (hs.objs k)]
        · simp only [hk, if_false]; rw [hs.db]
      · simp only; rw [hs.saved, hs.db]
      · funext k; simp only; rw [hs.new]
      · exact hs.txn
      · intro k
        simp only
        by_cases hk : k < c.n
        · simp only [hk, if_true]; rw [hs.new]; exact rel_flushObj _ (hs.objs k)
        · simp only [hk, if_false]; exact hs.objs k
  · right
    simp only [hw, Bool.not_false, if_true]
    exact ⟨g, s, rfl, rfl, hs⟩

theorem rel_map_expire {og os : Option Obj} (h : Rel og os) :
    Rel (og.map (fun o => { o with val := none, mod := false })) (os.map (fun o => { o with val := none, mod := false })) := by
  rcases h with rfl | ⟨rfl, o, rfl, ha, hs⟩
  · exact rel_refl _
  · obtain ⟨_, hd⟩ := strong_false hs
    exact Or.inr ⟨rfl, _, rfl, ha, by simp [strong, hd, strong_false_touched hs]⟩

theorem sim_len (c : Cfg) {g s : St} (hs : Sim g s) :
    Sim g s ∧ ObsEq (Out.num ((List.range c.n).filter (fun k => (g.objs k).isSome)).length)
                    (Out.num ((List.range c.n).filter (fun k => (s.objs k).isSome)).length) :=
  ⟨hs, Or.inr ⟨_, _, rfl, rfl⟩⟩

theorem sim_stepLive (c : Cfg) {g s : St} (op : Op) (hs : Sim g s) (hi : Inv s)
    (hnr : op ≠ .rollback) (hnn : op ≠ .rollbackNested) (hni : (stepLive c s op).2 ≠ .integrity) :
    Sim (stepLive c g op).1 (stepLive c s op).1 ∧ ObsEq (stepLive c g op).2 (stepLive c s op).2 := by
  cases op with
  | get k =>
    simp only [stepLive]
    rw [hs.new, hs.db]
    obtain ⟨h1, h2⟩ := sim_putSlot hs k _ _ (sim_get (s.new k) _ _ (s.db k) (hs.objs k) (hi k))
    exact ⟨h1, Or.inl h2⟩
  | set k v =>
    simp only [stepLive]
    rw [hs.new]
    obtain ⟨h1, h2⟩ := sim_putSlot hs k _ _ (sim_set v (s.new k) _ _ (hs.objs k))
    exact ⟨h1, Or.inl h2⟩
  | del k =>
    simp only [stepLive]
    rw [hs.new]
    obtain ⟨h1, h2⟩ := sim_putSlot hs k _ _ (sim_del (s.new k) _ _ (hs.objs k))
    exact ⟨h1, Or.inl h2⟩
  | add k v =>
    simp only [stepLive]
    rw [hs.new]
    obtain ⟨h1, h2⟩ := sim_putSlot hs k _ _ (sim_add v (s.new k) _ _ (hs.objs k))
    exact ⟨h1, Or.inl h2⟩
  | drop k =>
    simp only [stepLive]
    rw [hs.new]
    obtain ⟨h1, h2⟩ := sim_putSlot hs k _ _ (sim_drop (s.new k) _ _ (hs.objs k))
    exact ⟨h1, Or.inl h2⟩
  | expire k =>
    simp only [stepLive]
    rw [hs.new]
    obtain ⟨h1, h2⟩ := sim_putSlot hs k _ _ (sim_exp (s.new k) _ _ (hs.objs k))
    exact ⟨h1, Or.inl h2⟩
  | expireVal k =>
    simp only [stepLive]
    rw [hs.new]
    obtain ⟨h1, h2⟩ := sim_putSlot hs k _ _ (sim_expVal (s.new k) _ _ (hs.objs k))
    exact ⟨h1, Or.inl h2⟩
  | expireId k =>
    simp only [stepLive]
    rw [hs.new]
    obtain ⟨h1, h2⟩ := sim_putSlot hs k _ _ (sim_expId (s.new k) _ _ (hs.objs k))
    exact ⟨h1, Or.inl h2⟩
  | begin => exact ⟨hs, Or.inl rfl⟩
  | beginNested =>
    simp only [stepLive] at hni ⊢
    rw [hs.sp]
    cases hsp : s.sp with
    | some d => simp only [Option.isSome_some, if_true]; exact ⟨hs, Or.inl rfl⟩
    | none =>
      simp only [hsp, Option.isSome_none, Bool.false_eq_true, if_false] at hni ⊢
      rcases sim_doFlush c hs with ⟨hg, hs'⟩ | ⟨g1, s1, hg, hs', h1⟩
      · simp [hs'] at hni
      · rw [hg, hs']
        exact ⟨⟨h1.db, h1.saved, h1.new, h1.txn, h1.objs, by simp only [h1.db]⟩, Or.inl rfl⟩
  | rollbackNested => exact absurd rfl hnn
  | releaseNested =>
    simp only [stepLive] at hni ⊢
    rw [hs.sp]
    cases hsp : s.sp with
    | none => exact ⟨hs, Or.inl rfl⟩
    | some d =>
      simp only [hsp] at hni ⊢
      rcases sim_doFlush c hs with ⟨hg, hs'⟩ | ⟨g1, s1, hg, hs', h1⟩
      · simp [hs'] at hni
      · rw [hg, hs']
        exact ⟨⟨h1.db, h1.saved, h1.new, h1.txn, h1.objs, rfl⟩, Or.inl rfl⟩
  | flush =>
    simp only [stepLive] at hni ⊢
    rcases sim_doFlush c hs with ⟨hg, hs'⟩ | ⟨g1, s1, hg, hs', h1⟩
    · simp [hs'] at hni
    · rw [hg, hs']; exact ⟨h1, Or.inl rfl⟩
  | commit =>
    simp only [stepLive] at hni ⊢
    rcases sim_doFlush c hs with ⟨hg, hs'⟩ | ⟨g1, s1, hg, hs', h1⟩
    · simp [hs'] at hni
    · rw [hg, hs']
      refine ⟨⟨h1.db, rfl, h1.new, rfl, ?_, rfl⟩, Or.inl rfl⟩
      intro k
      by_cases he : c.eoc = true
      · simp only [he, if_true]; exact rel_map_expire (h1.objs k)
      · simp only [he, Bool.false_eq_true, if_false]; exact h1.objs k
  | rollback => exact absurd rfl hnr
  | len => exact sim_len c hs

theorem sim_stepDead (c : Cfg) {g s : St} (op : Op) (hs : Sim g s) :
    Sim (stepDead c g op).1 (stepDead c s op).1 ∧ ObsEq (stepDead c g op).2 (stepDead c s op).2 := by
  cases op with
  | set k v =>
    simp only [stepDead]
    have ht : anyBelow c.n (fun j => touchedOpt (g.objs j)) = anyBelow c.n (fun j => touchedOpt (s.objs j)) := by
      congr 1; funext j; exact rel_touched (hs.objs j)
    rw [ht, hs.new]
    split
    · obtain ⟨h1, h2⟩ := sim_putSlot hs k _ _ (sim_set v (s.new k) _ _ (hs.objs k))
      exact ⟨h1, Or.inl h2⟩
    · obtain ⟨h1, h2⟩ := sim_putSlot hs k _ _ (sim_setDead (s.new k) _ _ (hs.objs k))
      exact ⟨h1, Or.inl h2⟩
  | drop k =>
    simp only [stepDead]
    rw [hs.new]
    obtain ⟨h1, h2⟩ := sim_putSlot hs k _ _ (sim_drop (s.new k) _ _ (hs.objs k))
    exact ⟨h1, Or.inl h2⟩
  | begin => exact ⟨⟨hs.db, hs.saved, hs.new, rfl, hs.objs, hs.sp⟩, Or.inl rfl⟩
  | len => exact sim_len c hs
  | get k => exact ⟨hs, Or.inl rfl⟩
  | del k => exact ⟨hs, Or.inl rfl⟩
  | add k v => exact ⟨hs, Or.inl rfl⟩
  | expire k => exact ⟨hs, Or.inl rfl⟩
  | expireVal k => exact ⟨hs, Or.inl rfl⟩
  | expireId k => exact ⟨hs, Or.inl rfl⟩
  | flush => exact ⟨hs, Or.inl rfl⟩
  | commit => exact ⟨hs, Or.inl rfl⟩
  | rollback => exact ⟨hs, Or.inl rfl⟩
  | beginNested => exact ⟨hs, Or.inl rfl⟩
  | rollbackNested => exact ⟨hs, Or.inl rfl⟩
  | releaseNested => exact ⟨hs, Or.inl rfl⟩

/-- one step of the reference semantics simulates one step of the other, without the
    final collection -/
theorem sim_step_raw (c : Cfg) {g s : St} (op : Op) (hs : Sim g s) (hi : Inv s) (hq : Calm c s op) :
    Sim (step c g op).1 (step c s op).1 ∧ ObsEq (step c g op).2 (step c s op).2 := by
  obtain ⟨hnr, hnn, hni⟩ := hq
  have hl : live c g = live c s := by unfold live; rw [hs.txn]
  unfold step at hni ⊢
  rw [hl]
  by_cases hls : live c s = true
  · simp only [hls, if_true] at hni ⊢; exact sim_stepLive c op hs hi hnr hnn hni
  · simp only [hls, Bool.false_eq_true, if_false]; exact sim_stepDead c op hs

theorem sim_step (c : Cfg) {g s : St} (op : Op) (hs : Sim g s) (hi : Inv s) (hq : Calm c s op) :
    Sim (stepGc c g op).1 (step c s op).1 ∧ ObsEq (stepGc c g op).2 (step c s op).2 := by
  obtain ⟨h1, h2⟩ := sim_step_raw c op hs hi hq
  exact ⟨sim_collect h1, h2⟩

theorem sim_init : Sim St.init St.init := ⟨rfl, rfl, rfl, rfl, fun _ => rel_refl _, rfl⟩

/-- pointwise `ObsEq` of two output lists -/
inductive ObsEqL : List Out → List Out → Prop
  | nil : ObsEqL [] []
  | cons {a b : Out} {as bs : List Out} : ObsEq a b → ObsEqL as bs → ObsEqL (a :: as) (b :: bs)

/-- a history in which the reference semantics never rolls back: no `rollback()` and no
    failing flush -/
def CalmRun (c : Cfg) : St → List Op → Prop
  | _, [] => True
  | s, op :: rest => Calm c s op ∧ CalmRun c (step c s op).1 rest

theorem sim_run (c : Cfg) (ops : List Op) : ∀ (g s : St), Sim g s → Inv s → CalmRun c s ops →
    Sim (runGc c g ops) (run c s ops) ∧ ObsEqL (outsGc c g ops) (outs c s ops) := by
  induction ops with
  | nil => intro g s hs _ _; exact ⟨hs, .nil⟩
  | cons op rest ih =>
    intro g s hs hi hc
    obtain ⟨hq, hrest⟩ := hc
    obtain ⟨h1, h2⟩ := sim_step c op hs hi hq
    obtain ⟨h3, h4⟩ := ih _ _ h1 (inv_step c s op hi hq) hrest
    exact ⟨h3, .cons h2 h4⟩

/-
Full statement (FALSE of the model and of the code, see `gc_unobservable_counterexample`):
  theorem gc_unobservable (c : Cfg) (ops : List Op) :
      ObsEqL (outsGc c St.init ops) (outs c St.init ops)
-/

/-- **gc_unobservable_partial**: for every history without a rollback (no `rollback()`, no
    failing flush), the Session under garbage collection (after every operation) returns
    what the Session in which nothing is ever collected returns — values read, results of
    flush / commit — except for the size of the identity map. -/
theorem gc_unobservable_partial (c : Cfg) (ops : List Op) (hc : CalmRun c St.init ops) :
    ObsEqL (outsGc c St.init ops) (outs c St.init ops) :=
  (sim_run c ops _ _ sim_init inv_init hc).2

/-- **gc_same_db_partial**: and it leaves the same database and the same pending objects:
    no change is lost to a dropped reference. -/
theorem gc_same_db_partial (c : Cfg) (ops : List Op) (hc : CalmRun c St.init ops) :
    (runGc c St.init ops).db = (run c St.init ops).db ∧
    (runGc c St.init ops).new = (run c St.init ops).new :=
  let h := (sim_run c ops _ _ sim_init inv_init hc).1
  ⟨h.db, h.new⟩

/-- the phantom: insert and flush an object, drop it (collected), load the row again,
    roll back.  The transaction only knows the collected instance (`_new` is weak), so the
    re-loaded one survives the rollback; modifying it makes the next flush fail, while the
    Session that kept the first instance alive expunged it and flushes nothing. -/
def phantomOps : List Op :=
  [.add 0 1, .flush, .drop 0, .get 0, .rollback, .len, .set 0 5, .flush]

theorem gc_unobservable_counterexample :
    outsGc ⟨1, false, true⟩ St.init phantomOps =
      [.done, .done, .done, .val (some 1), .done, .num 1, .done, .integrity] ∧
    outs ⟨1, false, true⟩ St.init phantomOps =
      [.done, .done, .done, .val (some 1), .done, .num 0, .skip, .done] := by
  decide

/-- the stale value: inside a savepoint change an object and flush, drop it (collected), load
    the row again, roll the savepoint back.  The savepoint only knows the collected instance
    (`_dirty` is weak), so the re-loaded one is not expired and keeps the value the rollback
    discarded; the Session that kept the first instance alive expires it and reads the row. -/
def staleOps : List Op :=
  [.add 0 1, .commit, .get 0, .beginNested, .set 0 5, .flush, .drop 0, .get 0, .rollbackNested, .get 0]

theorem savepoint_stale_counterexample :
    outsGc ⟨1, false, true⟩ St.init staleOps =
      [.done, .done, .val (some 1), .done, .done, .done, .done, .val (some 5), .done, .val (some 5)] ∧
    outs ⟨1, false, true⟩ St.init staleOps =
      [.done, .done, .val (some 1), .done, .done, .done, .done, .val (some 5), .done, .val (some 1)] ∧
    (runGc ⟨1, false, true⟩ St.init staleOps).db 0 = some 1 := by
  decide

/-! ## what collection does to one state -/

/-- **collect_keeps_strong**: a modified or deleted-marked object is never collected,
    and pending objects are untouched -/
theorem collect_keeps_strong (st : St) (k : Nat) (o : Obj) (ho : st.objs k = some o)
    (hs : strong o = true) : (collect st).objs k = some o ∧ (collect st).new = st.new := by
  simp [collect, ho, hs]

/-- **collect_flush_db**: flushing after a collection gives the same result and
    database as flushing without it -/
theorem collect_flush_db (c : Cfg) (st : St) :
    (doFlush c (collect st) = none ∧ doFlush c st = none) ∨
    ∃ g1 s1, doFlush c (collect st) = some g1 ∧ doFlush c st = some s1 ∧ g1.db = s1.db := by
  have hs : Sim (collect st) st := sim_collect ⟨rfl, rfl, rfl, rfl, fun _ => rel_refl _, rfl⟩
  rcases sim_doFlush c hs with h | ⟨g1, s1, h1, h2, h3⟩
  · exact Or.inl h
  · exact Or.inr ⟨g1, s1, h1, h2, h3.db⟩

/-- **collect_releases**: an unmodified, undeleted object that the application does not
    reference leaves the identity map -/
theorem collect_releases (st : St) (k : Nat) (o : Obj) (ho : st.objs k = some o)
    (ha : o.app = false) (hs : strong o = false) : (collect st).objs k = none := by
  simp [collect, ho, ha, hs]

/-- **partial_expire_keeps_strong**: `session.expire(obj, [exactly the modified attribute])`
    takes the history away but the state stays in `_modified` with its strong reference: the
    object is not collected, whatever the application drops, until the next flush. -/
theorem partial_expire_keeps_strong (c : Cfg) (st : St) (k : Nat) (o : Obj)
    (hl : live c st = true) (hn : st.new k = none) (ho : st.objs k = some o) (ht : o.touched = true) :
    ∃ o', (stepGc c st (.expireVal k)).1.objs k = some o' ∧ o'.touched = true := by
  simp only [stepGc, step, hl, if_true, stepLive, putSlot, expValSlot, hn, ho, collect]
  by_cases hc : (o.app && !o.del) = true
  · simp [hc, strong, ht]
  · simp [hc, ho, strong, ht]

/-- **refused_change_keeps_strong**: with autobegin=False the first change made outside a
    transaction is refused, but the state is in `_modified` by then and must be (and is)
    strongly referenced — otherwise a later flush would trip over a dead entry. -/
theorem refused_change_keeps_strong (c : Cfg) (st : St) (k : Nat) (v : Int) (o : Obj)
    (hl : live c st = false) (hnone : anyBelow c.n (fun j => touchedOpt (st.objs j)) = false)
    (hn : st.new k = none) (ho : st.objs k = some o) (ha : o.app = true) (hd : o.del = false) :
    (stepGc c st (.set k v)).2 = .raised ∧
    ∃ o', (stepGc c st (.set k v)).1.objs k = some o' ∧ o'.touched = true ∧ o'.val = o.val := by
  simp [stepGc, step, hl, stepDead, hnone, putSlot, setDeadSlot, hn, ho, ha, hd, collect, strong]

/-! ## savepoints: what was changed before `begin_nested()` survives the rollback of the savepoint -/

/-- either semantics: with (`gc = true`) or without collection after every operation -/
def stepB (gc : Bool) (c : Cfg) (s : St) (op : Op) : St × Out :=
  if gc then stepGc c s op else step c s op

def runB (gc : Bool) (c : Cfg) : St → List Op → St
  | s, [] => s
  | s, o :: os => runB gc c (stepB gc c s o).1 os

theorem stepB_fields (gc : Bool) (c : Cfg) (s : St) (op : Op) :
    (stepB gc c s op).1.db = (step c s op).1.db ∧ (stepB gc c s op).1.sp = (step c s op).1.sp ∧
    (stepB gc c s op).1.txn = (step c s op).1.txn ∧ (stepB gc c s op).2 = (step c s op).2 := by
  cases gc <;> simp [stepB, stepGc, collect]

theorem runB_append (gc : Bool) (c : Cfg) : ∀ (a b : List Op) (s : St),
    runB gc c s (a ++ b) = runB gc c (runB gc c s a) b
  | [], _, _ => rfl
  | x :: xs, b, s => by simp only [List.cons_append, runB]; exact runB_append gc c xs b _

theorem doFlush_keeps (c : Cfg) (s s1 : St) (h : doFlush c s = some s1) :
    s1.sp = s.sp ∧ s1.txn = s.txn := by
  unfold doFlush at h
  split at h
  · cases h; exact ⟨rfl, rfl⟩
  · split at h
    · cases h
    · cases h; exact ⟨rfl, rfl⟩

theorem strongOpt_flushObj (nw : Option (Int × Bool)) (o : Option Obj) :
    strongOpt (flushObj nw o) = false := by
  unfold flushObj
  cases nw with
  | some p => obtain ⟨v, a⟩ := p; simp [strongOpt, strong]
  | none =>
    cases o with
    | none => rfl
    | some ob =>
      by_cases hd : ob.del = true
      · simp [hd, strongOpt]
      · simp [hd, strongOpt, strong]

/-- **flush_leaves_no_work**: after a successful flush nothing is pending -/
theorem flush_leaves_no_work (c : Cfg) (s s1 : St) (h : doFlush c s = some s1) :
    hasWork c s1 = false := by
  unfold doFlush at h
  split at h
  · rename_i hw; cases h; simpa using hw
  · split at h
    · cases h
    · cases h
      simp only [hasWork, anyBelow, List.any_eq_false, List.mem_range]
      intro k hk
      simp [hk, strongOpt_flushObj]

/-- **begin_nested_flushes**: `begin_nested()` flushes whatever `autoflush` says — when it
    succeeds nothing is pending any more and the savepoint is the database with every earlier
    change in it -/
theorem begin_nested_flushes (c : Cfg) (s s' : St) (hl : live c s = true) (hsp : s.sp = none)
    (h : step c s .beginNested = (s', .done)) :
    ∃ s1, doFlush c s = some s1 ∧ s'.db = s1.db ∧ s'.sp = some s1.db ∧ hasWork c s' = false := by
  simp only [step, hl, if_true, stepLive, hsp, Option.isSome_none, Bool.false_eq_true, if_false] at h
  cases hf : doFlush c s with
  | none => simp [hf] at h
  | some s1 =>
    simp only [hf, Prod.mk.injEq, and_true] at h
    subst h
    exact ⟨s1, rfl, rfl, rfl, flush_leaves_no_work c s s1 hf⟩

/-- **flush_writes_pending_change**: a flush writes the value of a modified persistent object
    whose row exists — whether or not the application still holds the object -/
theorem flush_writes_pending_change (c : Cfg) (s s1 : St) (k : Nat) (o : Obj) (r : Int)
    (h : doFlush c s = some s1) (hk : k < c.n) (hn : s.new k = none) (ho : s.objs k = some o)
    (hm : o.mod = true) (hd : o.del = false) (hr : s.db k = some r) : s1.db k = o.val := by
  have hw : hasWork c s = true := by
    simp only [hasWork, anyBelow, List.any_eq_true, List.mem_range]
    exact ⟨k, hk, by simp [ho, strongOpt, strong, hm]⟩
  unfold doFlush at h
  simp only [hw, Bool.not_true, Bool.false_eq_true, if_false] at h
  split at h
  · cases h
  · cases h
    simp [hk, hn, ho, flushRow, hd, hm, hr]

/-- operations that stay inside the open savepoint: they do not end it (commit, rollback,
    release, rollback of the savepoint) and no flush among them fails -/
def InsideRun (gc : Bool) (c : Cfg) : St → List Op → Prop
  | _, [] => True
  | s, op :: rest =>
    op ≠ .commit ∧ op ≠ .rollback ∧ op ≠ .releaseNested ∧ op ≠ .rollbackNested ∧
    (step c s op).2 ≠ .integrity ∧ InsideRun gc c (stepB gc c s op).1 rest

theorem inside_step (c : Cfg) (s : St) (op : Op) (d : DB) (hsp : s.sp = some d) (hl : live c s = true)
    (h1 : op ≠ .commit) (h2 : op ≠ .rollback) (h3 : op ≠ .releaseNested) (h4 : op ≠ .rollbackNested)
    (hni : (step c s op).2 ≠ .integrity) :
    (step c s op).1.sp = some d ∧ live c (step c s op).1 = true := by
  unfold step at hni ⊢
  simp only [hl, if_true] at hni ⊢
  unfold live at hl ⊢
  cases op with
  | get k => exact ⟨hsp, hl⟩
  | set k v => exact ⟨hsp, hl⟩
  | del k => exact ⟨hsp, hl⟩
  | add k v => exact ⟨hsp, hl⟩
  | drop k => exact ⟨hsp, hl⟩
  | expire k => exact ⟨hsp, hl⟩
  | expireVal k => exact ⟨hsp, hl⟩
  | expireId k => exact ⟨hsp, hl⟩
  | begin => exact ⟨hsp, hl⟩
  | len => exact ⟨hsp, hl⟩
  | beginNested => simp only [stepLive, hsp, Option.isSome_some, if_true]; exact ⟨trivial, hl⟩
  | flush =>
    simp only [stepLive] at hni ⊢
    cases hf : doFlush c s with
    | none => simp [hf] at hni
    | some s1 =>
      obtain ⟨e1, e2⟩ := doFlush_keeps c s s1 hf
      simp only [e1, e2]; exact ⟨hsp, hl⟩
  | commit => exact absurd rfl h1
  | rollback => exact absurd rfl h2
  | releaseNested => exact absurd rfl h3
  | rollbackNested => exact absurd rfl h4

theorem inside_run (gc : Bool) (c : Cfg) (d : DB) : ∀ (ops : List Op) (s : St), s.sp = some d → live c s = true →
    InsideRun gc c s ops → (runB gc c s ops).sp = some d ∧ live c (runB gc c s ops) = true
  | [], _, hsp, hl, _ => ⟨hsp, hl⟩
  | op :: rest, s, hsp, hl, ⟨h1, h2, h3, h4, hni, hrest⟩ => by
    obtain ⟨e1, e2⟩ := inside_step c s op d hsp hl h1 h2 h3 h4 hni
    obtain ⟨f1, f2, f3, _⟩ := stepB_fields gc c s op
    simp only [runB]
    apply inside_run gc c d rest _ (by rw [f2]; exact e1) (by unfold live at e2 ⊢; rw [f3]; exact e2) hrest

/-- **savepoint_rollback_restores_flushed_state**: `begin_nested()`, any operations inside the
    savepoint (changes, drops, collections, flushes), then the rollback of the savepoint: the
    database is the one `begin_nested()` flushed — with or without garbage collection -/
theorem savepoint_rollback_restores_flushed_state (gc : Bool) (c : Cfg) (s s1 : St) (ops : List Op)
    (hl : live c s = true) (hsp : s.sp = none) (hf : doFlush c s = some s1)
    (hin : InsideRun gc c (stepB gc c s .beginNested).1 ops) :
    (runB gc c s (.beginNested :: ops ++ [.rollbackNested])).db = s1.db := by
  have hb : step c s .beginNested =
      ({ s1 with sp := some s1.db, spFresh := fun _ => false, spDirty := fun _ => false }, .done) := by
    simp [step, hl, stepLive, hsp, hf]
  obtain ⟨b1, b2, b3, _⟩ := stepB_fields gc c s .beginNested
  have hsp1 : (stepB gc c s .beginNested).1.sp = some s1.db := by rw [b2, hb]
  have hl1 : live c (stepB gc c s .beginNested).1 = true := by
    unfold live at hl ⊢; rw [b3, hb]; simp only; rw [(doFlush_keeps c s s1 hf).2]; exact hl
  obtain ⟨e1, e2⟩ := inside_run gc c s1.db ops _ hsp1 hl1 hin
  simp only [List.cons_append, runB]
  rw [runB_append]
  simp only [runB]
  obtain ⟨r1, _, _, _⟩ := stepB_fields gc c (runB gc c (stepB gc c s .beginNested).1 ops) .rollbackNested
  rw [r1]
  simp [step, e2, stepLive, e1, rolledBackNested]

/-- **outer_change_survives_savepoint_rollback**: a change of a persistent object that is
    pending when `begin_nested()` is called is in the database after the savepoint was
    rolled back, whatever happened inside the savepoint and whether or not the application
    still holds the object (`o.app`) -/
theorem outer_change_survives_savepoint_rollback (gc : Bool) (c : Cfg) (s s1 : St) (ops : List Op)
    (k : Nat) (o : Obj) (r : Int)
    (hl : live c s = true) (hsp : s.sp = none) (hf : doFlush c s = some s1)
    (hin : InsideRun gc c (stepB gc c s .beginNested).1 ops)
    (hk : k < c.n) (hn : s.new k = none) (ho : s.objs k = some o)
    (hm : o.mod = true) (hd : o.del = false) (hr : s.db k = some r) :
    (runB gc c s (.beginNested :: ops ++ [.rollbackNested])).db k = o.val := by
  rw [savepoint_rollback_restores_flushed_state gc c s s1 ops hl hsp hf hin]
  exact flush_writes_pending_change c s s1 k o r hf hk hn ho hm hd hr

/-- the demo of the seeded change: a pending change, the reference dropped and collected, a
    savepoint with a failing step rolled back, then commit: the change is in the database -/
example :
    let c : Cfg := ⟨2, true, true⟩
    (runGc c St.init [.add 0 1, .add 1 2, .commit, .get 0, .set 0 7, .drop 0, .beginNested, .add 1 9, .flush,
      .rollbackNested, .commit]).db 0 = some 7 := by
  decide

/-! ## non-vacuity -/

/-- decidable form of `CalmRun` -/
def calmB (c : Cfg) : St → List Op → Bool
  | _, [] => true
  | s, op :: rest =>
    (match op with
     | .rollback => false
     | .rollbackNested => false
     | _ => true) && ((step c s op).2 != .integrity) && calmB c (step c s op).1 rest

theorem calmRun_of_calmB (c : Cfg) : ∀ (ops : List Op) (s : St), calmB c s ops = true → CalmRun c s ops := by
  intro ops
  induction ops with
  | nil => intro _ _; trivial
  | cons op rest ih =>
    intro s h
    simp only [calmB, Bool.and_eq_true, bne_iff_ne, ne_eq] at h
    refine ⟨⟨?_, ?_, h.1.2⟩, ih _ h.2⟩
    · intro he
      subst he
      simp at h
    · intro he
      subst he
      simp at h

/-- the hypothesis of `gc_unobservable_partial` is satisfiable by a history with drops,
    collections and flushes -/
example : CalmRun ⟨1, false, true⟩ St.init [.add 0 1, .commit, .drop 0, .get 0, .set 0 2, .drop 0, .flush, .len] :=
  calmRun_of_calmB _ _ _ (by decide)

/-- modify, drop the reference, collect, flush: the change is written; the clean object
    is released afterwards -/
example :
    let c : Cfg := ⟨1, false, true⟩
    outsGc c St.init [.add 0 1, .commit, .len, .drop 0, .len, .get 0, .set 0 2, .drop 0, .len, .flush, .len] =
      [.done, .done, .num 1, .done, .num 0, .val (some 1), .done, .done, .num 1, .done, .num 0] ∧
    (runGc c St.init [.add 0 1, .commit, .drop 0, .get 0, .set 0 2, .drop 0, .flush]).db 0 = some 2 := by
  decide

/-- autobegin=False: a refused change, the object dropped and collected (it is not: the Session
    holds it), then a proper transaction changing and dropping another object: both changes of
    state are consistent and the flush writes the second object's value -/
example :
    let c : Cfg := ⟨2, false, false⟩
    outsGc c St.init [.begin, .add 0 1, .add 1 2, .commit, .set 0 5, .drop 0, .len, .begin, .set 1 6, .drop 1,
                      .flush, .len] =
      [.done, .done, .done, .done, .raised, .done, .num 2, .done, .done, .done, .done, .num 0] ∧
    (runGc c St.init [.begin, .add 0 1, .add 1 2, .commit, .set 0 5, .drop 0, .begin, .set 1 6, .drop 1, .flush]).db 1 = some 6 ∧
    CalmRun c St.init [.begin, .add 0 1, .add 1 2, .commit, .set 0 5, .drop 0, .begin, .set 1 6, .drop 1, .flush] :=
  ⟨by decide, by decide, calmRun_of_calmB _ _ _ (by decide)⟩

/-- the two semantics really differ on `len` (the theorem's exception is needed) -/
example :
    let c : Cfg := ⟨1, false, true⟩
    outs c St.init [.add 0 1, .commit, .drop 0, .len] ≠ outsGc c St.init [.add 0 1, .commit, .drop 0, .len] := by
  decide

end SaVerif.Props.C48
