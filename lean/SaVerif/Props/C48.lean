import SaVerif.Model.Weakref
/-!
# C48 — Pending changes survive the application dropping its references

Theorems about M-ORM/weakref (`SaVerif/Model/Weakref.lean`).

`stepGc` is the Session as CPython runs it: after every operation every object that
neither the application nor the Session (`_strong_obj`, `_new`, `_deleted`) holds is
gone from the identity map.  `step` is the reference semantics in which nothing is
ever collected.

* `gc_unobservable_partial`, `gc_same_db_partial` — for every history WITHOUT a rollback
  (induction over the operation list through the simulation `Sim`): both semantics
  produce the same outputs (values read, flush/commit results; only
  `len(identity_map)` may differ) and the same database.  Hence every change is flushed
  no matter which references were dropped and what was collected in between.
* `gc_unobservable_counterexample` — with a rollback the full statement is false: the
  transaction remembers the instances it inserted only weakly (finding).
* `collect_keeps_strong` — collection never removes an object with pending work;
  `collect_flush_db` — flushing after a collection writes the same database;
  `collect_releases` — an unmodified, undeleted object without application reference
  *is* released.
-/
namespace SaVerif.Props.C48
open SaVerif.Weakref

/-! ## invariant of the reference semantics (no other writer) -/

/-- identity-map entry vs. its row: clean values are the row's, modified objects have a
    value, and the row exists -/
def InvSlot (o : Option Obj) (row : Option Int) : Prop :=
  ∀ ob, o = some ob →
    (ob.mod = false → ob.val = none ∨ ob.val = row) ∧ (ob.mod = true → ob.val.isSome = true) ∧
    row.isSome = true

def Inv (s : St) : Prop := ∀ k, InvSlot (s.objs k) (s.db k)

theorem invSlot_none (row : Option Int) : InvSlot none row := fun _ h => by cases h

/-- closing tactic for the slot lemmas: the new entry is an explicit record -/
macro "slot_done" : tactic =>
  `(tactic| (intro ob' he; simp only [Option.some.injEq, Option.map_some] at he; subst he;
             refine ⟨?_, ?_, ?_⟩ <;> simp_all))

theorem invSlot_get (nw : Option (Int × Bool)) (o : Option Obj) (row : Option Int)
    (h : InvSlot o row) : InvSlot (getSlot nw o row).1.2 row := by
  unfold getSlot
  cases nw with
  | some _ => exact h
  | none =>
    cases o with
    | some ob =>
      obtain ⟨h1, h2, h3⟩ := h ob rfl
      by_cases hd : ob.del = true
      · simp only [hd, if_true]; exact h
      · simp only [hd, Bool.false_eq_true, if_false]
        cases hv : ob.val with
        | some v => simp only []; slot_done
        | none =>
          cases row with
          | none => exact invSlot_none _
          | some v => simp only []; slot_done
    | none =>
      cases row with
      | none => exact invSlot_none _
      | some v => simp only []; slot_done

theorem invSlot_set (v : Int) (nw : Option (Int × Bool)) (o : Option Obj) (row : Option Int)
    (h : InvSlot o row) : InvSlot (setSlot v nw o).1.2 row := by
  unfold setSlot
  cases nw with
  | some p =>
    obtain ⟨w, a⟩ := p
    by_cases ha : a = true
    · simp only [ha, if_true]; exact h
    · simp only [ha, Bool.false_eq_true, if_false]; exact h
  | none =>
    cases o with
    | none => exact h
    | some ob =>
      obtain ⟨h1, h2, h3⟩ := h ob rfl
      by_cases hc : (ob.app && !ob.del) = true
      · simp only [hc, if_true]; slot_done
      · simp only [hc, Bool.false_eq_true, if_false]; exact h

theorem invSlot_del (nw : Option (Int × Bool)) (o : Option Obj) (row : Option Int)
    (h : InvSlot o row) : InvSlot (delSlot nw o).1.2 row := by
  unfold delSlot
  cases nw with
  | some p => exact h
  | none =>
    cases o with
    | none => exact h
    | some ob =>
      obtain ⟨h1, h2, h3⟩ := h ob rfl
      by_cases hc : (ob.app && !ob.del) = true
      · simp only [hc, if_true]; slot_done
      · simp only [hc, Bool.false_eq_true, if_false]; exact h

theorem invSlot_add (v : Int) (nw : Option (Int × Bool)) (o : Option Obj) (row : Option Int)
    (h : InvSlot o row) : InvSlot (addSlot v nw o).1.2 row := by
  unfold addSlot
  cases o <;> simp only [] <;> split <;> exact h

theorem invSlot_drop (nw : Option (Int × Bool)) (o : Option Obj) (row : Option Int)
    (h : InvSlot o row) : InvSlot (dropSlot nw o).1.2 row := by
  unfold dropSlot
  cases nw with
  | some p => exact h
  | none =>
    cases o with
    | none => exact h
    | some ob =>
      obtain ⟨h1, h2, h3⟩ := h ob rfl
      simp only []
      slot_done

theorem invSlot_exp (nw : Option (Int × Bool)) (o : Option Obj) (row : Option Int)
    (h : InvSlot o row) : InvSlot (expSlot nw o).1.2 row := by
  unfold expSlot
  cases nw with
  | some p => exact h
  | none =>
    cases o with
    | none => exact h
    | some ob =>
      obtain ⟨h1, h2, h3⟩ := h ob rfl
      by_cases hc : (ob.app && !ob.del) = true
      · simp only [hc, if_true]; slot_done
      · simp only [hc, Bool.false_eq_true, if_false]; exact h

theorem invSlot_expVal (nw : Option (Int × Bool)) (o : Option Obj) (row : Option Int)
    (h : InvSlot o row) : InvSlot (expValSlot nw o).1.2 row := by
  unfold expValSlot
  cases nw with
  | some p => exact h
  | none =>
    cases o with
    | none => exact h
    | some ob =>
      obtain ⟨h1, h2, h3⟩ := h ob rfl
      by_cases hc : (ob.app && !ob.del) = true
      · simp only [hc, if_true]; slot_done
      · simp only [hc, Bool.false_eq_true, if_false]; exact h

theorem invSlot_expId (nw : Option (Int × Bool)) (o : Option Obj) (row : Option Int)
    (h : InvSlot o row) : InvSlot (expIdSlot nw o).1.2 row := by
  unfold expIdSlot
  cases nw with
  | some p => exact h
  | none =>
    cases o with
    | none => exact h
    | some ob =>
      by_cases hc : (ob.app && !ob.del) = true
      · simp only [hc, if_true]; exact h
      · simp only [hc, Bool.false_eq_true, if_false]; exact h

theorem invSlot_setDead (nw : Option (Int × Bool)) (o : Option Obj) (row : Option Int)
    (h : InvSlot o row) : InvSlot (setDeadSlot nw o).1.2 row := by
  unfold setDeadSlot
  cases nw with
  | some p => exact h
  | none =>
    cases o with
    | none => exact h
    | some ob =>
      obtain ⟨h1, h2, h3⟩ := h ob rfl
      by_cases hc : (ob.app && !ob.del) = true
      · simp only [hc, if_true]; slot_done
      · simp only [hc, Bool.false_eq_true, if_false]; exact h

theorem inv_putSlot (s : St) (k : Nat) (r : Slot × Out) (h : Inv s) (hk : InvSlot r.1.2 (s.db k)) :
    Inv (putSlot s k r).1 := by
  intro j
  simp only [putSlot]
  by_cases hj : j = k
  · subst hj; simp only [if_true]; exact hk
  · simp only [hj, if_false]; exact h j

theorem invSlot_flush (nw : Option (Int × Bool)) (o : Option Obj) (row : Option Int)
    (h : InvSlot o row) : InvSlot (flushObj nw o) (flushRow nw o row) := by
  unfold flushObj flushRow
  cases nw with
  | some p =>
    obtain ⟨v, a⟩ := p
    simp only []
    slot_done
  | none =>
    cases o with
    | none => exact invSlot_none _
    | some ob =>
      obtain ⟨h1, h2, h3⟩ := h ob rfl
      by_cases hd : ob.del = true
      · simp only [hd, if_true]; exact invSlot_none _
      · simp only [hd, Bool.false_eq_true, if_false]
        by_cases hm : ob.mod = true
        · simp only [hm, if_true]
          cases row with
          | none => cases h3
          | some r => simp only []; slot_done
        · simp only [hm, Bool.false_eq_true, if_false]; slot_done

theorem doFlush_cases (c : Cfg) (s s1 : St) (h : doFlush c s = some s1) :
    s1 = s ∨
    (s1.db = (fun k => if k < c.n then flushRow (s.new k) (s.objs k) (s.db k) else s.db k) ∧
     s1.objs = (fun k => if k < c.n then flushObj (s.new k) (s.objs k) else s.objs k) ∧
     s1.new = (fun k => if k < c.n then none else s.new k) ∧
     s1.saved = (match s.saved with
                 | some x => some x
                 | none => some s.db)) := by
  unfold doFlush at h
  split at h
  · left; cases h; rfl
  · split at h
    · cases h
    · right
      simp only [Option.some.injEq] at h
      subst h
      exact ⟨rfl, rfl, rfl, rfl⟩

theorem inv_doFlush (c : Cfg) (s s1 : St) (hi : Inv s) (h : doFlush c s = some s1) : Inv s1 := by
  rcases doFlush_cases c s s1 h with rfl | ⟨hdb, hobjs, _, _⟩
  · exact hi
  · intro k
    rw [hdb, hobjs]
    simp only
    by_cases hk : k < c.n
    · simp only [hk, if_true]; exact invSlot_flush _ _ _ (hi k)
    · simp only [hk, if_false]; exact hi k

theorem inv_expireMap (s : St) (hi : Inv s) :
    Inv { s with saved := none, txn := false, fresh := fun _ => false,
                 objs := fun k => (s.objs k).map (fun o => { o with val := none, mod := false }) } := by
  intro k
  simp only
  cases ho : s.objs k with
  | none => exact invSlot_none _
  | some o =>
    obtain ⟨h1, h2, h3⟩ := hi k o ho
    simp only [Option.map_some]
    slot_done

theorem inv_init : Inv St.init := fun _ => invSlot_none _

/-- the operation neither is nor triggers a rollback (explicit `rollback()`, or a flush that
    fails) in the reference semantics -/
def Calm (c : Cfg) (s : St) (op : Op) : Prop :=
  op ≠ .rollback ∧ (step c s op).2 ≠ .integrity

theorem inv_stepLive (c : Cfg) (s : St) (op : Op) (hi : Inv s)
    (hnr : op ≠ .rollback) (hni : (stepLive c s op).2 ≠ .integrity) : Inv (stepLive c s op).1 := by
  cases op with
  | get k => exact inv_putSlot s k _ hi (invSlot_get _ _ _ (hi k))
  | set k v => exact inv_putSlot s k _ hi (invSlot_set v _ _ _ (hi k))
  | del k => exact inv_putSlot s k _ hi (invSlot_del _ _ _ (hi k))
  | add k v => exact inv_putSlot s k _ hi (invSlot_add v _ _ _ (hi k))
  | drop k => exact inv_putSlot s k _ hi (invSlot_drop _ _ _ (hi k))
  | expire k => exact inv_putSlot s k _ hi (invSlot_exp _ _ _ (hi k))
  | expireVal k => exact inv_putSlot s k _ hi (invSlot_expVal _ _ _ (hi k))
  | expireId k => exact inv_putSlot s k _ hi (invSlot_expId _ _ _ (hi k))
  | begin => exact hi
  | flush =>
    simp only [stepLive] at hni ⊢
    cases h : doFlush c s with
    | none => simp [h] at hni
    | some s1 => exact inv_doFlush c s s1 hi h
  | commit =>
    simp only [stepLive] at hni ⊢
    cases h : doFlush c s with
    | none => simp [h] at hni
    | some s1 =>
      have h1 := inv_doFlush c s s1 hi h
      by_cases he : c.eoc = true
      · simp only [he, if_true]; exact inv_expireMap s1 h1
      · simp only [he, Bool.false_eq_true, if_false]; exact h1
  | rollback => exact absurd rfl hnr
  | len => exact hi

theorem inv_stepDead (c : Cfg) (s : St) (op : Op) (hi : Inv s) : Inv (stepDead c s op).1 := by
  cases op with
  | set k v =>
    simp only [stepDead]
    split
    · exact inv_putSlot s k _ hi (invSlot_set v _ _ _ (hi k))
    · exact inv_putSlot s k _ hi (invSlot_setDead _ _ _ (hi k))
  | drop k => exact inv_putSlot s k _ hi (invSlot_drop _ _ _ (hi k))
  | begin => exact hi
  | len => exact hi
  | get k => exact hi
  | del k => exact hi
  | add k v => exact hi
  | expire k => exact hi
  | expireVal k => exact hi
  | expireId k => exact hi
  | flush => exact hi
  | commit => exact hi
  | rollback => exact hi

/-- the invariant holds along every rollback-free history of the reference semantics -/
theorem inv_step (c : Cfg) (s : St) (op : Op) (hi : Inv s) (hq : Calm c s op) : Inv (step c s op).1 := by
  obtain ⟨hnr, hni⟩ := hq
  unfold step at hni ⊢
  by_cases hl : live c s = true
  · simp only [hl, if_true] at hni ⊢; exact inv_stepLive c s op hi hnr hni
  · simp only [hl, Bool.false_eq_true, if_false]; exact inv_stepDead c s op hi

/-! ## the simulation -/

/-- entry of the collected identity map vs. the uncollected one: equal, or collected
    and then nobody holds it -/
def Rel (og os : Option Obj) : Prop :=
  og = os ∨ (og = none ∧ ∃ o, os = some o ∧ o.app = false ∧ strong o = false)

structure Sim (g s : St) : Prop where
  db : g.db = s.db
  saved : g.saved = s.saved
  new : g.new = s.new
  txn : g.txn = s.txn
  objs : ∀ k, Rel (g.objs k) (s.objs k)

theorem rel_refl (o : Option Obj) : Rel o o := Or.inl rfl

theorem strong_false {o : Obj} (h : strong o = false) : o.mod = false ∧ o.del = false := by
  unfold strong at h
  simp only [Bool.or_eq_false_iff] at h
  exact ⟨h.1.1, h.2⟩

theorem strong_false_touched {o : Obj} (h : strong o = false) : o.touched = false := by
  unfold strong at h
  simp only [Bool.or_eq_false_iff] at h
  exact h.1.2

/-- outputs agree up to the size of the identity map -/
def ObsEq (a b : Out) : Prop := a = b ∨ ∃ x y, a = .num x ∧ b = .num y

/-- what a slot operation has to satisfy: same pending entry, same output, related objects -/
def SlotSim (rg rs : Slot × Out) : Prop := rg.1.1 = rs.1.1 ∧ rg.2 = rs.2 ∧ Rel rg.1.2 rs.1.2

theorem slotSim_of_eq {rg rs : Slot × Out} (h : rg = rs) : SlotSim rg rs := by
  subst h; exact ⟨rfl, rfl, rel_refl _⟩

theorem sim_get (nw : Option (Int × Bool)) (og os : Option Obj) (row : Option Int)
    (hr : Rel og os) (hi : InvSlot os row) : SlotSim (getSlot nw og row) (getSlot nw os row) := by
  rcases hr with rfl | ⟨rfl, o, rfl, ha, hs⟩
  · exact slotSim_of_eq rfl
  · obtain ⟨hm, hd⟩ := strong_false hs
    have ht := strong_false_touched hs
    obtain ⟨h1, _, _⟩ := hi o rfl
    unfold getSlot
    cases nw with
    | some p => exact ⟨rfl, rfl, Or.inr ⟨rfl, o, rfl, ha, hs⟩⟩
    | none =>
      simp only [hd, Bool.false_eq_true, if_false]
      cases hv : o.val with
      | some v =>
        -- cached value = row (coherence): the reload of the collected twin returns the same
        have hrow : row = some v := by
          rcases h1 hm with h | h
          · rw [hv] at h; cases h
          · rw [← h, hv]
        subst hrow
        refine ⟨rfl, rfl, Or.inl ?_⟩
        cases o
        simp_all
      | none =>
        cases row with
        | none => exact ⟨rfl, rfl, rel_refl _⟩
        | some v =>
          refine ⟨rfl, rfl, Or.inl ?_⟩
          cases o
          simp_all

theorem sim_set (v : Int) (nw : Option (Int × Bool)) (og os : Option Obj) (hr : Rel og os) :
    SlotSim (setSlot v nw og) (setSlot v nw os) := by
  rcases hr with rfl | ⟨rfl, o, rfl, ha, hs⟩
  · exact slotSim_of_eq rfl
  · unfold setSlot
    cases nw with
    | some p =>
      obtain ⟨w, a⟩ := p
      by_cases h : a = true <;> simp only [h, if_true, Bool.false_eq_true, if_false] <;>
        exact ⟨rfl, rfl, Or.inr ⟨rfl, o, rfl, ha, hs⟩⟩
    | none =>
      simp only [ha, Bool.false_and, Bool.false_eq_true, if_false]
      exact ⟨rfl, rfl, Or.inr ⟨rfl, o, rfl, ha, hs⟩⟩

theorem sim_del (nw : Option (Int × Bool)) (og os : Option Obj) (hr : Rel og os) :
    SlotSim (delSlot nw og) (delSlot nw os) := by
  rcases hr with rfl | ⟨rfl, o, rfl, ha, hs⟩
  · exact slotSim_of_eq rfl
  · unfold delSlot
    cases nw with
    | some p => exact ⟨rfl, rfl, Or.inr ⟨rfl, o, rfl, ha, hs⟩⟩
    | none =>
      simp only [ha, Bool.false_and, Bool.false_eq_true, if_false]
      exact ⟨rfl, rfl, Or.inr ⟨rfl, o, rfl, ha, hs⟩⟩

theorem sim_add (v : Int) (nw : Option (Int × Bool)) (og os : Option Obj) (hr : Rel og os) :
    SlotSim (addSlot v nw og) (addSlot v nw os) := by
  rcases hr with rfl | ⟨rfl, o, rfl, ha, hs⟩
  · exact slotSim_of_eq rfl
  · unfold addSlot
    simp only [ha, hs, Bool.not_false, Bool.and_self, Bool.and_true]
    by_cases hn : nw.isNone = true
    · simp only [hn, if_true]; exact ⟨rfl, rfl, Or.inr ⟨rfl, o, rfl, ha, hs⟩⟩
    · simp only [hn, Bool.false_eq_true, if_false]; exact ⟨rfl, rfl, Or.inr ⟨rfl, o, rfl, ha, hs⟩⟩

theorem sim_drop (nw : Option (Int × Bool)) (og os : Option Obj) (hr : Rel og os) :
    SlotSim (dropSlot nw og) (dropSlot nw os) := by
  rcases hr with rfl | ⟨rfl, o, rfl, ha, hs⟩
  · exact slotSim_of_eq rfl
  · unfold dropSlot
    cases nw with
    | some p => exact ⟨rfl, rfl, Or.inr ⟨rfl, o, rfl, ha, hs⟩⟩
    | none =>
      refine ⟨rfl, rfl, Or.inr ⟨rfl, { o with app := false }, rfl, rfl, ?_⟩⟩
      simpa [strong] using hs

theorem sim_exp (nw : Option (Int × Bool)) (og os : Option Obj) (hr : Rel og os) :
    SlotSim (expSlot nw og) (expSlot nw os) := by
  rcases hr with rfl | ⟨rfl, o, rfl, ha, hs⟩
  · exact slotSim_of_eq rfl
  · unfold expSlot
    cases nw with
    | some p => exact ⟨rfl, rfl, Or.inr ⟨rfl, o, rfl, ha, hs⟩⟩
    | none =>
      simp only [ha, Bool.false_and, Bool.false_eq_true, if_false]
      exact ⟨rfl, rfl, Or.inr ⟨rfl, o, rfl, ha, hs⟩⟩

theorem sim_expVal (nw : Option (Int × Bool)) (og os : Option Obj) (hr : Rel og os) :
    SlotSim (expValSlot nw og) (expValSlot nw os) := by
  rcases hr with rfl | ⟨rfl, o, rfl, ha, hs⟩
  · exact slotSim_of_eq rfl
  · unfold expValSlot
    cases nw with
    | some p => exact ⟨rfl, rfl, Or.inr ⟨rfl, o, rfl, ha, hs⟩⟩
    | none =>
      simp only [ha, Bool.false_and, Bool.false_eq_true, if_false]
      exact ⟨rfl, rfl, Or.inr ⟨rfl, o, rfl, ha, hs⟩⟩

theorem sim_expId (nw : Option (Int × Bool)) (og os : Option Obj) (hr : Rel og os) :
    SlotSim (expIdSlot nw og) (expIdSlot nw os) := by
  rcases hr with rfl | ⟨rfl, o, rfl, ha, hs⟩
  · exact slotSim_of_eq rfl
  · unfold expIdSlot
    cases nw with
    | some p => exact ⟨rfl, rfl, Or.inr ⟨rfl, o, rfl, ha, hs⟩⟩
    | none =>
      simp only [ha, Bool.false_and, Bool.false_eq_true, if_false]
      exact ⟨rfl, rfl, Or.inr ⟨rfl, o, rfl, ha, hs⟩⟩

theorem sim_setDead (nw : Option (Int × Bool)) (og os : Option Obj) (hr : Rel og os) :
    SlotSim (setDeadSlot nw og) (setDeadSlot nw os) := by
  rcases hr with rfl | ⟨rfl, o, rfl, ha, hs⟩
  · exact slotSim_of_eq rfl
  · unfold setDeadSlot
    cases nw with
    | some p => exact ⟨rfl, rfl, Or.inr ⟨rfl, o, rfl, ha, hs⟩⟩
    | none =>
      simp only [ha, Bool.false_and, Bool.false_eq_true, if_false]
      exact ⟨rfl, rfl, Or.inr ⟨rfl, o, rfl, ha, hs⟩⟩

theorem rel_touched {og os : Option Obj} (h : Rel og os) : touchedOpt og = touchedOpt os := by
  rcases h with rfl | ⟨rfl, o, rfl, _, hs⟩
  · rfl
  · simp [touchedOpt, strong_false_touched hs]

theorem sim_putSlot {g s : St} (hs : Sim g s) (k : Nat) (rg rs : Slot × Out) (h : SlotSim rg rs) :
    Sim (putSlot g k rg).1 (putSlot s k rs).1 ∧ (putSlot g k rg).2 = (putSlot s k rs).2 := by
  obtain ⟨h1, h2, h3⟩ := h
  refine ⟨⟨hs.db, hs.saved, ?_, hs.txn, ?_⟩, h2⟩
  · funext j
    simp only [putSlot]
    by_cases hj : j = k
    · simp [hj, h1]
    · simp only [hj, if_false]; rw [hs.new]
  · intro j
    simp only [putSlot]
    by_cases hj : j = k
    · simp only [hj, if_true]; exact h3
    · simp only [hj, if_false]; exact hs.objs j

/-- collection keeps the simulation -/
theorem sim_collect {g s : St} (hs : Sim g s) : Sim (collect g) s := by
  refine ⟨hs.db, hs.saved, hs.new, hs.txn, ?_⟩
  intro k
  simp only [collect]
  rcases hs.objs k with h | ⟨h, o, ho, ha, hst⟩
  · cases hg : g.objs k with
    | none => rw [← h, hg]; exact rel_refl _
    | some o =>
      by_cases hc : (o.app || strong o) = true
      · simp only [hc, if_true]; rw [← h, hg]; exact rel_refl _
      · simp only [hc, Bool.false_eq_true, if_false]
        simp only [Bool.or_eq_true, not_or, Bool.not_eq_true] at hc
        exact Or.inr ⟨rfl, o, by rw [← h, hg], hc.1, hc.2⟩
  · rw [h]; exact Or.inr ⟨rfl, o, ho, ha, hst⟩

theorem rel_strong {og os : Option Obj} (h : Rel og os) : strongOpt og = strongOpt os := by
  rcases h with rfl | ⟨rfl, o, rfl, _, hs⟩
  · rfl
  · simp [strongOpt, hs]

theorem sim_hasWork (c : Cfg) {g s : St} (hs : Sim g s) : hasWork c g = hasWork c s := by
  unfold hasWork
  congr 1
  funext k
  rw [hs.new, rel_strong (hs.objs k)]

theorem rel_flushRow (nw : Option (Int × Bool)) {og os : Option Obj} (row : Option Int) (h : Rel og os) :
    flushRow nw og row = flushRow nw os row := by
  rcases h with rfl | ⟨rfl, o, rfl, _, hs⟩
  · rfl
  · obtain ⟨hm, hd⟩ := strong_false hs
    unfold flushRow
    cases nw with
    | some p => rfl
    | none => simp [hm, hd]

theorem rel_flushObj (nw : Option (Int × Bool)) {og os : Option Obj} (h : Rel og os) :
    Rel (flushObj nw og) (flushObj nw os) := by
  rcases h with rfl | ⟨rfl, o, rfl, ha, hs⟩
  · exact rel_refl _
  · obtain ⟨hm, hd⟩ := strong_false hs
    unfold flushObj
    cases nw with
    | some p => exact rel_refl _
    | none =>
      simp only [hd, Bool.false_eq_true, if_false]
      exact Or.inr ⟨rfl, _, rfl, ha, by simp [strong, hd]⟩

theorem sim_doFlush (c : Cfg) {g s : St} (hs : Sim g s) :
    (doFlush c g = none ∧ doFlush c s = none) ∨
    ∃ g1 s1, doFlush c g = some g1 ∧ doFlush c s = some s1 ∧ Sim g1 s1 := by
  unfold doFlush
  rw [sim_hasWork c hs]
  by_cases hw : hasWork c s = true
  · simp only [hw, Bool.not_true, Bool.false_eq_true, if_false]
    have hdup : (anyBelow c.n (dupAt g) || anyBelow c.n (goneAt g)) =
        (anyBelow c.n (dupAt s) || anyBelow c.n (goneAt s)) := by
      have e1 : dupAt g = dupAt s := by funext k; unfold dupAt; rw [hs.new, hs.db]
      have e2 : goneAt g = goneAt s := by
        funext k; unfold goneAt; rw [hs.new, hs.db, rel_strong (hs.objs k)]
      rw [e1, e2]
    rw [hdup]
    by_cases hd : (anyBelow c.n (dupAt s) || anyBelow c.n (goneAt s)) = true
    · left; simp [hd]
    · right
      simp only [hd, Bool.false_eq_true, if_false]
      refine ⟨_, _, rfl, rfl, ⟨?_, ?_, ?_, ?_, ?_⟩⟩
      · funext k
        simp only
        by_cases hk : k < c.n
        · simp only [hk, if_true]; rw [hs.new, hs.db, rel_flushRow _ _ (hs.objs k)]
        · simp only [hk, if_false]; rw [hs.db]
      · simp only; rw [hs.saved, hs.db]
      · funext k; simp only; rw [hs.new]
      · exact hs.txn
      · intro k
        simp only
        by_cases hk : k < c.n
        · simp only [hk, if_true]; rw [hs.new]; exact rel_flushObj _ (hs.objs k)
        · simp only [hk, if_false]; exact hs.objs k
  · right
    simp only [hw, Bool.not_false, if_true]
    exact ⟨g, s, rfl, rfl, hs⟩

theorem rel_map_expire {og os : Option Obj} (h : Rel og os) :
    Rel (og.map (fun o => { o with val := none, mod := false })) (os.map (fun o => { o with val := none, mod := false })) := by
  rcases h with rfl | ⟨rfl, o, rfl, ha, hs⟩
  · exact rel_refl _
  · obtain ⟨_, hd⟩ := strong_false hs
    exact Or.inr ⟨rfl, _, rfl, ha, by simp [strong, hd, strong_false_touched hs]⟩

theorem sim_len (c : Cfg) {g s : St} (hs : Sim g s) :
    Sim g s ∧ ObsEq (Out.num ((List.range c.n).filter (fun k => (g.objs k).isSome)).length)
                    (Out.num ((List.range c.n).filter (fun k => (s.objs k).isSome)).length) :=
  ⟨hs, Or.inr ⟨_, _, rfl, rfl⟩⟩

theorem sim_stepLive (c : Cfg) {g s : St} (op : Op) (hs : Sim g s) (hi : Inv s)
    (hnr : op ≠ .rollback) (hni : (stepLive c s op).2 ≠ .integrity) :
    Sim (stepLive c g op).1 (stepLive c s op).1 ∧ ObsEq (stepLive c g op).2 (stepLive c s op).2 := by
  cases op with
  | get k =>
    simp only [stepLive]
    rw [hs.new, hs.db]
    obtain ⟨h1, h2⟩ := sim_putSlot hs k _ _ (sim_get (s.new k) _ _ (s.db k) (hs.objs k) (hi k))
    exact ⟨h1, Or.inl h2⟩
  | set k v =>
    simp only [stepLive]
    rw [hs.new]
    obtain ⟨h1, h2⟩ := sim_putSlot hs k _ _ (sim_set v (s.new k) _ _ (hs.objs k))
    exact ⟨h1, Or.inl h2⟩
  | del k =>
    simp only [stepLive]
    rw [hs.new]
    obtain ⟨h1, h2⟩ := sim_putSlot hs k _ _ (sim_del (s.new k) _ _ (hs.objs k))
    exact ⟨h1, Or.inl h2⟩
  | add k v =>
    simp only [stepLive]
    rw [hs.new]
    obtain ⟨h1, h2⟩ := sim_putSlot hs k _ _ (sim_add v (s.new k) _ _ (hs.objs k))
    exact ⟨h1, Or.inl h2⟩
  | drop k =>
    simp only [stepLive]
    rw [hs.new]
    obtain ⟨h1, h2⟩ := sim_putSlot hs k _ _ (sim_drop (s.new k) _ _ (hs.objs k))
    exact ⟨h1, Or.inl h2⟩
  | expire k =>
    simp only [stepLive]
    rw [hs.new]
    obtain ⟨h1, h2⟩ := sim_putSlot hs k _ _ (sim_exp (s.new k) _ _ (hs.objs k))
    exact ⟨h1, Or.inl h2⟩
  | expireVal k =>
    simp only [stepLive]
    rw [hs.new]
    obtain ⟨h1, h2⟩ := sim_putSlot hs k _ _ (sim_expVal (s.new k) _ _ (hs.objs k))
    exact ⟨h1, Or.inl h2⟩
  | expireId k =>
    simp only [stepLive]
    rw [hs.new]
    obtain ⟨h1, h2⟩ := sim_putSlot hs k _ _ (sim_expId (s.new k) _ _ (hs.objs k))
    exact ⟨h1, Or.inl h2⟩
  | begin => exact ⟨hs, Or.inl rfl⟩
  | flush =>
    simp only [stepLive] at hni ⊢
    rcases sim_doFlush c hs with ⟨hg, hs'⟩ | ⟨g1, s1, hg, hs', h1⟩
    · simp [hs'] at hni
    · rw [hg, hs']; exact ⟨h1, Or.inl rfl⟩
  | commit =>
    simp only [stepLive] at hni ⊢
    rcases sim_doFlush c hs with ⟨hg, hs'⟩ | ⟨g1, s1, hg, hs', h1⟩
    · simp [hs'] at hni
    · rw [hg, hs']
      refine ⟨⟨h1.db, rfl, h1.new, rfl, ?_⟩, Or.inl rfl⟩
      intro k
      by_cases he : c.eoc = true
      · simp only [he, if_true]; exact rel_map_expire (h1.objs k)
      · simp only [he, Bool.false_eq_true, if_false]; exact h1.objs k
  | rollback => exact absurd rfl hnr
  | len => exact sim_len c hs

theorem sim_stepDead (c : Cfg) {g s : St} (op : Op) (hs : Sim g s) :
    Sim (stepDead c g op).1 (stepDead c s op).1 ∧ ObsEq (stepDead c g op).2 (stepDead c s op).2 := by
  cases op with
  | set k v =>
    simp only [stepDead]
    have ht : anyBelow c.n (fun j => touchedOpt (g.objs j)) = anyBelow c.n (fun j => touchedOpt (s.objs j)) := by
      congr 1; funext j; exact rel_touched (hs.objs j)
    rw [ht, hs.new]
    split
    · obtain ⟨h1, h2⟩ := sim_putSlot hs k _ _ (sim_set v (s.new k) _ _ (hs.objs k))
      exact ⟨h1, Or.inl h2⟩
    · obtain ⟨h1, h2⟩ := sim_putSlot hs k _ _ (sim_setDead (s.new k) _ _ (hs.objs k))
      exact ⟨h1, Or.inl h2⟩
  | drop k =>
    simp only [stepDead]
    rw [hs.new]
    obtain ⟨h1, h2⟩ := sim_putSlot hs k _ _ (sim_drop (s.new k) _ _ (hs.objs k))
    exact ⟨h1, Or.inl h2⟩
  | begin => exact ⟨⟨hs.db, hs.saved, hs.new, rfl, hs.objs⟩, Or.inl rfl⟩
  | len => exact sim_len c hs
  | get k => exact ⟨hs, Or.inl rfl⟩
  | del k => exact ⟨hs, Or.inl rfl⟩
  | add k v => exact ⟨hs, Or.inl rfl⟩
  | expire k => exact ⟨hs, Or.inl rfl⟩
  | expireVal k => exact ⟨hs, Or.inl rfl⟩
  | expireId k => exact ⟨hs, Or.inl rfl⟩
  | flush => exact ⟨hs, Or.inl rfl⟩
  | commit => exact ⟨hs, Or.inl rfl⟩
  | rollback => exact ⟨hs, Or.inl rfl⟩

/-- one step of the reference semantics simulates one step of the other, without the
    final collection -/
theorem sim_step_raw (c : Cfg) {g s : St} (op : Op) (hs : Sim g s) (hi : Inv s) (hq : Calm c s op) :
    Sim (step c g op).1 (step c s op).1 ∧ ObsEq (step c g op).2 (step c s op).2 := by
  obtain ⟨hnr, hni⟩ := hq
  have hl : live c g = live c s := by unfold live; rw [hs.txn]
  unfold step at hni ⊢
  rw [hl]
  by_cases hls : live c s = true
  · simp only [hls, if_true] at hni ⊢; exact sim_stepLive c op hs hi hnr hni
  · simp only [hls, Bool.false_eq_true, if_false]; exact sim_stepDead c op hs

theorem sim_step (c : Cfg) {g s : St} (op : Op) (hs : Sim g s) (hi : Inv s) (hq : Calm c s op) :
    Sim (stepGc c g op).1 (step c s op).1 ∧ ObsEq (stepGc c g op).2 (step c s op).2 := by
  obtain ⟨h1, h2⟩ := sim_step_raw c op hs hi hq
  exact ⟨sim_collect h1, h2⟩

theorem sim_init : Sim St.init St.init := ⟨rfl, rfl, rfl, rfl, fun _ => rel_refl _⟩

/-- pointwise `ObsEq` of two output lists -/
inductive ObsEqL : List Out → List Out → Prop
  | nil : ObsEqL [] []
  | cons {a b : Out} {as bs : List Out} : ObsEq a b → ObsEqL as bs → ObsEqL (a :: as) (b :: bs)

/-- a history in which the reference semantics never rolls back: no `rollback()` and no
    failing flush -/
def CalmRun (c : Cfg) : St → List Op → Prop
  | _, [] => True
  | s, op :: rest => Calm c s op ∧ CalmRun c (step c s op).1 rest

theorem sim_run (c : Cfg) (ops : List Op) : ∀ (g s : St), Sim g s → Inv s → CalmRun c s ops →
    Sim (runGc c g ops) (run c s ops) ∧ ObsEqL (outsGc c g ops) (outs c s ops) := by
  induction ops with
  | nil => intro g s hs _ _; exact ⟨hs, .nil⟩
  | cons op rest ih =>
    intro g s hs hi hc
    obtain ⟨hq, hrest⟩ := hc
    obtain ⟨h1, h2⟩ := sim_step c op hs hi hq
    obtain ⟨h3, h4⟩ := ih _ _ h1 (inv_step c s op hi hq) hrest
    exact ⟨h3, .cons h2 h4⟩

/-
Full statement (FALSE of the model and of the code, see `gc_unobservable_counterexample`):
  theorem gc_unobservable (c : Cfg) (ops : List Op) :
      ObsEqL (outsGc c St.init ops) (outs c St.init ops)
-/

/-- **gc_unobservable_partial**: for every history without a rollback (no `rollback()`, no
    failing flush), the Session under garbage collection (after every operation) returns
    what the Session in which nothing is ever collected returns — values read, results of
    flush / commit — except for the size of the identity map. -/
theorem gc_unobservable_partial (c : Cfg) (ops : List Op) (hc : CalmRun c St.init ops) :
    ObsEqL (outsGc c St.init ops) (outs c St.init ops) :=
  (sim_run c ops _ _ sim_init inv_init hc).2

/-- **gc_same_db_partial**: and it leaves the same database and the same pending objects:
    no change is lost to a dropped reference. -/
theorem gc_same_db_partial (c : Cfg) (ops : List Op) (hc : CalmRun c St.init ops) :
    (runGc c St.init ops).db = (run c St.init ops).db ∧
    (runGc c St.init ops).new = (run c St.init ops).new :=
  let h := (sim_run c ops _ _ sim_init inv_init hc).1
  ⟨h.db, h.new⟩

/-- the phantom: insert and flush an object, drop it (collected), load the row again,
    roll back.  The transaction only knows the collected instance (`_new` is weak), so the
    re-loaded one survives the rollback; modifying it makes the next flush fail, while the
    Session that kept the first instance alive expunged it and flushes nothing. -/
def phantomOps : List Op :=
  [.add 0 1, .flush, .drop 0, .get 0, .rollback, .len, .set 0 5, .flush]

theorem gc_unobservable_counterexample :
    outsGc ⟨1, false, true⟩ St.init phantomOps =
      [.done, .done, .done, .val (some 1), .done, .num 1, .done, .integrity] ∧
    outs ⟨1, false, true⟩ St.init phantomOps =
      [.done, .done, .done, .val (some 1), .done, .num 0, .skip, .done] := by
  decide

/-! ## what collection does to one state -/

/-- **collect_keeps_strong**: a modified or deleted-marked object is never collected,
    and pending objects are untouched -/
theorem collect_keeps_strong (st : St) (k : Nat) (o : Obj) (ho : st.objs k = some o)
    (hs : strong o = true) : (collect st).objs k = some o ∧ (collect st).new = st.new := by
  simp [collect, ho, hs]

/-- **collect_flush_db**: flushing after a collection gives the same result and
    database as flushing without it -/
theorem collect_flush_db (c : Cfg) (st : St) :
    (doFlush c (collect st) = none ∧ doFlush c st = none) ∨
    ∃ g1 s1, doFlush c (collect st) = some g1 ∧ doFlush c st = some s1 ∧ g1.db = s1.db := by
  have hs : Sim (collect st) st := sim_collect ⟨rfl, rfl, rfl, rfl, fun _ => rel_refl _⟩
  rcases sim_doFlush c hs with h | ⟨g1, s1, h1, h2, h3⟩
  · exact Or.inl h
  · exact Or.inr ⟨g1, s1, h1, h2, h3.db⟩

/-- **collect_releases**: an unmodified, undeleted object that the application does not
    reference leaves the identity map -/
theorem collect_releases (st : St) (k : Nat) (o : Obj) (ho : st.objs k = some o)
    (ha : o.app = false) (hs : strong o = false) : (collect st).objs k = none := by
  simp [collect, ho, ha, hs]

/-- **partial_expire_keeps_strong**: `session.expire(obj, [exactly the modified attribute])`
    takes the history away but the state stays in `_modified` with its strong reference: the
    object is not collected, whatever the application drops, until the next flush. -/
theorem partial_expire_keeps_strong (c : Cfg) (st : St) (k : Nat) (o : Obj)
    (hl : live c st = true) (hn : st.new k = none) (ho : st.objs k = some o) (ht : o.touched = true) :
    ∃ o', (stepGc c st (.expireVal k)).1.objs k = some o' ∧ o'.touched = true := by
  simp only [stepGc, step, hl, if_true, stepLive, putSlot, expValSlot, hn, ho, collect]
  by_cases hc : (o.app && !o.del) = true
  · simp [hc, strong, ht]
  · simp [hc, ho, strong, ht]

/-- **refused_change_keeps_strong**: with autobegin=False the first change made outside a
    transaction is refused, but the state is in `_modified` by then and must be (and is)
    strongly referenced — otherwise a later flush would trip over a dead entry. -/
theorem refused_change_keeps_strong (c : Cfg) (st : St) (k : Nat) (v : Int) (o : Obj)
    (hl : live c st = false) (hnone : anyBelow c.n (fun j => touchedOpt (st.objs j)) = false)
    (hn : st.new k = none) (ho : st.objs k = some o) (ha : o.app = true) (hd : o.del = false) :
    (stepGc c st (.set k v)).2 = .raised ∧
    ∃ o', (stepGc c st (.set k v)).1.objs k = some o' ∧ o'.touched = true ∧ o'.val = o.val := by
  simp [stepGc, step, hl, stepDead, hnone, putSlot, setDeadSlot, hn, ho, ha, hd, collect, strong]

/-! ## non-vacuity -/

/-- decidable form of `CalmRun` -/
def calmB (c : Cfg) : St → List Op → Bool
  | _, [] => true
  | s, op :: rest =>
    (match op with
     | .rollback => false
     | _ => true) && ((step c s op).2 != .integrity) && calmB c (step c s op).1 rest

theorem calmRun_of_calmB (c : Cfg) : ∀ (ops : List Op) (s : St), calmB c s ops = true → CalmRun c s ops := by
  intro ops
  induction ops with
  | nil => intro _ _; trivial
  | cons op rest ih =>
    intro s h
    simp only [calmB, Bool.and_eq_true, bne_iff_ne, ne_eq] at h
    refine ⟨⟨?_, h.1.2⟩, ih _ h.2⟩
    intro he
    subst he
    simp at h

/-- the hypothesis of `gc_unobservable_partial` is satisfiable by a history with drops,
    collections and flushes -/
example : CalmRun ⟨1, false, true⟩ St.init [.add 0 1, .commit, .drop 0, .get 0, .set 0 2, .drop 0, .flush, .len] :=
  calmRun_of_calmB _ _ _ (by decide)

/-- modify, drop the reference, collect, flush: the change is written; the clean object
    is released afterwards -/
example :
    let c : Cfg := ⟨1, false, true⟩
    outsGc c St.init [.add 0 1, .commit, .len, .drop 0, .len, .get 0, .set 0 2, .drop 0, .len, .flush, .len] =
      [.done, .done, .num 1, .done, .num 0, .val (some 1), .done, .done, .num 1, .done, .num 0] ∧
    (runGc c St.init [.add 0 1, .commit, .drop 0, .get 0, .set 0 2, .drop 0, .flush]).db 0 = some 2 := by
  decide

/-- autobegin=False: a refused change, the object dropped and collected (it is not: the Session
    holds it), then a proper transaction changing and dropping another object: both changes of
    state are consistent and the flush writes the second object's value -/
example :
    let c : Cfg := ⟨2, false, false⟩
    outsGc c St.init [.begin, .add 0 1, .add 1 2, .commit, .set 0 5, .drop 0, .len, .begin, .set 1 6, .drop 1,
                      .flush, .len] =
      [.done, .done, .done, .done, .raised, .done, .num 2, .done, .done, .done, .done, .num 0] ∧
    (runGc c St.init [.begin, .add 0 1, .add 1 2, .commit, .set 0 5, .drop 0, .begin, .set 1 6, .drop 1, .flush]).db 1 = some 6 ∧
    CalmRun c St.init [.begin, .add 0 1, .add 1 2, .commit, .set 0 5, .drop 0, .begin, .set 1 6, .drop 1, .flush] :=
  ⟨by decide, by decide, calmRun_of_calmB _ _ _ (by decide)⟩

/-- the two semantics really differ on `len` (the theorem's exception is needed) -/
example :
    let c : Cfg := ⟨1, false, true⟩
    outs c St.init [.add 0 1, .commit, .drop 0, .len] ≠ outsGc c St.init [.add 0 1, .commit, .drop 0, .len] := by
  decide

end SaVerif.Props.C48
