import SaVerif.Lemmas.PoolInv
/-!
# C25 — The pool never hands one connection to two holders and respects its limits

Theorems about M-POOL (`SaVerif/Model/Pool.lean`): the labelled transition system
transcribed from `QueuePool._do_get / _do_return_conn / _inc_overflow /
_dec_overflow` over `util.queue.Queue`.  Every theorem is about *all* reachable
states: any number of threads, any pool_size / max_overflow, FIFO or LIFO, any
interleaving of the atomic steps (including the unlocked reads of `_overflow`).

The harness (`harness/props/c25.py`) checks that every event trace of the real code
under a deterministic scheduler is a run of this LTS (`run … = .ok s`), so by
`inv_of_run` the invariants hold at every point of every such execution.
-/
namespace SaVerif.Props.C25
open SaVerif.Pool

/-- configurations `QueuePool.__init__` can produce: `_max_overflow` is `-1`
    (unlimited; forced when `pool_size == 0`) or a non-negative bound -/
def WF (c : Cfg) : Prop := c.maxOv = -1 ∨ 0 ≤ c.maxOv

/-- the inductive invariant -/
structure Inv (c : Cfg) (s : State) : Prop where
  /-- `pool_size + _overflow` = idle + checked out + in flight -/
  acct : s.overflow + c.size = s.queue.length + s.out.length + slotSum s
  lockOwner : LockOwner s
  readValid : ReadValid c s
  limit : c.maxOv ≠ -1 → s.overflow ≤ c.maxOv
  idleLe : 0 < c.size → s.queue.length ≤ c.size
  excl : ∀ r, occ r s ≤ 1
  fresh : ∀ r, s.nextId ≤ r → occ r s = 0

theorem inv_init (c : Cfg) (hc : WF c) (n : Nat) : Inv c (init c n) := by
  have hz : ∀ f : Pc → Nat, f Pc.idle = 0 → sumMap f (List.replicate n Pc.idle) = 0 :=
    fun f h => sumMap_replicate_zero f Pc.idle h n
  refine ⟨?_, ?_, ?_, ?_, ?_, ?_, ?_⟩
  · simp [init, slotSum, hz slots rfl]; omega
  · intro t pc h hh
    simp only [init] at h
    rw [List.getElem?_replicate] at h
    split at h
    · cases h; simp [holds] at hh
    · cases h
  · intro _ t v h
    simp only [init] at h
    rw [List.getElem?_replicate] at h
    split at h <;> cases h
  · intro hm
    simp only [init]
    rcases hc with h | h
    · exact absurd h hm
    · omega
  · intro _; simp [init]
  · intro r; simp [occ, init, hz (fun pc => (transit pc).count r) (by simp [transit])]
  · intro r _; simp [occ, init, hz (fun pc => (transit pc).count r) (by simp [transit])]

theorem inv_step (c : Cfg) (s s' : State) (t : Nat) (l : Label)
    (h : Inv c s) (hs : step c s t l = some s') : Inv c s' := by
  refine ⟨acct_step c s s' t l h.acct hs, lockOwner_step c s s' t l h.lockOwner hs,
    readValid_step c s s' t l h.lockOwner h.readValid hs,
    limit_step c s s' t l h.readValid h.limit hs, idleLe_step c s s' t l h.idleLe hs, ?_, ?_⟩
  · intro r
    have ⟨_, h2⟩ := occ_step c s s' t l r hs
    split at h2
    · rename_i hr
      obtain ⟨hr1, _⟩ := hr
      have := h.fresh r (by rw [hr1]; exact Nat.le_refl _)
      omega
    · have := h.excl r; omega
  · intro r hr
    have ⟨h1, h2⟩ := occ_step c s s' t l r hs
    have := h.fresh r (by omega)
    split at h2
    · rename_i hx
      obtain ⟨hx1, hx2⟩ := hx
      have hx1' : (r : Nat) = s.nextId := hx1
      omega
    · omega

/-- **the invariant holds in every reachable state** (induction over steps) -/
theorem inv_reach (c : Cfg) (hc : WF c) (n : Nat) (s : State) (hr : Reach c n s) : Inv c s := by
  induction hr with
  | init => exact inv_init c hc n
  | step _ hs ih => exact inv_step c _ _ _ _ ih hs

theorem reach_of_run (c : Cfg) (n : Nat) :
    ∀ (ls : List (Nat × Label)) (s s' : State) (i : Nat),
      Reach c n s → run c s ls i = .ok s' → Reach c n s' := by
  intro ls
  induction ls with
  | nil => intro s s' i hr h; simp [run] at h; cases h; exact hr
  | cons a rest ih =>
    intro s s' i hr h
    obtain ⟨t, l⟩ := a
    simp only [run] at h
    split at h
    · rename_i s1 hs
      exact ih s1 s' (i + 1) (Reach.step hr hs) h
    · cases h

/-- every trace accepted by the driver (`pool run …` answering `ok`) ends in a state
    satisfying the invariant; prefixes of accepted traces are accepted, so it holds
    at every point of the observed execution -/
theorem inv_of_run (c : Cfg) (hc : WF c) (n : Nat) (ls : List (Nat × Label)) (s : State)
    (h : run c (init c n) ls 0 = .ok s) : Inv c s :=
  inv_reach c hc n s (reach_of_run c n ls _ _ 0 Reach.init h)

/-! ## the property -/

/-- **overflow_le_max**: with a limit configured, `_overflow` never exceeds
    `_max_overflow`, under any interleaving (the check in `_inc_overflow` is made under
    `_overflow_lock` and every writer takes that lock). -/
theorem overflow_le_max (c : Cfg) (hc : WF c) (n : Nat) (s : State) (hr : Reach c n s)
    (hlim : c.maxOv ≠ -1) : s.overflow ≤ c.maxOv :=
  (inv_reach c hc n s hr).limit hlim

/-- **open_le_size_plus_overflow**: idle + checked-out + in-flight records (every
    open DBAPI connection belongs to exactly one of them) never exceed
    `pool_size + max_overflow`. -/
theorem open_le_size_plus_overflow (c : Cfg) (hc : WF c) (n : Nat) (s : State)
    (hr : Reach c n s) (hlim : c.maxOv ≠ -1) :
    ((s.queue.length + s.out.length + slotSum s : Nat) : Int) ≤ c.size + c.maxOv := by
  have hi := inv_reach c hc n s hr
  have h1 := hi.acct
  have h2 := hi.limit hlim
  omega

/-- **idle_le_size**: never more than `pool_size` idle connections. -/
theorem idle_le_size (c : Cfg) (hc : WF c) (n : Nat) (s : State) (hr : Reach c n s)
    (hsz : 0 < c.size) : s.queue.length ≤ c.size :=
  (inv_reach c hc n s hr).idleLe hsz

/-- **exclusive_holders**: a record is in at most one place — idle in the queue,
    held by a checkout, or in transit inside `_do_return_conn` — and at most once
    there. -/
theorem exclusive_holders (c : Cfg) (hc : WF c) (n : Nat) (s : State) (hr : Reach c n s)
    (r : Rec) : occ r s ≤ 1 :=
  (inv_reach c hc n s hr).excl r

/-- a checked-out record is checked out once and is not idle in the queue -/
theorem held_not_idle (c : Cfg) (hc : WF c) (n : Nat) (s : State) (hr : Reach c n s)
    (r : Rec) (hheld : r ∈ s.out) : s.out.count r = 1 ∧ r ∉ s.queue := by
  have h := exclusive_holders c hc n s hr r
  have h1 : 1 ≤ s.out.count r := List.one_le_count_iff.2 hheld
  unfold occ at h
  refine ⟨by omega, ?_⟩
  intro hq
  have : 1 ≤ s.queue.count r := List.one_le_count_iff.2 hq
  omega

/-- no record is queued twice -/
theorem queue_nodup (c : Cfg) (hc : WF c) (n : Nat) (s : State) (hr : Reach c n s) :
    s.queue.Nodup := by
  rw [List.nodup_iff_count]
  intro r
  have h := exclusive_holders c hc n s hr r
  unfold occ at h
  omega

/-- **checkedout_eq_live**: whenever no thread is inside a pool method,
    `checkedout()` (= `maxsize - qsize + _overflow`) is the number of live checkouts. -/
theorem checkedout_eq_live (c : Cfg) (hc : WF c) (n : Nat) (s : State) (hr : Reach c n s)
    (hq : quiescent s) : checkedout c s = s.out.length := by
  have h1 := (inv_reach c hc n s hr).acct
  have h0 : slotSum s = 0 :=
    sumMap_eq_zero_of_all slots s.pcs (fun pc hp => by rw [hq pc hp]; rfl)
  unfold checkedout
  omega

/-- **lock_mutex**: at most one thread is inside a critical section of
    `_overflow_lock`. -/
theorem lock_mutex (c : Cfg) (hc : WF c) (n : Nat) (s : State) (hr : Reach c n s)
    (t u : Nat) (pt pu : Pc) (ht : s.pcs[t]? = some pt) (hu : s.pcs[u]? = some pu)
    (h1 : holds pt = true) (h2 : holds pu = true) : t = u := by
  have hl := (inv_reach c hc n s hr).lockOwner
  have a := hl t pt ht h1
  have b := hl u pu hu h2
  rw [a] at b
  cases b; rfl

/-- **waiter_served**: a getter inside `Queue.get` (blocking or not) facing a
    non-empty queue can take a connection and can *not* time out / see Empty: the
    Empty step is enabled only on an empty queue. -/
theorem waiter_served (c : Cfg) (s : State) (t : Nat) (w : Bool)
    (hpc : s.pcs[t]? = some (Pc.gq w)) (hq : s.queue ≠ []) :
    (∃ r s', step c s t (Label.pop r) = some s') ∧ step c s t Label.qe = none := by
  obtain ⟨r, rest, hp⟩ := popRest_of_ne_nil c.lifo s.queue hq
  constructor
  · refine ⟨r, ?_⟩
    simp only [step, hpc, Pool.trans, hp]
    exact ⟨_, rfl⟩
  · simp [step, hpc, Pool.trans, hq]

/-- a connection returned while a getter waits enables that getter (and disables
    its timeout) in the very next state -/
theorem put_serves_waiter (c : Cfg) (s s' : State) (u t : Nat) (r : Rec) (w : Bool)
    (hput : step c s u (Label.put r) = some s') (hne : t ≠ u)
    (hpc : s.pcs[t]? = some (Pc.gq w)) :
    (∃ r' s'', step c s' t (Label.pop r') = some s'') ∧ step c s' t Label.qe = none := by
  obtain ⟨old, new, sh, hold, htr, rfl⟩ := step_eq hput
  have hpc' : (s.pcs.set u new)[t]? = some (Pc.gq w) := by
    rw [List.getElem?_set_ne (Ne.symm hne)]; exact hpc
  apply waiter_served c _ t w hpc'
  cases old <;> simp [Pool.trans] at htr
  obtain ⟨_, _, rfl⟩ := htr
  simp

/-- a blocked getter can only leave `Queue.get` empty-handed when the queue is empty -/
theorem empty_only_when_empty (c : Cfg) (s s' : State) (t : Nat)
    (h : step c s t Label.qe = some s') : s.queue = [] := by
  obtain ⟨old, new, sh, hold, htr, rfl⟩ := step_eq h
  cases old <;> simp [Pool.trans] at htr
  exact htr.1

/-- TimeoutError is raised only by a getter that blocked (`wait = True`) and then
    re-read `_overflow ≥ _max_overflow` -/
theorem timeout_only_when_exhausted (c : Cfg) (s s' : State) (t : Nat)
    (h : step c s t Label.to = some s') :
    ∃ v, s.pcs[t]? = some (Pc.ge1 true v) ∧ c.maxOv ≤ v := by
  obtain ⟨old, new, sh, hold, htr, rfl⟩ := step_eq h
  cases old <;> simp [Pool.trans] at htr
  rename_i w v
  obtain ⟨⟨h1, h2⟩, _⟩ := htr
  subst h2
  exact ⟨v, hold, h1⟩

/-! ## non-vacuity: concrete runs of the LTS (pool_size 1, max_overflow 1, two threads) -/

def exCfg : Cfg := { size := 1, maxOv := 1, lifo := false }

/-- thread 0 and thread 1 both check out (two creations, overflow reaches the
    limit), thread 0 returns (queued), thread 1 returns (Full → close → dec). -/
def exTrace : List (Nat × Label) :=
  [(0, .cg), (0, .rv (-1)), (0, .qg false), (0, .qe), (0, .rv (-1)), (0, .ci), (0, .la),
   (1, .cg), (1, .rv (-1)), (1, .qg false), (1, .qe), (1, .rv (-1)), (1, .ci),
   (0, .rv (-1)), (0, .rmw (-1) 0), (0, .lr), (0, .cr 0),
   (1, .la), (1, .rv 0), (1, .rmw 0 1), (1, .lr), (1, .cr 1),
   (0, .cp 0), (0, .put 0), (1, .cp 1), (1, .qf), (1, .cl), (1, .cd), (1, .la),
   (1, .rmw 1 0), (1, .lr)]

example : WF exCfg := Or.inr (by decide)

example : (run exCfg (init exCfg 2) exTrace 0).toOption.map
    (fun s => (s.overflow, s.queue, s.out, s.pcs)) = some (0, [0], [], [Pc.idle, Pc.idle]) := by
  decide

/-- mid-run: both records checked out, `_overflow` at its limit, the invariant's
    hypotheses are satisfiable by a non-trivial state -/
example : (run exCfg (init exCfg 2) (exTrace.take 22) 0).toOption.map
    (fun s => (s.overflow, s.queue, s.out.length, checkedout exCfg s)) = some (1, [], 2, 2) := by
  decide

/-- a third checkout at the limit waits (`qg true`) and, with the queue still empty,
    may time out; after a `put` it may not (waiter_served is not vacuous) -/
example : (run exCfg (init exCfg 3)
    (exTrace.take 22 ++ [(2, .cg), (2, .rv 1), (2, .qg true), (0, .cp 0), (0, .put 0), (2, .qe)]) 0).toOption
    = none := by decide

example : (run exCfg (init exCfg 3)
    (exTrace.take 22 ++ [(2, .cg), (2, .rv 1), (2, .qg true), (0, .cp 0), (0, .put 0), (2, .pop 0)]) 0).toOption.map
    (fun s => (s.queue, s.out.length)) = some ([], 2) := by decide

/-- the LTS rejects an increment that skips the lock (what a racy `_inc_overflow`
    would produce) -/
example : (run exCfg (init exCfg 2)
    [(0, .cg), (0, .rv (-1)), (0, .qg false), (0, .qe), (0, .rv (-1)), (0, .ci), (0, .rmw (-1) 0)] 0).toOption
    = none := by decide

end SaVerif.Props.C25
