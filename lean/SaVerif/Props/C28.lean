import SaVerif.Lemmas.ExecOnce
import SaVerif.Model.Event
/-!
# C28 — Event listeners fire exactly as registered

Two models:
* `SaVerif/Model/ExecOnce.lean`: `exec_once` / `_exec_once_impl` / `_get_exec_once_mutex`
  as an LTS with per-thread program counters (any number of threads, every
  interleaving);
* `SaVerif/Model/Event.lean`: the listener registry (class-level deques with lazy
  `update_subclass`, instance collections, registry keys, `once` wrappers).

Full statement wanted for exec_once:

    theorem exec_once_at_most_once (n) (s) (hr : Reach false n s) : s.runs ≤ 1

(`false` = the code as it is on a GIL build: `util.mini_gil` is a `nullcontext`, so
the lazy creation of `_exec_once_mutex` is check / create / assign in three steps).
It is FALSE: `exec_once_counterexample`.  What holds is `exec_once_at_most_once_partial`
(the creation is atomic, as on free-threaded builds where `mini_gil` is an RLock).
-/
namespace SaVerif.Props.C28
open SaVerif.ExecOnce

theorem inv_reach (n : Nat) (s : State) (hr : Reach true n s) : Inv s := by
  induction hr with
  | init => exact inv_init n
  | step _ hs ih => exact inv_step _ _ _ _ ih hs

/-- **exec_once_at_most_once_partial**: if the mutex is created atomically, then for
    any number of threads calling `exec_once` concurrently and any interleaving of
    their steps the listeners are entered at most once. -/
theorem exec_once_at_most_once_partial (n : Nat) (s : State) (hr : Reach true n s) : s.runs ≤ 1 := by
  have h := inv_reach n s hr
  have h1 := h.hruns
  have h2 := h.hflag
  have h3 := held_le_one h
  have h4 := sumMap_mono inRun crit inRun_le_crit s.pcs
  have h5 := h.hcrit
  by_cases hf : s.flag = true
  · have := h2 hf; simp [hf] at h1; omega
  · simp [hf] at h1; omega

/-- at most one thread is inside the critical section -/
theorem exec_once_mutex (n : Nat) (s : State) (hr : Reach true n s) : sumMap crit s.pcs ≤ 1 := by
  have h := inv_reach n s hr
  have := held_le_one h
  rw [h.hcrit]; exact this

/-- once every thread is done, the listeners ran exactly once (not zero times) if
    anybody passed the first unlocked test -/
theorem exec_once_flag_set (n : Nat) (s : State) (hr : Reach true n s) (hrun : 0 < s.runs)
    (hq : ∀ pc ∈ s.pcs, pc = Pc.done) : s.flag = true := by
  have h := inv_reach n s hr
  have hz : sumMap inRun s.pcs = 0 := by
    have : ∀ (l : List Pc), (∀ pc ∈ l, pc = Pc.done) → sumMap inRun l = 0 := by
      intro l
      induction l with
      | nil => intro _; rfl
      | cons a t ih =>
        intro hh
        have ha := hh a (by simp)
        have := ih (fun pc hp => hh pc (by simp [hp]))
        subst ha
        simp [sumMap, inRun] at this ⊢
        exact this
    exact this s.pcs hq
  have h1 := h.hruns
  by_cases hf : s.flag = true
  · exact hf
  · simp [hf, hz] at h1; omega

/-- the two-thread schedule found by the harness (and reproduced with real threads):
    both threads see `_exec_once_mutex is None`, each creates its own Lock, both enter -/
def raceTrace : List (Nat × Label) :=
  [(0, .rdFlag false), (1, .rdFlag false), (0, .rdMutex none), (1, .rdMutex none),
   (0, .mk 0), (1, .mk 1), (0, .asg), (1, .asg), (0, .acq), (1, .acq),
   (0, .rdFlag2 false), (1, .rdFlag2 false)]

/-- **exec_once_counterexample**: with the non-atomic lazy creation (the code on GIL
    builds) two threads run the listeners twice. -/
theorem exec_once_counterexample :
    ∃ s, run false (init 2) raceTrace = some s ∧ s.runs = 2 := by
  refine ⟨_, rfl, ?_⟩
  decide

theorem reach_of_run (a : Bool) (n : Nat) :
    ∀ (ls : List (Nat × Label)) (s s' : State), Reach a n s → run a s ls = some s' → Reach a n s' := by
  intro ls
  induction ls with
  | nil => intro s s' hr h; simp [run] at h; cases h; exact hr
  | cons x rest ih =>
    intro s s' hr h
    obtain ⟨t, l⟩ := x
    simp only [run] at h
    split at h
    · rename_i s1 hs; exact ih s1 s' (Reach.step hr hs) h
    · cases h

/-- the negation of the full statement, as a reachable state of the real-code LTS -/
theorem exec_once_at_most_once_fails : ∃ s, Reach false 2 s ∧ ¬ s.runs ≤ 1 := by
  obtain ⟨s, hrun, hr2⟩ := exec_once_counterexample
  exact ⟨s, reach_of_run false 2 _ _ _ Reach.init hrun, by omega⟩

/-- non-vacuity of the partial theorem: a 2-thread run where one thread executes the
    listeners and the other finds the flag set -/
example : (run true (init 2)
    [(0, .rdFlag false), (1, .rdFlag false), (0, .init 0), (1, .rdMutex (some 0)), (1, .rdMutexRet 0), (0, .acq),
     (0, .rdFlag2 false), (0, .ret), (0, .setFlag), (0, .rel), (1, .acq), (1, .rdFlag2 true),
     (1, .rel)]).map (fun s => (s.runs, s.flag, s.pcs)) = some (1, true, [Pc.done, Pc.done]) := by
  decide

/-! ## the listener registry (`SaVerif/Model/Event.lean`) -/
section registry
open SaVerif.Event

/-- a `once=True` listener that has fired is never called again, whatever the list -/
theorem once_fired_not_called (l : Lsn) :
    ∀ (ls : List Lsn) (st : St) (info : LInfo), st.lsn[l]? = some info → info.once = true →
      info.fired = true → (∀ x ∈ ls, x = l) → (callAll st ls).2 = [] := by
  intro ls
  induction ls with
  | nil => intro st info _ _ _ _; rfl
  | cons a rest ih =>
    intro st info h1 h2 h3 hall
    have ha := hall a (by simp)
    subst ha
    simp only [callAll, h1, h2, h3, if_true]
    exact ih st info h1 h2 h3 (fun x hx => hall x (by simp [hx]))

/-- dispatching twice in a row: a once-listener contributes to the first call list only -/
example :
    (run (init 2) [.newinst 0, .listen (.cls 0) 0 false 1, .listen (.cls 0) 1 false 0, .fire 0, .fire 0]).2
      = [.done, .done, .done, .calls [0, 1], .calls [1]] := by decide

/-- Full statement wanted (`dispatch_eq_spec`): for every op sequence the call list of
    `fire i` is the list of live registrations (keys (target, fn), doubles eliminated)
    for the class of `i` and its ancestors, inserted ones first, then registration order,
    then the instance's own.  It is FALSE for class-level targets:

    **double_listen_counterexample**: `listen(C, f)` twice on a class is not
    de-duplicated (instances: "doubles are eliminated"): f fires twice, one `remove`
    leaves one copy firing, and that copy can never be removed (the key is gone). -/
theorem double_listen_counterexample :
    (run (init 1) [.newinst 0, .listen (.cls 0) 0 false 0, .listen (.cls 0) 0 false 0, .fire 0,
                   .remove (.cls 0) 0, .fire 0, .remove (.cls 0) 0, .fire 0]).2
      = [.done, .done, .done, .calls [0, 0], .done, .calls [0], .noSuchListener, .calls [0]] := by
  decide

/-- the same on an instance target behaves as specified -/
example :
    (run (init 1) [.newinst 0, .listen (.inst 0) 0 false 0, .listen (.inst 0) 0 false 0, .fire 0,
                   .remove (.inst 0) 0, .fire 0, .remove (.inst 0) 0]).2
      = [.done, .done, .done, .calls [0], .done, .calls [], .noSuchListener] := by decide

/-- **related_classes_order_counterexample**: f registered on Base, g on Base, f again
    on the subclass A; removing A's registration deletes the *first* f of A's deque, so
    Base's f now fires after g on instances of A (registration order: f, g). -/
theorem related_classes_order_counterexample :
    (run (init 2) [.subclass 0, .newinst 1, .listen (.cls 0) 0 false 0, .listen (.cls 0) 1 false 0,
                   .listen (.cls 1) 0 false 0, .fire 0, .remove (.cls 1) 0, .fire 0]).2
      = [.done, .done, .done, .done, .done, .calls [0, 1, 0], .done, .calls [1, 0]] := by decide

/-- a subclass created after the listeners were registered, and an instance created
    later still, see the same listeners in the same order (lazy `update_subclass`) -/
example :
    (run (init 3) [.listen (.cls 0) 0 false 0, .listen (.cls 0) 1 true 0, .subclass 0, .subclass 1,
                   .listen (.cls 1) 2 false 0, .newinst 2, .fire 0, .remove (.cls 0) 0, .fire 0]).2
      = [.done, .done, .done, .done, .done, .done, .calls [1, 0, 2], .done, .calls [1, 2]] := by decide

end registry

end SaVerif.Props.C28
