import SaVerif.Lemmas.ExecOnce
import SaVerif.Lemmas.EventOps2
/-!
# C28 — Event listeners fire exactly as registered

Two models:
* `SaVerif/Model/ExecOnce.lean`: `exec_once` / `_exec_once_impl` / `_get_exec_once_mutex`
  as an LTS with per-thread program counters (any number of threads, every
  interleaving);
* `SaVerif/Model/Event.lean`: the listener registry (class-level deques with lazy
  `update_subclass`, instance collections, registry keys, `once` wrappers).

Full statement wanted for exec_once:

    theorem exec_once_at_most_once (n) (s) (hr : Reach false n s) : s.runs ≤ 1

(`false` = the code as it is on a GIL build: `util.mini_gil` is a `nullcontext`, so
the lazy creation of `_exec_once_mutex` is check / create / assign in three steps).
It is FALSE: `exec_once_counterexample`.  What holds is `exec_once_at_most_once_partial`
(the creation is atomic, as on free-threaded builds where `mini_gil` is an RLock).
-/
namespace SaVerif.Props.C28
open SaVerif.ExecOnce

theorem inv_reach (n : Nat) (s : State) (hr : Reach true n s) : Inv s := by
  induction hr with
  | init => exact inv_init n
  | step _ hs ih => exact inv_step _ _ _ _ ih hs

/-- **exec_once_at_most_once_partial**: if the mutex is created atomically, then for
    any number of threads calling `exec_once` concurrently and any interleaving of
    their steps the listeners are entered at most once. -/
theorem exec_once_at_most_once_partial (n : Nat) (s : State) (hr : Reach true n s) : s.runs ≤ 1 := by
  have h := inv_reach n s hr
  have h1 := h.hruns
  have h2 := h.hflag
  have h3 := held_le_one h
  have h4 := sumMap_mono inRun crit inRun_le_crit s.pcs
  have h5 := h.hcrit
  by_cases hf : s.flag = true
  · have := h2 hf; simp [hf] at h1; omega
  · simp [hf] at h1; omega

/-- at most one thread is inside the critical section -/
theorem exec_once_mutex (n : Nat) (s : State) (hr : Reach true n s) : sumMap crit s.pcs ≤ 1 := by
  have h := inv_reach n s hr
  have := held_le_one h
  rw [h.hcrit]; exact this

/-- once every thread is done, the listeners ran exactly once (not zero times) if
    anybody passed the first unlocked test -/
theorem exec_once_flag_set (n : Nat) (s : State) (hr : Reach true n s) (hrun : 0 < s.runs)
    (hq : ∀ pc ∈ s.pcs, pc = Pc.done) : s.flag = true := by
  have h := inv_reach n s hr
  have hz : sumMap inRun s.pcs = 0 := by
    have : ∀ (l : List Pc), (∀ pc ∈ l, pc = Pc.done) → sumMap inRun l = 0 := by
      intro l
      induction l with
      | nil => intro _; rfl
      | cons a t ih =>
        intro hh
        have ha := hh a (by simp)
        have := ih (fun pc hp => hh pc (by simp [hp]))
        subst ha
        simp [sumMap, inRun] at this ⊢
        exact this
    exact this s.pcs hq
  have h1 := h.hruns
  by_cases hf : s.flag = true
  · exact hf
  · simp [hf, hz] at h1; omega

/-- the two-thread schedule found by the harness (and reproduced with real threads):
    both threads see `_exec_once_mutex is None`, each creates its own Lock, both enter -/
def raceTrace : List (Nat × Label) :=
  [(0, .rdFlag false), (1, .rdFlag false), (0, .rdMutex none), (1, .rdMutex none),
   (0, .mk 0), (1, .mk 1), (0, .asg), (1, .asg), (0, .acq), (1, .acq),
   (0, .rdFlag2 false), (1, .rdFlag2 false)]

/-- **exec_once_counterexample**: with the non-atomic lazy creation (the code on GIL
    builds) two threads run the listeners twice. -/
theorem exec_once_counterexample :
    ∃ s, run false (init 2) raceTrace = some s ∧ s.runs = 2 := by
  refine ⟨_, rfl, ?_⟩
  decide

theorem reach_of_run (a : Bool) (n : Nat) :
    ∀ (ls : List (Nat × Label)) (s s' : State), Reach a n s → run a s ls = some s' → Reach a n s' := by
  intro ls
  induction ls with
  | nil => intro s s' hr h; simp [run] at h; cases h; exact hr
  | cons x rest ih =>
    intro s s' hr h
    obtain ⟨t, l⟩ := x
    simp only [run] at h
    split at h
    · rename_i s1 hs; exact ih s1 s' (Reach.step hr hs) h
    · cases h

/-- the negation of the full statement, as a reachable state of the real-code LTS -/
theorem exec_once_at_most_once_fails : ∃ s, Reach false 2 s ∧ ¬ s.runs ≤ 1 := by
  obtain ⟨s, hrun, hr2⟩ := exec_once_counterexample
  exact ⟨s, reach_of_run false 2 _ _ _ Reach.init hrun, by omega⟩

/-- non-vacuity of the partial theorem: a 2-thread run where one thread executes the
    listeners and the other finds the flag set -/
example : (run true (init 2)
    [(0, .rdFlag false), (1, .rdFlag false), (0, .init 0), (1, .rdMutex (some 0)), (1, .rdMutexRet 0), (0, .acq),
     (0, .rdFlag2 false), (0, .ret), (0, .setFlag), (0, .rel), (1, .acq), (1, .rdFlag2 true),
     (1, .rel)]).map (fun s => (s.runs, s.flag, s.pcs)) = some (1, true, [Pc.done, Pc.done]) := by
  decide

/-! ## the listener registry (`SaVerif/Model/Event.lean`) -/
section registry
open SaVerif.Event

/-- a `once=True` listener that has fired is never called again, whatever the list -/
theorem once_fired_not_called (l : Lsn) :
    ∀ (ls : List Lsn) (st : St) (info : LInfo), st.lsn[l]? = some info → info.once = true →
      info.fired = true → (∀ x ∈ ls, x = l) → (callAll st ls).2 = [] := by
  intro ls
  induction ls with
  | nil => intro st info _ _ _ _; rfl
  | cons a rest ih =>
    intro st info h1 h2 h3 hall
    have ha := hall a (by simp)
    subst ha
    simp only [callAll, h1, h2, h3, if_true]
    exact ih st info h1 h2 h3 (fun x hx => hall x (by simp [hx]))

/-- dispatching twice in a row: a once-listener contributes to the first call list only -/
example :
    (run (init 2) [.newinst 0, .listen (.cls 0) 0 false 1, .listen (.cls 0) 1 false 0, .fire 0, .fire 0]).2
      = [.done, .done, .done, .calls [0, 1], .calls [1]] := by decide

/-- Full statement wanted (`dispatch_eq_spec`): for every op sequence the call list of
    `fire i` is the list of live registrations (keys (target, fn), doubles eliminated)
    for the class of `i` and its ancestors, inserted ones first, then registration order,
    then the instance's own.  It is FALSE for class-level targets:

    **double_listen_counterexample**: `listen(C, f)` twice on a class is not
    de-duplicated (instances: "doubles are eliminated"): f fires twice, one `remove`
    leaves one copy firing, and that copy can never be removed (the key is gone). -/
theorem double_listen_counterexample :
    (run (init 1) [.newinst 0, .listen (.cls 0) 0 false 0, .listen (.cls 0) 0 false 0, .fire 0,
                   .remove (.cls 0) 0, .fire 0, .remove (.cls 0) 0, .fire 0]).2
      = [.done, .done, .done, .calls [0, 0], .done, .calls [0], .noSuchListener, .calls [0]] := by
  decide

/-- the same on an instance target behaves as specified -/
example :
    (run (init 1) [.newinst 0, .listen (.inst 0) 0 false 0, .listen (.inst 0) 0 false 0, .fire 0,
                   .remove (.inst 0) 0, .fire 0, .remove (.inst 0) 0]).2
      = [.done, .done, .done, .calls [0], .done, .calls [], .noSuchListener] := by decide

/-- **related_classes_order_counterexample**: f registered on Base, g on Base, f again
    on the subclass A; removing A's registration deletes the *first* f of A's deque, so
    Base's f now fires after g on instances of A (registration order: f, g). -/
theorem related_classes_order_counterexample :
    (run (init 2) [.subclass 0, .newinst 1, .listen (.cls 0) 0 false 0, .listen (.cls 0) 1 false 0,
                   .listen (.cls 1) 0 false 0, .fire 0, .remove (.cls 1) 0, .fire 0]).2
      = [.done, .done, .done, .done, .done, .calls [0, 1, 0], .done, .calls [1, 0]] := by decide

/-- a subclass created after the listeners were registered, and an instance created
    later still, see the same listeners in the same order (lazy `update_subclass`) -/
example :
    (run (init 3) [.listen (.cls 0) 0 false 0, .listen (.cls 0) 1 true 0, .subclass 0, .subclass 1,
                   .listen (.cls 1) 2 false 0, .newinst 2, .fire 0, .remove (.cls 0) 0, .fire 0]).2
      = [.done, .done, .done, .done, .done, .done, .calls [1, 0, 2], .done, .calls [1, 2]] := by decide

/-! ## dispatch_eq_spec

The spec reads the registry of live keys (`st.reg`, chronological) and the class tree:
`specDeque st k` = live registrations on class `k` and its ancestors, inserted ones first
(newest first), then the appended ones in registration order; `specColl st i` = the same
rule for the registrations on instance `i`.

Full statement wanted: for EVERY op sequence, `fire i` calls exactly
`specDeque st (class of i) ++ specColl st i`.  It is false (`double_listen_counterexample`,
`related_classes_order_counterexample` above).  What holds, for every op sequence over a
class tree that grows at any time (`subclass`), instances created at any time, insert /
once / named options, removals, is the statement below under `RunOk`:
a class-level `listen` (a) does not repeat a live key and (b), when it registers the bare
function (no once/named wrapper), that function object is not currently listening on any
class.  Each of the two counterexamples violates exactly one of (a), (b). -/

/-- side condition on one operation in state `st` -/
def OpOk (n : Nat) (st : St) : Op → Prop
  | .listen (.cls c) fn _ wrap =>
    fn < n ∧ hasKey st (.cls c) fn = false ∧ (wrap = 0 → ∀ x ∈ clsEntries st, x.lsn ≠ fn)
  | .listen (.inst _) fn _ _ => fn < n
  | _ => True

def RunOk (n : Nat) : St → List Op → Prop
  | _, [] => True
  | st, op :: ops => OpOk n st op ∧ RunOk n (exec st op).1 ops

theorem einv_init (n : Nat) : EInv n (Event.init n) := by
  have hpar : ∀ k, parentOf (Event.init n) k = none := by
    intro k
    unfold parentOf Event.init
    cases k <;> simp
  have hdq : ∀ k, dequeOf (Event.init n) k = none := by
    intro k
    unfold dequeOf Event.init
    cases k <;> simp
  refine ⟨⟨?_, rfl, ?_, ?_⟩, ?_, ?_, ?_, ?_, ?_, ?_, ?_, ?_, ?_⟩
  · intro k p hp; rw [hpar] at hp; cases hp
  · intro k d hd; rw [hdq] at hd; cases hd
  · intro e he; simp [Event.init] at he
  · simp [clsEntries, Event.init]
  · intro i; simp [instEntries, Event.init]
  · intro e he; simp [Event.init] at he
  · intro e he; simp [Event.init] at he
  · intro e he; simp [Event.init] at he
  · simp [Event.init]
  · intro i; simp [collOf, specColl, instEntries, Event.init, orderOf]
  · intro i x hx; simp [Event.init] at hx
  · intro e he; simp [Event.init] at he

theorem einv_exec (n : Nat) (st : St) (op : Op) (h : EInv n st) (hok : OpOk n st op) :
    EInv n (exec st op).1 := by
  cases op with
  | listen t fn ins wrap =>
    cases t with
    | cls c =>
      obtain ⟨h1, h2, h3⟩ := hok
      simp only [exec]
      split
      · rename_i hc; exact listenCls_inv h c fn ins wrap hc h1 h2 h3
      · exact h
    | inst i =>
      simp only [exec]
      split
      · rename_i hi; exact listenInst_inv h i fn ins wrap hi hok
      · exact h
  | remove t fn =>
    simp only [exec]
    split
    · exact h
    · rename_i e hf
      cases t with
      | cls c =>
        simp only
        exact (removeCls_inv h c fn e hf).1
      | inst i =>
        simp only
        have := removeInst_inv h i fn e hf
        rw [if_pos this.1]
        exact this.2
  | subclass p =>
    simp only [exec]
    split
    · rename_i hp; exact subclass_inv h p hp
    · exact h
  | newinst c =>
    simp only [exec]
    split
    · rename_i hc; exact newinst_inv h c hc
    · exact h
  | fire i =>
    simp only [exec]
    split
    · exact h
    · exact h.core (callAll_core _ st)

theorem einv_run (n : Nat) : ∀ (ops : List Op) (st : St), EInv n st → RunOk n st ops →
    EInv n (Event.run st ops).1 := by
  intro ops
  induction ops with
  | nil => intro st h _; simpa [Event.run] using h
  | cons op ops ih =>
    intro st h hok
    have : (Event.run st (op :: ops)).1 = (Event.run (exec st op).1 ops).1 := by simp [Event.run]
    rw [this]
    exact ih _ (einv_exec n st op h hok.1) hok.2

/-- **dispatch_eq_spec_partial**: after any admissible op sequence, for every instance the
    listeners that a dispatch walks through -- the class-level deque of its class followed by
    its own collection -- are exactly the spec lists. -/
theorem dispatch_eq_spec_partial (n : Nat) (ops : List Op) (hok : RunOk n (Event.init n) ops)
    (i : Nat) (x : Inst) (hx : (Event.run (Event.init n) ops).1.insts[i]? = some x) :
    (dequeOf (Event.run (Event.init n) ops).1 x.cls).getD [] ++ x.coll.getD [] =
      specDeque (Event.run (Event.init n) ops).1 x.cls ++ specColl (Event.run (Event.init n) ops).1 i := by
  have h := einv_run n ops _ (einv_init n) hok
  generalize (Event.run (Event.init n) ops).1 = st at *
  have h1 := h.instCls i x hx
  cases hd : dequeOf st x.cls with
  | none => rw [hd] at h1; cases h1
  | some d =>
    have h2 := h.inst i
    unfold collOf at h2
    rw [hx] at h2
    simp only at h2
    rw [h.base.deq x.cls d hd, ← h2]
    rfl

/-- ... hence `fire i` reports exactly the calls of the spec lists (once-wrappers that
    already fired excluded, as for any list) -/
theorem fire_eq_spec (n : Nat) (ops : List Op) (hok : RunOk n (Event.init n) ops)
    (i : Nat) (x : Inst) (hx : (Event.run (Event.init n) ops).1.insts[i]? = some x) :
    (exec (Event.run (Event.init n) ops).1 (.fire i)).2 =
      .calls (callAll (Event.run (Event.init n) ops).1
        (specDeque (Event.run (Event.init n) ops).1 x.cls ++
         specColl (Event.run (Event.init n) ops).1 i)).2 := by
  have := dispatch_eq_spec_partial n ops hok i x hx
  simp only [exec, hx]
  rw [this]

/-- in an admissible run `remove` of a live key never fails and a dead key is reported -/
theorem remove_ok (n : Nat) (ops : List Op) (hok : RunOk n (Event.init n) ops) (t : Target) (fn : Nat) :
    (exec (Event.run (Event.init n) ops).1 (.remove t fn)).2 =
      if hasKey (Event.run (Event.init n) ops).1 t fn then .done else .noSuchListener := by
  have h := einv_run n ops _ (einv_init n) hok
  generalize (Event.run (Event.init n) ops).1 = st at *
  simp only [exec]
  cases hf : findKey st t fn with
  | none =>
    have : hasKey st t fn = false := by
      cases hk : hasKey st t fn with
      | false => rfl
      | true =>
        rw [hasKey_iff] at hk
        obtain ⟨e, he, h1, h2⟩ := hk
        unfold findKey at hf
        rw [List.find?_eq_none] at hf
        have := hf e he
        simp [h1, h2] at this
    simp [this]
  | some e =>
    obtain ⟨her, het, hef⟩ := findKey_some hf
    have hk : hasKey st t fn = true := by rw [hasKey_iff]; exact ⟨e, her, het, hef⟩
    cases t with
    | cls c => simp only [hk, if_true]; rw [(removeCls_inv h c fn e hf).2]; rfl
    | inst i => simp only [hk, if_true]; rw [if_pos (removeInst_inv h i fn e hf).1]

/-- non-vacuity of `RunOk`: a run with a class created late, insert, once, an instance
    listener, a removal -/
example : RunOk 3 (Event.init 3)
    [.listen (.cls 0) 0 false 0, .listen (.cls 0) 1 true 1, .subclass 0, .subclass 1,
     .listen (.cls 1) 2 false 0, .newinst 2, .listen (.inst 0) 0 true 2, .fire 0,
     .remove (.cls 0) 0, .fire 0] := by
  simp only [RunOk, OpOk]
  decide

/-- the two counterexample sequences are exactly the ones `RunOk` excludes -/
example : ¬ RunOk 1 (Event.init 1)
    [.newinst 0, .listen (.cls 0) 0 false 0, .listen (.cls 0) 0 false 0, .fire 0] := by
  simp only [RunOk, OpOk]
  decide

example : ¬ RunOk 2 (Event.init 2)
    [.subclass 0, .newinst 1, .listen (.cls 0) 0 false 0, .listen (.cls 0) 1 false 0,
     .listen (.cls 1) 0 false 0, .fire 0] := by
  simp only [RunOk, OpOk]
  decide

end registry

end SaVerif.Props.C28
