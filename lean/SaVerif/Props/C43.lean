import SaVerif.Lemmas.Evaluator
/-!
# C43 — ORM-enabled UPDATE/DELETE keep in-session objects in sync with the database

Property theorems about the evaluator model (`SaVerif/Model/Evaluator.lean`: transcription of
`orm/evaluator.py` and of the matched-object / SET loops of `orm/bulk_persistence.py`,
next to SQL three-valued semantics).  Helper lemmas: `SaVerif/Lemmas/Evaluator.lean`.

Full statement (FALSE, kept as a comment):

    theorem evaluator_eq_sql (o : Obj) (e : BExp) (he : evaluableB e = true) :
        evalPyB o e = .val (evalSqlB o.row e) ∨ evalPyB o e = .expired

It fails for six shapes of criteria and three of the UPDATE machinery; each is a guard of
the `_partial` theorems (computed by `violatedB` / `setsIndependent` / "no expired
attribute"), has a `_counterexample` below, and replays through
`Session.execute(update(...)/delete(...), synchronize_session=...)` on SQLite as a known
finding under its own key.
-/
namespace SaVerif.Props.C43
open SaVerif.Eval SaVerif.Like

/-! ## 1. the evaluator computes the SQL value -/

/-- **evaluator_eq_sql_partial**: for every criteria tree the evaluator can compile, on
    every fully loaded object, if no guard fails the closure returns exactly the
    three-valued value SQL gives the rendered criteria on that row. -/
theorem evaluator_eq_sql_partial (o : Obj) (hxi : o.xi = []) (hxs : o.xs = []) (e : BExp)
    (he : evaluableB e = true) (hs : safeB true o.row e = true) :
    evalPyB o e = .val (evalSqlB o.row e) :=
  evalB_eq o hxi hxs e he hs

/-- hence the objects the session treats as matched are the rows the statement matches -/
theorem evaluator_matched_eq_partial (o : Obj) (hxi : o.xi = []) (hxs : o.xs = []) (w : BExp)
    (he : evaluableB w = true) (hs : safeB true o.row w = true) :
    matchedPy o w = some (matchedSql o.row w) :=
  matched_of_rel o w (Or.inl (evalB_eq o hxi hxs w he hs))

/-- **evaluator_matches_sql_partial**: when no NOT remains above an AND / OR, the
    AND-order guard is not needed: the evaluator may return None where SQL has FALSE, and
    the matched set is still exact. -/
theorem evaluator_matches_sql_partial (o : Obj) (hxi : o.xi = []) (hxs : o.xs = []) (w : BExp)
    (he : evaluableB w = true) (hn : notFree w = true) (hs : safeB false o.row w = true) :
    matchedPy o w = some (matchedSql o.row w) :=
  matched_of_rel o w (relB o hxi hxs w he hn hs)

/-- non-vacuity: a tree with AND, OR, NOT, IN, %, LIKE and a row with NULLs passing all guards -/
def sampleTree : BExp :=
  .not (.and [.or [.icmp .gt (.mod (.col 0) (.lit (some 3))) (.lit (some 1)), .inull false (.col 1)],
              .iin true (.col 0) [some 1, some 2],
              .like .startswith false false (.col 0) ['a', 'b'] none true])

def sampleObj : Obj := ⟨⟨[some 8, none], [some ['a', 'b', 'c']]⟩, [], []⟩

example : evaluableB sampleTree = true ∧ safeB true sampleObj.row sampleTree = true ∧
    evalSqlB sampleObj.row sampleTree = some false := by decide

/-! ## 2. what the evaluator refuses (regenerated visitor table) -/

/-- operators without a visitor make `process()` raise UnevaluatableError: with
    'evaluate' the statement raises before executing, with 'auto' it falls back to 'fetch' -/
theorem unevaluable_ops (a : SExp) (p : List Char) (x y z : IExp) :
    evaluableB (.like .contains false false a p none false) = false ∧
    evaluableB (.like .startswith true false a p none false) = false ∧
    evaluableB (.like .startswith false true a p none false) = false ∧
    evaluableB (.between x y z) = false ∧
    evaluableB (.icmp .eq (.floordiv x y) z) = false ∧
    evaluableB (.icmp .eq (.neg x) z) = false ∧
    evaluableB (.icmp .eq (.add (.add x y) z) z) = false := by
  refine ⟨?_, ?_, ?_, ?_, ?_, ?_, ?_⟩
  · have : supported (likeVisit .contains false false) = false := by decide
    simp [evaluableB, this]
  · have : supported (likeVisit .startswith true false) = false := by decide
    simp [evaluableB, this]
  · have : supported (likeVisit .startswith false true) = false := by decide
    simp [evaluableB, this]
  · simp [evaluableB, unsupported_table.2.1]
  · simp [evaluableB, evaluableI, unsupported_table.1]
  · simp [evaluableB, evaluableI]
  · simp [evaluableB, evaluableI, IExp.isAdd, unsupported_table.2.2.1]

/-! ## 3. the excluded shapes are genuine divergences (replayed on the real code) -/

/-- `NOT (x > 0 AND y > 100)` on (NULL, 0): SQL TRUE, evaluator None -/
theorem and_null_before_false_counterexample :
    let e : BExp := .not (.and [.icmp .gt (.col 0) (.lit (some 0)), .icmp .gt (.col 1) (.lit (some 100))])
    let o : Obj := ⟨⟨[none, some 0], []⟩, [], []⟩
    evalSqlB o.row e = some true ∧ evalPyB o e = .val none ∧
      violatedB true o.row e = ["and-null-before-false"] := by decide

/-- `x % 3 = -1` on x = -7: SQL TRUE (truncation), evaluator False (floor-mod gives 2) -/
theorem mod_sign_counterexample :
    let e : BExp := .icmp .eq (.mod (.col 0) (.lit (some 3))) (.lit (some (-1)))
    let o : Obj := ⟨⟨[some (-7)], []⟩, [], []⟩
    evalSqlB o.row e = some true ∧ evalPyB o e = .val (some false) ∧
      violatedB true o.row e = ["mod-sign"] := by decide

/-- `x / y > 0` on (5, 0): SQL NULL, the evaluator raises ZeroDivisionError -/
theorem div_zero_counterexample :
    let e : BExp := .qcmp .gt (.col 0) (.col 1) (.lit (some 0))
    let o : Obj := ⟨⟨[some 5, some 0], []⟩, [], []⟩
    evalSqlB o.row e = none ∧ evalPyB o e = .zerodiv ∧
      violatedB true o.row e = ["div-zero"] := by decide

/-- `x NOT IN (1, NULL)` on x = 2: SQL NULL, evaluator True -/
theorem in_null_member_counterexample :
    let e : BExp := .iin true (.col 0) [some 1, none]
    let o : Obj := ⟨⟨[some 2], []⟩, [], []⟩
    evalSqlB o.row e = none ∧ evalPyB o e = .val (some true) ∧
      violatedB true o.row e = ["in-null-member"] := by decide

/-- `x NOT IN ()` on x = NULL: SQL TRUE, evaluator None -/
theorem in_empty_null_left_counterexample :
    let e : BExp := .iin true (.col 0) []
    let o : Obj := ⟨⟨[none], []⟩, [], []⟩
    evalSqlB o.row e = some true ∧ evalPyB o e = .val none ∧
      violatedB true o.row e = ["in-empty-null-left"] := by decide

/-- `s.startswith('a%')` on 'axb' (wildcard taken literally) and
    `s.endswith('_', autoescape=True)` on 'a_' (escaped text taken literally) -/
theorem like_wildcard_or_escape_counterexample :
    let e1 : BExp := .like .startswith false false (.col 0) ['a', '%'] none false
    let e2 : BExp := .like .endswith false false (.col 0) ['_'] none true
    let o1 : Obj := ⟨⟨[], [some ['a', 'x', 'b']]⟩, [], []⟩
    let o2 : Obj := ⟨⟨[], [some ['a', '_']]⟩, [], []⟩
    evalSqlB o1.row e1 = some true ∧ evalPyB o1 e1 = .val (some false) ∧
    evalSqlB o2.row e2 = some true ∧ evalPyB o2 e2 = .val (some false) ∧
      violatedB true o1.row e1 = ["like-wildcard-or-escape"] := by decide

/-! ## 4. synchronisation of the session -/

theorem filter_evaluable (sets : List (Nat × IExp)) (h : ∀ p ∈ sets, evaluableI p.2 = true) :
    sets.filter (fun p => evaluableI p.2) = sets ∧
      (sets.filter (fun p => !evaluableI p.2)).map (·.1) = [] := by
  constructor
  · exact List.filter_eq_self.2 h
  · have : sets.filter (fun p => !evaluableI p.2) = [] := by
      apply List.filter_eq_nil_iff.2
      intro p hp; simp [h p hp]
    rw [this]; rfl

theorem syncSets_eq_sim (sets : List (Nat × IExp)) (r : Row)
    (hset : ∀ p ∈ sets, evaluableI p.2 = true ∧ safeI r p.2 = true)
    (hind : setsIndependent sets = true) :
    syncSets sets ⟨r, [], []⟩ = .ok ⟨applySim sets r, [], []⟩ := by
  have hf := filter_evaluable sets (fun p hp => (hset p hp).1)
  have := applySeq_eq_sim r sets r [] (fun p hp => ⟨rfl, (hset p hp).1, (hset p hp).2⟩) hind
  simp only [syncSets, hf.1, hf.2, this, List.append_nil]
  rfl

/-- **update_evaluate_sync_partial**: after a bulk UPDATE with synchronize_session='evaluate'
    a fully loaded object holds exactly the row the database now holds. -/
theorem update_evaluate_sync_partial (r : Row) (w : BExp) (sets : List (Nat × IExp))
    (he : evaluableB w = true) (hs : safeB true r w = true)
    (hset : ∀ p ∈ sets, evaluableI p.2 = true ∧ safeI r p.2 = true)
    (hind : setsIndependent sets = true) :
    syncUpdateEvaluate w sets ⟨r, [], []⟩ = .ok ⟨dbUpdate w sets r, [], []⟩ := by
  have h := evalB_eq ⟨r, [], []⟩ rfl rfl w he hs
  simp only at h
  cases hv : evalSqlB r w with
  | none => rw [hv] at h; simp [syncUpdateEvaluate, dbUpdate, matchedSql, h, hv]
  | some b =>
    rw [hv] at h
    cases b
    · simp [syncUpdateEvaluate, dbUpdate, matchedSql, h, hv]
    · simpa [syncUpdateEvaluate, dbUpdate, matchedSql, h, hv] using syncSets_eq_sim sets r hset hind

/-- **update_fetch_sync_partial**: with 'fetch' the matched rows come from the database, so
    only the SET guards remain (the values are still computed by the evaluator). -/
theorem update_fetch_sync_partial (r : Row) (w : BExp) (sets : List (Nat × IExp))
    (hset : ∀ p ∈ sets, evaluableI p.2 = true ∧ safeI r p.2 = true)
    (hind : setsIndependent sets = true) :
    syncUpdateFetch w sets ⟨r, [], []⟩ = .ok ⟨dbUpdate w sets r, [], []⟩ := by
  simp only [syncUpdateFetch, dbUpdate]
  cases matchedSql r w
  · rfl
  · simpa using syncSets_eq_sim sets r hset hind

/-- **delete_evaluate_sync_partial**: an object leaves the session iff its row is deleted. -/
theorem delete_evaluate_sync_partial (r : Row) (w : BExp)
    (he : evaluableB w = true) (hs : safeB true r w = true) :
    syncDeleteEvaluate w ⟨r, [], []⟩ = (if matchedSql r w then .removed else .kept) := by
  have h := evalB_eq ⟨r, [], []⟩ rfl rfl w he hs
  simp only at h
  cases hv : evalSqlB r w with
  | none => rw [hv] at h; simp [syncDeleteEvaluate, matchedSql, h, hv]
  | some b => rw [hv] at h; cases b <;> simp [syncDeleteEvaluate, matchedSql, h, hv]

/-- **expired_sound**: a result other than `_EXPIRED_OBJECT` never depended on an expired
    attribute — it is the result on the fully loaded object, whatever the database holds
    in the expired columns (`r'` = any row agreeing with the object on its loaded attributes). -/
theorem expired_sound (o : Obj) (r' : Row)
    (hi : ∀ i, o.xi.contains i = false → r'.ints.getD i none = o.row.ints.getD i none)
    (hs : ∀ i, o.xs.contains i = false → r'.strs.getD i none = o.row.strs.getD i none)
    (e : BExp) (h : evalPyB o e ≠ .expired) : evalPyB ⟨r', [], []⟩ e = evalPyB o e :=
  expired_sound_B o r' hi hs e h

/-- **delete_partially_expired_sync_partial**: bulk DELETE on a partially expired object:
    unless the object is expired as a whole, its removal follows the actual database row. -/
theorem delete_partially_expired_sync_partial (o : Obj) (r' : Row) (w : BExp)
    (hi : ∀ i, o.xi.contains i = false → r'.ints.getD i none = o.row.ints.getD i none)
    (hs : ∀ i, o.xs.contains i = false → r'.strs.getD i none = o.row.strs.getD i none)
    (he : evaluableB w = true) (hsafe : safeB true r' w = true)
    (h : syncDeleteEvaluate w o ≠ .expiredAll) :
    syncDeleteEvaluate w o = (if matchedSql r' w then .removed else .kept) := by
  have hne : evalPyB o w ≠ .expired := by
    intro hh; apply h; simp [syncDeleteEvaluate, hh]
  have h1 := expired_sound o r' hi hs w hne
  have h2 := delete_evaluate_sync_partial r' w he hsafe
  simp only [syncDeleteEvaluate] at h2 ⊢
  rw [← h1]; exact h2

example : syncDeleteEvaluate (.and [.icmp .gt (.col 0) (.lit (some 100)), .icmp .gt (.col 1) (.lit (some 0))])
    ⟨⟨[some 1, some 2], []⟩, [1], []⟩ = .kept := by decide

example : syncUpdateEvaluate (.icmp .gt (.col 0) (.lit (some 1))) [(1, .add (.col 0) (.lit (some 1)))]
    ⟨⟨[some 5, some 0], []⟩, [], []⟩ = .ok ⟨⟨[some 5, some 6], []⟩, [], []⟩ := by decide

/-- `SET x = y, y = x`: the session ends with (y, y), the database with (y, x) -/
theorem set_clause_sequential_counterexample :
    let sets : List (Nat × IExp) := [(0, .col 1), (1, .col 0)]
    let r : Row := ⟨[some 1, some 2], []⟩
    syncUpdateFetch (.const (some true)) sets ⟨r, [], []⟩ = .ok ⟨⟨[some 2, some 2], []⟩, [], []⟩ ∧
      dbUpdate (.const (some true)) sets r = ⟨[some 2, some 1], []⟩ ∧
      setsIndependent sets = false := by decide

/-- UPDATE … WHERE y > 100 with `y` expired on the object: the object is treated as
    matched and gets the SET value although its row (y = 2) does not match -/
theorem update_expired_where_counterexample :
    let w : BExp := .icmp .gt (.col 1) (.lit (some 100))
    let sets : List (Nat × IExp) := [(0, .lit (some 77))]
    let o : Obj := ⟨⟨[some 1, some 2], []⟩, [1], []⟩
    syncUpdateEvaluate w sets o = .ok ⟨⟨[some 77, some 2], []⟩, [1], []⟩ ∧
      dbUpdate w sets o.row = o.row ∧
      syncDeleteEvaluate w o = .expiredAll := by decide

/-- a SET value reading an expired attribute stores the `_EXPIRED_OBJECT` sentinel -/
theorem set_value_expired_counterexample :
    syncUpdateFetch (.const (some true)) [(0, .add (.col 1) (.lit (some 1)))]
      ⟨⟨[some 1, some 2], []⟩, [1], []⟩ = .sentinel := by decide

/-! ## 5. ORM bulk UPDATE by primary key -/

/-- **bulk_by_pk_sync**: `session.execute(update(E), [ {pk, col: value…}, … ])` with
    'evaluate' synchronisation: for any list of parameter sets — in any order, whether or
    not the object of an earlier set is loaded — every loaded, unexpired attribute of every
    in-session object still equals the database value afterwards. -/
theorem bulk_by_pk_sync (params : List BulkParam) (slots : List Slot)
    (h : ∀ s ∈ slots, SlotOk s) : ∀ s ∈ bulkByPk params slots, SlotOk s :=
  bulkByPk_ok params slots h

/-- an unloaded target earlier in the list does not stop the later ones -/
example : bulkByPk [(2, [(0, some 9)]), (3, [(0, some 8)])]
    [⟨2, [some 1], none⟩, ⟨3, [some 1], some ([some 1], [])⟩] =
    [⟨2, [some 9], none⟩, ⟨3, [some 8], some ([some 8], [])⟩] := by decide

end SaVerif.Props.C43
