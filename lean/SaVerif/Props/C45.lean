import SaVerif.Model.Merge
/-!
# C45 — Session.merge copies state onto the session's single instance

Theorems about M-ORM/merge (`SaVerif/Model/Merge.lean`), for every session state and
every source (any combination of loaded attributes).

* `merge_copies_loaded` — after `merge(src)` the Session's instance for `src`'s
  identity has every attribute that is loaded on `src` equal to `src`'s, and every
  other attribute as it was (Session value, else database value, else unloaded).
* `merge_idempotent`, `merge_noload_idempotent` — merging an equal source again changes
  nothing: same state (values, history, pending set, database), same result, no SQL.
* `merge_noload_no_sql_no_change`, `merge_noload_rejects` — `load=False`.
* `merge_sql_bound` — at most one SELECT, none when the identity is present.
* `merge_keeps_identity` — the result has the source's full key, identity token included.
-/
namespace SaVerif.Props.C45
open SaVerif.Merge

/-- the Session's instance for an identity: identity map, else pending -/
def destOf (st : St) (k t : Nat) : Option Obj :=
  match st.objs k t with
  | some o => some o
  | none => st.new k

/-- value an attribute has for the Session before the merge -/
def baseA (st : St) (k t : Nat) : Option Int :=
  match st.objs k t with
  | some o => o.a.cur
  | none => (st.db k).map (·.1)

def baseB (st : St) (k t : Nat) : Option Int :=
  match st.objs k t with
  | some o => o.b.cur
  | none => (st.db k).map (·.2)

theorem copyAttr_cur (x : Attr) (s : Option Int) :
    (copyAttr x s).cur = (match s with
                          | some v => some v
                          | none => x.cur) := by
  cases s <;> rfl

/-- **merge_copies_loaded** -/
theorem merge_copies_loaded (st : St) (s : Src) (hn : st.new s.pk = none) :
    ∃ o', destOf (mergeLoad st s).1 s.pk s.tok = some o' ∧
      o'.a.cur = (match s.a with
                  | some v => some v
                  | none => baseA st s.pk s.tok) ∧
      o'.b.cur = (match s.b with
                  | some v => some v
                  | none => baseB st s.pk s.tok) := by
  unfold mergeLoad
  simp only [hn]
  cases ho : st.objs s.pk s.tok with
  | some o =>
    refine ⟨⟨copyAttr o.a s.a, copyAttr o.b s.b⟩, by simp [destOf, putObj], ?_, ?_⟩
    · simp [copyAttr_cur, baseA, ho]
    · simp [copyAttr_cur, baseB, ho]
  | none =>
    cases hr : st.db s.pk with
    | some r =>
      obtain ⟨va, vb⟩ := r
      refine ⟨⟨copyAttr (loaded va) s.a, copyAttr (loaded vb) s.b⟩, by simp [destOf, putObj], ?_, ?_⟩
      · simp [copyAttr_cur, baseA, ho, hr, loaded]
      · simp [copyAttr_cur, baseB, ho, hr, loaded]
    | none =>
      refine ⟨⟨copyAttr unloaded s.a, copyAttr unloaded s.b⟩, by simp [destOf, ho, hn], ?_, ?_⟩
      · simp [copyAttr_cur, baseA, ho, hr, unloaded]
      · simp [copyAttr_cur, baseB, ho, hr, unloaded]

theorem copyAttr_idem (x : Attr) (s : Option Int) : copyAttr (copyAttr x s) s = copyAttr x s := by
  cases s with
  | none => rfl
  | some v =>
    simp only [copyAttr, setAttr]
    cases x.com <;> rfl

theorem copyAttrNoLoad_idem (x : Attr) (s : Option Int) :
    copyAttrNoLoad (copyAttrNoLoad x s) s = copyAttrNoLoad x s := by
  cases s <;> rfl

theorem upd_upd (f : Nat → Nat → Option Obj) (k t : Nat) (x y : Obj) :
    putObj (putObj f k t x) k t y = putObj f k t y := by
  funext j u
  unfold putObj
  by_cases h : j = k ∧ u = t <;> simp [h]

theorem putObj_same (f : Nat → Nat → Option Obj) (k t : Nat) (x : Obj) : putObj f k t x k t = some x := by
  simp [putObj]

theorem upd_same {α : Type} (f : Nat → α) (k : Nat) (x : α) (h : f k = x) :
    (fun j => if j = k then x else f j) = f := by
  funext j
  by_cases hj : j = k
  · simp [hj, h]
  · simp [hj]

/-- **merge_idempotent**: when the first merge found or loaded the identity (it is in
    the identity map afterwards), a second merge of an equal source returns the same
    result, emits no SQL and leaves the Session exactly as it is. -/
theorem merge_idempotent (st : St) (s : Src) (hn : st.new s.pk = none)
    (hfound : ((mergeLoad st s).1.objs s.pk s.tok).isSome = true) :
    (mergeLoad (mergeLoad st s).1 s).1.objs = (mergeLoad st s).1.objs ∧
    (mergeLoad (mergeLoad st s).1 s).1.new = (mergeLoad st s).1.new ∧
    (mergeLoad (mergeLoad st s).1 s).1.db = (mergeLoad st s).1.db ∧
    (mergeLoad (mergeLoad st s).1 s).1.sql = (mergeLoad st s).1.sql ∧
    (mergeLoad (mergeLoad st s).1 s).2 = (mergeLoad st s).2 := by
  unfold mergeLoad at hfound ⊢
  simp only [hn] at hfound ⊢
  cases ho : st.objs s.pk s.tok with
  | some o =>
    simp only [ho, hn, putObj_same, copyAttr_idem]
    (refine ⟨?_, ?_, ?_, ?_, ?_⟩ <;> first | exact upd_upd _ _ _ _ _ | trivial | rfl)
  | none =>
    cases hr : st.db s.pk with
    | some r =>
      obtain ⟨va, vb⟩ := r
      simp only [ho, hr, hn, putObj_same, copyAttr_idem]
      (refine ⟨?_, ?_, ?_, ?_, ?_⟩ <;> first | exact upd_upd _ _ _ _ _ | trivial | rfl)
    | none => simp [ho, hr, hn] at hfound

/-- a second `merge(load=False)` of an equal source -/
theorem merge_noload_idempotent (st : St) (s : Src) (hn : st.new s.pk = none) :
    (mergeNoLoad (mergeNoLoad st s).1 s).1.objs = (mergeNoLoad st s).1.objs ∧
    (mergeNoLoad (mergeNoLoad st s).1 s).1.new = (mergeNoLoad st s).1.new ∧
    (mergeNoLoad (mergeNoLoad st s).1 s).1.db = (mergeNoLoad st s).1.db ∧
    (mergeNoLoad (mergeNoLoad st s).1 s).1.sql = (mergeNoLoad st s).1.sql := by
  unfold mergeNoLoad
  simp only [hn]
  by_cases hp : s.persistent = true
  · simp only [hp, Bool.not_true, Bool.false_eq_true, if_false]
    cases ho : st.objs s.pk s.tok with
    | some o =>
      simp only [hn, hp, Bool.not_true, Bool.false_eq_true, if_false, putObj_same, copyAttrNoLoad_idem]
      (refine ⟨?_, ?_, ?_, ?_⟩ <;> first | exact upd_upd _ _ _ _ _ | trivial | rfl)
    | none =>
      by_cases hm : s.modified = true
      · simp only [hm, if_true, hn, hp, Bool.not_true, Bool.false_eq_true, if_false, ho]
        (refine ⟨?_, ?_, ?_, ?_⟩ <;> first | exact upd_upd _ _ _ _ _ | trivial | rfl)
      · simp only [hm, Bool.false_eq_true, if_false, hn, hp, Bool.not_true, putObj_same, copyAttrNoLoad_idem]
        (refine ⟨?_, ?_, ?_, ?_⟩ <;> first | exact upd_upd _ _ _ _ _ | trivial | rfl)
  · simp only [hp, Bool.not_false, if_true, hn]
    (refine ⟨?_, ?_, ?_, ?_⟩ <;> first | exact upd_upd _ _ _ _ _ | trivial | rfl)

theorem copyAttrNoLoad_clean (x : Attr) (s : Option Int) : (copyAttrNoLoad x s).netChange = false := by
  cases s <;> rfl

/-- **merge_noload_no_sql_no_change**: `load=False` never emits SQL, never touches the
    database, and what it returns carries no net change -/
theorem merge_noload_no_sql_no_change (st : St) (s : Src) :
    (mergeNoLoad st s).1.sql = st.sql ∧ (mergeNoLoad st s).1.db = st.db ∧
    (mergeNoLoad st s).1.new = st.new ∧
    (∀ nw t a b d, (mergeNoLoad st s).2 = .merged nw t a b d → d = false) := by
  unfold mergeNoLoad
  cases st.new s.pk with
  | some _ => (refine ⟨?_, ?_, ?_, ?_⟩ <;> first | trivial | rfl | (intro _ _ _ _ _ h; cases h))
  | none =>
    simp only
    by_cases hp : s.persistent = true
    · simp only [hp, Bool.not_true, Bool.false_eq_true, if_false]
      cases st.objs s.pk s.tok with
      | some o =>
        refine ⟨by first | trivial | rfl, by first | trivial | rfl, by first | trivial | rfl, ?_⟩
        intro nw t a b d h
        simp only [outOf, Obj.netChange, copyAttrNoLoad_clean, Bool.or_self, Out.merged.injEq] at h
        exact h.2.2.2.2.symm
      | none =>
        simp only
        by_cases hm : s.modified = true
        · simp only [hm, if_true]; (refine ⟨?_, ?_, ?_, ?_⟩ <;> first | trivial | rfl | (intro _ _ _ _ _ h; cases h))
        · simp only [hm, Bool.false_eq_true, if_false]
          refine ⟨by first | trivial | rfl, by first | trivial | rfl, by first | trivial | rfl, ?_⟩
          intro nw t a b d h
          simp only [outOf, Obj.netChange, copyAttrNoLoad_clean, Bool.or_self, Out.merged.injEq] at h
          exact h.2.2.2.2.symm
    · simp only [hp, Bool.not_false, if_true]
      (refine ⟨?_, ?_, ?_, ?_⟩ <;> first | trivial | rfl | (intro _ _ _ _ _ h; cases h))

/-- **merge_noload_rejects**: transient sources, and dirty sources whose identity is not
    in the Session, are refused -/
theorem merge_noload_rejects (st : St) (s : Src) (hn : st.new s.pk = none)
    (h : s.persistent = false ∨ (st.objs s.pk s.tok = none ∧ s.modified = true)) :
    (mergeNoLoad st s).2 = .error ∧ (mergeNoLoad st s).1 = st := by
  unfold mergeNoLoad
  simp only [hn]
  rcases h with h | ⟨h1, h2⟩
  · simp [h]
  · by_cases hp : s.persistent = true
    · simp [hp, h1, h2]
    · simp [hp]

/-- **merge_sql_bound**: a merge emits at most one statement, and none when the
    identity is already in the Session -/
theorem merge_sql_bound (st : St) (s : Src) :
    (mergeLoad st s).1.sql ≤ st.sql + 1 ∧
    ((st.objs s.pk s.tok).isSome = true → (mergeLoad st s).1.sql = st.sql) := by
  unfold mergeLoad
  cases st.new s.pk with
  | some _ => exact ⟨Nat.le_succ _, fun _ => rfl⟩
  | none =>
    cases ho : st.objs s.pk s.tok with
    | some o => exact ⟨Nat.le_succ _, fun _ => rfl⟩
    | none =>
      cases st.db s.pk with
      | some r => obtain ⟨va, vb⟩ := r; exact ⟨Nat.le_refl _, fun h => by cases h⟩
      | none => exact ⟨Nat.le_refl _, fun h => by cases h⟩

/-- **merge_keeps_identity**: the instance merge works on and returns carries the
    source's full identity key — primary key AND identity token — unless a new pending
    instance had to be created (no row): in particular it never falls back to the
    token-less identity of the same primary key. -/
theorem merge_keeps_identity (st : St) (s : Src) (nw : Bool) (t : Nat) (a b : Option Int) (d : Bool)
    (h : (mergeLoad st s).2 = .merged nw t a b d) (hold : nw = false) :
    t = s.tok ∧ ((mergeLoad st s).1.objs s.pk s.tok).isSome = true ∧
    ∀ u, u ≠ s.tok → (mergeLoad st s).1.objs s.pk u = st.objs s.pk u := by
  unfold mergeLoad at h ⊢
  cases hn : st.new s.pk with
  | some _ => simp [hn] at h
  | none =>
    simp only [hn] at h ⊢
    cases ho : st.objs s.pk s.tok with
    | some o =>
      simp only [ho, outOf, Out.merged.injEq] at h
      refine ⟨h.2.1.symm, by simp [putObj], ?_⟩
      intro u hu; simp [putObj, hu]
    | none =>
      cases hr : st.db s.pk with
      | some r =>
        obtain ⟨va, vb⟩ := r
        simp only [ho, hr, outOf, Out.merged.injEq] at h
        refine ⟨h.2.1.symm, by simp [putObj], ?_⟩
        intro u hu; simp [putObj, hu]
      | none =>
        simp only [ho, hr, Out.merged.injEq] at h
        rw [hold] at h
        exact absurd h.1 (by simp)

/-- **merge_noload_keeps_identity**: the same for `load=False` — the instance created or
    updated without SQL sits under the source's full key, token included, and the
    instances of the same primary key under other tokens are untouched (since fix 92da004
    `state.identity_token` is set from the key, so a later flush keeps it there: `flush`
    in the model never moves an instance to another token). -/
theorem merge_noload_keeps_identity (st : St) (s : Src) (nw : Bool) (t : Nat) (a b : Option Int) (d : Bool)
    (h : (mergeNoLoad st s).2 = .merged nw t a b d) :
    t = s.tok ∧ ((mergeNoLoad st s).1.objs s.pk s.tok).isSome = true ∧
    ∀ u, u ≠ s.tok → (mergeNoLoad st s).1.objs s.pk u = st.objs s.pk u := by
  unfold mergeNoLoad at h ⊢
  cases hn : st.new s.pk with
  | some _ => simp [hn] at h
  | none =>
    simp only [hn] at h ⊢
    by_cases hp : s.persistent = true
    · simp only [hp, Bool.not_true, Bool.false_eq_true, if_false] at h ⊢
      cases ho : st.objs s.pk s.tok with
      | some o =>
        simp only [ho, outOf, Out.merged.injEq] at h
        refine ⟨h.2.1.symm, by simp [putObj], ?_⟩
        intro u hu; simp [putObj, hu]
      | none =>
        by_cases hm : s.modified = true
        · simp [ho, hm] at h
        · simp only [ho, hm, Bool.false_eq_true, if_false, outOf, Out.merged.injEq] at h ⊢
          refine ⟨h.2.1.symm, by simp [putObj], ?_⟩
          intro u hu; simp [putObj, hu]
    · simp [hp] at h

/-- a flush never moves an instance to another identity token -/
theorem flush_keeps_tokens (n : Nat) (st : St) (k t : Nat) (hnew : st.new k = none) :
    ((step n st .flush).1.objs k t).isSome = (st.objs k t).isSome := by
  simp only [step]
  by_cases hk : k < n
  · simp only [hk, if_true, hnew]
    cases st.objs k t <;> rfl
  · simp only [hk, if_false]

/-! ## non-vacuity -/

/-- partial source onto a loaded, modified object: loaded attribute copied, the other
    one (pending value 11) kept; second merge changes nothing -/
example :
    let st := run 1 St.init [.insert 0 1 2, .load 0 0, .set 0 0 true 11]
    let s : Src := ⟨0, 0, some 5, none, true, false⟩
    (mergeLoad st s).2 = .merged false 0 (some 5) (some 11) true ∧
    (mergeLoad (mergeLoad st s).1 s).2 = .merged false 0 (some 5) (some 11) true ∧
    ((mergeLoad st s).1.objs 0 0).isSome = true := by decide

/-- load=False on an identity the Session does not hold: new persistent instance, no SQL -/
example :
    let st := run 1 St.init [.insert 0 1 2]
    (mergeNoLoad st ⟨0, 0, some 5, none, true, false⟩).2 = .merged true 0 (some 5) none false ∧
    (mergeNoLoad st ⟨0, 0, some 5, none, true, false⟩).1.sql = st.sql := by decide

/-- a source whose key carries identity token 1, Session holds only the token-less instance:
    a second instance (pk 0, token 1) is loaded and returned, the other one is untouched -/
example :
    let st := run 1 St.init [.insert 0 1 2, .load 0 0]
    let s : Src := ⟨0, 1, some 5, none, true, false⟩
    (mergeLoad st s).2 = .merged false 1 (some 5) (some 2) true ∧
    ((mergeLoad st s).1.objs 0 0).map (·.a.cur) = some (some 1) := by decide

end SaVerif.Props.C45
