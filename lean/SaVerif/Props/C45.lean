import SaVerif.Model.Merge
/-!
# C45 — Session.merge copies state onto the session's single instance

Theorems about M-ORM/merge (`SaVerif/Model/Merge.lean`), for every session state and
every source (any combination of loaded attributes).

* `merge_copies_loaded` — after `merge(src)` the Session's instance for `src`'s
  identity has every attribute that is loaded on `src` equal to `src`'s, and every
  other attribute as it was (Session value, else database value, else unloaded).
* `merge_idempotent`, `merge_noload_idempotent` — merging an equal source again changes
  nothing: same state (values, history, pending set, database), same result, no SQL.
* `merge_noload_no_sql_no_change`, `merge_noload_rejects` — `load=False`.
* `merge_sql_bound` — at most one SELECT, none when the identity is present.
* `merge_keeps_identity` — the result has the source's full key, identity token included.

The public entry point `Session.merge` in a Session with autoflush on (`mergeAf true`),
for every session state — pending instances and pending `Session.delete()`s included:

* `merge_autoflush_guard_is_load`, `merge_body_under_no_autoflush` — the regenerated shape
  of `Session.merge`: the pre-merge `_autoflush()` is guarded by exactly `if load:`, and
  `_merge` runs under `no_autoflush` (so that flush is the only one).
* `merge_autoflush_eq_flush_then_merge` — merge(load=True) = flush, then merge.
* `merge_autoflush_result_live` — the returned instance is not marked deleted and carries
  the source's loaded attributes; `merge_autoflush_after_delete_creates` — if the Session
  held a deleted-marked instance of the identity, the result is a NEW pending instance.
* `merge_autoflush_finds_pending` — if the identity was pending, merge lands on that (now
  persistent) instance: nothing pending afterwards, `isNew = false`, no SELECT.
* `merge_autoflush_persisted` (+ `_after_delete`, `_pending`) — after the next flush the
  row exists and carries every attribute loaded on the source.
* `merge_noload_no_flush` — load=False never flushes; `merge_no_autoflush_eq_merge`.
-/
namespace SaVerif.Props.C45
open SaVerif.Merge
open SaVerif.Gen.MergeCfg

/-- the Session's instance for an identity: identity map, else pending -/
def destOf (st : St) (k t : Nat) : Option Obj :=
  match st.objs k t with
  | some o => some o
  | none => st.new k

/-- value an attribute has for the Session before the merge -/
def baseA (st : St) (k t : Nat) : Option Int :=
  match st.objs k t with
  | some o => o.a.cur
  | none => (st.db k).map (·.1)

def baseB (st : St) (k t : Nat) : Option Int :=
  match st.objs k t with
  | some o => o.b.cur
  | none => (st.db k).map (·.2)

theorem copyAttr_cur (x : Attr) (s : Option Int) :
    (copyAttr x s).cur = (match s with
                          | some v => some v
                          | none => x.cur) := by
  cases s <;> rfl

/-- **merge_copies_loaded** -/
theorem merge_copies_loaded (st : St) (s : Src) (hn : st.new s.pk = none) :
    ∃ o', destOf (mergeLoad st s).1 s.pk s.tok = some o' ∧
      o'.a.cur = (match s.a with
                  | some v => some v
                  | none => baseA st s.pk s.tok) ∧
      o'.b.cur = (match s.b with
                  | some v => some v
                  | none => baseB st s.pk s.tok) := by
  unfold mergeLoad
  simp only [hn]
  cases ho : st.objs s.pk s.tok with
  | some o =>
    refine ⟨⟨copyAttr o.a s.a, copyAttr o.b s.b⟩, by simp [destOf, putObj], ?_, ?_⟩
    · simp [copyAttr_cur, baseA, ho]
    · simp [copyAttr_cur, baseB, ho]
  | none =>
    cases hr : st.db s.pk with
    | some r =>
      obtain ⟨va, vb⟩ := r
      refine ⟨⟨copyAttr (loaded va) s.a, copyAttr (loaded vb) s.b⟩, by simp [destOf, putObj], ?_, ?_⟩
      · simp [copyAttr_cur, baseA, ho, hr, loaded]
      · simp [copyAttr_cur, baseB, ho, hr, loaded]
    | none =>
      refine ⟨⟨copyAttr unloaded s.a, copyAttr unloaded s.b⟩, by simp [destOf, ho, hn], ?_, ?_⟩
      · simp [copyAttr_cur, baseA, ho, hr, unloaded]
      · simp [copyAttr_cur, baseB, ho, hr, unloaded]

theorem copyAttr_idem (x : Attr) (s : Option Int) : copyAttr (copyAttr x s) s = copyAttr x s := by
  cases s with
  | none => rfl
  | some v =>
    simp only [copyAttr, setAttr]
    cases x.com <;> rfl

theorem copyAttrNoLoad_idem (x : Attr) (s : Option Int) :
    copyAttrNoLoad (copyAttrNoLoad x s) s = copyAttrNoLoad x s := by
  cases s <;> rfl

theorem upd_upd (f : Nat → Nat → Option Obj) (k t : Nat) (x y : Obj) :
    putObj (putObj f k t x) k t y = putObj f k t y := by
  funext j u
  unfold putObj
  by_cases h : j = k ∧ u = t <;> simp [h]

theorem putObj_same (f : Nat → Nat → Option Obj) (k t : Nat) (x : Obj) : putObj f k t x k t = some x := by
  simp [putObj]

theorem upd_same {α : Type} (f : Nat → α) (k : Nat) (x : α) (h : f k = x) :
    (fun j => if j = k then x else f j) = f := by
  funext j
  by_cases hj : j = k
  · simp [hj, h]
  · simp [hj]

/-- **merge_idempotent**: when the first merge found or loaded the identity (it is in
    the identity map afterwards), a second merge of an equal source returns the same
    result, emits no SQL and leaves the Session exactly as it is. -/
theorem merge_idempotent (st : St) (s : Src) (hn : st.new s.pk = none)
    (hfound : ((mergeLoad st s).1.objs s.pk s.tok).isSome = true) :
    (mergeLoad (mergeLoad st s).1 s).1.objs = (mergeLoad st s).1.objs ∧
    (mergeLoad (mergeLoad st s).1 s).1.new = (mergeLoad st s).1.new ∧
    (mergeLoad (mergeLoad st s).1 s).1.db = (mergeLoad st s).1.db ∧
    (mergeLoad (mergeLoad st s).1 s).1.sql = (mergeLoad st s).1.sql ∧
    (mergeLoad (mergeLoad st s).1 s).2 = (mergeLoad st s).2 := by
  unfold mergeLoad at hfound ⊢
  simp only [hn] at hfound ⊢
  cases ho : st.objs s.pk s.tok with
  | some o =>
    simp only [ho, hn, putObj_same, copyAttr_idem]
    (refine ⟨?_, ?_, ?_, ?_, ?_⟩ <;> first | exact upd_upd _ _ _ _ _ | trivial | rfl)
  | none =>
    cases hr : st.db s.pk with
    | some r =>
      obtain ⟨va, vb⟩ := r
      simp only [ho, hr, hn, putObj_same, copyAttr_idem]
      (refine ⟨?_, ?_, ?_, ?_, ?_⟩ <;> first | exact upd_upd _ _ _ _ _ | trivial | rfl)
    | none => simp [ho, hr, hn] at hfound

/-- a second `merge(load=False)` of an equal source -/
theorem merge_noload_idempotent (st : St) (s : Src) (hn : st.new s.pk = none) :
    (mergeNoLoad (mergeNoLoad st s).1 s).1.objs = (mergeNoLoad st s).1.objs ∧
    (mergeNoLoad (mergeNoLoad st s).1 s).1.new = (mergeNoLoad st s).1.new ∧
    (mergeNoLoad (mergeNoLoad st s).1 s).1.db = (mergeNoLoad st s).1.db ∧
    (mergeNoLoad (mergeNoLoad st s).1 s).1.sql = (mergeNoLoad st s).1.sql := by
  unfold mergeNoLoad
  simp only [hn]
  by_cases hp : s.persistent = true
  · simp only [hp, Bool.not_true, Bool.false_eq_true, if_false]
    cases ho : st.objs s.pk s.tok with
    | some o =>
      simp only [hn, hp, Bool.not_true, Bool.false_eq_true, if_false, putObj_same, copyAttrNoLoad_idem]
      (refine ⟨?_, ?_, ?_, ?_⟩ <;> first | exact upd_upd _ _ _ _ _ | trivial | rfl)
    | none =>
      by_cases hm : s.modified = true
      · simp only [hm, if_true, hn, hp, Bool.not_true, Bool.false_eq_true, if_false, ho]
        (refine ⟨?_, ?_, ?_, ?_⟩ <;> first | exact upd_upd _ _ _ _ _ | trivial | rfl)
      · simp only [hm, Bool.false_eq_true, if_false, hn, hp, Bool.not_true, putObj_same, copyAttrNoLoad_idem]
        (refine ⟨?_, ?_, ?_, ?_⟩ <;> first | exact upd_upd _ _ _ _ _ | trivial | rfl)
  · simp only [hp, Bool.not_false, if_true, hn]
    (refine ⟨?_, ?_, ?_, ?_⟩ <;> first | exact upd_upd _ _ _ _ _ | trivial | rfl)

theorem copyAttrNoLoad_clean (x : Attr) (s : Option Int) : (copyAttrNoLoad x s).netChange = false := by
  cases s <;> rfl

/-- **merge_noload_no_sql_no_change**: `load=False` never emits SQL, never touches the
    database, and what it returns carries no net change -/
theorem merge_noload_no_sql_no_change (st : St) (s : Src) :
    (mergeNoLoad st s).1.sql = st.sql ∧ (mergeNoLoad st s).1.db = st.db ∧
    (mergeNoLoad st s).1.new = st.new ∧
    (∀ nw t a b d, (mergeNoLoad st s).2 = .merged nw t a b d → d = false) := by
  unfold mergeNoLoad
  cases st.new s.pk with
  | some _ => (refine ⟨?_, ?_, ?_, ?_⟩ <;> first | trivial | rfl | (intro _ _ _ _ _ h; cases h))
  | none =>
    simp only
    by_cases hp : s.persistent = true
    · simp only [hp, Bool.not_true, Bool.false_eq_true, if_false]
      cases st.objs s.pk s.tok with
      | some o =>
        refine ⟨by first | trivial | rfl, by first | trivial | rfl, by first | trivial | rfl, ?_⟩
        intro nw t a b d h
        simp only [outOf, Obj.netChange, copyAttrNoLoad_clean, Bool.or_self, Out.merged.injEq] at h
        exact h.2.2.2.2.symm
      | none =>
        simp only
        by_cases hm : s.modified = true
        · simp only [hm, if_true]; (refine ⟨?_, ?_, ?_, ?_⟩ <;> first | trivial | rfl | (intro _ _ _ _ _ h; cases h))
        · simp only [hm, Bool.false_eq_true, if_false]
          refine ⟨by first | trivial | rfl, by first | trivial | rfl, by first | trivial | rfl, ?_⟩
          intro nw t a b d h
          simp only [outOf, Obj.netChange, copyAttrNoLoad_clean, Bool.or_self, Out.merged.injEq] at h
          exact h.2.2.2.2.symm
    · simp only [hp, Bool.not_false, if_true]
      (refine ⟨?_, ?_, ?_, ?_⟩ <;> first | trivial | rfl | (intro _ _ _ _ _ h; cases h))

/-- **merge_noload_rejects**: transient sources, and dirty sources whose identity is not
    in the Session, are refused -/
theorem merge_noload_rejects (st : St) (s : Src) (hn : st.new s.pk = none)
    (h : s.persistent = false ∨ (st.objs s.pk s.tok = none ∧ s.modified = true)) :
    (mergeNoLoad st s).2 = .error ∧ (mergeNoLoad st s).1 = st := by
  unfold mergeNoLoad
  simp only [hn]
  rcases h with h | ⟨h1, h2⟩
  · simp [h]
  · by_cases hp : s.persistent = true
    · simp [hp, h1, h2]
    · simp [hp]

/-- **merge_sql_bound**: a merge emits at most one statement, and none when the
    identity is already in the Session -/
theorem merge_sql_bound (st : St) (s : Src) :
    (mergeLoad st s).1.sql ≤ st.sql + 1 ∧
    ((st.objs s.pk s.tok).isSome = true → (mergeLoad st s).1.sql = st.sql) := by
  unfold mergeLoad
  cases st.new s.pk with
  | some _ => exact ⟨Nat.le_succ _, fun _ => rfl⟩
  | none =>
    cases ho : st.objs s.pk s.tok with
    | some o => exact ⟨Nat.le_succ _, fun _ => rfl⟩
    | none =>
      cases st.db s.pk with
      | some r => obtain ⟨va, vb⟩ := r; exact ⟨Nat.le_refl _, fun h => by cases h⟩
      | none => exact ⟨Nat.le_refl _, fun h => by cases h⟩

/-- **merge_keeps_identity**: the instance merge works on and returns carries the
    source's full identity key — primary key AND identity token — unless a new pending
    instance had to be created (no row): in particular it never falls back to the
    token-less identity of the same primary key. -/
theorem merge_keeps_identity (st : St) (s : Src) (nw : Bool) (t : Nat) (a b : Option Int) (d : Bool)
    (h : (mergeLoad st s).2 = .merged nw t a b d) (hold : nw = false) :
    t = s.tok ∧ ((mergeLoad st s).1.objs s.pk s.tok).isSome = true ∧
    ∀ u, u ≠ s.tok → (mergeLoad st s).1.objs s.pk u = st.objs s.pk u := by
  unfold mergeLoad at h ⊢
  cases hn : st.new s.pk with
  | some _ => simp [hn] at h
  | none =>
    simp only [hn] at h ⊢
    cases ho : st.objs s.pk s.tok with
    | some o =>
      simp only [ho, outOf, Out.merged.injEq] at h
      refine ⟨h.2.1.symm, by simp [putObj], ?_⟩
      intro u hu; simp [putObj, hu]
    | none =>
      cases hr : st.db s.pk with
      | some r =>
        obtain ⟨va, vb⟩ := r
        simp only [ho, hr, outOf, Out.merged.injEq] at h
        refine ⟨h.2.1.symm, by simp [putObj], ?_⟩
        intro u hu; simp [putObj, hu]
      | none =>
        simp only [ho, hr, Out.merged.injEq] at h
        rw [hold] at h
        exact absurd h.1 (by simp)

/-- **merge_noload_keeps_identity**: the same for `load=False` — the instance created or
    updated without SQL sits under the source's full key, token included, and the
    instances of the same primary key under other tokens are untouched (since fix 92da004
    `state.identity_token` is set from the key, so a later flush keeps it there: `flush`
    in the model never moves an instance to another token). -/
theorem merge_noload_keeps_identity (st : St) (s : Src) (nw : Bool) (t : Nat) (a b : Option Int) (d : Bool)
    (h : (mergeNoLoad st s).2 = .merged nw t a b d) :
    t = s.tok ∧ ((mergeNoLoad st s).1.objs s.pk s.tok).isSome = true ∧
    ∀ u, u ≠ s.tok → (mergeNoLoad st s).1.objs s.pk u = st.objs s.pk u := by
  unfold mergeNoLoad at h ⊢
  cases hn : st.new s.pk with
  | some _ => simp [hn] at h
  | none =>
    simp only [hn] at h ⊢
    by_cases hp : s.persistent = true
    · simp only [hp, Bool.not_true, Bool.false_eq_true, if_false] at h ⊢
      cases ho : st.objs s.pk s.tok with
      | some o =>
        simp only [ho, outOf, Out.merged.injEq] at h
        refine ⟨h.2.1.symm, by simp [putObj], ?_⟩
        intro u hu; simp [putObj, hu]
      | none =>
        by_cases hm : s.modified = true
        · simp [ho, hm] at h
        · simp only [ho, hm, Bool.false_eq_true, if_false, outOf, Out.merged.injEq] at h ⊢
          refine ⟨h.2.1.symm, by simp [putObj], ?_⟩
          intro u hu; simp [putObj, hu]
    · simp [hp] at h

/-- a flush never moves an instance to another identity token (instances marked deleted
    leave the identity map) -/
theorem flush_keeps_tokens (af : Bool) (n : Nat) (st : St) (k t : Nat) (hnew : st.new k = none)
    (hdel : st.del k t = false) :
    ((step af n st .flush).1.objs k t).isSome = (st.objs k t).isSome := by
  simp only [step, flushSt]
  by_cases hk : k < n
  · simp only [hk, if_true, hnew, hdel]
    cases st.objs k t <;> rfl
  · simp only [hk, if_false]

/-- a flush removes exactly the deleted-marked instances, with their row -/
theorem flush_removes_deleted (n : Nat) (st : St) (k t : Nat) (hk : k < n) (ht : t < 3)
    (hnew : st.new k = none) (hdel : st.del k t = true) :
    (flushSt n st).objs k t = none ∧ (flushSt n st).db k = none ∧ (flushSt n st).del k t = false := by
  have hany : anyDel st k = true := by
    have : t = 0 ∨ t = 1 ∨ t = 2 := by omega
    rcases this with h | h | h <;> subst h <;> simp [anyDel, tokens, hdel]
  simp [flushSt, hk, hnew, hdel, hany]

/-! ## the public entry point: autoflush -/

/-- the guard of the pre-merge `self._autoflush()` in `Session.merge`, as regenerated from
    the source, is exactly `if load:` -/
theorem merge_autoflush_guard_is_load : mergeAutoflushGuardIsLoad = true := by decide

/-- `Session.merge` runs `_merge` inside `with self.no_autoflush:` -/
theorem merge_body_under_no_autoflush : mergeBodyUnderNoAutoflush = true := by decide

theorem afGuard_true (st : St) (s : Src) : afGuard st s = true := by
  simp [afGuard, merge_autoflush_guard_is_load]

/-- **merge_autoflush_eq_flush_then_merge**: in a Session with autoflush on, merge(load=True)
    is: flush everything, then merge — whatever the Session holds for the identity -/
theorem merge_autoflush_eq_flush_then_merge (n : Nat) (st : St) (s : Src) :
    mergeAf true n true st s = merge true (flushSt n st) s := by
  simp [mergeAf, afGuard_true]

theorem merge_no_autoflush_eq_merge (n : Nat) (load : Bool) (st : St) (s : Src) :
    mergeAf false n load st s = merge load st s := by
  simp [mergeAf]

/-- **merge_noload_no_flush**: load=False never flushes, autoflush on or off: the result
    is that of `mergeNoLoad` on the unflushed state (so no SQL, by
    `merge_noload_no_sql_no_change`) -/
theorem merge_noload_no_flush (af : Bool) (n : Nat) (st : St) (s : Src) :
    mergeAf af n false st s = mergeNoLoad st s := by
  simp [mergeAf, merge]

theorem flushSt_new (n : Nat) (st : St) (k : Nat) (hk : k < n) : (flushSt n st).new k = none := by
  simp [flushSt, hk]

theorem flushSt_del (n : Nat) (st : St) (k t : Nat) (hk : k < n) : (flushSt n st).del k t = false := by
  simp [flushSt, hk]

/-- after a flush no instance carries history -/
theorem flushSt_clean (n : Nat) (st : St) (k t : Nat) (o : Obj) (hk : k < n)
    (h : (flushSt n st).objs k t = some o) : o.a.com = none ∧ o.b.com = none := by
  simp only [flushSt, hk, if_true] at h
  have key : ∀ x : Option Obj, x.map flushObj = some o → o.a.com = none ∧ o.b.com = none := by
    intro x hx
    cases x with
    | none => simp at hx
    | some y => simp only [Option.map, Option.some.injEq] at hx; subst hx; exact ⟨rfl, rfl⟩
  cases hnw : st.new k with
  | none =>
    simp only [hnw] at h
    by_cases hd : st.del k t = true
    · simp [hd] at h
    · simp only [hd, Bool.false_eq_true, if_false] at h; exact key _ h
  | some p =>
    cases t with
    | zero => simp only [hnw, Option.some.injEq] at h; subst h; exact ⟨rfl, rfl⟩
    | succ t' =>
      simp only [hnw] at h
      by_cases hd : st.del k (t' + 1) = true
      · simp [hd] at h
      · simp only [hd, Bool.false_eq_true, if_false] at h; exact key _ h

/-- merge never marks or unmarks anything for deletion -/
theorem mergeLoad_del (st : St) (s : Src) : (mergeLoad st s).1.del = st.del := by
  unfold mergeLoad
  cases st.new s.pk with
  | some _ => rfl
  | none =>
    cases st.objs s.pk s.tok with
    | some o => rfl
    | none =>
      cases st.db s.pk with
      | some r => obtain ⟨va, vb⟩ := r; rfl
      | none => rfl

/-- **merge_autoflush_result_live**: with autoflush on, the instance merge(load=True) works
    on and returns is never marked deleted — even when the Session held a deleted-marked
    instance of that identity before — and every attribute loaded on the source is on it -/
theorem merge_autoflush_result_live (n : Nat) (st : St) (s : Src) (hk : s.pk < n) :
    (∀ u, (mergeAf true n true st s).1.del s.pk u = false) ∧
    ∃ o', destOf (mergeAf true n true st s).1 s.pk s.tok = some o' ∧
      (∀ v, s.a = some v → o'.a.cur = some v) ∧ (∀ v, s.b = some v → o'.b.cur = some v) := by
  rw [merge_autoflush_eq_flush_then_merge]
  simp only [merge, if_true]
  refine ⟨fun u => by rw [mergeLoad_del]; exact flushSt_del n st s.pk u hk, ?_⟩
  obtain ⟨o', h1, h2, h3⟩ := merge_copies_loaded (flushSt n st) s (flushSt_new n st s.pk hk)
  refine ⟨o', h1, ?_, ?_⟩
  · intro v hv; rw [hv] at h2; exact h2
  · intro v hv; rw [hv] at h3; exact h3

/-- **merge_autoflush_after_delete_creates**: the Session holds the identity, marked deleted
    (`Session.delete()` not flushed): the autoflush deletes row and instance, and merge
    creates a NEW pending instance from the source — it does not copy onto the doomed one -/
theorem merge_autoflush_after_delete_creates (n : Nat) (st : St) (s : Src) (hk : s.pk < n) (ht : s.tok < 3)
    (hd : st.del s.pk s.tok = true) (hn : st.new s.pk = none) :
    (mergeAf true n true st s).2 = .merged true 0 (copyAttr unloaded s.a).cur (copyAttr unloaded s.b).cur true ∧
    (mergeAf true n true st s).1.objs s.pk s.tok = none ∧
    (mergeAf true n true st s).1.new s.pk = some ⟨copyAttr unloaded s.a, copyAttr unloaded s.b⟩ := by
  obtain ⟨h1, h2, _⟩ := flush_removes_deleted n st s.pk s.tok hk ht hn hd
  rw [merge_autoflush_eq_flush_then_merge]
  simp only [merge, if_true]
  unfold mergeLoad
  simp [flushSt_new n st s.pk hk, h1, h2]

theorem mergeLoad_hit (st1 : St) (s : Src) (o : Obj) (hn : st1.new s.pk = none)
    (ho : st1.objs s.pk s.tok = some o) :
    mergeLoad st1 s =
      ({ st1 with objs := putObj st1.objs s.pk s.tok ⟨copyAttr o.a s.a, copyAttr o.b s.b⟩ },
       outOf false s.tok ⟨copyAttr o.a s.a, copyAttr o.b s.b⟩) := by
  unfold mergeLoad
  simp only [hn, ho]

/-- **merge_autoflush_finds_pending**: the identity is pending in the Session (an earlier
    merge or `Session.add`): the autoflush makes it persistent and merge lands on THAT
    instance — no second instance: nothing is pending for the primary key afterwards, the
    result is not new, and no SELECT was needed -/
theorem merge_autoflush_finds_pending (n : Nat) (st : St) (s : Src) (p : Obj) (hk : s.pk < n) (ht : s.tok = 0)
    (hp : st.new s.pk = some p) :
    (mergeAf true n true st s).1.new s.pk = none ∧
    (mergeAf true n true st s).2 = outOf false 0 ⟨copyAttr (flushObj p).a s.a, copyAttr (flushObj p).b s.b⟩ ∧
    (mergeAf true n true st s).1.objs s.pk 0 = some ⟨copyAttr (flushObj p).a s.a, copyAttr (flushObj p).b s.b⟩ ∧
    (mergeAf true n true st s).1.sql = st.sql := by
  have ho : (flushSt n st).objs s.pk 0 = some (flushObj p) := by simp [flushSt, hk, hp]
  rw [merge_autoflush_eq_flush_then_merge]
  simp only [merge, if_true]
  rw [mergeLoad_hit (flushSt n st) s (flushObj p) (flushSt_new n st s.pk hk) (by rw [ht]; exact ho)]
  refine ⟨flushSt_new n st s.pk hk, by rw [ht], by simp [putObj, ht], rfl⟩

/-! ### the merged state reaches the database -/

theorem netChange_clean (x : Attr) (h : x.com = none) : x.netChange = false := by
  simp [Attr.netChange, h]

theorem rowAfter_clean (o : Obj) (row : Option (Int × Int)) (ha : o.a.com = none) (hb : o.b.com = none) :
    rowAfter o row = row := by
  cases row with
  | none => rfl
  | some r => simp [rowAfter, netChange_clean _ ha, netChange_clean _ hb]

/-- one instance's UPDATE in the flush of a row -/
def rowStep (st : St) (k : Nat) (row : Option (Int × Int)) (t : Nat) : Option (Int × Int) :=
  match st.objs k t with
  | some o => rowAfter o row
  | none => row

theorem rowFlush_eq (st : St) (k : Nat) :
    rowFlush st k = rowStep st k (rowStep st k (rowStep st k (st.db k) 0) 1) 2 := rfl

/-- the UPDATEs of one row when at most the instance under token `t` carries history -/
theorem rowFlush_single (st : St) (k t : Nat) (ht : t < 3)
    (hclean : ∀ u o, u ≠ t → st.objs k u = some o → o.a.com = none ∧ o.b.com = none) :
    rowFlush st k = rowStep st k (st.db k) t := by
  have other : ∀ u, u ≠ t → ∀ row, rowStep st k row u = row := by
    intro u hu row
    unfold rowStep
    cases h : st.objs k u with
    | none => rfl
    | some o => exact rowAfter_clean o row (hclean u o hu h).1 (hclean u o hu h).2
  have : t = 0 ∨ t = 1 ∨ t = 2 := by omega
  rw [rowFlush_eq]
  rcases this with h | h | h <;> subst h
  · rw [other 2 (by decide), other 1 (by decide)]
  · rw [other 2 (by decide), other 0 (by decide)]
  · rw [other 0 (by decide), other 1 (by decide)]

/-- what one attribute contributes to the row at the flush after merge: the source's value -/
theorem persisted_attr (x : Attr) (hx : x.com = none) (rv v : Int) (hs : ∀ w, x.cur = some w → rv = w) :
    ((if (copyAttr x (some v)).netChange then (copyAttr x (some v)).cur else some rv).getD 0) = v := by
  simp only [copyAttr, setAttr, hx, Attr.netChange]
  cases hc : x.cur with
  | none => simp
  | some w =>
    have := hs w hc
    subst this
    by_cases hw : rv = v
    · subst hw; simp
    · simp [hw]

/-- the Session's instance mirrors its row: the row exists and every loaded attribute of
    the (history-free) instance equals it.  True for instances this Session loaded or
    flushed; not for instances stamped by merge(load=False), which asserts without looking. -/
def SyncedRow (o : Obj) (row : Option (Int × Int)) : Prop :=
  ∃ r, row = some r ∧ (∀ v, o.a.cur = some v → r.1 = v) ∧ (∀ v, o.b.cur = some v → r.2 = v)

/-- core: merge into a just-flushed state, then flush -/
theorem merge_then_flush_row (n : Nat) (st1 : St) (s : Src) (hk : s.pk < n) (ht : s.tok < 3)
    (hnew : st1.new s.pk = none) (hdel : ∀ u, st1.del s.pk u = false)
    (hclean : ∀ u o, st1.objs s.pk u = some o → o.a.com = none ∧ o.b.com = none)
    (hsync : ∀ o, st1.objs s.pk s.tok = some o → SyncedRow o (st1.db s.pk)) :
    ∃ r, (flushSt n (mergeLoad st1 s).1).db s.pk = some r ∧
      (∀ v, s.a = some v → r.1 = v) ∧ (∀ v, s.b = some v → r.2 = v) := by
  have hany : ∀ (db : Nat → Option (Int × Int)) (objs : Nat → Nat → Option Obj) (q : Nat),
      anyDel ⟨db, objs, st1.new, st1.del, q⟩ s.pk = false := by
    intro _ _ _; simp [anyDel, tokens, hdel]
  unfold mergeLoad
  simp only [hnew]
  cases ho : st1.objs s.pk s.tok with
  | some o =>
    obtain ⟨r, hr, sa, sb⟩ := hsync o ho
    obtain ⟨ca, cb⟩ := hclean s.tok o ho
    simp only [flushSt, hk, if_true, hnew, hany, Bool.false_eq_true, if_false]
    rw [rowFlush_single _ s.pk s.tok ht (by
      intro u o2 hu h2
      simp only [putObj, hu, and_false, if_false] at h2
      exact hclean u o2 h2)]
    simp only [rowStep, putObj_same, hr, rowAfter]
    refine ⟨_, rfl, ?_, ?_⟩
    · intro v hv; rw [hv]; exact persisted_attr o.a ca r.1 v sa
    · intro v hv; rw [hv]; exact persisted_attr o.b cb r.2 v sb
  | none =>
    cases hr : st1.db s.pk with
    | some r =>
      obtain ⟨va, vb⟩ := r
      simp only [flushSt, hk, if_true, hnew, hany, Bool.false_eq_true, if_false]
      rw [rowFlush_single _ s.pk s.tok ht (by
        intro u o2 hu h2
        simp only [putObj, hu, and_false, if_false] at h2
        exact hclean u o2 h2)]
      simp only [rowStep, putObj_same, hr, rowAfter]
      refine ⟨_, rfl, ?_, ?_⟩
      · intro v hv; rw [hv]; exact persisted_attr (loaded va) rfl va v (by intro w hw; simpa [loaded] using hw)
      · intro v hv; rw [hv]; exact persisted_attr (loaded vb) rfl vb v (by intro w hw; simpa [loaded] using hw)
    | none =>
      simp only [flushSt, hk, if_true]
      refine ⟨_, rfl, ?_, ?_⟩
      · intro v hv; rw [hv]; rfl
      · intro v hv; rw [hv]; rfl

/-- **merge_autoflush_persisted**: with autoflush on, after merge(load=True) and the next
    flush the row of the source's identity EXISTS and carries every attribute loaded on the
    source — whatever was pending in the Session before (deletes, pending instances,
    modifications).  Hypothesis: if after the autoflush the Session still holds the identity,
    that instance mirrors its row (`SyncedRow`; false only after a load=False stamp, which
    the harness excludes in the same way).
    Full statement without the hypothesis is false: see `merge_persisted_needs_sync_counterexample`. -/
theorem merge_autoflush_persisted (n : Nat) (st : St) (s : Src) (hk : s.pk < n) (ht : s.tok < 3)
    (hsync : ∀ o, (flushSt n st).objs s.pk s.tok = some o → SyncedRow o ((flushSt n st).db s.pk)) :
    ∃ r, (flushSt n (mergeAf true n true st s).1).db s.pk = some r ∧
      (∀ v, s.a = some v → r.1 = v) ∧ (∀ v, s.b = some v → r.2 = v) := by
  rw [merge_autoflush_eq_flush_then_merge]
  simp only [merge, if_true]
  exact merge_then_flush_row n (flushSt n st) s hk ht (flushSt_new n st s.pk hk)
    (fun u => flushSt_del n st s.pk u hk) (fun u o h => flushSt_clean n st s.pk u o hk h) hsync

/-- an instance stamped by load=False with a value the row does not have (row a = 1,
    instance a = 5, no history): merging a = 5 is no net change, the row keeps 1 -/
theorem merge_persisted_needs_sync_counterexample :
    ∃ (st : St) (s : Src), s.pk < 1 ∧ s.tok < 3 ∧ s.a = some 5 ∧
      (flushSt 1 (mergeAf true 1 true st s).1).db s.pk = some (1, 2) := by
  refine ⟨(mergeNoLoad (run true 1 St.init [.insert 0 1 2]) ⟨0, 0, some 5, none, true, false⟩).1,
          ⟨0, 0, some 5, none, true, false⟩, by decide, by decide, rfl, by decide⟩

/-- **merge_autoflush_persisted_after_delete**: the identity was marked deleted: no
    hypothesis needed, the merged state is re-created and reaches the database -/
theorem merge_autoflush_persisted_after_delete (n : Nat) (st : St) (s : Src) (hk : s.pk < n) (ht : s.tok < 3)
    (hd : st.del s.pk s.tok = true) (hn : st.new s.pk = none) :
    ∃ r, (flushSt n (mergeAf true n true st s).1).db s.pk = some r ∧
      (∀ v, s.a = some v → r.1 = v) ∧ (∀ v, s.b = some v → r.2 = v) := by
  apply merge_autoflush_persisted n st s hk ht
  intro o ho
  rw [(flush_removes_deleted n st s.pk s.tok hk ht hn hd).1] at ho
  cases ho

/-- **merge_autoflush_persisted_pending**: the identity was pending: likewise -/
theorem merge_autoflush_persisted_pending (n : Nat) (st : St) (s : Src) (p : Obj) (hk : s.pk < n) (ht : s.tok = 0)
    (hp : st.new s.pk = some p) :
    ∃ r, (flushSt n (mergeAf true n true st s).1).db s.pk = some r ∧
      (∀ v, s.a = some v → r.1 = v) ∧ (∀ v, s.b = some v → r.2 = v) := by
  apply merge_autoflush_persisted n st s hk (by omega)
  intro o ho
  have h0 : (flushSt n st).objs s.pk s.tok = some (flushObj p) := by simp [flushSt, hk, hp, ht]
  rw [h0] at ho
  cases ho
  refine ⟨((p.a.cur).getD 0, (p.b.cur).getD 0), by simp [flushSt, hk, hp], ?_, ?_⟩
  · intro v hv; simp only [flushObj] at hv; simp [hv]
  · intro v hv; simp only [flushObj] at hv; simp [hv]

/-! ## non-vacuity -/

/-- partial source onto a loaded, modified object: loaded attribute copied, the other
    one (pending value 11) kept; second merge changes nothing -/
example :
    let st := run false 1 St.init [.insert 0 1 2, .load 0 0, .set 0 0 true 11]
    let s : Src := ⟨0, 0, some 5, none, true, false⟩
    (mergeLoad st s).2 = .merged false 0 (some 5) (some 11) true ∧
    (mergeLoad (mergeLoad st s).1 s).2 = .merged false 0 (some 5) (some 11) true ∧
    ((mergeLoad st s).1.objs 0 0).isSome = true := by decide

/-- load=False on an identity the Session does not hold: new persistent instance, no SQL -/
example :
    let st := run false 1 St.init [.insert 0 1 2]
    (mergeNoLoad st ⟨0, 0, some 5, none, true, false⟩).2 = .merged true 0 (some 5) none false ∧
    (mergeNoLoad st ⟨0, 0, some 5, none, true, false⟩).1.sql = st.sql := by decide

/-- a source whose key carries identity token 1, Session holds only the token-less instance:
    a second instance (pk 0, token 1) is loaded and returned, the other one is untouched -/
example :
    let st := run false 1 St.init [.insert 0 1 2, .load 0 0]
    let s : Src := ⟨0, 1, some 5, none, true, false⟩
    (mergeLoad st s).2 = .merged false 1 (some 5) (some 2) true ∧
    ((mergeLoad st s).1.objs 0 0).map (·.a.cur) = some (some 1) := by decide

/-- pending `Session.delete()` of the identity, autoflush on: merge returns a NEW pending
    instance carrying the source's state, not marked deleted, and after the flush the row is
    the merged one.  With autoflush off (documented) the doomed instance is returned, still
    marked, and the flush deletes the row. -/
example :
    let st := run true 1 St.init [.insert 0 1 2, .load 0 0, .del 0 0]
    let s : Src := ⟨0, 0, some 5, none, true, false⟩
    st.del 0 0 = true ∧ st.new 0 = none ∧
    (mergeAf true 1 true st s).2 = .merged true 0 (some 5) none true ∧
    (mergeAf true 1 true st s).1.del 0 0 = false ∧
    (flushSt 1 (mergeAf true 1 true st s).1).db 0 = some (5, 0) ∧
    (mergeAf false 1 true st s).2 = .merged false 0 (some 5) (some 2) true ∧
    (mergeAf false 1 true st s).1.del 0 0 = true ∧
    (flushSt 1 (mergeAf false 1 true st s).1).db 0 = none := by decide

/-- the identity is pending (merged before, no row), autoflush on: the second merge lands on
    it — nothing pending afterwards, not new, no SELECT; `SyncedRow` holds after the flush -/
example :
    let st := run true 1 St.init [.merge true ⟨0, 0, some 5, none, false, false⟩]
    let s : Src := ⟨0, 0, none, some 7, false, false⟩
    (st.new 0).isSome = true ∧
    (mergeAf true 1 true st s).2 = .merged false 0 (some 5) (some 7) true ∧
    (mergeAf true 1 true st s).1.new 0 = none ∧
    (mergeAf true 1 true st s).1.sql = st.sql ∧
    (flushSt 1 (mergeAf true 1 true st s).1).db 0 = some (5, 7) := by decide

/-- `SyncedRow` is satisfiable by a loaded-and-modified instance: the autoflush writes the
    modification, the instance then mirrors its row -/
example :
    let st := run true 1 St.init [.insert 0 1 2, .load 0 0, .set 0 0 true 11]
    ∀ o, (flushSt 1 st).objs 0 0 = some o → SyncedRow o ((flushSt 1 st).db 0) := by
  intro st o ho
  have h : (flushSt 1 st).objs 0 0 = some ⟨⟨some 1, none⟩, ⟨some 11, none⟩⟩ := by decide
  rw [h] at ho
  cases ho
  exact ⟨(1, 11), by decide, by intro v hv; cases hv; rfl, by intro v hv; cases hv; rfl⟩

/-- load=False in an autoflush Session, pending delete present: nothing is flushed -/
example :
    let st := run true 1 St.init [.insert 0 1 2, .load 0 0, .del 0 0]
    (mergeAf true 1 false st ⟨0, 0, some 5, none, true, false⟩).1.del 0 0 = true ∧
    (mergeAf true 1 false st ⟨0, 0, some 5, none, true, false⟩).1.db 0 = some (1, 2) := by decide

end SaVerif.Props.C45
