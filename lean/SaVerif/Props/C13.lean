import SaVerif.Lemmas.Defaults
/-!
# C13 — Column defaults and onupdate fire exactly when the value is omitted

Property theorems about the default-firing model (`SaVerif/Model/Defaults.lean`,
transcription of `crud._scan_cols` dispositions and
`DefaultExecutionContext._process_execute_defaults`).

The full statement ("for every executemany, every row, every column: the default is
applied iff that row omits the column, a supplied value is never overridden") is FALSE
of the code and of the model: the statement is compiled for the keys of the *first*
parameter set and the prefetch defaults are then assigned into *every* parameter set
(finding F16).  What is proved:

* `default_fires_iff_omitted_partial` — the full statement under the forced hypothesis
  that all parameter sets have the first set's keys (always true for a single execute);
* `default_fires_iff_omitted_single` — the unconditional statement for one parameter set;
* `default_fires_counterexample` — the negation of the full statement, concrete witness;
* the UPDATE/onupdate analogues.
-/
namespace SaVerif.Props.C13
open SaVerif.Defaults

/-- all parameter sets mention exactly the keys of the first one, and have one slot per
    column -/
def Homogeneous (ncols : Nat) (ps : List Params) : Prop :=
  ∀ p ∈ ps, p.length = ncols ∧ keysOf p = keysOf (ps.headD [])

theorem keysOf_getElem? (p : Params) (c : Nat) : (keysOf p)[c]? = (p[c]?).map Option.isSome := by
  simp [keysOf]

/-- rows of one execution, the invariant of the loop over `compiled_parameters` -/
theorem runRows_update_spec (kinds : List Kind) (keys : List Bool) (hk : keys.length = kinds.length) :
    ∀ (ps : List Params) (olds : List (List Val)) (counts : List Nat),
      counts.length = kinds.length → olds.length = ps.length →
      (∀ p ∈ ps, p.length = kinds.length ∧ keysOf p = keys) →
      (∀ o ∈ olds, o.length = kinds.length) →
      ∃ curs counts', runRows kinds (disps kinds keys) counts ps = .ok (curs, counts') ∧
        curs.length = ps.length ∧ counts'.length = kinds.length ∧
        (∀ c (_ : c < kinds.length),
          counts'.getD c 0 = counts.getD c 0 + ps.length * expectInc kinds[c] (keys.getD c false)) ∧
        (∀ i (_ : i < ps.length) c (_ : c < kinds.length), ∃ x,
          (storeUpdate (kinds.zip (disps kinds keys)) (curs.getD i []) (olds.getD i []))[c]? =
            some (expectCellU kinds[c] (keys.getD c false) ((ps.getD i []).getD c none)
              (counts.getD c 0 + i * expectInc kinds[c] (keys.getD c false)) x
              ((olds.getD i []).getD c none))) := by
  intro ps
  induction ps with
  | nil =>
    intro olds counts hc _ _ _
    exact ⟨[], counts, rfl, rfl, hc, fun c _ => by simp, fun i hi => by simp at hi⟩
  | cons p ps ih =>
    intro olds counts hc hol hps hos
    cases olds with
    | nil => simp at hol
    | cons o olds' =>
    obtain ⟨hpl, hpk⟩ := hps p List.mem_cons_self
    have hpres : ∀ (c : Nat), keys[c]? = some true → ∃ v : Val, p[c]? = some (some v) := by
      intro c h
      rw [← hpk, keysOf_getElem?] at h
      cases hpc : p[c]? with
      | none => rw [hpc] at h; simp at h
      | some pv =>
        rw [hpc] at h
        cases pv with
        | none => simp at h
        | some v => exact ⟨v, rfl⟩
    have hol0 : o.length = kinds.length := hos o List.mem_cons_self
    obtain ⟨cur, hcons, hl2, hl1, hall⟩ :=
      row_update_pos kinds keys p counts [] o hk hpl hc hol0 hpres
    obtain ⟨curs, counts', hrun, hlen, hcl, hcnt, hrows⟩ :=
      ih olds' (fireFrom (kinds.zip (disps kinds keys)) [] cur counts).2 hl2
        (by simpa using hol) (fun q hq => hps q (List.mem_cons_of_mem _ hq))
        (fun q hq => hos q (List.mem_cons_of_mem _ hq))
    refine ⟨(fireFrom (kinds.zip (disps kinds keys)) [] cur counts).1 :: curs, counts', ?_, ?_, hcl, ?_, ?_⟩
    · simp only [runRows, rowParams, hcons, hrun]
    · simp [hlen]
    · intro c hcc
      obtain ⟨_, _, h2⟩ := hall c hcc
      have h2' : (fireFrom (kinds.zip (disps kinds keys)) [] cur counts).2.getD c 0
          = counts.getD c 0 + expectInc kinds[c] (keys.getD c false) := by
        rw [List.getD_eq_getElem?_getD, h2]; rfl
      rw [hcnt c hcc, h2', List.length_cons, Nat.succ_mul]
      omega
    · intro i hi c hcc
      cases i with
      | zero =>
        obtain ⟨x, h1, _⟩ := hall c hcc
        exact ⟨x, by simpa using h1⟩
      | succ j =>
        obtain ⟨x, h1⟩ := hrows j (by simpa using hi) c hcc
        obtain ⟨_, _, h2⟩ := hall c hcc
        have h2' : (fireFrom (kinds.zip (disps kinds keys)) [] cur counts).2.getD c 0
            = counts.getD c 0 + expectInc kinds[c] (keys.getD c false) := by
          rw [List.getD_eq_getElem?_getD, h2]; rfl
        refine ⟨x, ?_⟩
        simp only [List.getD_cons_succ]
        rw [h1, h2', Nat.succ_mul]
        congr 2
        omega

/-- INSERT is the update of the virtual row holding the server defaults -/
def serverRow (kinds : List Kind) : List Val :=
  kinds.map (fun k => match k with | .server v => some v | _ => none)

theorem storeInsert_eq_storeUpdate :
    ∀ (kz : List (Kind × Disp)) (cur : List (Option Val)),
      (∀ kd ∈ kz, kd.2 = .inline → ∃ v, kd.1 = .sqlexpr v) →
      storeInsert kz cur = storeUpdate kz cur (serverRow (kz.map (·.1))) := by
  intro kz
  induction kz with
  | nil => intro _ _; rfl
  | cons kd rest ih =>
    intro cur h
    obtain ⟨k, d⟩ := kd
    have := ih cur.tail (fun x hx => h x (List.mem_cons_of_mem _ hx))
    simp only [storeInsert, storeUpdate, serverRow, List.map_cons, List.headD_cons, List.tail_cons]
    simp only [serverRow] at this
    rw [this]
    congr 1
    cases d with
    | bound => rfl
    | prefetch => rfl
    | inline =>
      obtain ⟨v, hv⟩ := h (k, .inline) List.mem_cons_self rfl
      simp only at hv
      subst hv; rfl
    | omitted => cases k <;> rfl

theorem disps_inline (kinds : List Kind) (keys : List Bool) :
    ∀ kd ∈ kinds.zip (disps kinds keys), kd.2 = .inline → ∃ v, kd.1 = .sqlexpr v := by
  induction kinds generalizing keys with
  | nil => intro kd h; simp at h
  | cons k ks ih =>
    cases keys with
    | nil => intro kd h; simp [disps] at h
    | cons key keys' =>
      intro kd h hd
      simp only [disps, List.zipWith_cons_cons, List.zip_cons_cons, List.mem_cons] at h
      rcases h with rfl | h
      · simp only [dispOf] at hd
        cases key <;> cases k <;> simp_all
      · exact ih keys' kd h hd

/-! ## INSERT -/

/-- value the property demands in cell `(i, c)` of an INSERT: the supplied value
    (including NULL) when the row supplies the column, the column's default otherwise -/
def wantInsert (k : Kind) (pv : Option Val) (i : Nat) (x : Int) : Val :=
  match pv with
  | some v => v
  | none => defaultValue k i x

/-- **default_fires_iff_omitted_partial** (INSERT, single or executemany): under the
    forced hypothesis that every parameter set has the first set's keys,
    * the execution raises nothing,
    * every cell holds the supplied value if the row supplies the column (NULL included:
      **supplied_none_kept**) and the default otherwise (`callable b` returns `b + i` in
      row `i`, i.e. it has run exactly once for each earlier row),
    * each column's Python callable ran exactly once per row if the column is omitted and
      never if it is supplied. -/
theorem default_fires_iff_omitted_partial (kinds : List Kind) (ps : List Params)
    (hne : ps ≠ []) (hhom : Homogeneous kinds.length ps) :
    ∃ rows counts, execInsert kinds ps = .ok (rows, counts) ∧ rows.length = ps.length ∧
      (∀ i (_ : i < ps.length) c (_ : c < kinds.length), ∃ x,
        (rows.getD i [])[c]? = some (wantInsert kinds[c] ((ps.getD i []).getD c none) i x)) ∧
      (∀ c (_ : c < kinds.length),
        counts.getD c 0 = ps.length * expectInc kinds[c] ((keysOf (ps.headD [])).getD c false)) := by
  have hk : (keysOf (ps.headD [])).length = kinds.length := by
    cases ps with
    | nil => exact absurd rfl hne
    | cons p rest => simp [keysOf, (hhom p List.mem_cons_self).1]
  obtain ⟨curs, counts', hrun, hlen, _, hcnt, hrows⟩ :=
    runRows_update_spec kinds (keysOf (ps.headD [])) hk ps (ps.map (fun _ => serverRow kinds))
      (kinds.map (fun _ => 0)) (by simp) (by simp) hhom
      (by intro o ho; obtain ⟨_, _, rfl⟩ := List.mem_map.1 ho; simp [serverRow])
  refine ⟨curs.map (storeInsert (kinds.zip (disps kinds (keysOf (ps.headD []))))), counts', ?_, by simp [hlen], ?_, ?_⟩
  · simp only [execInsert, hrun]
  · intro i hi c hc
    obtain ⟨x, h⟩ := hrows i hi c hc
    refine ⟨x, ?_⟩
    have hi' : i < curs.length := by omega
    have e1 : (curs.map (storeInsert (kinds.zip (disps kinds (keysOf (ps.headD [])))))).getD i []
        = storeInsert (kinds.zip (disps kinds (keysOf (ps.headD [])))) (curs.getD i []) := by
      simp [List.getD_eq_getElem?_getD, List.getElem?_eq_getElem hi']
    rw [e1, storeInsert_eq_storeUpdate _ _ (disps_inline kinds _)]
    have e2 : (kinds.zip (disps kinds (keysOf (ps.headD [])))).map (·.1) = kinds := by
      apply List.map_fst_zip
      rw [disps, List.length_zipWith, hk, Nat.min_self]
      exact Nat.le_refl _
    have e3 : (ps.map (fun _ => serverRow kinds)).getD i [] = serverRow kinds := by
      simp [List.getD_eq_getElem?_getD, List.getElem?_eq_getElem hi]
    rw [e2, ← e3, h]
    congr 1
    -- the key mask agrees with this row's own keys (homogeneity)
    have hp := hhom (ps.getD i []) (by
      rw [List.getD_eq_getElem?_getD, List.getElem?_eq_getElem hi]; exact List.getElem_mem hi)
    have hkey : (keysOf (ps.headD [])).getD c false = (((ps.getD i []).getD c none)).isSome := by
      rw [← hp.2]
      simp only [keysOf, List.getD_eq_getElem?_getD, List.getElem?_map]
      cases (ps[i]?.getD [])[c]? <;> simp
    unfold expectCellU wantInsert
    rw [hkey]
    cases hpv : (ps.getD i []).getD c none with
    | some v => simp
    | none =>
      simp only [Option.isSome_none, Bool.false_eq_true, ↓reduceIte, Nat.zero_add]
      have hs : (serverRow kinds).getD c none = (match kinds[c] with | .server v => some v | _ => none) := by
        simp [serverRow, List.getD_eq_getElem?_getD, List.getElem?_eq_getElem hc]
      rw [e3, hs]
      cases hkc : kinds[c] <;> simp [defaultValue, expectInc, List.getElem?_eq_getElem hc]
  · intro c hc
    have := hcnt c hc
    simpa [List.getD_eq_getElem?_getD, List.getElem?_eq_getElem hc] using this

/-- **default_fires_iff_omitted_single**: for ONE parameter set the statement holds with
    no hypothesis on the keys at all. -/
theorem default_fires_iff_omitted_single (kinds : List Kind) (p : Params)
    (hlen : p.length = kinds.length) :
    ∃ row counts, execInsert kinds [p] = .ok ([row], counts) ∧
      (∀ c (_ : c < kinds.length), ∃ x,
        row[c]? = some (wantInsert kinds[c] (p.getD c none) 0 x)) ∧
      (∀ c (_ : c < kinds.length),
        counts.getD c 0 = expectInc kinds[c] ((p.getD c none).isSome)) := by
  have hhom : Homogeneous kinds.length [p] := by
    intro q hq
    simp only [List.mem_singleton] at hq
    subst hq
    exact ⟨hlen, rfl⟩
  obtain ⟨rows, counts, hexec, hl, hcells, hcnt⟩ :=
    default_fires_iff_omitted_partial kinds [p] (by simp) hhom
  cases rows with
  | nil => simp at hl
  | cons row rest =>
    cases rest with
    | cons _ _ => simp at hl
    | nil =>
      refine ⟨row, counts, hexec, ?_, ?_⟩
      · intro c hc
        obtain ⟨x, h⟩ := hcells 0 (by simp) c hc
        exact ⟨x, by simpa using h⟩
      · intro c hc
        have := hcnt c hc
        have hcl : c < p.length := by omega
        simpa [keysOf, List.getD_eq_getElem?_getD, List.getElem?_eq_getElem hcl] using this

/-- **supplied_none_kept**: an explicitly supplied NULL is stored as NULL whatever the
    column's default (under the same hypothesis). -/
theorem supplied_none_kept (kinds : List Kind) (ps : List Params)
    (hne : ps ≠ []) (hhom : Homogeneous kinds.length ps)
    (i c : Nat) (hi : i < ps.length) (hc : c < kinds.length)
    (hnull : (ps.getD i []).getD c none = some none) :
    ∃ rows counts, execInsert kinds ps = .ok (rows, counts) ∧ (rows.getD i [])[c]? = some none := by
  obtain ⟨rows, counts, hexec, _, hcells, _⟩ := default_fires_iff_omitted_partial kinds ps hne hhom
  obtain ⟨x, h⟩ := hcells i hi c hc
  exact ⟨rows, counts, hexec, by rw [h, hnull]; rfl⟩

/-- **default_fires_counterexample** (F16): the hypothesis is needed.  Column 1 has the
    scalar default 7; the first parameter set omits it, the second supplies 5 — and 7 is
    stored for the second row: a supplied value is overridden. -/
theorem default_fires_counterexample :
    ∃ (kinds : List Kind) (ps : List Params) (rows : List (List Val)) (counts : List Nat),
      execInsert kinds ps = .ok (rows, counts) ∧
      (ps.getD 1 []).getD 1 none = some (some 5) ∧ (rows.getD 1 []).getD 1 none = some 7 :=
  ⟨[.none, .scalar 7], [[some (some 1), none], [some (some 2), some (some 5)]],
    [[some 1, some 7], [some 2, some 7]], [0, 0], by decide, rfl, rfl⟩

/-- the reverse order is not silent: the later set lacks a key of the statement -/
theorem later_omission_raises :
    execInsert [.none, .scalar 7] [[some (some 1), some (some 5)], [some (some 2), none]]
      = .error .valueRequired := by decide

/-! ## UPDATE / onupdate -/

def wantUpdate (k : Kind) (pv : Option Val) (i : Nat) (x : Int) (old : Val) : Val :=
  match pv with
  | some v => v
  | none =>
    match k with
    | .none | .server _ => old
    | _ => defaultValue k i x

/-- **onupdate_fires_iff_omitted_partial**: same statement for UPDATE — a column in the
    SET parameters keeps the supplied value (NULL included); a column left out gets its
    onupdate value (Python scalar / callable / context / SQL expression) or, with no
    onupdate, keeps its old value; callables run once per row exactly when omitted. -/
theorem onupdate_fires_iff_omitted_partial (onupd : List Kind) (ps : List Params)
    (olds : List (List Val)) (hne : ps ≠ []) (hhom : Homogeneous onupd.length ps)
    (hol : olds.length = ps.length) (hos : ∀ o ∈ olds, o.length = onupd.length) :
    ∃ rows counts, execUpdate onupd ps olds = .ok (rows, counts) ∧
      (∀ i (_ : i < ps.length) c (_ : c < onupd.length), ∃ x,
        (rows.getD i [])[c]? =
          some (wantUpdate onupd[c] ((ps.getD i []).getD c none) i x ((olds.getD i []).getD c none))) ∧
      (∀ c (_ : c < onupd.length),
        counts.getD c 0 = ps.length * expectInc onupd[c] ((keysOf (ps.headD [])).getD c false)) := by
  have hk : (keysOf (ps.headD [])).length = onupd.length := by
    cases ps with
    | nil => exact absurd rfl hne
    | cons p rest => simp [keysOf, (hhom p List.mem_cons_self).1]
  obtain ⟨curs, counts', hrun, hlen, _, hcnt, hrows⟩ :=
    runRows_update_spec onupd (keysOf (ps.headD [])) hk ps olds
      (onupd.map (fun _ => 0)) (by simp) hol hhom hos
  refine ⟨List.zipWith (storeUpdate (onupd.zip (disps onupd (keysOf (ps.headD []))))) curs olds,
    counts', ?_, ?_, ?_⟩
  · simp only [execUpdate, hrun]
  · intro i hi c hc
    obtain ⟨x, h⟩ := hrows i hi c hc
    refine ⟨x, ?_⟩
    have hi1 : i < curs.length := by omega
    have hi2 : i < olds.length := by omega
    have e1 : (List.zipWith (storeUpdate (onupd.zip (disps onupd (keysOf (ps.headD []))))) curs olds).getD i []
        = storeUpdate (onupd.zip (disps onupd (keysOf (ps.headD [])))) (curs.getD i []) (olds.getD i []) := by
      simp [List.getD_eq_getElem?_getD, List.getElem?_zipWith, List.getElem?_eq_getElem hi1,
        List.getElem?_eq_getElem hi2]
    rw [e1, h]
    congr 1
    have hp := hhom (ps.getD i []) (by
      rw [List.getD_eq_getElem?_getD, List.getElem?_eq_getElem hi]; exact List.getElem_mem hi)
    have hkey : (keysOf (ps.headD [])).getD c false = (((ps.getD i []).getD c none)).isSome := by
      rw [← hp.2]
      simp only [keysOf, List.getD_eq_getElem?_getD, List.getElem?_map]
      cases (ps[i]?.getD [])[c]? <;> simp
    unfold expectCellU wantUpdate
    rw [hkey]
    cases hpv : (ps.getD i []).getD c none with
    | some v => simp
    | none =>
      simp only [Option.isSome_none, Bool.false_eq_true, ↓reduceIte, Nat.zero_add]
      cases hkc : onupd[c] <;> simp [defaultValue, expectInc, List.getElem?_eq_getElem hc]
  · intro c hc
    have := hcnt c hc
    simpa [List.getD_eq_getElem?_getD, List.getElem?_eq_getElem hc] using this

/-- F16 for UPDATE: the second parameter set supplies column 1 (onupdate scalar 70), the
    first does not — 70 is stored over the supplied 5 -/
theorem onupdate_fires_counterexample :
    execUpdate [.none, .scalar 70] [[some (some 1), none], [some (some 2), some (some 5)]]
        [[some 0, some 0], [some 0, some 0]]
      = .ok ([[some 1, some 70], [some 2, some 70]], [0, 0]) := by decide

/-! ## non-vacuity -/

example : execInsert [.none, .scalar 7, .callable 100, .context 0 1000, .sqlexpr 9, .server 3]
    [[some (some 1), none, none, none, none, none], [some none, none, none, none, none, none]]
    = .ok ([[some 1, some 7, some 100, some 1001, some 9, some 3],
            [none, some 7, some 101, some 1000, some 9, some 3]], [0, 0, 2, 2, 0, 0]) := by decide
example : execInsert [.scalar 7, .callable 100] [[some none, some (some 4)]]
    = .ok ([[none, some 4]], [0, 0]) := by decide
example : Homogeneous 2 [[some (some 1), none], [some none, none]] := by
  intro p hp
  simp only [List.mem_cons, List.not_mem_nil, or_false] at hp
  rcases hp with rfl | rfl <;> exact ⟨rfl, rfl⟩

end SaVerif.Props.C13
