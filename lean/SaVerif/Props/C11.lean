import SaVerif.Model.RowKeys
/-!
# C11 — Row lookup by column expression returns that expression's value

Theorems about M-ROWKEYS (`SaVerif/Model/RowKeys.lean`, transcription of the keymap
construction in `CursorResultMetaData.__init__`).  A *record* is one result position; it
*carries* a key when the key is its rendered name or one of its MD_OBJECTS (column
objects, labels, alternative names).  All statements are for arbitrary record lists.
-/
namespace SaVerif.Props.C11
open SaVerif.RowKeys

theorem lastIdx_some {p : Rec → Bool} {raw : List Rec} {i : Nat} (h : lastIdx p raw = some i) :
    ∃ r ∈ raw, p r = true ∧ r.idx = i := by
  unfold lastIdx at h
  cases hf : raw.reverse.find? p with
  | none => simp [hf] at h
  | some r =>
    simp only [hf, Option.map_some, Option.some.injEq] at h
    exact ⟨r, by simpa using List.mem_of_find?_eq_some hf, List.find?_some hf, h⟩

theorem lastIdx_none {p : Rec → Bool} {raw : List Rec} (h : lastIdx p raw = none) :
    ∀ r ∈ raw, p r = false := by
  unfold lastIdx at h
  intro r hr
  cases hf : raw.reverse.find? p with
  | some x => simp [hf] at h
  | none =>
    have := List.find?_eq_none.1 hf r (by simpa using hr)
    simpa using this

theorem byNameThenObjects_found {raw : List Rec} {k : Key} {i : Nat}
    (h : byNameThenObjects raw k = .found i) :
    ∃ r ∈ raw, r.idx = i ∧ (r.name = k ∨ k ∈ r.objects) := by
  unfold byNameThenObjects at h
  cases h1 : lastIdx (fun r => r.name == k) raw with
  | some j =>
    simp only [h1, Look.found.injEq] at h
    obtain ⟨r, hr, hp, hi⟩ := lastIdx_some h1
    exact ⟨r, hr, by rw [hi, h], Or.inl (by simpa using hp)⟩
  | none =>
    rw [h1] at h
    cases h2 : lastIdx (fun r => r.objects.contains k) raw with
    | some j =>
      rw [h2] at h
      injection h with h
      obtain ⟨r, hr, hp, hi⟩ := lastIdx_some h2
      exact ⟨r, hr, by rw [hi, h], Or.inr (by simpa using hp)⟩
    | none => rw [h2] at h; cases h

/-- **found_carries**: a successful lookup lands on a record that has the key as its
    primary name or among its objects — never on an unrelated position -/
theorem found_carries (raw : List Rec) (numCtx : Nat) (k : Key) (i : Nat)
    (h : lookup raw numCtx k = .found i) :
    ∃ r ∈ raw, r.idx = i ∧ (r.name = k ∨ k ∈ r.objects) := by
  unfold lookup at h
  split at h
  · cases h1 : lastIdx (fun r => r.name == k) raw with
    | some j =>
      simp only [h1, Look.found.injEq] at h
      obtain ⟨r, hr, hp, hi⟩ := lastIdx_some h1
      exact ⟨r, hr, by rw [hi, h], Or.inl (by simpa using hp)⟩
    | none => simp [h1] at h
  · split at h
    · split at h
      · cases h
      · exact byNameThenObjects_found h
    · exact byNameThenObjects_found h

theorem isDupe_true {raw : List Rec} {k : Key} {r r' : Rec} (hr : r ∈ raw) (hr' : r' ∈ raw)
    (hk : k ∈ carried r) (hk' : k ∈ carried r') (hne : r.idx ≠ r'.idx) : isDupe raw k = true := by
  unfold isDupe
  simp only [List.any_eq_true, Bool.and_eq_true, List.contains_eq_mem, decide_eq_true_eq, bne_iff_ne, ne_eq]
  exact ⟨r, hr, hk, r', hr', hk', fun h => hne h.symm⟩

theorem isDupe_false {raw : List Rec} {k : Key} (h : isDupe raw k = false) {r r' : Rec}
    (hr : r ∈ raw) (hr' : r' ∈ raw) (hk : k ∈ carried r) (hk' : k ∈ carried r') : r.idx = r'.idx := by
  apply Decidable.byContradiction
  intro hne
  rw [isDupe_true hr hr' hk hk' hne] at h
  cases h

/-- **ambiguous_raises**: when duplicate names send the constructor through the duplicate
    scan, a key carried by two different positions raises "Ambiguous column name" -/
theorem ambiguous_raises (raw : List Rec) (numCtx : Nat) (k : Key) (r r' : Rec)
    (hn : numCtx ≠ 0) (hb : dupesBranch raw numCtx = true) (hr : r ∈ raw) (hr' : r' ∈ raw)
    (hk : k ∈ carried r) (hk' : k ∈ carried r') (hne : r.idx ≠ r'.idx) :
    lookup raw numCtx k = .ambiguous := by
  unfold lookup
  simp [hn, hb, isDupe_true hr hr' hk hk' hne]

/-- a record's primary name is either one of the keys it carries, or a private string
    (anonymous-label name) that no record carries -/
def WF (raw : List Rec) : Prop :=
  ∀ r ∈ raw, r.name ∈ carried r ∨ ∀ r' ∈ raw, r.name ∉ carried r'

theorem byNameThenObjects_sound {raw : List Rec} {k : Key} {i : Nat} (hwf : WF raw)
    (hsame : ∀ r ∈ raw, ∀ r' ∈ raw, k ∈ carried r → k ∈ carried r' → r.idx = r'.idx)
    (h : byNameThenObjects raw k = .found i) :
    ∀ r ∈ raw, k ∈ carried r → r.idx = i := by
  intro r hr hk
  unfold byNameThenObjects at h
  cases h1 : lastIdx (fun r => r.name == k) raw with
  | some j =>
    simp only [h1, Look.found.injEq] at h
    obtain ⟨r0, hr0, hp, hi⟩ := lastIdx_some h1
    have hname : r0.name = k := by simpa using hp
    rcases hwf r0 hr0 with hc | hc
    · rw [hname] at hc
      rw [← h, ← hi]
      exact hsame r hr r0 hr0 hk hc
    · exact absurd hk (by rw [← hname]; exact hc r hr)
  | none =>
    rw [h1] at h
    cases h2 : lastIdx (fun r => r.objects.contains k) raw with
    | some j =>
      rw [h2] at h
      injection h with h
      obtain ⟨r0, hr0, hp, hi⟩ := lastIdx_some h2
      have hc : k ∈ carried r0 := by
        simp only [carried, List.mem_cons]
        exact Or.inr (by simpa using hp)
      rw [← h, ← hi]
      exact hsame r hr r0 hr0 hk hc
    | none => rw [h2] at h; cases h

/-- **dupes_sound**: on the duplicate-scan path a found key is carried by no other
    position: the value returned is the value of the only position the key denotes -/
theorem dupes_sound (raw : List Rec) (numCtx : Nat) (k : Key) (i : Nat) (hwf : WF raw)
    (hn : numCtx ≠ 0) (hb : dupesBranch raw numCtx = true) (h : lookup raw numCtx k = .found i) :
    ∀ r ∈ raw, k ∈ carried r → r.idx = i := by
  unfold lookup at h
  simp only [hn, hb, if_true, if_false] at h
  split at h
  · cases h
  · rename_i hd
    have hd' : isDupe raw k = false := by simpa using hd
    exact byNameThenObjects_sound hwf (fun r hr r' hr' hk hk' => isDupe_false hd' hr hr' hk hk') h

/-
Full statement for the common path (no duplicate primary names) — FALSE, see
`nodupes_counterexample`:
  lookup raw numCtx k = .found i → ∀ r ∈ raw, k ∈ carried r → r.idx = i
The constructor skips the duplicate scan there, so a key shared by two records' MD_OBJECTS
silently resolves to the later record.  It holds when the records' keys are disjoint:
-/
theorem nodupes_sound_partial (raw : List Rec) (numCtx : Nat) (k : Key) (i : Nat) (hwf : WF raw)
    (hn : numCtx ≠ 0) (hb : dupesBranch raw numCtx = false)
    (hdisj : ∀ r ∈ raw, ∀ r' ∈ raw, k ∈ carried r → k ∈ carried r' → r.idx = r'.idx)
    (h : lookup raw numCtx k = .found i) :
    ∀ r ∈ raw, k ∈ carried r → r.idx = i := by
  unfold lookup at h
  simp only [hn, hb, if_false] at h
  exact byNameThenObjects_sound hwf hdisj (by simpa using h)

/-- `select(t.c.a_b, t_a.c.b)`: both columns carry the legacy key "t_a_b" (id 7); names are
    distinct, so no scan happens and the key resolves to position 1 although position 0
    carries it too (finding `legacy-tablename-key-shared-by-two-columns-last-wins`) -/
theorem nodupes_counterexample :
    let raw : List Rec := [⟨0, 1, 1, [2, 1, 1, 7], none⟩, ⟨1, 3, 3, [4, 3, 3, 7], none⟩]
    dupesBranch raw 2 = false ∧ lookup raw 2 7 = .found 1 ∧ (7 : Key) ∈ carried raw[0] := by
  decide

/-- **unique_key_found**: a column object / label that belongs to exactly one position
    (and is not some record's primary string) is found, at that position -/
theorem unique_key_found (raw : List Rec) (numCtx : Nat) (k : Key) (r : Rec)
    (hn : numCtx ≠ 0) (hr : r ∈ raw) (hk : k ∈ r.objects)
    (hnoname : ∀ r' ∈ raw, r'.name ≠ k)
    (honly : ∀ r' ∈ raw, k ∈ carried r' → r'.idx = r.idx) :
    lookup raw numCtx k = .found r.idx := by
  have hnd : isDupe raw k = false := by
    cases hd : isDupe raw k with
    | false => rfl
    | true =>
      exfalso
      unfold isDupe at hd
      simp only [List.any_eq_true, Bool.and_eq_true, List.contains_eq_mem, decide_eq_true_eq,
        bne_iff_ne, ne_eq] at hd
      obtain ⟨a, ha, hka, b, hb, hkb, hne⟩ := hd
      exact hne ((honly b hb hkb).trans (honly a ha hka).symm)
  have hbn : byNameThenObjects raw k = .found r.idx := by
    unfold byNameThenObjects
    have h1 : lastIdx (fun r => r.name == k) raw = none := by
      cases hl : lastIdx (fun r => r.name == k) raw with
      | none => rfl
      | some j =>
        obtain ⟨r0, hr0, hp, _⟩ := lastIdx_some hl
        exact absurd (by simpa using hp) (hnoname r0 hr0)
    simp only [h1]
    cases h2 : lastIdx (fun r => r.objects.contains k) raw with
    | some j =>
      obtain ⟨r0, hr0, hp, hi⟩ := lastIdx_some h2
      have hc : k ∈ carried r0 := by
        simp only [carried, List.mem_cons]
        exact Or.inr (by simpa using hp)
      simp only [Look.found.injEq]
      rw [← hi]
      exact honly r0 hr0 hc
    | none =>
      have := lastIdx_none h2 r hr
      simp only [List.contains_eq_mem, decide_eq_false_iff_not] at this
      exact absurd hk this
  unfold lookup
  simp only [hn, if_false]
  split
  · simp [hnd, hbn]
  · exact hbn

theorem enumFrom_getElem? {α : Type} : ∀ (l : List α) (n i : Nat),
    (enumFrom n l)[i]? = l[i]?.map (fun x => (n + i, x)) := by
  intro l
  induction l with
  | nil => intro n i; simp [enumFrom]
  | cons x xs ih =>
    intro n i
    cases i with
    | zero => simp [enumFrom]
    | succ j =>
      simp only [enumFrom, List.getElem?_cons_succ]
      rw [ih (n + 1) j]
      cases xs[j]? <;> simp; omega

/-- **positional_merge**: the 1-1 positional strategy gives record `i` exactly the names
    and objects of the `i`-th compiled column, with MD_INDEX = `i` -/
theorem positional_merge (rcs : List RC) (i : Nat) :
    (mergePositional rcs)[i]? =
      rcs[i]?.map (fun rc => { idx := i, name := rc.name, rendered := rc.keyname, objects := rc.objects, ridx := some i }) := by
  unfold mergePositional
  rw [List.getElem?_map, enumFrom_getElem?]
  cases rcs[i]? <;> simp

/-! non-vacuity -/
example : WF [⟨0, 1, 1, [2, 1, 1, 7], none⟩, ⟨1, 9, 3, [4, 3, 3, 8], none⟩] := by
  intro r hr
  simp only [List.mem_cons, List.not_mem_nil, or_false] at hr
  rcases hr with rfl | rfl
  · left; simp [carried]
  · right; intro r' hr'
    simp only [List.mem_cons, List.not_mem_nil, or_false] at hr'
    rcases hr' with rfl | rfl <;> simp [carried]
example : lookup [⟨0, 1, 1, [2, 1], none⟩, ⟨1, 1, 1, [4, 1], none⟩, ⟨2, 5, 5, [6], none⟩] 3 1 = .ambiguous ∧
    lookup [⟨0, 1, 1, [2, 1], none⟩, ⟨1, 1, 1, [4, 1], none⟩, ⟨2, 5, 5, [6], none⟩] 3 4 = .found 1 ∧
    dupesBranch [⟨0, 1, 1, [2, 1], none⟩, ⟨1, 1, 1, [4, 1], none⟩, ⟨2, 5, 5, [6], none⟩] 3 = true := by decide

end SaVerif.Props.C11
