import SaVerif.Model.WriteBack
/-!
# C30 — flush writes exactly the in-memory object graph to the database

The abstract refinement behind the property (the ORM side — that the unit of work derives a
plan covering the difference of the graphs — is established by the differential run of
harness/props/c30.py against the intended-graph specification):

* `applyAll_look`: operations on pairwise distinct keys commute as far as the stored rows are
  concerned: the row under `k` afterwards is decided by the one operation on `k`, if any.
* `writeback_refines`: executing, in ANY order, one operation per differing key
  (`opFor old new`) on the old graph's rows yields a store whose rows are exactly the new
  graph's rows — for all graphs.
* `plan_refines`: the difference plan (`plan old new`) itself does so.
* `insert_keeps_fk` / `delete_keeps_fk`: an INSERT whose foreign key is NULL or points at a
  stored row, and a DELETE of a row nothing points at, keep every foreign key valid: with the
  order constraints of C31 every intermediate state of a flush is FK-consistent.
-/
namespace SaVerif.Props.C30
open SaVerif.WriteBack

theorem lookup_cons_eq (k a : Nat) (b : Option Nat) (t : DB) :
    List.lookup k ((a, b) :: t) = if k = a then some b else List.lookup k t := by
  simp only [List.lookup]
  by_cases h : k = a
  · subst h; simp
  · have : (k == a) = false := by simpa using h
    rw [this]; simp [h]

theorem look_upd_ne (db : DB) (k' : Nat) (r : Option Nat) (k : Nat) (h : k ≠ k') :
    look (applyOp db (.upd k' r)) k = look db k := by
  simp only [applyOp, look]
  induction db with
  | nil => rfl
  | cons a t ih =>
    obtain ⟨a1, a2⟩ := a
    simp only [List.map_cons]
    by_cases ha : a1 = k'
    · subst ha
      simp only [beq_self_eq_true, if_true, lookup_cons_eq, if_neg h, ih]
    · have hb : (a1 == k') = false := by simpa using ha
      simp only [hb, Bool.false_eq_true, if_false, lookup_cons_eq, ih]

theorem look_upd_self (db : DB) (k' : Nat) (r : Option Nat) (h : (look db k').isSome = true) :
    look (applyOp db (.upd k' r)) k' = some r := by
  simp only [applyOp, look] at *
  induction db with
  | nil => simp [List.lookup] at h
  | cons a t ih =>
    obtain ⟨a1, a2⟩ := a
    simp only [List.map_cons]
    by_cases ha : a1 = k'
    · subst ha
      simp only [beq_self_eq_true, if_true, lookup_cons_eq]
    · have hb : (a1 == k') = false := by simpa using ha
      have hc : ¬ k' = a1 := fun e => ha e.symm
      simp only [hb, lookup_cons_eq, if_neg hc] at h ⊢
      have h2 : (false = true) = False := by simp
      simp only [h2, if_false, lookup_cons_eq, if_neg hc]
      exact ih h

theorem look_del (db : DB) (k' k : Nat) :
    look (applyOp db (.del k')) k = if k = k' then none else look db k := by
  simp only [applyOp, look]
  induction db with
  | nil => simp [List.lookup]
  | cons a t ih =>
    obtain ⟨a1, a2⟩ := a
    by_cases ha : a1 = k'
    · subst ha
      have : (a1 != a1) = false := by simp
      simp only [List.filter, this, ih, lookup_cons_eq]
      by_cases hk : k = a1 <;> simp [hk]
    · have hb : (a1 != k') = true := by simpa using ha
      simp only [List.filter, hb, lookup_cons_eq, ih]
      by_cases hk : k = a1
      · subst hk; simp [ha]
      · simp [hk]

theorem look_ins (db : DB) (k' : Nat) (r : Option Nat) (k : Nat) :
    look (applyOp db (.ins k' r)) k = if k = k' then some r else look db k := by
  simp only [applyOp, look]
  rw [lookup_cons_eq]

theorem look_applyOp_ne (db : DB) (op : Op) (k : Nat) (h : op.key ≠ k) :
    look (applyOp db op) k = look db k := by
  cases op with
  | ins k' r => simp only [Op.key] at h; rw [look_ins]; simp [Ne.symm h]
  | upd k' r => simp only [Op.key] at h; exact look_upd_ne db k' r k (Ne.symm h)
  | del k' => simp only [Op.key] at h; rw [look_del]; simp [Ne.symm h]

/-- what one operation leaves under its own key (INSERT on an absent key, UPDATE/DELETE on a
    present one) -/
def resultOf : Op → Option (Option Nat)
  | .ins _ r => some r
  | .upd _ r => some r
  | .del _ => none

/-- precondition of an operation w.r.t. the rows stored under its key -/
def Pre (db : DB) : Op → Prop
  | .ins k _ => look db k = none
  | .upd k _ => (look db k).isSome = true
  | .del _ => True

theorem look_applyOp_self (db : DB) (op : Op) (hpre : Pre db op) :
    look (applyOp db op) op.key = resultOf op := by
  cases op with
  | ins k r => simp only [Op.key, resultOf]; rw [look_ins]; simp
  | upd k r =>
    simp only [Op.key, resultOf, Pre] at *
    exact look_upd_self db k r hpre
  | del k => simp only [Op.key, resultOf]; rw [look_del]; simp

/-- **applyAll_look**: with pairwise distinct keys, the row under `k` after executing the
    operations (in the given, arbitrary order) is the result of the operation on `k` if there
    is one, and the old row otherwise. -/
theorem applyAll_look (ops : List Op) :
    ∀ (db : DB), (ops.map Op.key).Nodup → (∀ op ∈ ops, Pre db op) → ∀ k,
      look (applyAll db ops) k =
        match ops.find? (fun op => op.key == k) with
        | some op => resultOf op
        | none => look db k := by
  induction ops with
  | nil => intro db _ _ k; rfl
  | cons op t ih =>
    intro db hnd hpre k
    simp only [List.map_cons, List.nodup_cons] at hnd
    have hpre' : ∀ o ∈ t, Pre (applyOp db op) o := by
      intro o ho
      have hne : op.key ≠ o.key := fun e => hnd.1 (e ▸ List.mem_map_of_mem (f := Op.key) ho)
      have := hpre o (List.mem_cons_of_mem _ ho)
      cases o <;> simp only [Pre, Op.key] at * <;> first | trivial | (rw [look_applyOp_ne db op _ hne]; exact this)
    have := ih (applyOp db op) hnd.2 hpre' k
    simp only [applyAll, List.foldl_cons] at *
    rw [this]
    simp only [List.find?_cons]
    by_cases hk : op.key = k
    · subst hk
      have hnone : t.find? (fun o => o.key == op.key) = none := by
        rw [List.find?_eq_none]
        intro o ho
        simp only [beq_iff_eq]
        exact fun e => hnd.1 (e ▸ List.mem_map_of_mem (f := Op.key) ho)
      simp only [hnone, beq_self_eq_true]
      exact look_applyOp_self db op (hpre op (List.mem_cons_self))
    · have : (op.key == k) = false := by simp [hk]
      simp only [this]
      cases t.find? (fun o => o.key == k) with
      | some o => rfl
      | none => exact look_applyOp_ne db op k hk

theorem opFor_some (old new : DB) (k : Nat) (op : Op) (h : opFor old new k = some op) :
    op.key = k ∧ resultOf op = look new k ∧ Pre old op := by
  unfold opFor at h
  cases ho : look old k with
  | none =>
    cases hn : look new k with
    | none => simp [ho, hn] at h
    | some r =>
      simp only [ho, hn] at h
      cases h
      exact ⟨rfl, rfl, ho⟩
  | some r0 =>
    cases hn : look new k with
    | none =>
      simp only [ho, hn] at h
      cases h
      exact ⟨rfl, rfl, trivial⟩
    | some r =>
      simp only [ho, hn] at h
      split at h
      · cases h
      · cases h
        refine ⟨rfl, rfl, ?_⟩
        simp [Pre, ho]

theorem opFor_none (old new : DB) (k : Nat) (h : opFor old new k = none) : look old k = look new k := by
  unfold opFor at h
  cases ho : look old k with
  | none =>
    cases hn : look new k with
    | none => rfl
    | some r => simp [ho, hn] at h
  | some r0 =>
    cases hn : look new k with
    | none => simp [ho, hn] at h
    | some r =>
      simp only [ho, hn] at h
      split at h
      · rename_i heq
        have : r0 = r := by simpa using heq
        rw [this]
      · cases h

/-- **writeback_refines**: one operation per differing key, executed in any order on the old
    rows, leaves exactly the new graph's rows. -/
theorem writeback_refines (old new : DB) (ops : List Op)
    (hnd : (ops.map Op.key).Nodup)
    (hcover : ∀ k op, opFor old new k = some op → op ∈ ops)
    (hsound : ∀ op ∈ ops, opFor old new op.key = some op) :
    ∀ k, look (applyAll old ops) k = look new k := by
  intro k
  have hpre : ∀ op ∈ ops, Pre old op := fun op hop => (opFor_some old new _ op (hsound op hop)).2.2
  rw [applyAll_look ops old hnd hpre k]
  cases hf : ops.find? (fun op => op.key == k) with
  | some op =>
    have hmem := List.mem_of_find?_eq_some hf
    have hkey : op.key = k := by simpa using List.find?_some hf
    have := opFor_some old new _ op (hsound op hmem)
    rw [hkey] at this
    exact this.2.1
  | none =>
    simp only
    cases ho : opFor old new k with
    | none => exact opFor_none old new k ho
    | some op =>
      have hmem := hcover k op ho
      have hk := (opFor_some old new k op ho).1
      have := List.find?_eq_none.1 hf op hmem
      simp [hk] at this

theorem mem_dedup (l : List Nat) (a : Nat) : a ∈ dedup l ↔ a ∈ l := by
  induction l with
  | nil => simp [dedup]
  | cons x t ih =>
    simp only [dedup, List.mem_cons, List.mem_filter, ih]
    constructor
    · rintro (h | ⟨h, _⟩)
      · exact Or.inl h
      · exact Or.inr h
    · rintro (h | h)
      · exact Or.inl h
      · by_cases hx : a = x
        · exact Or.inl hx
        · exact Or.inr ⟨h, by simpa using hx⟩

theorem nodup_dedup (l : List Nat) : (dedup l).Nodup := by
  induction l with
  | nil => simp [dedup]
  | cons x t ih =>
    simp only [dedup, List.nodup_cons, List.mem_filter]
    refine ⟨by simp, ih.sublist List.filter_sublist⟩

theorem lookup_some_mem (l : DB) (k : Nat) (r : Option Nat) (h : l.lookup k = some r) : (k, r) ∈ l := by
  induction l with
  | nil => simp [List.lookup] at h
  | cons a t ih =>
    obtain ⟨a1, a2⟩ := a
    rw [lookup_cons_eq] at h
    by_cases hk : k = a1
    · subst hk; simp at h; subst h; exact List.mem_cons_self
    · simp only [hk, if_false] at h; exact List.mem_cons_of_mem _ (ih h)

/-- the difference plan itself satisfies the hypotheses -/
theorem plan_refines (old new : DB) : ∀ k, look (applyAll old (plan old new)) k = look new k := by
  apply writeback_refines
  · -- distinct keys
    unfold plan
    have hnd : (dedup (keys old ++ keys new)).Nodup := nodup_dedup _
    generalize dedup (keys old ++ keys new) = ks at hnd
    induction ks with
    | nil => simp
    | cons a t ih =>
      simp only [List.nodup_cons] at hnd
      simp only [List.filterMap_cons]
      cases ho : opFor old new a with
      | none => exact ih hnd.2
      | some op =>
        simp only [List.map_cons, List.nodup_cons]
        refine ⟨?_, ih hnd.2⟩
        intro hm
        obtain ⟨o2, ho2, he⟩ := List.mem_map.1 hm
        obtain ⟨b, hb, hob⟩ := List.mem_filterMap.1 ho2
        have h1 := (opFor_some old new a op ho).1
        have h2 := (opFor_some old new b o2 hob).1
        have : b = a := by rw [← h2, he, h1]
        exact hnd.1 (this ▸ hb)
  · intro k op ho
    unfold plan
    apply List.mem_filterMap.2
    refine ⟨k, ?_, ho⟩
    rw [mem_dedup]
    unfold opFor at ho
    cases h1 : look old k with
    | some r =>
      apply List.mem_append_left
      unfold keys look at *
      exact List.mem_map.2 ⟨(k, r), lookup_some_mem _ _ _ h1, rfl⟩
    | none =>
      cases h2 : look new k with
      | some r =>
        apply List.mem_append_right
        unfold keys look at *
        exact List.mem_map.2 ⟨(k, r), lookup_some_mem _ _ _ h2, rfl⟩
      | none => simp [h1, h2] at ho
  · intro op hop
    unfold plan at hop
    obtain ⟨b, _, hob⟩ := List.mem_filterMap.1 hop
    have := (opFor_some old new b op hob).1
    rw [this]; exact hob

/-- non-vacuity: a concrete difference (insert 3, re-parent 2, delete 1) in two orders -/
example :
    let old : DB := [(1, none), (2, some 1), (4, none)]
    let new : DB := [(2, some 4), (3, some 2), (4, none)]
    (plan old new).length = 3 ∧
    (∀ k ∈ [1, 2, 3, 4, 5], look (applyAll old (plan old new)) k = look new k) ∧
    (∀ k ∈ [1, 2, 3, 4, 5], look (applyAll old (plan old new).reverse) k = look new k) := by decide

/-! ## foreign keys stay valid along a correctly ordered plan -/

theorem mem_keys_cons (db : DB) (row : Row) (p : Nat) (h : (keys db).contains p = true) :
    (keys (row :: db)).contains p = true := by
  unfold keys at h ⊢
  simp only [List.map_cons, List.contains_cons, h, Bool.or_true]

/-- **insert_keeps_fk**: inserting a row whose FK is NULL or references a stored row (or itself) -/
theorem insert_keeps_fk (db : DB) (k : Nat) (r : Option Nat) (h : fkClosed db = true)
    (hr : match r with
          | none => True
          | some p => p = k ∨ (keys db).contains p = true) :
    fkClosed (applyOp db (.ins k r)) = true := by
  simp only [applyOp, fkClosed, List.all_cons, Bool.and_eq_true]
  constructor
  · cases r with
    | none => rfl
    | some p =>
      simp only at hr ⊢
      rcases hr with rfl | hp
      · simp [keys]
      · exact mem_keys_cons db _ p hp
  · simp only [fkClosed, List.all_eq_true] at h ⊢
    intro row hrow
    have := h row hrow
    cases hp : row.2 with
    | none => simp
    | some p =>
      simp only [hp] at this ⊢
      exact mem_keys_cons db _ p this

/-- **delete_keeps_fk**: deleting a row that no remaining row references -/
theorem delete_keeps_fk (db : DB) (k : Nat) (h : fkClosed db = true)
    (hun : ∀ row ∈ db, row.1 ≠ k → row.2 ≠ some k) :
    fkClosed (applyOp db (.del k)) = true := by
  simp only [applyOp, fkClosed, List.all_eq_true] at *
  intro row hrow
  have hm := List.mem_filter.1 hrow
  have hne : row.1 ≠ k := by simpa using hm.2
  have := h row hm.1
  cases hp : row.2 with
  | none => simp
  | some p =>
    simp only [hp] at this ⊢
    have hpk : p ≠ k := fun e => hun row hm.1 hne (e ▸ hp)
    simp only [keys, List.contains_eq_mem, List.mem_map, decide_eq_true_eq] at this ⊢
    obtain ⟨r2, hr2, he⟩ := this
    exact ⟨r2, List.mem_filter.2 ⟨hr2, by simpa [he] using hpk⟩, he⟩

example : fkClosed (applyAll [(1, none)] [.ins 2 (some 1), .ins 3 (some 2), .del 3, .del 2]) = true := by decide
example : fkClosed (applyAll [(1, none)] [.ins 3 (some 2), .ins 2 (some 1)]) = true ∧
          fkClosed (applyAll [(1, none)] [.ins 3 (some 2)]) = false := by decide

end SaVerif.Props.C30
