import SaVerif.Lemmas.Topo
import SaVerif.Lemmas.TopoCycles
import SaVerif.Lemmas.TopoCyclesComplete
/-!
# C19 — Dependency sorting is a correct topological order; cycles exactly reported

Property theorems about M-TOPO (`SaVerif/Model/Topo.lean`, transcription of
`lib/sqlalchemy/util/topological.py`).  Statements only depend on the model;
helper lemmas live in `SaVerif/Lemmas/Topo.lean`.
-/
namespace SaVerif.Props.C19
open SaVerif.Topo

/-! ## the loop never runs out of fuel (termination of `while todo_set`) -/

theorem sortAux_fuel (ts : List Edge) :
    ∀ (f1 f2 : Nat) (todo : List Node), todo.length ≤ f1 → todo.length ≤ f2 →
      sortAux ts f1 todo = sortAux ts f2 todo := by
  intro f1
  induction f1 with
  | zero =>
    intro f2 todo h1 h2
    have : todo = [] := List.eq_nil_of_length_eq_zero (by omega)
    subst this
    cases f2 <;> simp [sortAux]
  | succ n ih =>
    intro f2 todo h1 h2
    cases f2 with
    | zero =>
      have : todo = [] := List.eq_nil_of_length_eq_zero (by omega)
      subst this
      simp [sortAux]
    | succ m =>
      simp only [sortAux]
      split
      · rfl
      · split
        · rfl
        · rename_i hne
          have hlt := remaining_length_lt (ts := ts) (todo := todo) (by simpa using hne)
          rw [ih m _ (by omega) (by omega)]

/-! ## each item exactly once -/

theorem sortAux_perm (ts : List Edge) :
    ∀ (fuel : Nat) (todo : List Node) (out : List (List Node)),
      sortAux ts fuel todo = some out → out.flatten.Perm todo := by
  intro fuel
  induction fuel with
  | zero =>
    intro todo out h
    simp only [sortAux] at h
    split at h
    · rename_i he
      simp only [List.isEmpty_iff] at he
      cases h; subst he; simp
    · cases h
  | succ n ih =>
    intro todo out h
    simp only [sortAux] at h
    split at h
    · rename_i he
      simp only [List.isEmpty_iff] at he
      cases h; subst he; simp
    · split at h
      · cases h
      · split at h
        · cases h
        · rename_i rest hrest
          cases h
          have := ih _ _ hrest
          simp only [List.flatten_cons]
          exact (List.Perm.append_left _ this).trans (layer_remaining_perm ts todo)

/-- **sort_perm**: the output of `sort` is a permutation of the items (each item
    exactly once when the items are distinct; duplicates are kept as given). -/
theorem sort_perm (ts : List Edge) (items out : List Node)
    (h : sort ts items = some out) : out.Perm items := by
  unfold sort sortAsSubsets at h
  cases hs : sortAux ts items.length items with
  | none => rw [hs] at h; cases h
  | some o =>
    rw [hs] at h
    cases h
    exact sortAux_perm ts _ _ _ hs

theorem sort_nodup (ts : List Edge) (items out : List Node) (hn : items.Nodup)
    (h : sort ts items = some out) : out.Nodup :=
  (sort_perm ts items out h).nodup_iff.2 hn

/-! ## every dependency before its dependent -/

/-- split form: the output can be cut so that the parent is in the first part and
    the child is not (valid with duplicates too) -/
theorem sortAux_split (ts : List Edge) (p c : Node) (hpc : (p, c) ∈ ts) :
    ∀ (fuel : Nat) (todo : List Node) (out : List (List Node)),
      sortAux ts fuel todo = some out → p ∈ todo → c ∈ todo →
      ∃ l1 l2, out.flatten = l1 ++ l2 ∧ p ∈ l1 ∧ c ∉ l1 := by
  intro fuel
  induction fuel with
  | zero =>
    intro todo out h hp _
    simp only [sortAux] at h
    split at h
    · rename_i he
      simp only [List.isEmpty_iff] at he
      subst he; cases hp
    · cases h
  | succ n ih =>
    intro todo out h hp hc
    simp only [sortAux] at h
    split at h
    · rename_i he
      simp only [List.isEmpty_iff] at he
      subst he; cases hp
    · split at h
      · cases h
      · split at h
        · cases h
        · rename_i rest hrest
          cases h
          have hcl : c ∉ layer ts todo := by
            intro hm
            exact (mem_layer.1 hm).2 p hpc hp
          by_cases hpl : p ∈ layer ts todo
          · exact ⟨layer ts todo, rest.flatten, by simp, hpl, hcl⟩
          · have hp' : p ∈ remaining todo (layer ts todo) := mem_remaining.2 ⟨hp, hpl⟩
            have hc' : c ∈ remaining todo (layer ts todo) := mem_remaining.2 ⟨hc, hcl⟩
            obtain ⟨l1, l2, he, h1, h2⟩ := ih _ _ hrest hp' hc'
            refine ⟨layer ts todo ++ l1, l2, ?_, ?_, ?_⟩
            · simp [he]
            · exact List.mem_append_right _ h1
            · simp [hcl, h2]

/-- **sort_respects**: for every dependency pair whose two ends are items, the
    parent's (first) position is strictly before the child's. -/
theorem sort_respects (ts : List Edge) (items out : List Node) (p c : Node)
    (h : sort ts items = some out) (hpc : (p, c) ∈ ts) (hp : p ∈ items) (hc : c ∈ items) :
    out.idxOf p < out.idxOf c := by
  unfold sort sortAsSubsets at h
  cases hs : sortAux ts items.length items with
  | none => rw [hs] at h; cases h
  | some o =>
    rw [hs] at h
    cases h
    obtain ⟨l1, l2, he, h1, h2⟩ := sortAux_split ts p c hpc _ _ _ hs hp hc
    rw [he, List.idxOf_append, List.idxOf_append, if_pos h1, if_neg h2]
    have := List.idxOf_lt_length_of_mem h1
    omega

/-- a self-dependency on an item always raises -/
theorem sort_selfloop_raises (ts : List Edge) (items : List Node) (n : Node)
    (hn : (n, n) ∈ ts) (hi : n ∈ items) : sort ts items = none := by
  cases h : sort ts items with
  | none => rfl
  | some out =>
    have := sort_respects ts items out n n h hn hi hi
    omega

/-! ## subsets are internally independent -/

theorem sortAux_subsets_independent (ts : List Edge) :
    ∀ (fuel : Nat) (todo : List Node) (out : List (List Node)),
      sortAux ts fuel todo = some out →
      ∀ s ∈ out, ∀ p c, (p, c) ∈ ts → p ∈ s → c ∈ s → False := by
  intro fuel
  induction fuel with
  | zero =>
    intro todo out h
    simp only [sortAux] at h
    split at h
    · cases h; intro s hs; cases hs
    · cases h
  | succ n ih =>
    intro todo out h
    simp only [sortAux] at h
    split at h
    · cases h; intro s hs; cases hs
    · split at h
      · cases h
      · split at h
        · cases h
        · rename_i rest hrest
          cases h
          intro s hs p c hpc hps hcs
          rcases List.mem_cons.1 hs with rfl | hs
          · exact (mem_layer.1 hcs).2 p hpc (mem_layer.1 hps).1
          · exact ih _ _ hrest s hs p c hpc hps hcs

/-- **subsets_independent**: no dependency pair has both ends in one subset. -/
theorem subsets_independent (ts : List Edge) (items : List Node) (out : List (List Node))
    (h : sortAsSubsets ts items = some out) (s : List Node) (hs : s ∈ out)
    (p c : Node) (hpc : (p, c) ∈ ts) : ¬ (p ∈ s ∧ c ∈ s) := by
  rintro ⟨hp, hc⟩
  exact sortAux_subsets_independent ts _ _ _ h s hs p c hpc hp hc

/-- **sort_deterministic**: trivially a function of the two input lists (no set
    iteration order, no hashing in the model; the correspondence check is what
    shows the implementation has the same property). -/
theorem sort_deterministic (ts : List Edge) (items : List Node) (o1 o2 : Option (List Node))
    (h1 : sort ts items = o1) (h2 : sort ts items = o2) : o1 = o2 := h1 ▸ h2

/-! ## raises exactly when the dependencies among the items contain a cycle -/

/-- the dependency relation induced on the items -/
def Dep (ts : List Edge) (items : List Node) (a b : Node) : Prop :=
  (a, b) ∈ ts ∧ a ∈ items ∧ b ∈ items

/-- non-empty paths of a relation -/
inductive Path (R : Node → Node → Prop) : Node → Node → Prop
  | single {a b : Node} : R a b → Path R a b
  | cons {a b c : Node} : R a b → Path R b c → Path R a c

/-- some item lies on a directed cycle of dependencies among the items
    (a self-dependency is a cycle of length one) -/
def HasCycle (ts : List Edge) (items : List Node) : Prop :=
  ∃ n, Path (Dep ts items) n n

theorem Path.mono {R R' : Node → Node → Prop} (h : ∀ a b, R a b → R' a b) {a b : Node}
    (p : Path R a b) : Path R' a b := by
  induction p with
  | single r => exact .single (h _ _ r)
  | cons r _ ih => exact .cons (h _ _ r) ih

theorem path_idx_lt (ts : List Edge) (items out : List Node) (h : sort ts items = some out)
    {a b : Node} (p : Path (Dep ts items) a b) : out.idxOf a < out.idxOf b := by
  induction p with
  | single r => exact sort_respects ts items out _ _ h r.1 r.2.1 r.2.2
  | cons r _ ih =>
    have := sort_respects ts items out _ _ h r.1 r.2.1 r.2.2
    omega

/-- **sort_ok_acyclic**: if `sort` returns, the dependencies among the items are acyclic. -/
theorem sort_ok_acyclic (ts : List Edge) (items out : List Node)
    (h : sort ts items = some out) : ¬ HasCycle ts items := by
  rintro ⟨n, p⟩
  have := path_idx_lt ts items out h p
  omega

/-- when the loop gives up, it is stuck on a non-empty sub-list of the items in
    which every node has a parent inside the sub-list -/
theorem sortAux_none_stuck (ts : List Edge) :
    ∀ (fuel : Nat) (todo : List Node), todo.length ≤ fuel → sortAux ts fuel todo = none →
      ∃ S : List Node, S ≠ [] ∧ (∀ x ∈ S, x ∈ todo) ∧ layer ts S = [] := by
  intro fuel
  induction fuel with
  | zero =>
    intro todo hl h
    have : todo = [] := List.eq_nil_of_length_eq_zero (by omega)
    subst this
    simp [sortAux] at h
  | succ n ih =>
    intro todo hl h
    simp only [sortAux] at h
    split at h
    · cases h
    · rename_i hne
      split at h
      · rename_i hlay
        refine ⟨todo, ?_, fun x hx => hx, by simpa using hlay⟩
        intro he; subst he; simp at hne
      · rename_i hlay
        split at h
        · rename_i hrest
          have hlt := remaining_length_lt (ts := ts) (todo := todo) (by simpa using hlay)
          obtain ⟨S, hS, hsub, hstuck⟩ := ih _ (by omega) hrest
          exact ⟨S, hS, fun x hx => (mem_remaining.1 (hsub x hx)).1, hstuck⟩
        · cases h

/-- pigeonhole walk: in a finite non-empty set where every node has a parent in
    the set, following parents must close a cycle -/
theorem walk_or_cycle (R : Node → Node → Prop) (S : List Node)
    (hpar : ∀ y ∈ S, ∃ p ∈ S, R p y) (x : Node) (hx : x ∈ S) :
    ∀ k : Nat, (∃ n, Path (fun a b => R a b ∧ a ∈ S ∧ b ∈ S) n n) ∨
      ∃ (h : Node) (t : List Node), (h :: t).length = k + 1 ∧ (h :: t).Nodup ∧
        (∀ y ∈ h :: t, y ∈ S) ∧ ∀ y ∈ t, Path (fun a b => R a b ∧ a ∈ S ∧ b ∈ S) h y := by
  intro k
  induction k with
  | zero =>
    right
    exact ⟨x, [], by simp, by simp, by simpa using hx, by simp⟩
  | succ k ih =>
    rcases ih with hc | ⟨h, t, hlen, hnd, hsub, hpath⟩
    · exact Or.inl hc
    · have hhS : h ∈ S := hsub h (by simp)
      obtain ⟨p, hpS, hph⟩ := hpar h hhS
      have hR : (fun a b => R a b ∧ a ∈ S ∧ b ∈ S) p h := ⟨hph, hpS, hhS⟩
      by_cases hpw : p ∈ h :: t
      · left
        rcases List.mem_cons.1 hpw with rfl | hpt
        · exact ⟨p, .single hR⟩
        · exact ⟨p, .cons hR (hpath p hpt)⟩
      · right
        refine ⟨p, h :: t, by simp at hlen ⊢; omega, List.nodup_cons.2 ⟨hpw, hnd⟩, ?_, ?_⟩
        · intro y hy
          rcases List.mem_cons.1 hy with rfl | hy
          · exact hpS
          · exact hsub y hy
        · intro y hy
          rcases List.mem_cons.1 hy with rfl | hy
          · exact .single hR
          · exact .cons hR (hpath y hy)

theorem exists_cycle_of_all_have_parent (R : Node → Node → Prop) (S : List Node) (hS : S ≠ [])
    (hpar : ∀ y ∈ S, ∃ p ∈ S, R p y) :
    ∃ n, Path (fun a b => R a b ∧ a ∈ S ∧ b ∈ S) n n := by
  obtain ⟨x, hx⟩ := List.exists_mem_of_ne_nil S hS
  rcases walk_or_cycle R S hpar x hx S.length with hc | ⟨h, t, hlen, hnd, hsub, _⟩
  · exact hc
  · have := hnd.length_le_of_subset (l₂ := S) (fun y hy => hsub y hy)
    omega

/-- **sort_raises_cycle**: if `sort` raises CircularDependencyError, the
    dependencies among the items contain a cycle. -/
theorem sort_raises_cycle (ts : List Edge) (items : List Node)
    (h : sort ts items = none) : HasCycle ts items := by
  unfold sort sortAsSubsets at h
  cases hs : sortAux ts items.length items with
  | some o => rw [hs] at h; cases h
  | none =>
    obtain ⟨S, hS, hsub, hstuck⟩ := sortAux_none_stuck ts _ _ (Nat.le_refl _) hs
    have hpar : ∀ y ∈ S, ∃ p ∈ S, (p, y) ∈ ts := by
      intro y hy
      have hnl : y ∉ layer ts S := by rw [hstuck]; simp
      rw [mem_layer] at hnl
      have : ¬ ∀ p, (p, y) ∈ ts → p ∉ S := fun hall => hnl ⟨hy, hall⟩
      obtain ⟨p, hp⟩ := Classical.not_forall.1 this
      have hp' := Classical.not_imp.1 hp
      exact ⟨p, Classical.not_not.1 hp'.2, hp'.1⟩
    obtain ⟨n, p⟩ := exists_cycle_of_all_have_parent (fun a b => (a, b) ∈ ts) S hS hpar
    exact ⟨n, p.mono (fun a b r => ⟨r.1, hsub a r.2.1, hsub b r.2.2⟩)⟩

/-- **sort_error_iff_cycle**: `sort` fails with a circular-dependency error
    exactly when the dependencies among the items contain a cycle. -/
theorem sort_error_iff_cycle (ts : List Edge) (items : List Node) :
    sort ts items = none ↔ HasCycle ts items := by
  constructor
  · exact sort_raises_cycle ts items
  · intro hc
    cases h : sort ts items with
    | none => rfl
    | some out => exact absurd hc (sort_ok_acyclic ts items out h)

/-! ## cycle detection

Exactness: `x ∈ findCycles ts ↔ OnCycle ts x`.
* soundness (`→`, `find_cycles_exact_partial`): cycle detection never reports a
  node that is not on a cycle (invariant `DfsInv`, `Lemmas/TopoCycles.lean`);
* completeness (`←`, `find_cycles_complete`): every node on a cycle is reported
  (the DFS from that node ends with an empty stack within the model's fuel, and
  the "finished nodes" invariant `CInv`, `Lemmas/TopoCyclesComplete.lean`). -/

/-- **find_cycles_exact_partial** (soundness half of exactness) -/
theorem find_cycles_exact_partial (ts : List Edge) (x : Node) (h : x ∈ findCycles ts) :
    OnCycle ts x := by
  unfold findCycles at h
  rw [List.mem_eraseDups] at h
  exact findCycles_sound_aux _ _ _ (by simp) x h

theorem Path.snoc {R : Node → Node → Prop} {a b c : Node} (p : Path R a b) (e : R b c) :
    Path R a c := by
  induction p with
  | single r => exact .cons r (.single e)
  | cons r _ ih => exact .cons r (ih e)

/-- `OnCycle` is the same notion as a non-empty closed `Path` -/
theorem onCycle_path (ts : List Edge) (x : Node) (h : OnCycle ts x) :
    Path (fun a b => (a, b) ∈ ts) x x := by
  obtain ⟨y, hxy, hr⟩ := h
  have key : ∀ {a b : Node}, Reach ts a b → ∀ {c : Node}, Path (fun a b => (a, b) ∈ ts) c a →
      Path (fun a b => (a, b) ∈ ts) c b := by
    intro a b hab
    induction hab with
    | refl => intro c p; exact p
    | tail _ e ih => intro c p; exact (ih p).snoc e
  exact key hr (.single hxy)

/-- **find_cycles_complete** (completeness half of exactness): every node that
    lies on a directed cycle of the dependency pairs is reported. -/
theorem find_cycles_complete (ts : List Edge) (x : Node) (h : OnCycle ts x) :
    x ∈ findCycles ts :=
  findCycles_complete x h

/-- **find_cycles_exact**: `find_cycles` reports exactly the nodes on a cycle. -/
theorem find_cycles_exact (ts : List Edge) (x : Node) :
    x ∈ findCycles ts ↔ OnCycle ts x :=
  ⟨find_cycles_exact_partial ts x, find_cycles_complete ts x⟩

/-! ## non-vacuity -/
example : sort [(2, 1), (3, 2)] [1, 2, 3] = some [3, 2, 1] := by decide
example : sort [(2, 1), (1, 2)] [1, 2, 3] = none := by decide
example : HasCycle [(2, 1), (1, 2)] [1, 2, 3] :=
  ⟨1, .cons (b := 2) ⟨by decide, by decide, by decide⟩ (.single ⟨by decide, by decide, by decide⟩)⟩
example : sortAsSubsets [(1, 2)] [4, 1, 2, 3] = some [[4, 1, 3], [2]] := by decide
example : 2 ∈ findCycles [(1, 2), (2, 1), (2, 3), (3, 3)] := by decide
/-- the hypothesis of `find_cycles_complete` is satisfiable, and the conclusion is
    not trivially true: node 4 (only reachable from the cycles) is not reported -/
example : OnCycle [(1, 2), (2, 1), (2, 3), (3, 3), (3, 4)] 1 :=
  ⟨2, by decide, .tail (.refl _) (by decide)⟩
example : 1 ∈ findCycles [(1, 2), (2, 1), (2, 3), (3, 3), (3, 4)] :=
  find_cycles_complete _ _ ⟨2, by decide, .tail (.refl _) (by decide)⟩
example : 4 ∉ findCycles [(1, 2), (2, 1), (2, 3), (3, 3), (3, 4)] := by decide
example : ¬ OnCycle [(1, 2), (2, 1), (2, 3), (3, 3), (3, 4)] 4 :=
  fun h => absurd ((find_cycles_exact _ _).2 h) (by decide)

end SaVerif.Props.C19
