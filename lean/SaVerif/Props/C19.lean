import SaVerif.Lemmas.Topo
/-!
# C19 — Dependency sorting is a correct topological order; cycles exactly reported

Property theorems about M-TOPO (`SaVerif/Model/Topo.lean`, transcription of
`lib/sqlalchemy/util/topological.py`).  Statements only depend on the model;
helper lemmas live in `SaVerif/Lemmas/Topo.lean`.
-/
namespace SaVerif.Props.C19
open SaVerif.Topo

/-! ## the loop never runs out of fuel (termination of `while todo_set`) -/

theorem sortAux_fuel (ts : List Edge) :
    ∀ (f1 f2 : Nat) (todo : List Node), todo.length ≤ f1 → todo.length ≤ f2 →
      sortAux ts f1 todo = sortAux ts f2 todo := by
  intro f1
  induction f1 with
  | zero =>
    intro f2 todo h1 h2
    have : todo = [] := List.eq_nil_of_length_eq_zero (by omega)
    subst this
    cases f2 <;> simp [sortAux]
  | succ n ih =>
    intro f2 todo h1 h2
    cases f2 with
    | zero =>
      have : todo = [] := List.eq_nil_of_length_eq_zero (by omega)
      subst this
      simp [sortAux]
    | succ m =>
      simp only [sortAux]
      split
      · rfl
      · split
        · rfl
        · rename_i hne
          have hlt := remaining_length_lt (ts := ts) (todo := todo) (by simpa using hne)
          rw [ih m _ (by omega) (by omega)]

/-! ## each item exactly once -/

theorem sortAux_perm (ts : List Edge) :
    ∀ (fuel : Nat) (todo : List Node) (out : List (List Node)),
      sortAux ts fuel todo = some out → out.flatten.Perm todo := by
  intro fuel
  induction fuel with
  | zero =>
    intro todo out h
    simp only [sortAux] at h
    split at h
    · rename_i he
      simp only [List.isEmpty_iff] at he
      cases h; subst he; simp
    · cases h
  | succ n ih =>
    intro todo out h
    simp only [sortAux] at h
    split at h
    · rename_i he
      simp only [List.isEmpty_iff] at he
      cases h; subst he; simp
    · split at h
      · cases h
      · split at h
        · cases h
        · rename_i rest hrest
          cases h
          have := ih _ _ hrest
          simp only [List.flatten_cons]
          exact (List.Perm.append_left _ this).trans (layer_remaining_perm ts todo)

/-- **sort_perm**: the output of `sort` is a permutation of the items (each item
    exactly once when the items are distinct; duplicates are kept as given). -/
theorem sort_perm (ts : List Edge) (items out : List Node)
    (h : sort ts items = some out) : out.Perm items := by
  unfold sort sortAsSubsets at h
  cases hs : sortAux ts items.length items with
  | none => rw [hs] at h; cases h
  | some o =>
    rw [hs] at h
    cases h
    exact sortAux_perm ts _ _ _ hs

theorem sort_nodup (ts : List Edge) (items out : List Node) (hn : items.Nodup)
    (h : sort ts items = some out) : out.Nodup :=
  (sort_perm ts items out h).nodup_iff.2 hn

/-! ## every dependency before its dependent -/

/-- split form: the output can be cut so that the parent is in the first part and
    the child is not (valid with duplicates too) -/
theorem sortAux_split (ts : List Edge) (p c : Node) (hpc : (p, c) ∈ ts) :
    ∀ (fuel : Nat) (todo : List Node) (out : List (List Node)),
      sortAux ts fuel todo = some out → p ∈ todo → c ∈ todo →
      ∃ l1 l2, out.flatten = l1 ++ l2 ∧ p ∈ l1 ∧ c ∉ l1 := by
  intro fuel
  induction fuel with
  | zero =>
    intro todo out h hp _
    simp only [sortAux] at h
    split at h
    · rename_i he
      simp only [List.isEmpty_iff] at he
      subst he; cases hp
    · cases h
  | succ n ih =>
    intro todo out h hp hc
    simp only [sortAux] at h
    split at h
    · rename_i he
      simp only [List.isEmpty_iff] at he
      subst he; cases hp
    · split at h
      · cases h
      · split at h
        · cases h
        · rename_i rest hrest
          cases h
          have hcl : c ∉ layer ts todo := by
            intro hm
            exact (mem_layer.1 hm).2 p hpc hp
          by_cases hpl : p ∈ layer ts todo
          · exact ⟨layer ts todo, rest.flatten, by simp, hpl, hcl⟩
          · have hp' : p ∈ remaining todo (layer ts todo) := mem_remaining.2 ⟨hp, hpl⟩
            have hc' : c ∈ remaining todo (layer ts todo) := mem_remaining.2 ⟨hc, hcl⟩
            obtain ⟨l1, l2, he, h1, h2⟩ := ih _ _ hrest hp' hc'
            refine ⟨layer ts todo ++ l1, l2, ?_, ?_, ?_⟩
            · simp [he]
            · exact List.mem_append_right _ h1
            · simp [hcl, h2]

/-- **sort_respects**: for every dependency pair whose two ends are items, the
    parent's (first) position is strictly before the child's. -/
theorem sort_respects (ts : List Edge) (items out : List Node) (p c : Node)
    (h : sort ts items = some out) (hpc : (p, c) ∈ ts) (hp : p ∈ items) (hc : c ∈ items) :
    out.idxOf p < out.idxOf c := by
  unfold sort sortAsSubsets at h
  cases hs : sortAux ts items.length items with
  | none => rw [hs] at h; cases h
  | some o =>
    rw [hs] at h
    cases h
    obtain ⟨l1, l2, he, h1, h2⟩ := sortAux_split ts p c hpc _ _ _ hs hp hc
    rw [he, List.idxOf_append, List.idxOf_append, if_pos h1, if_neg h2]
    have := List.idxOf_lt_length_of_mem h1
    omega

/-- a self-dependency on an item always raises -/
theorem sort_selfloop_raises (ts : List Edge) (items : List Node) (n : Node)
    (hn : (n, n) ∈ ts) (hi : n ∈ items) : sort ts items = none := by
  cases h : sort ts items with
  | none => rfl
  | some out =>
    have := sort_respects ts items out n n h hn hi hi
    omega

/-! ## subsets are internally independent -/

theorem sortAux_subsets_independent (ts : List Edge) :
    ∀ (fuel : Nat) (todo : List Node) (out : List (List Node)),
      sortAux ts fuel todo = some out →
      ∀ s ∈ out, ∀ p c, (p, c) ∈ ts → p ∈ s → c ∈ s → False := by
  intro fuel
  induction fuel with
  | zero =>
    intro todo out h
    simp only [sortAux] at h
    split at h
    · cases h; intro s hs; cases hs
    · cases h
  | succ n ih =>
    intro todo out h
    simp only [sortAux] at h
    split at h
    · cases h; intro s hs; cases hs
    · split at h
      · cases h
      · split at h
        · cases h
        · rename_i rest hrest
          cases h
          intro s hs p c hpc hps hcs
          rcases List.mem_cons.1 hs with rfl | hs
          · exact (mem_layer.1 hcs).2 p hpc (mem_layer.1 hps).1
          · exact ih _ _ hrest s hs p c hpc hps hcs

/-- **subsets_independent**: no dependency pair has both ends in one subset. -/
theorem subsets_independent (ts : List Edge) (items : List Node) (out : List (List Node))
    (h : sortAsSubsets ts items = some out) (s : List Node) (hs : s ∈ out)
    (p c : Node) (hpc : (p, c) ∈ ts) : ¬ (p ∈ s ∧ c ∈ s) := by
  rintro ⟨hp, hc⟩
  exact sortAux_subsets_independent ts _ _ _ h s hs p c hpc hp hc

/-- **sort_deterministic**: trivially a function of the two input lists (no set
    iteration order, no hashing in the model; the correspondence check is what
    shows the implementation has the same property). -/
theorem sort_deterministic (ts : List Edge) (items : List Node) (o1 o2 : Option (List Node))
    (h1 : sort ts items = o1) (h2 : sort ts items = o2) : o1 = o2 := h1 ▸ h2

/-! ## non-vacuity -/
example : sort [(2, 1), (3, 2)] [1, 2, 3] = some [3, 2, 1] := by decide
example : sort [(2, 1), (1, 2)] [1, 2, 3] = none := by decide
example : sortAsSubsets [(1, 2)] [4, 1, 2, 3] = some [[4, 1, 3], [2]] := by decide

end SaVerif.Props.C19
